/-
C08 - the optimizers implement their published algorithms.

Part 1 (differential evolution): Model/Strategy.lean is a literal transcription of the ten strategies of
`mystic/strategy.py`; the theorems below hold for ALL populations, best vectors, scale factors, crossover
probabilities, dimensions, candidates, sampled positions, start indices and `random.random()` streams, over ANY
interpretation of `+ - *` and of the order used to compare a draw with the crossover probability (so also for
`Float`, where the same definitions run in the driver).  `random.sample` enters through its documented contract:
it returns DISTINCT POSITIONS of the pool it is handed.

Part 2 (Nelder-Mead) and part 3 (Powell) are further below.
-/
import MysticVerif.Proofs.Strategy
import MysticVerif.Proofs.RefFmin
import MysticVerif.Proofs.NMInit
import MysticVerif.Proofs.Powell
import MysticVerif.Proofs.Brent
import Mathlib.Tactic.FieldSimp
import Mathlib.Tactic.Ring
import Mathlib.Tactic.NormNum
import Mathlib.Tactic.LinearCombination
import Mathlib.Algebra.CharZero.Defs

namespace MysticVerif.C08
open MysticVerif.Strategy MysticVerif.Solver

variable {R X E : Type}

/-! ## Differential evolution: the trial vector -/

/-- **Candidate selection.** `get_random_candidates(NP, exclude, N)`: whatever positions `random.sample` picks
(distinct, inside the pool of `NP - 1` entries), the chosen members are pairwise distinct, none is the candidate
itself, all are valid population indices, and there are as many as asked for. -/
theorem candidates_distinct (np excl : Nat) (ps : List Nat) (h : excl < np) (hps : ∀ p ∈ ps, p < np - 1)
    (hnd : ps.Nodup) :
    (getRandomCandidates np excl ps).Nodup ∧ (getRandomCandidates np excl ps).length = ps.length ∧
    ∀ r ∈ getRandomCandidates np excl ps, r ≠ excl ∧ r < np :=
  ⟨candidates_nodup h hps hnd, candidates_length np excl ps, candidates_mem h hps⟩

example : getRandomCandidates 6 2 [4, 0, 2] = [5, 0, 3] := by decide

/-- **Exponential crossover, as coded** (all strategies except `Best1Bin`, i.e. including the four `*Bin` twins):
the trial is the parent with exactly the `L` cyclically consecutive positions `n0, n0+1, ..` replaced by the
mutant, where `L = min nDim (number of leading draws < CR)`. -/
theorem crossover_exponential [Add R] [Sub R] [Mul R] [LT R] [DecidableLT R] [LE R] [DecidableLE R] [Inhabited R]
    (nm : Name) (hx : nm.cross = .exp) (I : Inst R) (cand : Nat) (ps : List Nat) (n0 : Nat) (us : List R)
    (hn0 : n0 < I.nDim) (hpar : (I.pop.getD cand []).length = I.nDim) :
    let rs := getRandomCandidates I.nPop cand (ps.take nm.kind.ncand)
    let parent := I.pop.getD cand []
    let t := (trialOf nm I cand ps n0 us).1
    let L := runLen I.prob us I.nDim
    L ≤ I.nDim ∧ t.length = I.nDim ∧
    ∀ j, j < I.nDim → t.getD j default =
      if offset n0 I.nDim j < L then mutant nm.kind I rs (parent.getD j default) j else parent.getD j default := by
  intro rs parent t L
  have h0 : ExpInv (mutant nm.kind I rs) parent n0 I.nDim 0 parent := by
    refine ⟨hpar, ?_⟩
    intro j _; simp
  have := expLoop_inv (mutant nm.kind I rs) I.prob parent n0 I.nDim hn0 us n0 0 parent 0 (Nat.zero_le _) hn0
    (fun _ => by unfold offset; simp) h0
  simp only [Nat.zero_add, Nat.sub_zero] at this
  have ht : t = (expLoop (mutant nm.kind I rs) I.prob I.nDim us n0 0 parent 0).1 := by
    show (trialOf nm I cand ps n0 us).1 = _
    unfold trialOf; simp only [hx]; rfl
  rw [ht]
  exact ⟨runLen_le _ _ _, this.1, this.2⟩

/-- **Binomial crossover** (`Best1Bin`, the only strategy whose code runs it): with one draw per position,
position `j` carries the mutant exactly when `j = n0` or `u_j < CR`, and the parent's value otherwise. -/
theorem crossover_binomial [Add R] [Sub R] [Mul R] [LT R] [DecidableLT R] [LE R] [DecidableLE R] [Inhabited R]
    (nm : Name) (hb : nm.cross = .bin) (I : Inst R) (cand : Nat) (ps : List Nat) (n0 : Nat) (us : List R)
    (hus : I.nDim ≤ us.length) (hpar : (I.pop.getD cand []).length = I.nDim) :
    let rs := getRandomCandidates I.nPop cand (ps.take nm.kind.ncand)
    let parent := I.pop.getD cand []
    let t := (trialOf nm I cand ps n0 us).1
    t.length = I.nDim ∧
    ∀ j, j < I.nDim → t.getD j default =
      if j = n0 ∨ us.getD j default < I.prob then mutant nm.kind I rs (parent.getD j default) j
      else parent.getD j default := by
  intro rs parent t
  have ht : t = binLoop (mutant nm.kind I rs) I.prob n0 (us.take I.nDim) 0 parent := by
    show (trialOf nm I cand ps n0 us).1 = _
    unfold trialOf; simp only [hb]; rfl
  have hlen : (us.take I.nDim).length = I.nDim := by simp [List.length_take]; omega
  have := binLoop_spec (mutant nm.kind I rs) I.prob n0 (us.take I.nDim) 0 parent (by rw [hlen, hpar]; omega)
  rw [ht]
  refine ⟨this.1.trans hpar, ?_⟩
  intro j hj
  rw [this.2 j (by rw [hpar]; exact hj), hlen]
  have hg : (us.take I.nDim).getD (j - 0) default = us.getD j default := by
    simp only [Nat.sub_zero, List.getD_eq_getElem?_getD, List.getElem?_take, hj, if_true]
  rw [hg]
  by_cases hc : j = n0 ∨ us.getD j default < I.prob
  · rw [if_pos hc, if_pos ⟨Nat.zero_le _, by omega, hc⟩]
  · rw [if_neg hc, if_neg (fun h => hc h.2.2)]

/-- which loop the code of each strategy runs: binomial only for `Best1Bin` -/
theorem coded_crossover (nm : Name) : nm.cross = .bin ↔ nm = .Best1Bin := by
  cases nm <;> simp [Name.cross]

/-- **Every component of a trial vector is the parent's or `base + F * difference`** of the strategy's formula
(`best + F(r1-r2)`, `r1 + F(r2-r3)`, `x + F(best-x) + F(r1-r2)`, `best + F(r1+r2-r3-r4)`, `r1 + F(r2+r3-r4-r5)`),
for all ten strategies and both crossover loops; together with `candidates_distinct` the `r`s are distinct members
other than the candidate. -/
theorem trial_component [Add R] [Sub R] [Mul R] [LT R] [DecidableLT R] [LE R] [DecidableLE R] [Inhabited R]
    (nm : Name) (I : Inst R) (cand : Nat) (ps : List Nat) (n0 : Nat) (us : List R)
    (hn0 : n0 < I.nDim) (hpar : (I.pop.getD cand []).length = I.nDim) :
    let rs := getRandomCandidates I.nPop cand (ps.take nm.kind.ncand)
    let parent := I.pop.getD cand []
    let t := (trialOf nm I cand ps n0 us).1
    t.length = I.nDim ∧
    ∀ j, j < I.nDim → t.getD j default = parent.getD j default ∨
                      t.getD j default = mutant nm.kind I rs (parent.getD j default) j := by
  intro rs parent t
  cases hx : nm.cross with
  | exp =>
    have := crossover_exponential nm hx I cand ps n0 us hn0 hpar
    refine ⟨this.2.1, ?_⟩
    intro j hj
    have h := this.2.2 j hj
    split_ifs at h
    · exact Or.inr h
    · exact Or.inl h
  | bin =>
    have ht : t = binLoop (mutant nm.kind I rs) I.prob n0 (us.take I.nDim) 0 parent := by
      show (trialOf nm I cand ps n0 us).1 = _
      unfold trialOf; simp only [hx]; rfl
    have hlen : (us.take I.nDim).length ≤ I.nDim := by simp [List.length_take]
    have := binLoop_spec (mutant nm.kind I rs) I.prob n0 (us.take I.nDim) 0 parent (by rw [hpar]; omega)
    rw [ht]
    refine ⟨this.1.trans hpar, ?_⟩
    intro j hj
    have h := this.2 j (by rw [hpar]; exact hj)
    split_ifs at h
    · exact Or.inr h
    · exact Or.inl h

/-- **Trial layouts.** A strategy call only writes its own row of the trial storage - the single list of
`DifferentialEvolutionSolver` (row 0) or `trialSolution[candidate]` of `DifferentialEvolutionSolver2` - with the
trial vector above; population, best solution and every other row are left alone. -/
theorem call_frame [Add R] [Sub R] [Mul R] [LT R] [DecidableLT R] [LE R] [DecidableLE R] [Inhabited R]
    (nm : Name) (I : Inst R) (cand : Nat) (ps : List Nat) (n0 : Nat) (us : List R) :
    (call nm I cand ps n0 us).pop = I.pop ∧ (call nm I cand ps n0 us).best = I.best ∧
    (trialRow I cand = if I.mapSolver = true then cand else 0) ∧
    (∀ r, r ≠ trialRow I cand → (call nm I cand ps n0 us).trial[r]? = I.trial[r]?) ∧
    (trialRow I cand < I.trial.length →
      (call nm I cand ps n0 us).trial[trialRow I cand]? = some (trialOf nm I cand ps n0 us).1) := by
  refine ⟨rfl, rfl, rfl, ?_, ?_⟩
  · intro r hr
    simp [call, Ne.symm hr]
  · intro h
    simp [call, h]

/-- non-vacuity + the F10 observation, kernel-checked: `Rand1Bin`, `RandToBest1Bin`, `Best2Bin`, `Rand2Bin` do NOT
follow the binomial rule.  In this instance (6 members, 2 dimensions, CR = 1, first draw 5 >= CR) each of them
returns the parent unchanged, although the binomial rule always takes component `n0` from the mutant, which
differs from the parent there. -/
def witnessInst : Inst Int :=
  { pop := [[0, 0], [1, 10], [3, 40], [7, 90], [15, 200], [31, 500]], best := [100, 1000], scale := 2, prob := 1,
    nDim := 2, nPop := 6, mapSolver := false, trial := [[0, 0]] }

theorem named_bin_runs_exponential_witness (nm : Name) (hn : nm.namedBin = true) (hne : nm ≠ .Best1Bin) :
    let rs := getRandomCandidates 6 0 ([0, 1, 2, 3, 4].take nm.kind.ncand)
    (trialOf nm witnessInst 0 [0, 1, 2, 3, 4] 1 [5]).1 = [0, 0] ∧
    mutant nm.kind witnessInst rs 0 1 ≠ 0 := by
  cases nm <;> simp [Name.namedBin] at hn hne <;> decide

example : (trialOf .Best1Bin witnessInst 0 [0, 1] 1 [5, 5]).1 = [0, 1000 + 2 * (10 - 40)] := by decide
example : (trialOf .Rand2Exp witnessInst 0 [4, 3, 2, 1, 0] 1 [0, 0, 0]).1
    = [31 + 2 * (15 + 7 - 3 - 1), 500 + 2 * (200 + 90 - 40 - 10)] := by decide

/-! ## Differential evolution: selection -/

/-- **A member is replaced only by a trial of strictly lower energy** (one candidate, `DE.select` =
differential_evolution.py l.314-323 / l.574-583): if any slot of the population or of the energies differs after
the selection, it is the candidate's own slot, the trial energy is strictly below the stored one, and the slot now
holds exactly the trial and its energy. -/
theorem replaced_only_if_strictly_lower [LT E] [DecidableLT E] (s : DE X E) (i : Nat) (y : X) (e : E) (j : Nat)
    (hch : (s.select i y e).pop[j]? ≠ s.pop[j]? ∨ (s.select i y e).popE[j]? ≠ s.popE[j]?) :
    j = i ∧ ∃ ei, s.popE[i]? = some ei ∧ e < ei ∧
      (s.select i y e).pop = s.pop.set i y ∧ (s.select i y e).popE = s.popE.set i e := by
  rcases DE.select_slot s i y e j with h | h
  · rcases hch with hc | hc
    · exact absurd h.1 hc
    · exact absurd h.2 hc
  · exact h

/-- **The same for a whole generation** of `DifferentialEvolutionSolver` and (by `DE.step2_eq_step1`)
`DifferentialEvolutionSolver2`, for ANY cost, penalty, constraints, box and trial vectors: a member that differs
after the generation is `K(trial_j)` for its own trial `trial_j`, whose decorated energy is strictly lower than the
energy the member had, and that energy is what is stored. -/
theorem generation_replaced_only_if_strictly_lower [LinearOrder E] (o : Obj X E) (trials : List X) (s : DE X E)
    (hlen : s.pop.length = s.popE.length) (j : Nat)
    (hch : (DE.step1 o trials s).pop[j]? ≠ s.pop[j]? ∨ (DE.step1 o trials s).popE[j]? ≠ s.popE[j]?) :
    ∃ t ej, trials[j]? = some t ∧ s.popE[j]? = some ej ∧ o.energy (o.K t) < ej ∧
      (DE.step1 o trials s).pop[j]? = some (o.K t) ∧ (DE.step1 o trials s).popE[j]? = some (o.energy (o.K t)) := by
  rw [← DE.step2_eq_step1] at hch ⊢
  unfold DE.step2 at hch ⊢
  simp only at hch ⊢
  rcases DE.selectAll_slot (DE.evalAll o trials s.log).1 0 { s with log := (DE.evalAll o trials s.log).2 } j hlen
    with h | ⟨_, y, e, ej, hy, hej, hlt, hp, hpe⟩
  · rcases hch with hc | hc
    · exact absurd h.1 hc
    · exact absurd h.2 hc
  · rw [DE.evalAll_fst, Nat.sub_zero, List.getElem?_map] at hy
    cases ht : trials[j]? with
    | none => rw [ht] at hy; cases hy
    | some t =>
      rw [ht] at hy
      simp only [Option.map_some, Option.some.injEq, Prod.mk.injEq] at hy
      obtain ⟨rfl, rfl⟩ := hy
      exact ⟨t, ej, rfl, hej, hlt, hp, hpe⟩

/-- non-vacuity: a tie is NOT accepted, a strictly lower trial is (energies in `Nat`) -/
example : ((⟨[10, 20], [5, 7], 10, 5, [], []⟩ : DE Nat Nat).select 1 99 7).pop = [10, 20] := by decide
example : ((⟨[10, 20], [5, 7], 10, 5, [], []⟩ : DE Nat Nat).select 1 99 6).pop = [10, 99] := by decide

/-! ## Nelder-Mead: mystic's staged step machine refines the reference `fmin`

`refFmin` (Model/RefFmin.lean) transcribes `_scipy060optimize.fmin`; `mysticFmin` is what `scipy_optimize.fmin`
makes `NelderMeadSimplexSolver` do.  Both run over the same vertex arithmetic and the same two oracles (`mkVal`:
displaced coordinates of the initial simplex; `conv`: the xtol/ftol test), so the equalities below are about control
structure only: they hold for EVERY objective, start, coefficient set, tolerance, limit and EVERY interpretation of
the scalar operations and of the energy comparison - in particular at `Float`, bit for bit.
`Unconstrained o`: no constraints, no strict ranges, a penalty that is neutral (`e + 0.0`). -/

/-- **The simplex update.** One `_Step` of mystic at generation >= 2 (reflection / expansion / outside and inside
contraction / shrink, then the sort) produces exactly the simplex of one pass of the reference loop body, with the
same number of cost evaluations. -/
theorem nm_update_eq_ref_iter [Add R] [Sub R] [Mul R] [Div R] [LT E] [DecidableLT E] [LE E] [DecidableLE E]
    (o : Obj (Pt R) E) (h : Unconstrained o) (c : Coef R) (s : NM R E) :
    (NM.update o c id s).1.simplex = sortByE (refBody o.raw c s.simplex).1 ∧
    (NM.update o c id s).1.log.length = s.log.length + (refBody o.raw c s.simplex).2 :=
  update_unc h c s

/-- **The initial simplex.** Generation 0 (evaluate the guess) followed by generation 1 (displace one coordinate per
vertex, evaluate, sort) is the reference's initial simplex, after `N + 1` evaluations. -/
theorem nm_init_eq_ref_init [LT E] [DecidableLT E] (o : Obj (Pt R) E) (h : Unconstrained o) (zero : R)
    (mkVal : Pt R → Pt R) (x0 : Pt R) :
    (NM.gen1 o id mkVal (NM.gen0 o zero x0)).simplex = sortByE ((x0, o.raw x0) :: refRows o.raw x0 (mkVal x0) 0) ∧
    (NM.gen1 o id mkVal (NM.gen0 o zero x0)).log.length = 1 + (refRows o.raw x0 (mkVal x0) 0).length :=
  init_unc h zero mkVal x0

/-- when mystic does not stop right after evaluating the guess: `maxfun > 1`, `maxiter > 0`, and the convergence
test is false on the generation-0 simplex (whose other rows carry the energy `inf`) -/
theorem nm_start_iff (o : Obj (Pt R) E) (h : Unconstrained o) (zero : R) (conv : List (Pt R × E) → Bool)
    (x0 : Pt R) (maxiter maxfun : Nat) :
    nmStop conv maxiter maxfun (NM.gen0 o zero x0) 0 = false ↔
      1 < maxfun ∧ 0 < maxiter ∧ conv (NM.gen0 o zero x0).simplex = false := by
  have hl : (NM.gen0 o zero x0).log.length = 1 := by
    simp [NM.gen0, objK_unc h]
  simp only [nmStop, hl, Bool.or_eq_false_iff, decide_eq_false_iff_not, Nat.not_le]
  constructor
  · rintro ⟨⟨a, b⟩, c⟩; exact ⟨a, b, c⟩
  · rintro ⟨a, b, c⟩; exact ⟨⟨a, b⟩, c⟩

/-- **`nm_refines_ref`.** On an unconstrained problem, whenever mystic goes on to build the simplex at all,
`fmin` returns exactly what the reference returns: final simplex (hence `xopt = sim[0]` and its energy), iteration
count, evaluation count and warnflag. -/
theorem nm_refines_ref [Add R] [Sub R] [Mul R] [Div R] [LT E] [DecidableLT E] [LE E] [DecidableLE E]
    (o : Obj (Pt R) E) (h : Unconstrained o) (c : Coef R) (zero : R) (conv : List (Pt R × E) → Bool)
    (mkVal : Pt R → Pt R) (x0 : Pt R) (maxiter maxfun : Nat)
    (hstart : nmStop conv maxiter maxfun (NM.gen0 o zero x0) 0 = false) :
    mysticFmin o c zero conv mkVal x0 maxiter maxfun = refFmin o.raw c conv mkVal x0 maxiter maxfun := by
  unfold mysticFmin refFmin
  simp only [hstart, Bool.false_eq_true, if_false]
  have hi := init_unc h zero mkVal x0 (E := E)
  have hl := loop_unc h c conv maxiter maxfun maxiter (NM.gen1 o id mkVal (NM.gen0 o zero x0)) 1
  rw [hi.1, hi.2] at hl
  simp only [nmOut]
  rw [← hl]

/-- the one situation excluded above, as the code has it: with `maxfun <= 1` or `maxiter = 0` mystic returns the
guess after ONE evaluation and zero iterations, while the reference always builds its simplex first
(`N + 1` evaluations, `iterations = 1`). -/
theorem nm_stops_before_simplex [Add R] [Sub R] [Mul R] [Div R] [LT E] [DecidableLT E] [LE E] [DecidableLE E]
    (o : Obj (Pt R) E) (h : Unconstrained o) (c : Coef R) (zero : R) (conv : List (Pt R × E) → Bool)
    (mkVal : Pt R → Pt R) (x0 : Pt R) (maxiter maxfun : Nat)
    (hstop : nmStop conv maxiter maxfun (NM.gen0 o zero x0) 0 = true) :
    (mysticFmin o c zero conv mkVal x0 maxiter maxfun).iterations = 0 ∧
    (mysticFmin o c zero conv mkVal x0 maxiter maxfun).funcalls = 1 := by
  unfold mysticFmin
  simp only [hstop, if_true]
  constructor <;> simp [nmOut, NM.gen0, objK_unc h]

/-- the reference's `fval = min(fsim)` is the energy of `sim[0]` (what mystic reports as `bestEnergy`): the
simplex the loop ends with is sorted -/
theorem ref_fval_is_head [Add R] [Sub R] [Mul R] [Div R] [LinearOrder E]
    (f : Pt R → E) (c : Coef R) (conv : List (Pt R × E) → Bool) (mkVal : Pt R → Pt R) (x0 : Pt R)
    (maxiter maxfun : Nat) :
    minE ((refFmin f c conv mkVal x0 maxiter maxfun).sim.map Prod.snd)
      = (refFmin f c conv mkVal x0 maxiter maxfun).sim.head?.map Prod.snd := by
  have hloop : ∀ (fuel : Nat) (sim : List (Pt R × E)) (fc it : Nat), SortedE sim →
      SortedE (refLoop f c conv maxiter maxfun fuel sim fc it).1 := by
    intro fuel
    induction fuel with
    | zero => intro sim fc it hs; exact hs
    | succ fuel ih =>
      intro sim fc it hs
      unfold refLoop
      split_ifs
      · exact hs
      · exact ih _ _ _ (sorted_sortByE _)
      · exact hs
  have hs := hloop maxiter (sortByE ((x0, f x0) :: refRows f x0 (mkVal x0) 0))
    (1 + (refRows f x0 (mkVal x0) 0).length) 1 (sorted_sortByE _)
  have hmin : ∀ (l : List (Pt R × E)), SortedE l → minE (l.map Prod.snd) = l.head?.map Prod.snd := by
    intro l hl
    cases l with
    | nil => rfl
    | cons p ps =>
      simp only [List.map_cons, minE, List.head?_cons, Option.map_some, Option.some.injEq]
      have hp : ∀ q ∈ ps, p.2 ≤ q.2 := (List.pairwise_cons.mp hl).1
      clear hl
      induction ps with
      | nil => rfl
      | cons q qs ih =>
        simp only [List.map_cons, List.foldl_cons]
        have : ¬ q.2 < p.2 := not_lt.mpr (hp q List.mem_cons_self)
        rw [if_neg this]
        exact ih (fun r hr => hp r (List.mem_cons_of_mem _ hr))
  exact hmin _ hs

/-- non-vacuity at `Int` (exact arithmetic, integer division): a 1-D run of both programs on `f x = (x-3)^2`,
stopping on the iteration limit -/
def exObj : Obj (Pt Int) Int :=
  { raw := fun x => (x.getD 0 0 - 3) * (x.getD 0 0 - 3), pen := fun _ => 0, K := id, inBox := fun _ => true,
    useRange := false, top := 1000000, add := (· + ·) }
def exCoef : Coef Int := { one := 1, rho := 1, chi := 2, psi := 1, sigma := 1, n := 1 }

example : Unconstrained exObj := ⟨fun _ => rfl, rfl, fun e _ => Int.add_zero e⟩
example : (mysticFmin exObj exCoef 0 (fun _ => false) (fun x => x.map (· + 2)) [10] 4 100).sim
    = [([2], 1), ([6], 9)] := by decide
example : (refFmin exObj.raw exCoef (fun _ => false) (fun x => x.map (· + 2)) [10] 4 100).iterations = 4 := by decide

/-! ### the two oracles made concrete (Model/NMInit.lean)

`nm_refines_ref` takes the displaced coordinates `mkVal` and the convergence test `conv` as parameters shared by the
two programs.  They are NOT the same expressions in the two source files: the reference tests the COORDINATE for zero
and multiplies from the left, mystic multiplies from the right and tests the PRODUCT.  The theorems below state when
the two agree, and what both then compute: the absolute offset `zdelt` for coordinates that are exactly zero and for
no others, the relative displacement `(1+0.05)*x` for everything else - however small. -/

/-- **The initial-simplex rule, any interpretation.** If multiplying by `1+radius` neither creates nor destroys a zero
(`isZero (x*(1+radius)) = isZero x`: true at Float for radius = 0.05 - a product with 1.05 rounds to zero only for a
zero - and in every ring without zero divisors) and commutes, mystic's displaced coordinates are the reference's,
with `zdelt = radius**2 * 0.1`. -/
theorem nm_initial_simplex_rule [Add R] [Mul R] (isZero : R → Bool) (one radius tenth : R)
    (hz : ∀ x, isZero (x * (one + radius)) = isZero x)
    (hc : ∀ x, x * (one + radius) = (one + radius) * x) (x0 : Pt R) :
    mysticInitVal isZero one radius tenth x0 = refInitVal isZero one radius ((radius * radius) * tenth) x0 := by
  unfold mysticInitVal refInitVal
  apply List.map_congr_left
  intro x _
  rw [hz x, hc x]

/-- **`zdelt` only for exact zeros.** Over a field (`1 + radius ≠ 0`): coordinate `k` of mystic's displaced vector
is `zdelt = radius**2 * 0.1` when `x0[k] = 0` and `(1+radius) * x0[k]` - a NON-zero number - for every other
`x0[k]`, with no threshold of "smallness". -/
theorem nm_zdelt_only_for_exact_zero [Field R] [DecidableEq R] (radius tenth : R) (hr : 1 + radius ≠ 0)
    (x0 : Pt R) (k : Nat) (hk : k < x0.length) :
    (mysticInitVal (fun v => decide (v = 0)) 1 radius tenth x0)[k]? =
        some (if x0[k] = 0 then (radius * radius) * tenth else (1 + radius) * x0[k]) ∧
    (x0[k] ≠ 0 → (1 + radius) * x0[k] ≠ 0) := by
  constructor
  · unfold mysticInitVal
    rw [List.getElem?_map, List.getElem?_eq_getElem hk]
    simp only [Option.map_some, decide_eq_true_eq, mul_eq_zero, hr, or_false, Option.some.injEq]
    split_ifs
    · rfl
    · exact mul_comm _ _
  · intro h
    exact mul_ne_zero hr h

/-- the same over a field, as an equality of the two programs' vectors -/
theorem nm_initial_simplex_rule_field [Field R] [DecidableEq R] (radius tenth : R) (hr : 1 + radius ≠ 0) (x0 : Pt R) :
    mysticInitVal (fun v => decide (v = 0)) 1 radius tenth x0
      = refInitVal (fun v => decide (v = 0)) 1 radius ((radius * radius) * tenth) x0 := by
  apply nm_initial_simplex_rule
  · intro x
    simp [mul_eq_zero, hr]
  · intro x; exact mul_comm _ _

/-- **`nm_refines_ref` with the initial simplex as each program computes it.** mystic's `fmin` with
`val = x0*(1+radius); val[val==0] = radius**2*0.1` returns what the reference returns with
`(1+nonzdelt)*y[k] if y[k] != 0 else zdelt`, for nonzdelt = radius and zdelt = radius**2*0.1. -/
theorem nm_refines_ref_concrete_init [Add R] [Sub R] [Mul R] [Div R] [LT E] [DecidableLT E] [LE E] [DecidableLE E]
    (o : Obj (Pt R) E) (h : Unconstrained o) (c : Coef R) (zero : R) (conv : List (Pt R × E) → Bool)
    (isZero : R → Bool) (one radius tenth : R)
    (hz : ∀ x, isZero (x * (one + radius)) = isZero x)
    (hc : ∀ x, x * (one + radius) = (one + radius) * x)
    (x0 : Pt R) (maxiter maxfun : Nat)
    (hstart : nmStop conv maxiter maxfun (NM.gen0 o zero x0) 0 = false) :
    mysticFmin o c zero conv (mysticInitVal isZero one radius tenth) x0 maxiter maxfun
      = refFmin o.raw c conv (refInitVal isZero one radius ((radius * radius) * tenth)) x0 maxiter maxfun := by
  rw [nm_refines_ref o h c zero conv _ x0 maxiter maxfun hstart]
  unfold refFmin
  rw [nm_initial_simplex_rule isZero one radius tenth hz hc x0]

/-- **The convergence test is non-strict.** Over linear orders: `CandidateRelativeTolerance(xtol, ftol)` / the
reference's `break` test holds exactly when EVERY coordinate difference to the best vertex is `<= xtol` and EVERY
energy difference is `<= ftol` (equality at a tolerance converges), on a simplex with at least two vertices of
dimension >= 1. -/
theorem nm_convergence_test_iff [LinearOrder R] [Sub R] [LinearOrder E] [Sub E] (absR : R → R) (absE : E → E)
    (xtol : R) (ftol : E) (x0 : Pt R) (f0 : E) (rest : List (Pt R × E)) :
    crtConv absR absE xtol ftol ((x0, f0) :: rest) = true ↔
      crtDx absR x0 rest ≠ [] ∧ rest ≠ [] ∧
      (∀ d ∈ crtDx absR x0 rest, d ≤ xtol) ∧ (∀ p ∈ rest, absE (f0 - p.2) ≤ ftol) := by
  unfold crtConv
  cases hx : pyMax (crtDx absR x0 rest) with
  | none =>
    have : crtDx absR x0 rest = [] := by
      cases hl : crtDx absR x0 rest with
      | nil => rfl
      | cons a as => rw [hl] at hx; simp [pyMax] at hx
    simp only [hx]
    simp [this]
  | some dx =>
    cases hf : pyMax (crtDf absE f0 rest) with
    | none =>
      have : rest = [] := by
        cases hl : rest with
        | nil => rfl
        | cons a as => rw [hl] at hf; simp [pyMax, crtDf] at hf
      simp only [hx, hf]
      simp [this]
    | some df =>
      have hxne : crtDx absR x0 rest ≠ [] := by
        intro h0; rw [h0] at hx; simp [pyMax] at hx
      have hrne : rest ≠ [] := by
        intro h0; rw [h0] at hf; simp [pyMax, crtDf] at hf
      simp only [hx, hf, Bool.and_eq_true, decide_eq_true_eq]
      rw [pyMax_le_iff _ dx xtol hx, pyMax_le_iff _ df ftol hf]
      constructor
      · rintro ⟨h1, h2⟩
        refine ⟨hxne, hrne, h1, ?_⟩
        intro p hp
        exact h2 _ (by simp only [crtDf, List.mem_map]; exact ⟨p, hp, rfl⟩)
      · rintro ⟨_, _, h1, h2⟩
        refine ⟨h1, ?_⟩
        intro b hb
        simp only [crtDf, List.mem_map] at hb
        obtain ⟨p, hp, rfl⟩ := hb
        exact h2 p hp

/-- non-vacuity (`Rat`, radius = 1/20, tenth = 1/10): the zero coordinate gets zdelt = 1/4000 = 0.00025, the tiny
one 21/20 of itself; and at `Int` the convergence test accepts equality at both tolerances and rejects one above -/
example : mysticInitVal (fun v => decide (v = 0)) (1 : Rat) (1/20) (1/10) [0, 1/1000000000, -2]
    = [1/4000, 21/20000000000, -21/10] := by decide +kernel
example : refInitVal (fun v => decide (v = 0)) (1 : Rat) (1/20) (1/4000) [0, 1/1000000000, -2]
    = [1/4000, 21/20000000000, -21/10] := by decide +kernel
example : crtConv (R := Int) (E := Int) (fun a => (a.natAbs : Int)) (fun a => (a.natAbs : Int)) 2 3 [([0, 0], 5), ([2, -1], 8), ([0, 1], 2)] = true := by decide
example : crtConv (R := Int) (E := Int) (fun a => (a.natAbs : Int)) (fun a => (a.natAbs : Int)) 2 2 [([0, 0], 5), ([2, -1], 8), ([0, 1], 2)] = false := by decide

/-! ### the coefficient sets (Model/NMInit.lean `mysticCoef`)

`nm_refines_ref` holds for EVERY coefficient record `c`: run with the same coefficients the two programs agree.  What
is left to state is which coefficients `Solve(adaptive=...)` selects. -/

/-- **The adaptive coefficients are the published ones, for every dimension.** Over a field of characteristic 0, for
every `n ≠ 0` (also `n = 1`): what `_Step` computes with `adaptive` - `1+2/dim`, `0.75-1/(2*dim)`, `1-1/dim` - is the
Gao-Han set `(n+2)/n`, `(3n-2)/(4n)`, `(n-1)/n` with `rho = 1`; without `adaptive` it is the standard set
`(1, 2, 1/2, 1/2)` of the reference (l.180). -/
theorem nm_coefficients_are_published [Field R] [CharZero R] (adaptive : Bool) (n : R) (hn : n ≠ 0) :
    mysticCoef (1 : R) 2 (1 / 2) (3 / 4) adaptive n = publishedCoef 1 2 3 4 adaptive n := by
  unfold mysticCoef publishedCoef
  cases adaptive
  · simp
  · simp only [if_true, Coef.mk.injEq, true_and, and_true]
    refine ⟨?_, ?_, ?_⟩ <;> (field_simp; try ring)

/-- **One dimension: the adaptive shrink coefficient is 0** (`1 - 1/1`), the contraction coefficient 1/4, the expansion
coefficient 3 - not the standard 1/2, 1/2, 2 - and a shrink step then puts every vertex ON the best one
(`sim[j] = sim[0] + 0*(sim[j]-sim[0])`), after which the convergence test compares zeros. -/
theorem nm_adaptive_one_dimension [Field R] [CharZero R] :
    (mysticCoef (1 : R) 2 (1 / 2) (3 / 4) true 1).sigma = 0 ∧
    (mysticCoef (1 : R) 2 (1 / 2) (3 / 4) true 1).psi = 1 / 4 ∧
    (mysticCoef (1 : R) 2 (1 / 2) (3 / 4) true 1).chi = 3 ∧
    ∀ (c : Coef R), c.sigma = 0 → ∀ (x0 xj : Pt R), xj.length = x0.length → shrinkPt c x0 xj = x0 := by
  refine ⟨by simp [mysticCoef], by simp [mysticCoef]; norm_num, by simp [mysticCoef]; norm_num, ?_⟩
  intro c hc x0
  unfold shrinkPt vadd vscale vsub
  rw [hc]
  induction x0 with
  | nil => intro xj _; simp
  | cons a as ih =>
    intro xj hl
    cases xj with
    | nil => simp at hl
    | cons b bs =>
      simp only [List.length_cons, Nat.add_right_cancel_iff] at hl
      have := ih bs hl
      simp only [List.zipWith_cons_cons, List.map_cons, zero_mul, add_zero, List.cons.injEq, true_and] at this ⊢
      exact this

/-- **Two dimensions: the adaptive set IS the standard set** (`1+2/2 = 2`, `3/4-1/4 = 1/2`, `1-1/2 = 1/2`): for `n = 2`
the keyword changes nothing; for every other dimension at least the expansion coefficient differs. -/
theorem nm_adaptive_two_dimensions_is_standard [Field R] [CharZero R] (n : R) (hn : n ≠ 0) :
    mysticCoef (1 : R) 2 (1 / 2) (3 / 4) true 2 = mysticCoef 1 2 (1 / 2) (3 / 4) false 2 ∧
    ((mysticCoef (1 : R) 2 (1 / 2) (3 / 4) true n).chi = (mysticCoef (1 : R) 2 (1 / 2) (3 / 4) false n).chi → n = 2) := by
  constructor
  · simp only [mysticCoef, if_true, Bool.false_eq_true, if_false, Coef.mk.injEq, true_and, and_true]
    refine ⟨?_, ?_, ?_⟩ <;> norm_num
  · simp only [mysticCoef, if_true, Bool.false_eq_true, if_false]
    intro h
    have h2 : (2 : R) / n = 1 := by linear_combination h
    field_simp at h2
    exact h2.symm

/-- non-vacuity at `Rat`: n = 1, 3 and the standard set -/
example : (mysticCoef (1 : Rat) 2 (1 / 2) (3 / 4) true 1).sigma = 0 := by decide +kernel
example : ((mysticCoef (1 : Rat) 2 (1 / 2) (3 / 4) true 3).chi, (mysticCoef (1 : Rat) 2 (1 / 2) (3 / 4) true 3).psi,
    (mysticCoef (1 : Rat) 2 (1 / 2) (3 / 4) true 3).sigma) = (5 / 3, 7 / 12, 2 / 3) := by decide +kernel
example : shrinkPt (mysticCoef (1 : Rat) 2 (1 / 2) (3 / 4) true 1) [5] [7] = [5] := by decide +kernel
example : shrinkPt (mysticCoef (1 : Rat) 2 (1 / 2) (3 / 4) false 1) [5] [7] = [6] := by decide +kernel

/-! ## Powell: the staged machine of `PowellDirectionalSolver` refines the reference direction-set loop

`Powell.refPowell` transcribes `_scipy060optimize.fmin_powell`, `Powell.mysticPowell` the generation-staged
`_Step` under `fmin_powell`'s `Solve` with `NormalizedChangeOverGeneration(ftol, 2)`.  The Brent line search and the
cost are oracles (ANY functions), the energy arithmetic of the `t`-test and the comparison are arbitrary operations:
the statements are about the bookkeeping - `fx`, `delta`, `bigind`, extrapolation, `t < 0`, direction replacement,
stop tests - and hold for every objective, start, direction set, tolerance and limit. -/

open MysticVerif.Powell in
/-- **`powell_refines_ref`.** Given the same line search, `fmin_powell` returns exactly what the reference returns -
minimiser, minimum, direction set, iteration and evaluation counts, warnflag, and the same sequence of line
searches and extrapolated points (`reqs`, `exts`) - provided (i) mystic does not stop right after evaluating the
guess (`maxfun > 1`, `maxiter > 0`) and (ii) the convergence test is not the ONLY reason for the reference to stop
in its FIRST iteration (F15: `NormalizedChangeOverGeneration(ftol, 2)` needs three history entries). -/
theorem powell_refines_ref [Sub R] [Mul R] [Add E] [Sub E] [Mul E] [LT E] [DecidableLT E]
    (c : Cfg R E) (fuel : Nat) (x0 : Pt R) (direc : List (Pt R))
    (hstart : mStop c (mGen0 c x0 direc) = false)
    (h15 : c.conv (c.f x0) (sweep c (init c x0 direc)).fval = true →
      (c.maxfun ≤ (sweep c (init c x0 direc)).fcalls ∨ c.maxiter ≤ 1)) :
    mysticPowell c fuel x0 direc = refPowell c fuel x0 direc := by
  unfold mysticPowell refPowell
  simp only [hstart, Bool.false_eq_true, if_false]
  cases fuel with
  | zero => rfl
  | succ fuel =>
    unfold mLoop Powell.refLoop
    have hs : (mGen1 c (mGen0 c x0 direc)).s = sweep c (init c x0 direc) := rfl
    have hinv : MInv (mGen1 c (mGen0 c x0 direc)) := ⟨rfl, Nat.le_refl 1⟩
    have hfx : (sweep c (init c x0 direc)).fx = c.f x0 := sweep_fx c (init c x0 direc)
    have hstop : mStop c (mGen1 c (mGen0 c x0 direc)) = refStop c (sweep c (init c x0 direc)) := by
      unfold mStop refStop
      rw [hs, hfx]
      have hit : (sweep c (init c x0 direc)).iter = 1 := rfl
      have hl : (mGen1 c (mGen0 c x0 direc)).hist.length - 1 = 1 := rfl
      have hn : ncog2 c.conv (mGen1 c (mGen0 c x0 direc)).hist = false := rfl
      rw [hit, hl, hn]
      cases hc : c.conv (c.f x0) (sweep c (init c x0 direc)).fval with
      | false => simp
      | true =>
        rcases h15 hc with h | h
        · simp [h]
        · simp [h]
    rw [hstop, hs]
    split_ifs
    · rfl
    · rw [← hs]; exact mLoop_eq_refLoop c fuel _ hinv

open MysticVerif.Powell in
/-- **F15, exactly.** When the reference converges in its first iteration and no limit is reached there, the
reference stops at iteration 1 while `fmin_powell` goes on: whatever it finally returns has `iter >= 2`. -/
theorem powell_first_iteration_gap [Sub R] [Mul R] [Add E] [Sub E] [Mul E] [LT E] [DecidableLT E]
    (c : Cfg R E) (fuel : Nat) (x0 : Pt R) (direc : List (Pt R))
    (hstart : mStop c (mGen0 c x0 direc) = false)
    (hconv : c.conv (c.f x0) (sweep c (init c x0 direc)).fval = true)
    (hfun : ¬ c.maxfun ≤ (sweep c (init c x0 direc)).fcalls) (hiter : ¬ c.maxiter ≤ 1) :
    refPowell c (fuel + 1) x0 direc = some (finish c (sweep c (init c x0 direc))) ∧
    ∀ o, mysticPowell c (fuel + 1) x0 direc = some o → 2 ≤ o.st.iter := by
  have hfx : (sweep c (init c x0 direc)).fx = c.f x0 := sweep_fx c (init c x0 direc)
  constructor
  · unfold refPowell Powell.refLoop
    have : refStop c (sweep c (init c x0 direc)) = true := by
      unfold refStop; rw [hfx, hconv]; rfl
    simp [this]
  · have hmono : ∀ (fuel : Nat) (m : MSt R E) (o : Out R E), mLoop c fuel m = some o → m.s.iter ≤ o.st.iter := by
      intro fuel
      induction fuel with
      | zero => intro m o h; cases h
      | succ fuel ih =>
        intro m o h
        unfold mLoop at h
        split_ifs at h
        · cases h; exact Nat.le_refl _
        · have := ih _ _ h
          have hi : (mGenN c m).s.iter = m.s.iter + 1 := by
            unfold mGenN; simp only [sweep_iter, extrapolate_iter]
          omega
    intro o ho
    unfold mysticPowell at ho
    simp only [hstart, Bool.false_eq_true, if_false] at ho
    unfold mLoop at ho
    have hns : mStop c (mGen1 c (mGen0 c x0 direc)) = false := by
      unfold mStop
      have hs : (mGen1 c (mGen0 c x0 direc)).s = sweep c (init c x0 direc) := rfl
      have hl : (mGen1 c (mGen0 c x0 direc)).hist.length - 1 = 1 := rfl
      have hn : ncog2 c.conv (mGen1 c (mGen0 c x0 direc)).hist = false := rfl
      rw [hs, hl, hn]; simp [hfun, hiter]
    simp only [hns, Bool.false_eq_true, if_false] at ho
    have := hmono _ _ _ ho
    have hi : (mGenN c (mGen1 c (mGen0 c x0 direc))).s.iter = 2 := by
      unfold mGenN; simp only [sweep_iter, extrapolate_iter]; rfl
    omega

open MysticVerif.Powell in
/-- **`bigind`** after a direction loop is `0` or the index of one of the `N` directions searched. -/
theorem powell_bigind_valid [Sub E] [LT E] [DecidableLT E] (c : Cfg R E) (s : St R E) :
    (sweep c s).bigind = 0 ∨ (sweep c s).bigind < s.direc.length := by
  unfold sweep
  simp only
  rcases dirLoop_bigind c.ls s.direc 0 { s with fx := s.fval, delta := c.zeroE, bigind := 0 } with h | h
  · left; exact h
  · right; omega

open MysticVerif.Powell in
/-- **`delta` and `bigind`.** After a direction loop `delta` is at least `0` (its start value) and at least every
decrease `fx2 - fval` of the sweep; and either no decrease exceeded `0` (`delta = 0`, `bigind = 0`) or `delta` IS
one of the decreases, the largest, and `bigind` is the FIRST direction that achieved it (strict `>` in the code). -/
theorem powell_delta_bigind_spec [Sub E] [LinearOrder E] (c : Cfg R E) (s : St R E) :
    let s0 : St R E := { s with fx := s.fval, delta := c.zeroE, bigind := 0 }
    let ds := decs c.ls s.direc 0 s0
    c.zeroE ≤ (sweep c s).delta ∧ (∀ e ∈ ds, e ≤ (sweep c s).delta) ∧
    (((sweep c s).delta = c.zeroE ∧ (sweep c s).bigind = 0) ∨
     ∃ k, ds[k]? = some (sweep c s).delta ∧ (sweep c s).bigind = k ∧ c.zeroE < (sweep c s).delta ∧
          ∀ j, j < k → ∀ e, ds[j]? = some e → e < (sweep c s).delta) := by
  intro s0 ds
  have h := dirLoop_delta c.ls s.direc 0 s0
  obtain ⟨h1, h2, h3⟩ := h
  refine ⟨h1, h2, ?_⟩
  rcases h3 with h3 | ⟨k, a, b, c', d⟩
  · exact Or.inl h3
  · have hb : (dirLoop c.ls s.direc 0 s0).bigind = k := by omega
    exact Or.inr ⟨k, a, hb, c', d⟩

open MysticVerif.Powell in
/-- **Direction replacement.** The second half of an iteration keeps the number of directions, and either leaves
the set alone or performs exactly `direc[bigind] = direc[-1]; direc[-1] = <the scaled new direction x - x1>`. -/
theorem powell_direction_replacement [Sub R] [Mul R] [Add E] [Sub E] [Mul E] [LT E] [DecidableLT E]
    (c : Cfg R E) (s : St R E) :
    (extrapolate c s).direc.length = s.direc.length ∧
    ((extrapolate c s).direc = s.direc ∨
     (extrapolate c s).direc = (s.direc.set s.bigind (s.direc.getLast?.getD [])).set (s.direc.length - 1)
        (c.ls s.x (vsub s.x s.x1)).xi) := by
  unfold extrapolate
  simp only
  split_ifs <;> simp

/-- non-vacuity at `Int`: an exact line search on `f x = (x-3)^2`; both programs take two iterations, four
evaluations, and the hypotheses of `powell_refines_ref` hold -/
def exCfg : Powell.Cfg Int Int :=
  { ls := fun p _ => { fret := 0, x := [3], xi := [3 - p.getD 0 0], ncalls := 1 },
    f := fun x => (x.getD 0 0 - 3) * (x.getD 0 0 - 3), conv := fun a b => decide (a = b),
    two := 2, twoE := 2, zeroE := 0, maxiter := 100, maxfun := 100 }

example : Powell.mStop exCfg (Powell.mGen0 exCfg [0] [[1]]) = false := by decide
example : exCfg.conv (exCfg.f [0]) (Powell.sweep exCfg (Powell.init exCfg [0] [[1]])).fval = false := by decide
example : (Powell.refPowell exCfg 10 [0] [[1]]).map (fun o => (o.st.x, o.st.iter, o.st.fcalls, o.warnflag))
    = some ([3], 2, 4, 0) := by decide
example : (Powell.mysticPowell exCfg 10 [0] [[1]]).map (fun o => (o.st.x, o.st.iter, o.st.fcalls, o.warnflag))
    = some ([3], 2, 4, 0) := by decide
/-- and the F15 situation: started at the minimiser the reference stops after iteration 1, mystic after iteration 2 -/
example : (Powell.refPowell exCfg 10 [3] [[1]]).map (fun o => o.st.iter) = some 1 := by decide
example : (Powell.mysticPowell exCfg 10 [3] [[1]]).map (fun o => o.st.iter) = some 2 := by decide

/-! ## The Brent line search (`bracket`, `brent`, `_linesearch_powell`)

`Model/Brent.lean` transcribes the three routines over an abstract scalar type.  The first group of statements holds
over ANY interpretation of `+ - * /`, `abs`, `<`, `<=`, `==` and of the literals (so also for `Float`, NaN included);
the second group needs a linear order on the values (no NaN) and still leaves the arithmetic uninterpreted: they are
statements about which comparisons the code makes, for every function, bracket, tolerance, `maxiter` and fuel. -/

section brent
open MysticVerif.Brent

/-- **Every evaluation is logged once and counted; Brent's loop terminates within `maxiter` passes.**  Whenever
`brent(func, brack, tol, full_output=1, maxiter)` returns: every log entry is `(alpha, func alpha)`; the log holds
exactly the bracket's evaluations followed by Brent's own; the `funcalls` it REPORTS counts only its own (the
bracket's count is overwritten by `funcalls = 1`, l.1413), equals `iter + 1`, and `iter <= maxiter`. -/
theorem brent_evaluations_logged [Add R] [Sub R] [Mul R] [Div R] [Neg R] [LT R] [DecidableLT R] [LE R] [DecidableLE R]
    [BEq R] (k : K R) (f : R → R) (brack : Brack R) (tol : R) (maxiter bmax fuel : Nat) (o : Out R)
    (h : brent k f brack tol maxiter bmax fuel = .ok o) :
    Faithful f o.log ∧ o.log.length = o.nbracket + o.funcalls ∧ o.funcalls = o.iter + 1 ∧ o.iter ≤ maxiter := by
  obtain ⟨bk, hb, ho⟩ := brent_ok k f brack tol maxiter bmax fuel o h
  obtain ⟨hf, hn⟩ := getBracketInfo_log k f brack bmax fuel bk hb
  obtain ⟨l, h1, h2, h3, h4, h5, h6⟩ := optimize_log k f tol maxiter bk o ho
  refine ⟨by rw [h1]; exact hf.append h2, ?_, h4, h5⟩
  rw [h1, List.length_append, h6, hn, h3]

/-- **`bracket` terminates within the fuel bound and counts its evaluations.**  With `maxiter + 2` units of fuel the
model never runs out (pass `maxiter + 2` raises "Too many iterations"); a normal return has logged every evaluation
once, reports exactly that many, and made at most two per pass. -/
theorem bracket_terminates [Add R] [Sub R] [Mul R] [Div R] [Neg R] [LT R] [DecidableLT R] [LE R] [DecidableLE R] [BEq R]
    (k : K R) (f : R → R) (xa xb : R) (maxiter fuel : Nat) (hf : maxiter + 2 ≤ fuel) :
    (∀ lg, bracket k f xa xb maxiter fuel ≠ .error (.fuel, lg)) ∧
    ∀ r, bracket k f xa xb maxiter fuel = .ok r →
      Faithful f r.log ∧ r.funcalls = r.log.length ∧ 3 ≤ r.funcalls ∧ r.funcalls ≤ 3 + 2 * (maxiter + 1) :=
  ⟨fun lg => bracket_fuel k f xa xb maxiter fuel lg hf, fun r h => bracket_log k f xa xb maxiter fuel r h⟩

/-- **`bracket` goes downhill.**  Over a linear order, a normal return `(xa, xb, xc, fa, fb, fc)` consists of evaluated
points with their values, `fb <= fa`, `fb <= fc`, and `fb` is not above the value at either START point.  `fb` is the
least value evaluated, except after the exit `elif (fw > fb): xc = w; fc = fw; return`, which forgets the strictly
lower point `(xc, fc)`: if anything evaluated is below `fb` then `fb < fc` strictly. -/
theorem bracket_downhill [LinearOrder R] [Add R] [Sub R] [Mul R] [Div R] [Neg R] [BEq R]
    (k : K R) (f : R → R) (xa xb : R) (maxiter fuel : Nat) (r : Bk R) (h : bracket k f xa xb maxiter fuel = .ok r) :
    r.fb ≤ r.fa ∧ r.fb ≤ r.fc ∧ r.fb ≤ f xa ∧ r.fb ≤ f xb ∧
    (r.xa, r.fa) ∈ r.log ∧ (r.xb, r.fb) ∈ r.log ∧ (r.xc, r.fc) ∈ r.log ∧ r.fb = f r.xb ∧
    ((∃ e ∈ r.log, e.2 < r.fb) → r.fb < r.fc) := by
  have hs := bracket_spec k f xa xb maxiter fuel r h
  exact ⟨hs.ba, hs.bc, le_trans hs.start (min_le_left _ _), le_trans hs.start (min_le_right _ _), hs.memA, hs.memB,
    hs.memC, hs.faith _ hs.memB, hs.least⟩

/-- **Brent returns the best point it evaluated itself** (the full statement "the least of ALL evaluated values" is
false: `brent_can_return_above_an_evaluated_point`).  Over a linear order, from ANY bracket: Brent's own evaluations
are `l1 ++ [(xmin, fval)] ++ l2` (after the bracket's), nothing in `l1` is lower than `fval` and everything in `l2` is
STRICTLY higher - `x` is replaced on `fu <= fx`, so the returned point is the LAST lowest one -, `fval = func xmin`,
and `fval` is not above the value at the bracket's middle point (Brent's first evaluation). -/
theorem brent_returns_last_lowest [LinearOrder R] [Add R] [Sub R] [Mul R] [Div R] [Neg R] [BEq R]
    (k : K R) (f : R → R) (tol : R) (maxiter : Nat) (bk : Bk R) (o : Out R) (h : optimize k f tol maxiter bk = .ok o) :
    (∃ l1 l2, o.log = bk.log ++ (l1 ++ (o.xmin, o.fval) :: l2) ∧ (∀ e ∈ l1, o.fval ≤ e.2) ∧ (∀ e ∈ l2, o.fval < e.2) ∧
      o.funcalls = (l1 ++ (o.xmin, o.fval) :: l2).length) ∧ o.fval = f o.xmin ∧ o.fval ≤ f bk.xb := by
  obtain ⟨⟨l1, l2, h1, h2, h3, _, h5⟩, hv, hle, _⟩ := optimize_spec k f tol maxiter bk o h
  exact ⟨⟨l1, l2, h1, h2, h3, h5⟩, hv, hle⟩

/-- **`LsMono`: a line search never returns a worse point than its start.**  Over a linear order, whenever
`_linesearch_powell(func, p, xi)` returns (bracket did not raise), the returned value is the cost at the returned
point, one of the evaluated points, and is not above the cost at `p + 0*xi` (nor at `p + 1*xi`).  This is the contract
`Proofs/PowellS.lean` assumes of its line-search oracle. -/
theorem linesearch_never_worse_than_start [LinearOrder R] [Add R] [Sub R] [Mul R] [Div R] [Neg R] [BEq R]
    (k : K R) (func : Pt R → R) (p xi : Pt R) (tol : R) (maxiter bmax fuel : Nat) (o : Out R)
    (h : lineSearch k func p xi tol maxiter bmax fuel = .ok o) :
    o.fval = func (along p xi o.xmin) ∧ (o.xmin, o.fval) ∈ o.log ∧
    o.fval ≤ func (along p xi k.zero) ∧ o.fval ≤ func (along p xi k.one) := by
  obtain ⟨bk, hb, ho⟩ := brent_ok k _ .none tol maxiter bmax fuel o h
  have hbs := bracket_spec k (fun a => func (along p xi a)) k.zero k.one bmax fuel bk hb
  obtain ⟨⟨l1, l2, h1, _, _, _, _⟩, hv, hle, _⟩ := optimize_spec k _ tol maxiter bk o ho
  have hfb : bk.fb = func (along p xi bk.xb) := hbs.faith _ hbs.memB
  have h0 : o.fval ≤ bk.fb := by rw [hfb]; exact hle
  refine ⟨hv, by rw [h1]; simp, le_trans h0 (le_trans hbs.start (min_le_left _ _)),
    le_trans h0 (le_trans hbs.start (min_le_right _ _))⟩

/-- the same for the oracle record handed to `Model/Powell.lean`, with `p + 0*xi = p` discharged by the two laws
`0*a = 0`, `a + 0 = a` -/
theorem lsOut_never_worse_than_start [LinearOrder R] [Add R] [Sub R] [Mul R] [Div R] [Neg R] [BEq R]
    (k : K R) (func : Pt R → R) (p xi : Pt R) (tol : R) (maxiter bmax fuel : Nat) (bad : Pt R → Pt R → Powell.LsOut R R)
    (o : Out R) (h : lineSearch k func p xi tol maxiter bmax fuel = .ok o)
    (hmul : ∀ a : R, k.zero * a = k.zero) (hadd : ∀ a : R, a + k.zero = a) (hlen : p.length ≤ xi.length) :
    (lsOut k func tol maxiter bmax fuel bad p xi).fret ≤ func p ∧
    (lsOut k func tol maxiter bmax fuel bad p xi).fret = func (lsOut k func tol maxiter bmax fuel bad p xi).x ∧
    (lsOut k func tol maxiter bmax fuel bad p xi).ncalls = o.nbracket + o.funcalls := by
  have hm := linesearch_never_worse_than_start k func p xi tol maxiter bmax fuel o h
  have hl := brent_evaluations_logged k _ .none tol maxiter bmax fuel o h
  have hz := along_zero k.zero hmul hadd p xi hlen
  unfold lsOut
  rw [h]
  simp only
  rw [hz] at hm
  exact ⟨hm.2.2.1, hm.1, hl.2.1⟩

/-- **The record for `Model/PowellS.lean`.**  If the point test `eqv` is equality, the record cut from a returning
line search lists exactly the evaluated points `p + alpha*xi` in call order (`pre ++ [y] ++ post`), `y` is the returned
point `p + alpha_min*xi`, no earlier point equals it, and `xi` is the scaled direction. -/
theorem lsRec_partition [Add R] [Sub R] [Mul R] [Div R] [Neg R] [LT R] [DecidableLT R] [LE R] [DecidableLE R] [BEq R]
    (k : K R) (eqv : Pt R → Pt R → Bool) (heqv : ∀ a b, eqv a b = true ↔ a = b) (func : Pt R → R) (tol : R)
    (maxiter bmax fuel : Nat) (bad : Pt R → Pt R → PowellS.LsRec R) (n : Nat) (p xi : Pt R) (o : Out R)
    (h : lineSearch k func p xi tol maxiter bmax fuel = .ok o) (hmem : (o.xmin, o.fval) ∈ o.log) :
    (lsRec k eqv func tol maxiter bmax fuel bad n p xi).pre ++ (lsRec k eqv func tol maxiter bmax fuel bad n p xi).y ::
        (lsRec k eqv func tol maxiter bmax fuel bad n p xi).post = o.log.map (fun e => along p xi e.1) ∧
    (lsRec k eqv func tol maxiter bmax fuel bad n p xi).y = along p xi o.xmin ∧
    (lsRec k eqv func tol maxiter bmax fuel bad n p xi).xi = vscale o.xmin xi ∧
    ∀ z ∈ (lsRec k eqv func tol maxiter bmax fuel bad n p xi).pre, z ≠ along p xi o.xmin := by
  have hex : ∃ a ∈ o.log.map (fun e => along p xi e.1), eqv (vadd p (vscale o.xmin xi)) a = true :=
    ⟨along p xi o.xmin, List.mem_map.mpr ⟨_, hmem, rfl⟩, (heqv _ _).mpr rfl⟩
  obtain ⟨r, hr⟩ := splitFirst_isSome _ _ hex
  obtain ⟨h1, h2, h3⟩ := splitFirst_some _ _ r hr
  unfold lsRec
  rw [h]
  simp only [hr]
  refine ⟨h1.symm, ((heqv _ _).mp h2).symm, by first | rfl | trivial, ?_⟩
  intro z hz hzeq
  have := h3 z hz
  rw [hzeq] at this
  have h' := (heqv (vadd p (vscale o.xmin xi)) (along p xi o.xmin)).mpr rfl
  rw [h'] at this
  cases this

/-- **The closed system.**  With the modelled Brent search plugged in as the line-search oracle, `fmin_powell` still
returns exactly what the reference returns (instance of `powell_refines_ref`, which holds for every oracle): the
whole run is now a function of `func`, `x0`, the direction set, the tolerances and the limits alone. -/
theorem powell_with_brent_refines_ref [LinearOrder R] [Add R] [Sub R] [Mul R] [Div R] [Neg R] [BEq R]
    (k : K R) (c : Powell.Cfg R R) (tol : R) (imax bmax lsfuel : Nat) (bad : Pt R → Pt R → Powell.LsOut R R)
    (hls : c.ls = lsOut k c.f tol imax bmax lsfuel bad) (fuel : Nat) (x0 : Pt R) (direc : List (Pt R))
    (hstart : Powell.mStop c (Powell.mGen0 c x0 direc) = false)
    (h15 : c.conv (c.f x0) (Powell.sweep c (Powell.init c x0 direc)).fval = true →
      (c.maxfun ≤ (Powell.sweep c (Powell.init c x0 direc)).fcalls ∨ c.maxiter ≤ 1)) :
    Powell.mysticPowell c fuel x0 direc = Powell.refPowell c fuel x0 direc ∧
    c.ls = lsOut k c.f tol imax bmax lsfuel bad :=
  ⟨powell_refines_ref c fuel x0 direc hstart h15, hls⟩

/-! ### non-vacuity and the witnesses (integers; `gold = 3`, `cg = 1`, `abs = |.|`: the theorems hold for every `K`) -/

/-- a Boolean test of a normal return / of a raised exception (so that `decide` evaluates the run in the kernel) -/
def okSat {α : Type} (r : Res R α) (q : α → Bool) : Bool := match r with | .ok a => q a | .error _ => false
def errSat {α : Type} (r : Res R α) (q : Err × Log R → Bool) : Bool := match r with | .ok _ => false | .error e => q e

def kInt : K Int :=
  { abs := fun a => if a < 0 then -a else a, zero := 0, one := 1, two := 2, half := 1, gold := 3, verysmall := 0,
    growLimit := 110, mintol := 0, cg := 1 }

/-- a valley with a bump at 3: `f 0 = 9, f 1 = 4, f 4 = 1`, everything else `100` -/
def bumpF (a : Int) : Int := if a = 0 then 9 else if a = 1 then 4 else if a = 4 then 1 else 100

/-- a plain valley `(a - 5)^2` -/
def valleyF (a : Int) : Int := (a - 5) * (a - 5)

/-- `bracket` and `brent` return on the valley (the hypotheses of the theorems above are satisfiable), the bracket is a
genuine downhill triple and Brent's result is below both start values -/
example : okSat (bracket kInt valleyF 0 1 1000 1002) (fun r =>
    decide ((r.xa, r.xb, r.xc, r.fa, r.fb, r.fc, r.funcalls) = (4, 5, 8, 1, 0, 9, 5))) = true := by decide
example : okSat (brent kInt valleyF .none 0 5 1000 1002) (fun o =>
    decide (o.fval ≤ valleyF 0 ∧ o.fval ≤ valleyF 1 ∧ o.fval = valleyF o.xmin ∧ o.funcalls = o.iter + 1 ∧
      o.log.length = o.nbracket + o.funcalls)) = true := by decide

/-- **Witness: Brent can return a point ABOVE one it evaluated.**  On `bumpF` the bracket loop sees
`f 4 = 1 < f 1 = 4`, tries the parabola's vertex `w = 3` between them, finds `f 3 = 100 > f 1` and returns the triple
`(0, 1, 3)`, forgetting `(4, 1)`; Brent then stays at `x = 1`.  So "the returned point carries the least evaluated
value" is FALSE in general; what holds is `brent_returns_last_lowest` + `bracket_downhill` (in particular `LsMono`). -/
theorem brent_can_return_above_an_evaluated_point :
    okSat (brent kInt bumpF .none 0 3 1000 1002) (fun o =>
      decide (o.xmin = 1 ∧ o.fval = 4 ∧ ((4 : Int), (1 : Int)) ∈ o.log ∧ o.fval ≤ bumpF 0)) = true := by decide

/-- **Witness: `bracket` can fail to return** (then `_linesearch_powell` and the whole `fmin_powell` raise): on the
unbounded `-a` with `maxiter = 2` the fourth pass raises "Too many iterations" after 6 evaluations. -/
theorem bracket_too_many_witness :
    errSat (bracket kInt (fun a => -a) 0 1 2 4) (fun e => decide (e.1 = Err.tooMany ∧ e.2.length = 6)) = true := by
  decide

/-! `LsMono` NEEDS the linear order: with a NaN (here `none`: every comparison with it is false) everywhere but at
`alpha = 0` the bracket loop does not start (`fc < fb` is false), Brent starts at `x = 1`, and since `fu > fx` is false
for a NaN `fu` every new point REPLACES the best one: a NaN is returned - not `<=` the value 5 at the start. -/

instance : Add (Option Int) := ⟨fun a b => a.bind fun x => b.map (x + ·)⟩
instance : Sub (Option Int) := ⟨fun a b => a.bind fun x => b.map (x - ·)⟩
instance : Mul (Option Int) := ⟨fun a b => a.bind fun x => b.map (x * ·)⟩
instance : Div (Option Int) := ⟨fun a b => a.bind fun x => b.map (x / ·)⟩
instance : Neg (Option Int) := ⟨fun a => a.map (- ·)⟩
/-- IEEE-style order on `Option Int` with `none` as NaN (local to the witness below) -/
def nanLt (a b : Option Int) : Prop := match a, b with | some x, some y => x < y | _, _ => False
def nanLe (a b : Option Int) : Prop := match a, b with | some x, some y => x ≤ y | _, _ => False
instance nanLT : LT (Option Int) := ⟨nanLt⟩
instance nanLE : LE (Option Int) := ⟨nanLe⟩
instance : DecidableLT (Option Int) := fun a b => by
  show Decidable (nanLt a b); unfold nanLt; cases a <;> cases b <;> infer_instance
instance : DecidableLE (Option Int) := fun a b => by
  show Decidable (nanLe a b); unfold nanLe; cases a <;> cases b <;> infer_instance

def kNan : K (Option Int) :=
  { abs := fun a => a.map fun x => if x < 0 then -x else x, zero := some 0, one := some 1, two := some 2, half := some 1,
    gold := some 3, verysmall := some 0, growLimit := some 110, mintol := some 0, cg := some 1 }

theorem linesearch_mono_fails_with_nan :
    okSat (brent kNan (fun a => if a = some 0 then some 5 else none) .none (some 0) 3 1000 1002) (fun o =>
      decide (o.fval = none ∧ ¬ (o.fval ≤ (some 5 : Option Int)))) = true := by decide

end brent

end MysticVerif.C08
