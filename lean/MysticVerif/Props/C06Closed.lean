/-
C06 on the CLOSED loop (Model/ClosedLoop.lean): the whole solver - control state (counters, limits, flags), algorithm
state and the termination condition evaluated on both - is a value; `Step()` is a function of that value alone.  So a
run interrupted after ANY number of `Step()` calls and continued from the saved value is the uninterrupted run, for
every algorithm, every termination condition tree and every limit setting.  (That the pickled solver IS that value is
the correspondence part of C06: snapshots compared field by field, restored runs compared with uninterrupted ones.)
-/
import MysticVerif.Proofs.ClosedLoop

namespace MysticVerif.C06
open MysticVerif.Solver MysticVerif.Closed

variable {S : Type}

/-- **explicit `Step()` calls: `m` calls, save, `n` more calls = `m + n` calls** (states, iteration index and the list
of returned messages) -/
theorem steps_resume (a : Alg S) : ∀ (m n : Nat) (c : Ctl) (s : S) (k : Nat) (acc : List (Option Msg × Bool)),
    steps a (m + n) c s k acc =
      steps a n (steps a m c s k acc).1 (steps a m c s k acc).2.1 (steps a m c s k acc).2.2.1 (steps a m c s k acc).2.2.2 := by
  intro m
  induction m with
  | zero => intro n c s k acc; simp [steps]
  | succ m ih =>
    intro n c s k acc
    have : m + 1 + n = (m + n) + 1 := by omega
    rw [this]
    simp only [steps]
    exact ih n _ _ _ _

/-- **`Solve()` interrupted by its fuel running out (no stop message yet) and called again on the state it left = one
`Solve()` with the whole budget**: final control state, algorithm state, message, iteration and Step counts -/
theorem solve_resume (a : Alg S) : ∀ (f1 f2 : Nat) (c : Ctl) (s : S) (k n : Nat),
    (solve a f1 c s k n).msg = none →
    solve a (f1 + f2) c s k n =
      solve a f2 (solve a f1 c s k n).ctl (solve a f1 c s k n).st (solve a f1 c s k n).iters (solve a f1 c s k n).steps := by
  intro f1
  induction f1 with
  | zero => intro f2 c s k n _; simp [solve]
  | succ f1 ih =>
    intro f2 c s k n h
    have e : f1 + 1 + f2 = (f1 + f2) + 1 := by omega
    rw [e]
    simp only [solve] at h ⊢
    split at h
    · cases h
    · exact ih f2 _ _ _ _ h

/-- **once `Solve()` has returned a message, more budget changes nothing** -/
theorem solve_stable (a : Alg S) : ∀ (f1 f2 : Nat) (c : Ctl) (s : S) (k n : Nat),
    (solve a f1 c s k n).msg.isSome = true → solve a (f1 + f2) c s k n = solve a f1 c s k n := by
  intro f1
  induction f1 with
  | zero => intro f2 c s k n h; simp [solve] at h
  | succ f1 ih =>
    intro f2 c s k n h
    have e : f1 + 1 + f2 = (f1 + f2) + 1 := by omega
    rw [e]
    simp only [solve] at h ⊢
    split
    · rfl
    · rename_i hm
      split at h
      · rename_i m' hm'
        rw [hm] at hm'
        cases hm'
      · exact ih f2 _ _ _ _ h

/-- non-vacuity: the toy run of `Props/Solve.lean` cut after 2 Steps and continued -/
example :
    let a : Alg Nat := { step := fun s _ => s + 1, nlog := fun s => 2 * s, nrec := fun s => s, term := fun _ _ => false }
    let c : Ctl := { maxiter := .val 3, maxfun := .val 100 }
    let r := solve a 8 (solve a 2 c 0 0 0).ctl (solve a 2 c 0 0 0).st (solve a 2 c 0 0 0).iters (solve a 2 c 0 0 0).steps
    (solve a 2 c 0 0 0).msg = none ∧ (solve a 10 c 0 0 0).msg = some .lim ∧
    (solve a 10 c 0 0 0).st = r.st ∧ (solve a 10 c 0 0 0).iters = r.iters ∧ (solve a 10 c 0 0 0).ctl.evals = r.ctl.evals ∧
    (solve a 10 c 0 0 0).msg = r.msg := by
  decide

end MysticVerif.C06
