/-
C01 for ENSEMBLES of solvers (lattice / buckshot / sparsity): the ensemble reports the state of one of its members
(C09: `update_best_min`), so whatever C01 proves about every member's reported best holds for the ensemble's, and its
energy is the minimum over the members.  Members are arbitrary: differential evolution (1/2), Nelder-Mead, Powell -
each with its own evaluation log.
-/
import MysticVerif.Props.C01
import MysticVerif.Props.C09

namespace MysticVerif.C01
open MysticVerif.Solver MysticVerif.Ens

variable {X E : Type} [LinearOrder E]

/-- **the ensemble's reported best inherits every property of the members' reported bests** and is the least -/
theorem ensemble_best_inherits (P : X → E → Prop) (ms : List (Member X E)) (hne : ms ≠ [])
    (h : ∀ m ∈ ms, P m.bestX m.bestE) :
    ∃ r, updateBest none ms = some r ∧ P r.bestX r.bestE ∧ ∀ m ∈ ms, r.bestE ≤ m.bestE := by
  obtain ⟨r, hr, hmem, hle⟩ := C09.update_best_min ms hne
  exact ⟨r, hr, h r hmem, hle⟩

/-- the member a differential-evolution run (any trial vectors, any number of iterations) leaves behind -/
def deMember (o : Obj X E) (pop : List X) (x0 : X) (trialss : List (List X)) (id : Nat) : Member X E :=
  let s := DE.run1 o trialss (DE.init o pop x0)
  { bestE := s.bestE, bestX := s.best, evals := s.log.length, gens := trialss.length - 1, id := id }

/-- **ensemble of differential-evolution members** (each with its own population, trial vectors and run length): a
finite reported ensemble energy is cost + penalty at the reported ensemble solution, a point some member passed to the
user's cost and that the constraints leave unchanged; and it is the minimum of the members' best energies. -/
theorem ensemble_of_de_best (o : Obj X E) (h : Hyp o) (runs : List (List X × X × List (List X))) (hne : runs ≠ []) :
    ∃ r, updateBest none (runs.zipIdx.map fun p => deMember o p.1.1 p.1.2.1 p.1.2.2 p.2) = some r ∧
      (r.bestE ≠ o.top → r.bestE = o.add (o.raw r.bestX) (o.pen r.bestX) ∧ o.K r.bestX = r.bestX ∧
        ∃ run ∈ runs, (r.bestX, o.raw r.bestX) ∈ (DE.run1 o run.2.2 (DE.init o run.1 run.2.1)).log) ∧
      ∀ run ∈ runs, r.bestE ≤ (DE.run1 o run.2.2 (DE.init o run.1 run.2.1)).bestE := by
  have hne' : (runs.zipIdx.map fun p => deMember o p.1.1 p.1.2.1 p.1.2.2 p.2) ≠ [] := by
    cases runs with
    | nil => exact absurd rfl hne
    | cons a l => simp [List.zipIdx]
  obtain ⟨r, hr, hP, hle⟩ := ensemble_best_inherits
    (fun x e => e ≠ o.top → e = o.add (o.raw x) (o.pen x) ∧ o.K x = x ∧
      ∃ run ∈ runs, (x, o.raw x) ∈ (DE.run1 o run.2.2 (DE.init o run.1 run.2.1)).log)
    (runs.zipIdx.map fun p => deMember o p.1.1 p.1.2.1 p.1.2.2 p.2) hne' (by
      intro m hm hfin
      simp only [List.mem_map] at hm
      obtain ⟨p, hp, rfl⟩ := hm
      have hrun : p.1 ∈ runs := by
        have := List.mem_zipIdx hp
        have h2 := this.2.2
        simp only [Nat.zero_add, Nat.sub_zero] at h2
        rw [h2]
        exact List.getElem_mem _
      have g := de_best_inv o h p.1.1 p.1.2.1 p.1.2.2 hfin
      exact ⟨g.1, g.2.2, p.1, hrun, g.2.1⟩)
  refine ⟨r, hr, hP, ?_⟩
  intro run hrun
  obtain ⟨i, hi⟩ : ∃ i, (run, i) ∈ runs.zipIdx := by
    obtain ⟨i, hlt, hget⟩ := List.getElem_of_mem hrun
    exact ⟨i, by rw [List.mem_zipIdx_iff_getElem?]; simp [hget, List.getElem?_eq_getElem hlt]⟩
  have := hle (deMember o run.1 run.2.1 run.2.2 i) (by
    simp only [List.mem_map]
    exact ⟨(run, i), hi, rfl⟩)
  simpa [deMember] using this

/-- non-vacuity: two one-dimensional DE members over `Int`; the ensemble reports the second one's best -/
example : (updateBest none [deMember exObj [7, 3] 7 [[7, 3], [1, -8]] 0, deMember exObj [5, 2] 5 [[5, 2], [0, 2]] 1]).map
    (fun r => (r.bestX, r.bestE, r.id)) = some (0, 0, 1) := by decide

end MysticVerif.C01
