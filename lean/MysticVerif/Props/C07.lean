/-
C07 - results depend only on configuration and seed, not on call order or schedule.

Models: Model/Config.lean (the configuration record of abstract_solver.py, one function per `Set*`, the
footprint table `writes / reads / fin`, and the deferred decoration `bootstrap` = what the next `Step` does to a
re-configured solver), Model/Schedule.lean (DE2 with an arbitrary evaluation order of the map, mutable work items
and objectives that write to their argument, a run as a function of the configuration, ensemble member schedules),
on top of Model/Solver.lean.

All statements are for ALL configurations, argument values, random streams `u`, cost / penalty / constraints
functions, trial vectors (strategies), populations, numbers of generations, evaluation orders and schedules.

Not proved here (runtime, tied by the correspondence only): real thread / process interleavings inside ONE cost
evaluation (an evaluation is atomic in the model), pickling of solvers through a process map.
-/
import MysticVerif.Proofs.Config
import MysticVerif.Proofs.Schedule

namespace MysticVerif.C07
open MysticVerif.Solver MysticVerif.Config MysticVerif.Sched

variable {R : Type} [Add R] [Sub R] [Mul R] [Neg R] [OfNat R 0] [OfNat R 1] [BEq R] [LT R] [DecidableLT R]
variable {X E : Type}

/-! ## configuration calls -/

/-- **Independent `Set*` calls commute.**  `Independent` is computed from the footprint table alone (own writes
disjoint from what the other call reads or writes; the shared trailing `Finalize` - reached from SetReducer,
SetPenalty, SetConstraints (not on the DE solvers), SetStrictRanges and SetEvaluationMonitor - only conflicts with
calls that touch what `Finalize` touches: `_live`, and on a live Powell solver the step monitor, the history
override and the save settings).
Both orders give the same configuration - including the population and the position in the random stream - and
whether either call raises does not depend on the other. -/
theorem setters_commute (u : Nat → R) (s : Cfg R) (a b : Op R) (h : Independent s.pl s.kind a b = true) :
    (apply u (apply u s a).1 b).1 = (apply u (apply u s b).1 a).1 ∧
    (apply u (apply u s a).1 b).2 = (apply u s b).2 ∧ (apply u (apply u s b).1 a).2 = (apply u s a).2 :=
  apply_comm u s a b h

/-- **Any permutation of pairwise independent configuration calls yields the same configuration** (every
attribute, the population and the state of the random source included), by induction over `List.Perm`. -/
theorem config_perm (u : Nat → R) (s : Cfg R) (l l' : List (Op R)) (hp : l.Perm l')
    (hi : l.Pairwise (fun a b => Independent s.pl s.kind a b = true)) :
    cfgAfter u s l = cfgAfter u s l' ∧ rngConsumed u s l = rngConsumed u s l' := by
  have h := cfgAfter_perm u s.pl s.kind hp s ⟨rfl, fun h => h⟩ hi
  exact ⟨h, by unfold rngConsumed; rw [h]⟩

/-- in a pairwise independent configuration phase a call raises exactly when it would have raised as the first
call: no setter can make another one fail, in any order -/
theorem config_raises (u : Nat → R) (s : Cfg R) (l : List (Op R))
    (hi : l.Pairwise (fun a b => Independent s.pl s.kind a b = true)) :
    raisedAfter u s l = l.map (fun op => (apply u s op).2) :=
  raisedAfter_eq u s.pl s.kind l s ⟨rfl, fun h => h⟩ hi [] (fun _ h => by cases h) s ⟨rfl, fun h => h⟩ rfl

/-- **only `SetInitialPoints` / `SetRandomInitialPoints` consume random numbers**: a configuration phase without
them (in any order, independent or not) consumes none and leaves the population alone -/
theorem config_no_rng (u : Nat → R) (s : Cfg R) (l : List (Op R)) (h : ∀ op ∈ l, consumesRng op = false) :
    rngConsumed u s l = 0 ∧ (cfgAfter u s l).pop = s.pop := by
  have := cfgAfter_pop u l s h
  exact ⟨by unfold rngConsumed; rw [this]; exact Nat.sub_self _, this⟩

/-- a random-number consumer draws exactly `nPop * nDim` numbers and is independent of every other setter
(`SetStrictRanges` included: `SetInitialPoints` does not look at the ranges) -/
theorem rng_consumer_amount (u : Nat → R) (s : Cfg R) (mn mx : Option (List R))
    (hb : blocked s.kind (Op.setRandomInitialPoints mn mx) = false)
    (hr : randomRaise s.nDim s.dmin s.dmax mn mx = false) :
    (apply u s (.setRandomInitialPoints mn mx)).1.pop.rngPos = s.pop.rngPos + s.pop.population.length * s.nDim := by
  simp [apply, hb, fin, own, newPopRandom, hr]

/-! ### re-configuration of a LIVE solver: `Set*` = record + `Finalize`, decoration deferred to the next `Step` -/

/-- **A `Set*` call never decorates the objective and never touches the random source** (the two
initial-points methods aside), on a live solver as on any other: the number of executions of
`_decorate_objective` is unchanged, the population and the position in the random stream are unchanged, and a
finalising call that does not raise leaves the solver not live - which is what makes the NEXT `Step` re-decorate
(`_bootstrap_objective`).  `_update_objective` is `Finalize()`, not "trigger immediately". -/
theorem setter_defers_decoration (u : Nat → R) (s : Cfg R) (op : Op R) :
    (apply u s op).1.ndec = s.ndec ∧
    (consumesRng op = false → (apply u s op).1.pop = s.pop) ∧
    (blocked s.kind op = false → fin s.kind op = true → (apply u s op).2 = false → (apply u s op).1.live = false) ∧
    ((apply u s op).1.live = true → s.live = true) :=
  ⟨apply_ndec u s op, apply_pop u s op, apply_fin_live u s op, apply_live u s op⟩

/-- **However many `Set*` calls are made between two iterations, in whatever order, the next `Step` decorates at
most once** - and exactly once as soon as one of the calls finalised; the block itself decorates never and (without
initial-points calls) draws no random number and leaves the population alone. -/
theorem live_reconfig_decorates_once (u : Nat → R) (s : Cfg R) (l : List (Op R)) (c : Nat) :
    (cfgAfter u s l).ndec = s.ndec ∧
    (bootstrap u (cfgAfter u s l) c).ndec ≤ s.ndec + 1 ∧
    ((∀ op ∈ l, consumesRng op = false) → (cfgAfter u s l).pop = s.pop) ∧
    (∀ (l1 l2 : List (Op R)) (op : Op R), l = l1 ++ op :: l2 → blocked s.kind op = false → fin s.kind op = true →
      (apply u (cfgAfter u s l1) op).2 = false → (bootstrap u (cfgAfter u s l) c).ndec = s.ndec + 1) := by
  refine ⟨cfgAfter_ndec u l s, ?_, cfgAfter_pop u l s, ?_⟩
  · rw [bootstrap_ndec, cfgAfter_ndec]
    split <;> omega
  · intro l1 l2 op hl hb hf hr
    have hk : (cfgAfter u s l1).kind = s.kind := cfgAfter_kind u l1 s
    have h1 : (apply u (cfgAfter u s l1) op).1.live = false :=
      apply_fin_live u _ op (by rw [hk]; exact hb) (by rw [hk]; exact hf) hr
    have h2 : (cfgAfter u s l).live = false := by
      cases h : (cfgAfter u s l).live
      · rfl
      · have e : cfgAfter u s l = cfgAfter u (apply u (cfgAfter u s l1) op).1 l2 := by
          rw [hl]; simp [cfgAfter, List.foldl_append]
        rw [e] at h
        rw [cfgAfter_live u l2 _ h] at h1
        cases h1
    rw [bootstrap_ndec, cfgAfter_ndec, h2]
    simp

/-- **Permuted re-configuration of a live solver**: the solver (live or not, after any number of iterations) is
re-configured by pairwise independent `Set*` calls in two different orders; the state in which the next `Step`
starts iterating - after its one deferred decoration, which under strict ranges clips the population and draws
random numbers - is the same: every attribute, the population, the position in the random stream. -/
theorem live_reconfig_perm (u : Nat → R) (s : Cfg R) (l l' : List (Op R)) (c : Nat) (hp : l.Perm l')
    (hi : l.Pairwise (fun a b => Independent s.pl s.kind a b = true)) :
    bootstrap u (cfgAfter u s l) c = bootstrap u (cfgAfter u s l') c := by
  rw [(config_perm u s l l' hp hi).1]

/-! ### the table is tight where the code is order dependent (witnesses over `Int`) -/

/-- a fresh 2-dimensional solver of the given kind, with a 3-member population -/
def ex (k : Kind) (live : Bool) : Cfg Int :=
  { kind := k, nDim := 2, dmin := [-1000, -1000], dmax := [1000, 1000], best := 77, fcalls := 5, bestIdx := 0,
    reducer := none, penalty := none, constraints := none, term := {}, stepmon := { id := 0, null := false, recs := [10, 11] },
    evalmon := nullMon, hist := {}, ranges := {}, limits := {}, cost := {}, live := live, save := {}, mapc := {},
    sigint := false, pop := { population := [[0, 0], [0, 0], [0, 0]], rngPos := 0 } }

def exU : Nat → Int := fun n => n

/-- `SetEvaluationLimits(new=True)` reads the counters: it does not commute with `SetGenerationMonitor` -/
theorem limits_new_vs_monitor_witness :
    let a : Op Int := .setEvaluationLimits (some 3) none true
    let b : Op Int := .setGenerationMonitor (some { id := 4, null := false, recs := [1, 2, 3] }) false
    Independent false .abstract a b = false ∧
    (cfgAfter exU (ex .abstract false) [a, b]).limits ≠ (cfgAfter exU (ex .abstract false) [b, a]).limits := by
  decide

/-- on a LIVE Powell solver `Finalize` appends a step record, so a finalising setter does not commute with
`SetGenerationMonitor` (nor with `SetEvaluationLimits(new=True)`); on every other solver it does -/
theorem powell_finalize_witness :
    let a : Op Int := .setPenalty (some 1)
    let b : Op Int := .setGenerationMonitor (some { id := 4, null := false, recs := [1] }) false
    Independent true .powell a b = false ∧ Independent false .powell a b = true ∧
    (cfgAfter exU (ex .powell true) [a, b]).stepmon ≠ (cfgAfter exU (ex .powell true) [b, a]).stepmon ∧
    cfgAfter exU (ex .powell false) [a, b] = cfgAfter exU (ex .powell false) [b, a] := by
  refine ⟨by decide, by decide, by decide, ?_⟩
  exact (config_perm exU (ex .powell false) _ _ (List.Perm.swap _ _ _) (by decide)).1

/-- two random-number consumers do not commute -/
theorem two_rng_consumers_witness :
    let a : Op Int := .setRandomInitialPoints (some [0, 0]) (some [1, 1])
    let b : Op Int := .setInitialPoints [5, 7] 1
    Independent false .abstract a b = false ∧
    (cfgAfter exU (ex .abstract false) [a, b]).pop.population ≠ (cfgAfter exU (ex .abstract false) [b, a]).pop.population := by
  decide

/-- a LIVE differential-evolution solver after two generations (cost stored and decorated), three members -/
def exLive : Cfg Int :=
  { ex .de true with stepmon := { id := 0, null := false, recs := [10, 11, 12] }, cost := { raw := some 1, decorated := true },
                     pop := { population := [[0, 0], [7, 2], [3, 9]], rngPos := 0 }, bestIdx := 1, ndec := 1 }

/-- the same solver with strict ranges `[0, 10]^2` already in force -/
def exLiveBoxed : Cfg Int :=
  { exLive with ranges := { useStrict := true, smin := [0, 0], smax := [10, 10] } }

/-- **why the decoration is deferred**: `SetStrictRanges` and `SetPenalty` are independent and commute on a live
solver (no random number drawn, population untouched, ONE decoration at the next `Step`); had `_update_objective`
decorated at once ("trigger immediately", the dormant branch) the two orders would leave the random source at
different positions and different populations - the trajectory would depend on the order of the `Set*` calls -/
theorem eager_decoration_witness :
    let a : Op Int := .setStrictRanges false (some [1, 1]) (some [5, 5]) none none
    let b : Op Int := .setPenalty (some 2)
    Independent exLive.pl exLive.kind a b = true ∧
    cfgAfter exU exLive [a, b] = cfgAfter exU exLive [b, a] ∧
    rngConsumed exU exLive [a, b] = 0 ∧ (cfgAfter exU exLive [a, b]).ndec = 1 ∧
    (bootstrap exU (cfgAfter exU exLive [a, b]) 1).ndec = 2 ∧
    (bootstrap exU (cfgAfter exU exLive [a, b]) 1).pop.rngPos = 2 ∧
    ((applyEager exU (applyEager exU exLive a).1 b).1.pop.rngPos = 4 ∧
     (applyEager exU (applyEager exU exLive b).1 a).1.pop.rngPos = 2) ∧
    -- with strict ranges already in force the two orders draw equally often, but clip with different draws
    (applyEager exU (applyEager exU exLiveBoxed a).1 b).1.pop.population ≠
      (applyEager exU (applyEager exU exLiveBoxed b).1 a).1.pop.population ∧
    cfgAfter exU exLiveBoxed [a, b] = cfgAfter exU exLiveBoxed [b, a] := by
  refine ⟨by decide, ?_, by decide, by decide, by decide, by decide, by decide, by decide, ?_⟩
  · exact (config_perm exU exLive _ _ (List.Perm.swap _ _ _) (by decide)).1
  · exact (config_perm exU exLiveBoxed _ _ (List.Perm.swap _ _ _) (by decide)).1

example : (bootstrap exU (cfgAfter exU exLive
      [.setStrictRanges false (some [1, 1]) (some [5, 5]) none none, .setPenalty (some 2)]) 1).pop.population
    = [[1, 1], [5, 2], [3, 5]] := by decide

/-- non-vacuity: the usual configuration phase - ranges, constraints, penalty, limits, termination, both monitors,
reducer, initial points, mapper - is pairwise independent on each kind of solver (so `config_perm` applies to all
its 3628800 orders), and it really changes the configuration and consumes random numbers -/
def exPhase : List (Op Int) :=
  [.setStrictRanges false (some [0, 0]) (some [4, 4]) (some true) none, .setConstraints (some 1), .setPenalty (some 2),
   .setEvaluationLimits (some 10) (some 100) false, .setTermination (some 3) false,
   .setEvaluationMonitor (some { id := 5, null := false, recs := [] }) false,
   .setGenerationMonitor (some { id := 6, null := false, recs := [] }) false, .setReducer (some 7) false,
   .setInitialPoints [1, 2] 1, .setMapper 8 0]

example : PairwiseIndependent false .abstract exPhase = true ∧ PairwiseIndependent false .de exPhase = true ∧
    PairwiseIndependent false .powell exPhase = true := by decide

example : rngConsumed exU (ex .de false) exPhase = 6 ∧ (cfgAfter exU (ex .de false) exPhase).ranges.useStrict = true ∧
    (cfgAfter exU (ex .de false) exPhase).pop.population = [[1, 2], [5, 14], [11, 24]] := by decide

/-! ## the map of DifferentialEvolutionSolver2 -/

/-- **DE2 is independent of the order in which the map evaluates its work items.**  For every permutation `π` of
the positions: population, energies, best solution, best energy and step record after the step are those of the
in-order map, and the evaluation monitor holds the same entries (hence the same count) in a possibly different
order. -/
theorem de2_map_independent [LT E] [DecidableLT E] (o : Obj X E) (π : List Nat) (trials : List X) (s : DE X E)
    (hπ : π.Perm (List.range trials.length)) :
    obs (step2With o π trials s) = obs (DE.step2 o trials s) ∧
    (step2With o π trials s).log.Perm (DE.step2 o trials s).log ∧
    (step2With o π trials s).log.length = (DE.step2 o trials s).log.length := by
  have hπ' : π.Perm (List.range (trials.map o.K).length) := by simpa using hπ
  have hperm : (step2With o π trials s).log.Perm (DE.step2 o trials s).log := by
    rw [step2With_eq o π trials s hπ, step2_eq]
    show (s.log ++ π.filterMap (logAt o (trials.map o.K))).Perm (s.log ++ (trials.map o.K).filterMap (logged o))
    rw [← filterMap_logAt_range]
    exact List.Perm.append_left _ (hπ'.filterMap _)
  refine ⟨?_, hperm, hperm.length_eq⟩
  rw [step2With_eq o π trials s hπ, step2_eq]
  rfl

/-- the in-order map is `python_map`: the model of Model/Solver.lean (tied to the real solver by C01's replays) -/
theorem de2_inorder_is_step2 [LT E] [DecidableLT E] (o : Obj X E) (trials : List X) (s : DE X E) :
    step2With o (List.range trials.length) trials s = DE.step2 o trials s := by
  rw [step2With_eq o _ trials s (List.Perm.refl _), step2_eq]
  have : (List.range trials.length).filterMap (logAt o (trials.map o.K)) = (trials.map o.K).filterMap (logged o) := by
    have := filterMap_logAt_range o (trials.map o.K)
    simpa using this
  rw [this]

/-- and therefore equal to the sequential DifferentialEvolutionSolver on everything observable -/
theorem de2_any_order_eq_de1 [LinearOrder E] (o : Obj X E) (π : List Nat) (trials : List X) (s : DE X E)
    (hπ : π.Perm (List.range trials.length)) :
    obs (step2With o π trials s) = obs (DE.step1 o trials s) := by
  rw [(de2_map_independent o π trials s hπ).1, DE.step2_eq_step1]

/-- **whole runs**: any number of generations, each evaluated in its own order, the trial vectors produced by any
strategy from the current population / energies / best and that generation's random draws. Two runs that start
from states with the same observable part (logs equal up to order) and use the same draws agree on everything
observable after every generation, whatever the evaluation orders. -/
theorem de2_run_map_independent [LT E] [DecidableLT E] {D : Type} (o : Obj X E)
    (strat : List X → List E → X → D → List X) (n : Nat)
    (hlen : ∀ pop popE best d, (strat pop popE best d).length = n) :
    ∀ (gens : List (D × List Nat)) (orders' : List (List Nat)) (s s' : DE X E),
      obs s = obs s' → s.log.Perm s'.log → (∀ g ∈ gens, g.2.Perm (List.range n)) →
      orders'.length = gens.length → (∀ π ∈ orders', π.Perm (List.range n)) →
      obs (run2With o strat gens s) = obs (run2With o strat ((gens.map Prod.fst).zip orders') s') ∧
      (run2With o strat gens s).log.Perm (run2With o strat ((gens.map Prod.fst).zip orders') s').log := by
  intro gens
  induction gens with
  | nil =>
    intro orders' s s' ho hl _ hlen' _
    cases orders' with
    | nil => exact ⟨ho, hl⟩
    | cons _ _ => simp at hlen'
  | cons g gens ih =>
    intro orders' s s' ho hl hg hlen' ho'
    obtain ⟨d, π⟩ := g
    cases orders' with
    | nil => simp at hlen'
    | cons π' orders' =>
      simp only [List.map_cons, List.zip_cons_cons, run2With]
      have e : s.pop = s'.pop ∧ s.popE = s'.popE ∧ s.best = s'.best ∧ s.bestE = s'.bestE ∧ s.stepLog = s'.stepLog := by
        simp only [obs, Prod.mk.injEq] at ho; exact ho
      have hπ : π.Perm (List.range (strat s.pop s.popE s.best d).length) := by
        rw [hlen]; exact hg (d, π) (by simp)
      have hπ' : π'.Perm (List.range (strat s'.pop s'.popE s'.best d).length) := by
        rw [hlen]; exact ho' π' (by simp)
      apply ih
      · -- observable part after this generation
        rw [(de2_map_independent o π _ s hπ).1, (de2_map_independent o π' _ s' hπ').1, step2_eq, step2_eq]
        rw [e.1, e.2.1, e.2.2.1]
        have hs : s = { s' with log := s.log } := by
          cases s; cases s'; simp only [DE.mk.injEq] at *; simp_all
        rw [hs, selectAll_log_irrel]
        rfl
      · -- evaluation monitors: same entries
        rw [step2With_eq o π _ s hπ, step2With_eq o π' _ s' hπ']
        show (s.log ++ _).Perm (s'.log ++ _)
        rw [e.1, e.2.1, e.2.2.1]
        refine List.Perm.append hl ?_
        have h1 := (hπ.filterMap (logAt o ((strat s.pop s.popE s.best d).map o.K)))
        have h2 := (hπ'.filterMap (logAt o ((strat s'.pop s'.popE s'.best d).map o.K)))
        rw [e.1, e.2.1, e.2.2.1] at h1
        rw [hlen] at h1 h2
        exact h1.trans h2.symm
      · intro g hg'; exact hg g (by simp [hg'])
      · simpa using hlen'
      · intro π'' h; exact ho' π'' (by simp [h])

/-! ### objectives that write to their argument, maps that hand out copies -/

/-- **The stored population never depends on what the evaluator does to its argument, nor on whether the map hands
the worker the trial vector itself or a copy of it.**  The user's cost and penalty are arbitrary PROCEDURES on a
mutable vector (value + the contents they leave behind: abs-fold, sort, clamp, ...); `sh i` says whether work item
`i` reaches the worker as the object itself (in-process map) or as a copy (forked process, pickling, deep copy).
Because `wrap_penalty` evaluates on `_x = x[:]`, the DE2 step on mutable work items is the step of `step2With` on
the objective record of the procedures - for every sharing discipline and evaluation order - hence (with
`de2_map_independent`) population, energies, best and step record are those of the in-order in-process map, and
the evaluated points are the same up to order. -/
theorem de2_evaluator_effect_free [LT E] [DecidableLT E] (K : X → X) (inBox : X → Bool) (useRange : Bool) (top : E)
    (add : E → E → E) (cost pen : Proc X E) (sh sh' : Nat → Bool) (π π' : List Nat) (trials : List X) (s : DE X E)
    (hπ : π.Perm (List.range trials.length)) (hπ' : π'.Perm (List.range trials.length)) :
    step2Proc K inBox useRange top add cost pen sh π trials s =
      step2With (objOfProcs K inBox useRange top add cost pen) π trials s ∧
    obs (step2Proc K inBox useRange top add cost pen sh π trials s) =
      obs (step2Proc K inBox useRange top add cost pen sh' π' trials s) ∧
    obs (step2Proc K inBox useRange top add cost pen sh π trials s) =
      obs (DE.step2 (objOfProcs K inBox useRange top add cost pen) trials s) ∧
    (step2Proc K inBox useRange top add cost pen sh π trials s).log.Perm
      (step2Proc K inBox useRange top add cost pen sh' π' trials s).log := by
  have h1 := step2Proc_eq K inBox useRange top add cost pen sh π trials s
  have h2 := step2Proc_eq K inBox useRange top add cost pen sh' π' trials s
  have m1 := de2_map_independent (objOfProcs K inBox useRange top add cost pen) π trials s hπ
  have m2 := de2_map_independent (objOfProcs K inBox useRange top add cost pen) π' trials s hπ'
  refine ⟨h1, ?_, ?_, ?_⟩
  · rw [h1, h2, m1.1, m2.1]
  · rw [h1, m1.1]
  · rw [h1, h2]; exact m1.2.1.trans m2.2.1.symm

/-- whole runs with a writing objective: generation after generation, each under its own evaluation order and its
own sharing discipline, the run is the run of `run2With` (to which `de2_run_map_independent` applies) -/
theorem de2_run_effect_free [LT E] [DecidableLT E] {D : Type} (K : X → X) (inBox : X → Bool) (useRange : Bool)
    (top : E) (add : E → E → E) (cost pen : Proc X E) (strat : List X → List E → X → D → List X) :
    ∀ (gens : List (D × List Nat × (Nat → Bool))) (s : DE X E),
      gens.foldl (fun s g => step2Proc K inBox useRange top add cost pen g.2.2 g.2.1 (strat s.pop s.popE s.best g.1) s) s =
        run2With (objOfProcs K inBox useRange top add cost pen) strat (gens.map fun g => (g.1, g.2.1)) s := by
  intro gens
  induction gens with
  | nil => intro s; rfl
  | cons g gens ih =>
    intro s
    simp only [List.foldl_cons, List.map_cons, run2With]
    rw [step2Proc_eq, ih]

/-- a cost that folds its argument onto the non-negative axis in place, squared distance to 1 -/
def exFold : Proc Int Int := fun x => ((x.natAbs - 1) * (x.natAbs - 1), x.natAbs)

/-- **what the defensive copy is there for**: with `wrap_penalty` calling cost and penalty on the caller's own
vector, an in-process map stores the FOLDED trial in the population while a copying map stores the trial itself -
the trajectory would depend on the map; with the pinned `wrap_penalty` both store the trial -/
theorem de2_uncopied_witness :
    let s : DE Int Int := { pop := [5, 4], popE := [16, 9], best := 4, bestE := 9, log := [], stepLog := [] }
    let logOf : Int → Option (Int × Int) := fun y => some (y, (exFold y).1)
    let pure0 : Proc Int Int := fun x => (0, x)
    (step2ProcWith (wrapPenaltyNoCopyP (· + ·) exFold pure0) logOf id 1000 (fun _ => true) [0, 1] [-3, 2] s).pop = [3, 2] ∧
    (step2ProcWith (wrapPenaltyNoCopyP (· + ·) exFold pure0) logOf id 1000 (fun _ => false) [0, 1] [-3, 2] s).pop = [-3, 2] ∧
    (step2Proc id (fun _ => true) false 1000 (· + ·) exFold pure0 (fun _ => true) [1, 0] [-3, 2] s).pop = [-3, 2] ∧
    (step2Proc id (fun _ => true) false 1000 (· + ·) exFold pure0 (fun _ => false) [0, 1] [-3, 2] s).pop = [-3, 2] := by
  decide

/-- the evaluation counter of DE2 without an evaluation monitor (`+= len(trialEnergy) - isinf(trialEnergy).sum()`,
l.570-571) counts exactly the evaluations the monitor would have recorded, provided no evaluated point has an
infinite objective -/
theorem de2_counter_agrees [DecidableEq E] (o : Obj X E) (ys : List X)
    (hfin : ∀ y ∈ ys, (logged o y).isSome = true → o.energy y ≠ o.top)
    (htop : ∀ p, o.add o.top p = o.top) :
    countFinite o.top (ys.map o.energy) = (ys.filterMap (logged o)).length := by
  induction ys with
  | nil => rfl
  | cons y ys ih =>
    have ih' := ih (fun z hz => hfin z (by simp [hz]))
    simp only [countFinite, List.map_cons, List.filter_cons, List.filterMap_cons, ne_eq, decide_not] at ih' ⊢
    cases hl : logged o y with
    | none =>
      have : o.energy y = o.top := by
        unfold logged at hl
        unfold Obj.energy
        split at hl
        · rename_i hb; simp [hb, htop]
        · cases hl
      simp [this, ih']
    | some p =>
      have := hfin y (by simp) (by simp [hl])
      simp [this, ih']

/-! ## a run is a function of the configuration, the population and the draws -/

omit [Add R] [Sub R] [Mul R] [Neg R] [OfNat R 0] [OfNat R 1] [BEq R] [LT R] [DecidableLT R] in
/-- **Equal configuration + equal population + equal draws and trial streams => equal runs.**  The run reads the
configuration only through `Cfg.view` (the evaluation-monitor object, the contents of the step monitor, the save
settings, the signal switch and the map are not in it): two solvers whose views agree produce the same states,
counters and stop messages under the control loop, generation by generation. -/
theorem trajectory_of_cfg [LT E] [DecidableLT E] {D : Type} (dec : View R → Obj X E) (cond : Option Nat → DE X E → Bool)
    (strat : List X → List E → X → D → List X) (emb : List R → X) (scale : Nat × Nat) (c c' : Cfg R)
    (gens : List (D × List Nat)) (h : c.view = c'.view) :
    trajectory dec cond strat emb scale c gens = trajectory dec cond strat emb scale c' gens := by
  unfold trajectory
  rw [h]

/-- the property's first sentence: the same seed (`u`), the same solver (`s`), the same settings in ANY order
(pairwise independent calls) - the same trajectory; the draws of the run are those that follow the configuration
phase in the random stream (`drawsOf`) -/
theorem trajectory_config_perm [LT E] [DecidableLT E] {D : Type} (dec : View R → Obj X E)
    (cond : Option Nat → DE X E → Bool) (strat : List X → List E → X → D → List X) (emb : List R → X)
    (scale : Nat × Nat) (drawsOf : (Nat → R) → Nat → List (D × List Nat))
    (u : Nat → R) (s : Cfg R) (l l' : List (Op R)) (hp : l.Perm l')
    (hi : l.Pairwise (fun a b => Independent s.pl s.kind a b = true)) :
    trajectory dec cond strat emb scale (cfgAfter u s l) (drawsOf u (cfgAfter u s l).pop.rngPos) =
      trajectory dec cond strat emb scale (cfgAfter u s l') (drawsOf u (cfgAfter u s l').pop.rngPos) := by
  rw [(config_perm u s l l' hp hi).1]

/-! ## ensembles -/

variable {M : Type}

/-- **Any interleaving of the members' steps gives the members their run-to-completion states**, provided every
member is stepped at least until it terminates (`T i` steps).  Members do not share state (each occupies its own
slot) and stepping is deterministic (`step` is a function): the hypotheses `MembersDeterministic` and
`NoSharedState` of the design are built into the model. -/
theorem ensemble_any_schedule (step : M → M) (done : M → Bool) (ms : List M) (T : Nat → Nat) (fuel : Nat)
    (sched : List Nat)
    (hT : ∀ i (h : i < ms.length), done ((stepIfLive step done)^[T i] ms[i]) = true)
    (hs : ∀ i, i < ms.length → T i ≤ sched.count i) (hf : ∀ i, i < ms.length → T i ≤ fuel) :
    runSched step done ms sched = ms.map (runToEnd step done fuel) := by
  apply List.ext_getElem?
  intro i
  rw [runSched_get, List.getElem?_map]
  rcases Nat.lt_or_ge i ms.length with hi | hi
  · rw [List.getElem?_eq_getElem hi]
    simp only [Option.map_some]
    rw [runToEnd_iter, iter_stable step done _ (T i) (hT i hi) _ (hs i hi),
      iter_stable step done _ (T i) (hT i hi) _ (hf i hi)]
  · rw [List.getElem?_eq_none hi]; rfl

/-- **step-wise mode = run-to-completion mode**: `k` ensemble `Step`s (each maps `Step` over all members) leave
the same members as one `Solve` that maps `Solve` over them, once `k` covers the slowest member; the reported best
(the last member of minimal energy, by index) is therefore the same. -/
theorem ensemble_step_eq_solve [LE E] [DecidableLE E] (step : M → M) (done : M → Bool) (energy : M → E)
    (ms : List M) (T : Nat → Nat) (k fuel : Nat)
    (hT : ∀ i (h : i < ms.length), done ((stepIfLive step done)^[T i] ms[i]) = true)
    (hk : ∀ i, i < ms.length → T i ≤ k) (hf : ∀ i, i < ms.length → T i ≤ fuel) :
    (ensembleStep step done)^[k] ms = ms.map (runToEnd step done fuel) ∧
    bestOf energy ((ensembleStep step done)^[k] ms) = bestOf energy (ms.map (runToEnd step done fuel)) := by
  have h : (ensembleStep step done)^[k] ms = ms.map (runToEnd step done fuel) := by
    rw [ensembleStep_iter]
    apply List.ext_getElem?
    intro i
    rw [List.getElem?_map, List.getElem?_map]
    rcases Nat.lt_or_ge i ms.length with hi | hi
    · rw [List.getElem?_eq_getElem hi]
      simp only [Option.map_some]
      rw [runToEnd_iter, iter_stable step done _ (T i) (hT i hi) _ (hk i hi),
        iter_stable step done _ (T i) (hT i hi) _ (hf i hi)]
    · rw [List.getElem?_eq_none hi]; rfl
  exact ⟨h, by rw [h]⟩

/-! ## ensembles: the members' `_live` flag and the deferred decoration

`ensemble_step_eq_solve` above takes "a `Step` on a terminated member does nothing" as the definition of a member
step (`stepIfLive`).  In the code that is the joint effect of three things - `Finalize` switching `_live` off,
`_bootstrap_objective` re-decorating a solver that is not live (and a decoration changes the state: Nelder-Mead
rebuilds its simplex under strict ranges), and the `_live` toggle of the ensemble's mapped `_step` / `_solve` - which
Model/Schedule.lean (`mStep`, `mSolve`, `toggled`) spells out.  The theorems below are for EVERY member algorithm
(`MAlg`: any decoration, iteration, `Finalize` and termination verdict). -/

variable {S : Type}

/-- **a finished member (finalized, terminated, with a step record) is left exactly as it is** by the mapped `_step`
of an ensemble `Step` and by the mapped `_solve` of an ensemble `Solve` - no decoration, no iteration - whatever
a decoration would do to it -/
theorem ens_finished_member_untouched (a : MAlg S) (m : Mem S) (fuel : Nat) (h : Finished a m) :
    ensMemberStep a m = m ∧ ensMemberSolve a (fuel + 1) m = (m, true) :=
  ⟨ensMemberStep_finished a m h, ensMemberSolve_finished a fuel m h⟩

/-- **step-wise mode = run-to-completion mode, with the `_live` flag and the decoration modelled**: `k` ensemble
`Step`s leave the members that one run-to-completion `Solve` leaves (state, flag, number of decorations and of
iterations), hence the same reported best, once every member's `Solve` has come back with a message within `fuel ≤ k`
`Step`s.  Hypotheses: an iteration that stops leaves a step record (`hrec`); the members are ones an ensemble can
hold (`Regular`: live, or not terminated, or finished). -/
theorem ens_live_step_eq_solve [LE E] [DecidableLE E] (a : MAlg S)
    (hrec : ∀ s, a.term (a.iter s) = true → a.started (a.fin (a.iter s)) = true)
    (energy : Mem S → E) (ms : List (Mem S)) (fuel k : Nat)
    (hr : ∀ m ∈ ms, Regular a m) (hs : ∀ m ∈ ms, (ensMemberSolve a fuel m).2 = true) (hk : fuel ≤ k) :
    (ensStepL a)^[k] ms = ensSolveL a fuel ms ∧
    bestOf energy ((ensStepL a)^[k] ms) = bestOf energy (ensSolveL a fuel ms) := by
  have h : (ensStepL a)^[k] ms = ensSolveL a fuel ms := by
    rw [ensStepL_iter]
    unfold ensSolveL
    apply List.map_congr_left
    intro m hm
    exact member_steps_eq_solve a hrec fuel m (hr m hm) (hs m hm) k hk
  exact ⟨h, by rw [h]⟩

/-- **mixed driving**: `j` ensemble `Step`s followed by a run-to-completion `Solve` end where the `Solve` alone ends -/
theorem ens_steps_then_solve (a : MAlg S)
    (hrec : ∀ s, a.term (a.iter s) = true → a.started (a.fin (a.iter s)) = true)
    (ms : List (Mem S)) (j fuel fuel' : Nat)
    (hr : ∀ m ∈ ms, Regular a m) (hs : ∀ m ∈ ms, (ensMemberSolve a fuel m).2 = true)
    (hs' : ∀ m ∈ ms, (ensMemberSolve a fuel' ((ensMemberStep a)^[j] m)).2 = true) :
    ensSolveL a fuel' ((ensStepL a)^[j] ms) = ensSolveL a fuel ms := by
  rw [ensStepL_iter]
  unfold ensSolveL
  rw [List.map_map]
  apply List.map_congr_left
  intro m hm
  show (ensMemberSolve a fuel' ((ensMemberStep a)^[j] m)).1 = (ensMemberSolve a fuel m).1
  have h1 := member_steps_eq_solve a hrec fuel m (hr m hm) (hs m hm) (fuel + fuel' + j) (by omega)
  have h2 := member_steps_eq_solve a hrec fuel' _ (regular_steps a hrec m (hr m hm) j) (hs' m hm) (fuel + fuel') (by omega)
  rw [← h2, ← h1, ← Function.iterate_add_apply]

/-- **a member is decorated once**: the first mapped `_step` of a fresh member (not live, not terminated) decorates
its objective, no later one does - however many ensemble `Step`s follow, before and after it has stopped.
Hypothesis `hfin`: `Finalize` does not revoke the stop and an iteration that stops leaves a step record. -/
theorem ens_decorates_once (a : MAlg S)
    (hfin : ∀ s, a.term (a.iter s) = true → a.term (a.fin (a.iter s)) = true ∧ a.started (a.fin (a.iter s)) = true)
    (m : Mem S) (hl : m.live = false) (ht : a.term m.st = false) (k : Nat) :
    ((ensMemberStep a)^[k + 1] m).ndec = m.ndec + 1 := by
  rw [Function.iterate_succ_apply]
  have h := fresh_step a hfin m hl ht
  rw [(settled_steps a hfin _ h.1 k).2, h.2]

/-- a member that is live or finished is never decorated again by ensemble `Step`s -/
theorem ens_settled_not_redecorated (a : MAlg S)
    (hfin : ∀ s, a.term (a.iter s) = true → a.term (a.fin (a.iter s)) = true ∧ a.started (a.fin (a.iter s)) = true)
    (m : Mem S) (h : m.live = true ∨ Finished a m) (k : Nat) : ((ensMemberStep a)^[k] m).ndec = m.ndec :=
  (settled_steps a hfin m h k).2

/-- a Nelder-Mead-like member for the witness: state = (spread of the simplex, generations); an iteration halves the
spread; the termination is CandidateRelativeTolerance-like (spread <= 1); the decoration rebuilds the simplex
(spread 4) once `generations > 0` - `NelderMeadSimplexSolver._decorate_objective` under strict ranges -/
def nmLike : MAlg (Nat × Nat) :=
  { dec := fun s => if s.2 > 0 then (4, s.2) else s, iter := fun s => (s.1 / 2, s.2 + 1), fin := id,
    term := fun s => decide (s.1 ≤ 1), started := fun s => decide (s.2 > 0) }

/-- **what the `_live` toggle is there for** (kernel-checked witness): two members that stop at different iterations
(after 3 and after 1).  With the toggle, 3 ensemble `Step`s = `Solve`.  WITHOUT it (`_step` = `solver.Step()` alone)
the member that stopped first is re-decorated by the next ensemble `Step`, its rebuilt simplex no longer satisfies the
termination, and it resumes: step-wise and run-to-completion results differ. -/
theorem ens_untoggled_witness :
    (ensStepL nmLike)^[3] [{ st := (8, 0), live := false }, { st := (2, 0), live := false }]
        = ensSolveL nmLike 5 [{ st := (8, 0), live := false }, { st := (2, 0), live := false }] ∧
    ([{ st := (8, 0), live := false }, { st := (2, 0), live := false }].map (ensMemberStepBare nmLike)^[3])
        = [{ st := (1, 3), live := false, ndec := 1, niter := 3 }, { st := (1, 3), live := false, ndec := 2, niter := 3 }] ∧
    ensSolveL nmLike 5 [{ st := (8, 0), live := false }, { st := (2, 0), live := false }]
        = [{ st := (1, 3), live := false, ndec := 1, niter := 3 }, { st := (1, 1), live := false, ndec := 1, niter := 1 }] := by
  decide

/-- non-vacuity of `ens_live_step_eq_solve`: its hypotheses hold for the witness members -/
example : (∀ s, nmLike.term (nmLike.iter s) = true → nmLike.started (nmLike.fin (nmLike.iter s)) = true) ∧
    (∀ m ∈ [({ st := (8, 0), live := false } : Mem (Nat × Nat)), { st := (2, 0), live := false }],
      Regular nmLike m ∧ (ensMemberSolve nmLike 5 m).2 = true) := by
  refine ⟨fun s _ => by simp [nmLike], ?_⟩
  intro m hm
  simp only [List.mem_cons, List.mem_nil_iff, or_false] at hm
  rcases hm with rfl | rfl
  · exact ⟨Or.inl (by unfold Plain; decide), by decide⟩
  · exact ⟨Or.inl (by unfold Plain; decide), by decide⟩

/-- **a member that meets its termination at generation 0** - its first `_Step` (the initial evaluation) already stops
it, it has ONE step record and `generations == 0` - is iterated exactly once, however many ensemble `Step`s follow
while the other members run on, and is then exactly what the run-to-completion `_solve` leaves: the stop test `Step`
makes before it iterates reads `len(self._stepmon)` (`started`), which one record satisfies.  Hypotheses: the member is
fresh (not live, no verdict, no step record after its decoration); `Finalize` does not revoke the stop and an iteration
that stops leaves a step record. -/
theorem ens_generation0_member_iterated_once (a : MAlg S)
    (hfin : ∀ s, a.term (a.iter s) = true → a.term (a.fin (a.iter s)) = true ∧ a.started (a.fin (a.iter s)) = true)
    (m : Mem S) (hl : m.live = false) (ht : a.term m.st = false)
    (hs : a.started (a.dec m.st) = false) (h0 : a.term (a.iter (a.dec m.st)) = true) (k fuel : Nat) :
    (ensMemberStep a)^[k + 1] m
        = { st := a.fin (a.iter (a.dec m.st)), live := false, ndec := m.ndec + 1, niter := m.niter + 1 } ∧
    ensMemberSolve a (fuel + 1) m = ((ensMemberStep a)^[k + 1] m, true) := by
  have hp : Plain a m := by simp [Plain, ht]
  have h1 : mStep a m
      = ({ st := a.fin (a.iter (a.dec m.st)), live := false, ndec := m.ndec + 1, niter := m.niter + 1 }, true) := by
    simp [mStep, bootstrapM, hl, hs, h0, (hfin _ h0).1]
  have h1' : ensMemberStep a m
      = { st := a.fin (a.iter (a.dec m.st)), live := false, ndec := m.ndec + 1, niter := m.niter + 1 } := by
    rw [ensMemberStep_plain a m hp, h1]
  have hF : Finished a (ensMemberStep a m) := by
    rw [h1']; exact ⟨rfl, (hfin _ h0).1, (hfin _ h0).2⟩
  have h2 : (ensMemberStep a)^[k + 1] m = ensMemberStep a m := by
    rw [Function.iterate_succ_apply]
    exact iterate_fixed' _ _ (ensMemberStep_finished a _ hF) k
  refine ⟨h2.trans h1', ?_⟩
  rw [h2, h1', ensMemberSolve_plain a (fuel + 1) m hp]
  simp [mSolve, h1]

/-- members for the witness below: state = (best energy, number of step records); the first iteration is the initial
evaluation (one record, energy unchanged), every later one halves the energy; the termination is value-to-reach-like
(a record exists and the energy is <= 2).  `byGenerations = false`: the stop test of `Step` as it is in the code
(`if len(self._stepmon)`); `true`: NOT the code - the test guarded by `if self.generations` (records - 1) instead. -/
def vtrLike (byGenerations : Bool) : MAlg (Nat × Nat) :=
  { dec := id, iter := fun s => if s.2 = 0 then (s.1, 1) else (s.1 / 2, s.2 + 1), fin := id,
    term := fun s => decide (0 < s.2 ∧ s.1 ≤ 2),
    started := fun s => if byGenerations = true then decide (1 < s.2) else decide (0 < s.2) }

/-- **why the stop test before the iteration must read the step RECORDS, not the generations** (kernel-checked
witness): two members, the second one meets the termination at generation 0 while the first needs three iterations.
With the code's guard 4 ensemble `Step`s = `Solve`, the early member iterated once.  With the guard
`if self.generations` the run-to-completion result is the same (its `Solve` loop leaves through the message of the
first `Step`), but the next ensemble `Step` iterates the finished member AGAIN (one record = generation 0 does not
pass the guard): step-wise and run-to-completion results differ. -/
theorem ens_generations_guard_witness :
    (ensStepL (vtrLike false))^[4] [{ st := (8, 0), live := false }, { st := (2, 0), live := false }]
        = ensSolveL (vtrLike false) 5 [{ st := (8, 0), live := false }, { st := (2, 0), live := false }] ∧
    ensSolveL (vtrLike false) 5 [{ st := (8, 0), live := false }, { st := (2, 0), live := false }]
        = [{ st := (2, 3), live := false, ndec := 1, niter := 3 }, { st := (2, 1), live := false, ndec := 1, niter := 1 }] ∧
    ensSolveL (vtrLike true) 5 [{ st := (8, 0), live := false }, { st := (2, 0), live := false }]
        = ensSolveL (vtrLike false) 5 [{ st := (8, 0), live := false }, { st := (2, 0), live := false }] ∧
    (ensStepL (vtrLike true))^[4] [{ st := (8, 0), live := false }, { st := (2, 0), live := false }]
        = [{ st := (2, 3), live := false, ndec := 1, niter := 3 }, { st := (1, 2), live := false, ndec := 1, niter := 2 }] := by
  decide

/-- non-vacuity of `ens_generation0_member_iterated_once`: the early member of the witness satisfies its hypotheses -/
example : (∀ s, (vtrLike false).term ((vtrLike false).iter s) = true →
      (vtrLike false).term ((vtrLike false).fin ((vtrLike false).iter s)) = true ∧
      (vtrLike false).started ((vtrLike false).fin ((vtrLike false).iter s)) = true) ∧
    (vtrLike false).term (2, 0) = false ∧ (vtrLike false).started ((vtrLike false).dec (2, 0)) = false ∧
    (vtrLike false).term ((vtrLike false).iter ((vtrLike false).dec (2, 0))) = true := by
  refine ⟨fun s h => ⟨h, ?_⟩, by decide, by decide, by decide⟩
  by_cases hz : s.2 = 0 <;> simp [vtrLike, hz]

/-- non-vacuity: three countdown members, a schedule that interleaves them unevenly -/
example : runSched (fun n : Nat => n - 1) (fun n => n == 0) [3, 1, 2] [2, 0, 0, 1, 2, 0, 1, 2, 0]
    = [3, 1, 2].map (runToEnd (fun n : Nat => n - 1) (fun n => n == 0) 5) := by decide

/-- non-vacuity of the map theorem: a concrete DE2 generation over `Int` evaluated in the order 2,0,1 with one
trial outside the box (not logged) -/
def exObj : Obj Int Int :=
  { raw := fun x => x * x, pen := fun x => if x < 0 then 5 else 0, K := fun x => max x (-2),
    inBox := fun x => decide (-3 ≤ x ∧ x ≤ 9), useRange := true, top := 1000000, add := (· + ·) }

example : (step2With exObj [2, 0, 1] [1, 12, -8] (DE.init exObj [7, 3, 4] 7)).pop = [1, 3, -2]
    ∧ (step2With exObj [2, 0, 1] [1, 12, -8] (DE.init exObj [7, 3, 4] 7)).log = [(-2, 4), (1, 1)]
    ∧ (DE.step2 exObj [1, 12, -8] (DE.init exObj [7, 3, 4] 7)).log = [(1, 1), (-2, 4)] := by decide

end MysticVerif.C07
