/-
C16 - constraint transforms land in their target set and leave conforming input alone.
Property theorems only (helper lemmas live in Proofs/Transforms.lean, Proofs/TransformsExt.lean).

The theorems are split over the files of `Props/C16/` (all in namespace `MysticVerif.C16`; the harness lists every
`theorem` of this file and of `Props/C16/*.lean`):
  Core    - the masked element map, index selection, clipping, impose_bounds (one / several intervals), discrete
            (member, fix-conform, idempotent), integers / rounded (nearest integer, grid), suppressed, impose_at (scalar),
            partial, sorting / monotonic (whole vector; frame under an index), with_mean, normalized, unique, and the
            closed-term witnesses of the places where the code breaks a clause
  Insert  - impose_at with a LIST target (pinned, last-write-wins, frame, idempotent, the shape error), masked /
            insert_missing (KeyError guard, value at its key, the rest is the input in order), synchronized
  Ties    - discrete: NEAREST sample, the lower one on a tie; integers / rounded / precision: half to EVEN
  Stats   - with_spread / with_variance / with_std: exact target, mean kept, degenerate inputs, idempotent
  Select  - sorting / monotonic under an index selection (the selected subsequence), bounded(clip=True, nearest=False)
            lands on an interval end, bounded(clip=False) lands inside for every draw oracle
  Track   - impose_as with an offset: a round of the offset loop adds the offset ONCE to every entry that any number of
            pairs name as their tracker (`set(trac)`), frame of a round, one round when no tracker is a partner; several
            partners of one tracker (partners / pairs repeated): pair clause for every pair, frame, conforming input left
            alone, idempotent; the docstring's examples and the closed-term witnesses of the offset defects
  Unique  - unique / impose_unique for ANY sequence of allowed values (repeated members, any order): the contract of the
            replacement pool (`list(set(full) - set(x))`), length / pairwise distinct / allowed under it, first occurrences
            stay, conforming input left alone, twice = once; witnesses: a pool with repeats, `len(full)` counting repeats
-/
import MysticVerif.Props.C16.Core
import MysticVerif.Props.C16.Insert
import MysticVerif.Props.C16.Ties
import MysticVerif.Props.C16.Stats
import MysticVerif.Props.C16.Select
import MysticVerif.Props.C16.Track
import MysticVerif.Props.C16.Unique
