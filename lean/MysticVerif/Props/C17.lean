/-
C17 - combinators claim success only at a fixed point; couplers compose as documented.
Property theorems only (helper lemmas live in Proofs/Combinators.lean).

`c i x = some y` : member `i` maps `x` to `y`;  `none` : it raised `ZeroDivisionError`.
All statements hold for EVERY draw stream `draws` and every replacement function `rand`/`pick`.
-/
import MysticVerif.Proofs.Combinators
import MysticVerif.Props.C17.Ext
import MysticVerif.Props.C17.Pen
import MysticVerif.Props.C17.Cpl
import MysticVerif.Props.C17.Seq
import Mathlib.Tactic.Linarith
import Mathlib.Algebra.Order.Ring.Abs
import Mathlib.Algebra.Order.BigOperators.Group.List

namespace MysticVerif.C17
open MysticVerif.Comb

variable {X D : Type}

/-! ## `constraints.and_` -/

/-- what a success of the cycling phase / first pass guarantees about the history window -/
private theorem andCycle_success [BEq X] [LawfulBEq X] {c : Nat → X → Option X} {rand : D → X → X}
    {n cap : Nat} (hn : 0 < n) :
    ∀ (fuel j : Nat) (h : List X) (top : X) (links : Nat) (draws : List D) (st : Stats)
      (y : X) (t links' : Nat) (st' : Stats),
      n ≤ j → LenInv n j (h.length + 1) → Linked c n j (top :: h) links →
      andCycle c rand n cap fuel j h top links draws st = (.success y t links', st') →
      ∃ l, Linked c n (t + 1) (y :: l) links' ∧ lastAllEq (n - 1) l y = true ∧ n ≤ l.length ∧ n ≤ t + 1 := by
  intro fuel
  induction fuel with
  | zero => intro j h top links draws st y t links' st' _ _ _ hr; simp [andCycle] at hr
  | succ fuel ih =>
    intro j h top links draws st y t links' st' hj hlen hlink hr
    unfold andCycle at hr
    have hpush := Linked.push hlink
    have hlen' := LenInv.step hn hj hlen
    split at hr
    · simp at hr
    · simp only at hr
      split at hr
      · rename_i hsucc
        simp only [Prod.mk.injEq, Res.success.injEq] at hr
        obtain ⟨⟨rfl, rfl, rfl⟩, _⟩ := hr
        refine ⟨top :: h, hpush, ?_, ?_, by omega⟩
        · simp only [Bool.and_eq_true] at hsucc; exact hsucc.2
        · have := LenInv.ge hn hj hlen; (first | (simp; done) | (simp; omega))
      · have hlenD : LenInv n (j + 1) ((dropOld n j (top :: h)).length + 1) := by
          rw [dropOld_length]; simpa using hlen'
        split at hr
        · split at hr
          · simp at hr
          · rename_i d ds
            refine ih (j + 1) _ _ _ ds _ y t links' st' (by omega) hlenD ?_ hr
            split
            · rename_i heq
              have : rand d (applyM (c (j % n)) top).1 = (applyM (c (j % n)) top).1 := by simpa using heq
              rw [this]; exact Linked.dropOld_tail hpush
            · exact Linked.zero _ _ _ _
        · exact ih (j + 1) _ _ _ draws _ y t links' st' (by omega) hlenD (Linked.dropOld_tail hpush) hr

private theorem andFirst_inv {c : Nat → X → Option X} {n : Nat} :
    ∀ (k i : Nat) (h : List X) (top : X) (e : Bool) (links : Nat),
      Linked c n i (top :: h) links → h.length = i →
      Linked c n (i + k) ((andFirst c n k i h top e links).2.1 :: (andFirst c n k i h top e links).1)
        (andFirst c n k i h top e links).2.2.2 ∧ (andFirst c n k i h top e links).1.length = i + k := by
  intro k
  induction k with
  | zero => intro i h top e links hl hlen; simpa [andFirst] using ⟨hl, hlen⟩
  | succ k ih =>
    intro i h top e links hl hlen
    unfold andFirst
    have := ih (i + 1) (top :: h) (applyM (c (i % n)) top).1 (e || (applyM (c (i % n)) top).2)
      (if (applyM (c (i % n)) top).2 = true then 0 else links + 1) (Linked.push hl) (by simp [hlen])
    have e1 : i + 1 + k = i + (k + 1) := by omega
    rw [e1] at this
    exact this

/-- window facts behind every success of `and_` -/
private theorem and_success_window [BEq X] [LawfulBEq X] {c : Nat → X → Option X} {rand : D → X → X}
    {n cap : Nat} {x : X} {draws : List D} {y : X} {t links : Nat} {st : Stats} (hn : 0 < n)
    (hr : and_ c rand n cap x draws = (.success y t links, st)) :
    ∃ l, Linked c n (t + 1) (y :: l) links ∧ lastAllEq (n - 1) l y = true ∧ n ≤ l.length ∧ n ≤ t + 1 := by
  unfold and_ at hr
  rw [if_neg (by omega)] at hr
  simp only at hr
  have hinv := andFirst_inv (c := c) (n := n) n 0 [] x false 0 (Linked.zero _ _ _ _) rfl
  split at hr
  · rename_i hs
    simp only [Prod.mk.injEq, Res.success.injEq] at hr
    obtain ⟨⟨rfl, rfl, rfl⟩, _⟩ := hr
    refine ⟨(andFirst c n n 0 [] x false 0).1, ?_, ?_, by have := hinv.2; omega, by omega⟩
    · have := hinv.1; simp only [Nat.zero_add] at this
      have e : n - 1 + 1 = n := by omega
      rw [e]; exact this
    · simp only [Bool.and_eq_true] at hs; exact hs.2
  · refine andCycle_success hn _ n _ _ _ draws _ y t links st (Nat.le_refl _) ?_ ?_ hr
    · refine ⟨fun _ => by omega, fun h2 => by omega⟩
    · have := hinv.1; simpa using this

/-- **and_ / links.** On success, each of the newest `min links (n-1)` history links is a member that
leaves the returned vector unchanged: member `(t - m) % n` for `m < links`, `m + 1 < n`.
(`links` is the ghost count of genuine member applications since the last random replacement that
changed a value; it is `≥ n` on every run without such a replacement inside the window.) -/
theorem and_success_links [BEq X] [LawfulBEq X] (c : Nat → X → Option X) (rand : D → X → X)
    (n cap : Nat) (x : X) (draws : List D) (y : X) (t links : Nat) (st : Stats)
    (hr : and_ c rand n cap x draws = (.success y t links, st)) :
    ∀ m, m < links → m + 1 < n → c ((t - m) % n) y = some y := by
  intro m hm hmn
  have hn : 0 < n := by omega
  obtain ⟨l, hl, hw, hlen, _⟩ := and_success_window hn hr
  have hb : (y :: l)[m]? = some y := by
    cases m with
    | zero => simp
    | succ m =>
      have hex : m < l.length := by omega
      have := lastAllEq_get hw (m := m) (by omega) (a := l[m]) (by simp)
      simp only [List.getElem?_cons_succ]; rw [List.getElem?_eq_getElem hex, this]
  have ha : (y :: l)[m + 1]? = some y := by
    have hex : m < l.length := by omega
    have := lastAllEq_get hw (m := m) (by omega) (a := l[m]) (by simp)
    simp only [List.getElem?_cons_succ]; rw [List.getElem?_eq_getElem hex, this]
  have := hl m hm y y hb ha
  have e : t + 1 - 1 - m = t - m := by omega
  rw [e] at this; exact this

private theorem cover (n t i : Nat) (hi : i < n) (ht : n ≤ t + 1) : ∃ m, m < n ∧ (t - m) % n = i := by
  have hn : 0 < n := by omega
  refine ⟨(t + n - i) % n, Nat.mod_lt _ hn, ?_⟩
  have h1 := Nat.div_add_mod (t + n - i) n
  have h2 : (t + n - i) % n < n := Nat.mod_lt _ hn
  have hq : 1 ≤ (t + n - i) / n := by
    rw [Nat.le_div_iff_mul_le hn]; omega
  obtain ⟨q, hq'⟩ : ∃ q, (t + n - i) / n = q + 1 := ⟨(t + n - i) / n - 1, by omega⟩
  rw [hq', Nat.mul_succ] at h1
  have e : t - (t + n - i) % n = i + n * q := by omega
  rw [e, Nat.add_mul_mod_self_left]; exact Nat.mod_eq_of_lt hi

/-- **and_ / all but one.** With an intact window (`n - 1 ≤ links`) every member except possibly
member `(t + 1) % n` - the one whose *output* the window ends with - leaves the result unchanged. -/
theorem and_success_fixed_all_but_one [BEq X] [LawfulBEq X] (c : Nat → X → Option X) (rand : D → X → X)
    (n cap : Nat) (x : X) (draws : List D) (y : X) (t links : Nat) (st : Stats)
    (hr : and_ c rand n cap x draws = (.success y t links, st)) (hlinks : n - 1 ≤ links) :
    ∀ i, i < n → i ≠ (t + 1) % n → c i y = some y := by
  intro i hi hne
  have hn : 0 < n := by omega
  obtain ⟨_, _, _, _, ht⟩ := and_success_window hn hr
  obtain ⟨m, hm, hmi⟩ := cover n t i hi ht
  by_cases hlast : m = n - 1
  · exfalso; apply hne
    rw [← hmi, hlast]
    have e : t + 1 = (t - (n - 1)) + n := by omega
    rw [e, Nat.add_mod_right]
  · have := and_success_links c rand n cap x draws y t links st hr m (by omega) (by omega)
    rw [hmi] at this; exact this

/-- a member is idempotent where it is defined -/
def Idem (f : X → Option X) : Prop := ∀ a b, f a = some b → f b = some b

/-- **and_ / fixed point.** With idempotent members and an intact window (`n ≤ links`), a success of
`and_` returns a vector left unchanged by EVERY member. -/
theorem and_success_fixed [BEq X] [LawfulBEq X] (c : Nat → X → Option X) (rand : D → X → X)
    (n cap : Nat) (x : X) (draws : List D) (y : X) (t links : Nat) (st : Stats)
    (hidem : ∀ i, i < n → Idem (c i))
    (hr : and_ c rand n cap x draws = (.success y t links, st)) (hlinks : n ≤ links) :
    ∀ i, i < n → c i y = some y := by
  intro i hi
  have hn : 0 < n := by omega
  by_cases hne : i = (t + 1) % n
  · obtain ⟨l, hl, hw, hlen, ht⟩ := and_success_window hn hr
    -- the oldest window entry is the output of member (t - (n-1)) % n applied to x[-(n+1)]
    have hex : n - 1 < l.length := by omega
    have hb : (y :: l)[n - 1]? = some y := by
      cases hn1 : n - 1 with
      | zero => simp
      | succ k =>
        have hk : k < l.length := by omega
        have := lastAllEq_get hw (m := k) (by omega) (a := l[k]) (by simp)
        simp only [List.getElem?_cons_succ]; rw [List.getElem?_eq_getElem hk, this]
    have ha : (y :: l)[n - 1 + 1]? = some l[n - 1] := by simp
    have hlk := hl (n - 1) (by omega) _ _ hb ha
    have e : (t + 1 - 1 - (n - 1)) % n = i := by
      rw [hne]
      have e2 : t + 1 = (t + 1 - 1 - (n - 1)) + n := by omega
      conv => rhs; rw [e2, Nat.add_mod_right]
    rw [e] at hlk
    exact hidem i hi _ _ hlk
  · exact and_success_fixed_all_but_one c rand n cap x draws y t links st hr (by omega) i hi hne

/-- `and_` makes at most `max n cap` member calls (`cap = maxiter * n`), for every draw stream -/
private theorem andCycle_calls [BEq X] (c : Nat → X → Option X) (rand : D → X → X) (n cap : Nat) :
    ∀ (fuel j : Nat) (h : List X) (top : X) (links : Nat) (draws : List D) (st : Stats),
      (andCycle c rand n cap fuel j h top links draws st).2.calls ≤ st.calls + fuel := by
  intro fuel
  induction fuel with
  | zero => intros; simp [andCycle]
  | succ fuel ih =>
    intro j h top links draws st
    unfold andCycle
    split
    · simp
    · simp only
      split
      · (first | (simp; done) | (simp; omega))
      · split
        · split
          · (first | (simp; done) | (simp; omega))
          · have := ih (j + 1) (dropOld n j (top :: h)) (rand ‹D› (applyM (c (j % n)) top).1)
              (if (rand ‹D› (applyM (c (j % n)) top).1 == (applyM (c (j % n)) top).1) = true
                then (if (applyM (c (j % n)) top).2 = true then 0 else links + 1) else 0)
              ‹List D› { calls := st.calls + 1, draws := st.draws + 1 }
            simp only at this ⊢
            omega
        · have := ih (j + 1) (dropOld n j (top :: h)) (applyM (c (j % n)) top).1
              (if (applyM (c (j % n)) top).2 = true then 0 else links + 1) draws
              { st with calls := st.calls + 1 }
          simp only at this ⊢
          omega

theorem and_calls_bounded [BEq X] (c : Nat → X → Option X) (rand : D → X → X)
    (n cap : Nat) (x : X) (draws : List D) : (and_ c rand n cap x draws).2.calls ≤ max n cap := by
  unfold and_
  split
  · simp
  · simp only
    split
    · (first | (simp; done) | (simp; omega))
    · have := andCycle_calls c rand n cap (cap - n) n (andFirst c n n 0 [] x false 0).1
        (andFirst c n n 0 [] x false 0).2.1 (andFirst c n n 0 [] x false 0).2.2.2 draws { calls := n }
      simp only at this
      omega

/-! ### the two ways the full claim fails on the code as it is (known findings F7 / F7b)

Both are closed terms evaluated by the kernel (`decide`). -/

/-- F7: one non-idempotent member (`x ↦ x+1 while x < 2`): `and_(c)([0])` succeeds with `1`, which `c` moves. -/
def witC : Nat → Nat → Option Nat := fun _ x => if x < 2 then some (x + 1) else some x
theorem and_not_fixed_witness :
    (and_ witC (fun (d : Nat) _ => d) 1 100 0 []).1 = .success 1 0 1 ∧ witC 0 1 ≠ some 1 := by
  decide

/-- F7b: three idempotent, conflicting members (identity, clamp to [1,3], clamp to [-4,0]) on `0`, two random
replacements that happen to produce `0` again: `and_` succeeds with `0`, which member 1 moves to `1`. -/
def witC3 : Nat → Int → Option Int := fun i x =>
  if i = 0 then some x else if i = 1 then some (max 1 (min 3 x)) else some (max (-4) (min 0 x))
theorem and_collision_witness :
    (and_ witC3 (fun (d : Int) _ => d) 3 9 0 [0, 0]).1 = .success 0 5 1 ∧ witC3 1 0 ≠ some 0
      ∧ (∀ i a b, witC3 i a = some b → witC3 i b = some b) := by
  refine ⟨by decide, by decide, ?_⟩
  intro i a b h
  unfold witC3 at *
  by_cases h0 : i = 0
  · simp_all
  · by_cases h1 : i = 1
    · simp only [h1] at h ⊢; simp at h ⊢; omega
    · simp only [h0, h1, if_false] at h ⊢; simp at h ⊢; omega

/-! ## `constraints.or_` -/

private theorem orFirst_success [BEq X] [LawfulBEq X] (c : Nat → X → Option X) (x0 : X) :
    ∀ (k i : Nat) (h : List X) (e : Bool) (calls : Nat) (y : X) (h' : List X) (calls' : Nat),
      orFirst c x0 k i h e calls = (some y, h', calls') → ∃ i', i ≤ i' ∧ i' < i + k ∧ c i' y = some y := by
  intro k
  induction k with
  | zero => intro i h e calls y h' calls' hr; simp [orFirst] at hr
  | succ k ih =>
    intro i h e calls y h' calls' hr
    unfold orFirst at hr
    simp only at hr
    split at hr
    · rename_i hs
      simp only [Prod.mk.injEq, Option.some.injEq] at hr
      obtain ⟨rfl, _, _⟩ := hr
      simp only [Bool.and_eq_true, Bool.not_eq_true', Bool.or_eq_false_iff, beq_iff_eq] at hs
      refine ⟨i, Nat.le_refl _, by omega, ?_⟩
      have := applyM_some hs.2.2
      rw [hs.1] at this ⊢; exact this
    · obtain ⟨i', h1, h2, h3⟩ := ih (i + 1) _ _ _ y h' calls' hr
      exact ⟨i', by omega, by omega, h3⟩

private theorem orCycle_success [BEq X] [LawfulBEq X] (c : Nat → X → Option X) (pick : D → Nat) (n cap : Nat) :
    ∀ (fuel j : Nat) (h : List X) (draws : List D) (st : Stats) (y : X) (t links : Nat) (st' : Stats),
      orCycle c pick n cap fuel j h draws st = (.success y t links, st') → ∃ i, c (i % n) y = some y := by
  intro fuel
  induction fuel with
  | zero => intro j h draws st y t links st' hr; unfold orCycle at hr; split at hr <;> simp at hr
  | succ fuel ih =>
    intro j h draws st y t links st' hr
    unfold orCycle at hr
    split at hr
    · simp at hr
    · split at hr
      · simp at hr
      · split at hr
        · simp at hr
        · simp only at hr
          split at hr
          · rename_i hs
            simp only [Prod.mk.injEq, Res.success.injEq] at hr
            obtain ⟨⟨rfl, rfl, rfl⟩, _⟩ := hr
            simp only [Bool.and_eq_true, Bool.not_eq_true', beq_iff_eq] at hs
            refine ⟨j, ?_⟩
            have := applyM_some hs.2
            rw [hs.1] at this ⊢; exact this
          · split at hr
            · simp at hr
            · split at hr
              · simp at hr
              · exact ih _ _ _ _ y t links st' hr

/-- **or_.** A success of `or_` returns a vector left unchanged by at least one member. -/
theorem or_success_fixed [BEq X] [LawfulBEq X] (c : Nat → X → Option X) (pick : D → Nat)
    (n cap : Nat) (x : X) (draws : List D) (y : X) (t links : Nat) (st : Stats)
    (hcap : n = 0 → cap = 0)      -- the code's cap is `maxiter * n`
    (hr : or_ c pick n cap x draws = (.success y t links, st)) : ∃ i, i < n ∧ c i y = some y := by
  unfold or_ at hr
  split at hr
  · rename_i y' h' calls' hf
    simp only [Prod.mk.injEq, Res.success.injEq] at hr
    obtain ⟨⟨rfl, _, _⟩, _⟩ := hr
    obtain ⟨i, _, h2, h3⟩ := orFirst_success c x n 0 [x] false 0 _ _ _ hf
    exact ⟨i, by omega, h3⟩
  · rename_i h' calls' hf
    obtain ⟨i, hi⟩ := orCycle_success c pick n cap _ _ _ _ _ y t links st hr
    by_cases hn : n = 0
    · -- no members: the first loop is empty and the cycling phase cannot run
      subst hn
      rw [hcap rfl] at hr
      simp [orFirst] at hf
      obtain ⟨rfl, rfl⟩ := hf
      simp [orCycle] at hr
    · exact ⟨i % n, Nat.mod_lt _ (by omega), hi⟩

/-! ## `constraints.not_` -/

private theorem notLoop_success [BEq X] [LawfulBEq X] (c : X → Option X) (rand : D → X → X) :
    ∀ (fuel : Nat) (x : X) (draws : List D) (st : Stats) (y : X) (t links : Nat) (st' : Stats),
      notLoop c rand fuel x draws st = (.success y t links, st') → ∃ z, c y = some z ∧ z ≠ y := by
  intro fuel
  induction fuel with
  | zero => intro x draws st y t links st' hr; simp [notLoop] at hr
  | succ fuel ih =>
    intro x draws st y t links st' hr
    unfold notLoop at hr
    simp only at hr
    split at hr
    · rename_i hm
      simp only [Prod.mk.injEq, Res.success.injEq] at hr
      obtain ⟨⟨rfl, _, _⟩, _⟩ := hr
      unfold notMoved at hm
      split at hm
      · rename_i z hz
        exact ⟨z, hz, by simpa using hm⟩
      · simp at hm
    · split at hr
      · simp at hr
      · exact ih _ _ _ y t links st' hr

/-- **not_.** A success of `not_(c)` returns a vector that `c` changes. -/
theorem not_success_moved [BEq X] [LawfulBEq X] (c : X → Option X) (rand : D → X → X)
    (maxiter : Nat) (x : X) (draws : List D) (y : X) (t links : Nat) (st : Stats)
    (hr : not_ c rand maxiter x draws = (.success y t links, st)) : ∃ z, c y = some z ∧ z ≠ y :=
  notLoop_success c rand maxiter x draws {} y t links st hr

private theorem notLoop_calls [BEq X] (c : X → Option X) (rand : D → X → X) :
    ∀ (fuel : Nat) (x : X) (draws : List D) (st : Stats),
      (notLoop c rand fuel x draws st).2.calls ≤ st.calls + fuel := by
  intro fuel
  induction fuel with
  | zero => intros; simp [notLoop]
  | succ fuel ih =>
    intro x draws st
    unfold notLoop
    simp only
    split
    · (first | (simp; done) | (simp; omega))
    · split
      · (first | (simp; done) | (simp; omega))
      · have := ih (rand ‹D› x) ‹List D› { calls := st.calls + 1, draws := st.draws + 1 }
        simp only at this ⊢; omega

theorem not_calls_bounded [BEq X] (c : X → Option X) (rand : D → X → X)
    (maxiter : Nat) (x : X) (draws : List D) : (not_ c rand maxiter x draws).2.calls ≤ maxiter := by
  have := notLoop_calls c rand maxiter x draws {}
  simpa [not_] using this

/-! ## couplers -/

theorem inner_spec {A B C : Type} (c : A → B) (f : B → C) (x : A) : inner c f x = f (c x) := rfl
theorem outer_spec {A B C : Type} (c : B → C) (f : A → B) (x : A) : outer c f x = c (f x) := rfl
theorem additive_spec {A R : Type} [Add R] (p : A → R) (f : A → R) (x : A) : additive p f x = f x + p x := rfl

/-! ## penalty combinators (coupler.and_/or_/not_ with the default linear scaling)

`coupler.and_(p1..pn)` is `k * |Σ p_i x|`, `or_` is `k * |min_i p_i x|`;  `not_(p)` re-wraps `0 - cond`
(inequality types) or `not cond` (equality types) in the member's penalty type, whose term is characterised
by C15 as: zero iff satisfied, positive otherwise. -/

section pen
variable {K : Type} [Field K] [LinearOrder K] [IsStrictOrderedRing K]

def penAnd (k : K) (ps : List K) : K := k * |ps.sum|
def penOr (k : K) (p : K) (ps : List K) : K := k * |ps.foldl min p|

private theorem sum_zero_iff : ∀ (ps : List K), (∀ p ∈ ps, 0 ≤ p) → (ps.sum = 0 ↔ ∀ p ∈ ps, p = 0)
  | [], _ => by simp
  | p :: ps, h => by
    have hp : 0 ≤ p := h p (by simp)
    have hps : ∀ q ∈ ps, 0 ≤ q := fun q hq => h q (by simp [hq])
    have ih := sum_zero_iff ps hps
    have hs : 0 ≤ ps.sum := List.sum_nonneg hps
    simp only [List.sum_cons, List.mem_cons, forall_eq_or_imp]
    constructor
    · intro h0
      have h1 : p = 0 := by linarith
      have h2 : ps.sum = 0 := by linarith
      exact ⟨h1, ih.mp h2⟩
    · rintro ⟨h1, h2⟩
      rw [h1, ih.mpr h2]; simp

/-- the combined penalty `and_` is zero exactly where all member penalties are zero -/
theorem pen_and_zero (k : K) (hk : 0 < k) (ps : List K) (hnn : ∀ p ∈ ps, 0 ≤ p) :
    penAnd k ps = 0 ↔ ∀ p ∈ ps, p = 0 := by
  unfold penAnd
  rw [mul_eq_zero, abs_eq_zero, sum_zero_iff ps hnn]
  constructor
  · rintro (h | h)
    · exact absurd h (ne_of_gt hk)
    · exact h
  · exact fun h => Or.inr h

private theorem foldl_min_zero_iff : ∀ (ps : List K) (p : K), 0 ≤ p → (∀ q ∈ ps, 0 ≤ q) →
    (ps.foldl min p = 0 ↔ p = 0 ∨ ∃ q ∈ ps, q = 0)
  | [], p, _, _ => by simp
  | q :: ps, p, hp, h => by
    have hq : 0 ≤ q := h q (by simp)
    have hps : ∀ r ∈ ps, 0 ≤ r := fun r hr => h r (by simp [hr])
    have ih := foldl_min_zero_iff ps (min p q) (le_min hp hq) hps
    simp only [List.foldl_cons, List.mem_cons, exists_eq_or_imp]
    rw [ih]
    constructor
    · rintro (h0 | h0)
      · rcases min_choice p q with hm | hm
        · left; rw [← hm]; exact h0
        · right; left; rw [← hm]; exact h0
      · right; right; exact h0
    · rintro (h0 | h0 | h0)
      · left; rw [h0]; exact min_eq_left hq
      · left; rw [h0]; exact min_eq_right hp
      · right; exact h0

/-- the combined penalty `or_` is zero exactly where at least one member penalty is zero -/
theorem pen_or_zero (k : K) (hk : 0 < k) (p : K) (ps : List K) (hp : 0 ≤ p) (hnn : ∀ q ∈ ps, 0 ≤ q) :
    penOr k p ps = 0 ↔ ∃ q ∈ p :: ps, q = 0 := by
  unfold penOr
  rw [mul_eq_zero, abs_eq_zero, foldl_min_zero_iff ps p hp hnn]
  simp only [List.mem_cons, exists_eq_or_imp]
  constructor
  · rintro (h | h)
    · exact absurd h (ne_of_gt hk)
    · exact h
  · exact fun h => Or.inr h

/-- `not_` over an inequality-type member penalises exactly the interior `cond x < 0` of the accepted region -/
theorem pen_not_interior_ineq (term : K → K) (hterm : ∀ v, (term v = 0 ↔ v ≤ 0) ∧ 0 ≤ term v) (cond : K) :
    0 < term (0 - cond) ↔ cond < 0 := by
  obtain ⟨h1, h2⟩ := hterm (0 - cond)
  constructor
  · intro h
    by_contra hc
    have : 0 - cond ≤ 0 := by linarith [not_lt.mp hc]
    rw [h1.mpr this] at h; exact lt_irrefl _ h
  · intro h
    rcases lt_or_eq_of_le h2 with h3 | h3
    · exact h3
    · exfalso
      have := h1.mp h3.symm
      linarith

/-- `not_` over an equality-type member (`not cond x`, i.e. 1 iff `cond x = 0`) penalises exactly `cond x = 0` -/
theorem pen_not_interior_eq (term : K → K) (hterm : ∀ v, (term v = 0 ↔ v = 0)) (cond : K) :
    term (if cond = 0 then 1 else 0) ≠ 0 ↔ cond = 0 := by
  by_cases h : cond = 0
  · simp [h, hterm]
  · simp [h, hterm]

end pen

/-! ## non-vacuity: the hypotheses are met by concrete, non-trivial runs -/

/-- a cycling run (two clamps to [1,3] and [2,5] on `0`): success after the first pass failed, links intact,
    both members idempotent and both fix the result -/
def exC : Nat → Int → Option Int := fun i x => if i = 0 then some (max 1 (min 3 x)) else some (max 2 (min 5 x))
example : (and_ exC (fun (d : Int) _ => d) 2 20 0 []).1 = .success 2 2 3 ∧ exC 0 2 = some 2 ∧ exC 1 2 = some 2 := by
  decide

example : (or_ (fun (i : Nat) (x : Int) => if i = 0 then some (x + 1) else some (max 0 x)) (fun (d : Nat) => d)
    2 10 (-3) [1, 1, 1, 1]).1 = .success 0 3 1 := by decide

example : (not_ (fun (x : Int) => some (max 0 x)) (fun (d : Int) _ => d) 5 3 [7, -2]).1 = .success (-2) 0 0 := by
  decide

end MysticVerif.C17
