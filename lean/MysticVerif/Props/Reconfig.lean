/-
C02 / C03 / C04 for RECONFIGURED differential-evolution runs (Model/Reconfig.lean): penalty, constraints and strict
ranges may change between any two iterations (Set* between Steps, settings handed to Step, a Step after a stop); DE and
DE2 may even alternate.  For every such history, every list of trial vectors and every population surgery done by the
re-decoration:

  * the evaluation monitor is append-only and splits into one segment per iteration, and every record of segment k is
    `(x, cost_k x)` at a point that the constraints in force AT ITERATION k leave unchanged and that lies in the box in
    force at iteration k (`reconfigured_evaluations_segmented`);
  * hence every evaluated point lies in any region containing all the boxes that were in force (C02), and satisfies any
    predicate implied by each iteration's constraints (C03);
  * the best energy never increases and the step monitor gets exactly one record per iteration, whose energies are
    non-increasing (C04) - the settings can change what an energy MEANS (C01 known class `penalty-changed-mid-run`),
    never the order of the history.
-/
import MysticVerif.Proofs.Reconfig
import MysticVerif.Proofs.ReconfigNM

namespace MysticVerif.Reconfig
open MysticVerif.Solver

variable {X E : Type}

/-- **the evaluation monitor, segment by segment** -/
theorem reconfigured_evaluations_segmented [LinearOrder E] :
    ∀ (gs : List (DEGen X E)) (s : DE X E), (∀ g ∈ gs, Hyp g.o) →
      ∃ segs : List (List (X × E)), List.Forall₂ (fun g t => LogOK g.o t) gs segs ∧
        (DE.runCfg gs s).log = s.log ++ segs.flatten := by
  intro gs
  induction gs with
  | nil => intro s _; exact ⟨[], List.Forall₂.nil, by simp [DE.runCfg]⟩
  | cons g gs ih =>
    intro s h
    obtain ⟨t, et, kt⟩ := DE.genStep_appended g (h g (by simp)) s
    obtain ⟨segs, f2, e⟩ := ih (DE.genStep g s) (fun g' hg' => h g' (by simp [hg']))
    refine ⟨t :: segs, List.Forall₂.cons kt f2, ?_⟩
    have : DE.runCfg (g :: gs) s = DE.runCfg gs (DE.genStep g s) := rfl
    rw [this, e, et]
    simp

/-- every record of a reconfigured run is an old one or was made under some iteration's objective -/
theorem reconfigured_record_origin [LinearOrder E] (gs : List (DEGen X E)) (s : DE X E) (h : ∀ g ∈ gs, Hyp g.o) :
    ∀ p ∈ (DE.runCfg gs s).log, p ∈ s.log ∨ ∃ g ∈ gs, p.2 = g.o.raw p.1 ∧ g.o.K p.1 = p.1 ∧
      (g.o.useRange = true → g.o.inBox p.1 = true) := by
  obtain ⟨segs, f2, e⟩ := reconfigured_evaluations_segmented gs s h
  intro p hp
  rw [e] at hp
  rcases List.mem_append.mp hp with hp | hp
  · exact Or.inl hp
  · right
    obtain ⟨t, ht, hpt⟩ := List.mem_flatten.mp hp
    -- find the generation of segment t
    have : ∀ (gs : List (DEGen X E)) (segs : List (List (X × E))), List.Forall₂ (fun g t => LogOK g.o t) gs segs →
        t ∈ segs → ∃ g ∈ gs, LogOK g.o t := by
      intro gs segs f
      induction f with
      | nil => intro hm; cases hm
      | cons hab _ ih =>
        intro hm
        rcases List.mem_cons.mp hm with rfl | hm
        · exact ⟨_, by simp, hab⟩
        · obtain ⟨g, hg, hk⟩ := ih hm
          exact ⟨g, by simp [hg], hk⟩
    obtain ⟨g, hg, hk⟩ := this gs segs f2 ht
    exact ⟨g, hg, hk p hpt⟩

/-- **C02 under reconfiguration**: if strict ranges are in force at every iteration and every box that was in force
lies inside `B`, every point the cost was called at during the run lies in `B` -/
theorem reconfigured_evaluations_in_box [LinearOrder E] (gs : List (DEGen X E)) (s : DE X E) (h : ∀ g ∈ gs, Hyp g.o)
    (B : X → Prop) (hB : ∀ g ∈ gs, g.o.useRange = true ∧ ∀ x, g.o.inBox x = true → B x) :
    ∀ p ∈ (DE.runCfg gs s).log, p ∈ s.log ∨ B p.1 := by
  intro p hp
  rcases reconfigured_record_origin gs s h p hp with h0 | ⟨g, hg, _, _, hbox⟩
  · exact Or.inl h0
  · exact Or.inr ((hB g hg).2 _ (hbox (hB g hg).1))

/-- **C03 under reconfiguration**: a predicate that every iteration's constraints establish on their fixed points
holds at every point the cost was called at -/
theorem reconfigured_evaluations_constrained [LinearOrder E] (gs : List (DEGen X E)) (s : DE X E)
    (h : ∀ g ∈ gs, Hyp g.o) (C : X → Prop) (hC : ∀ g ∈ gs, ∀ x, g.o.K x = x → C x) :
    ∀ p ∈ (DE.runCfg gs s).log, p ∈ s.log ∨ C p.1 := by
  intro p hp
  rcases reconfigured_record_origin gs s h p hp with h0 | ⟨g, hg, _, hk, _⟩
  · exact Or.inl h0
  · exact Or.inr (hC g hg _ hk)

/-- **C04 under reconfiguration: the evaluation monitor is append-only** -/
theorem reconfigured_log_prefix [LinearOrder E] (gs : List (DEGen X E)) (s : DE X E) (h : ∀ g ∈ gs, Hyp g.o) :
    s.log <+: (DE.runCfg gs s).log := by
  obtain ⟨segs, _, e⟩ := reconfigured_evaluations_segmented gs s h
  rw [e]
  exact List.prefix_append _ _

/-- **C04 under reconfiguration: the best energy never increases** -/
theorem reconfigured_bestE_le [LinearOrder E] : ∀ (gs : List (DEGen X E)) (s : DE X E),
    (DE.runCfg gs s).bestE ≤ s.bestE := by
  intro gs
  induction gs with
  | nil => intro s; exact le_refl _
  | cons g gs ih =>
    intro s
    exact le_trans (ih (DE.genStep g s)) (DE.genStep_bestE_le g s)

/-- **C04 under reconfiguration: one step-monitor record per iteration** -/
theorem reconfigured_one_record_per_iteration [LinearOrder E] : ∀ (gs : List (DEGen X E)) (s : DE X E),
    (DE.runCfg gs s).stepLog.length = s.stepLog.length + gs.length := by
  intro gs
  induction gs with
  | nil => intro s; rfl
  | cons g gs ih =>
    intro s
    have : DE.runCfg (g :: gs) s = DE.runCfg gs (DE.genStep g s) := rfl
    rw [this, ih, DE.genStep_stepLog]
    simp
    omega

/-- the history invariant: non-increasing, and bounded below by the current best energy -/
def HistOK [LinearOrder E] (s : DE X E) : Prop :=
  (s.stepLog.map Prod.snd).Pairwise (· ≥ ·) ∧ ∀ e ∈ s.stepLog.map Prod.snd, s.bestE ≤ e

theorem genStep_histOK [LinearOrder E] (g : DEGen X E) (s : DE X E) (hs : HistOK s) : HistOK (DE.genStep g s) := by
  have hle := DE.genStep_bestE_le g s
  constructor
  · rw [DE.genStep_stepLog]
    simp only [List.map_append, List.map_cons, List.map_nil]
    rw [List.pairwise_append]
    refine ⟨hs.1, by simp, ?_⟩
    intro a ha b hb
    simp only [List.mem_singleton] at hb
    subst hb
    exact le_trans hle (hs.2 a ha)
  · intro e he
    rw [DE.genStep_stepLog] at he
    simp only [List.map_append, List.map_cons, List.map_nil, List.mem_append, List.mem_singleton] at he
    rcases he with he | he
    · exact le_trans hle (hs.2 e he)
    · rw [he]

/-- **C04 under reconfiguration: the best-energy history is non-increasing and ends in the reported best energy**,
whatever happens to penalty, constraints and ranges between the iterations -/
theorem reconfigured_history_antitone [LinearOrder E] : ∀ (gs : List (DEGen X E)) (s : DE X E), HistOK s →
    HistOK (DE.runCfg gs s) := by
  intro gs
  induction gs with
  | nil => intro s hs; exact hs
  | cons g gs ih => intro s hs; exact ih _ (genStep_histOK g s hs)

theorem init_histOK [LinearOrder E] (o : Obj X E) (pop : List X) (x0 : X) : HistOK (DE.init o pop x0) := by
  constructor
  · simp [DE.init]
  · intro e he; simp [DE.init] at he

/-! non-vacuity: a two-iteration run over `Int` whose penalty and box change in between -/

def o1 : Obj Int Int :=
  { raw := fun x => x * x, pen := fun _ => 0, K := fun x => x, inBox := fun x => decide (-10 ≤ x ∧ x ≤ 10),
    useRange := true, top := 1000000, add := (· + ·) }
def o2 : Obj Int Int :=
  { raw := fun x => x * x, pen := fun x => if x < 2 then 100 else 0, K := fun x => max x 1,
    inBox := fun x => decide (0 ≤ x ∧ x ≤ 5), useRange := true, top := 1000000, add := (· + ·) }

example :
    let r := DE.runCfg [{ o := o1, pre := id, trials := [7, -3], two := false },
                        { o := o2, pre := id, trials := [-4, 3], two := true }] (DE.init o1 [7, -3] 7)
    r.log = [(7, 49), (-3, 9), (1, 1), (3, 9)] ∧ r.pop = [7, -3] ∧ r.bestE = 9 ∧ r.stepLog.map Prod.snd = [9, 9] := by
  decide

end MysticVerif.Reconfig

/-! ### Nelder-Mead: what a re-decoration under strict ranges does to the simplex (known finding F20) -/

namespace MysticVerif.Reconfig
open MysticVerif.Solver

variable {R E : Type}

/-- the energies are kept, position by position, whatever happens to the vertices -/
theorem nm_redecorate_keeps_energies (clip0 mkVal : Pt R → Pt R) (zero : R) (k : Nat) (sx : List (Pt R × E)) :
    (NM.redecorate clip0 mkVal zero k sx).map Prod.snd = sx.map Prod.snd := by
  unfold NM.redecorate
  cases sx with
  | nil => rfl
  | cons p tl =>
    obtain ⟨x0', f0⟩ := p
    simp only
    split
    · rfl
    · simp only [List.map_cons, List.map_map, List.cons.injEq, true_and]
      have : ∀ (l : List (Pt R × E)) (n : Nat),
          List.map (Prod.snd ∘ fun p : (Pt R × E) × Nat => ((clip0 x0').set p.2 ((mkVal (clip0 x0')).getD p.2 zero), p.1.2)) (l.zipIdx n)
            = l.map Prod.snd := by
        intro l
        induction l with
        | nil => intro n; rfl
        | cons a l ih =>
          intro n
          rw [List.zipIdx_cons, List.map_cons, List.map_cons, ih (n + 1)]
          rfl
      exact this tl 0

/-- the best vertex is only clipped into the box; if it already lies inside it (`clip0` leaves it alone) it survives -/
theorem nm_redecorate_head (clip0 mkVal : Pt R → Pt R) (zero : R) (k : Nat) (x0 : Pt R) (f0 : E) (tl : List (Pt R × E)) :
    (NM.redecorate clip0 mkVal zero k ((x0, f0) :: tl)).head? = some (clip0 x0, f0) := by
  unfold NM.redecorate
  simp only
  split <;> rfl

/-- **F20, kernel-checked**: after generation 1 a re-decoration replaces every other vertex and keeps its energy - the
member `([5, 9], 106)` of a simplex whose energies are `x² + y²` becomes `([6, 0], 106)`: it no longer carries its own
energy (`6² + 0² = 36`) -/
theorem nm_redecoration_breaks_member_energy_witness :
    let cost : Pt Int → Int := fun x => (x.getD 0 0) * (x.getD 0 0) + (x.getD 1 0) * (x.getD 1 0)
    let sx : List (Pt Int × Int) := [([5, 0], 25), ([5, 9], 106), ([7, 0], 49)]
    (∀ p ∈ sx, p.2 = cost p.1) ∧
    NM.redecorate (fun x => x) (fun x => x.map (· + 1)) 0 2 sx = [([5, 0], 25), ([6, 0], 106), ([5, 1], 49)] ∧
    ¬ (∀ p ∈ NM.redecorate (fun x => x) (fun x => x.map (· + 1)) 0 2 sx, p.2 = cost p.1) := by
  decide

end MysticVerif.Reconfig

/-! ### Nelder-Mead under reconfiguration: the evaluation monitor, segment by segment -/

namespace MysticVerif.Reconfig
open MysticVerif.Solver

variable {R E : Type}

theorem nm_genStep_appended [Add R] [Sub R] [Mul R] [Div R] [LinearOrder E] (g : NMGen R E) (h : Hyp g.o) (k : Nat)
    (s : NM R E) : Appended g.o s.log (NM.genStep g k s).log := by
  unfold NM.genStep
  split
  · exact NM.gen1_appended h g.clip0 g.mkVal { s with simplex := g.pre s.simplex }
  · exact NM.update_appended h g.coef g.st { s with simplex := g.pre s.simplex }

/-- **C02/C03/C04 for reconfigured Nelder-Mead runs**: whatever the re-decorations did to the simplex (rebuilt vertices,
stale energies - known finding F20), the evaluation monitor is append-only and splits into one segment per iteration
whose records are `(x, cost x)` at points fixed by the constraints, and inside the box, in force at that iteration -/
theorem nm_reconfigured_evaluations_segmented [Add R] [Sub R] [Mul R] [Div R] [LinearOrder E] :
    ∀ (gs : List (NMGen R E)) (k : Nat) (s : NM R E), (∀ g ∈ gs, Hyp g.o) →
      ∃ segs : List (List (Pt R × E)), List.Forall₂ (fun g t => LogOK g.o t) gs segs ∧
        (NM.runFrom gs k s).log = s.log ++ segs.flatten := by
  intro gs
  induction gs with
  | nil => intro k s _; exact ⟨[], List.Forall₂.nil, by simp [NM.runFrom]⟩
  | cons g gs ih =>
    intro k s h
    obtain ⟨t, et, kt⟩ := nm_genStep_appended g (h g (by simp)) k s
    obtain ⟨segs, f2, e⟩ := ih (k + 1) (NM.genStep g k s) (fun g' hg' => h g' (by simp [hg']))
    refine ⟨t :: segs, List.Forall₂.cons kt f2, ?_⟩
    simp only [NM.runFrom]
    rw [e, et]
    simp

/-- **C02 under reconfiguration, Nelder-Mead**: every point the cost is called at lies in any region that contains
all the boxes that were in force -/
theorem nm_reconfigured_evaluations_in_box [Add R] [Sub R] [Mul R] [Div R] [LinearOrder E] (gs : List (NMGen R E))
    (k : Nat) (s : NM R E) (h : ∀ g ∈ gs, Hyp g.o) (B : Pt R → Prop)
    (hB : ∀ g ∈ gs, g.o.useRange = true ∧ ∀ x, g.o.inBox x = true → B x) :
    ∀ p ∈ (NM.runFrom gs k s).log, p ∈ s.log ∨ B p.1 := by
  obtain ⟨segs, f2, e⟩ := nm_reconfigured_evaluations_segmented gs k s h
  intro p hp
  rw [e] at hp
  rcases List.mem_append.mp hp with hp | hp
  · exact Or.inl hp
  · right
    obtain ⟨t, ht, hpt⟩ := List.mem_flatten.mp hp
    have : ∀ (gs : List (NMGen R E)) (segs : List (List (Pt R × E))), List.Forall₂ (fun g t => LogOK g.o t) gs segs →
        t ∈ segs → ∃ g ∈ gs, LogOK g.o t := by
      intro gs segs f
      induction f with
      | nil => intro hm; cases hm
      | cons hab _ ih =>
        intro hm
        rcases List.mem_cons.mp hm with rfl | hm
        · exact ⟨_, by simp, hab⟩
        · obtain ⟨g, hg, hk⟩ := ih hm
          exact ⟨g, by simp [hg], hk⟩
    obtain ⟨g, hg, hk⟩ := this gs segs f2 ht
    exact (hB g hg).2 _ ((hk p hpt).2.2 (hB g hg).1)

/-- **C03 under reconfiguration, Nelder-Mead** -/
theorem nm_reconfigured_evaluations_constrained [Add R] [Sub R] [Mul R] [Div R] [LinearOrder E] (gs : List (NMGen R E))
    (k : Nat) (s : NM R E) (h : ∀ g ∈ gs, Hyp g.o) (C : Pt R → Prop) (hC : ∀ g ∈ gs, ∀ x, g.o.K x = x → C x) :
    ∀ p ∈ (NM.runFrom gs k s).log, p ∈ s.log ∨ C p.1 := by
  obtain ⟨segs, f2, e⟩ := nm_reconfigured_evaluations_segmented gs k s h
  intro p hp
  rw [e] at hp
  rcases List.mem_append.mp hp with hp | hp
  · exact Or.inl hp
  · right
    obtain ⟨t, ht, hpt⟩ := List.mem_flatten.mp hp
    have : ∀ (gs : List (NMGen R E)) (segs : List (List (Pt R × E))), List.Forall₂ (fun g t => LogOK g.o t) gs segs →
        t ∈ segs → ∃ g ∈ gs, LogOK g.o t := by
      intro gs segs f
      induction f with
      | nil => intro hm; cases hm
      | cons hab _ ih =>
        intro hm
        rcases List.mem_cons.mp hm with rfl | hm
        · exact ⟨_, by simp, hab⟩
        · obtain ⟨g, hg, hk⟩ := ih hm
          exact ⟨g, by simp [hg], hk⟩
    obtain ⟨g, hg, hk⟩ := this gs segs f2 ht
    exact hC g hg _ (hk p hpt).2.1

end MysticVerif.Reconfig

/-! ### C01 under reconfiguration: where the reported best comes from -/

namespace MysticVerif.Reconfig
open MysticVerif.Solver

variable {X E : Type}

/-- **C01 for reconfigured differential-evolution runs.** A finite reported best energy is cost + penalty at the reported
best solution UNDER THE SETTINGS OF SOME ITERATION OF THE RUN (the one that found it), and the reported best solution was
passed to the user's cost, is left unchanged by that iteration's constraints and lies in that iteration's box.  (With a
penalty switched later the stored energy is NOT re-evaluated: the monitors' known class `penalty-changed-mid-run`.) -/
theorem reconfigured_best_origin [LinearOrder E] (T : E) :
    ∀ (gs : List (DEGen X E)) (s : DE X E), (∀ g ∈ gs, Hyp g.o ∧ g.o.top = T) →
      GoodAny (fun o => ∃ g ∈ gs, g.o = o) T s.log s.best s.bestE →
      GoodAny (fun o => ∃ g ∈ gs, g.o = o) T (DE.runCfg gs s).log (DE.runCfg gs s).best (DE.runCfg gs s).bestE := by
  -- generalised over the family of admissible objectives
  have gen : ∀ (S : Obj X E → Prop) (gs : List (DEGen X E)) (s : DE X E), (∀ g ∈ gs, Hyp g.o ∧ g.o.top = T ∧ S g.o) →
      GoodAny S T s.log s.best s.bestE →
      GoodAny S T (DE.runCfg gs s).log (DE.runCfg gs s).best (DE.runCfg gs s).bestE := by
    intro S gs
    induction gs with
    | nil => intro s _ hs; exact hs
    | cons g gs ih =>
      intro s h hs
      have hg := h g (by simp)
      have : DE.runCfg (g :: gs) s = DE.runCfg gs (DE.genStep g s) := rfl
      rw [this]
      apply ih _ (fun g' hg' => h g' (by simp [hg']))
      have := DE.genStep_bestAny (S := S) g hg.1 hg.2.2 s (by rw [hg.2.1]; exact hs)
      rw [hg.2.1] at this
      exact this
  intro gs s h hs
  exact gen _ gs s (fun g hg => ⟨(h g hg).1, (h g hg).2, g, hg, rfl⟩) hs

/-- the start of a run: best decoupled with energy `inf` -/
theorem init_bestAny (S : Obj X E → Prop) (o : Obj X E) (pop : List X) (x0 : X) :
    GoodAny S o.top (DE.init o pop x0).log (DE.init o pop x0).best (DE.init o pop x0).bestE := by
  intro he
  exact absurd rfl he

end MysticVerif.Reconfig
