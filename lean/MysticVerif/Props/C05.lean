/-
C05 - stopping discipline: limits, termination and exit requests are honoured.

Model: `Ctl` in Model/Solver.lean (`Step`, `Terminated`, `_SetEvaluationLimits`, `SetEvaluationLimits`, `Finalize`;
abstract_solver.py l.615-714, 1018-1113).  The termination condition's verdict and the effect of `_Step` on the
counters are parameters (`termPre`, `termPost`, `Delta`): the theorems hold for every termination condition and
every algorithm.
-/
import MysticVerif.Model.Solver
import MysticVerif.Model.Signal
import Mathlib.Order.Basic

namespace MysticVerif.C05
open MysticVerif.Solver

theorem reached_iff (l : Lim) (n : Nat) : l.reached n = true ↔ ∃ m, l = .val m ∧ m ≤ n := by
  cases l <;> simp [Lim.reached]

theorem message_isSome_iff (c : Ctl) (term : Bool) :
    (c.message term).isSome = true ↔
      (c.maxfun.reached c.evals = true ∨ c.maxiter.reached c.gens = true ∨ c.earlyExit = true ∨ term = true) := by
  unfold Ctl.message
  by_cases h1 : c.maxfun.reached c.evals = true
  · simp [h1]
  · by_cases h2 : c.maxiter.reached c.gens = true
    · simp [h1, h2]
    · by_cases h3 : c.earlyExit = true
      · simp [h1, h2, h3]
      · by_cases h4 : term = true
        · simp [h1, h2, h3, h4]
        · simp [h1, h2, h3, h4]

@[simp] theorem resolve_gens (c : Ctl) : c.resolve.gens = c.gens := rfl
@[simp] theorem resolve_evals (c : Ctl) : c.resolve.evals = c.evals := rfl
@[simp] theorem resolve_nstep (c : Ctl) : c.resolve.nstep = c.nstep := rfl
@[simp] theorem resolve_powell (c : Ctl) : c.resolve.powell = c.powell := rfl
@[simp] theorem resolve_earlyExit (c : Ctl) : c.resolve.earlyExit = c.earlyExit := rfl
theorem resolve_maxiter_val (c : Ctl) (g : Nat) (h : c.maxiter = .val g) : c.resolve.maxiter = .val g := by
  simp [Ctl.resolve, h]

@[simp] theorem pre_gens (c : Ctl) : c.pre.gens = c.gens := by unfold Ctl.pre; split <;> rfl
@[simp] theorem pre_evals (c : Ctl) : c.pre.evals = c.evals := by unfold Ctl.pre; split <;> rfl
@[simp] theorem pre_nstep (c : Ctl) : c.pre.nstep = c.nstep := by unfold Ctl.pre; split <;> rfl
@[simp] theorem pre_powell (c : Ctl) : c.pre.powell = c.powell := by unfold Ctl.pre; split <;> rfl
@[simp] theorem pre_earlyExit (c : Ctl) : c.pre.earlyExit = c.earlyExit := by unfold Ctl.pre; split <;> rfl
theorem pre_maxiter_val (c : Ctl) (g : Nat) (h : c.maxiter = .val g) : c.pre.maxiter = .val g := by
  unfold Ctl.pre; split
  · exact h
  · exact resolve_maxiter_val _ g h

theorem after_maxiter_val (c : Ctl) (d : Delta) (g : Nat) (h : c.maxiter = .val g) : (c.after d).maxiter = .val g := by
  unfold Ctl.after
  exact resolve_maxiter_val _ g (pre_maxiter_val c g h)

theorem after_gens (c : Ctl) (d : Delta) (hp : c.powell = false) : (c.after d).gens = c.gens + d.dGens := by
  unfold Ctl.after; simp [hp]

@[simp] theorem after_powell (c : Ctl) (d : Delta) : (c.after d).powell = c.powell := by
  unfold Ctl.after; simp

@[simp] theorem after_nstep (c : Ctl) (d : Delta) : (c.after d).nstep = c.nstep + d.dStep := by
  unfold Ctl.after; simp

theorem finalize_gens (c : Ctl) (hp : c.powell = false) : c.finalize.gens = c.gens := by
  unfold Ctl.finalize; simp [hp]
theorem finalize_maxiter (c : Ctl) : c.finalize.maxiter = c.maxiter := by
  unfold Ctl.finalize; split <;> rfl
theorem finalize_powell (c : Ctl) : c.finalize.powell = c.powell := by
  unfold Ctl.finalize; split <;> rfl
theorem finalize_nstep_ge (c : Ctl) : c.nstep ≤ c.finalize.nstep := by
  unfold Ctl.finalize; split <;> simp

/-- for every solver but Powell `Finalize` changes nothing `Terminated` reads -/
theorem finalize_message (c : Ctl) (t : Bool) (hp : c.powell = false) : c.finalize.message t = c.message t := by
  unfold Ctl.finalize; simp [hp, Ctl.message]

/-- the three ways `Step` can end -/
theorem step_cases (c : Ctl) (tp tq : Bool) (d : Delta) :
    (∃ m, c.preMsg tp = some m ∧ c.step tp tq d = (c.pre, some m, false)) ∨
    (c.preMsg tp = none ∧ ∃ m, (c.after d).message tq = some m ∧
      c.step tp tq d = ((c.after d).finalize, (c.after d).finalize.message tq, true)) ∨
    (c.preMsg tp = none ∧ (c.after d).message tq = none ∧ c.step tp tq d = (c.after d, none, true)) := by
  unfold Ctl.step
  cases h1 : c.preMsg tp with
  | some m => exact Or.inl ⟨m, rfl, rfl⟩
  | none =>
    cases h2 : (c.after d).message tq with
    | some m => exact Or.inr (Or.inl ⟨rfl, m, rfl, rfl⟩)
    | none => exact Or.inr (Or.inr ⟨rfl, rfl, rfl⟩)

/-- **no further iteration when stopped**: after the initial evaluation (`nstep ≠ 0`), if at this moment a limit
is reached, an exit was requested or the termination condition holds, `Step` does not run `_Step`: the counters
and the step monitor are untouched and a message is returned. -/
theorem no_step_when_stopped (c : Ctl) (termPre termPost : Bool) (d : Delta) (hn : c.nstep ≠ 0)
    (hstop : c.pre.maxfun.reached c.evals = true ∨ c.pre.maxiter.reached c.gens = true ∨ c.earlyExit = true
      ∨ termPre = true) :
    (c.step termPre termPost d).2.2 = false ∧ (c.step termPre termPost d).2.1.isSome = true ∧
    (c.step termPre termPost d).1.evals = c.evals ∧ (c.step termPre termPost d).1.gens = c.gens ∧
    (c.step termPre termPost d).1.nstep = c.nstep := by
  have hm : (c.preMsg termPre).isSome = true := by
    unfold Ctl.preMsg
    rw [if_neg hn, message_isSome_iff]
    simpa using hstop
  unfold Ctl.step
  cases hmsg : c.preMsg termPre with
  | none => rw [hmsg] at hm; cases hm
  | some m => simp

/-- conversely an iteration runs only if no stop condition held at that moment -/
theorem step_ran_only_if_not_stopped (c : Ctl) (termPre termPost : Bool) (d : Delta)
    (hran : (c.step termPre termPost d).2.2 = true) : c.preMsg termPre = none := by
  unfold Ctl.step at hran
  cases hmsg : c.preMsg termPre with
  | none => rfl
  | some m => rw [hmsg] at hran; simp at hran

/-- **the stop message names a condition that is true of the state it was computed on** -/
theorem message_truthful (c : Ctl) (term : Bool) (m : Msg) (h : c.message term = some m) :
    (m = .lim → c.maxfun.reached c.evals = true ∨ c.maxiter.reached c.gens = true) ∧
    (m = .sig → c.earlyExit = true) ∧ (m = .cond → term = true) := by
  unfold Ctl.message at h
  split at h
  · cases h; simp_all
  · split at h
    · cases h; simp_all
    · split at h
      · cases h; simp_all
      · split at h
        · cases h; simp_all
        · cases h

/-- ... and of the FINAL state `Step` returns: counters, limits and the exit flag of the returned state are those
the message was computed on (`Finalize` changes none of them for the non-Powell solvers) -/
theorem step_message_truthful (c : Ctl) (termPre termPost : Bool) (d : Delta) (m : Msg)
    (h : (c.step termPre termPost d).2.1 = some m) :
    (m = .lim → (c.step termPre termPost d).1.maxfun.reached (c.step termPre termPost d).1.evals = true ∨
                (c.step termPre termPost d).1.maxiter.reached (c.step termPre termPost d).1.gens = true) ∧
    (m = .sig → (c.step termPre termPost d).1.earlyExit = true) := by
  rcases step_cases c termPre termPost d with ⟨m', hpre, hs⟩ | ⟨_, m', hpost, hs⟩ | ⟨_, _, hs⟩
  · rw [hs] at h ⊢
    simp only [Option.some.injEq] at h
    subst h
    unfold Ctl.preMsg at hpre
    split at hpre
    · cases hpre
    · have := message_truthful _ _ _ hpre
      exact ⟨this.1, this.2.1⟩
  · rw [hs] at h ⊢
    have := message_truthful _ _ _ h
    exact ⟨this.1, this.2.1⟩
  · rw [hs] at h; cases h

/-- **generations never exceed the generation limit**: with a numeric limit `g` in force, `gens ≤ g` is kept by
every `Step` of every solver whose `_Step` adds at most one generation (and none at generation 0) -/
theorem gens_le_maxiter (c : Ctl) (termPre termPost : Bool) (d : Delta) (g : Nat)
    (hlim : c.maxiter = .val g) (hle : c.gens ≤ g) (hd : d.dGens ≤ 1) (hd0 : c.nstep = 0 → d.dGens = 0)
    (hp : c.powell = false) :
    (c.step termPre termPost d).1.gens ≤ g ∧ (c.step termPre termPost d).1.maxiter = .val g
      ∧ (c.step termPre termPost d).1.powell = false := by
  -- the generation count after a step that ran
  have hafter : c.preMsg termPre = none → (c.after d).gens ≤ g := by
    intro hpre
    rw [after_gens c d hp]
    by_cases hn : c.nstep = 0
    · rw [hd0 hn]; simpa using hle
    · unfold Ctl.preMsg at hpre
      rw [if_neg hn] at hpre
      have := (message_isSome_iff c.pre termPre)
      rw [hpre] at this
      simp only [Option.isSome_none, Bool.false_eq_true, false_iff, not_or] at this
      have hnr := this.2.1
      rw [pre_maxiter_val c g hlim, pre_gens] at hnr
      simp [Lim.reached] at hnr
      omega
  unfold Ctl.step
  cases hpre : c.preMsg termPre with
  | some m => exact ⟨by simpa using hle, pre_maxiter_val c g hlim, by simpa using hp⟩
  | none =>
    simp only
    cases hpost : (c.after d).message termPost with
    | some m =>
      refine ⟨?_, ?_, ?_⟩
      · rw [finalize_gens _ (by simpa using hp)]; exact hafter hpre
      · rw [finalize_maxiter]; exact after_maxiter_val c d g hlim
      · rw [finalize_powell]; simpa using hp
    | none => exact ⟨hafter hpre, after_maxiter_val c d g hlim, by simpa using hp⟩

theorem step_nstep_ge (c : Ctl) (tp tq : Bool) (d : Delta) : c.nstep ≤ (c.step tp tq d).1.nstep := by
  rcases step_cases c tp tq d with ⟨m, _, hs⟩ | ⟨_, m, _, hs⟩ | ⟨_, _, hs⟩
  · rw [hs]; simp
  · rw [hs]
    have h1 : c.nstep ≤ (c.after d).nstep := by rw [after_nstep]; omega
    exact Nat.le_trans h1 (finalize_nstep_ge _)
  · rw [hs]; simp

/-- ... hence over ANY sequence of `Step`s after the initial evaluation -/
theorem gens_le_maxiter_run (g : Nat) :
    ∀ (steps : List (Bool × Bool × Delta)) (c : Ctl), c.maxiter = .val g → c.gens ≤ g → c.powell = false →
      c.nstep ≠ 0 → (∀ s ∈ steps, s.2.2.dGens ≤ 1) →
      (steps.foldl (fun c s => (c.step s.1 s.2.1 s.2.2).1) c).gens ≤ g := by
  intro steps
  induction steps with
  | nil => intro c _ hle _ _ _; exact hle
  | cons s ss ih =>
    intro c hlim hle hp hn h1
    simp only [List.foldl_cons]
    obtain ⟨a, b, e⟩ := gens_le_maxiter c s.1 s.2.1 s.2.2 g hlim hle (h1 s (by simp))
      (fun h0 => absurd h0 hn) hp
    have hge := step_nstep_ge c s.1 s.2.1 s.2.2
    exact ih _ b a e (by omega) (fun t ht => h1 t (by simp [ht]))

/-- **limits given with `new=True` count from the call**: the numeric limits installed are current count + n -/
theorem new_limits_from_call (c : Ctl) (g e : Nat) :
    (c.setLimits (some g) (some e) true).maxiter = .val (g + c.gens) ∧
    (c.setLimits (some g) (some e) true).maxfun = .val (e + c.evals) := by
  simp [Ctl.setLimits]

/-- limits given otherwise bound the totals -/
theorem total_limits (c : Ctl) (g e : Nat) :
    (c.setLimits (some g) (some e) false).maxiter = .val g ∧ (c.setLimits (some g) (some e) false).maxfun = .val e := by
  simp [Ctl.setLimits]

/-- `Terminated` always installs numeric limits (`None` and `"*"` are resolved), so a generation limit exists -/
theorem resolve_maxiter_isVal (c : Ctl) : ∃ g, c.resolve.maxiter = .val g := by
  unfold Ctl.resolve
  cases c.maxiter <;> simp

/-- **Solve returns**: as long as every iteration adds a generation, a message is produced within
`limit - gens + 1` further `Step`s (the loop `while not stop: stop = Step()` cannot run forever) -/
def solveLoop (termF : Nat → Bool × Bool) (d : Delta) : Nat → Ctl → Option (Ctl × Msg × Nat)
  | 0, _ => none
  | fuel + 1, c =>
    match c.step (termF fuel).1 (termF fuel).2 d with
    | (c', some m, _) => some (c', m, fuel)
    | (c', none, _) => solveLoop termF d fuel c'

theorem solve_returns (termF : Nat → Bool × Bool) (d : Delta) (hd : d.dGens = 1) (g : Nat) :
    ∀ (k : Nat) (c : Ctl), c.maxiter = .val g → c.powell = false → c.nstep ≠ 0 → g ≤ c.gens + k →
      (solveLoop termF d (k + 1) c).isSome = true := by
  intro k
  induction k with
  | zero =>
    intro c hlim hp hn hg
    have hstop : c.pre.maxfun.reached c.evals = true ∨ c.pre.maxiter.reached c.gens = true ∨ c.earlyExit = true
        ∨ (termF 0).1 = true := by
      right; left
      rw [pre_maxiter_val c g hlim]
      simp [Lim.reached]; omega
    have := no_step_when_stopped c (termF 0).1 (termF 0).2 d hn hstop
    unfold solveLoop
    cases hs : c.step (termF 0).1 (termF 0).2 d with
    | mk c' r =>
      obtain ⟨m, ran⟩ := r
      rw [hs] at this
      cases m with
      | none => simp at this
      | some m => simp
  | succ k ih =>
    intro c hlim hp hn hg
    unfold solveLoop
    rcases step_cases c (termF (k + 1)).1 (termF (k + 1)).2 d with ⟨m', _, h1⟩ | ⟨_, m', hm, h1⟩ | ⟨_, _, h1⟩
    · rw [h1]; simp
    · rw [h1, finalize_message _ _ (by simpa using hp), hm]; simp
    · rw [h1]
      simp only
      apply ih (c.after d) (after_maxiter_val c d g hlim) (by simpa using hp) (by simp; omega)
      rw [after_gens c d hp, hd]; omega

/-! ### evaluations overshoot the limit by less than one iteration's worth; the wrappers' warnflag -/

theorem step_evals_of_ran (c : Ctl) (tp tq : Bool) (d : Delta) (hran : (c.step tp tq d).2.2 = true) :
    (c.step tp tq d).1.evals = c.evals + d.dEvals := by
  rcases step_cases c tp tq d with ⟨m, _, hs⟩ | ⟨_, m, _, hs⟩ | ⟨_, _, hs⟩
  · rw [hs] at hran; simp at hran
  · rw [hs]
    have h1 : (c.after d).finalize.evals = (c.after d).evals := by unfold Ctl.finalize; split <;> rfl
    have h2 : (c.after d).evals = c.evals + d.dEvals := by simp [Ctl.after]
    simp only [h1, h2]
  · rw [hs]; simp [Ctl.after]

/-- **evaluation limit.** If `Step` ran an iteration (after the initial evaluation) the evaluation limit in force
was not yet reached when it began, so afterwards the evaluation count exceeds that limit by less than what this one
iteration added (`d.dEvals`). -/
theorem evals_overshoot_lt_one_step (c : Ctl) (termPre termPost : Bool) (d : Delta) (hn : c.nstep ≠ 0)
    (hran : (c.step termPre termPost d).2.2 = true) (m : Nat) (hm : c.pre.maxfun = .val m) :
    (c.step termPre termPost d).1.evals < m + d.dEvals := by
  have hpre := step_ran_only_if_not_stopped c termPre termPost d hran
  have hlt : c.evals < m := by
    unfold Ctl.preMsg at hpre
    rw [if_neg hn] at hpre
    have hnone : ¬ (c.pre.message termPre).isSome = true := by rw [hpre]; simp
    rw [message_isSome_iff] at hnone
    have h1 : ¬ c.pre.maxfun.reached c.pre.evals = true := fun h => hnone (Or.inl h)
    have he : c.pre.evals = c.evals := by
      unfold Ctl.pre; rw [if_neg hn]; simp [Ctl.resolve]
    rw [he, hm] at h1
    simp only [Lim.reached, decide_eq_true_eq] at h1
    omega
  have hev := step_evals_of_ran c termPre termPost d hran
  rw [hev]; omega

/-- **the wrappers' warnflag names a condition that is true of the final state**: 1 only if the evaluation limit is
reached, 2 only if the generation limit is reached (and the evaluation limit is not), 0 only if neither is. -/
theorem warnflag_truthful (c : Ctl) :
    (c.warnflag = 1 → c.maxfun.reached c.evals = true) ∧
    (c.warnflag = 2 → c.maxiter.reached c.gens = true ∧ c.maxfun.reached c.evals = false) ∧
    (c.warnflag = 0 → c.maxfun.reached c.evals = false ∧ c.maxiter.reached c.gens = false) ∧
    c.warnflag ≤ 2 := by
  unfold Ctl.warnflag
  cases h1 : c.maxfun.reached c.evals <;> cases h2 : c.maxiter.reached c.gens <;> simp

/-- the warnflag is non-zero exactly when `Terminated` attributes the stop to the limits -/
theorem warnflag_iff_limit_message (c : Ctl) (term : Bool) : c.message term = some .lim ↔ c.warnflag ≠ 0 := by
  unfold Ctl.message Ctl.warnflag
  cases h1 : c.maxfun.reached c.evals <;> cases h2 : c.maxiter.reached c.gens <;> cases h3 : c.earlyExit <;>
    cases term <;> simp

example : ({ evals := 7, gens := 3, maxfun := .val 7, maxiter := .val 3 } : Ctl).warnflag = 1 ∧
    ({ evals := 6, gens := 3, maxfun := .val 7, maxiter := .val 3 } : Ctl).warnflag = 2 ∧
    ({ evals := 6, gens := 2, maxfun := .val 7, maxiter := .val 3 } : Ctl).warnflag = 0 := by decide

/-! ### the interrupt handler (`_signal.Handler`): an exit is requested exactly by the `exit` switch -/

open MysticVerif.Signal in
theorem handle_earlyExit (cb : Bool) : ∀ (inputs : List Switch) (e : Effect),
    (handle cb inputs e).earlyExit = (e.earlyExit || decide (firstEnding inputs = some .exit)) := by
  intro inputs
  induction inputs with
  | nil => intro e; simp [handle, firstEnding]
  | cons s rest ih =>
    intro e
    cases s <;> simp [handle, firstEnding, ih] <;> (try rfl) <;> (try congr)

open MysticVerif.Signal in
/-- **an exit is requested iff the dialogue is ended by `exit`** (whatever was typed before: `sol`, `call`, unknown
options), the dialogue reads inputs only up to the first `cont` / `exit`, and `sigint_callback` runs once per `call` -/
theorem signal_exit_iff (cb : Bool) (inputs : List Switch) :
    ((deliver cb inputs).earlyExit = true ↔ firstEnding inputs = some .exit) ∧
    ((deliver cb inputs).finished = true ↔ (firstEnding inputs).isSome = true) ∧
    (deliver cb inputs).consumed ≤ inputs.length := by
  unfold deliver
  refine ⟨by rw [handle_earlyExit]; simp [start], ?_, ?_⟩
  · suffices h : ∀ (l : List Switch) (e : Effect), (handle cb l e).finished = (e.finished || (firstEnding l).isSome) by
      rw [h]; simp [start]
    intro l
    induction l with
    | nil => intro e; simp [handle, firstEnding]
    | cons s rest ih => intro e; cases s <;> simp [handle, firstEnding, ih]
  · suffices h : ∀ (l : List Switch) (e : Effect), (handle cb l e).consumed ≤ e.consumed + l.length by
      have := h inputs start; simpa [start] using this
    intro l
    induction l with
    | nil => intro e; simp [handle]
    | cons s rest ih =>
      intro e
      cases s <;> simp only [handle, List.length_cons]
      all_goals first
        | (have := ih { e with consumed := e.consumed + 1, printed := e.printed + 1 }; simp only at this; omega)
        | (have := ih { e with consumed := e.consumed + 1, called := e.called + (if cb = true then 1 else 0) }; simp only at this; omega)
        | (have := ih { e with consumed := e.consumed + 1, unknown := e.unknown + 1 }; simp only at this; omega)
        | omega

open MysticVerif.Signal in
/-- **a delivered `exit` stops the run at the next stop test**: with the flag the handler sets, `Step` does not begin a
further iteration and reports the interrupt unless a limit is reached as well -/
theorem no_step_after_signal_exit (c : Ctl) (cb : Bool) (inputs : List Switch) (hx : firstEnding inputs = some .exit)
    (termPre termPost : Bool) (d : Delta) (hn : c.nstep ≠ 0) :
    ({ c with earlyExit := c.earlyExit || (deliver cb inputs).earlyExit } : Ctl).step termPre termPost d |>.2.2 = false := by
  have he : (deliver cb inputs).earlyExit = true := (signal_exit_iff cb inputs).1.mpr hx
  have := no_step_when_stopped ({ c with earlyExit := c.earlyExit || (deliver cb inputs).earlyExit } : Ctl) termPre termPost d
    (by simpa using hn) (Or.inr (Or.inr (Or.inl (by simp [he]))))
  exact this.1

example : MysticVerif.Signal.deliver true [.sol, .other, .call, .exit, .cont]
    = { earlyExit := true, consumed := 4, printed := 1, called := 1, unknown := 1, finished := true } := by decide

/-- non-vacuity: a run that stops by its generation limit, with a truthful message -/
example : (({ nstep := 1, gens := 2, maxiter := .val 2, live := true } : Ctl).step false false { dEvals := 3 }).2.1 = some .lim := by
  decide

end MysticVerif.C05
