/-
C02, the clauses about where a run STARTS (Model/Config.lean, the configuration model that C07's differential run ties
to /repo: population bits and random-stream position after every Set* / decoration):

  * "initial points requested within given limits are generated within them":
    `SetRandomInitialPoints(min, max)` (abstract_solver.py l.500-526: `population[i][j] = random.uniform(min[j], max[j])`)
    and `SetInitialPoints(x0, radius)` (l.464-498);
  * "the initial population / simplex is clipped into the box when the objective is (re)decorated":
    `_clipGuessWithinRangeBoundary(x0, at)` (l.443-462) in BOTH its modes - clipping at the bounds, and (once a generation
    has run) replacing the offending coordinates by a random draw inside the box - and the loop over the members in
    `_decorate_objective` (l.909-913).

Field statements for EVERY stream of `random()` values in [0, 1] (`random.uniform(a, b) = a + (b - a) * random()`).
-/
import MysticVerif.Model.Config
import Mathlib.Tactic.Linarith
import Mathlib.Algebra.Order.Field.Basic

namespace MysticVerif.C02
open MysticVerif.Config

variable {K : Type} [Field K] [LinearOrder K] [IsStrictOrderedRing K]

/-- `random.uniform(a, b)` lands in `[a, b]` -/
theorem uniform_in_range (r a b : K) (hab : a ≤ b) (h0 : 0 ≤ r) (h1 : r ≤ 1) :
    a ≤ uniform r a b ∧ uniform r a b ≤ b := by
  unfold uniform
  have hd : 0 ≤ b - a := by linarith
  constructor
  · have := mul_nonneg hd h0; linarith
  · have : (b - a) * r ≤ (b - a) * 1 := mul_le_mul_of_nonneg_left h1 hd
    linarith

/-- numpy's clip of one coordinate lands in `[lo, hi]` and is the identity inside -/
theorem clipCoord_in_range (lo hi x : K) (h : lo ≤ hi) : lo ≤ clipCoord lo hi x ∧ clipCoord lo hi x ≤ hi := by
  unfold clipCoord
  split_ifs <;> constructor <;> linarith

theorem clipCoord_id (lo hi x : K) (h1 : lo ≤ x) (h2 : x ≤ hi) : clipCoord lo hi x = x := by
  unfold clipCoord
  split_ifs <;> first | rfl | linarith

/-- **generated within the requested limits**: after `SetRandomInitialPoints(min, max)` with bounds of the right
length and `min[j] ≤ max[j]`, every coordinate `j` of every member lies in `[min[j], max[j]]`, for every random stream -/
theorem random_initial_points_in_limits (u : Nat → K) (hu : ∀ n, 0 ≤ u n ∧ u n ≤ 1) (nDim : Nat) (dmin dmax : List K)
    (cur : Pop K) (mn mx : List K) (hmn : mn.length = nDim) (hmx : mx.length = nDim)
    (hle : ∀ j, j < nDim → mn.getD j 0 ≤ mx.getD j 0) :
    let p := newPopRandom u nDim dmin dmax cur (some mn) (some mx)
    p.population.length = cur.population.length ∧
    ∀ m ∈ p.population, m.length = nDim ∧ ∀ j, j < nDim → mn.getD j 0 ≤ m.getD j 0 ∧ m.getD j 0 ≤ mx.getD j 0 := by
  intro p
  have hraise : randomRaise nDim dmin dmax (some mn) (some mx) = false := by
    simp [randomRaise, hmn, hmx]
  have hp : p = { population := (List.range cur.population.length).map fun i => (List.range nDim).map fun j =>
                      uniform (u (cur.rngPos + i * nDim + j)) (mn.getD j 0) (mx.getD j 0),
                  rngPos := cur.rngPos + cur.population.length * nDim } := by
    simp only [p, newPopRandom, hraise, Bool.false_eq_true, if_false, Option.getD_some]
  rw [hp]
  refine ⟨by simp, ?_⟩
  intro m hm
  simp only [List.mem_map, List.mem_range] at hm
  obtain ⟨i, _, rfl⟩ := hm
  refine ⟨by simp, ?_⟩
  intro j hj
  have hget : ((List.range nDim).map fun j => uniform (u (cur.rngPos + i * nDim + j)) (mn.getD j 0) (mx.getD j 0)).getD j 0
      = uniform (u (cur.rngPos + i * nDim + j)) (mn.getD j 0) (mx.getD j 0) := by
    simp [List.getD, hj]
  rw [hget]
  exact uniform_in_range _ _ _ (hle j hj) (hu _).1 (hu _).2

/-- **clipped into the box on (re)decoration, both modes**: for a box `smin ≤ smax` as long as the member, every
coordinate of `_clipGuessWithinRangeBoundary(x, at)` lies in the box - whether the member is clipped at the bounds
(`at=True`) or its offending coordinates are re-drawn (`at=False`) - and a member already inside is returned unchanged -/
theorem clipGuess_in_box (smin smax x : List K) (at_ : Bool) (r : K) (h0 : 0 ≤ r) (h1 : r ≤ 1)
    (hlen1 : smin.length = x.length) (hlen2 : smax.length = x.length) (hne : x ≠ [])
    (hbox : ∀ j, j < x.length → smin.getD j 0 ≤ smax.getD j 0) :
    (clipGuess smin smax at_ r x).length = x.length ∧
    ∀ j, j < x.length → smin.getD j 0 ≤ (clipGuess smin smax at_ r x).getD j 0 ∧
                        (clipGuess smin smax at_ r x).getD j 0 ≤ smax.getD j 0 := by
  have hsne : smin.isEmpty = false := by
    cases smin with
    | nil => simp at hlen1; exact absurd hlen1.symm (by simpa using hne)
    | cons a l => rfl
  unfold clipGuess
  simp only [hsne, Bool.false_eq_true, if_false]
  refine ⟨by simp [hlen1, hlen2], ?_⟩
  intro j hj
  have hj1 : j < smin.length := by omega
  have hj2 : j < smax.length := by omega
  have hz : j < (x.zip (smin.zip smax)).length := by simp; omega
  have hget : ∀ (f : K × K × K → K), (List.map f (x.zip (smin.zip smax))).getD j 0 = f (x[j], smin[j], smax[j]) := by
    intro f
    have h' : (List.map f (x.zip (smin.zip smax)))[j]? = some (f (x[j], smin[j], smax[j])) := by
      rw [List.getElem?_map, List.getElem?_eq_getElem hz]; simp
    rw [List.getD_eq_getElem?_getD, h']; rfl
  rw [hget]
  simp only
  have e1 : smin.getD j 0 = smin[j] := by simp [List.getD, hj1]
  have e2 : smax.getD j 0 = smax[j] := by simp [List.getD, hj2]
  have hb := hbox j hj
  rw [e1, e2] at hb ⊢
  split_ifs with hat hne'
  · exact clipCoord_in_range _ _ _ hb
  · exact uniform_in_range _ _ _ hb h0 h1
  · -- the clipping would not change the coordinate: it is inside already
    have heq : clipCoord smin[j] smax[j] x[j] = x[j] := by
      by_contra hc
      apply hne'
      simp only [bne_iff_ne, ne_eq]
      exact hc
    rw [← heq]
    exact clipCoord_in_range _ _ _ hb

theorem clipGuess_id_inside (smin smax x : List K) (at_ : Bool) (r : K)
    (hlen1 : smin.length = x.length) (hlen2 : smax.length = x.length)
    (hin : ∀ j (hj : j < x.length), smin[j]'(by omega) ≤ x[j] ∧ x[j] ≤ smax[j]'(by omega)) :
    clipGuess smin smax at_ r x = x := by
  unfold clipGuess
  by_cases hs : smin.isEmpty = true
  · simp [hs]
  · rw [if_neg hs]
    apply List.ext_getElem
    · simp [hlen1, hlen2]
    · intro j h1 h2
      simp only [List.getElem_map, List.getElem_zip]
      have hj : j < x.length := h2
      have hc := clipCoord_id (smin[j]'(by omega)) (smax[j]'(by omega)) x[j] (hin j hj).1 (hin j hj).2
      cases at_
      · simp only [Bool.false_eq_true, if_false]
        rw [hc]
        simp
      · simp only [if_true]
        exact hc

/-- non-vacuity over ℚ: two members, box [0,1] x [2,4], draws 1/2 -/
example : (newPopRandom (fun _ => (1/2 : ℚ)) 2 [] [] { population := [[9, 9], [9, 9]], rngPos := 0 } (some [0, 2]) (some [1, 4])).population
    = [[1/2, 3], [1/2, 3]] := by
  simp [newPopRandom, randomRaise, uniform, List.range, List.range.loop]
  norm_num

example : clipGuess ([0, 2] : List ℚ) [1, 4] true 0 [5, 3] = [1, 3] ∧ clipGuess ([0, 2] : List ℚ) [1, 4] false (1/2) [5, 3] = [1/2, 3] := by
  constructor <;> simp [clipGuess, clipCoord, uniform] <;> norm_num

end MysticVerif.C02
