/-
C11 - dimensional collapse is detected per definition, applied exactly, reported once.
Property theorems only (helper lemmas live in Proofs/Collapse.lean, Proofs/CollapseApply.lean, Proofs/CollapseMeasure.lean).
Model: Model/Collapse.lean (a literal transcription of mystic/collapse.py detectors and mask filters,
monitors.py readers, mask.py update_mask, and the collapse loop of abstract_solver._Solve).

DESIGN.md section 5 / C11 list, status:
  collapse_at_spec            proved: for EVERY history / target / tolerance(s) / window / mask (`collapse_at_spec`), and in
                              the documented reading - window = last g records, change = max-min resp. max|x-target| -
                              over an ordered field (`collapse_at_spec_window`, `collapse_at_target_spec_window`;
                              `lastN_window`, `maxL_le_iff`, `ptp_le_iff`)
  collapse_as_spec            proved (`collapse_as_spec`, `collapse_as_spec_window`, `asMasked_iff`: mask of pairs in
                              either orientation and/or bare indices)
  collapse_weight_spec        proved, with the three mask formats dict / set / where (`weight_mask_formats`)
  collapse_position_spec      proved, with the three mask formats (`position_mask_formats`); the 'where' format with LIST
                              pairs is accepted and silently ignored by the code:
                              `position_where_list_pairs_ignored_witness` (known finding F24)
  own_output_as_mask_is_empty proved for all four detectors (`.._at`, `.._as`, `.._weight`, `.._position`), for ANY mask
                              that contains the old mask and the output
  update_mask_grows           proved: `extend_mask_grows` (per format: nothing lost, the collapse taken in),
                              `update_mask_grows` (any tree, any collapse dict: same primitives in the same order, same
                              factory and other settings, no mask loses a member), `update_mask_applies` (the primitive
                              whose doc is the collapse key - or a bare primitive - takes the collapse into its mask)
  not_reported_again          proved for collapse_at through `_extend_mask` (`not_reported_again`); for the other three
                              detectors it is the conjunction of `own_output_as_mask_is_empty_*` and `extend_mask_grows`
                              (not restated as one theorem)
  collapse_loop_terminates    proved: `collapse_chain_bounded` (any sequence of masks in which every round adds a fresh
                              member of the universe has at most |universe| rounds) and `collapse_loop_terminates` for the
                              loop model `Loop.run`
  applied_relation_exact      the CONSTRAINT that one applied CollapseAs collapse installs (impose_as over tools.connected,
                              Model/CollapseApply.lean) is proved to make every collapsed pair - and every connected
                              component of the pair set - exactly equal, to the ORIGINAL value at the group's key, and to
                              leave every other parameter alone, for every iteration order of the set in which no pair
                              joins two groups that already exist (`applied_pairs_equal_partial`,
                              `applied_component_equal_partial`, `applied_frame`); that covers every star / chain sharing
                              one parameter in ANY order and orientation (`applied_star_equal`) and every component grown
                              pair by pair (`oneComponentOrder_noBridge`).  The unrestricted statement is FALSE for the
                              code as it is: `applied_bridged_pair_not_tied_witness` (known finding F26; same mechanism
                              as C16/F18).  NOT proved: the solver level (that every later evaluated point went through
                              this constraint - it needs the shared solver model S) - the implementation monitor checks
                              it on every run and shows that it FAILS on the code as it is (known findings F21-F23, F25).
  applied_relation_exact      (measures) the CONSTRAINT that one round of CollapseWeight / CollapsePosition collapses installs
                              (constraints.impose_measure over tools.connected, Model/CollapseMeasure.lean = C19's
                              `Discrete.imposeMeasure` over `Clps.connected` of the pairs in the real iteration order) is
                              proved, over any ordered field, to give every collapsed weight EXACTLY 0 - also when the
                              position collapse of the same round moved a partner's weight onto that index (dead index =
                              root of a collapsed pair): the removals run last - and every collapsed position pair EXACTLY
                              equal, also after the removals (`measure_applied_weights_zero`,
                              `measure_applied_pairs_equal`, `impose_measure_applied_exact`); the other order of the two
                              loops breaks the weight clause: `impose_measure_other_order_witness`.  ACROSS rounds the
                              clause is false for the code as it is (older rounds run last):
                              `applied_weight_reweighted_by_older_round_witness` (known findings F27-F29).
collapse_cost / CollapseCost (bounds collapse): section CostCollapse at the end of this file.
NOT modelled: `update_mask(new=True)`, masks of mixed formats.
-/
import MysticVerif.Proofs.Collapse
import MysticVerif.Proofs.CollapseApply
import MysticVerif.Proofs.CollapseMeasure
import MysticVerif.Proofs.CollapseCost
import Mathlib.Logic.Relation
import Mathlib.Algebra.Order.Field.Rat
import Mathlib.Tactic.NormNum

namespace MysticVerif.C11
open MysticVerif.Clps

set_option linter.unusedSectionVars false

/-! ## the look-back window -/

/-- **Window.** A positive `generations = g` looks at exactly the last `min g len` records; `None` and `0` at the
whole history (`x[-0:]` is `x[0:]`). -/
theorem lastN_window {α : Type} (xs : List α) :
    (∀ g : Nat, 0 < g → lastN (some (g : Int)) xs = xs.drop (xs.length - g)) ∧
    lastN none xs = xs ∧ lastN (some 0) xs = xs :=
  ⟨fun g hg => lastN_pos xs g hg, rfl, lastN_zero xs⟩

example : lastN (some 2) [1, 2, 3, 4] = [3, 4] := by decide
example : lastN (some 9) [1, 2, 3, 4] = [1, 2, 3, 4] := by decide
example : lastN (some (-1)) [1, 2, 3, 4] = [2, 3, 4] := by decide

section Field
variable {K : Type} [Field K] [LinearOrder K] [IsStrictOrderedRing K]

/-- **Tolerance test, max.** `column.max() <= tol` iff every record of the window is within the tolerance. -/
theorem maxL_le_iff (c : List K) (v t : K) (h : maxL c = some v) : v ≤ t ↔ ∀ x ∈ c, x ≤ t :=
  maxL_le_iff' c v t h

/-- **Tolerance test, ptp.** `ptp(column) <= tol` iff any two records of the window differ by at most the tolerance. -/
theorem ptp_le_iff (c : List K) (v t : K) (h : ptp c = some v) : v ≤ t ↔ ∀ x ∈ c, ∀ y ∈ c, x - y ≤ t :=
  ptp_le_iff' c v t h

example : ptp ([1, 3, 2] : List Int) = some 2 := by decide
example : maxL ([1, 3, 2] : List Int) = some 3 := by decide

end Field

/-! ## `collapse_at` -/
section At
variable {R : Type} [Sub R] [Neg R] [LT R] [DecidableLT R] [LE R] [DecidableLE R] [OfNat R 0]

/-- **collapse_at, every input.** Whenever the detector returns (it raises exactly when the mask is rejected, the
window is empty or ragged, or the target cannot be broadcast), index `i` is reported iff it is a column of the
(broadcast) window, it is NOT in the mask, and its change over the window is within (one of) the tolerance(s). -/
theorem collapse_at_spec (hist : List (List R)) (tgt : Target R) (tols : List R) (g : Option Int) (mask : SetMask)
    (l : List Nat) (h : collapseAt hist tgt tols g mask = .ok l) (i : Nat) :
    i ∈ l ↔ ∃ ms r rest k, atMaskCheck mask = .ok ms ∧ lastN g hist = r :: rest ∧ bwidth r.length tgt = some k ∧
      i < k ∧ (Int.ofNat i) ∉ ms ∧ leAny tols (changeAt (r :: rest) r.length tgt i) = true := by
  unfold collapseAt at h
  cases hm : atMaskCheck mask with
  | error e => simp [hm] at h
  | ok ms =>
    simp only [hm] at h
    cases hw : lastN g hist with
    | nil => simp [hw] at h
    | cons r rest =>
      simp only [hw] at h
      by_cases hr : isRect r.length rest = true
      · simp only [hr, if_true] at h
        cases hb : bwidth r.length tgt with
        | none => simp [hb] at h
        | some k =>
          simp only [hb, Except.ok.injEq] at h
          subst h
          simp only [List.mem_filter, List.mem_range, Bool.and_eq_true, Bool.not_eq_true', List.contains_eq_mem,
            decide_eq_false_iff_not]
          constructor
          · rintro ⟨h1, h2, h3⟩
            exact ⟨ms, r, rest, k, rfl, rfl, hb, h1, h3, h2⟩
          · rintro ⟨ms', r', rest', k', h1, h2, h3, h4, h5, h6⟩
            simp only [Except.ok.injEq] at h1
            subst h1
            simp only [List.cons.injEq] at h2
            obtain ⟨rfl, rfl⟩ := h2
            simp only [hb, Option.some.injEq] at h3
            subst h3
            exact ⟨h4, h6, h5⟩
      · simp [hr] at h

/-- **Own output as mask, collapse_at.** Any set mask that contains the old mask's indices and the detector's own
output (this is what `update_mask` builds, see `extend_mask_grows`) makes the detector report nothing on the same
history. -/
theorem own_output_as_mask_is_empty_at (hist : List (List R)) (tgt : Target R) (tols : List R) (g : Option Int)
    (mask : SetMask) (l : List Nat) (h : collapseAt hist tgt tols g mask = .ok l)
    (es' : List MElem) (hidx : ∀ e ∈ es', e.isIdx = true)
    (hold : ∀ ms, atMaskCheck mask = .ok ms → ∀ a ∈ ms, MElem.idx a ∈ es')
    (hnew : ∀ i ∈ l, MElem.idx (Int.ofNat i) ∈ es') :
    collapseAt hist tgt tols g (.set es') = .ok [] := by
  have hspec := collapse_at_spec hist tgt tols g mask l h
  unfold collapseAt at h ⊢
  cases hm : atMaskCheck mask with
  | error e => simp [hm] at h
  | ok ms =>
    have hall : es'.all MElem.isIdx = true := List.all_eq_true.mpr hidx
    simp only [atMaskCheck, hall, if_true]
    simp only [hm] at h
    cases hw : lastN g hist with
    | nil => simp [hw] at h
    | cons r rest =>
      simp only [hw] at h ⊢
      by_cases hr : isRect r.length rest = true
      · simp only [hr, if_true] at h ⊢
        cases hb : bwidth r.length tgt with
        | none => simp [hb] at h
        | some k =>
          simp only [Except.ok.injEq, List.filter_eq_nil_iff, List.mem_range, Bool.and_eq_true, Bool.not_eq_true',
            List.contains_eq_mem, decide_eq_false_iff_not, not_and, not_not]
          intro i hi hle
          have hin : MElem.idx (Int.ofNat i) ∈ es' := by
            by_cases hmask : Int.ofNat i ∈ ms
            · exact hold ms hm _ hmask
            · exact hnew i ((hspec i).mpr ⟨ms, r, rest, k, hm, hw, hb, hi, hmask, hle⟩)
          exact List.mem_filterMap.mpr ⟨_, hin, rfl⟩
      · simp [hr] at h

end At

section AtField
variable {K : Type} [Field K] [LinearOrder K] [IsStrictOrderedRing K]

/-- **collapse_at, documented reading, `target = None`.** With a scalar tolerance, a window of the last `g > 0`
records (rectangular, non-empty) and a mask that is `None` or a set of indices: `i` is reported iff `i` is a
parameter, `i` is not in the mask, and `max(x_i) - min(x_i) <= tolerance` over the window, i.e. any two recorded
values of `x_i` in the window differ by at most the tolerance. -/
theorem collapse_at_spec_window (hist : List (List K)) (tol : K) (g : Nat) (hg : 0 < g) (mask : SetMask)
    (l : List Nat) (h : collapseAt hist .none [tol] (some (g : Int)) mask = .ok l) (i : Nat) :
    i ∈ l ↔ ∃ ms r rest, atMaskCheck mask = .ok ms ∧ hist.drop (hist.length - g) = r :: rest ∧
      i < r.length ∧ (Int.ofNat i) ∉ ms ∧
      ∀ x ∈ colOf (r :: rest) i, ∀ y ∈ colOf (r :: rest) i, x - y ≤ tol := by
  rw [collapse_at_spec hist .none [tol] _ mask l h i, lastN_pos hist g hg]
  constructor
  · rintro ⟨ms, r, rest, k, h1, h2, h3, h4, h5, h6⟩
    simp only [bwidth, Option.some.injEq] at h3
    subst h3
    refine ⟨ms, r, rest, h1, h2, h4, h5, ?_⟩
    simp only [changeAt] at h6
    cases hp : ptp (colOf (r :: rest) i) with
    | none => simp [hp, leAny] at h6
    | some v =>
      simp only [hp, leAny, List.any_cons, List.any_nil, Bool.or_false, decide_eq_true_eq] at h6
      exact (ptp_le_iff' _ v tol hp).mp h6
  · rintro ⟨ms, r, rest, h1, h2, h4, h5, h6⟩
    refine ⟨ms, r, rest, r.length, h1, h2, rfl, h4, h5, ?_⟩
    simp only [changeAt]
    have hne : colOf (r :: rest) i ≠ [] := by
      have : r[i]? = some r[i] := List.getElem?_eq_getElem h4
      simp [colOf, this]
    obtain ⟨a, ha⟩ := maxL_isSome _ hne
    obtain ⟨b, hb⟩ := minL_isSome _ hne
    have hp : ptp (colOf (r :: rest) i) = some (a - b) := by simp [ptp, ha, hb]
    simp only [hp, leAny, List.any_cons, List.any_nil, Bool.or_false, decide_eq_true_eq]
    exact (ptp_le_iff' _ (a - b) tol hp).mpr h6

/-- **collapse_at, documented reading, scalar target.** `i` is reported iff it is a parameter, not in the mask, and
`|x_i - target| <= tolerance` at every record of the window. -/
theorem collapse_at_target_spec_window (hist : List (List K)) (t tol : K) (g : Nat) (hg : 0 < g) (mask : SetMask)
    (l : List Nat) (h : collapseAt hist (.scalar t) [tol] (some (g : Int)) mask = .ok l) (i : Nat) :
    i ∈ l ↔ ∃ ms r rest, atMaskCheck mask = .ok ms ∧ hist.drop (hist.length - g) = r :: rest ∧
      i < r.length ∧ (Int.ofNat i) ∉ ms ∧ ∀ x ∈ colOf (r :: rest) i, |x - t| ≤ tol := by
  rw [collapse_at_spec hist (.scalar t) [tol] _ mask l h i, lastN_pos hist g hg]
  have key : ∀ (r : List K) (rest : List (List K)), i < r.length →
      (leAny [tol] (changeAt (r :: rest) r.length (.scalar t) i) = true ↔ ∀ x ∈ colOf (r :: rest) i, |x - t| ≤ tol) := by
    intro r rest h4
    simp only [changeAt]
    have hne : devCol (colOf (r :: rest) i) t ≠ [] := by
      have : r[i]? = some r[i] := List.getElem?_eq_getElem h4
      simp [devCol, colOf, this]
    obtain ⟨a, ha⟩ := maxL_isSome _ hne
    simp only [ha, leAny, List.any_cons, List.any_nil, Bool.or_false, decide_eq_true_eq]
    rw [maxL_le_iff' _ a tol ha]
    simp [devCol, absR_eq_abs]
  constructor
  · rintro ⟨ms, r, rest, k, h1, h2, h3, h4, h5, h6⟩
    simp only [bwidth, Option.some.injEq] at h3
    subst h3
    exact ⟨ms, r, rest, h1, h2, h4, h5, (key r rest h4).mp h6⟩
  · rintro ⟨ms, r, rest, h1, h2, h4, h5, h6⟩
    exact ⟨ms, r, rest, r.length, h1, h2, rfl, h4, h5, (key r rest h4).mpr h6⟩

-- non-vacuity: a flat, a drifting and a masked flat column, window of 2 out of 3 records

end AtField

-- non-vacuity (at `Int`, where `decide` evaluates the model): a flat, a drifting and a flat column, window of 2
-- out of 3 records; the mask removes a collapsed index; own output as mask gives nothing
example : collapseAt ([[0, 1, 5], [0, 2, 5], [0, 3, 5]] : List (List Int)) .none [0] (some 2) (.set [.idx 2]) = .ok [0] := by
  decide
example : collapseAt ([[0, 1, 5], [0, 2, 5], [0, 3, 5]] : List (List Int)) (.scalar 5) [0] (some 2) .none = .ok [2] := by
  decide
example : collapseAt ([[0, 1, 5], [0, 2, 5], [0, 3, 5]] : List (List Int)) .none [0] (some 2) (.set [.idx 2, .idx 0]) = .ok [] := by
  decide
example : collapseAt ([[0, 1, 5], [0, 2, 5], [0, 9, 5]] : List (List Int)) .none [1] (some 0) .none = .ok [0, 2] := by
  decide

/-! ## `collapse_as` -/
section As
variable {R : Type} [Sub R] [Neg R] [LT R] [DecidableLT R] [LE R] [DecidableLE R] [OfNat R 0]

/-- **Mask of collapse_as.** A pair is ignored iff the mask holds it in either orientation, or holds one of its
members as a bare index. -/
theorem asMasked_iff (es : List MElem) (i j : Nat) :
    asMasked es i j = true ↔
      MElem.seq [Int.ofNat i, Int.ofNat j] ∈ es ∨ MElem.seq [Int.ofNat j, Int.ofNat i] ∈ es ∨
      MElem.idx (Int.ofNat i) ∈ es ∨ MElem.idx (Int.ofNat j) ∈ es := by
  simp only [asMasked, List.any_eq_true]
  constructor
  · rintro ⟨e, he, h⟩
    cases e with
    | idx a =>
      simp only [Bool.or_eq_true, beq_iff_eq] at h
      rcases h with h | h
      · subst h; exact Or.inr (Or.inr (Or.inl he))
      · subst h; exact Or.inr (Or.inr (Or.inr he))
    | seq l =>
      simp only [Bool.or_eq_true, beq_iff_eq] at h
      rcases h with h | h
      · subst h; exact Or.inl he
      · subst h; exact Or.inr (Or.inl he)
  · rintro (h | h | h | h)
    · exact ⟨_, h, by simp⟩
    · exact ⟨_, h, by simp⟩
    · exact ⟨_, h, by simp⟩
    · exact ⟨_, h, by simp⟩

/-- **collapse_as, every input.** Whenever the detector returns, the pair `(i, j)` is reported iff `i < j` are
parameters, the pair is not masked, and the change of `|x_i - x_j|` over the window (its `max`, or its `ptp` when
tracking at an offset) is within the tolerance. -/
theorem collapse_as_spec (hist : List (List R)) (offset : Bool) (tol : R) (g : Option Int) (mask : SetMask)
    (l : List (Nat × Nat)) (h : collapseAs hist offset tol g mask = .ok l) (i j : Nat) :
    (i, j) ∈ l ↔ ∃ es r rest, asMaskCheck mask = .ok es ∧ lastN g hist = r :: rest ∧
      i < j ∧ j < r.length ∧ asMasked es i j = false ∧ leTol tol (pairChange (r :: rest) offset i j) = true := by
  unfold collapseAs at h
  cases hm : asMaskCheck mask with
  | error e => simp [hm] at h
  | ok es =>
    simp only [hm] at h
    cases hw : lastN g hist with
    | nil => simp [hw] at h
    | cons r rest =>
      simp only [hw] at h
      by_cases hr : isRect r.length rest = true
      · simp only [hr, if_true] at h
        by_cases h0 : r.length = 0
        · simp [h0] at h
        · simp only [h0, if_false, Except.ok.injEq] at h
          subst h
          simp only [List.mem_filter, mem_pairsOf, Bool.and_eq_true, Bool.not_eq_true']
          constructor
          · rintro ⟨⟨h1, h2⟩, h3, h4⟩
            exact ⟨es, r, rest, rfl, rfl, h1, h2, h4, h3⟩
          · rintro ⟨es', r', rest', h1, h2, h3, h4, h5, h6⟩
            simp only [Except.ok.injEq] at h1
            subst h1
            simp only [List.cons.injEq] at h2
            obtain ⟨rfl, rfl⟩ := h2
            exact ⟨⟨h3, h4⟩, h6, h5⟩
      · simp [hr] at h

/-- **Own output as mask, collapse_as.** Any accepted set mask that contains the old mask and the reported pairs
makes the detector report nothing on the same history. -/
theorem own_output_as_mask_is_empty_as (hist : List (List R)) (offset : Bool) (tol : R) (g : Option Int)
    (mask : SetMask) (l : List (Nat × Nat)) (h : collapseAs hist offset tol g mask = .ok l)
    (es' : List MElem) (hok : ∀ e ∈ es', e.okAs = true)
    (hold : ∀ es, asMaskCheck mask = .ok es → ∀ e ∈ es, e ∈ es')
    (hnew : ∀ p ∈ l, MElem.seq [Int.ofNat p.1, Int.ofNat p.2] ∈ es') :
    collapseAs hist offset tol g (.set es') = .ok [] := by
  have hspec := collapse_as_spec hist offset tol g mask l h
  unfold collapseAs at h ⊢
  cases hm : asMaskCheck mask with
  | error e => simp [hm] at h
  | ok es =>
    have hall : es'.all MElem.okAs = true := List.all_eq_true.mpr hok
    simp only [asMaskCheck, hall, if_true]
    simp only [hm] at h
    cases hw : lastN g hist with
    | nil => simp [hw] at h
    | cons r rest =>
      simp only [hw] at h ⊢
      by_cases hr : isRect r.length rest = true
      · simp only [hr, if_true] at h ⊢
        by_cases h0 : r.length = 0
        · simp [h0] at h
        · simp only [h0, if_false, Except.ok.injEq, List.filter_eq_nil_iff, Bool.and_eq_true, Bool.not_eq_true',
            not_and, Bool.not_eq_false]
          rintro ⟨i, j⟩ hp hle
          obtain ⟨hij, hj⟩ := (mem_pairsOf r.length i j).mp hp
          rw [asMasked_iff]
          by_cases hmask : asMasked es i j = true
          · rcases (asMasked_iff es i j).mp hmask with h1 | h1 | h1 | h1
            · exact Or.inl (hold es hm _ h1)
            · exact Or.inr (Or.inl (hold es hm _ h1))
            · exact Or.inr (Or.inr (Or.inl (hold es hm _ h1)))
            · exact Or.inr (Or.inr (Or.inr (hold es hm _ h1)))
          · have : (i, j) ∈ l := (hspec i j).mpr ⟨es, r, rest, hm, hw, hij, hj, by simpa using hmask, hle⟩
            exact Or.inl (hnew (i, j) this)
      · simp [hr] at h

end As

section AsField
variable {K : Type} [Field K] [LinearOrder K] [IsStrictOrderedRing K]

/-- **collapse_as, documented reading (`offset = False`).** With a window of the last `g > 0` records: `(i, j)` is
reported iff `i < j` are parameters, the pair is not masked (either orientation, or a bare member), and
`|x_i - x_j| <= tolerance` at every record of the window. -/
theorem collapse_as_spec_window (hist : List (List K)) (tol : K) (g : Nat) (hg : 0 < g) (mask : SetMask)
    (l : List (Nat × Nat)) (h : collapseAs hist false tol (some (g : Int)) mask = .ok l) (i j : Nat) :
    (i, j) ∈ l ↔ ∃ es r rest, asMaskCheck mask = .ok es ∧ hist.drop (hist.length - g) = r :: rest ∧
      i < j ∧ j < r.length ∧ asMasked es i j = false ∧ ∀ d ∈ distCol (r :: rest) i j, d ≤ tol := by
  rw [collapse_as_spec hist false tol _ mask l h i j, lastN_pos hist g hg]
  have key : ∀ (r : List K) (rest : List (List K)), i < j → j < r.length →
      (leTol tol (pairChange (r :: rest) false i j) = true ↔ ∀ d ∈ distCol (r :: rest) i j, d ≤ tol) := by
    intro r rest hij hj
    have hne : distCol (r :: rest) i j ≠ [] := by
      have h1 : r[i]? = some r[i] := List.getElem?_eq_getElem (by omega)
      have h2 : r[j]? = some r[j] := List.getElem?_eq_getElem hj
      simp [distCol, h1, h2]
    obtain ⟨a, ha⟩ := maxL_isSome _ hne
    simp only [pairChange, Bool.false_eq_true, if_false, ha, leTol, decide_eq_true_eq]
    exact maxL_le_iff' _ a tol ha
  constructor
  · rintro ⟨es, r, rest, h1, h2, h3, h4, h5, h6⟩
    exact ⟨es, r, rest, h1, h2, h3, h4, h5, (key r rest h3 h4).mp h6⟩
  · rintro ⟨es, r, rest, h1, h2, h3, h4, h5, h6⟩
    exact ⟨es, r, rest, h1, h2, h3, h4, h5, (key r rest h3 h4).mpr h6⟩

/-- the entries of the distance column are the `|x_i - x_j|` of the records -/
theorem distCol_mem (w : List (List K)) (i j : Nat) (d : K) :
    d ∈ distCol w i j ↔ ∃ r ∈ w, ∃ a b, r[i]? = some a ∧ r[j]? = some b ∧ d = |a - b| := by
  simp only [distCol, List.mem_filterMap]
  constructor
  · rintro ⟨r, hr, h⟩
    cases ha : r[i]? with
    | none => simp [ha] at h
    | some a =>
      cases hb : r[j]? with
      | none => simp [ha, hb] at h
      | some b =>
        simp only [ha, hb, Option.some.injEq] at h
        exact ⟨r, hr, a, b, ha, hb, by rw [← h, absR_eq_abs]⟩
  · rintro ⟨r, hr, a, b, ha, hb, rfl⟩
    exact ⟨r, hr, by simp [ha, hb, absR_eq_abs]⟩

end AsField

-- non-vacuity: columns 0 and 2 tied, column 1 drifting; masks by pair (reversed orientation) and by bare index
example : collapseAs ([[0, 1, 0], [3, 2, 3], [5, 9, 5]] : List (List Int)) false 0 (some 3) .none = .ok [(0, 2)] := by decide
example : collapseAs ([[0, 1, 0], [3, 2, 3], [5, 9, 5]] : List (List Int)) false 0 (some 3) (.set [.seq [2, 0]]) = .ok [] := by
  decide
example : collapseAs ([[0, 1, 0], [3, 2, 3], [5, 9, 5]] : List (List Int)) false 0 (some 3) (.set [.idx 2]) = .ok [] := by decide
example : collapseAs ([[0, 1, 4], [3, 2, 7], [5, 9, 9]] : List (List Int)) true 0 (some 3) .none = .ok [(0, 2)] := by decide

/-! ## `collapse_weight`, `collapse_position` -/
section Measures
variable {R : Type} [Sub R] [Neg R] [LT R] [DecidableLT R] [LE R] [DecidableLE R] [OfNat R 0]

/-- **The three mask formats of collapse_weight**: set of `(measure, index)`, dict `{measure: {indices}}`,
'where' pair `(measures, indices)`. -/
theorem weight_mask_formats (a i : Nat) :
    (∀ es, wMasked (.set es) a i = true ↔ (Int.ofNat a, Int.ofNat i) ∈ es) ∧
    (∀ d, wMasked (.dict d) a i = true ↔ Int.ofNat i ∈ dictGet d (Int.ofNat a)) ∧
    (∀ es, wMasked (.wher es) a i = true ↔ (Int.ofNat a, Int.ofNat i) ∈ es) ∧
    wMasked .none a i = false := by
  simp [wMasked]

/-- **collapse_weight.** Whenever the detector returns, `(measure a, index i)` is reported iff it is a cell of the
weight table, it is not masked (in the mask's own format), and `max(weight[a][i]) <= tolerance` over the window;
the result comes back in the mask's format. -/
theorem collapse_weight_spec (hist : List (List R)) (npts : Option (List Nat)) (tol : R) (g : Option Int)
    (mask : WMask) (fmt : Fmt) (l : List (Nat × Nat)) (h : collapseWeight hist npts tol g mask = .ok (fmt, l))
    (a i : Nat) :
    (∃ nm, wMaskCheck mask = .ok nm ∧ fmt = nm.fmt) ∧
    ((a, i) ∈ l ↔ ∃ nm t w, wMaskCheck mask = .ok nm ∧ measWindow hist npts false g = .ok (t :: w) ∧
      a < t.length ∧ i < (t.headD []).length ∧ wMasked nm a i = false ∧
      leTol tol (maxL (cellCol (t :: w) a i)) = true) := by
  unfold collapseWeight at h
  cases hm : wMaskCheck mask with
  | error e => simp [hm] at h
  | ok nm =>
    simp only [hm] at h
    cases hw : measWindow hist npts false g with
    | error e => simp [hw] at h
    | ok w =>
      simp only [hw] at h
      cases w with
      | nil => simp [weightCore] at h
      | cons t w =>
        simp only [weightCore, Except.ok.injEq, Prod.mk.injEq] at h
        obtain ⟨rfl, rfl⟩ := h
        refine ⟨⟨nm, rfl, rfl⟩, ?_⟩
        constructor
        · intro hmem
          obtain ⟨hc, hb⟩ := List.mem_filter.mp hmem
          obtain ⟨h1, h2⟩ := (mem_cellsOf _ _ a i).mp hc
          simp only [Bool.and_eq_true, Bool.not_eq_true'] at hb
          exact ⟨nm, t, w, rfl, rfl, h1, h2, hb.2, hb.1⟩
        · rintro ⟨nm', t', w', h1, h2, h3, h4, h5, h6⟩
          cases h1; cases h2
          exact List.mem_filter.mpr ⟨(mem_cellsOf _ _ a i).mpr ⟨h3, h4⟩, by simp [h5, h6]⟩

/-- **Own output as mask, collapse_weight** (any format): a mask that ignores whatever the old mask ignored and
whatever was reported makes the detector report nothing on the same window. -/
theorem own_output_as_mask_is_empty_weight (w : List (List (List R))) (tol : R) (nm nm' : WNorm)
    (l : List (Nat × Nat)) (f : Fmt) (h : weightCore w tol nm = .ok (f, l))
    (hold : ∀ a i, wMasked nm a i = true → wMasked nm' a i = true)
    (hnew : ∀ c ∈ l, wMasked nm' c.1 c.2 = true) :
    weightCore w tol nm' = .ok (nm'.fmt, []) := by
  cases w with
  | nil => simp [weightCore] at h
  | cons t w =>
    simp only [weightCore, Except.ok.injEq, Prod.mk.injEq] at h ⊢
    obtain ⟨_, rfl⟩ := h
    refine ⟨trivial, ?_⟩
    simp only [List.filter_eq_nil_iff, Bool.and_eq_true, Bool.not_eq_true', not_and, Bool.not_eq_false]
    rintro ⟨a, i⟩ hc hle
    by_cases hmask : wMasked nm a i = true
    · exact hold a i hmask
    · exact hnew (a, i) (List.mem_filter.mpr ⟨hc, by simp [hle, hmask]⟩)

/-- **The three mask formats of collapse_position**: set of `(measure, pair)`, dict `{measure: {pairs}}`, 'where'
pair `(measures, pairs)` given as tuples - every format ignores a pair in EITHER orientation. -/
theorem position_mask_formats (a i j : Nat) :
    (∀ es, pMasked (.set es) a i j = true ↔
        (Int.ofNat a, [Int.ofNat i, Int.ofNat j]) ∈ es ∨ (Int.ofNat a, [Int.ofNat j, Int.ofNat i]) ∈ es) ∧
    (∀ d, pMasked (.dict d) a i j = true ↔
        (Int.ofNat i, Int.ofNat j) ∈ dictGet d (Int.ofNat a) ∨ (Int.ofNat j, Int.ofNat i) ∈ dictGet d (Int.ofNat a)) ∧
    (∀ ms ps nm, ms.length = ps.length → pMaskCheck (.wher ms ps true) = .ok nm →
        (pMasked nm a i j = true ↔
          (Int.ofNat a, [Int.ofNat i, Int.ofNat j]) ∈ ms.zip ps ∨ (Int.ofNat a, [Int.ofNat j, Int.ofNat i]) ∈ ms.zip ps)) ∧
    pMasked .none a i j = false := by
  refine ⟨?_, ?_, ?_, by simp [pMasked]⟩
  · intro es
    simp only [pMasked, Bool.or_eq_true, List.contains_eq_mem, decide_eq_true_eq, List.mem_map, Prod.mk.injEq]
    constructor
    · rintro (h | ⟨e, he, h1, h2⟩)
      · exact Or.inl h
      · right
        have : e.2 = [Int.ofNat j, Int.ofNat i] := by
          have := congrArg List.reverse h2
          simpa using this
        rw [← h1, ← this]; exact he
    · rintro (h | h)
      · exact Or.inl h
      · exact Or.inr ⟨_, h, rfl, by simp⟩
  · intro d
    simp [pMasked]
  · intro ms ps nm hlen hck
    cases ps with
    | nil => simp [pMaskCheck] at hck
    | cons p rest =>
      simp only [pMaskCheck] at hck
      by_cases hr : rest.all (fun q => q.length == p.length) = true
      · simp only [hr, if_true, Except.ok.injEq] at hck
        subst hck
        have hz : (ms ++ ms).zip ((p :: rest).map (fun q => (true, q)) ++ (p :: rest).map (fun q => (true, q.reverse)))
            = ms.zip ((p :: rest).map (fun q => (true, q))) ++ ms.zip ((p :: rest).map (fun q => (true, q.reverse))) := by
          rw [List.zip_append (by simp [hlen])]
        simp only [pMasked, hz, List.contains_eq_mem, List.mem_append, decide_eq_true_eq, Bool.decide_or,
          Bool.or_eq_true]
        have inj1 : Function.Injective (fun q : List Int => (true, q)) := fun x y h => by simpa using h
        have inj2 : Function.Injective (fun q : List Int => (true, q.reverse)) := fun x y h => by simpa using h
        have e1 : ∀ q : List Int, ((Int.ofNat a, true, q) ∈ ms.zip ((p :: rest).map (fun q => (true, q)))
            ↔ (Int.ofNat a, q) ∈ ms.zip (p :: rest)) := fun q => mem_zip_map_inj _ inj1 ms (p :: rest) _ q
        have e2 : ((Int.ofNat a, true, [Int.ofNat i, Int.ofNat j]) ∈ ms.zip ((p :: rest).map (fun q => (true, q.reverse)))
            ↔ (Int.ofNat a, [Int.ofNat j, Int.ofNat i]) ∈ ms.zip (p :: rest)) :=
          mem_zip_map_inj _ inj2 ms (p :: rest) _ [Int.ofNat j, Int.ofNat i]
        rw [e1, e2]
      · simp [hr] at hck

/-- **collapse_position.** Whenever the detector returns, `(measure a, pair (i, j))` is reported iff `i < j` are
positions of measure `a`, the pair is not masked (in the mask's own format), and `max |pos[a][i] - pos[a][j]| <=
tolerance` over the window; the result comes back in the mask's format. -/
theorem collapse_position_spec (hist : List (List R)) (npts : Option (List Nat)) (tol : R) (g : Option Int)
    (mask : PMask) (fmt : Fmt) (l : List (Nat × Nat × Nat)) (h : collapsePosition hist npts tol g mask = .ok (fmt, l))
    (a i j : Nat) :
    (∃ nm, pMaskCheck mask = .ok nm ∧ fmt = nm.fmt) ∧
    ((a, i, j) ∈ l ↔ ∃ nm t w, pMaskCheck mask = .ok nm ∧ measWindow hist npts true g = .ok (t :: w) ∧
      a < t.length ∧ i < j ∧ j < (t.headD []).length ∧ pMasked nm a i j = false ∧
      leTol tol (maxL (cellDist (t :: w) a i j)) = true) := by
  unfold collapsePosition at h
  cases hm : pMaskCheck mask with
  | error e => simp [hm] at h
  | ok nm =>
    simp only [hm] at h
    cases hw : measWindow hist npts true g with
    | error e => simp [hw] at h
    | ok w =>
      simp only [hw] at h
      cases w with
      | nil => simp [positionCore] at h
      | cons t w =>
        simp only [positionCore] at h
        by_cases h0 : (t.headD []).length = 0
        · rw [if_pos h0] at h
          exact absurd h (by simp)
        · rw [if_neg h0] at h
          simp only [Except.ok.injEq, Prod.mk.injEq] at h
          obtain ⟨rfl, rfl⟩ := h
          refine ⟨⟨nm, rfl, rfl⟩, ?_⟩
          constructor
          · intro hmem
            obtain ⟨hc, hb⟩ := List.mem_filter.mp hmem
            obtain ⟨h1, h2, h3⟩ := (mem_pcellsOf _ _ a i j).mp hc
            simp only [Bool.and_eq_true, Bool.not_eq_true'] at hb
            exact ⟨nm, t, w, rfl, rfl, h1, h2, h3, hb.2, hb.1⟩
          · rintro ⟨nm', t', w', h1, h2, h3, h4, h5, h6, h7⟩
            cases h1; cases h2
            exact List.mem_filter.mpr ⟨(mem_pcellsOf _ _ a i j).mpr ⟨h3, h4, h5⟩, by simp [h6, h7]⟩

/-- **Own output as mask, collapse_position** (any format). -/
theorem own_output_as_mask_is_empty_position (w : List (List (List R))) (tol : R) (nm nm' : PNorm)
    (l : List (Nat × Nat × Nat)) (f : Fmt) (h : positionCore w tol nm = .ok (f, l))
    (hold : ∀ a i j, pMasked nm a i j = true → pMasked nm' a i j = true)
    (hnew : ∀ c ∈ l, pMasked nm' c.1 c.2.1 c.2.2 = true) :
    positionCore w tol nm' = .ok (nm'.fmt, []) := by
  cases w with
  | nil => simp [positionCore] at h
  | cons t w =>
    simp only [positionCore] at h ⊢
    by_cases h0 : (t.headD []).length = 0
    · rw [if_pos h0] at h
      exact absurd h (by simp)
    · rw [if_neg h0] at h ⊢
      simp only [Except.ok.injEq, Prod.mk.injEq] at h ⊢
      obtain ⟨_, rfl⟩ := h
      refine ⟨trivial, ?_⟩
      simp only [List.filter_eq_nil_iff, Bool.and_eq_true, Bool.not_eq_true', not_and, Bool.not_eq_false]
      rintro ⟨a, i, j⟩ hc hle
      by_cases hmask : pMasked nm a i j = true
      · exact hold a i j hmask
      · exact hnew (a, i, j) (List.mem_filter.mpr ⟨hc, by simp [hle, hmask]⟩)

end Measures

-- non-vacuity: one measure with 2 points, parameters [w0 w1 p0 p1]; weight 0 stays 0, the two positions coincide
example : collapseWeight ([[0, 1, 7, 7], [0, 1, 7, 7]] : List (List Int)) (some [2]) 0 (some 2) .none = .ok (.dict, [(0, 0)]) := by
  decide
example : collapseWeight ([[0, 1, 7, 7], [0, 1, 7, 7]] : List (List Int)) (some [2]) 0 (some 2) (.wher [0] [0]) = .ok (.wher, []) := by
  decide
example : collapsePosition ([[0, 1, 7, 7], [0, 1, 7, 7]] : List (List Int)) (some [2]) 0 (some 2) (.set []) = .ok (.set, [(0, 0, 1)]) := by
  decide
example : collapsePosition ([[0, 1, 7, 7], [0, 1, 7, 7]] : List (List Int)) (some [2]) 0 (some 2) (.dict [some (0, [(1, 0)])])
    = .ok (.dict, []) := by decide

/-- **Known finding (model side).** A 'where' mask whose pairs are LISTS (`[[0], [[0, 1]]]`) passes the validation
of `collapse_position` but is ignored: list pairs compare unequal to the tuples the detector produces, and only
their reversed copies (made by `_inverted`) are tuples.  The same mask with tuple pairs works. -/
theorem position_where_list_pairs_ignored_witness :
    collapsePosition ([[0, 1, 7, 7], [0, 1, 7, 7]] : List (List Int)) (some [2]) 0 (some 2) (.wher [0] [[0, 1]] false)
      = .ok (.wher, [(0, 0, 1)]) ∧
    collapsePosition ([[0, 1, 7, 7], [0, 1, 7, 7]] : List (List Int)) (some [2]) 0 (some 2) (.wher [0] [[0, 1]] true)
      = .ok (.wher, []) ∧
    collapsePosition ([[0, 1, 7, 7], [0, 1, 7, 7]] : List (List Int)) (some [2]) 0 (some 2) (.wher [0] [[1, 0]] false)
      = .ok (.wher, []) :=
  ⟨by decide, by decide, by decide⟩

/-! ## `mask.update_mask`: the termination's mask grows by what was applied -/
section Masks
variable {E : Type} [DecidableEq E]

/-- a 'where' mask whose two sequences have the same length (what the detectors validate and produce) -/
def Aligned : MaskV E → Prop
  | .wher _ ms es => ms.length = es.length
  | _ => True

/-- **The mask grows by what was applied, per format** (`_extend_mask`): whenever the extension succeeds, nothing of
the old mask is lost and every member of the collapse is in the new mask - set, dict and 'where' formats, and the
empty / `None` masks that are simply replaced. -/
theorem extend_mask_grows (old new m : MaskV E) (h : extendV old new = .ok m) (key : Int) (e : E) :
    (old.has key e = true → m.has key e = true) ∧
    (Aligned old → new.has key e = true → m.has key e = true) := by
  cases new with
  | none =>
    simp only [extendV, Except.ok.injEq] at h
    subst h
    exact ⟨id, fun _ h => by simp [MaskV.has] at h⟩
  | emptyseq =>
    by_cases hf : old.falsy = true
    · simp only [extendV, hf, if_true, Except.ok.injEq] at h
      subst h
      exact ⟨fun h => by cases old <;> simp_all [MaskV.has, MaskV.falsy], fun _ h => h⟩
    · cases old <;> simp_all [extendV, MaskV.falsy]
  | set b =>
    by_cases hf : old.falsy = true
    · simp only [extendV, hf, if_true, Except.ok.injEq] at h
      subst h
      exact ⟨fun h => by cases old <;> simp_all [MaskV.has, MaskV.falsy], fun _ h => h⟩
    · cases old with
      | set a =>
        simp [extendV, hf] at h
        subst h
        simp only [MaskV.has, List.contains_eq_mem, decide_eq_true_eq, mem_unionL]
        exact ⟨Or.inl, fun _ => Or.inr⟩
      | none => simp [MaskV.falsy] at hf
      | emptyseq => simp [MaskV.falsy] at hf
      | dict a => simp [extendV, hf] at h
      | wher t ms es => simp [extendV, hf] at h
  | dict b =>
    by_cases hf : old.falsy = true
    · simp only [extendV, hf, if_true, Except.ok.injEq] at h
      subst h
      exact ⟨fun h => by cases old <;> simp_all [MaskV.has, MaskV.falsy], fun _ h => h⟩
    · cases old with
      | dict a =>
        simp [extendV, hf] at h
        subst h
        rw [dict_has_iff, dict_has_iff, dict_has_iff]
        exact ⟨fun h => dictMerge_has a b key e (Or.inl h), fun _ h => dictMerge_has a b key e (Or.inr h)⟩
      | none => simp [MaskV.falsy] at hf
      | emptyseq => simp [MaskV.falsy] at hf
      | set a => simp [extendV, hf] at h
      | wher t ms es => simp [extendV, hf] at h
  | wher t' ms' es' =>
    by_cases hf : old.falsy = true
    · simp only [extendV, hf, if_true, Except.ok.injEq] at h
      subst h
      exact ⟨fun h => by cases old <;> simp_all [MaskV.has, MaskV.falsy], fun _ h => h⟩
    · cases old with
      | wher t ms es =>
        by_cases ht : t = t'
        · subst ht
          simp [extendV, MaskV.falsy] at h
          subst h
          simp only [MaskV.has, List.contains_eq_mem, decide_eq_true_eq]
          refine ⟨fun h => mem_zip_append_left ms ms' es es' _ h, fun hal h => ?_⟩
          rw [List.zip_append hal]
          exact List.mem_append_right _ h
        · simp [extendV, MaskV.falsy, ht] at h
      | none => simp [MaskV.falsy] at hf
      | emptyseq => simp [MaskV.falsy] at hf
      | set a => simp [extendV, hf] at h
      | dict a => simp [extendV, hf] at h

/-- a primitive after an update: same factory, same other settings, and a mask that lost nothing -/
def PrimGrows (p p' : Prim E) : Prop :=
  p'.ty = p.ty ∧ p'.kw = p.kw ∧ p'.hasMask = p.hasMask ∧ ∀ key e, p.mask.has key e = true → p'.mask.has key e = true

theorem PrimGrows.refl (p : Prim E) : PrimGrows p p := ⟨rfl, rfl, rfl, fun _ _ h => h⟩

theorem PrimGrows.trans {p q r : Prim E} (h1 : PrimGrows p q) (h2 : PrimGrows q r) : PrimGrows p r :=
  ⟨h2.1.trans h1.1, h2.2.1.trans h1.2.1, h2.2.2.1.trans h1.2.2.1, fun k e h => h2.2.2.2 k e (h1.2.2.2 k e h)⟩

/-- what `_extend_mask` does to one primitive: it only grows, and (when it has a mask keyword) takes the collapse in -/
def Applied (new : MaskV E) (p p' : Prim E) : Prop :=
  PrimGrows p p' ∧ (p.hasMask = true → Aligned p.mask → ∀ key e, new.has key e = true → p'.mask.has key e = true)

theorem extendPrim_applied (p q : Prim E) (new : MaskV E) (h : extendPrim p new = .ok q) : Applied new p q := by
  cases new with
  | none =>
    simp only [extendPrim, Except.ok.injEq] at h
    subst h
    exact ⟨PrimGrows.refl p, fun _ _ k e h => by simp [MaskV.has] at h⟩
  | emptyseq | set b | dict b | wher t ms es =>
    simp only [extendPrim] at h
    split at h
    · split at h
      · rename_i m hx
        simp only [Except.ok.injEq] at h
        subst h
        exact ⟨⟨rfl, rfl, rfl, fun k e hh => (extend_mask_grows _ _ _ hx k e).1 hh⟩,
               fun _ hal k e hh => (extend_mask_grows _ _ _ hx k e).2 hal hh⟩
      · exact absurd h (by simp)
    · rename_i hm
      simp only [Except.ok.injEq] at h
      subst h
      exact ⟨PrimGrows.refl p, fun hh => absurd hh hm⟩

/-- relation between a primitive before and after `_update_masks(.., mask, kind)` inside a tuple: it only grows, and
the primitive whose doc is `kind` takes the collapse in -/
def Upd (k : Prim E) (new : MaskV E) (p p' : Prim E) : Prop :=
  PrimGrows p p' ∧ (p = k → p.hasMask = true → Aligned p.mask → ∀ key e, new.has key e = true → p'.mask.has key e = true)

mutual
theorem updIn_upd (k : Prim E) (new : MaskV E) :
    (c c' : Cond E) → updIn k new c = .ok c' → List.Forall₂ (Upd k new) c.prims c'.prims
  | .prim p, c', h => by
    simp only [updIn] at h
    by_cases hd : p.hasDoc k = true
    · rw [if_pos hd] at h
      cases hx : extendPrim p new with
      | error e => simp [hx] at h
      | ok q =>
        simp only [hx, Except.ok.injEq] at h
        subst h
        have := extendPrim_applied p q new hx
        simp only [Cond.prims]
        exact List.Forall₂.cons ⟨this.1, fun _ => this.2⟩ List.Forall₂.nil
    · rw [if_neg hd] at h
      simp only [Except.ok.injEq] at h
      subst h
      simp only [Cond.prims]
      refine List.Forall₂.cons ⟨PrimGrows.refl p, fun hpk => ?_⟩ List.Forall₂.nil
      exact absurd (by simp [Prim.hasDoc, hpk]) hd
  | .node w cs, c', h => by
    simp only [updIn] at h
    cases hx : updInL k new cs with
    | error e => simp [hx] at h
    | ok cs' =>
      simp only [hx, rebuild] at h
      by_cases hw : w = true ∧ cs'.length ≠ 1
      · rw [if_pos hw] at h
        exact absurd h (by simp)
      · rw [if_neg hw] at h
        simp only [Except.ok.injEq] at h
        subst h
        simp only [Cond.prims]
        exact updInL_upd k new cs cs' hx
theorem updInL_upd (k : Prim E) (new : MaskV E) :
    (cs cs' : List (Cond E)) → updInL k new cs = .ok cs' → List.Forall₂ (Upd k new) (Cond.primsL cs) (Cond.primsL cs')
  | [], cs', h => by
    simp only [updInL, Except.ok.injEq] at h
    subst h
    simp [Cond.primsL]
  | c :: cs, cs', h => by
    simp only [updInL] at h
    cases hx : updIn k new c with
    | error e => simp [hx] at h
    | ok c' =>
      simp only [hx] at h
      cases hy : updInL k new cs with
      | error e => simp [hy] at h
      | ok cs'' =>
        simp only [hy, Except.ok.injEq] at h
        subst h
        simp only [Cond.primsL]
        exact forall₂_append (updIn_upd k new c c' hx) (updInL_upd k new cs cs'' hy)
end

/-- one `_update_masks` call on a whole condition: every primitive only grows -/
theorem updateMasks_grows (c c' : Cond E) (new : MaskV E) (k : Prim E) (h : updateMasks c new k = .ok c') :
    List.Forall₂ PrimGrows c.prims c'.prims := by
  cases c with
  | prim p =>
    simp only [updateMasks] at h
    cases hx : extendPrim p new with
    | error e => simp [hx] at h
    | ok q =>
      simp only [hx, Except.ok.injEq] at h
      subst h
      simp only [Cond.prims]
      exact List.Forall₂.cons (extendPrim_applied p q new hx).1 List.Forall₂.nil
  | node w cs =>
    have : updIn k new (.node w cs) = .ok c' := by simpa [updateMasks, updIn] using h
    exact forall₂_mono (fun _ _ hab => hab.1) (updIn_upd k new _ _ this)

/-- **update_mask grows.** For EVERY condition tree and EVERY collapse dict: when `update_mask` returns, the new
condition has the same primitives in the same order, each with the same factory and the same other keyword
settings, and no primitive's mask has lost a member. -/
theorem update_mask_grows (c c' : Cond E) (cl : List (Prim E × MaskV E)) (h : updateMask c cl = .ok c') :
    List.Forall₂ PrimGrows c.prims c'.prims := by
  induction cl generalizing c with
  | nil =>
    simp only [updateMask, Except.ok.injEq] at h
    subst h
    exact forall₂_refl PrimGrows.refl _
  | cons km rest ih =>
    obtain ⟨k, m⟩ := km
    simp only [updateMask] at h
    cases hx : updateMasks c m k with
    | error e => simp [hx] at h
    | ok c1 =>
      simp only [hx] at h
      exact forall₂_trans (R := PrimGrows) (fun _ _ _ h1 h2 => PrimGrows.trans h1 h2) (updateMasks_grows c c1 m k hx) (ih c1 h)

/-- **update_mask applies the collapse.** With one reported collapse `(k, new)` (`k` = the doc of the reporting
primitive): inside a `When/And/Or` tuple exactly the primitives with that doc take every member of the collapse
into their mask; a bare primitive takes it whatever its doc. -/
theorem update_mask_applies (c c' : Cond E) (k : Prim E) (new : MaskV E) (h : updateMask c [(k, new)] = .ok c') :
    List.Forall₂ (fun p p' => PrimGrows p p' ∧
      ((p = k ∨ c = .prim p) → p.hasMask = true → Aligned p.mask →
        ∀ key e, new.has key e = true → p'.mask.has key e = true)) c.prims c'.prims := by
  simp only [updateMask] at h
  cases hx : updateMasks c new k with
  | error e => simp [hx] at h
  | ok c1 =>
    simp only [hx, Except.ok.injEq] at h
    subst h
    cases c with
    | prim p =>
      simp only [updateMasks] at hx
      cases hy : extendPrim p new with
      | error e => simp [hy] at hx
      | ok q =>
        simp only [hy, Except.ok.injEq] at hx
        subst hx
        have := extendPrim_applied p q new hy
        simp only [Cond.prims]
        exact List.Forall₂.cons ⟨this.1, fun _ => this.2⟩ List.Forall₂.nil
    | node w cs =>
      have : updIn k new (.node w cs) = .ok c1 := by simpa [updateMasks, updIn] using hx
      refine forall₂_mono (fun p p' hab => ⟨hab.1, fun hor => ?_⟩) (updIn_upd k new _ _ this)
      rcases hor with hk | hc
      · exact hab.2 hk
      · cases hc

end Masks

/-- `kwds['mask']` of a CollapseAt / CollapseAs condition as a mask value -/
def maskOf : SetMask → MaskV MElem
  | .none => .none
  | .set es => .set es
  | .other => .emptyseq

section NotAgain
variable {R : Type} [Sub R] [Neg R] [LT R] [DecidableLT R] [LE R] [DecidableLE R] [OfNat R 0]

/-- **Never reported again (collapse_at).** After a non-empty report `l` has been merged into the condition's mask by
`_extend_mask`, the same detector on the same history reports nothing - for every history, target, tolerance,
window and accepted mask. -/
theorem not_reported_again (hist : List (List R)) (tgt : Target R) (tols : List R) (g : Option Int)
    (mask : SetMask) (l : List Nat) (h : collapseAt hist tgt tols g mask = .ok l) (hne : l ≠ [])
    (m' : MaskV MElem) (hx : extendV (maskOf mask) (.set (l.map (fun i => MElem.idx (Int.ofNat i)))) = .ok m') :
    ∃ es', m' = .set es' ∧ collapseAt hist tgt tols g (.set es') = .ok [] := by
  have hck : ∃ ms, atMaskCheck mask = .ok ms := by
    unfold collapseAt at h
    cases hm : atMaskCheck mask with
    | error e => simp [hm] at h
    | ok ms => exact ⟨ms, rfl⟩
  obtain ⟨ms, hms⟩ := hck
  have hnewne : (l.map (fun i => MElem.idx (Int.ofNat i))) ≠ [] := by simpa using hne
  cases mask with
  | other => simp [atMaskCheck] at hms
  | none =>
    simp only [maskOf, extendV, MaskV.falsy, if_true, Except.ok.injEq] at hx
    subst hx
    refine ⟨_, rfl, own_output_as_mask_is_empty_at hist tgt tols g .none l h _ ?_ ?_ ?_⟩
    · intro e he
      obtain ⟨i, _, rfl⟩ := List.mem_map.mp he
      rfl
    · intro ms' hms' a ha
      simp only [atMaskCheck, Except.ok.injEq] at hms'
      subst hms'
      simp at ha
    · intro i hi
      exact List.mem_map.mpr ⟨i, hi, rfl⟩
  | set es =>
    have hall : es.all MElem.isIdx = true := by
      by_cases hq : es.all MElem.isIdx = true
      · exact hq
      · simp [atMaskCheck, hq] at hms
    have hmem : ∀ es', m' = .set es' → (∀ e, e ∈ es' ↔ e ∈ es ∨ e ∈ l.map (fun i => MElem.idx (Int.ofNat i))) →
        ∃ es', m' = .set es' ∧ collapseAt hist tgt tols g (.set es') = .ok [] := by
      intro es' hm' hiff
      refine ⟨es', hm', own_output_as_mask_is_empty_at hist tgt tols g (.set es) l h es' ?_ ?_ ?_⟩
      · intro e he
        rcases (hiff e).mp he with h1 | h1
        · exact List.all_eq_true.mp hall e h1
        · obtain ⟨i, _, rfl⟩ := List.mem_map.mp h1
          rfl
      · intro ms' hms' a ha
        simp only [atMaskCheck, hall, if_true, Except.ok.injEq] at hms'
        subst hms'
        obtain ⟨e, he, hea⟩ := List.mem_filterMap.mp ha
        cases e with
        | idx b => simp only [MElem.idx?, Option.some.injEq] at hea; subst hea; exact (hiff _).mpr (Or.inl he)
        | seq q => simp [MElem.idx?] at hea
      · intro i hi
        exact (hiff _).mpr (Or.inr (List.mem_map.mpr ⟨i, hi, rfl⟩))
    by_cases hf : es.isEmpty = true
    · simp only [maskOf, extendV, MaskV.falsy, hf, if_true, Except.ok.injEq] at hx
      subst hx
      have : es = [] := List.isEmpty_iff.mp hf
      subst this
      exact hmem _ rfl (fun e => by simp)
    · simp only [maskOf, extendV, MaskV.falsy, hf, Except.ok.injEq] at hx
      simp only [Bool.false_eq_true, if_false, Except.ok.injEq] at hx
      subst hx
      exact hmem _ rfl (fun e => mem_unionL _ _ e)

end NotAgain

-- non-vacuity: report [0, 2], merge into the mask {1}, report nothing
example : collapseAt ([[0, 1, 5], [0, 1, 5]] : List (List Int)) .none [0] (some 2) (.set [.idx 1]) = .ok [0, 2] := by decide
example : extendV (maskOf (.set [.idx 1])) (.set ([0, 2].map (fun i => MElem.idx (Int.ofNat i))))
    = .ok (.set [.idx 1, .idx 0, .idx 2]) := by decide
example : updateMask (.node false [.prim ⟨0, 0, true, .set [[1]]⟩, .prim ⟨4, 1, false, (.none : MaskV (List Int))⟩])
      [(⟨0, 0, true, .set [[1]]⟩, .set [[0], [2]])]
    = .ok (.node false [.prim ⟨0, 0, true, .set [[1], [0], [2]]⟩, .prim ⟨4, 1, false, .none⟩]) := by rfl

/-! ## the collapse loop terminates -/
section Loop

/-- a run of the collapse loop seen through its masks: every round adds a member of the universe that was not
masked (by `collapse_*_spec` a reported member is never masked, and by `update_mask_grows` nothing is lost) -/
def Grows (n : Nat) : List (List Nat) → Prop
  | a :: b :: rest => (∃ f, f < n ∧ f ∉ a ∧ f ∈ b) ∧ (∀ x ∈ a, x ∈ b) ∧ Grows n (b :: rest)
  | _ => True

/-- **Bound on the number of collapses, any run.** A sequence of masks in which every collapse adds a fresh member of
a universe of `n` items (indices, or pairs) has at most `n` collapses (`n + 1` masks). -/
theorem collapse_chain_bounded (n : Nat) : ∀ (ms : List (List Nat)), Grows n ms → ms.length ≤ free n (ms.headD []) + 1
  | [], _ => by simp
  | [a], _ => by simp
  | a :: b :: rest, h => by
    obtain ⟨⟨f, hf, hfa, hfb⟩, hsub, hrest⟩ := h
    have ih := collapse_chain_bounded n (b :: rest) hrest
    have hlt := free_lt n a b hsub f hf hfa hfb
    simp only [List.length_cons, List.headD_cons] at ih ⊢
    omega

/-- **The collapse loop terminates.** In the loop model (every round applies what is reported and not yet masked,
and stops at the first round with nothing new) the number of applied collapses is at most the number of unmasked
items, hence at most the size of the universe: `nDim` indices for CollapseAt, `nDim(nDim-1)/2` pairs for
CollapseAs - whatever the detectors report. -/
theorem collapse_loop_terminates (n : Nat) (mask : List Nat) (reps : List (List Nat)) :
    (Loop.run n mask reps).1 ≤ free n mask ∧ free n mask ≤ n := by
  refine ⟨?_, free_le n mask⟩
  induction reps generalizing mask with
  | nil => simp [Loop.run]
  | cons rep rest ih =>
    simp only [Loop.run]
    cases hfr : Loop.fresh n mask rep with
    | nil => simp
    | cons f fs =>
      simp only
      have hmem : f ∈ Loop.fresh n mask rep := by simp [hfr]
      simp only [Loop.fresh, List.mem_filter, Bool.and_eq_true, decide_eq_true_eq, Bool.not_eq_true',
        List.contains_eq_mem, decide_eq_false_iff_not] at hmem
      have hlt := free_lt n mask (mask ++ f :: fs) (fun x hx => List.mem_append_left _ hx) f hmem.2.1 hmem.2.2
        (by simp)
      have := ih (mask ++ f :: fs)
      omega

example : Loop.run 3 [0] [[0, 1], [1, 2], [2], [0]] = (2, [0, 1, 2]) := by decide
example : Grows 3 [[], [1], [1, 0], [1, 0, 2]] := by
  refine ⟨⟨1, by omega, by simp, by simp⟩, by simp, ⟨0, by omega, by simp, by simp⟩, by simp, ⟨2, by omega, by simp, by simp⟩, ?_, trivial⟩
  intro x hx; simp at hx ⊢; omega

end Loop

/-! ## applying a pair collapse (`CollapseAs` -> `impose_as` over `tools.connected`) -/
section Apply

variable {R : Type}

/-- **Every collapsed pair ends up inside one group of `tools.connected`, whatever the iteration order.**
(The groups only grow and are never split.)  What can go wrong is only that two groups share a member. -/
theorem connected_pair_in_group (pairs : List (Nat × Nat)) :
    ∀ p ∈ pairs, ∃ g ∈ connected pairs, inGrp g p.1 = true ∧ inGrp g p.2 = true :=
  (foldl_connAdd_pair pairs []).2

/-- `impose_as` keeps the length of the parameter vector -/
theorem applied_length (pairs : List (Nat × Nat)) (x : List R) : (applyAs pairs x).length = x.length :=
  tieAll_length _ x

/-- **Applied relation, exact (clause "every point evaluated afterwards ... equal to its partner"), for the code as
it is.**  FULL statement (false, see `applied_bridged_pair_not_tied_witness`): for every set of in-range pairs in
every iteration order, `impose_as` makes `x[i] = x[j]` for every pair.  PROVED: the same for every iteration order in
which no pair joins two groups that exist when it is processed (`noBridge`, evaluated by the driver on the real
iteration order of every case): every pair is tied exactly, and the common value is the value the ORIGINAL vector
had at the key of the pair's group (nothing is invented).  Missing for the full statement: `connected` never merges
two existing groups. -/
theorem applied_pairs_equal_partial (pairs : List (Nat × Nat)) (x : List R) (hb : noBridge pairs = true)
    (hr : ∀ p ∈ pairs, p.1 < x.length ∧ p.2 < x.length) :
    ∀ p ∈ pairs, ∃ g ∈ connected pairs,
      (applyAs pairs x)[p.1]? = x[g.1]? ∧ (applyAs pairs x)[p.2]? = x[g.1]? ∧ g.1 < x.length := by
  have inv := foldl_connAdd_inv x.length pairs [] List.Pairwise.nil (fun g hg => by cases hg) hb hr
  intro p hp
  obtain ⟨g, hg, h1, h2⟩ := inv.2.2.2 p hp
  exact ⟨g, hg, tieAll_group _ x inv.1 inv.2.1 g hg p.1 h1, tieAll_group _ x inv.1 inv.2.1 g hg p.2 h2,
    inv.2.1 g hg g.1 (inGrp_key g)⟩

/-- the pairs, read as an undirected graph on the parameters -/
def Tied (pairs : List (Nat × Nat)) (a b : Nat) : Prop := (a, b) ∈ pairs ∨ (b, a) ∈ pairs

/-- **All members of a connected component end up equal** (chains: two parameters each tied to a common third, not
to each other, are equal to each other afterwards), under the same hypothesis as `applied_pairs_equal_partial`. -/
theorem applied_component_equal_partial (pairs : List (Nat × Nat)) (x : List R) (hb : noBridge pairs = true)
    (hr : ∀ p ∈ pairs, p.1 < x.length ∧ p.2 < x.length) (a b : Nat)
    (hab : Relation.ReflTransGen (Tied pairs) a b) : (applyAs pairs x)[a]? = (applyAs pairs x)[b]? := by
  induction hab with
  | refl => rfl
  | tail _ hbc ih =>
    refine ih.trans ?_
    rcases hbc with h | h
    · obtain ⟨g, _, h1, h2, _⟩ := applied_pairs_equal_partial pairs x hb hr _ h
      exact h1.trans h2.symm
    · obtain ⟨g, _, h1, h2, _⟩ := applied_pairs_equal_partial pairs x hb hr _ h
      exact h2.trans h1.symm

/-- **Frame**: a parameter that is in no collapsed pair keeps its value - for EVERY iteration order. -/
theorem applied_frame (pairs : List (Nat × Nat)) (x : List R) (hr : ∀ p ∈ pairs, p.1 < x.length ∧ p.2 < x.length)
    (q : Nat) (hq : q < x.length) (hn : ∀ p ∈ pairs, q ≠ p.1 ∧ q ≠ p.2) : (applyAs pairs x)[q]? = x[q]? := by
  have hsub := foldl_connAdd_sub pairs []
  refine tieAll_frame _ x ?_ q hq ?_
  · intro g hg m hm
    rcases hsub g hg m hm with ⟨g0, h0, _⟩ | ⟨p, hp, h | h⟩
    · cases h0
    · exact h ▸ (hr p hp).1
    · exact h ▸ (hr p hp).2
  · intro g hg hc
    rcases hsub g hg q (inGrp_of_mem hc) with ⟨g0, h0, _⟩ | ⟨p, hp, h | h⟩
    · cases h0
    · exact (hn p hp).1 h
    · exact (hn p hp).2 h

/-- **Orders that are always handled**: a pair set that is ONE component grown pair by pair - every pair after the
first has a member among the members of the earlier pairs - never joins two existing groups. -/
theorem oneComponentOrder_noBridge (pairs : List (Nat × Nat)) (h : oneComponentOrder pairs = true) :
    noBridge pairs = true := by
  cases pairs with
  | nil => rfl
  | cons p ps =>
    have hb : bridges [] p.1 p.2 = false := by simp [bridges]
    have hc : connAdd [] p = [(p.1, [p.2])] := by simp [connAdd, connStep]
    simp only [noBridge, noBridgeFrom, hb, hc, Bool.not_false, Bool.true_and]
    refine grown_noBridgeFrom ps (p.1, [p.2]) [p.1, p.2] ?_ h
    intro a ha
    have : a = p.1 ∨ a = p.2 := by simpa using ha
    rcases this with h | h <;> simp [inGrp, h]

/-- a star (all pairs share one parameter `c`, as first OR second member) in ANY order never joins two groups -/
theorem star_noBridge (c : Nat) (pairs : List (Nat × Nat)) (hs : ∀ p ∈ pairs, p.1 = c ∨ p.2 = c) :
    noBridge pairs = true := by
  refine oneComponentOrder_noBridge pairs ?_
  cases pairs with
  | nil => rfl
  | cons p ps =>
    refine grown_of_star c ps [p.1, p.2] ?_ (fun q hq => hs q (List.mem_cons_of_mem _ hq))
    rcases hs p List.mem_cons_self with h | h <;> simp [h]

/-- **Chain collapse `{(i,k),(j,k)}` and every star: exact in every order and orientation.**  When all collapsed
pairs share one parameter (two parameters each tied to a common third - lower, middle or higher index - and not to
each other; a star with any number of arms), `impose_as` makes ALL of them equal, whatever order the set is iterated
in and whichever member comes first in a pair. -/
theorem applied_star_equal (c : Nat) (pairs : List (Nat × Nat)) (x : List R) (hs : ∀ p ∈ pairs, p.1 = c ∨ p.2 = c)
    (hr : ∀ p ∈ pairs, p.1 < x.length ∧ p.2 < x.length) :
    ∀ p ∈ pairs, ∀ q ∈ pairs, (applyAs pairs x)[p.1]? = (applyAs pairs x)[q.2]?
      ∧ (applyAs pairs x)[p.1]? = (applyAs pairs x)[p.2]? := by
  have hb := star_noBridge c pairs hs
  intro p hp q hq
  have hpe : (applyAs pairs x)[p.1]? = (applyAs pairs x)[p.2]? := by
    obtain ⟨g, _, h1, h2, _⟩ := applied_pairs_equal_partial pairs x hb hr p hp
    exact h1.trans h2.symm
  refine ⟨?_, hpe⟩
  have hpc : Relation.ReflTransGen (Tied pairs) p.1 c := by
    rcases hs p hp with h | h
    · rw [h]
    · exact h ▸ Relation.ReflTransGen.single (.inl hp)
  have hcq : Relation.ReflTransGen (Tied pairs) c q.2 := by
    rcases hs q hq with h | h
    · exact h ▸ Relation.ReflTransGen.single (.inl hq)
    · rw [h]
  exact applied_component_equal_partial pairs x hb hr _ _ (hpc.trans hcq)

/-- **F26 witness (the unrestricted clause fails on the code as it is).**  The path `0-1-2-3` iterated as
`(2,3), (0,1), (1,2)` (pairs exactly as `collapse_as` reports them, `i < j`): `connected` builds `{2: {3,1}, 0: {1}}`,
the pair `(1,2)` joins two existing groups, `x[1]` is overwritten twice and the collapsed pair `(1,2)` is NOT equal
afterwards. -/
theorem applied_bridged_pair_not_tied_witness :
    noBridge [(2, 3), (0, 1), (1, 2)] = false
      ∧ connected [(2, 3), (0, 1), (1, 2)] = [(2, [3, 1]), (0, [1])]
      ∧ applyAs [(2, 3), (0, 1), (1, 2)] ([10, 11, 12, 13] : List Int) = [10, 10, 12, 12] := by decide

-- non-vacuity: the chain {(0,2),(1,2)} of the missed change, both iteration orders, and a star around the middle index
example : noBridge [(0, 2), (1, 2)] = true ∧ applyAs [(0, 2), (1, 2)] ([10, 11, 12, 13] : List Int) = [10, 10, 10, 13] := by
  decide
example : noBridge [(1, 2), (0, 2)] = true ∧ applyAs [(1, 2), (0, 2)] ([10, 11, 12, 13] : List Int) = [11, 11, 11, 13] := by
  decide
example : oneComponentOrder [(1, 3), (0, 1), (1, 2), (3, 4)] = true
    ∧ applyAs [(1, 3), (0, 1), (1, 2), (3, 4)] ([10, 11, 12, 13, 14] : List Int) = [11, 11, 11, 11, 11] := by decide

end Apply

/-! ## applying measure collapses (`CollapseWeight` / `CollapsePosition` -> `constraints.impose_measure`)

`Collapse()` hands the dicts of `collapse_position` (`{measure: set of pairs i<j}`) and `collapse_weight`
(`{measure: set of indices}`) to ONE `impose_measure(npts, tracking, noweight)` per round (abstract_solver.py l.849);
inside, the position collapses (`impose_collapse`: the weight of a tracked point is moved onto the key of its group)
run BEFORE the weight removals (`impose_unweighted`), constraints.py l.1812-1819.  Model: Model/CollapseMeasure.lean
(`applyMeasure` = C19's `Discrete.imposeMeasure` over the groups that `Clps.connected` builds from the pairs in the
real iteration order).  `c` is the product measure loaded from the parameter vector, `imposeOn .. c` the measure whose
flattening the cost function receives. -/
section MeasureApply
open MysticVerif.Discrete

variable {K : Type} [Field K] [LinearOrder K] [IsStrictOrderedRing K]

/-- what is assumed of the pairs of one tracked item on a factor with `n` points: no pair joins two groups that exist
when it is processed (as for `impose_as`, F26), indices in range, and no key of a group among its own members (all three
are evaluated by the driver on the real iteration order of every case) -/
def TrackOK (n : Nat) (pairs : List (Nat × Nat)) : Prop :=
  noBridge pairs = true ∧ (∀ p ∈ pairs, p.1 < n ∧ p.2 < n) ∧ keyFree (connected pairs) = true

/-- **Applied position collapse, exact (clause "... equal to its partner", measures).**  For one `impose_measure` call
with one `CollapsePosition` dict (distinct measures), every collapsed pair `(i,j)` of measure `k` has EXACTLY equal
positions in the measure the cost function receives - after all the weight removals of the same call, whatever
indices they name (root of the pair, second member, unrelated) and whatever the weights are.  Hypothesis on the pair
set as for `applied_pairs_equal_partial` (`TrackOK`; without `noBridge` the statement is false: F26 mechanism). -/
theorem measure_applied_pairs_equal (inf : K) (r : MRound) (c : PM K)
    (hnd : (r.tracking.map (·.1)).Nodup) (kv : Nat × List (Nat × Nat)) (hkv : kv ∈ r.tracking)
    (m : Measure K) (hm : c[kv.1]? = some m) (hok : TrackOK m.length kv.2) (p : Nat × Nat) (hp : p ∈ kv.2) :
    ∃ m', (imposeOn inf (trackGroups r.tracking) r.noweight c)[kv.1]? = some m' ∧ m'.length = m.length ∧
      (mpositions m')[p.1]? = (mpositions m')[p.2]? := by
  obtain ⟨hgok, hdis, hpair⟩ := connected_groups_ok m.length kv.2 hok.1 hok.2.1 hok.2.2
  obtain ⟨g, hg, h1, h2⟩ := hpair p hp
  obtain ⟨m', hm', hlen⟩ := imposeOn_factor_length inf (trackGroups r.tracking) r.noweight c kv.1 m hm
  have hnd' : ((trackGroups r.tracking).map (·.1)).Nodup := by rw [trackGroups_keys]; exact hnd
  have aux : ∀ q, Discrete.inGroup g q → q < m.length → (mpositions m')[q]? = (mpositions m')[g.1]? := by
    intro q hq hqn
    rcases hq with rfl | hq
    · rfl
    · obtain ⟨m'', e, _, hpos⟩ := imposeOn_member_pos inf (trackGroups r.tracking) r.noweight c hnd'
        (kv.1, connected kv.2) (mem_trackGroups hkv) m hm hgok hdis g hg q hq hqn
      rw [hm'] at e
      rw [Option.some.inj e]; exact hpos
  exact ⟨m', hm', hlen, (aux p.1 h1 (hok.2.1 p hp).1).trans (aux p.2 h2 (hok.2.1 p hp).2).symm⟩

/-- **Applied weight collapse, exact (clause "parameter fixed at its target", measures: weight 0).**  For one
`impose_measure` call with one `CollapseWeight` dict (distinct measures), every collapsed weight index of measure `k`
has weight EXACTLY 0 in the measure the cost function receives - although the position collapses of the same call may
have moved a partner's weight onto that very index before (dead index = root of a collapsed pair): the removals run
LAST.  For every iteration order of the pair sets (no `noBridge` needed).  Hypotheses: the loaded factor has
non-negative weights of positive total, the tracked pairs of that factor are in range with no key among its own
members, and the collapse leaves at least one point of the factor alive. -/
theorem measure_applied_weights_zero (inf : K) (r : MRound) (c : PM K)
    (hnd : (r.noweight.map (·.1)).Nodup) (kv : Nat × List Nat) (hkv : kv ∈ r.noweight)
    (m : Measure K) (hm : c[kv.1]? = some m) (hnn : ∀ w ∈ mweights m, 0 ≤ w) (hpos : 0 < (mweights m).sum)
    (htr : ∀ t ∈ r.tracking, t.1 = kv.1 →
      (∀ p ∈ t.2, p.1 < m.length ∧ p.2 < m.length) ∧ keyFree (connected t.2) = true)
    (hout : ∃ i, i < m.length ∧ i ∉ kv.2) :
    ∃ m', (imposeOn inf (trackGroups r.tracking) r.noweight c)[kv.1]? = some m' ∧ m'.length = m.length ∧
      ∀ p ∈ kv.2, p < m.length → (mweights m')[p]? = some 0 := by
  refine imposeOn_noweight_zero inf (trackGroups r.tracking) r.noweight c hnd kv hkv m hm hnn hpos ?_ hout
  intro t ht hk g hg
  obtain ⟨t0, ht0, rfl⟩ := of_mem_trackGroups ht
  exact connected_groups_wf m.length t0.2 (htr t0 ht0 hk).1 (htr t0 ht0 hk).2 g hg

/-- **Applied measure collapse on the parameter vector (both relations, the order the code uses).**  For every
parameter vector `x` of at least `2*sum(npts)` numbers and one round of collapses: the constraint returns the
flattening of a measure `c'` that reads back as `c'` with the same `npts`, and in `c'` every collapsed position pair
is exactly equal and every collapsed weight exactly 0 (hypotheses per measure as in the two theorems above). -/
theorem impose_measure_applied_exact (inf : K) (npts : List Nat) (r : MRound) (x : List K)
    (hlen : 2 * npts.sum ≤ x.length)
    (hndt : (r.tracking.map (·.1)).Nodup) (hndn : (r.noweight.map (·.1)).Nodup) :
    ∃ c c', unflatten (x.take (2 * npts.sum)) npts = some c ∧ applyMeasure inf npts r x = some (flatten c') ∧
      unflatten (flatten c') npts = some c' ∧
      (∀ kv ∈ r.tracking, ∀ m, c[kv.1]? = some m → TrackOK m.length kv.2 → ∀ p ∈ kv.2,
        ∃ m', c'[kv.1]? = some m' ∧ m'.length = m.length ∧ (mpositions m')[p.1]? = (mpositions m')[p.2]?) ∧
      (∀ kv ∈ r.noweight, ∀ m, c[kv.1]? = some m → (∀ w ∈ mweights m, 0 ≤ w) → 0 < (mweights m).sum →
        (∀ t ∈ r.tracking, t.1 = kv.1 →
          (∀ p ∈ t.2, p.1 < m.length ∧ p.2 < m.length) ∧ keyFree (connected t.2) = true) →
        (∃ i, i < m.length ∧ i ∉ kv.2) →
        ∃ m', c'[kv.1]? = some m' ∧ m'.length = m.length ∧ ∀ p ∈ kv.2, p < m.length → (mweights m')[p]? = some 0) := by
  obtain ⟨c, h1, h2, _, h4⟩ := imposeMeasure_eq inf npts (trackGroups r.tracking) r.noweight x hlen
  refine ⟨c, imposeOn inf (trackGroups r.tracking) r.noweight c, h1, h4, ?_, ?_, ?_⟩
  · have := unflatten_flatten' (imposeOn inf (trackGroups r.tracking) r.noweight c)
    rwa [imposeOn_pts, h2] at this
  · intro kv hkv m hm hok p hp
    exact measure_applied_pairs_equal inf r c hndt kv hkv m hm hok p hp
  · intro kv hkv m hm hnn hpos htr hout
    exact measure_applied_weights_zero inf r c hndn kv hkv m hm hnn hpos htr hout

/-- **The order matters (kernel-checked witness).**  Measure of three points, weights `[0, 1/2, 1/2]`, positions
`[2, 2, 6]`; one round collapses the position pair `(0,1)` and the weight index `0` (the dead point is the root of the
pair, its partner carries weight).  The code (positions first, weights last) returns weight 0 at index 0 and equal
positions; with the two loops in the other order the partner's weight is moved onto the point that was just zeroed:
weight `1/2` at the collapsed index. -/
theorem impose_measure_other_order_witness :
    applyMeasure (0 : ℚ) [3] ⟨[(0, [(0, 1)])], [(0, [0])]⟩ [0, 1/2, 1/2, 2, 2, 6] = some [0, 0, 1, 0, 0, 4] ∧
    applyMeasureSwapped (0 : ℚ) [3] ⟨[(0, [(0, 1)])], [(0, [0])]⟩ [0, 1/2, 1/2, 2, 2, 6]
      = some [1/2, 0, 1/2, 2, 2, 6] := by
  constructor <;>
  norm_num [applyMeasure, applyMeasureSwapped, imposeOnSwapped, trackGroups, connected, connAdd, connStep,
    imposeMeasure, load, truncParams, unflatten, nestedSplit, compose, listOfMeasures, zipMeasure, imposeOn,
    Discrete.collapseAt, unweightAt, imposeCollapse, imposeUnweighted, normalizeMass, collapseGroup, collapseStep,
    imposeMean, Discrete.mean, sumL, truthy, Discrete.absR, Discrete.rebuild, flatten, mweights, mpositions, List.modify,
    List.mapIdx_cons]

/-- **Rounds are composed by overwriting (known finding F27, the code as it is).**  The constraint of an EARLIER
round runs after the constraint of a later round (`chain(*new)(old)`).  Round 1 collapses the position pair `(0,1)`,
a later round collapses the weight index `0`: on the same vector the composed constraint zeroes weight 0 first and
then the older position collapse moves the partner's weight onto it - the collapsed weight is `1/2`, not 0. -/
theorem applied_weight_reweighted_by_older_round_witness :
    applyRounds (0 : ℚ) [3] [⟨[], [(0, [0])]⟩, ⟨[(0, [(0, 1)])], []⟩] [0, 1/2, 1/2, 2, 2, 6]
      = some [1/2, 0, 1/2, 2, 2, 6] := by
  norm_num [applyRounds, applyMeasure, trackGroups, connected, connAdd, connStep,
    imposeMeasure, load, truncParams, unflatten, nestedSplit, compose, listOfMeasures, zipMeasure, imposeOn,
    Discrete.collapseAt, unweightAt, imposeCollapse, imposeUnweighted, normalizeMass, collapseGroup, collapseStep,
    imposeMean, Discrete.mean, sumL, truthy, Discrete.absR, Discrete.rebuild, flatten, mweights, mpositions, List.modify,
    List.mapIdx_cons]

/-- **Several rounds: what is still exact.**  `Collapse()` chains the constraint of every new round OUTSIDE the existing
ones, so in the composed constraint (`applyRounds`, rounds in execution order) the OLDEST round runs last: whatever the
newer rounds were and whatever they did to the vector, the value the cost function receives is the oldest round's
`impose_measure` applied to some vector of at least `2*sum(npts)` numbers - so `impose_measure_applied_exact` holds for
the oldest round's collapses at every evaluated point (its position pairs are exactly equal; its weights exactly 0
under the hypotheses on the intermediate measure).  For the NEWER rounds the statement is false on the code as it is
(`applied_weight_reweighted_by_older_round_witness`). -/
theorem oldest_round_runs_last (inf : K) (npts : List Nat) (newer : List MRound) (oldest : MRound) (x y : List K)
    (hlen : 2 * npts.sum ≤ x.length) (h : applyRounds inf npts (newer ++ [oldest]) x = some y) :
    ∃ x', applyRounds inf npts newer x = some x' ∧ 2 * npts.sum ≤ x'.length ∧
      applyMeasure inf npts oldest x' = some y := by
  rw [applyRounds_snoc] at h
  cases hx : applyRounds inf npts newer x with
  | none => rw [hx] at h; simp at h
  | some x' =>
    rw [hx] at h
    exact ⟨x', rfl, applyRounds_length inf npts newer x x' hlen hx, by simpa using h⟩

/-- the oldest round's collapsed position pairs are exactly equal after ANY number of later rounds -/
theorem oldest_round_pairs_equal (inf : K) (npts : List Nat) (newer : List MRound) (oldest : MRound) (x y : List K)
    (hlen : 2 * npts.sum ≤ x.length) (hnd : (oldest.tracking.map (·.1)).Nodup)
    (h : applyRounds inf npts (newer ++ [oldest]) x = some y) :
    ∃ (x' : List K) (c c' : PM K), applyRounds inf npts newer x = some x' ∧
      unflatten (x'.take (2 * npts.sum)) npts = some c ∧ y = flatten c' ∧ unflatten (flatten c') npts = some c' ∧
      ∀ kv ∈ oldest.tracking, ∀ m, c[kv.1]? = some m → TrackOK m.length kv.2 → ∀ p ∈ kv.2,
        ∃ m', c'[kv.1]? = some m' ∧ m'.length = m.length ∧ (mpositions m')[p.1]? = (mpositions m')[p.2]? := by
  obtain ⟨x', hx', hl', hy⟩ := oldest_round_runs_last inf npts newer oldest x y hlen h
  obtain ⟨c, h1, h2, _, h4⟩ := imposeMeasure_eq inf npts (trackGroups oldest.tracking) oldest.noweight x' hl'
  refine ⟨x', c, imposeOn inf (trackGroups oldest.tracking) oldest.noweight c, hx', h1, ?_, ?_, ?_⟩
  · unfold applyMeasure at hy
    rw [h4] at hy
    exact (Option.some.inj hy).symm
  · have := unflatten_flatten' (imposeOn inf (trackGroups oldest.tracking) oldest.noweight c)
    rwa [imposeOn_pts, h2] at this
  · intro kv hkv m hm hok p hp
    exact measure_applied_pairs_equal inf oldest c hnd kv hkv m hm hok p hp

-- non-vacuity: the hypotheses hold for the witness' round (and for a star around the middle index in both orders);
-- a triangle iterated as (1,2),(0,2),(0,1) puts the key 1 among its own members
example : TrackOK 3 [(0, 1)] ∧ (∃ i, i < 3 ∧ i ∉ [0]) := by
  refine ⟨⟨by decide, by decide, by decide⟩, 1, by decide, by decide⟩
example : TrackOK 4 [(1, 2), (1, 3), (0, 1)] ∧ TrackOK 4 [(0, 1), (1, 3), (1, 2)] := by
  refine ⟨⟨by decide, by decide, by decide⟩, ⟨by decide, by decide, by decide⟩⟩
example : keyFree (connected [(1, 2), (0, 2), (0, 1)]) = false ∧ keyFree (connected [(0, 1), (0, 2), (1, 2)]) = true := by
  decide

end MeasureApply

/-! ## Bounds collapse: `collapse_cost` (collapse.py l.243-333), Model/CollapseCost.lean

What "meets its documented tolerance test" means for `collapse_cost` ("Bounds collapse will occur when
cost(param) - min(cost) >= limit, for all N samples within an interval"): sort the records of parameter `p` by value and
flag the records whose cost is within `limit` of the lowest recorded cost (good).  A BAD RUN is a maximal run of at
least `samples` consecutive bad records.  Per definition
  (S3) `p` is reported iff there is a good record and a bad run,
  (S1) no record of a bad run lies strictly inside a reported interval,
  (S2) every good record lies inside a reported interval,
and with a mask the result is the interval-wise intersection with the mask, `{}` when that adds nothing.
S1-S3 are evaluated on the implementation's results by the monitor of stream `cost` (run-based, independent of the
where/diff code path); the code as it is VIOLATES them in two recorded ways (kernel-checked below):
  * the last interval starts at `par[..] + d[..]`, a sample count added to a parameter value (l.318, finding F50),
  * `clip=True` drops the outer interval, good records included, when the extreme record is bad (l.310-311, F51).
Proved here for ALL inputs: the interval algebra of the mask step (`_interval_intersection` is sound and complete for
interior points over any linear order), and the own-output clause: with duplicate-free keys and chain-ordered non-empty
interval lists (what `collapse_cost` returns when the recorded values of a parameter are pairwise different - the driver
evaluates `chainOrd` on every case) the detector fed its own output as mask returns `{}`.  With tied recorded values the
output holds degenerate intervals and the clause FAILS (F52, witness below); a parameter whose new bounds do not meet
its mask is dropped instead of kept (F54, witness below).
NOT proved (correspondence + monitor only): S1-S3 for the lower and interior intervals from the where/diff scan. -/
section CostCollapse

variable {K : Type} [LinearOrder K]

/-- `_interval_intersection` (tools.py l.881-895), soundness: a point inside (closed) an interval of the result is inside
an interval of each argument - the new bounds of a masked parameter lie inside its mask and inside the fresh bounds -/
theorem cost_interval_intersection_sound (A B : Ivs K) (hA : A ≠ []) (hB : B ≠ []) (x : K)
    (h : ∃ r ∈ ivInter A B, r.1 ≤ x ∧ x ≤ r.2) :
    (∃ a ∈ A, a.1 ≤ x ∧ x ≤ a.2) ∧ (∃ c ∈ B, c.1 ≤ x ∧ x ≤ c.2) := by
  obtain ⟨r, hr, h1, h2⟩ := h
  obtain ⟨a, ha, c, hc, rfl, _⟩ := (mem_ivInter A B hA hB r).mp hr
  exact ⟨⟨a, ha, le_trans (le_max_left _ _) h1, le_trans h2 (min_le_left _ _)⟩,
         ⟨c, hc, le_trans (le_max_right _ _) h1, le_trans h2 (min_le_right _ _)⟩⟩

/-- completeness for interior points: a point strictly inside an interval of each argument is strictly inside an
interval of the result (only the end points of touching intervals are lost by the test `l < h`, l.893) -/
theorem cost_interval_intersection_complete (A B : Ivs K) (x : K)
    (ha : ∃ a ∈ A, a.1 < x ∧ x < a.2) (hc : ∃ c ∈ B, c.1 < x ∧ x < c.2) :
    ∃ r ∈ ivInter A B, r.1 < x ∧ x < r.2 := by
  obtain ⟨a, haA, a1, a2⟩ := ha
  obtain ⟨c, hcB, c1, c2⟩ := hc
  have hA : A ≠ [] := by intro e; rw [e] at haA; cases haA
  have hB : B ≠ [] := by intro e; rw [e] at hcB; cases hcB
  refine ⟨(max a.1 c.1, min a.2 c.2), (mem_ivInter A B hA hB _).mpr ⟨a, haA, c, hcB, rfl, ?_⟩, max_lt a1 c1, lt_min a2 c2⟩
  exact lt_trans (max_lt a1 c1) (lt_min a2 c2)

/-- "feeding a detector its own output as mask yields nothing new", `collapse_cost`: whenever the unmasked call returns
`R` with duplicate-free keys and non-empty chain-ordered interval lists, the call with (any accepted spelling of) `R`
as mask returns `{}` - for ALL histories, costs, limits, windows, clip flags. -/
theorem own_output_as_mask_is_empty_cost (ninf pinf : K) (addc : K → Nat → K) [Sub K] (hist : List (List K))
    (costs : List K) (perms : Option (List (List Nat))) (clip : Bool) (limit : K) (samples : Option Int)
    (R : BDict K) (m : CMask K)
    (h : collapseCost ninf pinf addc hist costs perms clip limit samples CMask.none = .ok R)
    (hm : checkCMask m = .ok (some R))
    (hnd : (R.map (·.1)).Nodup) (hch : ∀ kv ∈ R, chainOrd kv.2 = true ∧ kv.2 ≠ []) :
    collapseCost ninf pinf addc hist costs perms clip limit samples m = .ok [] := by
  unfold collapseCost at h ⊢
  rw [hm]
  simp only [checkCMask] at h
  cases hc : collapseCostCore ninf pinf addc hist costs perms clip limit samples with
  | error e => rw [hc] at h; cases h
  | ok res =>
    rw [hc] at h
    simp only [costMaskStep] at h
    have : res = R := by injection h
    subst this
    simp only
    rw [costMaskStep_self res hnd hch]

-- non-vacuity: an output of the detector (two intervals around a bad run) satisfies the hypotheses, and the mask step
-- with it as mask is empty
example : chainOrd [((-1000 : Int), 30), (80, 1000)] = true ∧
    costMaskStep [(some 0, [((-1000 : Int), 30), (80, 1000)])] (some [(some 0, [((-1000 : Int), 30), (80, 1000)])]) = [] := by
  decide

/-- F50, kernel-checked: records 0, 10, .., 90, the records 30..70 bad, `samples = 5`, `clip = False`
(`-1000 / 1000` stand for `-inf / inf`, `addc v k = v + k`): the reported bounds are `(-inf, 30), (35, inf)` -
the bad record 40 lies strictly inside the second interval; per definition it starts at 80 -/
theorem cost_upper_adds_count_witness :
    (colBounds (-1000 : Int) 1000 (fun v k => v + (k : Int)) false 5 [0, 10, 20, 30, 40, 50, 60, 70, 80, 90]
      [true, true, true, false, false, false, false, false, true, true]).toOption
      = some [(-1000, 30), (35, 1000)] ∧ (35 : Int) < 40 ∧ (40 : Int) < 1000 := by
  decide

/-- F51, kernel-checked: records 0, 10, .., 90 with the good records 10, 20, 60, 70 and `samples = 3`: with `clip = True`
nothing is reported (both extreme records are bad) although the records 30, 40, 50 are a bad run, which `clip = False`
does report -/
theorem cost_clip_drops_good_region_witness :
    (colBounds (-1000 : Int) 1000 (fun v k => v + (k : Int)) true 3 [0, 10, 20, 30, 40, 50, 60, 70, 80, 90]
      [false, true, true, false, false, false, true, true, false, false]).toOption = some [] ∧
    (colBounds (-1000 : Int) 1000 (fun v k => v + (k : Int)) false 3 [0, 10, 20, 30, 40, 50, 60, 70, 80, 90]
      [false, true, true, false, false, false, true, true, false, false]).toOption = some [(-1000, 30), (33, 1000)] := by
  decide

/-- F52, kernel-checked: tied recorded values (0, 1, 1, 1, 2, 3, 4 with the flags good, bad, good, bad, bad, bad, good,
`samples = 1`) give the degenerate interval `(1, 1)`; the intersection of that output with itself drops it, so the
detector fed its own output as mask reports again -/
theorem cost_own_output_degenerate_witness :
    (colBounds (-1000 : Int) 1000 (fun v k => v + (k : Int)) false 1 [0, 1, 1, 1, 2, 3, 4]
      [true, false, true, false, false, false, true]).toOption = some [(-1000, 1), (1, 1), (4, 1000)] ∧
    costMaskStep [(some 0, [((-1000 : Int), 1), (1, 1), (4, 1000)])] (some [(some 0, [((-1000 : Int), 1), (1, 1), (4, 1000)])])
      = [(some 0, [(-1000, 1), (4, 1000)])] := by
  decide

/-- F54, kernel-checked: the fresh bounds of parameter 0 do not meet its mask `(31, 34)`: the parameter is DROPPED from
the result (the mask shrinks), and with that result as mask it is reported afresh -/
theorem cost_masked_parameter_dropped_witness :
    costMaskStep [(some 0, [((-1000 : Int), 30), (35, 1000)])] (some [(some 0, [(31, 34)]), (some 1, [(0, 1)])])
      = [(some 1, [(0, 1)])] ∧
    costMaskStep [(some 0, [((-1000 : Int), 30), (35, 1000)])] (some [(some 1, [(0, 1)])])
      = [(some 0, [(-1000, 30), (35, 1000)]), (some 1, [(0, 1)])] := by
  decide

/-! ### the mask as an object: spellings (`SVal`), the in-place rewrite of bare intervals, `results == mask` -/

/-- The mechanism behind "a mask in the documented bare form `{k: (lo, hi)}` behaves like `{k: [(lo, hi)]}`": after
`interval_overlap` has rewritten the caller's value in place (tools.py l.928-931, `SVal.norm`), the equality test of
l.333 between a reported list of tuples and a value in either DOCUMENTED spelling looks at the interval content only. -/
theorem cost_documented_spelling_compares_by_content (r : Ivs K) (s : SVal K) (h : s.documented = true) :
    SVal.pyEq r s.norm = ivsEq r s.ivs := by
  obtain ⟨v, o, i⟩ := s
  cases v with
  | bad => simp [SVal.documented] at h
  | flat lo hi =>
    simp only [SVal.documented, Bool.not_eq_true'] at h
    subst h
    simp [SVal.norm, SVal.pyEq, SVal.ivs]
  | list l =>
    simp only [SVal.documented, Bool.and_eq_true] at h
    obtain ⟨h1, h2⟩ := h
    subst h1; subst h2
    simp [SVal.norm, SVal.pyEq, SVal.ivs]

/-- "a history in which nothing meets the cost test reports nothing, whatever the mask": when the scan finds no bounds,
the mask step returns `{}` for EVERY mask object - any keys, any intervals, any spelling of the values (every entry of
`results` is then the mask's own object, tools.py l.946-947). -/
theorem cost_nothing_found_reports_nothing (m : SDict K) : costMaskStepS ([] : BDict K) m = [] := by
  unfold costMaskStepS
  rw [if_pos]
  unfold sdictEq
  have hov : overlap ([] : BDict K) m.norm.bd = m.norm.bd := by
    simp [overlap, bLookup]
  rw [hov]
  simp only [Bool.and_eq_true, beq_iff_eq, List.length_map, List.all_eq_true]
  refine ⟨by simp [SDict.bd, SDict.norm], ?_⟩
  intro kv hkv
  have hkey : ∃ e ∈ m.norm, e.1 = kv.1 := by
    simp only [SDict.bd, List.mem_map] at hkv
    obtain ⟨a, ⟨b, hb, rfl⟩, rfl⟩ := hkv
    refine ⟨b, hb, ?_⟩
    split <;> rfl
  obtain ⟨e, he, hek⟩ := hkey
  have hsome : (m.norm.find? fun e => e.1 == kv.1).isSome = true := by
    rw [List.find?_isSome]
    exact ⟨e, he, by simp [hek]⟩
  cases hf : (m.norm.find? fun e => e.1 == kv.1) with
  | none => rw [hf] at hsome; cases hsome
  | some e' => simp [bLookup]

/-- F63, kernel-checked: parameter 0 is reported with the bounds `(0, 1)`; fed back as the bare tuple `(0, 1)` or as the
list `[(0, 1)]` the detector reports nothing, fed back with the interval spelled as a LIST `[0, 1]` (accepted by the
validation l.259-281, rewritten in place to `[[0, 1]]`) or as a TUPLE of intervals `((0, 1),)` it reports the same
bounds again: `[(0, 1)] == [[0, 1]]` and `[(0, 1)] == ((0, 1),)` are False in Python. -/
theorem cost_mask_other_container_reported_again_witness :
    costMaskStepS [(some 0, [((0 : Int), 1)])] [(some 0, ⟨CVal.flat 0 1, false, false⟩)] = [] ∧
    costMaskStepS [(some 0, [((0 : Int), 1)])] [(some 0, ⟨CVal.list [(0, 1)], true, true⟩)] = [] ∧
    costMaskStepS [(some 0, [((0 : Int), 1)])] [(some 0, ⟨CVal.flat 0 1, true, false⟩)] = [(some 0, [(0, 1)])] ∧
    costMaskStepS [(some 0, [((0 : Int), 1)])] [(some 0, ⟨CVal.list [(0, 1)], false, true⟩)] = [(some 0, [(0, 1)])] := by
  decide

end CostCollapse

end MysticVerif.C11
