/-
C04 - best-so-far never worsens; counters, monitors and callbacks are faithful.

In the model the evaluation monitor IS the list of calls made to the user's cost (`log`, append-only) and the
evaluation counter is its length; what the theorems add is that no step ever rewrites or drops an entry, that
each entry is `(x, cost x)`, that each `_Step` appends exactly one `(best, bestEnergy)` record, and that the
recorded best energies never increase and end in the reported best.  The tie of `solver.evaluations`,
`len(evalmon)` and `generations` to these lists is the correspondence (`ctl`, `de`, `nm` commands) and the monitor.
The callback is checked on the implementation only.
-/
import MysticVerif.Proofs.Solver
import MysticVerif.Proofs.NelderMead
import MysticVerif.Proofs.PowellS
import MysticVerif.Props.C05

namespace MysticVerif.C04
open MysticVerif.Solver

variable {X E R : Type}

/-- **DE / DE2: the best-energy history is non-increasing**, for any trial vectors and any number of steps -/
theorem de_history_antitone [LinearOrder E] (o : Obj X E) (h : Hyp o) (pop : List X) (x0 : X)
    (trialss : List (List X)) :
    ((DE.run1 o trialss (DE.init o pop x0)).stepLog.map Prod.snd).Pairwise (· ≥ ·) :=
  (DE.run1_inv h trialss _ (DE.init_inv pop x0)).hist

/-- **DE / DE2: the last history entry is the reported (best solution, best energy)** -/
theorem de_last_history_is_best [LinearOrder E] (o : Obj X E) (ts : List X) (s : DE X E) :
    (DE.step1 o ts s).stepLog.getLast? = some ((DE.step1 o ts s).best, (DE.step1 o ts s).bestE) := by
  unfold DE.step1; simp

/-- **one step record per iteration** -/
theorem de_one_record_per_step [LinearOrder E] (o : Obj X E) :
    ∀ (trialss : List (List X)) (s : DE X E),
      (DE.run1 o trialss s).stepLog.length = s.stepLog.length + trialss.length := by
  intro trialss
  induction trialss with
  | nil => intro s; simp [DE.run1]
  | cons ts tss ih =>
    intro s
    have := ih (DE.step1 o ts s)
    unfold DE.run1 at this ⊢
    simp only [List.foldl_cons, List.length_cons]
    rw [this]
    unfold DE.step1
    simp only [List.length_append, List.length_cons, List.length_nil]
    rw [DE.candidates1_stepLog]
    omega

/-- **the evaluation monitor is append-only**: earlier records are never rewritten, dropped or reordered -/
theorem de_log_prefix [LinearOrder E] (o : Obj X E) :
    ∀ (ts : List X) (i : Nat) (s : DE X E), s.log <+: (DE.candidates1 o ts i s).log := by
  intro ts
  induction ts with
  | nil => intro i s; exact List.prefix_refl _
  | cons t ts ih =>
    intro i s
    unfold DE.candidates1
    refine List.IsPrefix.trans ?_ (ih _ _)
    rw [DE.select_log]
    simp only
    unfold Obj.objAt Obj.evalB
    split
    · exact List.prefix_refl _
    · exact List.prefix_append _ _

/-- **each record of the evaluation monitor is `(x, cost x)`** for a point the cost was really called at -/
theorem de_evalmon_records [LinearOrder E] (o : Obj X E) (h : Hyp o) (pop : List X) (x0 : X)
    (trialss : List (List X)) : ∀ p ∈ (DE.run1 o trialss (DE.init o pop x0)).log, p.2 = o.raw p.1 := by
  intro p hp
  exact ((DE.run1_inv h trialss _ (DE.init_inv pop x0)).logOK p hp).1

/-- the number of evaluations grows by at most one per candidate (out-of-box trials are not evaluated) -/
theorem de_evals_per_step [LinearOrder E] (o : Obj X E) :
    ∀ (ts : List X) (i : Nat) (s : DE X E), (DE.candidates1 o ts i s).log.length ≤ s.log.length + ts.length := by
  intro ts
  induction ts with
  | nil => intro i s; simp [DE.candidates1]
  | cons t ts ih =>
    intro i s
    unfold DE.candidates1
    refine le_trans (ih _ _) ?_
    rw [DE.select_log]
    simp only [List.length_cons]
    unfold Obj.objAt Obj.evalB
    split <;> simp <;> omega

/-- **Nelder-Mead: history non-increasing, last entry = reported best** (part of the invariant) -/
theorem nm_history [Add R] [Sub R] [Mul R] [Div R] [LinearOrder E] (o : Obj (Pt R) E) (h : Hyp o) (c : Coef R)
    (st : Pt R → Pt R) (hst : ∀ x, o.K (st x) = o.K x) (s : NM R E) (hs : NMInv o s) :
    (((NM.update o c st s).1.stepLog).map Prod.snd).Pairwise (· ≥ ·) ∧
    (NM.update o c st s).1.stepLog.getLast? = (NM.update o c st s).1.simplex.head? :=
  ⟨(NM.update_inv h c st hst s hs).hist, (NM.update_inv h c st hst s hs).lastIsBest⟩

/-! ### the evaluation counter over the solver's whole life (control model `Ctl`) -/

/-- **`Step` changes the evaluation counter exactly by the evaluations its iteration made**, and not at all when
it stops before stepping -/
theorem step_evals (c : Ctl) (tp tq : Bool) (d : Delta) :
    (c.step tp tq d).1.evals = c.evals + (if (c.step tp tq d).2.2 = true then d.dEvals else 0) := by
  rcases C05.step_cases c tp tq d with ⟨m, _, hs⟩ | ⟨_, m, _, hs⟩ | ⟨_, _, hs⟩
  · rw [hs]; simp
  · rw [hs]
    have h1 : (c.after d).finalize.evals = (c.after d).evals := by unfold Ctl.finalize; split <;> rfl
    have h2 : (c.after d).evals = c.evals + d.dEvals := by simp [Ctl.after]
    simp only [h1, h2, if_true]
  · rw [hs]; simp [Ctl.after]

/-- **reconfiguration and restart keep the counter**: `Finalize` (reached through every `Set*` that re-decorates the
objective) and `SetEvaluationLimits` leave the evaluation counter untouched (the F1 repair) -/
theorem finalize_setLimits_keep_evals (c : Ctl) (g e : Option Nat) (new : Bool) :
    c.finalize.evals = c.evals ∧ (c.setLimits g e new).evals = c.evals := by
  constructor
  · unfold Ctl.finalize; split <;> rfl
  · unfold Ctl.setLimits; split <;> rfl

/-- over any sequence of `Step`s the counter is the initial count plus the evaluations of the iterations that ran -/
theorem evals_eq_sum_of_ran :
    ∀ (steps : List (Bool × Bool × Delta)) (c : Ctl),
      (steps.foldl (fun (acc : Ctl × Nat) s =>
          ((acc.1.step s.1 s.2.1 s.2.2).1,
           acc.2 + (if (acc.1.step s.1 s.2.1 s.2.2).2.2 = true then s.2.2.dEvals else 0))) (c, c.evals)).1.evals
      = (steps.foldl (fun (acc : Ctl × Nat) s =>
          ((acc.1.step s.1 s.2.1 s.2.2).1,
           acc.2 + (if (acc.1.step s.1 s.2.1 s.2.2).2.2 = true then s.2.2.dEvals else 0))) (c, c.evals)).2 := by
  intro steps
  suffices h : ∀ (c : Ctl) (n : Nat), c.evals = n →
      (steps.foldl (fun (acc : Ctl × Nat) s =>
          ((acc.1.step s.1 s.2.1 s.2.2).1,
           acc.2 + (if (acc.1.step s.1 s.2.1 s.2.2).2.2 = true then s.2.2.dEvals else 0))) (c, n)).1.evals
      = (steps.foldl (fun (acc : Ctl × Nat) s =>
          ((acc.1.step s.1 s.2.1 s.2.2).1,
           acc.2 + (if (acc.1.step s.1 s.2.1 s.2.2).2.2 = true then s.2.2.dEvals else 0))) (c, n)).2 from
    fun c => h c c.evals rfl
  induction steps with
  | nil => intro c n h; exact h
  | cons s ss ih =>
    intro c n h
    simp only [List.foldl_cons]
    apply ih
    rw [step_evals, h]

/-- non-vacuity: the history of a concrete run really decreases -/
def C04ex : Obj Int Int :=
  { raw := fun x => x * x, pen := fun _ => 0, K := id, inBox := fun _ => true, useRange := false, top := 1000000, add := (· + ·) }
example : ((DE.run1 C04ex [[7, 3], [1, -8], [0, 2]] (DE.init C04ex [7, 3] 7)).stepLog.map Prod.snd) = [9, 1, 0] := by
  decide

/-! ## Powell on the decorated objective (any line-search oracle) -/
open MysticVerif.PowellS

/-- **Powell: the best-energy history (`energy_history`: the step monitor's energies plus the deferred entry of the
iteration in progress) is non-increasing**, given the contract of the line search (`LsMono`: a search never returns
a point worse than its start - Brent's bracket contains `alpha = 0`; checked on every recorded search) -/
theorem pw_history_antitone [Sub R] [Mul R] [LinearOrder E] (o : Obj (Pt R) E) (h : Hyp o) (c : PwCfg R E)
    (ls : Nat → Pt R → Pt R → LsRec R) (hm : LsMono o ls) (record : Bool) (x0 : Pt R) (direc : List (Pt R))
    (hd : direc ≠ []) (n : Nat) : (reach o c ls record x0 direc n).hist.Pairwise (· ≥ ·) :=
  (reach_hist h c ls hm record x0 direc hd n).anti

/-- **Powell: the last history entry is the reported best energy** -/
theorem pw_last_history_is_best [Sub R] [Mul R] [LinearOrder E] (o : Obj (Pt R) E) (c : PwCfg R E)
    (ls : Nat → Pt R → Pt R → LsRec R) (record : Bool) (x0 : Pt R) (direc : List (Pt R)) (n : Nat) :
    (reach o c ls record x0 direc n).hist.getLast? = some (reach o c ls record x0 direc n).fval := by
  have hp : (reach o c ls record x0 direc n).pending = true := by
    unfold reach
    cases n with
    | zero => exact (sweep_stepLog o c ls _).2
    | succ n =>
      have : ∀ (m : Nat) (s : Pw R E), s.pending = true → (run o c ls m s).pending = true := by
        intro m
        induction m with
        | zero => intro s hs; exact hs
        | succ m ih => intro s _; exact ih _ (sweep_stepLog o c ls _).2
      exact this _ _ (sweep_stepLog o c ls _).2
  unfold Pw.hist
  rw [hp]
  simp

/-- **Powell: the evaluation monitor is append-only** over any number of `_Step`s -/
theorem pw_log_prefix [Sub R] [Mul R] [LinearOrder E] (o : Obj (Pt R) E) (c : PwCfg R E)
    (ls : Nat → Pt R → Pt R → LsRec R) (n : Nat) (s : Pw R E) : ∃ t, (run o c ls n s).log = s.log ++ t :=
  run_log_prefix o c ls n s

/-- **Powell: each entry of the evaluation monitor is `(x, cost x)`** -/
theorem pw_evalmon_records [Sub R] [Mul R] [LinearOrder E] (o : Obj (Pt R) E) (h : Hyp o) (c : PwCfg R E)
    (ls : Nat → Pt R → Pt R → LsRec R) (record : Bool) (x0 : Pt R) (direc : List (Pt R)) (hd : direc ≠ []) (n : Nat) :
    ∀ p ∈ (reach o c ls record x0 direc n).log, p.2 = o.raw p.1 := by
  intro p hp
  exact ((reach_inv h c ls record x0 direc hd n).logOK p hp).1

/-- **Powell: exactly one step record per `_Step` at generation >= 2** (the record of an iteration is written by the
NEXT `_Step`, or by `Finalize`: control model `Ctl`, `powell := true`) -/
theorem pw_one_record_per_step [Sub R] [Mul R] [LinearOrder E] (o : Obj (Pt R) E) (c : PwCfg R E)
    (ls : Nat → Pt R → Pt R → LsRec R) (n : Nat) (s : Pw R E) :
    (run o c ls n s).stepLog.length = s.stepLog.length + n :=
  run_stepLog_length o c ls n s

/-- at most one record in the evaluation monitor per call of the decorated cost -/
theorem pw_at_most_one_record_per_call (o : Obj (Pt R) E) (x : Pt R) (log : List (Pt R × E)) :
    (o.objK x log).2.length ≤ log.length + 1 := objK_log_length o x log

end MysticVerif.C04
