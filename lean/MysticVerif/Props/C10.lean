/-
C10 - termination conditions mean what they say, alone and in combination.
Property theorems only (helper lemmas live in Proofs/Termination.lean).
Model: Model/Termination.lean (a literal transcription of mystic/termination.py).

DESIGN.md section 5 / C10 list, status:
  and_iff, or_iff, when_iff            proved (member keys must not collide: `NoCollision`; the collision itself is
                                       `sibling_collision_witness`), any nesting depth: `evalB_eq_den`
  info_only_satisfied                  proved, unconditionally
  info_truthy_iff_eval                 proved (no empty When/And, no colliding keys; `empty_and_witness`)
  rebuild_same                         proved for primitives (type + keyword state determine the closure)
  vtr / cog / ncog / crt / solimp / nct / vtrcog / popspread / evallimits / interrupt / timelimits _spec   proved
  extra: gradnorm_spec (norm = inf), build_den_partial (expressions through the constructors `__new__`),
         when_or_unpacked_witness, cog_negative_tolerance_witness
Deepening (files Props/C10/Grad.lean, Collapse.lean, Keys.lean, imported below):
  gradp_* / approx*                    GradientNormTolerance for every norm, on the solver's gradient or approx_fprime of the raw cost
  collapse_at_spec / collapse_as_spec / collapse_report_iff / collapse_guard      Collapse* as termination conditions
  keyEq_refl / keyEq_ignores_class / keyEq_prim / state_keys_spec                 conditions as dict keys, keys of state()
NOT proved (model + correspondence only): statements about the `'self'` and `'not'` call modes; `and_iff/or_iff` under
the weaker hypothesis "colliding keys are the same object" (e.g. `And(a, a)`); `build_den` for the harmless
unpackings (`When(And(a, b))`, `And(And(a, b))`).
-/
import MysticVerif.Proofs.Termination
import MysticVerif.Props.C10.Grad
import MysticVerif.Props.C10.Collapse
import MysticVerif.Props.C10.Keys
import Mathlib.Tactic.Linarith
import Mathlib.Algebra.Order.Ring.Abs
import Mathlib.Algebra.Order.Field.Rat

namespace MysticVerif.C10
open MysticVerif.Term

section Compound
variable {R : Type} [Add R] [Sub R] [Mul R] [Div R] [Neg R] [LT R] [DecidableLT R] [LE R] [DecidableLE R]
  [BEq R] [OfNat R 0] [OfNat R 2]

/-- members whose dict keys do not collide (`stop` is keyed by the member objects; tuples compare
element-wise whatever their class, see `sibling_collision_witness`) -/
def NoCollision (cs : List (Cond R)) : Prop := cs.Pairwise (fun a b => Cond.keyEq a b = false)

/-- **And.** `And(c1..cn)(solver)` is satisfied iff ALL members are - the members are arbitrary
condition objects, so this is the statement at any nesting depth. -/
theorem and_iff (v : View R) (cs : List (Cond R)) (h : NoCollision cs) :
    (Cond.node .and cs).evalB v = true ↔ ∀ c ∈ cs, c.evalB v = true := by
  simp [Cond.evalB, Kind.isAll, Cond.stop_vals v cs h]

/-- **Or.** `Or(c1..cn)(solver)` is satisfied iff AT LEAST ONE member is. -/
theorem or_iff (v : View R) (cs : List (Cond R)) (h : NoCollision cs) :
    (Cond.node .or cs).evalB v = true ↔ ∃ c ∈ cs, c.evalB v = true := by
  simp [Cond.evalB, Kind.isAll, Cond.stop_vals v cs h]

/-- **When.** `When(c)(solver)` is satisfied iff `c` is. -/
theorem when_iff (v : View R) (c : Cond R) :
    (Cond.node .when [c]).evalB v = true ↔ c.evalB v = true := by
  simp [Cond.evalB, Kind.isAll, Cond.evalBs, mkDict, dictSet, dictVals]

mutual
/-- **Any nesting depth.** A condition object none of whose compounds has colliding member keys evaluates to
the all / any / same reading of its tree. -/
theorem evalB_eq_den (v : View R) : (c : Cond R) → c.Distinct → c.evalB v = c.den v
  | .prim _ _ _, _ => by simp [Cond.evalB, Cond.den]
  | .node k cs, h => by
    have hd : Cond.Distinct (Cond.node k cs) = (cs.Pairwise (fun a b => Cond.keyEq a b = false) ∧ Cond.DistinctL cs) := by
      simp [Cond.Distinct]
    rw [hd] at h
    have hm := evalBs_eq_den v cs h.2
    cases hk : k.isAll
    · have : (Cond.node k cs).evalB v = (cs.map (Cond.evalB v)).any id := by
        simp [Cond.evalB, hk, Cond.stop_vals v cs h.1]
      rw [this, hm]
      simp only [Cond.den, hk, Bool.false_eq_true, if_false]
      rw [Bool.eq_iff_iff, Cond.denAny_iff]; simp
    · have : (Cond.node k cs).evalB v = (cs.map (Cond.evalB v)).all id := by
        simp [Cond.evalB, hk, Cond.stop_vals v cs h.1]
      rw [this, hm]
      simp only [Cond.den, hk, if_true]
      rw [Bool.eq_iff_iff, Cond.denAll_iff]; simp
theorem evalBs_eq_den (v : View R) : (cs : List (Cond R)) → Cond.DistinctL cs →
    cs.map (Cond.evalB v) = cs.map (Cond.den v)
  | [], _ => rfl
  | c :: cs, h => by
    have hd : Cond.DistinctL (c :: cs) = (Cond.Distinct c ∧ Cond.DistinctL cs) := by simp [Cond.DistinctL]
    rw [hd] at h
    simp [evalB_eq_den v c h.1, evalBs_eq_den v cs h.2]
end

/-- what it means for an info atom to name a satisfied primitive of the tree -/
def NamesSatisfied (v : View R) (leaves : List (Nat × Prim R)) (a : Atom) : Prop :=
  ∃ x ∈ leaves, x.2.eval v = true ∧ (a = .doc x.1 ∨ (a = .warn ∧ x.2.out v = .warn))

mutual
/-- **Info names only satisfied members** - unconditionally (whatever the nesting, collisions, empty compounds):
every doc in `condition(solver, info=True)` is the doc of a primitive of the tree that is itself satisfied
(the only other string is the nPop<2 warning of a CandidateRelativeTolerance that returned it). -/
theorem info_only_satisfied (v : View R) : (c : Cond R) → ∀ a ∈ c.info v, NamesSatisfied v c.leaves a
  | .prim o d p => by
    intro a ha
    refine ⟨(d, p), by simp [Cond.leaves], ?_⟩
    simp only [Cond.info] at ha
    cases hp : p.out v <;> simp [hp] at ha
    · subst ha; exact ⟨by simp [Prim.eval, hp, POut.truthy], Or.inl rfl⟩
    · subst ha; exact ⟨by simp [Prim.eval, hp, POut.truthy], Or.inr ⟨rfl, rfl⟩⟩
  | .node k cs => by
    intro a ha
    have hflat : a ∈ (dictVals (mkDict cs (Cond.infos v cs) 0 [])).flatten := by
      simp only [Cond.info] at ha
      split at ha
      · split at ha
        · exact (dedupAtoms_mem a _).mp ha
        · simp at ha
      · exact (dedupAtoms_mem a _).mp ha
    obtain ⟨s, hs, has⟩ := List.mem_flatten.mp hflat
    rcases mkDict_vals_sub cs (Cond.infos v cs) 0 [] s hs with h | h
    · simp [dictVals] at h
    · obtain ⟨x, hx, hx'⟩ := infos_only_satisfied v cs s h a has
      exact ⟨x, by simpa [Cond.leaves] using hx, hx'⟩
theorem infos_only_satisfied (v : View R) : (cs : List (Cond R)) → ∀ s ∈ Cond.infos v cs, ∀ a ∈ s,
    NamesSatisfied v (Cond.leavesL cs) a
  | [] => by simp [Cond.infos]
  | c :: cs => by
    intro s hs a ha
    simp only [Cond.infos, List.mem_cons] at hs
    rcases hs with h | h
    · subst h
      obtain ⟨x, hx, hx'⟩ := info_only_satisfied v c a ha
      exact ⟨x, by simp [Cond.leavesL, hx], hx'⟩
    · obtain ⟨x, hx, hx'⟩ := infos_only_satisfied v cs s h a ha
      exact ⟨x, by simp [Cond.leavesL, hx], hx'⟩
end

mutual
/-- **Info is truthy iff the condition is satisfied**, for trees without empty When/And and without colliding
keys (for `And()` it fails: `empty_and_witness`). -/
theorem info_truthy_iff_eval (v : View R) : (c : Cond R) → c.Distinct → c.NoEmptyAll →
    (c.info v ≠ [] ↔ c.evalB v = true)
  | .prim o d p, _, _ => by
    simp only [Cond.info, Cond.evalB, Prim.eval]
    cases hp : p.out v <;> simp [POut.truthy]
  | .node k cs, hd, hn => by
    have hd' : cs.Pairwise (fun a b => Cond.keyEq a b = false) ∧ Cond.DistinctL cs := by
      simpa [Cond.Distinct] using hd
    have hn' : (k.isAll = true → cs ≠ []) ∧ Cond.NoEmptyAllL cs := by simpa [Cond.NoEmptyAll] using hn
    have ih := infos_truthy_iff_eval v cs hd'.2 hn'.2
    cases hk : k.isAll
    · -- Or
      have e1 : (Cond.node k cs).evalB v = (cs.map (Cond.evalB v)).any id := by
        simp [Cond.evalB, hk, Cond.stop_vals v cs hd'.1]
      have e2 : (Cond.node k cs).info v = dedupAtoms (cs.map (Cond.info v)).flatten := by
        simp [Cond.info, hk, Cond.stop_infos v cs hd'.1]
      rw [e1, e2, dedupAtoms_ne_nil]
      simp only [List.any_map, List.any_eq_true, Function.comp, id]
      constructor
      · intro h
        obtain ⟨a, ha⟩ := List.exists_mem_of_ne_nil _ h
        obtain ⟨s, hs, has⟩ := List.mem_flatten.mp ha
        obtain ⟨c, hc, rfl⟩ := List.mem_map.mp hs
        exact ⟨c, hc, (ih c hc).mp (fun h0 => by rw [h0] at has; simp at has)⟩
      · rintro ⟨c, hc, hcv⟩
        have hne := (ih c hc).mpr hcv
        obtain ⟨a, ha⟩ := List.exists_mem_of_ne_nil _ hne
        intro h0
        have : a ∈ (cs.map (Cond.info v)).flatten := List.mem_flatten.mpr ⟨_, List.mem_map.mpr ⟨c, hc, rfl⟩, ha⟩
        rw [h0] at this; simp at this
    · -- When / And
      have hne : cs ≠ [] := hn'.1 hk
      have e1 : (Cond.node k cs).evalB v = (cs.map (Cond.evalB v)).all id := by
        simp [Cond.evalB, hk, Cond.stop_vals v cs hd'.1]
      have e2 : (Cond.node k cs).info v =
          if (cs.map (Cond.info v)).all (fun s => !s.isEmpty) = true then dedupAtoms (cs.map (Cond.info v)).flatten else [] := by
        simp [Cond.info, hk, Cond.stop_infos v cs hd'.1]
      rw [e1, e2]
      simp only [List.all_map, List.all_eq_true, Function.comp, id]
      constructor
      · intro h c hc
        split at h
        · rename_i hall
          have := hall c hc
          exact (ih c hc).mp (by intro h0; rw [h0] at this; simp at this)
        · exact absurd rfl h
      · intro h
        have hall : ∀ x ∈ cs, (!(Cond.info v x).isEmpty) = true := by
          intro c hc
          have := (ih c hc).mpr (h c hc)
          cases hi : Cond.info v c with
          | nil => exact absurd hi this
          | cons _ _ => rfl
        rw [if_pos hall, dedupAtoms_ne_nil]
        obtain ⟨c, hc⟩ := List.exists_mem_of_ne_nil _ hne
        have hci := (ih c hc).mpr (h c hc)
        obtain ⟨a, ha⟩ := List.exists_mem_of_ne_nil _ hci
        intro h0
        have : a ∈ (cs.map (Cond.info v)).flatten := List.mem_flatten.mpr ⟨_, List.mem_map.mpr ⟨c, hc, rfl⟩, ha⟩
        rw [h0] at this; simp at this
theorem infos_truthy_iff_eval (v : View R) : (cs : List (Cond R)) → Cond.DistinctL cs → Cond.NoEmptyAllL cs →
    ∀ c ∈ cs, (c.info v ≠ [] ↔ c.evalB v = true)
  | [], _, _ => by simp
  | c :: cs, hd, hn => by
    have hd' : Cond.Distinct c ∧ Cond.DistinctL cs := by simpa [Cond.DistinctL] using hd
    have hn' : Cond.NoEmptyAll c ∧ Cond.NoEmptyAllL cs := by simpa [Cond.NoEmptyAllL] using hn
    intro c' hc'
    rcases List.mem_cons.mp hc' with h | h
    · rw [h]; exact info_truthy_iff_eval v c hd'.1 hn'.1
    · exact infos_truthy_iff_eval v cs hd'.2 hn'.2 c' h
end

end Compound

/-! ## expressions as written: `When(e)`, `And(*es)`, `Or(*es)` through the constructors -/

section Build
variable {R : Type}

variable [Add R] [Sub R] [Mul R] [Div R] [Neg R] [LT R] [DecidableLT R] [LE R] [DecidableLE R]
  [BEq R] [OfNat R 0] [OfNat R 2]

private theorem build_many (k : Kind) (e1 e2 : Expr R) (es : List (Expr R)) :
    (match Expr.builds (e1 :: e2 :: es) with
     | [a] => wrapSingle k a
     | as => Cond.node k as) = Cond.node k (Expr.builds (e1 :: e2 :: es)) := by
  simp [Expr.builds]

mutual
private theorem build_hom (v : View R) : (e : Expr R) → e.Plain → (e.build).den v = e.den v
  | .prim _ _ _, _ => by simp [Expr.build, Cond.den, Expr.den]
  | .when e, h => by
    cases e with
    | prim o d p => simp [Expr.build, wrapSingle, Cond.den, Cond.denAll, Expr.den, Kind.isAll]
    | when e => simp [Expr.Plain, Expr.isPrim] at h
    | and es => simp [Expr.Plain, Expr.isPrim] at h
    | or es => simp [Expr.Plain, Expr.isPrim] at h
  | .and es, h => by
    have h' : (∀ e, es = [e] → e.isPrim = true) ∧ Expr.PlainL es := by simpa [Expr.Plain] using h
    match es, h' with
    | [], _ => simp [Expr.build, Expr.builds, Cond.den, Cond.denAll, Expr.den, Expr.denAll, Kind.isAll]
    | [e], h' =>
      cases e with
      | prim o d p => simp [Expr.build, Expr.builds, wrapSingle, Cond.den, Cond.denAll, Expr.den, Expr.denAll, Kind.isAll]
      | when e => have := h'.1 _ rfl; simp [Expr.isPrim] at this
      | and es => have := h'.1 _ rfl; simp [Expr.isPrim] at this
      | or es => have := h'.1 _ rfl; simp [Expr.isPrim] at this
    | e1 :: e2 :: es, h' =>
      have ih := builds_hom v (e1 :: e2 :: es) h'.2
      simp only [Expr.build, build_many, Cond.den, Kind.isAll, if_true, Expr.den]
      exact ih.1
  | .or es, h => by
    have h' : (∀ e, es = [e] → e.isPrim = true) ∧ Expr.PlainL es := by simpa [Expr.Plain] using h
    match es, h' with
    | [], _ => simp [Expr.build, Expr.builds, Cond.den, Cond.denAny, Expr.den, Expr.denAny, Kind.isAll]
    | [e], h' =>
      cases e with
      | prim o d p => simp [Expr.build, Expr.builds, wrapSingle, Cond.den, Cond.denAny, Expr.den, Expr.denAny, Kind.isAll]
      | when e => have := h'.1 _ rfl; simp [Expr.isPrim] at this
      | and es => have := h'.1 _ rfl; simp [Expr.isPrim] at this
      | or es => have := h'.1 _ rfl; simp [Expr.isPrim] at this
    | e1 :: e2 :: es, h' =>
      have ih := builds_hom v (e1 :: e2 :: es) h'.2
      simp only [Expr.build, build_many, Cond.den, Kind.isAll, Bool.false_eq_true, if_false, Expr.den]
      exact ih.2
private theorem builds_hom (v : View R) : (es : List (Expr R)) → Expr.PlainL es →
    Cond.denAll v (Expr.builds es) = Expr.denAll v es ∧ Cond.denAny v (Expr.builds es) = Expr.denAny v es
  | [], _ => by simp [Expr.builds, Cond.denAll, Cond.denAny, Expr.denAll, Expr.denAny]
  | e :: es, h => by
    have h' : Expr.Plain e ∧ Expr.PlainL es := by simpa [Expr.PlainL] using h
    have i1 := build_hom v e h'.1
    have i2 := builds_hom v es h'.2
    simp [Expr.builds, Cond.denAll, Cond.denAny, Expr.denAll, Expr.denAny, i1, i2.1, i2.2]
end

/-- **Expressions as written (partial).**  Full statement wanted: `(e.build).evalB v = e.den v` for EVERY expression
`e` (And = all, Or = any, When = same, to any depth).  It is false on the code as it is
(`when_or_unpacked_witness`, `sibling_collision_witness`).  Proved: it holds whenever every single-argument
compound wraps a primitive and no compound of the constructed object has colliding member keys. -/
theorem build_den_partial (v : View R) (e : Expr R) (hp : e.Plain) (hd : (e.build).Distinct) :
    (e.build).evalB v = e.den v := by
  rw [evalB_eq_den v _ hd, build_hom v e hp]

end Build

/-! ## rebuilding from the reported state -/

section Rebuild
variable {R : Type}

/-- the parts of a primitive's closure that its doc does not report: the factory's own constant (`eta` of
NormalizedChangeOverGeneration, the module constant `_epsilon` of GradientNormTolerance) and the timer readings at construction (TimeLimits) -/
def SameInternals (p : Prim R) (eta s0 s1 s2 : R) : Prop :=
  match p with
  | .ncog _ _ e => e = eta
  | .gradnormP _ _ e => e = eta
  | .timelimits _ _ a b c => a = s0 ∧ b = s1 ∧ c = s2
  | _ => True

/-- **Rebuilt from type and state.** `type(c)(**state(c)[doc])` - the factory found by name, called with the
keyword settings reported in the doc - is the SAME primitive (hence behaves identically on every solver), the
factory constant and the construction-time clock readings being equal. -/
theorem rebuild_same (p : Prim R) (eta s0 s1 s2 : R) (h : SameInternals p eta s0 s1 s2) :
    Prim.make p.kind p.state eta s0 s1 s2 = some p := by
  cases p <;> first
    | rfl
    | (simp only [SameInternals] at h; subst h; rfl)
    | (simp only [SameInternals] at h; obtain ⟨rfl, rfl, rfl⟩ := h; rfl)

end Rebuild

/-! ## the primitive conditions: coded test ↔ documented inequality

`K` is an arbitrary linearly ordered field; Python indexing `hist[i]` is `pyGet? hist i`
(`pyGet?_zero`: `hist[-0]` is the FIRST entry; `pyGet?_neg`: `hist[-g] = hist[len-g]` for `0 < g ≤ len`;
`pyGet?_last`: `hist[-1]` is the last entry). -/

private theorem eval_eq_test {R : Type} [Add R] [Sub R] [Mul R] [Div R] [Neg R] [LT R] [DecidableLT R] [LE R] [DecidableLE R]
    [BEq R] [OfNat R 0] [OfNat R 2] (v : View R) (p : Prim R) (h : p.warns v = false) : p.eval v = p.test v := by
  unfold Prim.eval Prim.out
  rw [h]
  cases p.test v <;> simp [POut.truthy]

set_option linter.unusedSectionVars false

section Prims
variable {K : Type} [Field K] [LinearOrder K] [IsStrictOrderedRing K]

/-- the look-back pair exists exactly when the window fits: `0 ≤ g < len` -/
private theorem window_some (hist : List K) (g : Int) (h0 : 0 ≤ g) (hg : g < hist.length) :
    ∃ a b, pyGet? hist (-g) = some a ∧ pyGet? hist (-1) = some b ∧ window hist g = some (a, b) := by
  obtain ⟨a, ha⟩ := pyGet?_isSome hist (-g) (by omega) (by omega)
  obtain ⟨b, hb⟩ := pyGet?_isSome hist (-1) (by omega) (by omega)
  exact ⟨a, b, ha, hb, by simp [window, ha, hb]⟩

/-- **VTR**: satisfied iff the history is non-empty and `|cost[-1] - target| ≤ tolerance`. -/
theorem vtr_spec (v : View K) (tol tgt : K) :
    (Prim.vtr tol tgt).eval v = true ↔ ∃ last, v.hist.getLast? = some last ∧ |last - tgt| ≤ tol := by
  rw [eval_eq_test v _ rfl]
  simp only [Prim.test]
  cases v.hist.getLast? with
  | none => simp
  | some last => simp [absR_eq_abs]

/-- **ChangeOverGeneration** (`0 ≤ tolerance`, window `g ≥ 0`): satisfied iff the window fits (`g < len`) and
`cost[-g] - cost[-1] ≤ tolerance` (`cost[-0]` is `cost[0]`).  For a negative tolerance the `==` shortcut breaks
this: `cog_negative_tolerance_witness`. -/
theorem cog_spec (v : View K) (tol : K) (g : Int) (hg : 0 ≤ g) (ht : 0 ≤ tol) :
    (Prim.cog tol (some g)).eval v = true ↔
      g < v.hist.length ∧ ∃ a b, pyGet? v.hist (-g) = some a ∧ pyGet? v.hist (-1) = some b ∧ a - b ≤ tol := by
  rw [eval_eq_test v _ rfl]
  show (if v.hist.length = 0 then false else if (v.hist.length : Int) ≤ g then false
        else changeTest tol (window v.hist g)) = true ↔ _
  by_cases hl : (v.hist.length : Int) ≤ g
  · have hlhs : (if v.hist.length = 0 then false else if (v.hist.length : Int) ≤ g then false
        else changeTest tol (window v.hist g)) = false := by
      by_cases h0 : v.hist.length = 0 <;> simp [h0, hl]
    rw [hlhs]
    constructor
    · intro h; exact absurd h (by simp)
    · rintro ⟨h, _⟩; omega
  · have hlt : g < (v.hist.length : Int) := by omega
    have h0 : v.hist.length ≠ 0 := by omega
    obtain ⟨a, b, ha, hb, hw⟩ := window_some v.hist g hg hlt
    simp only [h0, hl, if_false, hw, changeTest, ha, hb, hlt, true_and, Option.some.injEq, exists_and_left,
      exists_eq_left', Bool.or_eq_true, decide_eq_true_eq, beq_iff_eq]
    constructor
    · rintro (h | h)
      · exact h
      · rw [h, sub_self]; exact ht
    · exact fun h => Or.inl h

/-- `generations=None` is a window of 0 (reads the first entry) -/
theorem cog_none (v : View K) (tol : K) : (Prim.cog tol none).eval v = (Prim.cog tol (some 0)).eval v := by
  simp [Prim.eval, Prim.out, Prim.warns, Prim.test, gensOf]

private theorem window_test (hist : List K) (g : Int) (h0 : 0 ≤ g) (T : Option (K × K) → Bool) :
    (g < hist.length ∧ T (window hist g) = true) ↔
      g < hist.length ∧ ∃ a b, pyGet? hist (-g) = some a ∧ pyGet? hist (-1) = some b ∧ T (some (a, b)) = true := by
  constructor
  · rintro ⟨hg, hT⟩
    obtain ⟨a, b, ha, hb, hw⟩ := window_some hist g h0 hg
    exact ⟨hg, a, b, ha, hb, by rw [← hw]; exact hT⟩
  · rintro ⟨hg, a, b, ha, hb, hT⟩
    exact ⟨hg, by simpa [window, ha, hb] using hT⟩

private theorem changeTest_iff (tol a b : K) (ht : 0 ≤ tol) : changeTest tol (some (a, b)) = true ↔ a - b ≤ tol := by
  simp only [changeTest, Bool.or_eq_true, decide_eq_true_eq, beq_iff_eq]
  constructor
  · rintro (h | h)
    · exact h
    · rw [h, sub_self]; exact ht
  · exact fun h => Or.inl h

private theorem nchangeTest_iff (tol eta a b : K) (ht : 0 ≤ tol) (he : 0 ≤ eta) :
    nchangeTest tol eta (some (a, b)) = true ↔ 2 * (a - b) ≤ tol * (|a| + |b|) + eta := by
  simp only [nchangeTest, Bool.or_eq_true, decide_eq_true_eq, beq_iff_eq, absR_eq_abs]
  constructor
  · rintro (h | h)
    · rw [h, sub_self, mul_zero]
      have : 0 ≤ tol * (|b| + |b|) := mul_nonneg ht (by positivity)
      linarith
    · exact h
  · exact fun h => Or.inr h

/-- **NormalizedChangeOverGeneration** (`0 ≤ tolerance`, `0 ≤ eta`, window `g ≥ 0`): satisfied iff the window fits
and `2 (cost[-g] - cost[-1]) ≤ tolerance (|cost[-g]| + |cost[-1]|) + eta`, i.e. the documented normalized change
`(cost[-g]-cost[-1]) / (0.5 (|cost[-g]|+|cost[-1]|)) ≤ tolerance` up to the guard `eta = 1e-20`. -/
theorem ncog_spec (v : View K) (tol eta : K) (g : Int) (hg : 0 ≤ g) (ht : 0 ≤ tol) (he : 0 ≤ eta) :
    (Prim.ncog tol (some g) eta).eval v = true ↔
      g < v.hist.length ∧ ∃ a b, pyGet? v.hist (-g) = some a ∧ pyGet? v.hist (-1) = some b ∧
        2 * (a - b) ≤ tol * (|a| + |b|) + eta := by
  rw [eval_eq_test v _ rfl]
  show (if v.hist.length = 0 then false else if (v.hist.length : Int) ≤ g then false
        else nchangeTest tol eta (window v.hist g)) = true ↔ _
  have key := window_test v.hist g hg (nchangeTest tol eta)
  simp only [nchangeTest_iff _ _ _ _ ht he] at key
  rw [← key]
  by_cases hl : (v.hist.length : Int) ≤ g
  · have : ¬ g < (v.hist.length : Int) := by omega
    by_cases h0 : v.hist.length = 0
    · simp only [h0, if_true]
      constructor
      · intro h; exact absurd h (by simp)
      · rintro ⟨h, _⟩; simp at h; omega
    · simp [h0, hl, this]
  · have hlt : g < (v.hist.length : Int) := by omega
    have h0 : v.hist.length ≠ 0 := by omega
    simp [h0, hl, hlt]

/-- **NormalizedCostTarget without `fval`, window `g > 0`**: satisfied iff the window fits and there was no
improvement over it, `cost[-g] - cost[-1] ≤ 0`. -/
theorem nct_spec_window (v : View K) (tol : K) (g : Int) (hg : 0 < g) :
    (Prim.nct none tol (some g)).eval v = true ↔
      g < v.hist.length ∧ ∃ a b, pyGet? v.hist (-g) = some a ∧ pyGet? v.hist (-1) = some b ∧ a - b ≤ 0 := by
  rw [eval_eq_test v _ rfl]
  have key := window_test v.hist g (le_of_lt hg) (changeTest 0)
  simp only [changeTest_iff _ _ _ (le_refl (0 : K))] at key
  rw [← key]
  have hne : g ≠ 0 := by omega
  show (match v.hist.getLast? with
        | none => false
        | some _ => if g ≠ 0 then (if g < (v.hist.length : Int) then changeTest 0 (window v.hist g) else false) else true)
        = true ↔ _
  cases hlast : v.hist.getLast? with
  | none =>
    have : v.hist = [] := by simpa using hlast
    simp [this]; omega
  | some last =>
    by_cases hlt : g < (v.hist.length : Int) <;> simp [hne, hlt]

/-- **NormalizedCostTarget without `fval` and without window** (`generations` 0 or None): satisfied as soon as
there is a history. -/
theorem nct_spec_nowindow (v : View K) (tol : K) :
    ((Prim.nct none tol (some 0)).eval v = true ↔ v.hist ≠ []) ∧
    ((Prim.nct none tol none).eval v = true ↔ v.hist ≠ []) := by
  constructor <;>
  · rw [eval_eq_test v _ rfl]
    simp only [Prim.test, gensOf]
    cases hlast : v.hist.getLast? with
    | none => have : v.hist = [] := by simpa using hlast
              simp [this]
    | some last => have : v.hist ≠ [] := by intro h; simp [h] at hlast
                   simp [this]

/-- **NormalizedCostTarget with `fval`** (`0 ≤ tolerance`): satisfied iff `|cost[-1] - fval| ≤ tolerance |fval|`. -/
theorem nct_spec (v : View K) (fval tol : K) (g : Option Int) (ht : 0 ≤ tol) :
    (Prim.nct (some fval) tol g).eval v = true ↔ ∃ last, v.hist.getLast? = some last ∧ |last - fval| ≤ tol * |fval| := by
  rw [eval_eq_test v _ rfl]
  simp only [Prim.test]
  cases v.hist.getLast? with
  | none => simp
  | some last => simp [absR_eq_abs, abs_mul, abs_of_nonneg ht]

/-- **VTRChangeOverGeneration** (`0 ≤ gtol`, window `g ≥ 0`): satisfied iff the history is non-empty and
(the window fits and `cost[-g] - cost[-1] ≤ gtol`) or `|cost[-1] - target| ≤ ftol`. -/
theorem vtrcog_spec (v : View K) (ftol gtol tgt : K) (g : Int) (hg : 0 ≤ g) (ht : 0 ≤ gtol) :
    (Prim.vtrcog ftol gtol (some g) tgt).eval v = true ↔
      ∃ last, v.hist.getLast? = some last ∧
        ((g < v.hist.length ∧ ∃ a b, pyGet? v.hist (-g) = some a ∧ pyGet? v.hist (-1) = some b ∧ a - b ≤ gtol)
          ∨ |last - tgt| ≤ ftol) := by
  rw [eval_eq_test v _ rfl]
  have key := window_test v.hist g hg (changeTest gtol)
  simp only [changeTest_iff _ _ _ ht] at key
  rw [← key]
  show (match v.hist.getLast? with
        | none => false
        | some last => (decide (g < (v.hist.length : Int)) && changeTest gtol (window v.hist g))
            || decide (absR (last - tgt) ≤ ftol)) = true ↔ _
  cases v.hist.getLast? with
  | none => simp
  | some last => simp [absR_eq_abs]

/-- **TimeLimits**: satisfied iff the elapsed time of the selected timer is at least `|seconds|`. -/
theorem timelimits_spec (v : View K) (seconds s0 s1 s2 : K) :
    ((Prim.timelimits seconds none s0 s1 s2).eval v = true ↔ |seconds| ≤ v.tTime - s0) ∧
    ((Prim.timelimits seconds (some true) s0 s1 s2).eval v = true ↔ |seconds| ≤ v.tPerf - s1) ∧
    ((Prim.timelimits seconds (some false) s0 s1 s2).eval v = true ↔ |seconds| ≤ v.tProc - s2) := by
  refine ⟨?_, ?_, ?_⟩ <;>
  · rw [eval_eq_test v _ rfl]
    simp [Prim.test, absR_eq_abs]

private theorem mem_zipWith_iff {α β γ : Type} (f : α → β → γ) (d : γ) : ∀ (l1 : List α) (l2 : List β),
    d ∈ List.zipWith f l1 l2 ↔ ∃ p ∈ l1.zip l2, d = f p.1 p.2
  | [], _ => by simp
  | _ :: _, [] => by simp
  | a :: l1, b :: l2 => by
    simp only [List.zipWith_cons_cons, List.mem_cons, List.zip_cons_cons, mem_zipWith_iff f d l1 l2]
    constructor
    · rintro (h | ⟨p, hp, h⟩)
      · exact ⟨(a, b), Or.inl rfl, h⟩
      · exact ⟨p, Or.inr hp, h⟩
    · rintro ⟨p, hp | hp, h⟩
      · subst hp; exact Or.inl h
      · exact Or.inr ⟨p, hp, h⟩

/-- **CandidateRelativeTolerance** with at least two candidates (and a non-degenerate population): satisfied iff
every coordinate of every other candidate is within `xtol` of the first and every other energy within `ftol`. -/
theorem crt_spec (v : View K) (xtol ftol : K) (x0 : List K) (rest : List (List K)) (f0 : K) (fs : List K)
    (hp : v.pop = x0 :: rest) (he : v.popE = f0 :: fs) (hfs : fs ≠ []) (hd : crtDiffs v.pop ≠ []) :
    (Prim.crt xtol ftol).eval v = true ↔
      (∀ row ∈ rest, ∀ p ∈ row.zip x0, |p.1 - p.2| ≤ xtol) ∧ (∀ fi ∈ fs, |f0 - fi| ≤ ftol) := by
  have hw : (Prim.crt xtol ftol).warns v = false := by
    cases fs with
    | nil => exact absurd rfl hfs
    | cons a t => simp [Prim.warns, he]
  rw [eval_eq_test v _ hw]
  simp only [Prim.test, Bool.and_eq_true, leOpt_pyMax]
  have hfd : crtFDiffs v.popE ≠ [] := by
    cases fs with
    | nil => exact absurd rfl hfs
    | cons a t => simp [crtFDiffs, he]
  simp only [ne_eq, hd, not_false_eq_true, true_and, hfd]
  rw [hp, he]
  simp only [crtDiffs, crtFDiffs, List.mem_flatten, List.mem_map, absR_eq_abs]
  constructor
  · rintro ⟨h1, h2⟩
    refine ⟨fun row hrow p hp' => ?_, fun fi hfi => h2 _ ⟨fi, hfi, rfl⟩⟩
    exact h1 _ ⟨_, ⟨row, hrow, rfl⟩, (mem_zipWith_iff _ _ _ _).mpr ⟨p, hp', rfl⟩⟩
  · rintro ⟨h1, h2⟩
    refine ⟨?_, ?_⟩
    · rintro d ⟨l, ⟨row, hrow, rfl⟩, hdl⟩
      obtain ⟨p, hp', rfl⟩ := (mem_zipWith_iff _ _ _ _).mp hdl
      exact h1 row hrow p hp'
    · rintro d ⟨fi, hfi, rfl⟩
      exact h2 fi hfi

/-- with fewer than two candidates CandidateRelativeTolerance returns its (truthy) warning: nothing to compare -/
theorem crt_spec_warn (v : View K) (xtol ftol : K) (h : v.popE.length < 2) :
    (Prim.crt xtol ftol).eval v = true ∧ (Prim.crt xtol ftol).out v = .warn := by
  simp [Prim.eval, Prim.out, Prim.warns, h, POut.truthy]

/-- **SolutionImprovement**, one trial vector: satisfied iff `sum |best_i - trial_i| ≤ tolerance`;
a trial population: iff that holds for every trial vector. -/
theorem solimp_spec (v : View K) (tol : K) :
    (v.trial2d = false → ∀ row rest, v.trial = row :: rest →
      ((Prim.solimp tol).eval v = true ↔ (List.zipWith (fun b t => |b - t|) v.best row).sum ≤ tol)) ∧
    (v.trial2d = true → v.trial ≠ [] →
      ((Prim.solimp tol).eval v = true ↔ ∀ row ∈ v.trial, (List.zipWith (fun b t => |b - t|) v.best row).sum ≤ tol)) := by
  constructor
  · intro h2 row rest ht
    rw [eval_eq_test v _ rfl]
    simp [Prim.test, h2, ht, addReduce_eq_sum, absR_eq_abs]
  · intro h2 hne
    rw [eval_eq_test v _ rfl]
    simp only [Prim.test, h2, if_true, leOpt_pyMax, solimpSums, addReduce_eq_sum, absR_eq_abs]
    simp [hne]

/-- **PopulationSpread** (`0 ≤ tolerance`): satisfied iff every coordinate of every candidate deviates from the
first candidate's by at most `tolerance` times its magnitude (the "normalized absolute deviation"). -/
theorem popspread_spec (v : View K) (tol : K) (x0 : List K) (rest : List (List K)) (hp : v.pop = x0 :: rest)
    (ht : 0 ≤ tol) :
    (Prim.popspread tol).eval v = true ↔ ∀ row ∈ v.pop, ∀ p ∈ row.zip x0, |p.1 - p.2| ≤ tol * |p.2| := by
  rw [eval_eq_test v _ rfl]
  simp only [Prim.test, popspreadAll, hp, List.all_eq_true, absR_eq_abs, abs_mul, abs_of_nonneg ht]
  constructor
  · intro h row hrow p hp'
    have := h row hrow _ ((mem_zipWith_iff _ _ row x0).mpr ⟨p, hp', rfl⟩)
    simpa using this
  · intro h row hrow d hd
    obtain ⟨p, hp', rfl⟩ := (mem_zipWith_iff _ _ row x0).mp hd
    simpa using h row hrow p hp'

/-- **GradientNormTolerance** (`norm = inf`, non-empty gradient): satisfied iff `max |g_i| ≤ tolerance`. -/
theorem gradnorm_spec (v : View K) (tol : K) (hg : v.grad ≠ []) :
    (Prim.gradnorm tol).eval v = true ↔ ∀ g ∈ v.grad, |g| ≤ tol := by
  rw [eval_eq_test v _ rfl]
  simp [Prim.test, leOpt_npMax, hg, absR_eq_abs]

end Prims

section Counters
variable {R : Type} [Add R] [Sub R] [Mul R] [Div R] [Neg R] [LT R] [DecidableLT R] [LE R] [DecidableLE R]
  [BEq R] [OfNat R 0] [OfNat R 2]

/-- **EvaluationLimits**: satisfied iff `fcalls ≥ evaluations` or `iterations ≥ generations`, a limit of `None`
never being reached. -/
theorem evallimits_spec (v : View R) (gens evals : Option Int) :
    (Prim.evallimits (R := R) gens evals).eval v = true ↔
      (∃ m, evals = some m ∧ m ≤ v.fcalls) ∨ (∃ m, gens = some m ∧ m ≤ v.gens) := by
  rw [eval_eq_test v _ rfl]
  cases evals <;> cases gens <;> simp [Prim.test, geLim]

/-- **SolverInterrupt**: satisfied iff `_EARLYEXIT` is set. -/
theorem interrupt_spec (v : View R) : (Prim.interrupt (R := R)).eval v = true ↔ v.earlyExit = true := by
  rw [eval_eq_test v _ rfl]
  simp [Prim.test]

end Counters

/-! ### the ways the full claim fails on the code as it is (closed terms, evaluated by the kernel)

History `[5, 1, 1]`; `a = VTR(0, 1)` is satisfied, `b = VTR(0, 5)` is not. -/

section Witnesses

def wv : View Int :=
  { hist := [5, 1, 1], pop := [], popE := [], best := [], trial := [], trial2d := false, grad := [],
    gens := 3, fcalls := 7, earlyExit := false, tTime := 0, tPerf := 0, tProc := 0 }
def wa : Expr Int := .prim 0 0 (.vtr 0 1)
def wb : Expr Int := .prim 1 1 (.vtr 0 5)

/-- the two primitives really have different verdicts (non-vacuity of the witnesses below) -/
example : wa.den wv = true ∧ wb.den wv = false := by decide

/-- **D1 (known finding): a single compound argument is unpacked.** `When(Or(a, b))` becomes the tuple `(a, b)` of
class `When`, which aggregates with `all`: it is NOT satisfied although `Or(a, b)` is.  Likewise `And(Or(a, b))`
evaluates as `And(a, b)` and `Or(And(a, b))` as `Or(a, b)`.  (`__new__`, l.76-81 / l.122-126 / l.146-150) -/
theorem when_or_unpacked_witness :
    ((Expr.when (.or [wa, wb])).build.evalB wv = false ∧ (Expr.when (.or [wa, wb])).den wv = true)
    ∧ ((Expr.and [.or [wa, wb]]).build.evalB wv = false ∧ (Expr.and [.or [wa, wb]]).den wv = true)
    ∧ ((Expr.or [.and [wa, wb]]).build.evalB wv = true ∧ (Expr.or [.and [wa, wb]]).den wv = false) := by
  decide

/-- **D2 (known finding): sibling tuples with equal members collide as dict keys.** In `And(And(a, b), Or(a, b))`
the entry of `And(a, b)` in `stop` is overwritten by the value of `Or(a, b)` (tuple equality and hash ignore the
class), so the condition is satisfied although its member `And(a, b)` is not. (l.96) -/
theorem sibling_collision_witness :
    (Expr.and [.and [wa, wb], .or [wa, wb]]).build.evalB wv = true
    ∧ (Expr.and [wa, wb]).build.evalB wv = false
    ∧ (Expr.and [.and [wa, wb], .or [wa, wb]]).den wv = false := by
  decide

/-- **F12 (known finding): `And()` is satisfied but its info is empty (falsy)**, also one level down, and
`condition(solver, 'self')` is the empty tuple. (l.97-103) -/
theorem empty_and_witness :
    (Expr.and []).build.evalB wv = true ∧ (Expr.and []).build.info wv = []
    ∧ (Expr.and []).build.selfRes wv = []
    ∧ (Expr.and [.and [], wa]).build.evalB wv = true ∧ (Expr.and [.and [], wa]).build.info wv = [] := by
  decide

/-- **F12 (known finding): negative tolerance and the `==` shortcut.** On the plateau `[2, 2]`,
`ChangeOverGeneration(tolerance=-1, generations=1)` is satisfied although `cost[-1] - cost[-1] <= -1` is false. (l.214) -/
theorem cog_negative_tolerance_witness :
    let v : View Int := { wv with hist := [2, 2] }
    (Prim.cog (-1) (some 1)).eval v = true ∧ ¬ ((2 : Int) - 2 ≤ -1) := by
  decide

end Witnesses

/-! ### non-vacuity: the hypotheses of the theorems are met by concrete, non-trivial instances -/

section NonVacuity

/-- `And(a, Or(a, b))` (shared primitive `a`, depth 2): no colliding keys, no empty compound, plain - and the
theorems' conclusions are not trivial on it (`a` satisfied, `b` not). -/
def wt : Expr Int := .and [wa, .or [wa, wb]]
example : wt.Plain := by simp [wt, wa, wb, Expr.Plain, Expr.PlainL, Expr.isPrim]
private theorem nc_example : NoCollision [wa.build, (Expr.or [wa, wb]).build] := by
  refine List.Pairwise.cons (fun x hx => ?_) (List.Pairwise.cons (fun x hx => ?_) List.Pairwise.nil)
  · rw [List.mem_singleton] at hx; subst hx; rfl
  · exact absurd hx (by simp)
private theorem nc_example2 : NoCollision [wa.build, wb.build] := by
  refine List.Pairwise.cons (fun x hx => ?_) (List.Pairwise.cons (fun x hx => ?_) List.Pairwise.nil)
  · rw [List.mem_singleton] at hx; subst hx; rfl
  · exact absurd hx (by simp)
example : NoCollision [wa.build, (Expr.or [wa, wb]).build] := nc_example
example : (wt.build).Distinct := by
  show Cond.Distinct (Cond.node .and [wa.build, (Expr.or [wa, wb]).build])
  simp only [Cond.Distinct, Cond.DistinctL]
  refine ⟨nc_example, ?_, ?_, trivial⟩
  · show Cond.Distinct (Cond.prim 0 0 (.vtr 0 1)); simp only [Cond.Distinct]
  · show Cond.Distinct (Cond.node .or [wa.build, wb.build])
    simp only [Cond.Distinct, Cond.DistinctL]
    refine ⟨nc_example2, ?_, ?_, trivial⟩
    · show Cond.Distinct (Cond.prim 0 0 (.vtr 0 1)); simp only [Cond.Distinct]
    · show Cond.Distinct (Cond.prim 1 1 (.vtr 0 5)); simp only [Cond.Distinct]
example : (wt.build).NoEmptyAll := by
  show Cond.NoEmptyAll (Cond.node .and [Cond.prim 0 0 (.vtr 0 1), Cond.node .or [Cond.prim 0 0 (.vtr 0 1), Cond.prim 1 1 (.vtr 0 5)]])
  simp [Cond.NoEmptyAll, Cond.NoEmptyAllL]
example : wt.build.evalB wv = true ∧ wt.build.info wv = [.doc 0] ∧ (Expr.and [wb, wa]).build.evalB wv = false
    ∧ (Expr.or [wb, wa]).build.info wv = [.doc 0] := by decide
/-- windows on the history `[5, 1, 1]`: `g = 0` reads the FIRST entry (5 - 1 > 1), `g = 2` the plateau, `g = 3 = len`
does not fit -/
example : (Prim.cog (1 : Int) (some 0)).eval wv = false ∧ (Prim.cog (1 : Int) (some 2)).eval wv = true
    ∧ (Prim.cog (1 : Int) (some 3)).eval wv = false ∧ (Prim.cog (1 : Int) none).eval wv = false
    ∧ (Prim.nct none (0 : Int) (some 2)).eval wv = true ∧ (Prim.nct none (0 : Int) (some 1)).eval wv = true := by decide
/-- the field hypotheses (`0 ≤ tol`, `0 ≤ g`) over `ℚ`: the window `g = 2` of `[5, 1, 1]` is satisfied through
`cog_spec` itself -/
example : ∃ (v : View ℚ) (tol : ℚ) (g : Int), 0 ≤ g ∧ 0 ≤ tol ∧ (Prim.cog tol (some g)).eval v = true :=
  ⟨{ hist := [5, 1, 1], pop := [], popE := [], best := [], trial := [], trial2d := false, grad := [],
     gens := 3, fcalls := 7, earlyExit := false, tTime := 0, tPerf := 0, tProc := 0 }, 1, 2,
   by decide, by norm_num,
   (cog_spec _ 1 2 (by decide) (by norm_num)).mpr ⟨by decide, 1, 1, rfl, rfl, by norm_num⟩⟩
example : SameInternals (Prim.ncog (1 : Int) (some 2) 7) 7 0 0 0 ∧ SameInternals (Prim.vtr (1 : Int) 2) 7 0 0 0 :=
  ⟨rfl, trivial⟩

end NonVacuity

end MysticVerif.C10
