/-
C18, second deepening - the point-to-point metrics of distance.py WITH their shape logic (`absolute_distance` l.41:
`dmin` promotion, `pair`, transposes / `newaxis` slices, broadcasting; reduction along `axis`): for each documented
calling form the entry of the result addressed by a pair of points is the textbook metric of THAT pair
(`chebyshev`, `hamming`, `minkowski C p` of Model/Measures.lean, whose textbook characterisations are `chebyshev_def`,
`hamming_def`, `minkowski_pow`, `euclidean_sq`, `manhattan_def` in Props/C18.lean; euclidean / manhattan are
`minkowski` with `p = 2 / 1`, l.212, l.234).
Arrays are `NArr` = shape + index function; `row g d i` is the `i`-th point of a 2-D array with `d` coordinates,
`vec g d` a 1-D array read as one point.  `fin` is `isfinite` (the overflow fall-back of l.187 cannot fire in a field).
-/
import MysticVerif.Proofs.DistanceX

set_option linter.unusedSectionVars false

namespace MysticVerif.C18
open MysticVerif.Meas

variable {K : Type} [Field K] [LinearOrder K] [IsStrictOrderedRing K]

/-- **pair=False, axis=0 (the documented common usage), two 2-D arrays of `n` resp. `m` points with `d ≥ 1`
coordinates, any `dmin ≤ 2`**: the result is the `n × m` matrix of the metric between point `i` of `x` and point `j`
of `x'`. -/
theorem metrics_matrix_def (C : Consts K) (fin : K → Bool) (hfin : ∀ x, fin x = true) (gx gy : List Nat → K)
    (n m d dmin p : Nat) (hdm : dmin ≤ 2) (hd : 0 < d) (hp : p ≠ 0) :
    (∃ R, chebyshevA ⟨[n, d], gx⟩ ⟨[m, d], gy⟩ false dmin (some 0) = DRes.ok R ∧ R.shape = [n, m] ∧
      ∀ i j, i < n → j < m → R.get [i, j] = chebyshev (row gx d i) (row gy d j)) ∧
    (∃ R, hammingA ⟨[n, d], gx⟩ ⟨[m, d], gy⟩ false dmin (some 0) = DRes.ok R ∧ R.shape = [n, m] ∧
      ∀ i j, i < n → j < m → R.get [i, j] = hamming (row gx d i) (row gy d j)) ∧
    (∃ R, minkowskiA C fin ⟨[n, d], gx⟩ ⟨[m, d], gy⟩ false dmin p (some 0) = DRes.ok R ∧ R.shape = [n, m] ∧
      ∀ i j, i < n → j < m → R.get [i, j] = minkowski C p (row gx d i) (row gy d j)) := by
  obtain ⟨D, hD, hsh, hget⟩ := absDist_matrix gx gy n m d dmin hdm
  have hax : resolveAxis D.ndim (some 0) = some (some 0) := by simp [resolveAxis, normAxis, NArr.ndim, hsh]
  have hne : emptyLane D (some 0) = false := by
    simp [emptyLane, hsh]; omega
  have hlane : ∀ i j, i < n → j < m → lane D 0 [i, j] = absdiff (row gx d i) (row gy d j) := by
    intro i j hi hj
    unfold row; rw [absdiff_maps]
    simp only [lane, hsh]
    apply List.map_congr_left; intro t ht
    exact hget t i j (List.mem_range.mp ht) hi hj
  refine ⟨?_, ?_, ?_⟩
  · obtain ⟨R, hR, hs, hg⟩ := chebyshevA_of _ _ false dmin (some 0) D 0 hD hax hne
    exact ⟨R, hR, by rw [hs, hsh]; rfl, fun i j hi hj => by rw [hg, hlane i j hi hj]; rfl⟩
  · obtain ⟨R, hR, hs, hg⟩ := hammingA_of _ _ false dmin (some 0) D 0 hD hax
    exact ⟨R, hR, by rw [hs, hsh]; rfl, fun i j hi hj => by rw [hg, hlane i j hi hj]; rfl⟩
  · obtain ⟨R, hR, hs, hg⟩ := minkowskiA_of C fin hfin _ _ false dmin p hp (some 0) D 0 hD hax
    exact ⟨R, hR, by rw [hs, hsh]; rfl, fun i j hi hj => by rw [hg, hlane i j hi hj]; rfl⟩

/-- **pair=True, axis=1, two 2-D arrays of `n` points each**: entry `i` is the metric between point `i` of `x` and
point `i` of `x'`. -/
theorem metrics_pairwise_def (C : Consts K) (fin : K → Bool) (hfin : ∀ x, fin x = true) (gx gy : List Nat → K)
    (n d dmin p : Nat) (hdm : dmin ≤ 2) (hd : 0 < d) (hp : p ≠ 0) :
    (∃ R, chebyshevA ⟨[n, d], gx⟩ ⟨[n, d], gy⟩ true dmin (some 1) = DRes.ok R ∧ R.shape = [n] ∧
      ∀ i, i < n → R.get [i] = chebyshev (row gx d i) (row gy d i)) ∧
    (∃ R, hammingA ⟨[n, d], gx⟩ ⟨[n, d], gy⟩ true dmin (some 1) = DRes.ok R ∧ R.shape = [n] ∧
      ∀ i, i < n → R.get [i] = hamming (row gx d i) (row gy d i)) ∧
    (∃ R, minkowskiA C fin ⟨[n, d], gx⟩ ⟨[n, d], gy⟩ true dmin p (some 1) = DRes.ok R ∧ R.shape = [n] ∧
      ∀ i, i < n → R.get [i] = minkowski C p (row gx d i) (row gy d i)) := by
  obtain ⟨D, hD, hsh, hget⟩ := absDist_pair gx gy n d dmin hdm
  have hax : resolveAxis D.ndim (some 1) = some (some 1) := by simp [resolveAxis, normAxis, NArr.ndim, hsh]
  have hne : emptyLane D (some 1) = false := by
    simp [emptyLane, hsh]; omega
  have hlane : ∀ i, i < n → lane D 1 [i] = absdiff (row gx d i) (row gy d i) := by
    intro i hi
    unfold row; rw [absdiff_maps]
    simp only [lane, hsh]
    apply List.map_congr_left; intro t ht
    exact hget i t hi (List.mem_range.mp ht)
  refine ⟨?_, ?_, ?_⟩
  · obtain ⟨R, hR, hs, hg⟩ := chebyshevA_of _ _ true dmin (some 1) D 1 hD hax hne
    exact ⟨R, hR, by rw [hs, hsh]; rfl, fun i hi => by rw [hg, hlane i hi]; rfl⟩
  · obtain ⟨R, hR, hs, hg⟩ := hammingA_of _ _ true dmin (some 1) D 1 hD hax
    exact ⟨R, hR, by rw [hs, hsh]; rfl, fun i hi => by rw [hg, hlane i hi]; rfl⟩
  · obtain ⟨R, hR, hs, hg⟩ := minkowskiA_of C fin hfin _ _ true dmin p hp (some 1) D 1 hD hax
    exact ⟨R, hR, by rw [hs, hsh]; rfl, fun i hi => by rw [hg, hlane i hi]; rfl⟩

/-- **pair=True, axis=1, ONE point on the right (shape `(1, d)`)**: numpy broadcasting compares it with every point
of `x`. -/
theorem metrics_pairwise_broadcast_def (C : Consts K) (fin : K → Bool) (hfin : ∀ x, fin x = true)
    (gx gy : List Nat → K) (n d dmin p : Nat) (hdm : dmin ≤ 2) (hd : 0 < d) (hp : p ≠ 0) :
    (∃ R, chebyshevA ⟨[n, d], gx⟩ ⟨[1, d], gy⟩ true dmin (some 1) = DRes.ok R ∧ R.shape = [n] ∧
      ∀ i, i < n → R.get [i] = chebyshev (row gx d i) (row gy d 0)) ∧
    (∃ R, hammingA ⟨[n, d], gx⟩ ⟨[1, d], gy⟩ true dmin (some 1) = DRes.ok R ∧ R.shape = [n] ∧
      ∀ i, i < n → R.get [i] = hamming (row gx d i) (row gy d 0)) ∧
    (∃ R, minkowskiA C fin ⟨[n, d], gx⟩ ⟨[1, d], gy⟩ true dmin p (some 1) = DRes.ok R ∧ R.shape = [n] ∧
      ∀ i, i < n → R.get [i] = minkowski C p (row gx d i) (row gy d 0)) := by
  obtain ⟨D, hD, hsh, hget⟩ := absDist_pair_bcast gx gy n d dmin hdm
  have hax : resolveAxis D.ndim (some 1) = some (some 1) := by simp [resolveAxis, normAxis, NArr.ndim, hsh]
  have hne : emptyLane D (some 1) = false := by
    simp [emptyLane, hsh]; omega
  have hlane : ∀ i, i < n → lane D 1 [i] = absdiff (row gx d i) (row gy d 0) := by
    intro i hi
    unfold row; rw [absdiff_maps]
    simp only [lane, hsh]
    apply List.map_congr_left; intro t ht
    exact hget i t hi (List.mem_range.mp ht)
  refine ⟨?_, ?_, ?_⟩
  · obtain ⟨R, hR, hs, hg⟩ := chebyshevA_of _ _ true dmin (some 1) D 1 hD hax hne
    exact ⟨R, hR, by rw [hs, hsh]; rfl, fun i hi => by rw [hg, hlane i hi]; rfl⟩
  · obtain ⟨R, hR, hs, hg⟩ := hammingA_of _ _ true dmin (some 1) D 1 hD hax
    exact ⟨R, hR, by rw [hs, hsh]; rfl, fun i hi => by rw [hg, hlane i hi]; rfl⟩
  · obtain ⟨R, hR, hs, hg⟩ := minkowskiA_of C fin hfin _ _ true dmin p hp (some 1) D 1 hD hax
    exact ⟨R, hR, by rw [hs, hsh]; rfl, fun i hi => by rw [hg, hlane i hi]; rfl⟩

/-- **dimension promotion, `dmin=2` on two 1-D arrays** (docstring l.57): each array is ONE point; with `axis=0` the
result is the `1 × 1` matrix holding their distance. -/
theorem metrics_dmin2_def (C : Consts K) (fin : K → Bool) (hfin : ∀ x, fin x = true) (gx gy : List Nat → K)
    (d p : Nat) (hd : 0 < d) (hp : p ≠ 0) :
    (∃ R, chebyshevA ⟨[d], gx⟩ ⟨[d], gy⟩ false 2 (some 0) = DRes.ok R ∧ R.shape = [1, 1] ∧
      R.get [0, 0] = chebyshev (vec gx d) (vec gy d)) ∧
    (∃ R, hammingA ⟨[d], gx⟩ ⟨[d], gy⟩ false 2 (some 0) = DRes.ok R ∧ R.shape = [1, 1] ∧
      R.get [0, 0] = hamming (vec gx d) (vec gy d)) ∧
    (∃ R, minkowskiA C fin ⟨[d], gx⟩ ⟨[d], gy⟩ false 2 p (some 0) = DRes.ok R ∧ R.shape = [1, 1] ∧
      R.get [0, 0] = minkowski C p (vec gx d) (vec gy d)) := by
  obtain ⟨D, hD, hsh, hget⟩ := absDist_dmin2 gx gy d
  have hax : resolveAxis D.ndim (some 0) = some (some 0) := by simp [resolveAxis, normAxis, NArr.ndim, hsh]
  have hne : emptyLane D (some 0) = false := by
    simp [emptyLane, hsh]; omega
  have hlane : lane D 0 [0, 0] = absdiff (vec gx d) (vec gy d) := by
    unfold vec; rw [absdiff_maps]
    simp only [lane, hsh]
    apply List.map_congr_left; intro t ht
    exact hget t (List.mem_range.mp ht)
  refine ⟨?_, ?_, ?_⟩
  · obtain ⟨R, hR, hs, hg⟩ := chebyshevA_of _ _ false 2 (some 0) D 0 hD hax hne
    exact ⟨R, hR, by rw [hs, hsh]; rfl, by rw [hg, hlane]; rfl⟩
  · obtain ⟨R, hR, hs, hg⟩ := hammingA_of _ _ false 2 (some 0) D 0 hD hax
    exact ⟨R, hR, by rw [hs, hsh]; rfl, by rw [hg, hlane]; rfl⟩
  · obtain ⟨R, hR, hs, hg⟩ := minkowskiA_of C fin hfin _ _ false 2 p hp (some 0) D 0 hD hax
    exact ⟨R, hR, by rw [hs, hsh]; rfl, by rw [hg, hlane]; rfl⟩

/-- **mixed shapes: `n` points against a single point given as a 1-D array** (promoted to shape `(1, d)`, l.64-65):
with `axis=0` the result is the `n × 1` column of distances to that point. -/
theorem metrics_mixed_def (C : Consts K) (fin : K → Bool) (hfin : ∀ x, fin x = true) (gx gy : List Nat → K)
    (n d dmin p : Nat) (hdm : dmin ≤ 2) (hd : 0 < d) (hp : p ≠ 0) :
    (∃ R, chebyshevA ⟨[n, d], gx⟩ ⟨[d], gy⟩ false dmin (some 0) = DRes.ok R ∧ R.shape = [n, 1] ∧
      ∀ i, i < n → R.get [i, 0] = chebyshev (row gx d i) (vec gy d)) ∧
    (∃ R, hammingA ⟨[n, d], gx⟩ ⟨[d], gy⟩ false dmin (some 0) = DRes.ok R ∧ R.shape = [n, 1] ∧
      ∀ i, i < n → R.get [i, 0] = hamming (row gx d i) (vec gy d)) ∧
    (∃ R, minkowskiA C fin ⟨[n, d], gx⟩ ⟨[d], gy⟩ false dmin p (some 0) = DRes.ok R ∧ R.shape = [n, 1] ∧
      ∀ i, i < n → R.get [i, 0] = minkowski C p (row gx d i) (vec gy d)) := by
  obtain ⟨D, hD, hsh, hget⟩ := absDist_mixed gx gy n d dmin hdm
  have hax : resolveAxis D.ndim (some 0) = some (some 0) := by simp [resolveAxis, normAxis, NArr.ndim, hsh]
  have hne : emptyLane D (some 0) = false := by
    simp [emptyLane, hsh]; omega
  have hlane : ∀ i, i < n → lane D 0 [i, 0] = absdiff (row gx d i) (vec gy d) := by
    intro i hi
    unfold row vec; rw [absdiff_maps]
    simp only [lane, hsh]
    apply List.map_congr_left; intro t ht
    exact hget t i (List.mem_range.mp ht) hi
  refine ⟨?_, ?_, ?_⟩
  · obtain ⟨R, hR, hs, hg⟩ := chebyshevA_of _ _ false dmin (some 0) D 0 hD hax hne
    exact ⟨R, hR, by rw [hs, hsh]; rfl, fun i hi => by rw [hg, hlane i hi]; rfl⟩
  · obtain ⟨R, hR, hs, hg⟩ := hammingA_of _ _ false dmin (some 0) D 0 hD hax
    exact ⟨R, hR, by rw [hs, hsh]; rfl, fun i hi => by rw [hg, hlane i hi]; rfl⟩
  · obtain ⟨R, hR, hs, hg⟩ := minkowskiA_of C fin hfin _ _ false dmin p hp (some 0) D 0 hD hax
    exact ⟨R, hR, by rw [hs, hsh]; rfl, fun i hi => by rw [hg, hlane i hi]; rfl⟩

/-- **two points given as 1-D arrays, pair=True, axis=None (any `dmin ≤ 1`)**: the result is the scalar metric of the
two points - the docstrings' `d(x, x')`. -/
theorem metrics_points_def (C : Consts K) (fin : K → Bool) (hfin : ∀ x, fin x = true) (gx gy : List Nat → K)
    (d dmin p : Nat) (hdm : dmin ≤ 1) (hd : 0 < d) (hp : p ≠ 0) :
    (∃ R, chebyshevA ⟨[d], gx⟩ ⟨[d], gy⟩ true dmin none = DRes.ok R ∧ R.shape = [] ∧
      R.get [] = chebyshev (vec gx d) (vec gy d)) ∧
    (∃ R, hammingA ⟨[d], gx⟩ ⟨[d], gy⟩ true dmin none = DRes.ok R ∧ R.shape = [] ∧
      R.get [] = hamming (vec gx d) (vec gy d)) ∧
    (∃ R, minkowskiA C fin ⟨[d], gx⟩ ⟨[d], gy⟩ true dmin p none = DRes.ok R ∧ R.shape = [] ∧
      R.get [] = minkowski C p (vec gx d) (vec gy d)) := by
  obtain ⟨D, hD, hsh, hget⟩ := absDist_points gx gy d dmin hdm
  have hrav : D.ravel = absdiff (vec gx d) (vec gy d) := by
    unfold vec; rw [absdiff_maps]
    simp only [NArr.ravel, hsh, allIdx_one, List.map_map]
    apply List.map_congr_left; intro t ht
    exact hget t (List.mem_range.mp ht)
  have hne : D.ravel ≠ [] := by
    rw [hrav]; unfold vec absdiff
    intro h0
    have := congrArg List.length h0
    simp at this; omega
  refine ⟨?_, ?_, ?_⟩
  · obtain ⟨R, hR, hs, hg⟩ := chebyshevA_all _ _ true dmin D hD hne
    exact ⟨R, hR, hs, by rw [hg, hrav]; rfl⟩
  · obtain ⟨R, hR, hs, hg⟩ := hammingA_all _ _ true dmin D hD
    exact ⟨R, hR, hs, by rw [hg, hrav]; rfl⟩
  · obtain ⟨R, hR, hs, hg⟩ := minkowskiA_all C fin hfin _ _ true dmin p hp D hD
    exact ⟨R, hR, hs, by rw [hg, hrav]; rfl⟩

/-- **minkowski, `p = 0`** (l.186): `1./p` raises `ZeroDivisionError` whenever the shapes broadcast and the axis
exists (hamming is the `p = 0` "norm"). -/
theorem minkowski_p0_raises (C : Consts K) (fin : K → Bool) (gx gy : List Nat → K) (n m d dmin : Nat) (hdm : dmin ≤ 2) :
    minkowskiA C fin ⟨[n, d], gx⟩ ⟨[m, d], gy⟩ false dmin 0 (some 0) = DRes.errZeroDiv := by
  obtain ⟨D, hD, hsh, _⟩ := absDist_matrix gx gy n m d dmin hdm
  have hax : resolveAxis D.ndim (some 0) = some (some 0) := by simp [resolveAxis, normAxis, NArr.ndim, hsh]
  unfold minkowskiA
  rw [hD]; simp only [hax]
  rfl

/-- non-vacuity: the 2 x 2 matrix of chebyshev distances of concrete points, and a broadcast error -/
def gEx (l : List (List ℚ)) : List Nat → ℚ := fun ix => (l.getD (ix.getD 0 0) []).getD (ix.getD 1 0) 0
example : (match chebyshevA ⟨[2, 2], gEx [[0, 0], [1, 3]]⟩ ⟨[2, 2], gEx [[1, 1], [0, 5]]⟩ false 0 (some 0) with
    | .ok R => (R.shape, R.ravel) | _ => ([], [])) = ([2, 2], [1, 5, 2, 2]) := by decide +kernel
example : (match hammingA ⟨[2, 2], gEx [[0, 0], [1, 3]]⟩ ⟨[3, 2], gEx [[1, 1], [0, 5], [1, 3]]⟩ true 0 (some 1) with
    | .errValue => true | _ => false) = true := by decide +kernel

end MysticVerif.C18
