/-
C18, second deepening - the point-to-point metrics of distance.py WITH their shape logic (`absolute_distance` l.41:
`dmin` promotion, `pair`, transposes / `newaxis` slices, broadcasting; reduction along `axis`): for each documented
calling form the entry of the result addressed by a pair of points is the textbook metric of THAT pair
(`chebyshev`, `hamming`, `minkowski C p` of Model/Measures.lean, whose textbook characterisations are `chebyshev_def`,
`hamming_def`, `minkowski_pow`, `euclidean_sq`, `manhattan_def` in Props/C18.lean; euclidean / manhattan are
`minkowski` with `p = 2 / 1`, l.212, l.234).
Arrays are `NArr` = shape + index function; `row g d i` is the `i`-th point of a 2-D array with `d` coordinates,
`vec g d` a 1-D array read as one point.  `fin` is `isfinite` (the overflow fall-back of l.187 cannot fire in a field).
-/
import MysticVerif.Proofs.DistanceX

set_option linter.unusedSectionVars false

namespace MysticVerif.C18
open MysticVerif.Meas

variable {K : Type} [Field K] [LinearOrder K] [IsStrictOrderedRing K]

/-- **pair=False, axis=0 (the documented common usage), two 2-D arrays of `n` resp. `m` points with `d ≥ 1`
coordinates, any `dmin ≤ 2`**: the result is the `n × m` matrix of the metric between point `i` of `x` and point `j`
of `x'`. -/
theorem metrics_matrix_def (C : Consts K) (fin : K → Bool) (hfin : ∀ x, fin x = true) (gx gy : List Nat → K)
    (n m d dmin p : Nat) (hdm : dmin ≤ 2) (hd : 0 < d) (hp : p ≠ 0) :
    (∃ R, chebyshevA ⟨[n, d], gx⟩ ⟨[m, d], gy⟩ false dmin (some 0) = DRes.ok R ∧ R.shape = [n, m] ∧
      ∀ i j, i < n → j < m → R.get [i, j] = chebyshev (row gx d i) (row gy d j)) ∧
    (∃ R, hammingA ⟨[n, d], gx⟩ ⟨[m, d], gy⟩ false dmin (some 0) = DRes.ok R ∧ R.shape = [n, m] ∧
      ∀ i j, i < n → j < m → R.get [i, j] = hamming (row gx d i) (row gy d j)) ∧
    (∃ R, minkowskiA C fin ⟨[n, d], gx⟩ ⟨[m, d], gy⟩ false dmin p (some 0) = DRes.ok R ∧ R.shape = [n, m] ∧
      ∀ i j, i < n → j < m → R.get [i, j] = minkowski C p (row gx d i) (row gy d j)) := by
  obtain ⟨D, hD, hsh, hget⟩ := absDist_matrix gx gy n m d dmin hdm
  have hax : resolveAxis D.ndim (some 0) = some (some 0) := by simp [resolveAxis, normAxis, NArr.ndim, hsh]
  have hne : emptyLane D (some 0) = false := by
    simp [emptyLane, hsh]; omega
  have hlane : ∀ i j, i < n → j < m → lane D 0 [i, j] = absdiff (row gx d i) (row gy d j) := by
    intro i j hi hj
    unfold row; rw [absdiff_maps]
    simp only [lane, hsh]
    apply List.map_congr_left; intro t ht
    exact hget t i j (List.mem_range.mp ht) hi hj
  refine ⟨?_, ?_, ?_⟩
  · obtain ⟨R, hR, hs, hg⟩ := chebyshevA_of _ _ false dmin (some 0) D 0 hD hax hne
    exact ⟨R, hR, by rw [hs, hsh]; rfl, fun i j hi hj => by rw [hg, hlane i j hi hj]; rfl⟩
  · obtain ⟨R, hR, hs, hg⟩ := hammingA_of _ _ false dmin (some 0) D 0 hD hax
    exact ⟨R, hR, by rw [hs, hsh]; rfl, fun i j hi hj => by rw [hg, hlane i j hi hj]; rfl⟩
  · obtain ⟨R, hR, hs, hg⟩ := minkowskiA_of C fin hfin _ _ false dmin p hp (some 0) D 0 hD hax
    exact ⟨R, hR, by rw [hs, hsh]; rfl, fun i j hi hj => by rw [hg, hlane i j hi hj]; rfl⟩

/-- **pair=True, axis=1, two 2-D arrays of `n` points each**: entry `i` is the metric between point `i` of `x` and
point `i` of `x'`. -/
theorem metrics_pairwise_def (C : Consts K) (fin : K → Bool) (hfin : ∀ x, fin x = true) (gx gy : List Nat → K)
    (n d dmin p : Nat) (hdm : dmin ≤ 2) (hd : 0 < d) (hp : p ≠ 0) :
    (∃ R, chebyshevA ⟨[n, d], gx⟩ ⟨[n, d], gy⟩ true dmin (some 1) = DRes.ok R ∧ R.shape = [n] ∧
      ∀ i, i < n → R.get [i] = chebyshev (row gx d i) (row gy d i)) ∧
    (∃ R, hammingA ⟨[n, d], gx⟩ ⟨[n, d], gy⟩ true dmin (some 1) = DRes.ok R ∧ R.shape = [n] ∧
      ∀ i, i < n → R.get [i] = hamming (row gx d i) (row gy d i)) ∧
    (∃ R, minkowskiA C fin ⟨[n, d], gx⟩ ⟨[n, d], gy⟩ true dmin p (some 1) = DRes.ok R ∧ R.shape = [n] ∧
      ∀ i, i < n → R.get [i] = minkowski C p (row gx d i) (row gy d i)) := by
  obtain ⟨D, hD, hsh, hget⟩ := absDist_pair gx gy n d dmin hdm
  have hax : resolveAxis D.ndim (some 1) = some (some 1) := by simp [resolveAxis, normAxis, NArr.ndim, hsh]
  have hne : emptyLane D (some 1) = false := by
    simp [emptyLane, hsh]; omega
  have hlane : ∀ i, i < n → lane D 1 [i] = absdiff (row gx d i) (row gy d i) := by
    intro i hi
    unfold row; rw [absdiff_maps]
    simp only [lane, hsh]
    apply List.map_congr_left; intro t ht
    exact hget i t hi (List.mem_range.mp ht)
  refine ⟨?_, ?_, ?_⟩
  · obtain ⟨R, hR, hs, hg⟩ := chebyshevA_of _ _ true dmin (some 1) D 1 hD hax hne
    exact ⟨R, hR, by rw [hs, hsh]; rfl, fun i hi => by rw [hg, hlane i hi]; rfl⟩
  · obtain ⟨R, hR, hs, hg⟩ := hammingA_of _ _ true dmin (some 1) D 1 hD hax
    exact ⟨R, hR, by rw [hs, hsh]; rfl, fun i hi => by rw [hg, hlane i hi]; rfl⟩
  · obtain ⟨R, hR, hs, hg⟩ := minkowskiA_of C fin hfin _ _ true dmin p hp (some 1) D 1 hD hax
    exact ⟨R, hR, by rw [hs, hsh]; rfl, fun i hi => by rw [hg, hlane i hi]; rfl⟩

/-- **pair=True, axis=1, ONE point on the right (shape `(1, d)`)**: numpy broadcasting compares it with every point
of `x`. -/
theorem metrics_pairwise_broadcast_def (C : Consts K) (fin : K → Bool) (hfin : ∀ x, fin x = true)
    (gx gy : List Nat → K) (n d dmin p : Nat) (hdm : dmin ≤ 2) (hd : 0 < d) (hp : p ≠ 0) :
    (∃ R, chebyshevA ⟨[n, d], gx⟩ ⟨[1, d], gy⟩ true dmin (some 1) = DRes.ok R ∧ R.shape = [n] ∧
      ∀ i, i < n → R.get [i] = chebyshev (row gx d i) (row gy d 0)) ∧
    (∃ R, hammingA ⟨[n, d], gx⟩ ⟨[1, d], gy⟩ true dmin (some 1) = DRes.ok R ∧ R.shape = [n] ∧
      ∀ i, i < n → R.get [i] = hamming (row gx d i) (row gy d 0)) ∧
    (∃ R, minkowskiA C fin ⟨[n, d], gx⟩ ⟨[1, d], gy⟩ true dmin p (some 1) = DRes.ok R ∧ R.shape = [n] ∧
      ∀ i, i < n → R.get [i] = minkowski C p (row gx d i) (row gy d 0)) := by
  obtain ⟨D, hD, hsh, hget⟩ := absDist_pair_bcast gx gy n d dmin hdm
  have hax : resolveAxis D.ndim (some 1) = some (some 1) := by simp [resolveAxis, normAxis, NArr.ndim, hsh]
  have hne : emptyLane D (some 1) = false := by
    simp [emptyLane, hsh]; omega
  have hlane : ∀ i, i < n → lane D 1 [i] = absdiff (row gx d i) (row gy d 0) := by
    intro i hi
    unfold row; rw [absdiff_maps]
    simp only [lane, hsh]
    apply List.map_congr_left; intro t ht
    exact hget i t hi (List.mem_range.mp ht)
  refine ⟨?_, ?_, ?_⟩
  · obtain ⟨R, hR, hs, hg⟩ := chebyshevA_of _ _ true dmin (some 1) D 1 hD hax hne
    exact ⟨R, hR, by rw [hs, hsh]; rfl, fun i hi => by rw [hg, hlane i hi]; rfl⟩
  · obtain ⟨R, hR, hs, hg⟩ := hammingA_of _ _ true dmin (some 1) D 1 hD hax
    exact ⟨R, hR, by rw [hs, hsh]; rfl, fun i hi => by rw [hg, hlane i hi]; rfl⟩
  · obtain ⟨R, hR, hs, hg⟩ := minkowskiA_of C fin hfin _ _ true dmin p hp (some 1) D 1 hD hax
    exact ⟨R, hR, by rw [hs, hsh]; rfl, fun i hi => by rw [hg, hlane i hi]; rfl⟩

/-- **dimension promotion, `dmin=2` on two 1-D arrays** (docstring l.57): each array is ONE point; with `axis=0` the
result is the `1 × 1` matrix holding their distance. -/
theorem metrics_dmin2_def (C : Consts K) (fin : K → Bool) (hfin : ∀ x, fin x = true) (gx gy : List Nat → K)
    (d p : Nat) (hd : 0 < d) (hp : p ≠ 0) :
    (∃ R, chebyshevA ⟨[d], gx⟩ ⟨[d], gy⟩ false 2 (some 0) = DRes.ok R ∧ R.shape = [1, 1] ∧
      R.get [0, 0] = chebyshev (vec gx d) (vec gy d)) ∧
    (∃ R, hammingA ⟨[d], gx⟩ ⟨[d], gy⟩ false 2 (some 0) = DRes.ok R ∧ R.shape = [1, 1] ∧
      R.get [0, 0] = hamming (vec gx d) (vec gy d)) ∧
    (∃ R, minkowskiA C fin ⟨[d], gx⟩ ⟨[d], gy⟩ false 2 p (some 0) = DRes.ok R ∧ R.shape = [1, 1] ∧
      R.get [0, 0] = minkowski C p (vec gx d) (vec gy d)) := by
  obtain ⟨D, hD, hsh, hget⟩ := absDist_dmin2 gx gy d
  have hax : resolveAxis D.ndim (some 0) = some (some 0) := by simp [resolveAxis, normAxis, NArr.ndim, hsh]
  have hne : emptyLane D (some 0) = false := by
    simp [emptyLane, hsh]; omega
  have hlane : lane D 0 [0, 0] = absdiff (vec gx d) (vec gy d) := by
    unfold vec; rw [absdiff_maps]
    simp only [lane, hsh]
    apply List.map_congr_left; intro t ht
    exact hget t (List.mem_range.mp ht)
  refine ⟨?_, ?_, ?_⟩
  · obtain ⟨R, hR, hs, hg⟩ := chebyshevA_of _ _ false 2 (some 0) D 0 hD hax hne
    exact ⟨R, hR, by rw [hs, hsh]; rfl, by rw [hg, hlane]; rfl⟩
  · obtain ⟨R, hR, hs, hg⟩ := hammingA_of _ _ false 2 (some 0) D 0 hD hax
    exact ⟨R, hR, by rw [hs, hsh]; rfl, by rw [hg, hlane]; rfl⟩
  · obtain ⟨R, hR, hs, hg⟩ := minkowskiA_of C fin hfin _ _ false 2 p hp (some 0) D 0 hD hax
    exact ⟨R, hR, by rw [hs, hsh]; rfl, by rw [hg, hlane]; rfl⟩

/-- **mixed shapes: `n` points against a single point given as a 1-D array** (promoted to shape `(1, d)`, l.64-65):
with `axis=0` the result is the `n × 1` column of distances to that point. -/
theorem metrics_mixed_def (C : Consts K) (fin : K → Bool) (hfin : ∀ x, fin x = true) (gx gy : List Nat → K)
    (n d dmin p : Nat) (hdm : dmin ≤ 2) (hd : 0 < d) (hp : p ≠ 0) :
    (∃ R, chebyshevA ⟨[n, d], gx⟩ ⟨[d], gy⟩ false dmin (some 0) = DRes.ok R ∧ R.shape = [n, 1] ∧
      ∀ i, i < n → R.get [i, 0] = chebyshev (row gx d i) (vec gy d)) ∧
    (∃ R, hammingA ⟨[n, d], gx⟩ ⟨[d], gy⟩ false dmin (some 0) = DRes.ok R ∧ R.shape = [n, 1] ∧
      ∀ i, i < n → R.get [i, 0] = hamming (row gx d i) (vec gy d)) ∧
    (∃ R, minkowskiA C fin ⟨[n, d], gx⟩ ⟨[d], gy⟩ false dmin p (some 0) = DRes.ok R ∧ R.shape = [n, 1] ∧
      ∀ i, i < n → R.get [i, 0] = minkowski C p (row gx d i) (vec gy d)) := by
  obtain ⟨D, hD, hsh, hget⟩ := absDist_mixed gx gy n d dmin hdm
  have hax : resolveAxis D.ndim (some 0) = some (some 0) := by simp [resolveAxis, normAxis, NArr.ndim, hsh]
  have hne : emptyLane D (some 0) = false := by
    simp [emptyLane, hsh]; omega
  have hlane : ∀ i, i < n → lane D 0 [i, 0] = absdiff (row gx d i) (vec gy d) := by
    intro i hi
    unfold row vec; rw [absdiff_maps]
    simp only [lane, hsh]
    apply List.map_congr_left; intro t ht
    exact hget t i (List.mem_range.mp ht) hi
  refine ⟨?_, ?_, ?_⟩
  · obtain ⟨R, hR, hs, hg⟩ := chebyshevA_of _ _ false dmin (some 0) D 0 hD hax hne
    exact ⟨R, hR, by rw [hs, hsh]; rfl, fun i hi => by rw [hg, hlane i hi]; rfl⟩
  · obtain ⟨R, hR, hs, hg⟩ := hammingA_of _ _ false dmin (some 0) D 0 hD hax
    exact ⟨R, hR, by rw [hs, hsh]; rfl, fun i hi => by rw [hg, hlane i hi]; rfl⟩
  · obtain ⟨R, hR, hs, hg⟩ := minkowskiA_of C fin hfin _ _ false dmin p hp (some 0) D 0 hD hax
    exact ⟨R, hR, by rw [hs, hsh]; rfl, fun i hi => by rw [hg, hlane i hi]; rfl⟩

/-- **two points given as 1-D arrays, pair=True, axis=None (any `dmin ≤ 1`)**: the result is the scalar metric of the
two points - the docstrings' `d(x, x')`. -/
theorem metrics_points_def (C : Consts K) (fin : K → Bool) (hfin : ∀ x, fin x = true) (gx gy : List Nat → K)
    (d dmin p : Nat) (hdm : dmin ≤ 1) (hd : 0 < d) (hp : p ≠ 0) :
    (∃ R, chebyshevA ⟨[d], gx⟩ ⟨[d], gy⟩ true dmin none = DRes.ok R ∧ R.shape = [] ∧
      R.get [] = chebyshev (vec gx d) (vec gy d)) ∧
    (∃ R, hammingA ⟨[d], gx⟩ ⟨[d], gy⟩ true dmin none = DRes.ok R ∧ R.shape = [] ∧
      R.get [] = hamming (vec gx d) (vec gy d)) ∧
    (∃ R, minkowskiA C fin ⟨[d], gx⟩ ⟨[d], gy⟩ true dmin p none = DRes.ok R ∧ R.shape = [] ∧
      R.get [] = minkowski C p (vec gx d) (vec gy d)) := by
  obtain ⟨D, hD, hsh, hget⟩ := absDist_points gx gy d dmin hdm
  have hrav : D.ravel = absdiff (vec gx d) (vec gy d) := by
    unfold vec; rw [absdiff_maps]
    simp only [NArr.ravel, hsh, allIdx_one, List.map_map]
    apply List.map_congr_left; intro t ht
    exact hget t (List.mem_range.mp ht)
  have hne : D.ravel ≠ [] := by
    rw [hrav]; unfold vec absdiff
    intro h0
    have := congrArg List.length h0
    simp at this; omega
  refine ⟨?_, ?_, ?_⟩
  · obtain ⟨R, hR, hs, hg⟩ := chebyshevA_all _ _ true dmin D hD hne
    exact ⟨R, hR, hs, by rw [hg, hrav]; rfl⟩
  · obtain ⟨R, hR, hs, hg⟩ := hammingA_all _ _ true dmin D hD
    exact ⟨R, hR, hs, by rw [hg, hrav]; rfl⟩
  · obtain ⟨R, hR, hs, hg⟩ := minkowskiA_all C fin hfin _ _ true dmin p hp D hD
    exact ⟨R, hR, hs, by rw [hg, hrav]; rfl⟩

/-- **minkowski, `p = 0`** (l.186): `1./p` raises `ZeroDivisionError` whenever the shapes broadcast and the axis
exists (hamming is the `p = 0` "norm"). -/
theorem minkowski_p0_raises (C : Consts K) (fin : K → Bool) (gx gy : List Nat → K) (n m d dmin : Nat) (hdm : dmin ≤ 2) :
    minkowskiA C fin ⟨[n, d], gx⟩ ⟨[m, d], gy⟩ false dmin 0 (some 0) = DRes.errZeroDiv := by
  obtain ⟨D, hD, hsh, _⟩ := absDist_matrix gx gy n m d dmin hdm
  have hax : resolveAxis D.ndim (some 0) = some (some 0) := by simp [resolveAxis, normAxis, NArr.ndim, hsh]
  unfold minkowskiA
  rw [hD]; simp only [hax]
  rfl

/-- non-vacuity: the 2 x 2 matrix of chebyshev distances of concrete points, and a broadcast error -/
def gEx (l : List (List ℚ)) : List Nat → ℚ := fun ix => (l.getD (ix.getD 0 0) []).getD (ix.getD 1 0) 0
example : (match chebyshevA ⟨[2, 2], gEx [[0, 0], [1, 3]]⟩ ⟨[2, 2], gEx [[1, 1], [0, 5]]⟩ false 0 (some 0) with
    | .ok R => (R.shape, R.ravel) | _ => ([], [])) = ([2, 2], [1, 5, 2, 2]) := by decide +kernel
example : (match hammingA ⟨[2, 2], gEx [[0, 0], [1, 3]]⟩ ⟨[3, 2], gEx [[1, 1], [0, 5], [1, 3]]⟩ true 0 (some 1) with
    | .errValue => true | _ => false) = true := by decide +kernel

/-! ### which floating-point conditions give up the p-norm (third deepening)

`fin` is the predicate "finite" of the scalar type (`Float.isFinite` in the driver); nothing is assumed about it.  The
fall-back of distance.py l.187-188 / l.35-36 is taken exactly on the model's `overflowed` / `lnormOverflowed`
condition, which mentions non-finite powers and sums only: a power that UNDERFLOWS (vanishes, becomes denormal) is a
finite number, so it never triggers the fall-back - however small the differences are, the p-norm is returned. -/

/-- no power and no sum is non-finite => the `FloatingPointError` condition of minkowski is false (whatever `fin` is) -/
theorem overflowed_false_of_finite (fin : K → Bool) (d t s : NArr K)
    (ht : ∀ a ∈ t.ravel, fin a = true) (hs : ∀ a ∈ s.ravel, fin a = true) : overflowed fin d t s = false := by
  unfold overflowed
  have h1 : (List.zipWith (fun a b => fin a && !fin b) d.ravel t.ravel).any id = false := by
    rw [List.any_eq_false]
    intro b hb
    obtain ⟨i, hi, rfl⟩ := List.mem_iff_getElem.mp hb
    have hi' : i < t.ravel.length := by
      simp only [List.length_zipWith] at hi; omega
    have := ht _ (List.getElem_mem hi')
    simp [this]
  have h2 : (t.ravel.all fin && !s.ravel.all fin) = false := by
    have : s.ravel.all fin = true := by rw [List.all_eq_true]; exact hs
    simp [this]
  rw [h1, h2]; rfl

/-- **clause "the point-to-point metrics equal their textbook definitions", underflow side**: whenever every p-th power
of a coordinate difference and every lane sum is finite - in particular when powers underflow - minkowski (euclidean,
manhattan) returns the p-th root of the sum of the p-th powers; the infinity norm is NOT substituted. -/
theorem minkowski_finite_no_fallback (C : Consts K) (fin : K → Bool) (x xp : NArr K) (pair : Bool) (dmin p : Nat)
    (hp : p ≠ 0) (axis : Option Int) (D : NArr K) (k : Option Nat)
    (hD : absoluteDistance x xp pair dmin = some D) (hax : resolveAxis D.ndim axis = some k)
    (ht : ∀ a ∈ (D.map (powN · p)).ravel, fin a = true)
    (hs : ∀ a ∈ (reduceWith lsum (D.map (powN · p)) k).ravel, fin a = true) :
    minkowskiA C fin x xp pair dmin p axis = DRes.ok ((reduceWith lsum (D.map (powN · p)) k).map (C.root p)) := by
  unfold minkowskiA
  rw [hD]
  simp only [hax, if_neg hp, overflowed_false_of_finite fin D _ _ ht hs]
  rfl

/-- the fall-back is taken exactly on the overflow condition, and then the WHOLE result is the infinity norm
(`d.max(axis=axis)`): also the entries of point pairs whose own powers are finite (finding F66) -/
theorem minkowski_overflow_fallback (C : Consts K) (fin : K → Bool) (x xp : NArr K) (pair : Bool) (dmin p : Nat)
    (hp : p ≠ 0) (axis : Option Int) (D : NArr K) (k : Option Nat)
    (hD : absoluteDistance x xp pair dmin = some D) (hax : resolveAxis D.ndim axis = some k)
    (ho : overflowed fin D (D.map (powN · p)) (reduceWith lsum (D.map (powN · p)) k) = true) :
    minkowskiA C fin x xp pair dmin p axis = chebyshevA x xp pair dmin axis := by
  unfold minkowskiA chebyshevA
  rw [hD]
  simp only [hax, if_neg hp, ho, if_true]

/-- `Lnorm` likewise: finite powers and a finite sum => the p-norm `lnorm` (characterised by `lnorm_pow`, `lnorm_one`) -/
theorem lnorm_finite_no_fallback (C : Consts K) (fin : K → Bool) (ws : List K) (p : Nat)
    (ht : ∀ w ∈ ws, fin (powN w p) = true) (hs : fin (lsum (ws.map fun x => absR (powN x p))) = true) :
    lnormA C fin ws p = lnorm C ws p := by
  unfold lnormA
  by_cases hp : p = 0
  · simp [hp]
  · have h1 : (List.zipWith (fun a b => fin a && !fin b) ws (ws.map (powN · p))).any id = false := by
      rw [List.any_eq_false]
      intro b hb
      obtain ⟨i, hi, rfl⟩ := List.mem_iff_getElem.mp hb
      have hi' : i < ws.length := by
        simp only [List.length_zipWith, List.length_map] at hi; omega
      have := ht _ (List.getElem_mem hi')
      simp [this]
    have h : lnormOverflowed fin ws p = false := by
      unfold lnormOverflowed
      rw [h1, hs]; simp
    simp [hp, h]

/-- and on the overflow condition `Lnorm` is the infinity norm `max |w|` (`lnorm_inf`) -/
theorem lnorm_overflow_fallback (C : Consts K) (fin : K → Bool) (ws : List K) (p : Nat) (hp : p ≠ 0)
    (ho : lnormOverflowed fin ws p = true) : lnormA C fin ws p = lnormInf ws := by
  unfold lnormA
  simp [hp, ho]

/-- the hypotheses of the no-fall-back theorems are satisfiable with a `fin` that is NOT constantly true, and the
overflow condition by a concrete instance: with "finite" = "below 100" over ℚ the weights (3, 4) keep the 2-norm
(sum of squares 25), the weights (3, 40) fall back to the infinity norm 40 -/
example : lnormA (⟨0, 0, id, fun _ t => t⟩ : Consts ℚ) (fun t => decide (t < 100)) [3, 4] 2 = 25 ∧
    lnormA (⟨0, 0, id, fun _ t => t⟩ : Consts ℚ) (fun t => decide (t < 100)) [3, 40] 2 = 40 := by
  constructor <;> decide +kernel

end MysticVerif.C18
