/-
C20 (part 4) - file formats on trajectories that are not rectangular, iteration numbers with gaps, id tuples:
property theorems about Model/MungeFormats.lean.  Imported by Props/C20.lean.
-/
import MysticVerif.Proofs.Monitor
import MysticVerif.Model.MungeFormats

namespace MysticVerif.C20
open MysticVerif.Mon

variable {R : Type}

private theorem mapM_wrap (xs : List (List R)) :
    (xs.map PV.vec).mapM wrapStep = .ok (xs.map (·.map ([·]))) := by
  induction xs with
  | nil => rfl
  | cons a t ih =>
    simp only [List.map_cons, List.mapM_cons, wrapStep, ih]
    rfl

/-- **`raw_to_converge` on flat vectors is the wrapping of Model/Monitor** (so `converge_roundtrip` /
`support_roundtrip` apply): whenever the first recorded vector is not empty, every parameter of every step
becomes a 1-tuple - also when the steps have different lengths. -/
theorem raw_to_converge_flat (x : List R) (xs : List (List R)) (hx : x ≠ []) :
    rawToConvergePV ((x :: xs).map PV.vec) = .ok (rawToConverge (x :: xs)) ∧
    rawToSupportPV ((x :: xs).map PV.vec) = .ok (rawToSupport (x :: xs)) := by
  have h1 : rawToConvergePV ((x :: xs).map PV.vec) = .ok (rawToConverge (x :: xs)) := by
    cases x with
    | nil => exact absurd rfl hx
    | cons a t =>
      have := mapM_wrap ((a :: t) :: xs)
      simp only [List.map_cons] at this
      simp only [rawToConvergePV, List.map_cons, this, rawToConverge]
  exact ⟨h1, by simp only [rawToSupportPV, h1, rawToSupport]⟩

/-- the decision is taken from the FIRST step alone: an empty first vector is an `IndexError`, a scalar first
step a `TypeError`, whatever follows -/
theorem raw_to_converge_first (rest : List (PV R)) (v : R) :
    rawToConvergePV (.vec [] :: rest) = .error .index ∧ rawToConvergePV (.sc v :: rest) = .error .type :=
  ⟨rfl, rfl⟩

/-- **support format, records of different dimension** (the code as it is; `support_roundtrip` is the
`_partial` statement, with the rectangular hypothesis): the transposition keeps the first `min` parameters of
every record - here `3` is lost - while the converge format keeps everything. -/
theorem support_ragged_witness :
    rawToSupport [[1, 2, 3], [4, 5]] = [[[1], [4]], [[2], [5]]] ∧
    supportToRaw (rawToSupport [[1, 2, 3], [4, 5]]) = [[1, 2], [4, 5]] ∧
    (rawToConverge [[1, 2, 3], [4, 5]]).map List.flatten = [[1, 2, 3], [4, 5]] := by decide

/-- **id tuples pass through** (`read_history(logfile, iter=True)`): a non-empty list of `(iteration[, id])`
tuples read from a log file comes back unchanged - gaps in the iteration numbers included. -/
theorem process_ids_tuples (ids : List Step) (h : ids ≠ []) : processIdsT ids ids.length = ids := by
  cases ids with
  | nil => exact absurd rfl h
  | cons a t => simp [processIdsT]

/-! ### the rows of a log file -/

private theorem logOf_step [Mul R] [Div R] (m : Mon R) (x y : PV R) (id : Option Int) :
    (m.logOf x y id).toList.map (·.step) = (if (∃ n, m.interval = some n ∧ 0 < n ∧ m.len % n = 0) then [m.len] else []) := by
  unfold Mon.logOf
  cases hiv : m.interval with
  | none => simp
  | some n =>
    by_cases h0 : n = 0
    · simp [h0]
    · by_cases h1 : m.len % n = 0
      · simp [h0, h1]
      · simp [h0, h1]

/-- **iteration numbers with gaps.** Over any call sequence a `LoggingMonitor` with interval `iv > 0` that
already holds `len m` records writes exactly one row for every iteration number in `len m .. len m + n - 1`
divisible by `iv`, in order (`interval = 3`: 0, 3, 6, ...). -/
theorem log_gaps_spec [Mul R] [Div R] (iv : Nat) (hiv : 0 < iv) (cs : List (PV R × PV R × Option Int)) :
    ∀ (m : Mon R), m.interval = some iv →
      (logRun m cs).map (·.step) = (List.range' m.len cs.length).filter (· % iv = 0) := by
  induction cs with
  | nil => intro m _; rfl
  | cons c cs ih =>
    intro m hm
    have hm' : (m.call c.1 c.2.1 c.2.2).interval = some iv := by simp [Mon.call, hm]
    have hlen : (m.call c.1 c.2.1 c.2.2).len = m.len + 1 := by simp [Mon.call, Mon.len]
    simp only [logRun, List.map_append, logOf_step, ih _ hm', hlen, List.length_cons, List.range'_succ, List.filter_cons]
    by_cases h1 : m.len % iv = 0
    · have : ∃ n, m.interval = some n ∧ 0 < n ∧ m.len % n = 0 := ⟨iv, hm, hiv, h1⟩
      simp [this, h1]
    · have : ¬ ∃ n, m.interval = some n ∧ 0 < n ∧ m.len % n = 0 := by
        rintro ⟨n, hn, _, hmod⟩
        rw [hm] at hn
        cases hn
        exact h1 hmod
      simp [this, h1]

/-- three calls, interval 2: rows at iterations 0 and 2, and `read_history` returns those iteration tuples -/
example :
    (logRun ({ interval := some 2 } : Mon Int) [(.vec [1, 2], .sc 3, none), (.vec [4, 5], .sc 6, some 1), (.vec [7, 8], .sc 9, some 2)]).map
      (fun r => (r.step, r.id, r.x)) = [(0, none, .vec [1, 2]), (2, some 2, .vec [7, 8])] := by decide

end MysticVerif.C20
