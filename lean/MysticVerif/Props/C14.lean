/-
C14 - compiled condition and penalty functions measure exactly the stated violation.

Objects (Model/Emitted.lean): `Rel2` = the line `lhs ⋈ rhs` the TEXT states; `condEmit` = the (kind, expression)
`penalty_parser` emits for it; `recogniseCond r k e` = the decidable validator run on what the current tree
emits (`condition.__name__`, `condition.__doc__` - the very string that is eval'ed); `PType.term` = the term
one `mystic.penalty` decorator adds; `penalty` = the stack `generate_penalty` builds.
`K` is ANY linearly ordered field, `env.ι` ANY reading of the numerals, `x` ANY point, `k' = k*h^n` ANY multiplier.

Property clause                                              theorem
  conditions are lhs-rhs oriented: inequality iff <= 0,       condition_exact, condition_orientation
  equality iff == 0                                           (strict comparators: iff with the tolerance margin;
                                                              the unrestricted "iff holds" is FALSE inside the band:
                                                              strict_band_is_penalised, DESIGN F9)
  penalty = documented sum of per-line terms                  penalty_is_sum
  zero exactly where every line is satisfied, positive else   penalty_zero_iff, penalty_pos_of_violation
  constraint output drives the penalty of the same text to 0  constraint_drives_penalty_to_zero
  join=and_ / or_ (mystic.coupler; Model/EmittedJoin.penJoin)  penjoin_and_zero_iff (zero exactly where EVERY line of every
                                                              group is satisfied), penjoin_or_zero_iff (zero exactly where all
                                                              lines of AT LEAST ONE group are satisfied; one line per group:
                                                              at least one line), penjoin_nonneg, penjoin_or_empty
-/
import MysticVerif.Props.C13
import MysticVerif.Proofs.EmittedJoin

set_option linter.unusedSectionVars false
set_option linter.unusedVariables false

namespace MysticVerif.C14
open MysticVerif.Emitted

variable {K : Type} [Field K] [LinearOrder K] [IsStrictOrderedRing K] {C : Type}

/-! ## condition functions -/

/-- **Orientation, exact form.** For every (kind, expression) the validator accepts for `lhs ⋈ rhs`:
the condition value is "satisfied" (`≤ 0` for an inequality, `= 0` for an equality) EXACTLY when the line holds
with its margin (`margin` = `holds` for `= <= >= !=`; `lhs ≤ rhs - tol(rhs)` / `lhs ≥ rhs + tol(rhs)` for `<` / `>`). -/
theorem condition_exact [DecidableEq C] (env : Env C K) (r : Rel2 C) (k : Kind) (e : Expr C) (x : List K)
    (hrec : recogniseCond r k e = true) :
    k.satisfied (e.eval env x) ↔ r.margin env x := by
  unfold recogniseCond at hrec
  have h : (k, e) = condEmit r := by simpa using hrec
  obtain ⟨lhs, cmp, rhs⟩ := r
  cases cmp <;> simp only [condEmit, Prod.mk.injEq] at h <;> obtain ⟨rfl, rfl⟩ := h <;>
    simp only [Kind.satisfied, Rel2.margin, Rel2.holds, Cmp.holds, Expr.eval]
  · exact sub_eq_zero
  · exact sub_nonpos
  · rw [neg_nonpos]; exact sub_nonneg
  · exact sub_nonpos
  · rw [neg_nonpos]; exact sub_nonneg
  · by_cases hx : lhs.eval env x - rhs.eval env x = 0
    · have : (lhs.eval env x - rhs.eval env x == 0) = true := by simpa using hx
      rw [this]; simp only [b2r, if_true]
      constructor
      · intro h1; exact absurd h1 one_ne_zero
      · intro h1; exact absurd (sub_eq_zero.mp hx) h1
    · have : (lhs.eval env x - rhs.eval env x == 0) = false := by simpa using hx
      rw [this]; simp only [b2r, Bool.false_eq_true, if_false, true_iff]
      intro h1; exact hx (sub_eq_zero.mpr h1)

/-- the kind under which a line is filed: `=` and `!=` are equality conditions, the rest inequalities -/
theorem condition_kind [DecidableEq C] (r : Rel2 C) (k : Kind) (e : Expr C)
    (hrec : recogniseCond r k e = true) :
    k = (if r.cmp = .eq ∨ r.cmp = .ne then Kind.eq else Kind.ineq) := by
  unfold recogniseCond at hrec
  have h : (k, e) = condEmit r := by simpa using hrec
  obtain ⟨lhs, cmp, rhs⟩ := r
  cases cmp <;> simp only [condEmit, Prod.mk.injEq] at h <;> obtain ⟨rfl, _⟩ := h <;> simp

/-- **Orientation.** `<=`, `>=` : value `≤ 0` iff the inequality holds; `=` : value `= 0` iff the equality holds;
`!=` : value `= 0` iff the two sides differ; `<`, `>` (with `0 < tol`, `0 ≤ rel`): value `≤ 0` implies the strict
inequality, and the strict inequality with the tolerance margin implies value `≤ 0`. -/
theorem condition_orientation [DecidableEq C] (env : Env C K) (htol : 0 ≤ env.tol) (hrel : 0 ≤ env.rel)
    (r : Rel2 C) (k : Kind) (e : Expr C) (x : List K) (hrec : recogniseCond r k e = true) :
    (r.cmp ≠ .lt → r.cmp ≠ .gt → (k.satisfied (e.eval env x) ↔ r.holds env x)) ∧
    (0 < env.tol → k.satisfied (e.eval env x) → r.holds env x) ∧
    (r.margin env x → k.satisfied (e.eval env x)) := by
  have hex := condition_exact env r k e x hrec
  refine ⟨?_, ?_, hex.mpr⟩
  · intro hlt hgt; rw [hex]
    obtain ⟨lhs, cmp, rhs⟩ := r
    cases cmp <;> simp only [Rel2.margin] <;> first | exact Iff.rfl | exact absurd rfl hlt | exact absurd rfl hgt
  · intro hpos hs
    have hm := hex.mp hs
    obtain ⟨lhs, cmp, rhs⟩ := r
    have ht := tolf_pos env hpos hrel (rhs.eval env x)
    cases cmp <;> simp only [Rel2.margin, Rel2.holds, Cmp.holds] at hm ⊢ <;> first | exact hm | linarith

/-- **The unrestricted orientation fails for strict comparators on the code as it is (F9).** `x0 < x1` with
`tol = 1`, `rel = 0` at `x = [1/2, 1]`: the line holds, the accepted inequality condition
`x[0] - (x[1] - _tol(x[1],tol,rel))` evaluates to `1/2 > 0`, i.e. the point is penalised. -/
theorem strict_band_is_penalised :
    ∃ (env : Env Nat ℚ) (r : Rel2 Nat) (k : Kind) (e : Expr Nat) (x : List ℚ),
      recogniseCond r k e = true ∧ 0 < env.tol ∧ 0 ≤ env.rel ∧ r.holds env x ∧ ¬ k.satisfied (e.eval env x) := by
  refine ⟨{ ι := fun n => (n : ℚ), tol := 1, rel := 0 }, ⟨.var 0, .lt, .var 1⟩, .ineq,
    .sub (.var 0) (.sub (.var 1) (.tol (.var 1))), [1 / 2, 1], by decide, by norm_num, by norm_num, ?_, ?_⟩
  · simp only [Rel2.holds, Cmp.holds, Expr.eval]; norm_num
  · simp only [Kind.satisfied, Expr.eval, tolf, absR]; norm_num

/-! ## penalties -/

/-- every condition of the stack evaluates without `ZeroDivisionError` / `IndexError` -/
def AllDefined (env : Env C K) (ts : List (PType × Expr C)) (x : List K) : Prop :=
  ∀ te ∈ ts, te.2.defined env x = true

private theorem penalty_fold (env : Env C K) (k' top : K) (x : List K) :
    ∀ (ts : List (PType × Expr C)) (acc : K), AllDefined env ts x →
      ts.foldl (fun acc te =>
        if te.2.defined env x = true then te.1.term k' (te.2.eval env x) + acc else top) acc
      = (ts.map fun te => te.1.term k' (te.2.eval env x)).sum + acc := by
  intro ts
  induction ts with
  | nil => intro acc _; simp
  | cons te ts ih =>
    intro acc hd
    simp only [List.foldl_cons, List.map_cons, List.sum_cons]
    rw [if_pos (hd te (by simp)), ih _ (fun t ht => hd t (by simp [ht]))]
    ring

/-- **Documented sum.** `generate_penalty(conditions, ptypes, k, h)(x)` (iteration `n`, `k' = k*h^n`) is the sum
of the per-line terms `ptype_i.term k' (condition_i x)`. -/
theorem penalty_is_sum (env : Env C K) (k' top : K) (ts : List (PType × Expr C)) (x : List K)
    (hd : AllDefined env ts x) :
    penalty env k' top ts x = (ts.map fun te => te.1.term k' (te.2.eval env x)).sum := by
  unfold penalty; rw [penalty_fold env k' top x ts 0 hd]; ring

private theorem sum_terms (env : Env C K) {k' : K} (hk : 0 < k') (x : List K) :
    ∀ ts : List (PType × Expr C),
      0 ≤ (ts.map fun te => te.1.term k' (te.2.eval env x)).sum ∧
      ((ts.map fun te => te.1.term k' (te.2.eval env x)).sum = 0 ↔
        ∀ te ∈ ts, te.1.kind.satisfied (te.2.eval env x)) := by
  intro ts
  induction ts with
  | nil => simp
  | cons te ts ih =>
    have h1 := term_nonneg te.1 hk (te.2.eval env x)
    have h2 := term_eq_zero_iff te.1 hk (te.2.eval env x)
    simp only [List.map_cons, List.sum_cons, List.mem_cons, forall_eq_or_imp]
    refine ⟨by linarith [ih.1], ?_⟩
    constructor
    · intro h
      have ha : te.1.term k' (te.2.eval env x) = 0 := by linarith [ih.1]
      have hb : (ts.map fun te => te.1.term k' (te.2.eval env x)).sum = 0 := by linarith
      exact ⟨h2.mp ha, ih.2.mp hb⟩
    · rintro ⟨ha, hb⟩
      rw [h2.mpr ha, ih.2.mpr hb]; ring

/-- **Zero exactly on the feasible set, never negative.** With a positive multiplier and penalty types drawn from
quadratic / linear / uniform (in)equality, each applied to a condition of its own kind (`te.1.kind`):
the penalty is `0` iff every condition is satisfied, and it is `≥ 0` everywhere. -/
theorem penalty_zero_iff (env : Env C K) {k' : K} (hk : 0 < k') (top : K) (ts : List (PType × Expr C))
    (x : List K) (hd : AllDefined env ts x) :
    (penalty env k' top ts x = 0 ↔ ∀ te ∈ ts, te.1.kind.satisfied (te.2.eval env x)) ∧
    0 ≤ penalty env k' top ts x := by
  rw [penalty_is_sum env k' top ts x hd]
  exact ⟨(sum_terms env hk x ts).2, (sum_terms env hk x ts).1⟩

/-- **Positive elsewhere.** One violated line makes the penalty strictly positive. -/
theorem penalty_pos_of_violation (env : Env C K) {k' : K} (hk : 0 < k') (top : K) (ts : List (PType × Expr C))
    (x : List K) (hd : AllDefined env ts x) (te : PType × Expr C) (hmem : te ∈ ts)
    (hv : ¬ te.1.kind.satisfied (te.2.eval env x)) : 0 < penalty env k' top ts x := by
  obtain ⟨hz, hnn⟩ := penalty_zero_iff env hk top ts x hd
  rcases lt_or_eq_of_le hnn with h | h
  · exact h
  · exact absurd (hz.mp h.symm te hmem) hv

/-! ## constraint and penalty of the same text -/

/-- the conditions `generate_conditions` builds for isolated-form relations, with the default penalty types -/
def condsOf (rels : List (Rel C)) : List (PType × Expr C) :=
  rels.map fun r => ((condEmit r.toRel2).1.default, (condEmit r.toRel2).2)

private theorem margin2_of_margin (env : Env C K) (htol : 0 ≤ env.tol) (hrel : 0 ≤ env.rel)
    (r : Rel C) (B : Expr C) (y : List K) (hB : (r.cmp = .le ∨ r.cmp = .ge) → 0 ≤ B.eval env y)
    (h : r.margin env B y) : r.toRel2.margin env y := by
  obtain ⟨i, cmp, rhs⟩ := r
  have htn := tolf_nonneg env htol hrel (rhs.eval env y)
  cases cmp <;> simp only [Rel.margin, Rel.toRel2, Rel2.margin, Rel2.holds, Cmp.holds, Expr.eval] at h ⊢
  · exact h
  · have := mul_nonneg htn (hB (Or.inl rfl)); linarith
  · have := mul_nonneg htn (hB (Or.inr rfl)); linarith
  · exact h
  · exact h
  · exact h

private theorem margin2_exec_other (env : Env C K) (r' : Rel C) (c : Assign C) (z : List K)
    (hne : r'.i ≠ c.i) (hfree : r'.rhs.mentions c.i = false) (h : r'.toRel2.margin env z) :
    r'.toRel2.margin env (c.exec env z) := by
  have h1 : (c.exec env z).getD r'.i 0 = z.getD r'.i 0 := exec_getD_ne env c z _ hne
  have h2 : r'.rhs.eval env (c.exec env z) = r'.rhs.eval env z :=
    eval_set_of_not_mentions env z c.i _ _ hfree
  obtain ⟨i, cmp, rhs⟩ := r'
  cases cmp <;> simp only [Rel.toRel2, Rel2.margin, Rel2.holds, Cmp.holds, Expr.eval] at h h1 h2 ⊢ <;>
    rw [h1, h2] <;> exact h

/-- the composed constraint establishes every relation WITH its margin (the strong form of
`C13.chain_independent`, which is what the penalty of the same text measures) -/
theorem chain_enforces_margin [DecidableEq C] (env : Env C K) (isPos : C → Bool) (d : C)
    (hpos : ∀ c, isPos c = true → 0 < env.ι c) (htol : 0 ≤ env.tol) (hrel : 0 ≤ env.rel)
    (rels : List (Rel C)) (codes : List (Assign C)) (x : List K)
    (hrec : List.Forall₂ (fun r c => recognise isPos d r c = true) rels codes)
    (hlen : ∀ r ∈ rels, r.i < x.length)
    (hnodup : (rels.map (·.i)).Nodup)
    (hfree : ∀ r ∈ rels, ∀ r' ∈ rels, r'.rhs.mentions r.i = false)
    (hB : ∀ c ∈ codes, ∀ r ∈ rels, c.factor.mentions r.i = false)
    (hne : ∀ r ∈ rels, r.cmp = .ne → 0 < env.tol) :
    ∀ r ∈ rels, r.toRel2.margin env (chain env codes x) := by
  induction hrec with
  | nil => intro r hr; simp at hr
  | @cons r c rs cs hrc _ ih =>
    have ih' := ih (fun r hr => hlen r (by simp [hr]))
      (by simp only [List.map_cons, List.nodup_cons] at hnodup; exact hnodup.2)
      (fun r hr r' hr' => hfree r (by simp [hr]) r' (by simp [hr']))
      (fun c hc r hr => hB c (by simp [hc]) r (by simp [hr]))
      (fun r hr => hne r (by simp [hr]))
    intro r' hr'
    rw [chain_cons]
    rcases List.mem_cons.mp hr' with rfl | hmem
    · refine margin2_of_margin env htol hrel r' c.factor _ ?_
        (C13.solver_enforces_margin env isPos d hpos htol hrel r' c _ hrc
          (by rw [chain_length]; exact hlen r' (by simp))
          (hfree r' (by simp) r' (by simp)) (hB c (by simp) r' (by simp)) (hne r' (by simp)))
      intro hc
      exact isBool_eval_nonneg env _ _ ((recognise_spec hrc).2.1 hc)
    · have hci : c.i = r.i := recognise_i hrc
      refine margin2_exec_other env r' c _ ?_ ?_ (ih' r' hmem)
      · rw [hci]
        simp only [List.map_cons, List.nodup_cons, List.mem_map, not_exists, not_and] at hnodup
        exact fun h => hnodup.1 r' hmem h
      · rw [hci]; exact hfree r (by simp) r' (by simp [hmem])

/-- **Constraint drives the penalty to zero.** For an independent isolated-form system (hypotheses of
`C13.chain_independent`; `0 < tol` only for `!=` lines), the penalty that `generate_penalty(generate_conditions(text))`
builds from the SAME text (default penalty types, any positive multiplier) vanishes at the output of
`generate_constraint(generate_solvers(text))`, for every input `x`. -/
theorem constraint_drives_penalty_to_zero [DecidableEq C] (env : Env C K) (isPos : C → Bool) (d : C)
    (hpos : ∀ c, isPos c = true → 0 < env.ι c) (htol : 0 ≤ env.tol) (hrel : 0 ≤ env.rel)
    {k' : K} (hk : 0 < k') (top : K)
    (rels : List (Rel C)) (codes : List (Assign C)) (x : List K)
    (hrec : List.Forall₂ (fun r c => recognise isPos d r c = true) rels codes)
    (hlen : ∀ r ∈ rels, r.i < x.length)
    (hnodup : (rels.map (·.i)).Nodup)
    (hfree : ∀ r ∈ rels, ∀ r' ∈ rels, r'.rhs.mentions r.i = false)
    (hB : ∀ c ∈ codes, ∀ r ∈ rels, c.factor.mentions r.i = false)
    (hne : ∀ r ∈ rels, r.cmp = .ne → 0 < env.tol)
    (hd : AllDefined env (condsOf rels) (chain env codes x)) :
    penalty env k' top (condsOf rels) (chain env codes x) = 0 := by
  rw [(penalty_zero_iff env hk top _ _ hd).1]
  intro te hte
  simp only [condsOf, List.mem_map] at hte
  obtain ⟨r, hr, rfl⟩ := hte
  have hm := chain_enforces_margin env isPos d hpos htol hrel rels codes x hrec hlen hnodup hfree hB hne r hr
  have hrc : recogniseCond r.toRel2 (condEmit r.toRel2).1 (condEmit r.toRel2).2 = true := by
    simp [recogniseCond]
  have := (condition_exact env r.toRel2 _ _ (chain env codes x) hrc).mpr hm
  have hk : ((condEmit r.toRel2).1.default).kind = (condEmit r.toRel2).1 := by
    cases (condEmit r.toRel2).1 <;> rfl
  simp only [hk]; exact this


/-! ## `generate_penalty(..., join=and_ / or_)` -/

private theorem group_pen (env : Env C K) {k' : K} (hk : 0 < k') (top : K) (groups : List (List (PType × Expr C)))
    (x : List K) (hd : ∀ g ∈ groups, AllDefined env g x) :
    ∀ p ∈ groups.map (fun g => penalty env k' top g x), 0 ≤ p := by
  intro p hp
  simp only [List.mem_map] at hp
  obtain ⟨g, hg, rfl⟩ := hp
  exact (penalty_zero_iff env hk top g x (hd g hg)).2

/-- **`join=and_`: zero exactly where every line holds.** The penalty `generate_penalty(groups, ptype, join=coupler.and_)`
(`kj * |sum of the group penalties|`, `kj = 1` in the code) with positive multipliers and conforming types is zero
exactly at the points where every condition of every group is satisfied. -/
theorem penjoin_and_zero_iff (env : Env C K) {k' kj : K} (hk : 0 < k') (hkj : 0 < kj) (top : K)
    (groups : List (List (PType × Expr C))) (x : List K) (hd : ∀ g ∈ groups, AllDefined env g x) :
    ∃ v, penJoin env k' top kj .and_ groups x = some v ∧
      (v = 0 ↔ ∀ g ∈ groups, ∀ te ∈ g, te.1.kind.satisfied (te.2.eval env x)) := by
  refine ⟨_, rfl, ?_⟩
  have hnn := group_pen env hk top groups x hd
  obtain ⟨hs, hz⟩ := sum_zero_iff' _ hnn
  rw [add_zero, mul_eq_zero, absR_eq_zero, sumL_eq, hz]
  constructor
  · rintro (h | h)
    · exact absurd h hkj.ne'
    · intro g hg
      have := h _ (List.mem_map.mpr ⟨g, hg, rfl⟩)
      exact (penalty_zero_iff env hk top g x (hd g hg)).1.mp this
  · intro h
    right
    intro p hp
    simp only [List.mem_map] at hp
    obtain ⟨g, hg, rfl⟩ := hp
    exact (penalty_zero_iff env hk top g x (hd g hg)).1.mpr (h g hg)

/-- **`join=or_`: zero exactly where at least one group holds.** `generate_penalty(groups, ptype, join=coupler.or_)`
(`kj * |min of the group penalties|`) is zero exactly at the points where all conditions of AT LEAST ONE group are
satisfied - with one condition per group: where at least one line holds. -/
theorem penjoin_or_zero_iff (env : Env C K) {k' kj : K} (hk : 0 < k') (hkj : 0 < kj) (top : K)
    (g0 : List (PType × Expr C)) (groups : List (List (PType × Expr C))) (x : List K)
    (hd : ∀ g ∈ g0 :: groups, AllDefined env g x) :
    ∃ v, penJoin env k' top kj .or_ (g0 :: groups) x = some v ∧
      (v = 0 ↔ ∃ g ∈ g0 :: groups, ∀ te ∈ g, te.1.kind.satisfied (te.2.eval env x)) := by
  refine ⟨_, rfl, ?_⟩
  have hnn := group_pen env hk top (g0 :: groups) x hd
  simp only [List.map_cons, List.mem_cons, forall_eq_or_imp] at hnn
  obtain ⟨_, hz⟩ := foldl_pyMin_zero_iff _ _ hnn.1 hnn.2
  have hg0 := (penalty_zero_iff env hk top g0 x (hd g0 (by simp))).1
  simp only [List.map_cons]
  rw [add_zero, mul_eq_zero, absR_eq_zero, hz, hg0]
  simp only [List.mem_cons, exists_eq_or_imp, List.mem_map]
  constructor
  · rintro (h | h | ⟨q, ⟨g, hg, rfl⟩, hq⟩)
    · exact absurd h hkj.ne'
    · exact Or.inl h
    · exact Or.inr ⟨g, hg, (penalty_zero_iff env hk top g x (hd g (by simp [hg]))).1.mp hq⟩
  · rintro (h | ⟨g, hg, h⟩)
    · exact Or.inr (Or.inl h)
    · exact Or.inr (Or.inr ⟨_, ⟨g, hg, rfl⟩, (penalty_zero_iff env hk top g x (hd g (by simp [hg]))).1.mpr h⟩)

/-- the joined penalty is never negative -/
theorem penjoin_nonneg (env : Env C K) {k' kj : K} (hkj : 0 < kj) (top : K) (j : PJoin)
    (groups : List (List (PType × Expr C))) (x : List K) (v : K)
    (h : penJoin env k' top kj j groups x = some v) : 0 ≤ v := by
  unfold penJoin at h
  split at h
  · simp only [Option.some.injEq] at h; rw [← h, add_zero]; exact mul_nonneg hkj.le (absR_nonneg _)
  · simp at h
  · simp only [Option.some.injEq] at h; rw [← h, add_zero]; exact mul_nonneg hkj.le (absR_nonneg _)

/-- `join=or_` over no members raises (`min()` of an empty sequence) -/
theorem penjoin_or_empty (env : Env C K) (k' top kj : K) (x : List K) :
    penJoin env k' top kj .or_ [] x = none := rfl

/-! ## non-vacuity -/

/-- the text `x0 - 2*x1 >= 3`, `x0 = x2` : accepted conditions, a feasible and an infeasible point -/
example :
    let env : Env Nat ℚ := { ι := fun n => (n : ℚ), tol := 1 / 1000, rel := 1 / 1000 }
    let r1 : Rel2 Nat := ⟨.sub (.var 0) (.mul (.num 2) (.var 1)), .ge, .num 3⟩
    let r2 : Rel2 Nat := ⟨.var 0, .eq, .var 2⟩
    let ts := [((condEmit r1).1.default, (condEmit r1).2), ((condEmit r2).1.default, (condEmit r2).2)]
    recogniseCond r1 (condEmit r1).1 (condEmit r1).2 = true ∧
    AllDefined env ts [5, 1, 5] ∧ penalty env 100 0 ts [5, 1, 5] = 0 ∧ penalty env 100 0 ts [4, 1, 5] = 300 := by
  refine ⟨by decide, ?_, ?_, ?_⟩
  · intro te hte; simp only [List.mem_cons, List.mem_nil_iff, or_false] at hte
    rcases hte with rfl | rfl <;> simp [condEmit, Expr.defined]
  · simp only [penalty, condEmit, Kind.default, List.foldl, Expr.defined, Expr.eval, PType.term, pyMax]
    norm_num
  · simp only [penalty, condEmit, Kind.default, List.foldl, Expr.defined, Expr.eval, PType.term, pyMax]
    norm_num

/-- `join=and_` / `join=or_` over the two one-line groups `x0 <= 1`, `x0 = x1` at `[0, 3]` (first satisfied, second violated by 3;
`k' = 100`): `and_` gives `|0 + 900| = 900`, `or_` gives `|min(0, 900)| = 0`; at `[2, 2]` (first violated, second satisfied) likewise;
at `[2, 3]` both are positive -/
example :
    let env : Env Nat ℚ := { ι := fun n => (n : ℚ), tol := 0, rel := 0 }
    let g1 : List (PType × Expr Nat) := [(.qIneq, .sub (.var 0) (.num 1))]
    let g2 : List (PType × Expr Nat) := [(.qEq, .sub (.var 0) (.var 1))]
    penJoin env 100 0 1 .and_ [g1, g2] [0, 3] = some 900 ∧ penJoin env 100 0 1 .or_ [g1, g2] [0, 3] = some 0 ∧
    penJoin env 100 0 1 .and_ [g1, g2] [2, 2] = some 200 ∧ penJoin env 100 0 1 .or_ [g1, g2] [2, 2] = some 0 ∧
    penJoin env 100 0 1 .or_ [g1, g2] [2, 3] = some 100 ∧
    (∀ g ∈ [g1, g2], ∀ te ∈ g, te.2.defined env [0, 3] = true) := by      -- = AllDefined env g [0, 3]
  refine ⟨?_, ?_, ?_, ?_, ?_, by decide⟩ <;>
    simp only [penJoin, List.map, penalty, sumL, List.foldl, Expr.defined, Expr.eval, PType.term, pyMax, pyMin, absR] <;>
    norm_num

end MysticVerif.C14
