/-
C17 - the penalty-combinator clause, stated on the penalty-OBJECT model of C15 (`Model/PenaltyTree.lean`:
`coupler.and_ / or_ / not_` build a penalty whose condition evaluates live member penalty objects).
"and_/or_ are zero exactly where all / any member penalties are zero; not_ penalises exactly the interior of the
region its member accepts."  `K` is any linearly ordered field; scalar operations read through `LawfulPenOps`.
The combined object is `T(cond, k, h)(lambda x: 0.)` (coupler.py l.205/248/289): base function zero.
-/
import MysticVerif.Proofs.Penalty
import MysticVerif.Proofs.PenaltyTree
import Mathlib.Algebra.Order.BigOperators.Group.List

set_option linter.unusedSectionVars false

namespace MysticVerif.C17
open MysticVerif.Pen MysticVerif.C15

variable {K : Type} [Field K] [LinearOrder K] [IsStrictOrderedRing K] [PenOps K] [LawfulPenOps K]

private theorem hp_of_pos {h : K} (hh : 0 < h) (n : Int) : ¬ (h = 0 ∧ n < 0) :=
  fun hc => (ne_of_gt hh) hc.1

private theorem andCond_eq (vals : List K) : andCond vals = vals.sum := by
  unfold andCond; rw [foldl_add_eq]; simp

private theorem sum_zero_iff' : ∀ (ps : List K), (∀ p ∈ ps, 0 ≤ p) → (ps.sum = 0 ↔ ∀ p ∈ ps, p = 0)
  | [], _ => by simp
  | p :: ps, h => by
    have hp : 0 ≤ p := h p (by simp)
    have hps : ∀ q ∈ ps, 0 ≤ q := fun q hq => h q (by simp [hq])
    have ih := sum_zero_iff' ps hps
    have hs : 0 ≤ ps.sum := List.sum_nonneg hps
    simp only [List.sum_cons, List.mem_cons, forall_eq_or_imp]
    constructor
    · intro h0
      have h1 : p = 0 := by linarith
      have h2 : ps.sum = 0 := by linarith
      exact ⟨h1, ih.mp h2⟩
    · rintro ⟨h1, h2⟩
      rw [h1, ih.mpr h2]; simp

private theorem orCond_zero_iff : ∀ (vals : List K) (v : K), 0 ≤ v → (∀ u ∈ vals, 0 ≤ u) →
    (0 ≤ orCond v vals ∧ (orCond v vals = 0 ↔ v = 0 ∨ ∃ u ∈ vals, u = 0))
  | [], v, hv, _ => by simp [orCond, hv]
  | a :: vs, v, hv, h0 => by
    have ha := h0 a (by simp)
    have hm : pyMin v a = min v a := pyMin_eq v a
    obtain ⟨h1, h2⟩ := orCond_zero_iff vs (min v a) (le_min hv ha) (fun u hu => h0 u (by simp [hu]))
    unfold orCond at h1 h2 ⊢
    simp only [List.foldl_cons, hm]
    refine ⟨h1, ?_⟩
    rw [h2]
    simp only [List.mem_cons, exists_eq_or_imp]
    constructor
    · rintro (hmn | hmn)
      · rcases le_total v a with hle | hle
        · rw [min_eq_left hle] at hmn; exact Or.inl hmn
        · rw [min_eq_right hle] at hmn; exact Or.inr (Or.inl hmn)
      · exact Or.inr (Or.inr hmn)
    · rintro (hmn | hmn | hmn)
      · left; rw [hmn]; exact min_eq_left ha
      · left; rw [hmn]; exact min_eq_right hv
      · exact Or.inr hmn

/-- **penalty and_ (object level).**  `coupler.and_(p1..pm, k=k, h=h)` (default type `linear_equality`), at ANY
penalty iteration `n`: where every member returns a value (`vals`), none of them negative, the combined object
returns `k*h^n*|Σ vals|`, which is never negative and is ZERO EXACTLY WHERE ALL member penalties are zero. -/
theorem pen_tree_and_zero (env : Env K) (k h : K) (n : Int) (y : List K) (ms : PL K) (z : Nat) (vals : List K)
    (hk : 0 < k) (hh : 0 < h) (hz : env.f z = 0)
    (hv : valsL env ms = some vals) (h0 : ∀ v ∈ vals, 0 ≤ v) :
    evalT env (.pen { t := .lEq, k := k, h := h, n := n, y := y } (.and ms) (.base z))
        = .ok (k * h ^ n * |vals.sum| + 0)
      ∧ (k * h ^ n * |vals.sum| + 0 = 0 ↔ ∀ u ∈ vals, u = 0) := by
  have hpos : 0 < k * h ^ n := mul_pos hk (zpow_pos hh n)
  constructor
  · simp only [evalT, condV, hv, term_lEq k h n y _ (hp_of_pos hh n), hz, andCond_eq]
  · rw [add_zero, mul_eq_zero, abs_eq_zero, sum_zero_iff' vals h0]
    constructor
    · rintro (hc | hc)
      · exact absurd hc (ne_of_gt hpos)
      · exact hc
    · exact fun hc => Or.inr hc

/-- a member that raises (`ZeroDivisionError`) makes the combination `inf`, not zero -/
theorem pen_tree_and_raise (env : Env K) (l : Level K) (ms : PL K) (z : Nat) (hv : valsL env ms = none) :
    evalT env (.pen l (.and ms) (.base z)) = .ok PenOps.inf := by
  simp only [evalT, condV, hv]

/-- **penalty or_ (object level).**  `coupler.or_(p0, p1..pm, k=k, h=h)`: the combined object returns
`k*h^n*|min vals|`: ZERO EXACTLY WHERE SOME member penalty is zero. -/
theorem pen_tree_or_zero (env : Env K) (k h : K) (n : Int) (y : List K) (m : PT K) (ms : PL K) (z : Nat)
    (v : K) (vals : List K) (hk : 0 < k) (hh : 0 < h) (hz : env.f z = 0)
    (hm : evalT env m = .ok v) (hv : valsL env ms = some vals) (hv0 : 0 ≤ v) (h0 : ∀ u ∈ vals, 0 ≤ u) :
    evalT env (.pen { t := .lEq, k := k, h := h, n := n, y := y } (.or m ms) (.base z))
        = .ok (k * h ^ n * |orCond v vals| + 0)
      ∧ (k * h ^ n * |orCond v vals| + 0 = 0 ↔ v = 0 ∨ ∃ u ∈ vals, u = 0) := by
  have hpos : 0 < k * h ^ n := mul_pos hk (zpow_pos hh n)
  obtain ⟨_, h2⟩ := orCond_zero_iff vals v hv0 h0
  constructor
  · simp only [evalT, condV, hm, hv, term_lEq k h n y _ (hp_of_pos hh n), hz]
  · rw [add_zero, mul_eq_zero, abs_eq_zero, h2]
    constructor
    · rintro (hc | hc)
      · exact absurd hc (ne_of_gt hpos)
      · exact hc
    · exact fun hc => Or.inr hc

/-- **penalty not_ (object level), inequality member types.**  `coupler.not_(p)` over a member of type
`uniform/quadratic/linear_inequality` (which ACCEPTS `cond x ≤ 0`) re-wraps `0 - cond` in the member's type:
the result is positive EXACTLY on the interior `cond x < 0` of the accepted region, and zero elsewhere. -/
theorem pen_tree_not_ineq (env : Env K) (l : Level K) (c : PC K) (z : Nat) (v : K)
    (ht : l.t = .uIneq ∨ l.t = .qIneq ∨ l.t = .lIneq) (hk : 0 < l.k) (hh : 0 < l.h) (hz : env.f z = 0)
    (hc : condV env c = some v) :
    ∃ w, evalT env (.pen l (.not l.t c) (.base z)) = .ok w ∧ 0 ≤ w ∧ (0 < w ↔ v < 0) := by
  obtain ⟨t, k, h, n, y⟩ := l
  simp only at ht hk hh
  have hpos : 0 < k * h ^ n := mul_pos hk (zpow_pos hh n)
  have hp := hp_of_pos hh n
  rcases ht with rfl | rfl | rfl
  · by_cases hv : v < 0
    · refine ⟨k * h ^ n + 0, ?_, by linarith, by simp [hv, hpos]⟩
      simp only [evalT, condV, hc, notCond, PType.isEq, Bool.false_eq_true, if_false,
        term_uIneq_gt k h n y (0 - v) (by linarith) hp, hz]
    · refine ⟨0 + 0, ?_, by simp, by simp [hv]⟩
      simp only [evalT, condV, hc, notCond, PType.isEq, Bool.false_eq_true, if_false,
        term_uIneq_le k h n y (0 - v) (by linarith [not_lt.mp hv]), hz]
  · refine ⟨2 * k * h ^ n * (max 0 (0 - v)) ^ 2 + 0, ?_, ?_, ?_⟩
    · simp only [evalT, condV, hc, notCond, PType.isEq, Bool.false_eq_true, if_false,
        term_qIneq k h n y (0 - v) hp, hz]
    · have : 0 ≤ 2 * k * h ^ n := by nlinarith
      have := mul_nonneg this (sq_nonneg (max 0 (0 - v))); linarith
    · by_cases hv : v < 0
      · have hm : max 0 (0 - v) = -v := by rw [max_eq_right (by linarith)]; ring
        rw [hm]
        have : 0 < 2 * k * h ^ n * (-v) ^ 2 := by
          have h1 : 0 < 2 * k * h ^ n := by nlinarith
          have h2 : 0 < (-v) ^ 2 := pow_pos (by linarith) 2
          exact mul_pos h1 h2
        simp [hv]; linarith
      · have hm : max 0 (0 - v) = 0 := max_eq_left (by linarith [not_lt.mp hv])
        rw [hm]; simp [hv]
  · refine ⟨2 * k * h ^ n * max 0 (0 - v) + 0, ?_, ?_, ?_⟩
    · simp only [evalT, condV, hc, notCond, PType.isEq, Bool.false_eq_true, if_false,
        term_lIneq k h n y (0 - v) hp, hz]
    · have : 0 ≤ 2 * k * h ^ n := by nlinarith
      have := mul_nonneg this (le_max_left 0 (0 - v)); linarith
    · by_cases hv : v < 0
      · have hm : max 0 (0 - v) = -v := by rw [max_eq_right (by linarith)]; ring
        rw [hm]
        have : 0 < 2 * k * h ^ n * (-v) := by
          have h1 : 0 < 2 * k * h ^ n := by nlinarith
          exact mul_pos h1 (by linarith)
        simp [hv]; linarith
      · have hm : max 0 (0 - v) = 0 := max_eq_left (by linarith [not_lt.mp hv])
        rw [hm]; simp [hv]

/-- **penalty not_ (object level), equality member types.**  Over a member of type
`quadratic/linear/uniform_equality` (which ACCEPTS `cond x = 0`) `not_` re-wraps `not cond` (1 where `cond x = 0`,
else 0): the result is positive EXACTLY where the member accepts, and zero elsewhere. -/
theorem pen_tree_not_eq (env : Env K) (l : Level K) (c : PC K) (z : Nat) (v : K)
    (ht : l.t = .qEq ∨ l.t = .lEq ∨ l.t = .uEq) (hk : 0 < l.k) (hh : 0 < l.h) (hz : env.f z = 0)
    (hc : condV env c = some v) :
    ∃ w, evalT env (.pen l (.not l.t c) (.base z)) = .ok w ∧ 0 ≤ w ∧ (0 < w ↔ v = 0) := by
  obtain ⟨t, k, h, n, y⟩ := l
  simp only at ht hk hh
  have hpos : 0 < k * h ^ n := mul_pos hk (zpow_pos hh n)
  have hp := hp_of_pos hh n
  by_cases hv : v = 0
  · have hb : (v == 0) = true := by simp [hv]
    rcases ht with rfl | rfl | rfl
    · refine ⟨k * h ^ n * 1 ^ 2 + 0, ?_, by simp; linarith, by simp [hv, hpos]⟩
      simp only [evalT, condV, hc, notCond, PType.isEq, if_true, hb, term_qEq k h n y 1 hp, hz]
    · refine ⟨k * h ^ n * |1| + 0, ?_, by simp; linarith, by simp [hv, hpos]⟩
      simp only [evalT, condV, hc, notCond, PType.isEq, if_true, hb, term_lEq k h n y 1 hp, hz]
    · refine ⟨k * h ^ n + 0, ?_, by linarith, by simp [hv, hpos]⟩
      simp only [evalT, condV, hc, notCond, PType.isEq, if_true, hb,
        term_uEq_ne k h n y 1 one_ne_zero hp, hz]
  · have hb : (v == 0) = false := by simp [hv]
    rcases ht with rfl | rfl | rfl
    · refine ⟨k * h ^ n * 0 ^ 2 + 0, ?_, by simp, by simp [hv]⟩
      simp only [evalT, condV, hc, notCond, PType.isEq, if_true, hb, Bool.false_eq_true, if_false,
        term_qEq k h n y 0 hp, hz]
    · refine ⟨k * h ^ n * |0| + 0, ?_, by simp, by simp [hv]⟩
      simp only [evalT, condV, hc, notCond, PType.isEq, if_true, hb, Bool.false_eq_true, if_false,
        term_lEq k h n y 0 hp, hz]
    · refine ⟨0 + 0, ?_, by simp, by simp [hv]⟩
      simp only [evalT, condV, hc, notCond, PType.isEq, if_true, hb, Bool.false_eq_true, if_false,
        term_uEq_zero k h n y, hz]

end MysticVerif.C17
