/-
C17, call SEQUENCES on one combinator object (Model/CombinatorsSeq): the object `and_(c1..cn)` / `or_(..)` /
`not_(c)` is built once and called many times (a solver calls it on every candidate).  The property's clauses
hold for EVERY call of EVERY sequence - not only for the first call of a fresh object - because nothing survives
from one call to the next: the k-th answer of the object is the answer a freshly built object gives on the k-th
input (`seq_*_fresh`), and for stateful members (oracles indexed by the global member-call number) the oracle forms
of the clauses hold at the global call numbers the k-th call covers (`seq_*_oracle`).

`seq_restart_needed_witness` shows that this is a fact about the code as it is and not a triviality: ONE
variation - the member iterator of the cycling phase surviving from call to call, i.e. the cycling phase of a later
call starting at member 1 instead of member 0 - makes `and_` report success for two idempotent, compatible members
at a vector that member 0 still changes.
-/
import MysticVerif.Model.CombinatorsSeq
import MysticVerif.Props.C17.Ext

namespace MysticVerif.C17S
open MysticVerif.CombX MysticVerif.CombSeq
open MysticVerif.Comb (Stats)

variable {X D I : Type}

/-! ## the sequence runner -/

theorem seqRun_length (f : Nat → I → ResX X × Stats) :
    ∀ (is : List I) (g0 : Nat), (seqRun f g0 is).length = is.length
  | [], _ => by simp [seqRun]
  | _ :: rest, g0 => by simp [seqRun, seqRun_length f rest]

/-- call `k` of the sequence is `f` run at the global call number `offset .. k` on the k-th input -/
theorem seqRun_get (f : Nat → I → ResX X × Stats) :
    ∀ (is : List I) (g0 k : Nat), (seqRun f g0 is)[k]? = is[k]?.map (f (offset f g0 is k))
  | [], _, _ => by simp [seqRun]
  | _ :: _, _, 0 => by simp [seqRun, offset]
  | _ :: rest, g0, k + 1 => by simp [seqRun, offset, seqRun_get f rest]

/-- the global call counter advances by exactly the member calls the k-th call of the object made -/
theorem offset_succ (f : Nat → I → ResX X × Stats) :
    ∀ (is : List I) (g0 k : Nat),
      offset f g0 is (k + 1) = offset f g0 is k + (((seqRun f g0 is)[k]?).map (·.2.calls)).getD 0
  | [], g0, k => by cases k <;> simp [seqRun, offset]
  | _ :: _, _, 0 => by simp [seqRun, offset]
  | i :: rest, g0, k + 1 => by
    have := offset_succ f rest (g0 + (f g0 i).2.calls) k
    simpa [seqRun, offset] using this

theorem seqRun_mem (f : Nat → I → ResX X × Stats) :
    ∀ (is : List I) (g0 : Nat) (r : ResX X × Stats), r ∈ seqRun f g0 is → ∃ g i, g0 ≤ g ∧ i ∈ is ∧ r = f g i
  | [], _, r => by simp [seqRun]
  | i :: rest, g0, r => by
    intro h
    simp only [seqRun, List.mem_cons] at h
    rcases h with h | h
    · exact ⟨g0, i, Nat.le_refl _, by simp, h⟩
    · obtain ⟨g, i', hg, hi, hr⟩ := seqRun_mem f rest _ r h
      exact ⟨g, i', by omega, by simp [hi], hr⟩

/-- a runner that ignores the call counter answers every input as if it were the first -/
theorem seqRun_const (f : Nat → I → ResX X × Stats) (f' : I → ResX X × Stats) (h : ∀ g i, f g i = f' i) :
    ∀ (is : List I) (g0 : Nat), seqRun f g0 is = is.map f'
  | [], _ => by simp [seqRun]
  | i :: rest, g0 => by simp [seqRun, h, seqRun_const f f' h rest]

theorem view_pure (c : Nat → Nat → X → Out X) (mem : Nat → X → Out X) (h : ∀ g i v, c g i v = mem i v)
    (n g0 : Nat) : view c n g0 = detc mem n := by
  funext j v; simp [view, detc, h]

theorem view1_pure (c : Nat → Nat → X → Out X) (mem : X → Out X) (h : ∀ g i v, c g i v = mem v)
    (g0 : Nat) : view1 c g0 = fun _ => mem := by
  funext j v; simp [view1, h]

/-! ## and_ -/

/-- **and_ object, any members (stateful, raising, shared), any call sequence.**  If call `k` of the object reports
success with `(y, t, links)`, then each of the newest `min links (n-1)` history links of THAT call is a member call
that returned `y` unchanged: global call number `g_k + (t - m)`, made to member `(t - m) % n`. -/
theorem seq_and_success_links_oracle [BEq X] [LawfulBEq X] (c : Nat → Nat → X → Out X) (rand : D → X → X)
    (n cap g0 : Nat) (calls : List (X × List D)) (k : Nat) (y : X) (t links : Nat) (st : Stats)
    (hk : (andSeq c rand n cap g0 calls)[k]? = some (.success y t links, st)) :
    ∀ m, m < links → m + 1 < n →
      c (offset (fun g p => and_ (view c n g) rand n cap p.1 p.2) g0 calls k + (t - m)) ((t - m) % n) y = .ret y := by
  intro m hm hmn
  unfold andSeq at hk
  rw [seqRun_get] at hk
  cases hp : calls[k]? with
  | none => simp [hp] at hk
  | some p =>
    simp only [hp, Option.map_some, Option.some.injEq] at hk
    exact C17X.and_success_links_oracle _ rand n cap p.1 p.2 y t links st hk m hm hmn

/-- **no state leaks (and_).**  With pure members the object answers every input of every sequence exactly as a
freshly built `and_` answers it as its first input. -/
theorem seq_and_fresh [BEq X] (c : Nat → Nat → X → Out X) (mem : Nat → X → Out X)
    (hpure : ∀ g i v, c g i v = mem i v) (rand : D → X → X) (n cap g0 : Nat) (calls : List (X × List D)) :
    andSeq c rand n cap g0 calls = calls.map (fun p => and_ (detc mem n) rand n cap p.1 p.2) := by
  unfold andSeq
  apply seqRun_const
  intro g p
  rw [view_pure c mem hpure]

/-- the k-th answer is the fresh object's answer on the k-th input -/
theorem seq_and_get_fresh [BEq X] (c : Nat → Nat → X → Out X) (mem : Nat → X → Out X)
    (hpure : ∀ g i v, c g i v = mem i v) (rand : D → X → X) (n cap g0 : Nat) (calls : List (X × List D)) (k : Nat) :
    (andSeq c rand n cap g0 calls)[k]? = calls[k]?.map (fun p => and_ (detc mem n) rand n cap p.1 p.2) := by
  rw [seq_and_fresh c mem hpure]; simp

/-- **and_ object / all but one**, every call of every sequence (pure members, intact window) -/
theorem seq_and_success_fixed_all_but_one [BEq X] [LawfulBEq X] (c : Nat → Nat → X → Out X)
    (mem : Nat → X → Out X) (hpure : ∀ g i v, c g i v = mem i v) (rand : D → X → X)
    (n cap g0 : Nat) (calls : List (X × List D)) (y : X) (t links : Nat) (st : Stats)
    (hr : (.success y t links, st) ∈ andSeq c rand n cap g0 calls) (hlinks : n - 1 ≤ links) :
    ∀ i, i < n → i ≠ (t + 1) % n → mem i y = .ret y := by
  rw [seq_and_fresh c mem hpure, List.mem_map] at hr
  obtain ⟨p, _, hp⟩ := hr
  exact C17X.and_success_fixed_all_but_one mem rand n cap p.1 p.2 y t links st hp hlinks

/-- **and_ object / fixed point**: whenever ANY call of ANY sequence on one `and_` object over pure idempotent
members reports success with an intact window, the returned vector is left unchanged by every member. -/
theorem seq_and_success_fixed [BEq X] [LawfulBEq X] (c : Nat → Nat → X → Out X)
    (mem : Nat → X → Out X) (hpure : ∀ g i v, c g i v = mem i v) (rand : D → X → X)
    (n cap g0 : Nat) (calls : List (X × List D)) (y : X) (t links : Nat) (st : Stats)
    (hidem : ∀ i, i < n → C17X.Idem (mem i))
    (hr : (.success y t links, st) ∈ andSeq c rand n cap g0 calls) (hlinks : n ≤ links) :
    ∀ i, i < n → mem i y = .ret y := by
  rw [seq_and_fresh c mem hpure, List.mem_map] at hr
  obtain ⟨p, _, hp⟩ := hr
  exact C17X.and_success_fixed mem rand n cap p.1 p.2 y t links st hidem hp hlinks

/-- bounded work per call, whatever happened in earlier calls and whatever the members do -/
theorem seq_and_calls_bounded [BEq X] (c : Nat → Nat → X → Out X) (rand : D → X → X)
    (n cap g0 : Nat) (calls : List (X × List D)) :
    ∀ r ∈ andSeq c rand n cap g0 calls, r.2.calls ≤ max n cap := by
  intro r hr
  obtain ⟨g, p, _, _, rfl⟩ := seqRun_mem _ _ _ _ hr
  exact C17X.and_calls_bounded _ rand n cap p.1 p.2

/-! ## or_ -/

/-- **or_ object, any members, any call sequence**: a success of call `k` returns a vector that one member call of
that very call (global number `g_k + j`, made to member `j % n`) returned unchanged. -/
theorem seq_or_success_fixed_oracle [BEq X] [LawfulBEq X] (c : Nat → Nat → X → Out X) (pick : D → Nat)
    (n cap g0 : Nat) (calls : List (X × List D)) (k : Nat) (y : X) (t links : Nat) (st : Stats)
    (hk : (orSeq c pick n cap g0 calls)[k]? = some (.success y t links, st)) :
    ∃ j, c (offset (fun g p => or_ (view c n g) pick n cap p.1 p.2) g0 calls k + j) (j % n) y = .ret y := by
  unfold orSeq at hk
  rw [seqRun_get] at hk
  cases hp : calls[k]? with
  | none => simp [hp] at hk
  | some p =>
    simp only [hp, Option.map_some, Option.some.injEq] at hk
    exact C17X.or_success_fixed_oracle _ pick n cap p.1 p.2 y t links st hk

/-- **no state leaks (or_)** -/
theorem seq_or_fresh [BEq X] (c : Nat → Nat → X → Out X) (mem : Nat → X → Out X)
    (hpure : ∀ g i v, c g i v = mem i v) (pick : D → Nat) (n cap g0 : Nat) (calls : List (X × List D)) :
    orSeq c pick n cap g0 calls = calls.map (fun p => or_ (detc mem n) pick n cap p.1 p.2) := by
  unfold orSeq
  apply seqRun_const
  intro g p
  rw [view_pure c mem hpure]

/-- **or_ object**: every success of every call of every sequence is left unchanged by at least one member -/
theorem seq_or_success_fixed [BEq X] [LawfulBEq X] (c : Nat → Nat → X → Out X)
    (mem : Nat → X → Out X) (hpure : ∀ g i v, c g i v = mem i v) (pick : D → Nat)
    (n cap g0 : Nat) (calls : List (X × List D)) (y : X) (t links : Nat) (st : Stats)
    (hcap : n = 0 → cap = 0)
    (hr : (.success y t links, st) ∈ orSeq c pick n cap g0 calls) : ∃ i, i < n ∧ mem i y = .ret y := by
  rw [seq_or_fresh c mem hpure, List.mem_map] at hr
  obtain ⟨p, _, hp⟩ := hr
  exact C17X.or_success_fixed mem pick n cap p.1 p.2 y t links st hcap hp

/-! ## not_ -/

/-- **not_ object, any member, any call sequence**: a success of call `k` returns a vector that the member call
that examined it (global number `g_k + t`) changed. -/
theorem seq_not_success_moved_oracle [BEq X] [LawfulBEq X] (c : Nat → Nat → X → Out X) (rand : D → X → X)
    (maxiter g0 : Nat) (calls : List (X × List D)) (k : Nat) (y : X) (t links : Nat) (st : Stats)
    (hk : (notSeq c rand maxiter g0 calls)[k]? = some (.success y t links, st)) :
    ∃ z, c (offset (fun g p => not_ (view1 c g) rand maxiter p.1 p.2) g0 calls k + t) 0 y = .ret z ∧ z ≠ y := by
  unfold notSeq at hk
  rw [seqRun_get] at hk
  cases hp : calls[k]? with
  | none => simp [hp] at hk
  | some p =>
    simp only [hp, Option.map_some, Option.some.injEq] at hk
    exact C17X.not_success_moved_oracle _ rand maxiter p.1 p.2 y t links st hk

/-- **no state leaks (not_)** -/
theorem seq_not_fresh [BEq X] (c : Nat → Nat → X → Out X) (mem : X → Out X)
    (hpure : ∀ g i v, c g i v = mem v) (rand : D → X → X) (maxiter g0 : Nat) (calls : List (X × List D)) :
    notSeq c rand maxiter g0 calls = calls.map (fun p => not_ (fun _ => mem) rand maxiter p.1 p.2) := by
  unfold notSeq
  apply seqRun_const
  intro g p
  rw [view1_pure c mem hpure]

/-- **not_ object**: every success of every call of every sequence is changed by the member -/
theorem seq_not_success_moved [BEq X] [LawfulBEq X] (c : Nat → Nat → X → Out X) (mem : X → Out X)
    (hpure : ∀ g i v, c g i v = mem v) (rand : D → X → X) (maxiter g0 : Nat) (calls : List (X × List D))
    (y : X) (t links : Nat) (st : Stats)
    (hr : (.success y t links, st) ∈ notSeq c rand maxiter g0 calls) : ∃ z, mem y = .ret z ∧ z ≠ y := by
  rw [seq_not_fresh c mem hpure, List.mem_map] at hr
  obtain ⟨p, _, hp⟩ := hr
  exact C17X.not_success_moved mem rand maxiter p.1 p.2 y t links st hp

/-! ## why the restart of the member iterator matters; non-vacuity -/

/-- members of the witness: `m0` imposes `a ≥ b` (raises `a`), `m1` imposes `b ≥ 1` (raises `b`): idempotent, compatible -/
def wm : Nat → Int × Int → Out (Int × Int) := fun i p =>
  if i = 0 then (if p.1 < p.2 then .ret (p.2, p.2) else .ret p) else (if p.2 < 1 then .ret (p.1, 1) else .ret p)

/-- the variation: the cycling phase (local calls `j ≥ n`) starts at member 1 instead of member 0 - what a member
iterator kept from an earlier call that stopped mid-round would do -/
def shifted (mem : Nat → X → Out X) (n : Nat) : Nat → X → Out X :=
  fun j => if j < n then mem j else mem ((j + 1) % n)

/-- with the iterator position carried over, `and_` reports success at `(0, 1)`, which member 0 changes to `(1, 1)`;
the model as it is (`detc`, restart at member 0) returns the common fixed point `(1, 1)` on the same input. -/
theorem seq_restart_needed_witness :
    (and_ (shifted wm 2) (fun (_ : Unit) p => p) 2 20 ((0, 0) : Int × Int) []).1 = .success (0, 1) 2 3
    ∧ wm 0 (0, 1) = .ret (1, 1)
    ∧ (and_ (detc wm 2) (fun (_ : Unit) p => p) 2 20 ((0, 0) : Int × Int) []).1 = .success (1, 1) 3 4
    ∧ wm 0 (1, 1) = .ret (1, 1) ∧ wm 1 (1, 1) = .ret (1, 1) := by
  decide

/-- a sequence on one object whose first call stops the cycling phase mid-round (3 calls, n = 2) and whose second
call needs the cycling phase again: both answers are common fixed points; the counter advanced by 3 then 4 -/
example : andSeq (fun _ i p => wm i p) (fun (_ : Unit) p => p) 2 20 0 [(((5, 0) : Int × Int), []), ((0, 0), [])]
    = [(.success (5, 1) 2 3, { calls := 3 }), (.success (1, 1) 3 4, { calls := 4 })] := by
  decide

end MysticVerif.C17S
