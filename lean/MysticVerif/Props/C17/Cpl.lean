/-
C17 - couplers with their decorator-time / call-time argument bundles (Model/Couplers.lean), the `_proxy`
variants and `constraints.with_constraint`.  All by unfolding: the content is WHICH function gets WHICH bundle.
-/
import MysticVerif.Model.Couplers

namespace MysticVerif.C17
open MysticVerif.Cpl

variable {X Y Z A B R : Type}

/-- `inner(c, args)(f)(x, *argz) = f(c(x, *args), *argz)` -/
theorem inner_args_spec (c : X → A → Y) (a : A) (f : Y → B → Z) (x : X) (b : B) :
    Cpl.inner c a f x b = f (c x a) b := rfl
/-- `outer(c, args)(f)(x, *argz) = c(f(x, *argz), *args)` -/
theorem outer_args_spec (c : Y → A → Z) (a : A) (f : X → B → Y) (x : X) (b : B) :
    Cpl.outer c a f x b = c (f x b) a := rfl
/-- `additive(p, args)(f)(x, *argz) = f(x, *argz) + p(x, *args)` -/
theorem additive_args_spec [Add R] (p : X → A → R) (a : A) (f : X → B → R) (x : X) (b : B) :
    Cpl.additive p a f x b = f x b + p x a := rfl
/-- the `_proxy` couplers are the plain ones with the two argument bundles exchanged: "passes args and kwds to
the inner [outer / penalty] function instead of the decorated function" -/
theorem proxy_spec [Add R] (c : X → B → Y) (a : A) (f : Y → A → Z) (c' : Y → B → Z) (f' : X → A → Y)
    (p : X → B → R) (g : X → A → R) (x : X) (b : B) :
    innerProxy c a f x b = Cpl.inner c b f x a ∧ innerProxy c a f x b = f (c x b) a ∧
    outerProxy c' a f' x b = Cpl.outer c' b f' x a ∧ outerProxy c' a f' x b = c' (f' x a) b ∧
    additiveProxy p a g x b = Cpl.additive p b g x a ∧ additiveProxy p a g x b = g x a + p x b :=
  ⟨rfl, rfl, rfl, rfl, rfl, rfl⟩
/-- `with_constraint(ctype, args)(t)` is the transformation itself for all four coupler types (the decorated
function is the identity): `x ↦ t(x, *args)` for `inner` / `outer`, `(x, *argz) ↦ t(x, *argz)` for the proxies -/
theorem with_constraint_spec (t : X → A → X) (t' : X → B → X) (a : A) (x : X) (b : B) :
    withConstraintInner t a x = t x a ∧ withConstraintOuter t a x = t x a ∧
    withConstraintInnerProxy t' x b = t' x b ∧ withConstraintOuterProxy t' x b = t' x b :=
  ⟨rfl, rfl, rfl, rfl⟩

/-- non-vacuity: the bundles are really routed differently (`c x a = x + a`, `f y b = y * b`) -/
example : Cpl.inner (fun (x a : Int) => x + a) 10 (fun y b => y * b) 1 2 = 22
    ∧ innerProxy (fun (x b : Int) => x + b) 10 (fun y a => y * a) 1 2 = 30 := by decide

end MysticVerif.C17
