/-
C17 (extension) - the combinator clauses over the EXTENDED model `Model/CombinatorsX.lean`: every `except`
clause of constraints.and_/or_/not_, members as call-indexed oracles, iteration / draw bounds.
Property theorems only (helper lemmas live in Proofs/CombinatorsX.lean).

`c j x` : what member call number `j` (to member `j % n`) does on `x` (`Out`: returned `y`, raised a swallowed
`ZeroDivisionError` / `TypeError`-`ValueError`, raised something that propagates); `detc mem n` = deterministic
members `mem 0 .. mem (n-1)`.  All statements hold for EVERY draw stream `draws` and every replacement function
`rand`/`pick`; the `_oracle` / `_bounded` ones for EVERY member behaviour, deterministic or not.
-/
import MysticVerif.Proofs.CombinatorsX

namespace MysticVerif.C17X
open MysticVerif.CombX
open MysticVerif.Comb (lastAllEq cycHit dropOld dropOldAll Stats LenInv dropOld_length lastAllEq_get)

variable {X D : Type}

/-! ## `constraints.and_` -/

/-- what a success of the cycling phase / first pass guarantees about the history window -/
private theorem andCycle_success [BEq X] [LawfulBEq X] {c : Nat → X → Out X} {rand : D → X → X}
    {n cap : Nat} (hn : 0 < n) :
    ∀ (fuel j : Nat) (h : List X) (top : X) (links : Nat) (draws : List D) (st : Stats)
      (y : X) (t links' : Nat) (st' : Stats),
      n ≤ j → LenInv n j (h.length + 1) → Linked c j (top :: h) links →
      andCycle c rand n cap fuel j h top links draws st = (.success y t links', st') →
      ∃ l, Linked c (t + 1) (y :: l) links' ∧ lastAllEq (n - 1) l y = true ∧ n ≤ l.length ∧ n ≤ t + 1 := by
  intro fuel
  induction fuel with
  | zero => intro j h top links draws st y t links' st' _ _ _ hr; simp [andCycle] at hr
  | succ fuel ih =>
    intro j h top links draws st y t links' st' hj hlen hlink hr
    unfold andCycle at hr
    have hlen' := LenInv.step hn hj hlen
    split at hr
    · simp at hr
    · split at hr
      · simp at hr
      · rename_i ye hye
        have hpush := Linked.push hlink hye
        simp only at hr
        split at hr
        · rename_i hsucc
          simp only [Prod.mk.injEq, ResX.success.injEq] at hr
          obtain ⟨⟨rfl, rfl, rfl⟩, _⟩ := hr
          refine ⟨top :: h, hpush, ?_, ?_, by omega⟩
          · simp only [Bool.and_eq_true] at hsucc; exact hsucc.2
          · have := LenInv.ge hn hj hlen; (first | (simp; done) | (simp; omega))
        · have hlenD : LenInv n (j + 1) ((dropOld n j (top :: h)).length + 1) := by
            rw [dropOld_length]; simpa using hlen'
          split at hr
          · split at hr
            · simp at hr
            · rename_i d ds
              refine ih (j + 1) _ _ _ ds _ y t links' st' (by omega) hlenD ?_ hr
              split
              · rename_i heq
                have : rand d ye.1 = ye.1 := by simpa using heq
                rw [this]; exact Linked.dropOld_tail hpush
              · exact Linked.zero _ _ _
          · exact ih (j + 1) _ _ _ draws _ y t links' st' (by omega) hlenD (Linked.dropOld_tail hpush) hr

private theorem andFirst_inv {c : Nat → X → Out X} :
    ∀ (k i : Nat) (h : List X) (top : X) (e : Bool) (links : Nat) (r : List X × X × Bool × Nat),
      Linked c i (top :: h) links → h.length = i → andFirst c k i h top e links = .ok r →
      Linked c (i + k) (r.2.1 :: r.1) r.2.2.2 ∧ r.1.length = i + k := by
  intro k
  induction k with
  | zero =>
    intro i h top e links r hl hlen hr
    simp only [andFirst, Except.ok.injEq] at hr
    subst hr; exact ⟨by simpa using hl, by simpa using hlen⟩
  | succ k ih =>
    intro i h top e links r hl hlen hr
    unfold andFirst at hr
    split at hr
    · simp at hr
    · rename_i ye hye
      have := ih (i + 1) (top :: h) ye.1 (e || ye.2) (if ye.2 = true then 0 else links + 1) r
        (Linked.push hl hye) (by simp [hlen]) hr
      have e1 : i + 1 + k = i + (k + 1) := by omega
      rw [e1] at this
      exact this

/-- window facts behind every success of `and_` -/
private theorem and_success_window [BEq X] [LawfulBEq X] {c : Nat → X → Out X} {rand : D → X → X}
    {n cap : Nat} {x : X} {draws : List D} {y : X} {t links : Nat} {st : Stats} (hn : 0 < n)
    (hr : and_ c rand n cap x draws = (.success y t links, st)) :
    ∃ l, Linked c (t + 1) (y :: l) links ∧ lastAllEq (n - 1) l y = true ∧ n ≤ l.length ∧ n ≤ t + 1 := by
  unfold and_ at hr
  rw [if_neg (by omega)] at hr
  split at hr
  · simp at hr
  · rename_i fp hfp
    have hinv := andFirst_inv (c := c) n 0 [] x false 0 fp (Linked.zero _ _ _) rfl hfp
    simp only at hr
    split at hr
    · rename_i hs
      simp only [Prod.mk.injEq, ResX.success.injEq] at hr
      obtain ⟨⟨rfl, rfl, rfl⟩, _⟩ := hr
      refine ⟨fp.1, ?_, ?_, by have := hinv.2; omega, by omega⟩
      · have := hinv.1; simp only [Nat.zero_add] at this
        have e : n - 1 + 1 = n := by omega
        rw [e]; exact this
      · simp only [Bool.and_eq_true] at hs; exact hs.2
    · refine andCycle_success hn _ n _ _ _ draws _ y t links st (Nat.le_refl _) ?_ ?_ hr
      · refine ⟨fun _ => by have := hinv.2; omega, fun h2 => by omega⟩
      · have := hinv.1; simpa using this

/-- **and_ / links, for ALL member behaviours** (deterministic or not, raising or not).  On success, each of the
newest `min links (n-1)` history links is a member call that RETURNED the result unchanged: call number `t - m`
(made to member `(t - m) % n`) mapped `y` to `y`, for `m < links`, `m + 1 < n`.
(`links` is the ghost count of genuine member applications since the last swallowed exception or random
replacement that changed a value; it is `≥ n` on every run without such an event inside the window.) -/
theorem and_success_links_oracle [BEq X] [LawfulBEq X] (c : Nat → X → Out X) (rand : D → X → X)
    (n cap : Nat) (x : X) (draws : List D) (y : X) (t links : Nat) (st : Stats)
    (hr : and_ c rand n cap x draws = (.success y t links, st)) :
    ∀ m, m < links → m + 1 < n → c (t - m) y = .ret y := by
  intro m hm hmn
  have hn : 0 < n := by omega
  obtain ⟨l, hl, hw, hlen, _⟩ := and_success_window hn hr
  have hb : (y :: l)[m]? = some y := by
    cases m with
    | zero => simp
    | succ m =>
      have hex : m < l.length := by omega
      have := lastAllEq_get hw (m := m) (by omega) (a := l[m]) (by simp)
      simp only [List.getElem?_cons_succ]; rw [List.getElem?_eq_getElem hex, this]
  have ha : (y :: l)[m + 1]? = some y := by
    have hex : m < l.length := by omega
    have := lastAllEq_get hw (m := m) (by omega) (a := l[m]) (by simp)
    simp only [List.getElem?_cons_succ]; rw [List.getElem?_eq_getElem hex, this]
  have := hl m hm y y hb ha
  have e : t + 1 - 1 - m = t - m := by omega
  rw [e] at this; exact this

/-- **and_ / links**, deterministic members `m 0 .. m (n-1)`: member `(t - k) % n` leaves the result unchanged. -/
theorem and_success_links [BEq X] [LawfulBEq X] (mem : Nat → X → Out X) (rand : D → X → X)
    (n cap : Nat) (x : X) (draws : List D) (y : X) (t links : Nat) (st : Stats)
    (hr : and_ (detc mem n) rand n cap x draws = (.success y t links, st)) :
    ∀ m, m < links → m + 1 < n → mem ((t - m) % n) y = .ret y :=
  and_success_links_oracle (detc mem n) rand n cap x draws y t links st hr

private theorem cover (n t i : Nat) (hi : i < n) (ht : n ≤ t + 1) : ∃ m, m < n ∧ (t - m) % n = i := by
  have hn : 0 < n := by omega
  refine ⟨(t + n - i) % n, Nat.mod_lt _ hn, ?_⟩
  have h1 := Nat.div_add_mod (t + n - i) n
  have h2 : (t + n - i) % n < n := Nat.mod_lt _ hn
  have hq : 1 ≤ (t + n - i) / n := by
    rw [Nat.le_div_iff_mul_le hn]; omega
  obtain ⟨q, hq'⟩ : ∃ q, (t + n - i) / n = q + 1 := ⟨(t + n - i) / n - 1, by omega⟩
  rw [hq', Nat.mul_succ] at h1
  have e : t - (t + n - i) % n = i + n * q := by omega
  rw [e, Nat.add_mul_mod_self_left]; exact Nat.mod_eq_of_lt hi

/-- **and_ / all but one.** With an intact window (`n - 1 ≤ links`) every member except possibly
member `(t + 1) % n` - the one whose *output* the window ends with - leaves the result unchanged. -/
theorem and_success_fixed_all_but_one [BEq X] [LawfulBEq X] (mem : Nat → X → Out X) (rand : D → X → X)
    (n cap : Nat) (x : X) (draws : List D) (y : X) (t links : Nat) (st : Stats)
    (hr : and_ (detc mem n) rand n cap x draws = (.success y t links, st)) (hlinks : n - 1 ≤ links) :
    ∀ i, i < n → i ≠ (t + 1) % n → mem i y = .ret y := by
  intro i hi hne
  have hn : 0 < n := by omega
  obtain ⟨_, _, _, _, ht⟩ := and_success_window hn hr
  obtain ⟨m, hm, hmi⟩ := cover n t i hi ht
  by_cases hlast : m = n - 1
  · exfalso; apply hne
    rw [← hmi, hlast]
    have e : t + 1 = (t - (n - 1)) + n := by omega
    rw [e, Nat.add_mod_right]
  · have := and_success_links mem rand n cap x draws y t links st hr m (by omega) (by omega)
    rw [hmi] at this; exact this

/-- a member is idempotent where it returns -/
def Idem (f : X → Out X) : Prop := ∀ a b, f a = .ret b → f b = .ret b

/-- **and_ / fixed point.** With idempotent members and an intact window (`n ≤ links`), a success of
`and_` returns a vector left unchanged by EVERY member. -/
theorem and_success_fixed [BEq X] [LawfulBEq X] (mem : Nat → X → Out X) (rand : D → X → X)
    (n cap : Nat) (x : X) (draws : List D) (y : X) (t links : Nat) (st : Stats)
    (hidem : ∀ i, i < n → Idem (mem i))
    (hr : and_ (detc mem n) rand n cap x draws = (.success y t links, st)) (hlinks : n ≤ links) :
    ∀ i, i < n → mem i y = .ret y := by
  intro i hi
  have hn : 0 < n := by omega
  by_cases hne : i = (t + 1) % n
  · obtain ⟨l, hl, hw, hlen, ht⟩ := and_success_window hn hr
    -- the oldest window entry is the output of member (t - (n-1)) % n applied to x[-(n+1)]
    have hex : n - 1 < l.length := by omega
    have hb : (y :: l)[n - 1]? = some y := by
      cases hn1 : n - 1 with
      | zero => simp
      | succ k =>
        have hk : k < l.length := by omega
        have := lastAllEq_get hw (m := k) (by omega) (a := l[k]) (by simp)
        simp only [List.getElem?_cons_succ]; rw [List.getElem?_eq_getElem hk, this]
    have ha : (y :: l)[n - 1 + 1]? = some l[n - 1] := by simp
    have hlk := hl (n - 1) (by omega) _ _ hb ha
    have e : (t + 1 - 1 - (n - 1)) % n = i := by
      rw [hne]
      have e2 : t + 1 = (t + 1 - 1 - (n - 1)) + n := by omega
      conv => rhs; rw [e2, Nat.add_mod_right]
    simp only [detc] at hlk
    rw [e] at hlk
    exact hidem i hi _ _ hlk
  · exact and_success_fixed_all_but_one mem rand n cap x draws y t links st hr (by omega) i hi hne

/-- calls and draws of the cycling phase: one call and at most one replacement per iteration -/
private theorem andCycle_calls [BEq X] (c : Nat → X → Out X) (rand : D → X → X) (n cap : Nat) :
    ∀ (fuel j : Nat) (h : List X) (top : X) (links : Nat) (draws : List D) (st : Stats),
      (andCycle c rand n cap fuel j h top links draws st).2.calls ≤ st.calls + fuel ∧
      (andCycle c rand n cap fuel j h top links draws st).2.draws ≤ st.draws + fuel := by
  intro fuel
  induction fuel with
  | zero => intros; simp [andCycle]
  | succ fuel ih =>
    intro j h top links draws st
    unfold andCycle
    split
    · simp
    · split
      · (first | (simp; done) | (simp; omega))
      · rename_i ye hye
        simp only
        split
        · (first | (simp; done) | (simp; omega))
        · split
          · split
            · (first | (simp; done) | (simp; omega))
            · rename_i d ds
              have := ih (j + 1) (dropOld n j (top :: h)) (rand d ye.1)
                (if (rand d ye.1 == ye.1) = true
                  then (if ye.2 = true then 0 else links + 1) else 0)
                ds { calls := st.calls + 1, draws := st.draws + 1 }
              simp only at this ⊢
              omega
          · have := ih (j + 1) (dropOld n j (top :: h)) ye.1
                (if ye.2 = true then 0 else links + 1) draws
                { st with calls := st.calls + 1 }
            simp only at this ⊢
            omega

private theorem andFirst_error {c : Nat → X → Out X} :
    ∀ (k i : Nat) (h : List X) (top : X) (e : Bool) (links : Nat) (m : Nat),
      andFirst c k i h top e links = .error m → m ≤ i + k := by
  intro k
  induction k with
  | zero => intro i h top e links m hr; simp [andFirst] at hr
  | succ k ih =>
    intro i h top e links m hr
    unfold andFirst at hr
    split at hr
    · simp only [Except.error.injEq] at hr; omega
    · have := ih _ _ _ _ _ m hr; omega

/-- **bounded iterations (and_).**  For EVERY member behaviour (non-deterministic, raising, anything), every
draw stream and every replacement function: `and_` makes at most `max n cap` member calls (`cap = maxiter * n`). -/
theorem and_calls_bounded [BEq X] (c : Nat → X → Out X) (rand : D → X → X)
    (n cap : Nat) (x : X) (draws : List D) : (and_ c rand n cap x draws).2.calls ≤ max n cap := by
  unfold and_
  split
  · simp
  · split
    · rename_i k hk
      have := andFirst_error n 0 [] x false 0 k hk
      simp only; omega
    · rename_i fp hfp
      simp only
      split
      · (first | (simp; done) | (simp; omega))
      · have := (andCycle_calls c rand n cap (cap - n) n fp.1 fp.2.1 fp.2.2.2 draws { calls := n }).1
        simp only at this
        omega

/-- **bounded randomisation (and_).**  The cycle-breaker replaces `x[-1]` at most `cap - n` times (once per
iteration of the cycling phase at most; each replacement consumes `2 * len(x[-1])` draws of `random`), and never
before the first pass is over. -/
theorem and_draws_bounded [BEq X] (c : Nat → X → Out X) (rand : D → X → X)
    (n cap : Nat) (x : X) (draws : List D) : (and_ c rand n cap x draws).2.draws ≤ cap - n := by
  unfold and_
  split
  · simp
  · split
    · simp
    · rename_i fp hfp
      simp only
      split
      · simp
      · have := (andCycle_calls c rand n cap (cap - n) n fp.1 fp.2.1 fp.2.2.2 draws { calls := n }).2
        simp only at this
        omega

/-! ### the two ways the full claim fails on the code as it is (known findings F7 / F7b)

Both are closed terms evaluated by the kernel (`decide`). -/

/-- F7: one non-idempotent member (`x ↦ x+1 while x < 2`): `and_(c)([0])` succeeds with `1`, which `c` moves. -/
def witC : Nat → Nat → Out Nat := fun _ x => if x < 2 then .ret (x + 1) else .ret x
theorem and_not_fixed_witness :
    (and_ (detc witC 1) (fun (d : Nat) _ => d) 1 100 0 []).1 = .success 1 0 1 ∧ witC 0 1 ≠ .ret 1 := by
  decide

/-- F7b: three idempotent, conflicting members (identity, clamp to [1,3], clamp to [-4,0]) on `0`, two random
replacements that happen to produce `0` again: `and_` succeeds with `0`, which member 1 moves to `1`. -/
def witC3 : Nat → Int → Out Int := fun i x =>
  if i = 0 then .ret x else if i = 1 then .ret (max 1 (min 3 x)) else .ret (max (-4) (min 0 x))
theorem and_collision_witness :
    (and_ (detc witC3 3) (fun (d : Int) _ => d) 3 9 0 [0, 0]).1 = .success 0 5 1 ∧ witC3 1 0 ≠ .ret 0
      ∧ (∀ i a b, witC3 i a = .ret b → witC3 i b = .ret b) := by
  refine ⟨by decide, by decide, ?_⟩
  intro i a b h
  unfold witC3 at *
  by_cases h0 : i = 0
  · simp_all
  · by_cases h1 : i = 1
    · simp only [h1] at h ⊢; simp at h ⊢; omega
    · simp only [h0, h1, if_false] at h ⊢; simp at h ⊢; omega

/-! ## `constraints.or_` -/

private theorem orFirst_success [BEq X] [LawfulBEq X] (c : Nat → X → Out X) (x0 : X) :
    ∀ (k i : Nat) (h : List X) (e : Bool) (calls : Nat) (y : X) (calls' : Nat),
      orFirst c x0 k i h e calls = .succ y calls' → ∃ i', i ≤ i' ∧ i' < i + k ∧ c i' y = .ret y := by
  intro k
  induction k with
  | zero => intro i h e calls y calls' hr; simp [orFirst] at hr
  | succ k ih =>
    intro i h e calls y calls' hr
    unfold orFirst at hr
    split at hr
    · simp at hr
    · rename_i ye hye
      simp only at hr
      split at hr
      · rename_i hs
        simp only [OrFP.succ.injEq] at hr
        obtain ⟨rfl, _⟩ := hr
        simp only [Bool.and_eq_true, Bool.not_eq_true', Bool.or_eq_false_iff, beq_iff_eq] at hs
        refine ⟨i, Nat.le_refl _, by omega, ?_⟩
        have := applyO_ret hye hs.2.2
        rw [hs.1] at this ⊢; exact this
      · obtain ⟨i', h1, h2, h3⟩ := ih (i + 1) _ _ _ y calls' hr
        exact ⟨i', by omega, by omega, h3⟩

private theorem orCycle_success [BEq X] [LawfulBEq X] (c : Nat → X → Out X) (pick : D → Nat) (n cap : Nat) :
    ∀ (fuel j : Nat) (h : List X) (draws : List D) (st : Stats) (y : X) (t links : Nat) (st' : Stats),
      orCycle c pick n cap fuel j h draws st = (.success y t links, st') → c t y = .ret y := by
  intro fuel
  induction fuel with
  | zero => intro j h draws st y t links st' hr; unfold orCycle at hr; split at hr <;> simp at hr
  | succ fuel ih =>
    intro j h draws st y t links st' hr
    unfold orCycle at hr
    split at hr
    · simp at hr
    · split at hr
      · simp at hr
      · split at hr
        · simp at hr
        · split at hr
          · simp at hr
          · rename_i ye hye
            simp only at hr
            split at hr
            · rename_i hs
              simp only [Prod.mk.injEq, ResX.success.injEq] at hr
              obtain ⟨⟨rfl, rfl, rfl⟩, _⟩ := hr
              simp only [Bool.and_eq_true, Bool.not_eq_true', beq_iff_eq] at hs
              have := applyO_ret hye hs.2
              rw [hs.1] at this ⊢; exact this
            · split at hr
              · simp at hr
              · split at hr
                · simp at hr
                · exact ih _ _ _ _ y t links st' hr

/-- **or_, for ALL member behaviours.** A success of `or_` returns a vector that one member call (call number
`t`, to member `t % n`; `t < n` in the first pass) returned unchanged. -/
theorem or_success_fixed_oracle [BEq X] [LawfulBEq X] (c : Nat → X → Out X) (pick : D → Nat)
    (n cap : Nat) (x : X) (draws : List D) (y : X) (t links : Nat) (st : Stats)
    (hr : or_ c pick n cap x draws = (.success y t links, st)) : ∃ j, c j y = .ret y := by
  unfold or_ at hr
  split at hr
  · rename_i y' calls' hf
    simp only [Prod.mk.injEq, ResX.success.injEq] at hr
    obtain ⟨⟨rfl, _, _⟩, _⟩ := hr
    obtain ⟨i, _, _, h3⟩ := orFirst_success c x n 0 [x] false 0 _ _ hf
    exact ⟨i, h3⟩
  · simp at hr
  · exact ⟨t, orCycle_success c pick n cap _ _ _ _ _ y t links st hr⟩

/-- **or_.** A success of `or_` returns a vector left unchanged by at least one member. -/
theorem or_success_fixed [BEq X] [LawfulBEq X] (mem : Nat → X → Out X) (pick : D → Nat)
    (n cap : Nat) (x : X) (draws : List D) (y : X) (t links : Nat) (st : Stats)
    (hcap : n = 0 → cap = 0)      -- the code's cap is `maxiter * n`
    (hr : or_ (detc mem n) pick n cap x draws = (.success y t links, st)) : ∃ i, i < n ∧ mem i y = .ret y := by
  obtain ⟨j, hj⟩ := or_success_fixed_oracle _ pick n cap x draws y t links st hr
  by_cases hn : n = 0
  · -- no members: the first loop is empty and the cycling phase cannot run
    subst hn
    rw [hcap rfl] at hr
    simp [or_, orFirst, orCycle] at hr
  · exact ⟨j % n, Nat.mod_lt _ (by omega), hj⟩

private theorem orCycle_calls [BEq X] (c : Nat → X → Out X) (pick : D → Nat) (n cap : Nat) :
    ∀ (fuel j : Nat) (h : List X) (draws : List D) (st : Stats),
      (orCycle c pick n cap fuel j h draws st).2.calls ≤ st.calls + fuel ∧
      (orCycle c pick n cap fuel j h draws st).2.draws ≤ st.draws + fuel := by
  intro fuel
  induction fuel with
  | zero => intros; simp [orCycle]
  | succ fuel ih =>
    intro j h draws st
    cases h with
    | nil => simp [orCycle]
    | cons top tl =>
      unfold orCycle
      simp only
      split
      · simp
      · split
        · simp
        · split
          · (first | (simp; done) | (simp; omega))
          · split
            · (first | (simp; done) | (simp; omega))
            · split
              · (first | (simp; done) | (simp; omega))
              · split
                · (first | (simp; done) | (simp; omega))
                · rename_i r _
                  have := ih (j + 1) (dropOldAll n j (r :: top :: tl)) ‹List D›
                    { calls := st.calls + 1, draws := st.draws + 1 }
                  simp only at this ⊢
                  omega

/-- calls made by the first pass -/
def _root_.MysticVerif.CombX.OrFP.ncalls : OrFP X → Nat
  | .succ _ m => m
  | .raised m => m
  | .cont _ m => m

private theorem orFirst_calls [BEq X] (c : Nat → X → Out X) (x0 : X) :
    ∀ (k i : Nat) (h : List X) (e : Bool) (calls : Nat),
      (orFirst c x0 k i h e calls).ncalls ≤ calls + k ∧
      (∀ h' m, orFirst c x0 k i h e calls = .cont h' m → m = calls + k) := by
  intro k
  induction k with
  | zero => intro i h e calls; simp [orFirst, OrFP.ncalls]
  | succ k ih =>
    intro i h e calls
    unfold orFirst
    split
    · simp [OrFP.ncalls]
    · rename_i ye hye
      simp only
      split
      · simp [OrFP.ncalls]
      · obtain ⟨h1, h2⟩ := ih (i + 1) (ye.1 :: h) (e || ye.2) (calls + 1)
        refine ⟨by omega, fun h' m hm => ?_⟩
        have := h2 h' m hm; omega

/-- **bounded iterations (or_).**  For EVERY member behaviour and draw stream: at most `max n cap` member calls
and at most `cap - n` random picks (one `randint` each). -/
theorem or_calls_bounded [BEq X] (c : Nat → X → Out X) (pick : D → Nat)
    (n cap : Nat) (x : X) (draws : List D) :
    (or_ c pick n cap x draws).2.calls ≤ max n cap ∧ (or_ c pick n cap x draws).2.draws ≤ cap - n := by
  unfold or_
  obtain ⟨hf1, hf2⟩ := orFirst_calls c x n 0 [x] false 0
  split
  · rename_i y calls heq; rw [heq] at hf1; simp only [OrFP.ncalls] at hf1 ⊢; omega
  · rename_i calls heq; rw [heq] at hf1; simp only [OrFP.ncalls] at hf1 ⊢; omega
  · rename_i h calls heq
    have hc := hf2 h calls heq
    have := orCycle_calls c pick n cap (cap - n) n h draws { calls := calls }
    simp only at this
    omega

/-! ## `constraints.not_` -/

private theorem notLoop_success [BEq X] [LawfulBEq X] (c : Nat → X → Out X) (rand : D → X → X) :
    ∀ (fuel j : Nat) (x : X) (draws : List D) (st : Stats) (y : X) (t links : Nat) (st' : Stats),
      notLoop c rand fuel j x draws st = (.success y t links, st') → ∃ z, c t y = .ret z ∧ z ≠ y := by
  intro fuel
  induction fuel with
  | zero => intro j x draws st y t links st' hr; simp [notLoop] at hr
  | succ fuel ih =>
    intro j x draws st y t links st' hr
    unfold notLoop at hr
    simp only at hr
    split at hr
    · simp at hr
    · rename_i hm
      simp only [Prod.mk.injEq, ResX.success.injEq] at hr
      obtain ⟨⟨rfl, rfl, _⟩, _⟩ := hr
      unfold notMovedO at hm
      split at hm
      · rename_i z hz
        exact ⟨z, hz, by simpa using hm⟩
      · simp at hm
      · simp at hm
      · simp at hm
    · split at hr
      · simp at hr
      · exact ih _ _ _ _ y t links st' hr

/-- **not_, for ALL member behaviours.** A success of `not_(c)` returns a vector that the member call that
examined it (call number `t`) changed. -/
theorem not_success_moved_oracle [BEq X] [LawfulBEq X] (c : Nat → X → Out X) (rand : D → X → X)
    (maxiter : Nat) (x : X) (draws : List D) (y : X) (t links : Nat) (st : Stats)
    (hr : not_ c rand maxiter x draws = (.success y t links, st)) : ∃ z, c t y = .ret z ∧ z ≠ y :=
  notLoop_success c rand maxiter 0 x draws {} y t links st hr

/-- **not_.** A success of `not_(c)` returns a vector that `c` changes. -/
theorem not_success_moved [BEq X] [LawfulBEq X] (mem : X → Out X) (rand : D → X → X)
    (maxiter : Nat) (x : X) (draws : List D) (y : X) (t links : Nat) (st : Stats)
    (hr : not_ (fun _ => mem) rand maxiter x draws = (.success y t links, st)) : ∃ z, mem y = .ret z ∧ z ≠ y :=
  not_success_moved_oracle (fun _ => mem) rand maxiter x draws y t links st hr

private theorem notLoop_calls [BEq X] (c : Nat → X → Out X) (rand : D → X → X) :
    ∀ (fuel j : Nat) (x : X) (draws : List D) (st : Stats),
      (notLoop c rand fuel j x draws st).2.calls ≤ st.calls + fuel ∧
      (notLoop c rand fuel j x draws st).2.draws ≤ st.draws + fuel := by
  intro fuel
  induction fuel with
  | zero => intros; simp [notLoop]
  | succ fuel ih =>
    intro j x draws st
    unfold notLoop
    simp only
    split
    · (first | (simp; done) | (simp; omega))
    · (first | (simp; done) | (simp; omega))
    · split
      · (first | (simp; done) | (simp; omega))
      · have := ih (j + 1) (rand ‹D› x) ‹List D› { calls := st.calls + 1, draws := st.draws + 1 }
        simp only at this ⊢; omega

/-- **bounded iterations (not_).** For EVERY member behaviour: at most `maxiter` calls and `maxiter` replacements -/
theorem not_calls_bounded [BEq X] (c : Nat → X → Out X) (rand : D → X → X)
    (maxiter : Nat) (x : X) (draws : List D) :
    (not_ c rand maxiter x draws).2.calls ≤ maxiter ∧ (not_ c rand maxiter x draws).2.draws ≤ maxiter := by
  have := notLoop_calls c rand maxiter 0 x draws {}
  simpa [not_] using this

/-! ## non-vacuity: the hypotheses are met by concrete, non-trivial runs -/

/-- a cycling run (two clamps to [1,3] and [2,5] on `0`): success after the first pass failed, links intact,
    both members idempotent and both fix the result -/
def exC : Nat → Int → Out Int := fun i x => if i = 0 then .ret (max 1 (min 3 x)) else .ret (max 2 (min 5 x))
example : (and_ (detc exC 2) (fun (d : Int) _ => d) 2 20 0 []).1 = .success 2 2 3 ∧ exC 0 2 = .ret 2 ∧ exC 1 2 = .ret 2 := by
  decide

example : (or_ (detc (fun (i : Nat) (x : Int) => if i = 0 then .ret (x + 1) else .ret (max 0 x)) 2) (fun (d : Nat) => d)
    2 10 (-3) [1, 1, 1, 1]).1 = .success 0 3 1 := by decide

example : (not_ (fun _ (x : Int) => .ret (max 0 x)) (fun (d : Int) _ => d) 5 3 [7, -2]).1 = .success (-2) 2 0 := by
  decide

/-! ### exception classes and oracles: concrete runs (kernel-evaluated) -/

/-- a propagating exception stops the combinator at once: member 1 raises on its first call (call number 1):
no exit path, exactly 2 calls, no draw -/
example : and_ (detc (fun (i : Nat) (x : Int) => if i = 1 then .raise else .ret x) 2) (fun (d : Int) _ => d)
    2 20 5 [] = (.raised, { calls := 2, draws := 0 }) := by decide

/-- a swallowed `TypeError` blocks the first-pass success of `and_` exactly like a `ZeroDivisionError`
(both members leave `5` unchanged, member 0 raised once - call 0 - and is re-tried in the cycling phase) -/
example : (and_ (fun (j : Nat) (x : Int) => if j = 0 then .tverr else .ret x) (fun (d : Int) _ => d)
    2 20 5 []).1 = .success 5 2 2 := by decide

/-- `or_` treats the two swallowed classes differently (l.653 vs l.658): after `ZeroDivisionError` the appended
entry is a copy of the member's input `x[-n]`, after `TypeError`/`ValueError` a copy of `x[-1]`; here the picked
replacement (`randint = 1`: keep the appended entry) makes the histories, and the final vectors, differ -/
theorem or_swallow_classes_differ :
    (or_ (fun (j : Nat) (x : Int) => if j = 0 then .ret 7 else if j = 1 then .ret 8 else .zdiv) (fun (d : Nat) => d)
      2 3 0 [1]).1 = .fail 7 ∧
    (or_ (fun (j : Nat) (x : Int) => if j = 0 then .ret 7 else if j = 1 then .ret 8 else .tverr) (fun (d : Nat) => d)
      2 3 0 [1]).1 = .fail 8 := by decide

/-- a NON-DETERMINISTIC member (its answer depends on the call number): `and_` reports success at `3` because call
2 returned `3` on `3` - which is all `and_success_links_oracle` claims (`n - 1 = 1` link) - although the same member
(call 0) moves `3` when asked again with its early behaviour -/
example : (and_ (fun (j : Nat) (x : Int) => if j < 2 then .ret (x + 1) else .ret x) (fun (d : Int) _ => d)
    2 20 1 []).1 = .success 3 2 3 := by decide


end MysticVerif.C17X
