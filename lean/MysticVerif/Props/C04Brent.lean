/-
Powell on the decorated objective WITH THE MODELLED BRENT LINE SEARCH (Model/Brent.lean) as its oracle: the contract
`LsMono` that the history theorems of Proofs/PowellS.lean assume of an arbitrary oracle is DISCHARGED for it
(C08.linesearch_never_worse_than_start + C08.lsRec_partition + Brent.along_zero), so for this oracle - the one the `pw`
replays with `(brent true)` run, from the initial guess alone - the best-energy history is non-increasing and the best is
never worse than the initial guess with no hypothesis left about the line search.
-/
import MysticVerif.Props.C04
import MysticVerif.Props.C01
import MysticVerif.Props.C08
import Mathlib.Algebra.Order.Field.Basic

namespace MysticVerif.C04
open MysticVerif.Solver MysticVerif.PowellS MysticVerif.Brent

variable {R : Type} [Field R] [LinearOrder R] [IsStrictOrderedRing R]

/-- the oracle handed to `PowellS`: the modelled `_linesearch_powell` on the decorated cost; a search that raises (which
    aborts the real run) or a direction shorter than the point (never produced by `PowellS`) answers with the start point -/
def brentOracle (k : K R) (eqv : Pt R → Pt R → Bool) (func : Pt R → R) (tol : R) (maxiter bmax fuel : Nat) :
    Nat → Pt R → Pt R → LsRec R :=
  fun n p xi =>
    if p.length ≤ xi.length then
      Brent.lsRec k eqv func tol maxiter bmax fuel (fun p _ => { pre := [], y := p, post := [], xi := p }) n p xi
    else { pre := [], y := p, post := [], xi := p }

/-- **`LsMono` holds for the modelled Brent search** (any tolerance, iteration caps and fuel; `k.zero` the field's zero) -/
theorem brent_oracle_lsMono (o : Obj (Pt R) R) (k : K R) (hk0 : k.zero = 0) (eqv : Pt R → Pt R → Bool)
    (heqv : ∀ a b, eqv a b = true ↔ a = b) (tol : R) (maxiter bmax fuel : Nat) :
    LsMono o (brentOracle k eqv (fun z => o.energy (o.K z)) tol maxiter bmax fuel) := by
  intro n p xi
  unfold brentOracle
  split
  · rename_i hlen
    cases h : lineSearch k (fun z => o.energy (o.K z)) p xi tol maxiter bmax fuel with
    | error e =>
      have : (Brent.lsRec k eqv (fun z => o.energy (o.K z)) tol maxiter bmax fuel
          (fun p _ => { pre := [], y := p, post := [], xi := p }) n p xi).y = p := by
        unfold Brent.lsRec; rw [h]
      rw [this]
    | ok out =>
      have hm := C08.linesearch_never_worse_than_start k (fun z => o.energy (o.K z)) p xi tol maxiter bmax fuel out h
      have hp := C08.lsRec_partition k eqv heqv (fun z => o.energy (o.K z)) tol maxiter bmax fuel
        (fun p _ => { pre := [], y := p, post := [], xi := p }) n p xi out h hm.2.1
      have hz : along p xi k.zero = p :=
        Brent.along_zero k.zero (by intro a; rw [hk0]; exact zero_mul a) (by intro a; rw [hk0]; exact add_zero a) p xi hlen
      rw [hp.2.1]
      have h1 := hm.1
      have h3 := hm.2.2.1
      rw [hz] at h3
      try simp only at h1 h3
      rw [← h1]
      exact h3
  · exact le_refl _

/-- **Powell with the modelled Brent search: the best-energy history is non-increasing and ends in the reported best**,
for every decorated objective, start point, tolerance, iteration cap and number of iterations - no hypothesis on the
line search is left -/
theorem pw_history_antitone_brent (o : Obj (Pt R) R) (h : Hyp o) (c : PwCfg R R) (k : K R) (hk0 : k.zero = 0)
    (eqv : Pt R → Pt R → Bool) (heqv : ∀ a b, eqv a b = true ↔ a = b) (tol : R) (maxiter bmax fuel : Nat)
    (record : Bool) (x0 : Pt R) (direc : List (Pt R)) (hd : direc ≠ []) (n : Nat) :
    (reach o c (brentOracle k eqv (fun z => o.energy (o.K z)) tol maxiter bmax fuel) record x0 direc n).hist.Pairwise (· ≥ ·) :=
  pw_history_antitone o h c _ (brent_oracle_lsMono o k hk0 eqv heqv tol maxiter bmax fuel) record x0 direc hd n

/-- ... and the reported best is never worse than the energy of the initial guess -/
theorem pw_best_le_initial_guess_brent (o : Obj (Pt R) R) (h : Hyp o) (c : PwCfg R R) (k : K R) (hk0 : k.zero = 0)
    (eqv : Pt R → Pt R → Bool) (heqv : ∀ a b, eqv a b = true ↔ a = b) (tol : R) (maxiter bmax fuel : Nat)
    (record : Bool) (x0 : Pt R) (direc : List (Pt R)) (hd : direc ≠ []) (n : Nat) :
    (reach o c (brentOracle k eqv (fun z => o.energy (o.K z)) tol maxiter bmax fuel) record x0 direc n).fval
      ≤ (gen0 o c record x0 direc).fval :=
  C01.pw_best_le_initial_guess o h c _ (brent_oracle_lsMono o k hk0 eqv heqv tol maxiter bmax fuel) record x0 direc hd n

/-- non-vacuity: the hypotheses on the constants are met over ℚ (zero is the field's zero, point equality is decidable) -/
example : ∃ (k : K ℚ) (eqv : Pt ℚ → Pt ℚ → Bool), k.zero = 0 ∧ ∀ a b, eqv a b = true ↔ a = b :=
  ⟨{ abs := fun x => x, zero := 0, one := 1, two := 2, half := 1 / 2, gold := 1618034 / 1000000, verysmall := 1 / 10 ^ 21,
     growLimit := 110, mintol := 1 / 10 ^ 11, cg := 381966 / 1000000 }, fun a b => decide (a = b), rfl, by simp⟩

end MysticVerif.C04
