/-
C14, argument SHAPES of `generate_conditions` / `generate_penalty` (model: Model/EmittedPShape.lean, on top of Props/C14.lean).

`conds : Nest (Kind × Expr C)` is ANY nesting of condition functions - the pair `(inequalities, equalities)` that
`generate_conditions` returns for one text, the tuple of pairs it returns for a tuple / list / nesting of texts, a flat list, a
one-element wrapper, one function outside any sequence, groups that are empty; `pt : PArg` is `None`, one penalty type, or a
(nested) list of types of any length. `K` any linearly ordered field, `x` any point, `k' = k*h^n` any multiplier.

Property clause                                             theorem
  every line gets a penalty term                             gp_shape_penalises_every_condition (None / one type / a list covering
                                                             the FLATTENED conditions), gp_shape_default_types (None: the
                                                             quadratic type of the condition's own kind, per condition)
  the nesting is irrelevant                                  gp_shape_nesting_irrelevant
  documented sum                                             gp_shape_is_sum
  zero exactly where every line is satisfied, positive else  gp_shape_zero_iff, gp_shape_default_zero_iff, gp_shape_pos_of_violation
  a type list as long as the OUTER sequence                  gp_shape_short_ptype_drops (closed witness on the code as it is, F60:
                                                             `zip` leaves the tail unpenalised and mismatches the kinds)
  join=and_/or_ over the top-level items (groups)            gp_join_and_zero_iff, gp_join_or_zero_iff (+ the `ptype=None` corollaries
                                                             gp_join_and_default_zero_iff, gp_join_or_default_zero_iff),
                                                             gp_join_runs_dry (fewer types than members: generate_penalty raises)
  the constraint of the same text(s) drives it to zero       gp_shape_constraint_drives_penalty_to_zero (any nesting on both sides)
-/
import MysticVerif.Props.C14
import MysticVerif.Proofs.EmittedPShape

set_option linter.unusedSectionVars false
set_option linter.unusedVariables false

namespace MysticVerif.C14
open MysticVerif.Emitted

variable {K : Type} [Field K] [LinearOrder K] [IsStrictOrderedRing K] {C : Type}

/-! ## `join=None` -/

/-- **Every condition gets a penalty term, whatever the nesting.** For `ptype=None`, one penalty type, or a (nested) list whose
flattening has an entry for every condition, the conditions `generate_penalty` stacks are EXACTLY the flattening of the
`conditions` argument: no line is left out and none is added. (The type list is sized by the FLATTENED length, symbolic.py
l.1401-1413; sizing it by the outer length loses the tail in the `zip` of l.1420.) -/
theorem gp_shape_penalises_every_condition {α : Type} (conds : Nest (Kind × α)) (pt : PArg)
    (hcov : pt.covers (Nest.flatL conds.top).length) :
    (gpItems conds pt).map (·.2) = Nest.flatL conds.top := gpItems_snd conds pt hcov

/-- **`ptype=None`: each condition gets the quadratic type of ITS OWN kind** (`quadratic_inequality` for a function named
`inequality`, `quadratic_equality` otherwise), condition by condition over the flattening - so the default types conform. -/
theorem gp_shape_default_types {α : Type} (conds : Nest (Kind × α)) :
    gpItems conds .none = (Nest.flatL conds.top).map (fun c => (c.1.default, c)) ∧
    ∀ w ∈ gpItems conds .none, w.1.kind = w.2.1 :=
  ⟨gpItems_none conds, gpItems_none_conform conds⟩

/-- **The nesting is irrelevant** (`join=None`): the penalty of any nesting is the penalty of the flat list of the same
conditions with the same `ptype`. -/
theorem gp_shape_nesting_irrelevant (env : Env C K) (k' top : K) (conds : Nest (Kind × Expr C)) (pt : PArg) (x : List K) :
    gpShaped env k' top conds pt x = gpShaped env k' top (.node ((Nest.flatL conds.top).map .leaf)) pt x := by
  unfold gpShaped; rw [← gpItems_flat]

/-- **Documented sum, any shape.** The value is the sum of the per-line terms over the `(type, condition)` pairs. -/
theorem gp_shape_is_sum (env : Env C K) (k' top : K) (conds : Nest (Kind × Expr C)) (pt : PArg) (x : List K)
    (hd : ∀ w ∈ gpItems conds pt, w.2.2.defined env x = true) :
    gpShaped env k' top conds pt x = ((gpItems conds pt).map fun w => w.1.term k' (w.2.2.eval env x)).sum := by
  unfold gpShaped
  rw [penalty_is_sum env k' top _ x ?_]
  · unfold stackOf; rw [List.map_map]; rfl
  · intro te hte
    obtain ⟨w, hw, rfl⟩ := mem_stackOf.mp hte
    exact hd w hw

private theorem sat_iff (env : Env C K) (conds : Nest (Kind × Expr C)) (pt : PArg) (x : List K)
    (hcov : pt.covers (Nest.flatL conds.top).length) (hconf : ∀ w ∈ gpItems conds pt, w.1.kind = w.2.1) :
    (∀ te ∈ stackOf (gpItems conds pt), te.1.kind.satisfied (te.2.eval env x)) ↔
      ∀ c ∈ Nest.flatL conds.top, c.1.satisfied (c.2.eval env x) := by
  have hsnd := gpItems_snd conds pt hcov
  constructor
  · intro h c hc
    rw [← hsnd] at hc
    obtain ⟨w, hw, rfl⟩ := List.mem_map.mp hc
    have := h (w.1, w.2.2) (mem_stackOf.mpr ⟨w, hw, rfl⟩)
    rw [hconf w hw] at this; exact this
  · intro h te hte
    obtain ⟨w, hw, rfl⟩ := mem_stackOf.mp hte
    have := h w.2 (gpItems_snd_mem conds pt w hw)
    simp only; rw [hconf w hw]; exact this

/-- **Zero exactly where every line is satisfied, never negative - for every shape of the arguments.** Positive multiplier,
`ptype` covering the flattened conditions with a type of each condition's own kind: the penalty is `0` iff EVERY condition of
the nesting is satisfied, and `≥ 0` everywhere. -/
theorem gp_shape_zero_iff (env : Env C K) {k' : K} (hk : 0 < k') (top : K) (conds : Nest (Kind × Expr C)) (pt : PArg)
    (x : List K) (hcov : pt.covers (Nest.flatL conds.top).length)
    (hconf : ∀ w ∈ gpItems conds pt, w.1.kind = w.2.1)
    (hd : ∀ c ∈ Nest.flatL conds.top, c.2.defined env x = true) :
    (gpShaped env k' top conds pt x = 0 ↔ ∀ c ∈ Nest.flatL conds.top, c.1.satisfied (c.2.eval env x)) ∧
    0 ≤ gpShaped env k' top conds pt x := by
  have hd' : AllDefined env (stackOf (gpItems conds pt)) x := by
    intro te hte
    obtain ⟨w, hw, rfl⟩ := mem_stackOf.mp hte
    exact hd w.2 (gpItems_snd_mem conds pt w hw)
  unfold gpShaped
  obtain ⟨hz, hnn⟩ := penalty_zero_iff env hk top _ x hd'
  exact ⟨hz.trans (sat_iff env conds pt x hcov hconf), hnn⟩

/-- **`ptype` omitted: zero exactly where every line is satisfied**, for any nesting, with no further hypothesis on the
shape. -/
theorem gp_shape_default_zero_iff (env : Env C K) {k' : K} (hk : 0 < k') (top : K) (conds : Nest (Kind × Expr C))
    (x : List K) (hd : ∀ c ∈ Nest.flatL conds.top, c.2.defined env x = true) :
    (gpShaped env k' top conds .none x = 0 ↔ ∀ c ∈ Nest.flatL conds.top, c.1.satisfied (c.2.eval env x)) ∧
    0 ≤ gpShaped env k' top conds .none x :=
  gp_shape_zero_iff env hk top conds .none x trivial (gpItems_none_conform conds) hd

/-- **Positive elsewhere, any shape.** One violated condition anywhere in the nesting makes the penalty strictly positive. -/
theorem gp_shape_pos_of_violation (env : Env C K) {k' : K} (hk : 0 < k') (top : K) (conds : Nest (Kind × Expr C))
    (pt : PArg) (x : List K) (hcov : pt.covers (Nest.flatL conds.top).length)
    (hconf : ∀ w ∈ gpItems conds pt, w.1.kind = w.2.1)
    (hd : ∀ c ∈ Nest.flatL conds.top, c.2.defined env x = true)
    (c : Kind × Expr C) (hc : c ∈ Nest.flatL conds.top) (hv : ¬ c.1.satisfied (c.2.eval env x)) :
    0 < gpShaped env k' top conds pt x := by
  obtain ⟨hz, hnn⟩ := gp_shape_zero_iff env hk top conds pt x hcov hconf hd
  rcases lt_or_eq_of_le hnn with h | h
  · exact h
  · exact absurd (hz.mp h.symm c hc) hv

/-- **A type list as long as the OUTER sequence loses lines (closed witness; the code as it is, F60).** The conditions of
`x0 <= 1 ; x1 <= 2 ; x2 = 3` as `generate_conditions` returns them - the pair `((c0, c1), (c2,))` - with
`ptype=[quadratic_inequality, quadratic_equality]`, "a list of the same length as conditions" read literally: both arguments are
flattened, `zip` pairs the two types with the first two of three conditions, so the equality line gets NO term and the second
inequality gets the equality type. At `[0, 2, 0]` (third line violated) the penalty is `0`; at `[0, 0, 3]` (every line
satisfied) it is `400`. -/
theorem gp_shape_short_ptype_drops :
    ∃ (env : Env Nat ℚ) (r0 r1 r2 : Rel2 Nat) (c0 c1 c2 : Kind × Expr Nat),
      c0 = condEmit r0 ∧ c1 = condEmit r1 ∧ c2 = condEmit r2 ∧
      (gpItems (.node [.node [.leaf c0, .leaf c1], .node [.leaf c2]]) (.many [.leaf .qIneq, .leaf .qEq])).map (·.2)
        = [c0, c1] ∧
      gpShaped env 100 0 (.node [.node [.leaf c0, .leaf c1], .node [.leaf c2]]) (.many [.leaf .qIneq, .leaf .qEq]) [0, 2, 0]
        = 0 ∧ ¬ r2.holds env [0, 2, 0] ∧
      gpShaped env 100 0 (.node [.node [.leaf c0, .leaf c1], .node [.leaf c2]]) (.many [.leaf .qIneq, .leaf .qEq]) [0, 0, 3]
        = 400 ∧ r0.holds env [0, 0, 3] ∧ r1.holds env [0, 0, 3] ∧ r2.holds env [0, 0, 3] := by
  refine ⟨{ ι := fun n => (n : ℚ), tol := 0, rel := 0 }, ⟨.var 0, .le, .num 1⟩, ⟨.var 1, .le, .num 2⟩, ⟨.var 2, .eq, .num 3⟩,
    _, _, _, rfl, rfl, rfl, ?_, ?_, ?_, ?_, ?_, ?_, ?_⟩
  · simp [gpItems, ptypeList, Nest.top, Nest.flatL, Nest.flat]
  · simp [gpShaped, gpItems, ptypeList, Nest.top, Nest.flatL, Nest.flat, stackOf, penalty, condEmit, Expr.defined,
      Expr.eval, PType.term, pyMax]
  · simp [Rel2.holds, Cmp.holds, Expr.eval]
  · simp [gpShaped, gpItems, ptypeList, Nest.top, Nest.flatL, Nest.flat, stackOf, penalty, condEmit, Expr.defined,
      Expr.eval, PType.term, pyMax]
    norm_num
  · simp [Rel2.holds, Cmp.holds, Expr.eval]
  · simp [Rel2.holds, Cmp.holds, Expr.eval]
  · simp [Rel2.holds, Cmp.holds, Expr.eval]

/-! ## `join=and_ / or_`: every top-level item of `conditions` is one member -/

private theorem members_defined (env : Env C K) (conds : Nest (Kind × Expr C)) (x : List K)
    (ms : List (List (PType × (Kind × Expr C))))
    (hcov : ms.map (fun g => g.map (·.2)) = conds.top.map (fun c => Nest.flatL c.top))
    (hd : ∀ c ∈ Nest.flatL conds.top, c.2.defined env x = true) :
    ∀ g ∈ ms.map stackOf, AllDefined env g x := by
  intro g hg te hte
  obtain ⟨m, hm, rfl⟩ := List.mem_map.mp hg
  obtain ⟨w, hw, rfl⟩ := mem_stackOf.mp hte
  have h1 : m.map (·.2) ∈ conds.top.map (fun c => Nest.flatL c.top) := by
    rw [← hcov]; exact List.mem_map.mpr ⟨m, hm, rfl⟩
  obtain ⟨t, ht, hteq⟩ := List.mem_map.mp h1
  have h2 : w.2 ∈ Nest.flatL t.top := by rw [hteq]; exact List.mem_map.mpr ⟨w, hw, rfl⟩
  exact hd w.2 ((Nest.mem_flatL_iff conds.top w.2).mpr ⟨t, ht, h2⟩)

private theorem group_sat_iff (env : Env C K) (x : List K) (m : List (PType × (Kind × Expr C)))
    (hconf : ∀ w ∈ m, w.1.kind = w.2.1) :
    (∀ te ∈ stackOf m, te.1.kind.satisfied (te.2.eval env x)) ↔
      ∀ c ∈ m.map (·.2), c.1.satisfied (c.2.eval env x) := by
  constructor
  · intro h c hc
    obtain ⟨w, hw, rfl⟩ := List.mem_map.mp hc
    have := h (w.1, w.2.2) (mem_stackOf.mpr ⟨w, hw, rfl⟩)
    rw [hconf w hw] at this; exact this
  · intro h te hte
    obtain ⟨w, hw, rfl⟩ := mem_stackOf.mp hte
    have := h w.2 (List.mem_map.mpr ⟨w, hw, rfl⟩)
    simp only; rw [hconf w hw]; exact this

/-- **`join=and_` over any nesting: zero exactly where EVERY line of every group holds.** `ms` = the members the code builds
(`gpMembers`: one per top-level item, with its own entry of `ptype` when `ptype` is nested as deep as the conditions, with the
whole `ptype` otherwise); if every member holds exactly the conditions of its item (`hcov`) under types of their own kind
(`hconf`), the joined penalty is `0` iff every condition of the whole nesting is satisfied. -/
theorem gp_join_and_zero_iff (env : Env C K) {k' kj : K} (hk : 0 < k') (hkj : 0 < kj) (top : K)
    (conds : Nest (Kind × Expr C)) (pt : PArg) (x : List K) (ms : List (List (PType × (Kind × Expr C))))
    (hms : gpMembers conds pt = some ms)
    (hcov : ms.map (fun g => g.map (·.2)) = conds.top.map (fun c => Nest.flatL c.top))
    (hconf : ∀ g ∈ ms, ∀ w ∈ g, w.1.kind = w.2.1)
    (hd : ∀ c ∈ Nest.flatL conds.top, c.2.defined env x = true) :
    ∃ v, gpJoin env k' top kj .and_ conds pt x = some (some v) ∧
      (v = 0 ↔ ∀ c ∈ Nest.flatL conds.top, c.1.satisfied (c.2.eval env x)) := by
  obtain ⟨v, hv, hz⟩ := penjoin_and_zero_iff env hk hkj top (ms.map stackOf) x (members_defined env conds x ms hcov hd)
  refine ⟨v, by unfold gpJoin; rw [hms]; exact congrArg some hv, hz.trans ?_⟩
  constructor
  · intro h c hc
    obtain ⟨t, ht, hct⟩ := (Nest.mem_flatL_iff conds.top c).mp hc
    have h1 : Nest.flatL t.top ∈ ms.map (fun g => g.map (·.2)) := by
      rw [hcov]; exact List.mem_map.mpr ⟨t, ht, rfl⟩
    obtain ⟨m, hm, hmeq⟩ := List.mem_map.mp h1
    have := (group_sat_iff env x m (hconf m hm)).mp (h (stackOf m) (List.mem_map.mpr ⟨m, hm, rfl⟩))
    exact this c (by rw [hmeq]; exact hct)
  · intro h g hg
    obtain ⟨m, hm, rfl⟩ := List.mem_map.mp hg
    refine (group_sat_iff env x m (hconf m hm)).mpr ?_
    intro c hc
    have h1 : m.map (·.2) ∈ conds.top.map (fun c => Nest.flatL c.top) := by
      rw [← hcov]; exact List.mem_map.mpr ⟨m, hm, rfl⟩
    obtain ⟨t, ht, hteq⟩ := List.mem_map.mp h1
    exact h c ((Nest.mem_flatL_iff conds.top c).mpr ⟨t, ht, by rw [hteq]; exact hc⟩)

/-- **`join=or_` over any nesting: zero exactly where all lines of AT LEAST ONE top-level item hold** (an item = one
condition, or a whole group such as the conditions of one text; an EMPTY group - e.g. the equalities of a text without
equality lines - is satisfied everywhere, so the joined penalty is then `0` everywhere). -/
theorem gp_join_or_zero_iff (env : Env C K) {k' kj : K} (hk : 0 < k') (hkj : 0 < kj) (top : K)
    (conds : Nest (Kind × Expr C)) (pt : PArg) (x : List K) (ms : List (List (PType × (Kind × Expr C))))
    (hms : gpMembers conds pt = some ms) (hne : conds.top ≠ [])
    (hcov : ms.map (fun g => g.map (·.2)) = conds.top.map (fun c => Nest.flatL c.top))
    (hconf : ∀ g ∈ ms, ∀ w ∈ g, w.1.kind = w.2.1)
    (hd : ∀ c ∈ Nest.flatL conds.top, c.2.defined env x = true) :
    ∃ v, gpJoin env k' top kj .or_ conds pt x = some (some v) ∧
      (v = 0 ↔ ∃ t ∈ conds.top, ∀ c ∈ Nest.flatL t.top, c.1.satisfied (c.2.eval env x)) := by
  cases ms with
  | nil =>
    have := congrArg List.length hcov
    simp only [List.map_nil, List.length_nil, List.length_map] at this
    exact absurd (List.length_eq_zero_iff.mp this.symm) hne
  | cons m0 ms =>
    have hdef := members_defined env conds x (m0 :: ms) hcov hd
    rw [List.map_cons] at hdef
    obtain ⟨v, hv, hz⟩ := penjoin_or_zero_iff env hk hkj top (stackOf m0) (ms.map stackOf) x hdef
    refine ⟨v, by unfold gpJoin; rw [hms]; exact congrArg some hv, hz.trans ?_⟩
    rw [← List.map_cons]
    constructor
    · rintro ⟨g, hg, h⟩
      obtain ⟨m, hm, rfl⟩ := List.mem_map.mp hg
      have h1 : m.map (·.2) ∈ conds.top.map (fun c => Nest.flatL c.top) := by
        rw [← hcov]; exact List.mem_map.mpr ⟨m, hm, rfl⟩
      obtain ⟨t, ht, hteq⟩ := List.mem_map.mp h1
      exact ⟨t, ht, by rw [hteq]; exact (group_sat_iff env x m (hconf m hm)).mp h⟩
    · rintro ⟨t, ht, h⟩
      have h1 : Nest.flatL t.top ∈ (m0 :: ms).map (fun g => g.map (·.2)) := by
        rw [hcov]; exact List.mem_map.mpr ⟨t, ht, rfl⟩
      obtain ⟨m, hm, hmeq⟩ := List.mem_map.mp h1
      exact ⟨stackOf m, List.mem_map.mpr ⟨m, hm, rfl⟩,
        (group_sat_iff env x m (hconf m hm)).mpr (by rw [hmeq]; exact h)⟩

/-- `join=and_`, `ptype` omitted: no hypothesis on the shape is needed -/
theorem gp_join_and_default_zero_iff (env : Env C K) {k' kj : K} (hk : 0 < k') (hkj : 0 < kj) (top : K)
    (conds : Nest (Kind × Expr C)) (x : List K) (hd : ∀ c ∈ Nest.flatL conds.top, c.2.defined env x = true) :
    ∃ v, gpJoin env k' top kj .and_ conds .none x = some (some v) ∧
      (v = 0 ↔ ∀ c ∈ Nest.flatL conds.top, c.1.satisfied (c.2.eval env x)) :=
  gp_join_and_zero_iff env hk hkj top conds .none x _ (gpMembers_none conds) (gpMembers_none_snd conds)
    (by intro g hg
        obtain ⟨c, _, rfl⟩ := List.mem_map.mp hg
        exact gpItems_none_conform c) hd

/-- `join=or_`, `ptype` omitted -/
theorem gp_join_or_default_zero_iff (env : Env C K) {k' kj : K} (hk : 0 < k') (hkj : 0 < kj) (top : K)
    (conds : Nest (Kind × Expr C)) (x : List K) (hne : conds.top ≠ [])
    (hd : ∀ c ∈ Nest.flatL conds.top, c.2.defined env x = true) :
    ∃ v, gpJoin env k' top kj .or_ conds .none x = some (some v) ∧
      (v = 0 ↔ ∃ t ∈ conds.top, ∀ c ∈ Nest.flatL t.top, c.1.satisfied (c.2.eval env x)) :=
  gp_join_or_zero_iff env hk hkj top conds .none x _ (gpMembers_none conds) hne (gpMembers_none_snd conds)
    (by intro g hg
        obtain ⟨c, _, rfl⟩ := List.mem_map.mp hg
        exact gpItems_none_conform c) hd

/-- **Fewer `ptype` entries than members** (a list nested as deep as the conditions but shorter than their outer sequence):
`generate_penalty(.., join=..)` itself raises, whatever the point. -/
theorem gp_join_runs_dry (env : Env C K) (k' top kj : K) (j : PJoin) (cs : List (Nest (Kind × Expr C)))
    (ts : List (Nest PType)) (x : List K) (hdeep : Nest.depthL cs ≤ Nest.depthL ts) (hshort : ts.length < cs.length) :
    gpJoin env k' top kj j (.node cs) (.many ts) x = none := by
  unfold gpJoin gpMembers
  simp only [Nest.top, perMemberP, hdeep, decide_true, if_true]
  rw [zipMembersP_short cs ts hshort]; rfl

/-! ## constraint and penalty of the same text(s), any nesting on both sides -/

/-- **The constraint drives the penalty to zero, for every way of handing the text over.** `rels` = the lines of an
independent isolated-form system (hypotheses of `constraint_drives_penalty_to_zero`), `solvers` = ANY nesting of accepted
solver statements whose flattening is `codes` (one text, a tuple of texts, hand-made groups), `conds` = ANY nesting of the
conditions of those lines (in any order, every line any number of times): the penalty `generate_penalty(conds)` (default
types, any positive multiplier) vanishes at the output of `generate_constraint(solvers)`. -/
theorem gp_shape_constraint_drives_penalty_to_zero [DecidableEq C] (env : Env C K) (isPos : C → Bool) (d : C)
    (hpos : ∀ c, isPos c = true → 0 < env.ι c) (htol : 0 ≤ env.tol) (hrel : 0 ≤ env.rel)
    {k' : K} (hk : 0 < k') (top : K)
    (rels : List (Rel C)) (solvers : Nest (Assign C)) (conds : Nest (Kind × Expr C)) (x : List K)
    (hrec : List.Forall₂ (fun r c => recognise isPos d r c = true) rels (Nest.flatL solvers.top))
    (hconds : ∀ c ∈ Nest.flatL conds.top, ∃ r ∈ rels, c = condEmit r.toRel2)
    (hlen : ∀ r ∈ rels, r.i < x.length)
    (hnodup : (rels.map (·.i)).Nodup)
    (hfree : ∀ r ∈ rels, ∀ r' ∈ rels, r'.rhs.mentions r.i = false)
    (hB : ∀ c ∈ Nest.flatL solvers.top, ∀ r ∈ rels, c.factor.mentions r.i = false)
    (hne : ∀ r ∈ rels, r.cmp = .ne → 0 < env.tol)
    (hd : ∀ c ∈ Nest.flatL conds.top, c.2.defined env (gcShaped env solvers .none x) = true) :
    gpShaped env k' top conds .none (gcShaped env solvers .none x) = 0 := by
  rw [(gp_shape_default_zero_iff env hk top conds _ hd).1]
  intro c hc
  obtain ⟨r, hr, rfl⟩ := hconds c hc
  rw [C13.gc_shape_default_eq_chain]
  have hm := chain_enforces_margin env isPos d hpos htol hrel rels _ x hrec hlen hnodup hfree hB hne r hr
  have hrc : recogniseCond r.toRel2 (condEmit r.toRel2).1 (condEmit r.toRel2).2 = true := by
    simp [recogniseCond]
  exact (condition_exact env r.toRel2 _ _ _ hrc).mpr hm

/-! ## non-vacuity -/

/-- two texts `x0 <= 1 ; x0 = x1` and `x1 >= 3` as `generate_conditions` returns them - `(((c0,), (c1,)), ((c2,), ()))` - with
`ptype=None`: three `(type, condition)` pairs of the conditions' own kinds; at `[1, 1]` only `x1 >= 3` fails (`2*100*2^2 = 800`),
at `[0, 3]` only `x0 = x1` fails (`100*3^2 = 900`); `join=or_` over the two texts is `0` at both points (the first resp. the
second text holds there), `join=and_` is not -/
example :
    let env : Env Nat ℚ := { ι := fun n => (n : ℚ), tol := 0, rel := 0 }
    let c0 := condEmit (⟨.var 0, .le, .num 1⟩ : Rel2 Nat)
    let c1 := condEmit (⟨.var 0, .eq, .var 1⟩ : Rel2 Nat)
    let c2 := condEmit (⟨.var 1, .ge, .num 3⟩ : Rel2 Nat)
    let conds : Nest (Kind × Expr Nat) :=
      .node [.node [.node [.leaf c0], .node [.leaf c1]], .node [.node [.leaf c2], .node []]]
    (gpItems conds .none).map (·.1) = [.qIneq, .qEq, .qIneq] ∧
    gpShaped env 100 0 conds .none [1, 1] = 800 ∧ gpShaped env 100 0 conds .none [0, 3] = 900 ∧
    gpJoin env 100 0 1 .or_ conds .none [1, 1] = some (some 0) ∧ gpJoin env 100 0 1 .or_ conds .none [0, 3] = some (some 0) ∧
    gpJoin env 100 0 1 .and_ conds .none [1, 1] = some (some 800) ∧
    (∀ c ∈ Nest.flatL conds.top, c.2.defined env [1, 1] = true) := by
  refine ⟨by simp [gpItems, ptypeList, Nest.top, Nest.flatL, Nest.flat, condEmit, Kind.default], ?_, ?_, ?_, ?_, ?_, by decide⟩ <;>
    simp [gpJoin, gpMembers, penJoin, sumL, gpShaped, gpItems, ptypeList, Nest.top, Nest.flatL, Nest.flat, stackOf, penalty,
      condEmit, Kind.default, Expr.defined, Expr.eval, PType.term, pyMax, pyMin, absR] <;>
    norm_num

end MysticVerif.C14
