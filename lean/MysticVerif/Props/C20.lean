/-
C20 - monitors and log files give back exactly what was recorded.
Property theorems only (helper lemmas live in Proofs/Monitor.lean).

The model (Model/Monitor.lean) is generic in the scalar; here it is instantiated at an arbitrary field `K`
(cost scaling by `k` is a statement about exact arithmetic: in binary64 `(k*y)/k = y` holds only up to
rounding, finding F13).  `Mon.calls m cs` = the calls `cs` applied in order to the monitor `m`.

"+, extend, prepend, slicing never alter the monitor passed to them" is a statement about aliasing; it is proved
in Props/C20Heap.lean about the heap model Model/MonitorHeap.lean (monitor objects = pointers to list cells),
which refines this functional model (`Heap.view`).  Tuple indices, CustomMonitor, `all=False`, the verbose
intervals and the measure views are in Props/C20Views.lean; non-rectangular trajectories, id tuples and
iteration numbers with gaps in Props/C20Files.lean; the ids of a trajectory through the three parameter files and
the matching readers (`read_support_file`, `read_converge_file`) in Props/C20Ids.lean.
-/
import MysticVerif.Proofs.Monitor
import MysticVerif.Props.C20Views
import MysticVerif.Props.C20Heap
import MysticVerif.Props.C20Files
import MysticVerif.Props.C20Ids
import Mathlib.Tactic.FieldSimp
import Mathlib.Tactic.Ring
import Mathlib.Tactic.NormNum

namespace MysticVerif.C20
open MysticVerif.Mon

variable {R : Type} {K : Type} [Field K]

/-! ## recording -/

/-- **length.** A monitor that has been called `n` more times is `n` longer (`len` = `len(self.x)`),
and the three lists keep one common length. -/
theorem len_after_calls [Mul R] (m : Mon R) (cs : List (Call R)) :
    (m.calls cs).len = m.len + cs.length ∧ (m.WF → (m.calls cs).WF) := by
  refine ⟨by simp [Mon.len, calls_x], ?_⟩
  intro ⟨h1, h2⟩
  constructor <;> simp [calls_x, calls_y, calls_id, h1, h2]

/-- **cost scaling by `k` is transparent** (field statement): what `get_y` / the log line divide out is
exactly what `__call__` multiplied in. -/
theorem y_transparent (k : Option K) (hk : k ≠ some 0) (y : PV K) : cdiv k (cmul k y) = y := by
  cases k with
  | none => rfl
  | some n =>
    have hn : n ≠ 0 := fun h => hk (by rw [h])
    simp only [cdiv, cmul, PV.map_map]
    exact PV.map_id' _ (fun v => by field_simp) y

private theorem calls_getY (m : Mon K) (hk : m.k ≠ some 0) (cs : List (Call K)) :
    (m.calls cs).getY = m.getY ++ cs.map (·.y) := by
  simp only [Mon.getY, calls_y, calls_k, List.map_append, List.map_map]
  congr 1
  apply List.map_congr_left
  intro c _
  exact y_transparent m.k hk c.y

/-- **the i-th record.** After the calls `cs` on a well-formed monitor `m` (with `k ≠ 0`), entry `len m + i`
holds exactly the parameters, the cost and the id of the `i`-th call; `m[j]` and `m[j - len]` (Python's
negative index) both return it, and its id is `m.id[j]`. -/
theorem get_ith (m : Mon K) (hk : m.k ≠ some 0) (hwf : m.WF) (cs : List (Call K)) (i : Nat) (hi : i < cs.length) :
    let m' := m.calls cs
    let j := m.len + i
    m'.getItem (j : Int) = some (cs[i].x, cs[i].y) ∧
    m'.getItem ((j : Int) - m'.len) = some (cs[i].x, cs[i].y) ∧
    m'.id[j]? = some cs[i].id := by
  intro m' j
  have hlen : m'.len = m.len + cs.length := (len_after_calls m cs).1
  have hx : m'.x[j]? = some cs[i].x := by
    simp only [m', j, calls_x, Mon.len]
    rw [List.getElem?_append_right (by omega)]
    simp [hi]
  have hy : m'.getY[j]? = some cs[i].y := by
    simp only [m', j, calls_getY m hk, Mon.len]
    have : m.getY.length = m.x.length := by simp [Mon.getY, hwf.1]
    rw [List.getElem?_append_right (by omega)]
    simp [this, hi]
  have hid : m'.id[j]? = some cs[i].id := by
    simp only [m', j, calls_id, Mon.len]
    rw [List.getElem?_append_right (by have := hwf.2; omega)]
    simp [hwf.2, hi]
  have hj : j < m'.len := by omega
  refine ⟨?_, ?_, hid⟩
  · have : pyIdx m'.len (j : Int) = some j := by
      unfold pyIdx; simp [hj]
    simp only [Mon.getItem, this, hx, hy]
  · have : pyIdx m'.len ((j : Int) - m'.len) = some j := by
      unfold pyIdx
      have h1 : ¬ (0 ≤ (j : Int) - (m'.len : Int)) := by omega
      rw [if_neg h1]
      have h2 : (-((j : Int) - (m'.len : Int))).toNat ≤ m'.len := by omega
      rw [if_pos h2]
      congr 1; omega
    simp only [Mon.getItem, this, hx, hy]

/-- **index bounds.** `m[i]` is defined exactly for `-len ≤ i < len` (otherwise `IndexError`), and then it is
the pair `(x[j], y[j])` at `j = i` or `j = len + i`. -/
theorem getItem_spec (m : Mon K) (hwf : m.WF) (i : Int) :
    (m.getItem i).isSome = true ↔ (-(m.len : Int) ≤ i ∧ i < m.len) := by
  have hy : m.getY.length = m.len := by simp [Mon.getY, Mon.len, hwf.1]
  unfold Mon.getItem pyIdx
  constructor
  · intro h
    split at h
    · simp at h
    · rename_i j hj
      split at hj
      · split at hj <;> simp at hj; omega
      · split at hj <;> simp at hj; omega
  · intro ⟨h1, h2⟩
    by_cases h0 : 0 ≤ i
    · rw [if_pos h0, if_pos (by omega)]
      have hx : i.toNat < m.x.length := by simp only [Mon.len] at h2; omega
      have hy' : i.toNat < m.getY.length := by omega
      simp [List.getElem?_eq_getElem hx, List.getElem?_eq_getElem hy']
    · rw [if_neg h0, if_pos (by omega)]
      have hlen : m.len = m.x.length := rfl
      have hx : m.len - (-i).toNat < m.x.length := by omega
      have hy' : m.len - (-i).toNat < m.getY.length := by omega
      simp [List.getElem?_eq_getElem hx, List.getElem?_eq_getElem hy']

/-! ## slicing -/

/-- **no invented entries.** Every index selected by `m[start:stop:step]` (any bounds, any non-zero step,
`None` allowed) is a valid position of `m`; the slice holds exactly the entries at those positions. -/
theorem sliceIdx_valid (n : Nat) (start stop : Option Int) (step : Int) (hstep : step ≠ 0) :
    ∀ j ∈ sliceIdx n start stop step, j < n := by
  intro j hj
  unfold sliceIdx at hj
  have hs := sliceStart_range n start step
  have he := sliceStop_range n stop step
  split at hj
  · rename_i hpos
    have hneg : ¬ step < 0 := by omega
    simp only [hneg, if_false] at hs he
    exact rangeUp_lt n _ step hpos he.2 n _ hs.1 j hj
  · rename_i hpos
    have hneg : step < 0 := by omega
    simp only [hneg, if_true] at hs he
    exact rangeDown_lt n _ step hneg he.1 n _ hs.2 j hj

private theorem sliceIdx_one (n a b : Nat) (hab : a ≤ b) (hb : b ≤ n) :
    sliceIdx n (some (a : Int)) (some (b : Int)) 1 = List.range' a (b - a) := by
  unfold sliceIdx sliceStart sliceStop adjBound
  simp only [Int.reduceLT, if_true, if_false, Int.one_pos]
  have h1 : ¬ ((a : Int) < 0) := by omega
  have h2 : ¬ ((b : Int) < 0) := by omega
  have h3 : ¬ ((a : Int) > n) := by omega
  have h4 : ¬ ((b : Int) > n) := by omega
  simp only [h1, h2, h3, h4, if_false]
  exact rangeUp_one n a b (by omega)

/-- **`m[a:b]`** (`0 ≤ a ≤ b ≤ len`, step 1) is the contiguous block of entries `a .. b-1` of each of the
three lists; `k` is kept, so the costs read back are the same block of `m.y`. -/
theorem slice_spec (m : Mon K) (hwf : m.WF) (a b : Nat) (hab : a ≤ b) (hb : b ≤ m.len) :
    let s := m.slice (some (a : Int)) (some (b : Int)) 1
    s.x = (m.x.drop a).take (b - a) ∧ s.getY = (m.getY.drop a).take (b - a) ∧
    s.id = (m.id.drop a).take (b - a) ∧ s.k = m.k ∧ s.len = b - a := by
  intro s
  have hidx := sliceIdx_one m.len a b hab hb
  have hx : s.x = (m.x.drop a).take (b - a) := by
    simp only [s, Mon.slice, hidx]; exact gather_range' _ _ _ (by simp only [Mon.len] at hb; omega)
  have hy : s.y = (m.y.drop a).take (b - a) := by
    simp only [s, Mon.slice, hidx]; exact gather_range' _ _ _ (by simp only [Mon.len] at hb; have := hwf.1; omega)
  have hid : s.id = (m.id.drop a).take (b - a) := by
    simp only [s, Mon.slice, hidx]; exact gather_range' _ _ _ (by simp only [Mon.len] at hb; have := hwf.2; omega)
  have hk : s.k = m.k := rfl
  refine ⟨hx, ?_, hid, hk, ?_⟩
  · simp only [Mon.getY, hy, hk, List.map_take, List.map_drop]
  · simp only [Mon.len, hx, List.length_take, List.length_drop]; simp only [Mon.len] at hb; omega

private theorem sliceIdx_prefix (n i : Nat) (hi : i ≤ n) :
    sliceIdx n none (some (i : Int)) 1 = List.range' 0 i := by
  have := sliceIdx_one n 0 i (by omega) hi
  unfold sliceIdx sliceStart sliceStop at this ⊢
  simp only [Int.reduceLT, if_false, Int.one_pos, if_true] at this ⊢
  have e : adjBound n 1 ((0 : Nat) : Int) = 0 := by unfold adjBound; simp
  rw [e] at this
  simpa using this

private theorem sliceIdx_suffix (n i : Nat) (hi : i ≤ n) :
    sliceIdx n (some (i : Int)) none 1 = List.range' i (n - i) := by
  have := sliceIdx_one n i n hi (by omega)
  unfold sliceIdx sliceStart sliceStop at this ⊢
  simp only [Int.reduceLT, if_false, Int.one_pos, if_true] at this ⊢
  have e : adjBound n 1 (n : Int) = n := by unfold adjBound; simp
  rw [e] at this
  exact this

/-- **`m[:i]` and `m[i:]` split `m`**: concatenating the two slices gives back the three lists of `m`. -/
theorem slice_split (m : Mon R) (hwf : m.WF) (i : Nat) (hi : i ≤ m.len) :
    let p := m.slice none (some (i : Int)) 1
    let q := m.slice (some (i : Int)) none 1
    p.x ++ q.x = m.x ∧ p.y ++ q.y = m.y ∧ p.id ++ q.id = m.id := by
  intro p q
  have h1 := sliceIdx_prefix m.len i hi
  have h2 := sliceIdx_suffix m.len i hi
  have hl := hwf.1; have hl2 := hwf.2
  simp only [Mon.len] at hi h1 h2
  refine ⟨?_, ?_, ?_⟩
  · simp only [p, q, Mon.slice, Mon.len, h1, h2]
    rw [gather_range' _ _ _ (by omega), gather_range' _ _ _ (by omega)]
    simp only [List.drop_zero]
    rw [List.take_of_length_le (l := List.drop i m.x) (by simp)]
    exact List.take_append_drop i m.x
  · simp only [p, q, Mon.slice, Mon.len, h1, h2]
    rw [gather_range' _ _ _ (by omega), gather_range' _ _ _ (by omega)]
    simp only [List.drop_zero]
    rw [List.take_of_length_le (l := List.drop i m.y) (by simp; omega)]
    exact List.take_append_drop i m.y
  · simp only [p, q, Mon.slice, Mon.len, h1, h2]
    rw [gather_range' _ _ _ (by omega), gather_range' _ _ _ (by omega)]
    simp only [List.drop_zero]
    rw [List.take_of_length_le (l := List.drop i m.id) (by simp; omega)]
    exact List.take_append_drop i m.id

/-! ## `+`, `extend`, `prepend` -/

private theorem cdiv_eq (k : Option K) (y : PV K) : cdiv k y = y.map (· / k.getD 1) := by
  cases k with
  | none => simp only [cdiv, Option.getD_none]; exact (PV.map_id' _ (fun v => by simp) y).symm
  | some n => rfl

private theorem yFor_eq (a b : Mon K) : yFor a b = b.y.map (PV.map (· / (b.k.getD 1 / a.k.getD 1))) := by
  unfold yFor kdiv
  cases hb : b.k <;> cases ha : a.k <;> simp
  exact (List.map_id'' (fun y => PV.map_id' _ (fun v => by simp) y) _).symm

/-- the argument's costs, re-expressed in the receiver's `k`, read back through the receiver as themselves -/
private theorem yFor_getY (a b : Mon K) (ha : a.k ≠ some 0) (hb : b.k ≠ some 0) :
    (yFor a b).map (cdiv a.k) = b.getY := by
  rw [yFor_eq]
  simp only [Mon.getY, List.map_map]
  apply List.map_congr_left
  intro y _
  simp only [Function.comp_apply, cdiv_eq, PV.map_map]
  congr 1
  funext v
  have ha' : a.k.getD 1 ≠ 0 := by
    cases h : a.k with
    | none => simp
    | some n => simp only [Option.getD_some]; intro h0; exact ha (by rw [h, h0])
  have hb' : b.k.getD 1 ≠ 0 := by
    cases h : b.k with
    | none => simp
    | some n => simp only [Option.getD_some]; intro h0; exact hb (by rw [h, h0])
  field_simp

/-- **`a.extend(b)`** is the concatenation `a ++ b` of parameters, costs (as read back through `.y`, the two
`k`'s reconciled) and ids; `k` stays `a.k`. -/
theorem extend_spec (a b : Mon K) (ha : a.k ≠ some 0) (hb : b.k ≠ some 0) :
    (a.extend b).x = a.x ++ b.x ∧ (a.extend b).getY = a.getY ++ b.getY ∧
    (a.extend b).id = a.id ++ b.id ∧ (a.extend b).k = a.k ∧ (a.extend b).len = a.len + b.len := by
  refine ⟨rfl, ?_, rfl, rfl, by simp [Mon.extend, Mon.len]⟩
  have := yFor_getY a b ha hb
  simp only [Mon.getY, Mon.extend, List.map_append] at this ⊢
  rw [this]

/-- **`a + b`** (a deep copy of `a` extended by `b`) is the same concatenation. -/
theorem add_spec (a b : Mon K) (ha : a.k ≠ some 0) (hb : b.k ≠ some 0) :
    (a.add b).x = a.x ++ b.x ∧ (a.add b).getY = a.getY ++ b.getY ∧
    (a.add b).id = a.id ++ b.id ∧ (a.add b).k = a.k ∧ (a.add b).len = a.len + b.len :=
  extend_spec a b ha hb

/-- **`a.prepend(b)`** (`insert(i, item)` for `i, item in enumerate(b)`) is the concatenation `b ++ a`:
the order of `b`'s records is kept and they come first. -/
theorem prepend_spec (a b : Mon K) (ha : a.k ≠ some 0) (hb : b.k ≠ some 0) :
    (a.prepend b).x = b.x ++ a.x ∧ (a.prepend b).getY = b.getY ++ a.getY ∧
    (a.prepend b).id = b.id ++ a.id ∧ (a.prepend b).k = a.k ∧ (a.prepend b).len = b.len + a.len := by
  refine ⟨by simp [Mon.prepend, insertAll_zero], ?_, by simp [Mon.prepend, insertAll_zero], rfl,
    by simp [Mon.prepend, insertAll_zero, Mon.len]⟩
  have := yFor_getY a b ha hb
  simp only [Mon.getY, Mon.prepend, insertAll_zero, List.map_append] at this ⊢
  rw [this]

/-! ## the log file -/

/-- **one log line.** `LoggingMonitor` writes a line exactly when `interval` divides the number of earlier
records; the line carries that number as the iteration, the id, the parameters (a scalar wrapped in a list)
and the cost as it was passed in (`k` divided out again). -/
theorem log_record_spec (m : Mon K) (hk : m.k ≠ some 0) (x y : PV K) (id : Option Int) :
    (∀ r, m.logOf x y id = some r → r.step = m.len ∧ r.id = id ∧ r.y = y ∧ r.x = logX x) ∧
    ((m.logOf x y id).isSome = true ↔ ∃ n, m.interval = some n ∧ 0 < n ∧ m.len % n = 0) := by
  unfold Mon.logOf
  constructor
  · intro r hr
    split at hr
    · simp at hr
    · split at hr
      · simp at hr
      · split at hr
        · simp only [Option.some.injEq] at hr
          subst hr
          exact ⟨rfl, rfl, y_transparent m.k hk y, rfl⟩
        · simp at hr
  · cases hiv : m.interval with
    | none => simp
    | some n =>
      simp only [Option.some.injEq, exists_eq_left']
      by_cases h0 : n = 0
      · simp [h0]
      · by_cases h1 : m.len % n = 0
        · simp [h0, h1]; omega
        · simp [h0, h1]

/-- **text round trip at token level.** If the three printed fields are well-formed (`tokOK`: non-empty, no
leading or trailing space, no three consecutive spaces - true of every `repr` of a tuple, number or list;
`tailOK`: no three consecutive spaces), then `line.split("   ")` of `"  %s     %s   %s" % (step, y, x)` gives
back exactly the three fields (the first two with their two leading blanks, which `eval` ignores). -/
theorem logline_roundtrip (s y x : List Char) (hs : tokOK s = true) (hy : tokOK y = true) (hx : tailOK x = true) :
    split3 (printLine s y x) = [[sp, sp] ++ s, [sp, sp] ++ y, x] ∧
    parseLine (printLine s y x) = some ([sp, sp] ++ s, [sp, sp] ++ y, x) := by
  have hs' : scan 2 s = some 0 := by
    simp only [tokOK, Bool.and_eq_true, beq_iff_eq] at hs; exact hs.2
  have hy' : scan 2 y = some 0 := by
    simp only [tokOK, Bool.and_eq_true, beq_iff_eq] at hy; exact hy.2
  obtain ⟨kx, hx'⟩ : ∃ k, scan 0 x = some k := by
    simp only [tailOK] at hx; exact Option.isSome_iff_exists.mp hx
  have main : split3 (printLine s y x) = [[sp, sp] ++ s, [sp, sp] ++ y, x] := by
    unfold split3 printLine
    -- two leading blanks
    have e0 : ∀ rest, splitGo 0 [] ([sp, sp] ++ rest) = splitGo 2 [] rest := by
      intro rest; simp [splitGo]
    simp only [List.append_assoc]
    rw [e0]
    -- the step field
    obtain ⟨a1, h1, c1⟩ := splitGo_scan ([sp, sp, sp, sp, sp] ++ (y ++ ([sp, sp, sp] ++ x))) s 2 [] 0 hs'
    rw [h1]
    have e1 : ∀ acc rest, splitGo 0 acc ([sp, sp, sp, sp, sp] ++ rest) = acc.reverse :: splitGo 2 [] rest := by
      intro acc rest; simp [splitGo]
    rw [e1]
    -- the cost field
    obtain ⟨a2, h2, c2⟩ := splitGo_scan ([sp, sp, sp] ++ x) y 2 [] 0 hy'
    rw [h2]
    have e2 : ∀ acc rest, splitGo 0 acc ([sp, sp, sp] ++ rest) = acc.reverse :: splitGo 0 [] rest := by
      intro acc rest; simp [splitGo]
    rw [e2]
    -- the parameter field
    obtain ⟨a3, h3, c3⟩ := splitGo_scan [] x 0 [] kx hx'
    rw [List.append_nil] at h3
    rw [h3]
    simp only [cur, List.replicate, List.append_nil, List.reverse_cons, List.reverse_nil, List.nil_append,
      List.reverse_append] at c1 c2 c3
    have r1 : a1.reverse = [sp, sp] ++ s := by simpa [cur, List.replicate] using c1
    have r2 : a2.reverse = [sp, sp] ++ y := by simpa [cur, List.replicate] using c2
    have r3 : (List.replicate kx sp ++ a3).reverse = x := by simpa [cur] using c3
    simp only [splitGo, r1, r2, r3]
  exact ⟨main, by simp [parseLine, main]⟩

/-- **`split3` is a split on `"   "`**: joining the pieces with three blanks gives back the string, and no
piece contains three consecutive blanks (this is what ties the model's scanner to the meaning of
`str.split("   ")`; agreement with CPython on concrete strings is checked by the correspondence). -/
theorem split3_spec (s : List Char) :
    List.intercalate [sp, sp, sp] (split3 s) = s ∧ ∀ p ∈ split3 s, tailOK p = true := by
  constructor
  · have := splitGo_join s 0 [] (by omega)
    simpa [split3, cur] using this
  · exact splitGo_pieces s 0 [] (by simp [cur, scan])

/-! ## parameter files -/

/-- **support format round trip.** For a rectangular, non-empty trajectory (`r > 0` iterations of `c > 0`
parameters) the table written by `write_support_file` (`raw_to_support`: every parameter a 1-tuple, then
transposed) decodes - transpose back, unwrap - to the same trajectory. -/
theorem support_roundtrip {α : Type} (xs : List (List α)) (c : Nat) (hrect : Rect xs c) (hne : xs ≠ []) (hc : 0 < c) :
    supportToRaw (rawToSupport xs) = xs := by
  -- a default element exists: the matrix is not empty
  obtain ⟨r0, rs, rfl⟩ : ∃ r0 rs, xs = r0 :: rs := by
    cases xs with
    | nil => exact absurd rfl hne
    | cons a b => exact ⟨a, b, rfl⟩
  have hr0 : r0.length = c := hrect r0 (by simp)
  obtain ⟨d, _⟩ : ∃ d, d ∈ r0 := by
    cases r0 with
    | nil => simp at hr0; omega
    | cons a _ => exact ⟨a, by simp⟩
  unfold supportToRaw rawToSupport convergeToSupport rawToConverge
  have hW : Rect ((r0 :: rs).map (·.map ([·]))) c := by
    intro r hr
    simp only [List.mem_map] at hr
    obtain ⟨q, hq, rfl⟩ := hr
    simp [hrect q hq]
  rw [zipStar_zipStar [d] c _ hW (by simp) hc]
  simp only [List.map_map]
  apply List.map_id''
  intro row
  simp only [Function.comp_apply]
  induction row with
  | nil => rfl
  | cons a t ih => simp [List.flatten_cons, ih]

/-- **converge format round trip**: unwrapping the 1-tuples of `raw_to_converge` gives back every step. -/
theorem converge_roundtrip {α : Type} (xs : List (List α)) : (rawToConverge xs).map List.flatten = xs := by
  unfold rawToConverge
  simp only [List.map_map]
  apply List.map_id''
  intro row
  simp only [Function.comp_apply]
  induction row with
  | nil => rfl
  | cons a t ih => simp [List.flatten_cons, ih]

/-- **raw file.** `write_raw_file` of a fresh monitor (any `k ≠ 0`) after the calls `cs` stores exactly the
recorded parameters and the recorded costs. -/
theorem raw_file_spec (k : Option K) (hk : k ≠ some 0) (iv : Option Nat) (cs : List (Call K)) :
    let m := Mon.calls ({ k := k, interval := iv } : Mon K) cs
    m.writeRaw.params = cs.map (·.x) ∧ m.writeRaw.cost = cs.map (·.y) := by
  intro m
  constructor
  · simp [m, Mon.writeRaw, calls_x]
  · simp only [m, Mon.writeRaw]
    rw [calls_getY _ hk]
    simp [Mon.getY]

/-- **support / converge file costs.** `write_support_file` and `write_converge_file` of a fresh monitor (any
`k ≠ 0`) after the calls `cs` store exactly the recorded costs: the copy they write from is built with
`write_monitor(..., k=mon.k)`, which multiplies the un-scaled costs by `k` before `write_raw_file` divides them
again (field statement; in binary64 each of these steps rounds - finding F13). -/
theorem support_cost_spec (k : Option K) (hk : k ≠ some 0) (iv : Option Nat) (cs : List (Call K)) :
    let m := Mon.calls ({ k := k, interval := iv } : Mon K) cs
    m.costViaCopy = cs.map (·.y) := by
  intro m
  simp only [m, Mon.costViaCopy]
  rw [calls_getY _ hk, calls_k]
  simp only [Mon.getY, List.map_nil, List.nil_append, List.map_map]
  apply List.map_congr_left
  intro c _
  exact y_transparent k hk c.y

/-! ## accessor views -/

/-- **the accessors are projections of the record list.** After the calls `cs` on a new monitor (any `k ≠ 0`),
`get_x` / `get_y` / `get_id` (and the properties `x`, `y`, `id`, `ix`, `iy`) are the lists of recorded parameters,
costs and ids, and `m[i]` is the pair of their `i`-th entries; `get_ax` / `get_ay` return the same lists whenever
numpy can build an array from them. -/
theorem views_spec (k : Option K) (hk : k ≠ some 0) (iv : Option Nat) (cs : List (Call K)) :
    let m := Mon.calls ({ k := k, interval := iv } : Mon K) cs
    m.getX = cs.map (·.x) ∧ m.getY = cs.map (·.y) ∧ m.getId = cs.map (·.id) ∧
    (∀ i : Nat, m.getItem (i : Int) = (match m.getX[i]?, m.getY[i]? with
        | some a, some b => some (a, b)
        | _, _ => none)) ∧
    (∀ l, m.getAx = .ok l → l = m.getX) ∧ (∀ l, m.getAy = .ok l → l = m.getY) := by
  intro m
  have hx : m.getX = cs.map (·.x) := by simp [m, Mon.getX, calls_x]
  have hy : m.getY = cs.map (·.y) := by
    simp only [m]; rw [calls_getY _ hk]; simp [Mon.getY]
  refine ⟨hx, hy, by simp [m, Mon.getId, calls_id], ?_, ?_, ?_⟩
  · intro i
    unfold Mon.getItem pyIdx
    have h0 : (0 : Int) ≤ (i : Int) := by omega
    simp only [h0, if_true, Int.toNat_natCast, Mon.getX, Mon.len]
    by_cases hi : i < m.x.length
    · simp only [hi, if_true, List.getElem?_eq_getElem hi]
      cases m.getY[i]? <;> rfl
    · have : m.x[i]? = none := by simp; omega
      simp [hi, this]
  · intro l h
    unfold Mon.getAx at h
    split at h
    · simp only [Except.ok.injEq] at h; exact h.symm
    · simp at h
  · intro l h
    unfold Mon.getAy at h
    split at h
    · simp only [Except.ok.injEq] at h; exact h.symm
    · simp at h

/-! ## non-vacuity: the hypotheses are met by concrete, non-trivial instances -/

/-- three calls with `k = 3` on ℚ, the middle record read back with a non-negative and a negative index -/
example :
    let m := Mon.calls ({ k := some (3 : ℚ) } : Mon ℚ) [⟨.vec [1, 2], .sc (1 / 10), none⟩, ⟨.vec [3, 4], .vec [5, 7], some 1⟩, ⟨.sc 9, .sc 0, none⟩]
    m.len = 3 ∧ m.getItem 1 = some (.vec [3, 4], .vec [5, 7]) ∧ m.getItem (-2) = some (.vec [3, 4], .vec [5, 7]) := by
  have h := get_ith ({ k := some (3 : ℚ) } : Mon ℚ) (by simp) ⟨rfl, rfl⟩
    [⟨.vec [1, 2], .sc (1 / 10), none⟩, ⟨.vec [3, 4], .vec [5, 7], some 1⟩, ⟨.sc 9, .sc 0, none⟩] 1 (by simp)
  refine ⟨rfl, ?_, ?_⟩
  · simpa [Mon.len] using h.1
  · have := h.2.1
    simpa [Mon.len, Mon.calls, Mon.call] using this

/-- slices with every kind of bound -/
example : sliceIdx 5 none none (-1) = [4, 3, 2, 1, 0] ∧ sliceIdx 5 (some (-2)) none 1 = [3, 4] ∧
    sliceIdx 5 (some 7) (some (-9)) (-2) = [4, 2, 0] ∧ sliceIdx 5 (some 1) (some 4) 2 = [1, 3] := by decide

/-- a real line: step `(0, 3)`, cost `-1.5`, parameters `[1.0, inf]` -/
example : tokOK "(0, 3)".toList = true ∧ tokOK "-1.5".toList = true ∧ tailOK "[1.0, inf]".toList = true ∧
    printLine "(0, 3)".toList "-1.5".toList "[1.0, inf]".toList = "  (0, 3)     -1.5   [1.0, inf]".toList := by decide

/-- the hypotheses of `logline_roundtrip` are needed: a field ending in a blank is not recovered -/
example : split3 (printLine "a ".toList "b".toList "c".toList) ≠ ["  a ".toList, "  b".toList, "c".toList] := by decide

/-- a 2 x 3 trajectory in support format -/
example : rawToSupport [[1, 2, 3], [4, 5, 6]] = [[[1], [4]], [[2], [5]], [[3], [6]]] ∧
    supportToRaw (rawToSupport [[1, 2, 3], [4, 5, 6]]) = [[1, 2, 3], [4, 5, 6]] := by decide

/-- prepending keeps the order of the prepended records (the literal `insert` loop) -/
example : insertAll [7, 8] 0 [1, 2, 3] = [1, 2, 3, 7, 8] := by decide

/-- a support/converge file of a monitor with `k = 2` and one record of cost `3` holds the cost `3` -/
example : (Mon.calls ({ k := some (2 : ℚ) } : Mon ℚ) [⟨.vec [1, 2], .sc 3, none⟩]).costViaCopy = [.sc 3] := by
  simpa using support_cost_spec (some (2 : ℚ)) (by simp) none [⟨.vec [1, 2], .sc 3, none⟩]

/-- extend with two different scalings: costs 6 (k=2) and 20 (k=4) read back as 3 and 5 -/
example :
    let a := Mon.calls ({ k := some (2 : ℚ) } : Mon ℚ) [⟨.sc 1, .sc 3, none⟩]
    let b := Mon.calls ({ k := some (4 : ℚ) } : Mon ℚ) [⟨.sc 2, .sc 5, none⟩]
    (a.extend b).getY = [.sc 3, .sc 5] := by
  intro a b
  have h := (extend_spec a b (by simp [a, calls_k]) (by simp [b, calls_k])).2.1
  rw [h]
  simp only [a, b, Mon.calls, List.foldl, Mon.call, Mon.getY, cmul, cdiv, PV.map, List.map, List.nil_append,
    List.cons_append]
  norm_num

end MysticVerif.C20
