/-
C16, part 4: the statistics targets `with_spread`, `with_variance`, `with_std` (constraints.py l.193-283,
measures.py impose_spread l.548-571, impose_variance l.436-462) as FIELD statements:
the result has exactly the requested spread / variance / std and the mean is kept; the degenerate inputs
(constant vector, length one, target 0, negative target) are the explicit alternatives of the statements.
`sum` is `List.sum`, `ofNat` the cast, `sqrt` a parameter with its law.
-/
import MysticVerif.Props.C16.Core
import MysticVerif.Proofs.TransformsExt

namespace MysticVerif.C16
open MysticVerif.Trans

section spread
variable {K : Type} [Field K] [LinearOrder K] [IsStrictOrderedRing K]

/-- the scaling step of `impose_spread` / `impose_variance`: `impose_mean(m, x * scale)` is the affine map
`a ↦ a * scale + shift` -/
theorem scaled_eq_map (m scale : K) (x : List K) :
    imposeMean List.sum Nat.cast m (x.map (· * scale))
      = x.map (fun a => a * scale + (m - meanL List.sum Nat.cast (x.map (· * scale)))) := by
  rw [imposeMean_eq_map, List.map_map]
  apply List.map_congr_left
  intro a _; simp only [Function.comp]; ring

/-- **in target** for `with_spread(target)`: one of
* the guard `almostEqual(spread(x), target)` held and `x` is returned;
* `x` is constant (zero spread, e.g. length one) and the code returns a vector of NaN (`nan`);
* the result has spread EXACTLY `|target|` (= `target` for the meaningful `target ≥ 0`; a negative target mirrors the
  vector about its mean) and the mean of `x`. -/
theorem withSpread_in_target (atol rtol nan target : K) (x y : List K)
    (hy : withSpread List.sum Nat.cast atol rtol nan target x = .ok y) :
    ∃ mx mn, maxL x = some mx ∧ minL x = some mn ∧
      ((y = x ∧ close atol rtol (mx - mn) target = true)
       ∨ (mx = mn ∧ y = x.map (fun _ => nan))
       ∨ (mx ≠ mn ∧ ∃ my ny, maxL y = some my ∧ minL y = some ny ∧ my - ny = |target|
            ∧ meanL List.sum Nat.cast y = meanL List.sum Nat.cast x)) := by
  unfold withSpread at hy
  cases hmx : maxL x with
  | none => simp [hmx] at hy
  | some mx =>
    cases hmn : minL x with
    | none => simp [hmx, hmn] at hy
    | some mn =>
      refine ⟨mx, mn, rfl, rfl, ?_⟩
      simp only [hmx, hmn] at hy
      split at hy
      · rename_i hc
        left; injection hy with hy; exact ⟨hy.symm, hc⟩
      · split at hy
        · rename_i _ he
          rw [eqR_iff] at he
          right; left; injection hy with hy
          exact ⟨by linarith, hy.symm⟩
        · rename_i _ he
          rw [eqR_iff] at he
          right; right
          injection hy with hy
          have hne : mx ≠ mn := fun h => he (by rw [h, sub_self])
          have hxne : x ≠ [] := by intro h; rw [h] at hmx; simp [maxL] at hmx
          have hle : mn ≤ mx := (maxL_spec x mx hmx).2 mn (minL_spec x mn hmn).1
          have hpos : 0 < mx - mn := by
            rcases lt_or_eq_of_le hle with h | h
            · linarith
            · exact absurd h.symm hne
          refine ⟨hne, ?_⟩
          rw [scaled_eq_map] at hy
          have hmean : meanL List.sum Nat.cast y = meanL List.sum Nat.cast x := by
            rw [← hy, ← scaled_eq_map]
            exact mean_imposeMean _ _ (by simpa using hxne)
          generalize hsh : meanL List.sum Nat.cast x - meanL List.sum Nat.cast (x.map (· * (target / (mx - mn)))) = shift at hy
          by_cases hs : 0 ≤ target
          · have hsc : 0 ≤ target / (mx - mn) := div_nonneg hs (le_of_lt hpos)
            have hmono : ∀ a b : K, a ≤ b → a * (target / (mx - mn)) + shift ≤ b * (target / (mx - mn)) + shift :=
              fun a b hab => by have := mul_le_mul_of_nonneg_right hab hsc; linarith
            refine ⟨mx * (target / (mx - mn)) + shift, mn * (target / (mx - mn)) + shift, ?_, ?_, ?_, hmean⟩
            · rw [← hy]; exact maxL_map_mono _ hmono x mx hmx
            · rw [← hy]; exact minL_map_mono _ hmono x mn hmn
            · rw [abs_of_nonneg hs]; field_simp; ring
          · have hs' : target < 0 := not_le.mp hs
            have hsc : target / (mx - mn) ≤ 0 := le_of_lt (div_neg_of_neg_of_pos hs' hpos)
            have hanti : ∀ a b : K, a ≤ b → b * (target / (mx - mn)) + shift ≤ a * (target / (mx - mn)) + shift :=
              fun a b hab => by have := mul_le_mul_of_nonpos_right hab hsc; linarith
            refine ⟨mn * (target / (mx - mn)) + shift, mx * (target / (mx - mn)) + shift, ?_, ?_, ?_, hmean⟩
            · rw [← hy]; exact maxL_map_anti _ hanti x mn hmn
            · rw [← hy]; exact minL_map_anti _ hanti x mx hmx
            · rw [abs_of_neg hs']; field_simp; ring

/-- **exact target** corollary: a non-constant input and a non-negative target outside the guard give spread
EXACTLY `target` -/
theorem withSpread_exact (atol rtol nan target : K) (ht : 0 ≤ target) (x y : List K) (mx mn : K)
    (hmx : maxL x = some mx) (hmn : minL x = some mn) (hne : mx ≠ mn)
    (hguard : close atol rtol (mx - mn) target = false)
    (hy : withSpread List.sum Nat.cast atol rtol nan target x = .ok y) :
    ∃ my ny, maxL y = some my ∧ minL y = some ny ∧ my - ny = target
      ∧ meanL List.sum Nat.cast y = meanL List.sum Nat.cast x := by
  obtain ⟨mx', mn', h1, h2, h⟩ := withSpread_in_target atol rtol nan target x y hy
  rw [hmx] at h1; rw [hmn] at h2
  injection h1 with h1; injection h2 with h2; subst h1; subst h2
  rcases h with ⟨_, hc⟩ | ⟨he, _⟩ | ⟨_, my, ny, a, b, c, d⟩
  · rw [hguard] at hc; cases hc
  · exact absurd he hne
  · exact ⟨my, ny, a, b, by rw [c, abs_of_nonneg ht], d⟩

/-- **idempotent** (non-constant input, `target ≥ 0`, non-negative tolerances as in the code) -/
theorem withSpread_idem (atol rtol nan target : K) (h0 : 0 ≤ atol) (h1 : 0 ≤ rtol) (ht : 0 ≤ target) (x y : List K)
    (hnc : maxL x ≠ minL x) (hy : withSpread List.sum Nat.cast atol rtol nan target x = .ok y) :
    withSpread List.sum Nat.cast atol rtol nan target y = .ok y := by
  obtain ⟨mx, mn, hmx, hmn, h⟩ := withSpread_in_target atol rtol nan target x y hy
  rcases h with ⟨rfl, _⟩ | ⟨he, _⟩ | ⟨_, my, ny, a, b, c, _⟩
  · exact hy
  · exact absurd (by rw [hmx, hmn, he]) hnc
  · unfold withSpread
    simp only [a, b]
    rw [c, abs_of_nonneg ht, if_pos (close_self atol rtol target h0 h1)]

/-- a NEGATIVE target cannot be met (a spread is never negative): the code returns spread `-target` -/
theorem withSpread_negative_target_witness :
    withSpread List.sum Nat.cast (0 : ℚ) 0 0 (-1) [0, 1] = .ok [1, 0] := by
  simp only [withSpread, maxL, minL, close, eqR, absR, meanL, imposeMean, List.foldl_cons, List.foldl_nil,
    List.map_cons, List.map_nil, List.sum_cons, List.sum_nil, List.length_cons, List.length_nil]
  norm_num

end spread

section variance
variable {K : Type} [Field K] [LinearOrder K] [IsStrictOrderedRing K]

/-- **in target** for `with_variance(target)`, `target ≥ 0`, `sqrt` any function with `sqrt a * sqrt a = a` on `a ≥ 0`: one of
* the guard `almostEqual(variance(x), target)` held and `x` is returned;
* `x` has zero variance (constant, length one): `x` itself for `target = 0`, else a vector of NaN;
* the result has variance EXACTLY `target` and the mean of `x`. -/
theorem withVariance_in_target (sqrt : K → K) (hsqrt : ∀ a, 0 ≤ a → sqrt a * sqrt a = a)
    (atol rtol nan target : K) (ht : 0 ≤ target) (x y : List K)
    (hy : withVariance List.sum Nat.cast sqrt atol rtol nan target x = .ok y) :
    (y = x ∧ close atol rtol (variance List.sum Nat.cast x) target = true)
      ∨ (variance List.sum Nat.cast x = 0 ∧ ((target = 0 ∧ y = x) ∨ (target ≠ 0 ∧ y = x.map (fun _ => nan))))
      ∨ (variance List.sum Nat.cast x ≠ 0 ∧ variance List.sum Nat.cast y = target
          ∧ meanL List.sum Nat.cast y = meanL List.sum Nat.cast x) := by
  unfold withVariance at hy
  split at hy
  · cases hy
  · rename_i hxe
    have hxne : x ≠ [] := by simpa using hxe
    simp only at hy
    split at hy
    · rename_i hc
      left; injection hy with hy; exact ⟨hy.symm, hc⟩
    · split at hy
      · rename_i _ he
        rw [eqR_iff] at he
        right; left
        refine ⟨he, ?_⟩
        split at hy
        · rename_i ht0
          rw [eqR_iff] at ht0
          left; injection hy with hy; exact ⟨ht0, hy.symm⟩
        · rename_i ht0
          rw [eqR_iff] at ht0
          right; injection hy with hy; exact ⟨ht0, hy.symm⟩
      · rename_i _ he
        rw [eqR_iff] at he
        right; right
        injection hy with hy
        have hsv : 0 < variance List.sum Nat.cast x := lt_of_le_of_ne (variance_nonneg x) (Ne.symm he)
        have hmean : meanL List.sum Nat.cast y = meanL List.sum Nat.cast x := by
          rw [← hy]; exact mean_imposeMean _ _ (by simpa using hxne)
        refine ⟨he, ?_, hmean⟩
        rw [scaled_eq_map] at hy
        rw [← hy, variance_map_affine x hxne, hsqrt _ (div_nonneg ht (le_of_lt hsv))]
        field_simp

/-- **in target** for `with_std(s)` = `with_variance(s*s)` (constraints.py l.249): the result has variance `s*s`,
i.e. standard deviation `|s|`, whatever the sign of `s` -/
theorem withStd_in_target (sqrt : K → K) (hsqrt : ∀ a, 0 ≤ a → sqrt a * sqrt a = a)
    (atol rtol nan s : K) (x y : List K)
    (hy : withVariance List.sum Nat.cast sqrt atol rtol nan (s * s) x = .ok y)
    (hnd : variance List.sum Nat.cast x ≠ 0) (hguard : close atol rtol (variance List.sum Nat.cast x) (s * s) = false) :
    variance List.sum Nat.cast y = s * s ∧ meanL List.sum Nat.cast y = meanL List.sum Nat.cast x := by
  rcases withVariance_in_target sqrt hsqrt atol rtol nan (s * s) (mul_self_nonneg s) x y hy with ⟨_, hc⟩ | ⟨h0, _⟩ | ⟨_, h⟩
  · rw [hguard] at hc; cases hc
  · exact absurd h0 hnd
  · exact h

/-- **idempotent** (input with non-zero variance, `target ≥ 0`, non-negative tolerances) -/
theorem withVariance_idem (sqrt : K → K) (hsqrt : ∀ a, 0 ≤ a → sqrt a * sqrt a = a)
    (atol rtol nan target : K) (h0 : 0 ≤ atol) (h1 : 0 ≤ rtol) (ht : 0 ≤ target) (x y : List K)
    (hnd : variance List.sum Nat.cast x ≠ 0)
    (hy : withVariance List.sum Nat.cast sqrt atol rtol nan target x = .ok y) :
    withVariance List.sum Nat.cast sqrt atol rtol nan target y = .ok y := by
  rcases withVariance_in_target sqrt hsqrt atol rtol nan target ht x y hy with ⟨rfl, _⟩ | ⟨hz, _⟩ | ⟨_, hv, _⟩
  · exact hy
  · exact absurd hz hnd
  · have hyne : y.isEmpty = false := by
      unfold withVariance at hy
      split at hy
      · cases hy
      · rename_i hxe
        simp only at hy
        split at hy
        · injection hy with hy; subst hy; simpa using hxe
        · split at hy
          · split at hy
            · injection hy with hy; subst hy; simpa using hxe
            · injection hy with hy; subst hy; simpa using hxe
          · injection hy with hy; subst hy; simpa [imposeMean] using hxe
    unfold withVariance
    rw [if_neg (by simp [hyne])]
    simp only
    rw [hv, if_pos (close_self atol rtol target h0 h1)]

end variance

/-! non-vacuity: over ℚ, `with_spread(4)` on `[0, 1, 3]` (spread 3, mean 4/3) -/
example : withSpread List.sum Nat.cast (0 : ℚ) 0 0 4 [0, 1, 3] = .ok [-4 / 9, 8 / 9, 32 / 9] := by
  simp only [withSpread, maxL, minL, close, eqR, absR, meanL, imposeMean, List.foldl_cons, List.foldl_nil,
    List.map_cons, List.map_nil, List.sum_cons, List.sum_nil, List.length_cons, List.length_nil]
  norm_num
/-- `with_variance(6)` on `[0, 1, 2]` (variance 2/3, scale 3 with `sqrt 9 = 3`) -/
example : withVariance List.sum Nat.cast (fun q : ℚ => if q = 9 then 3 else 0) 0 0 0 6 [0, 1, 2] = .ok [-2, 1, 4] := by
  simp only [withVariance, variance, close, eqR, absR, meanL, imposeMean, List.map_cons, List.map_nil, List.sum_cons,
    List.sum_nil, List.length_cons, List.length_nil, List.isEmpty_cons]
  norm_num

end MysticVerif.C16
