/-
C16, part 6: `impose_as` with an offset (constraints.py l.1622-1681) - the rounds of the `while pairs:` loop, and the
masks in which several partners share ONE tracker (the docstring's `(0,1),(3,1)`).

The offset loop works in rounds.  In every round the tracking indices of the remaining pairs are first made a SET
(`trac = set(trac)`, l.1670), every entry of the set receives the offset (`x[i] += offset`, out-of-range indices
skipped), and only the pairs whose partner was itself a tracker of the round stay for the next round.
  * `offsetRound_tracker_once`, `offsetRound_frame` : a round adds the offset exactly ONCE to an entry that any number of
    pairs (shared tracker, the same pair listed again) name as their tracker, and leaves every other entry alone -
    for every list of pairs, every length, negative and out-of-range indices included;
  * `offsetLoop_flat_one_round` : when no tracker is a partner the loop is one round;
  * `imposeAs_shared_tracker` and its corollaries: for the mask `[(p0,t),(p1,t),...]` (any number of partners, partners
    repeated, pairs repeated) every partner ends at the value of the first listed partner and the tracker at that value
    plus the offset; hence the pair clause `x[t] = x[p] + offset` for EVERY pair, the frame, conforming input
    returned as it is, idempotence;
  * closed-term checks: the docstring's examples, and the three places where the code as it is breaks a clause when the
    offset is not zero (recorded findings C16-K1..K3).
NOT proved in general: the tied relation for arbitrary forests / DAGs (the result depends on the listing order through
`tools.connected`, findings F18 / F21 / C16-K1..K3): covered by the bit-exact correspondence and the monitor.
-/
import MysticVerif.Props.C16.Core
import MysticVerif.Proofs.TransformsTrack

namespace MysticVerif.C16
open MysticVerif.Trans

variable {R : Type}

/-! ## one round of the offset loop -/

/-- **a shared tracker receives the offset once per round**: `trac = set(trac)` - an entry that ANY number of the
round's pairs name as their tracker (several partners of one tracker, the same pair listed again) holds its old value
plus ONE offset after the round.  `NoAlias`: two different index values do not address the same entry. -/
theorem offsetRound_tracker_once [Add R] (off : R) (pairs : List (Int × Int)) (x : List R)
    (hna : NoAlias x.length (pairs.map (·.2))) (k : Nat) (a : R)
    (hk : ∃ p ∈ pairs, wrapIdx x.length p.2 = some k) (ha : x[k]? = some a) :
    (offsetRound off (dedupInt (pairs.map (·.2))) x)[k]? = some (a + off) :=
  offsetRound_tracker off pairs x hna k a hk ha

/-- **frame of a round**: an entry that no pair of the round names as its tracker keeps its value (out-of-range
trackers are skipped) -/
theorem offsetRound_frame [Add R] (off : R) (pairs : List (Int × Int)) (x : List R)
    (hna : NoAlias x.length (pairs.map (·.2))) (k : Nat)
    (hk : ∀ p ∈ pairs, wrapIdx x.length p.2 ≠ some k) :
    (offsetRound off (dedupInt (pairs.map (·.2))) x)[k]? = x[k]? :=
  offsetRound_other off pairs x hna k hk

theorem offsetRound_keeps_length [Add R] (off : R) (trac : List Int) (x : List R) :
    (offsetRound off trac x).length = x.length := offsetRound_length off trac x

/-- when no tracker of the mask is the partner of a pair, the `while pairs:` loop is exactly ONE round -/
theorem offsetLoop_flat_one_round [Add R] (off : R) (fuel : Nat) (pairs : List (Int × Int)) (x : List R)
    (hflat : ∀ p ∈ pairs, ∀ q ∈ pairs, q.2 ≠ p.1) :
    offsetLoop off (fuel + 1) pairs x = .ok (offsetRound off (dedupInt (pairs.map (·.2))) x) :=
  offsetLoop_flat off fuel pairs x hflat

/-! ## several partners of one tracker -/

/-- the mask `[(p0,t), (p1,t), ...]` -/
def sharedMask (p0 t : Nat) (ps : List Nat) : List (Int × Int) := (p0 :: ps).map (fun (p : Nat) => ((p : Int), (t : Int)))

/-- `impose_as([(p0,t),(p1,t),...], offset)(x)` for in-range indices, `t` not a partner; partners may repeat (then the
same pair is listed again): the call returns, the length is kept, every partner holds the ORIGINAL value of the first
listed partner, the tracker holds that value plus ONE offset, every other entry is untouched. -/
theorem imposeAs_shared_tracker [Add R] (off : R) (p0 t : Nat) (ps : List Nat) (x : List R)
    (ht : t ∉ p0 :: ps) (hr : ∀ a ∈ t :: p0 :: ps, a < x.length) :
    ∃ y, imposeAs (sharedMask p0 t ps) off x = .ok y ∧ y.length = x.length ∧
      (∀ p ∈ p0 :: ps, y[p]? = x[p0]?) ∧ y[t]? = (x[p0]?).map (· + off) ∧
      (∀ k, k ∉ t :: p0 :: ps → y[k]? = x[k]?) := by
  have hp0 : p0 < x.length := hr p0 (by simp)
  have htl : t < x.length := hr t (by simp)
  have htp0 : t ≠ p0 := fun h => ht (by simp [h])
  have hmask : sharedMask p0 t ps =
      ((p0 : Int) :: ps.map (fun (p : Nat) => (p : Int))).map (fun p => (p, (t : Int))) := by
    simp [sharedMask, List.map_map, Function.comp_def]
  obtain ⟨v, hv, htv, hmem⟩ := connected_star (p0 : Int) (t : Int) (ps.map (fun (p : Nat) => (p : Int)))
  have hmemps : ∀ k : Nat, (k : Int) ∈ ps.map (fun (p : Nat) => (p : Int)) ↔ k ∈ ps := by
    intro k
    constructor
    · intro h
      obtain ⟨p, hp, hpk⟩ := List.mem_map.mp h
      have : p = k := by exact_mod_cast hpk
      rw [← this]; exact hp
    · intro h; exact List.mem_map.mpr ⟨k, h, rfl⟩
  have hkv : ∀ k : Nat, (k : Int) ∈ v ↔ k = t ∨ (k ∈ ps ∧ k ≠ p0) := by
    intro k
    rw [hmem, hmemps, Ne, Nat.cast_inj, Nat.cast_inj]
  have hp0v : (p0 : Int) ∉ v := by
    intro h
    rcases (hkv p0).mp h with h1 | ⟨_, h1⟩
    · exact htp0 h1.symm
    · exact h1 rfl
  have hvin : ∀ a ∈ v, 0 ≤ a ∧ a < x.length := by
    intro a ha
    rcases (hmem _).mp ha with h1 | ⟨h1, _⟩
    · subst h1; exact ⟨Int.natCast_nonneg _, by exact_mod_cast htl⟩
    · obtain ⟨p, hp, rfl⟩ := List.mem_map.mp h1
      have := hr p (by simp [hp])
      exact ⟨Int.natCast_nonneg _, by exact_mod_cast this⟩
  -- the tie phase
  let x1 := tieAll (connected (sharedMask p0 t ps)) x
  have hx1 : x1 = tieKey (p0 : Int) v x := by
    show tieAll (connected (sharedMask p0 t ps)) x = _
    rw [hmask, hv, tieAll_single]
  have hx1len : x1.length = x.length := by rw [hx1]; exact tieGroup_length _ v x
  have hx1k : ∀ k : Nat, x1[k]? = if (k : Int) ∈ v then (x[k]?).bind (fun _ => x[p0]?) else x[k]? := by
    intro k; rw [hx1]; exact tieGroup_getElem? p0 v x hp0 hp0v hvin k
  -- the offset loop: one round
  have hflat : ∀ p ∈ sharedMask p0 t ps, ∀ q ∈ sharedMask p0 t ps, q.2 ≠ p.1 := by
    intro p hp q hq
    obtain ⟨a, ha, rfl⟩ := List.mem_map.mp hp
    obtain ⟨b, hb, rfl⟩ := List.mem_map.mp hq
    intro h
    have h' : (t : Int) = (a : Int) := h
    have : t = a := by exact_mod_cast h'
    subst this
    exact ht ha
  have hsnd : ∀ q ∈ sharedMask p0 t ps, q.2 = (t : Int) := by
    intro q hq
    obtain ⟨b, _, rfl⟩ := List.mem_map.mp hq
    rfl
  have hna : NoAlias x1.length ((sharedMask p0 t ps).map (·.2)) := by
    intro a ha b hb _ _ _
    obtain ⟨q, hq, rfl⟩ := List.mem_map.mp ha
    obtain ⟨r, hr', rfl⟩ := List.mem_map.mp hb
    rw [hsnd q hq, hsnd r hr']
  have hwt : wrapIdx x1.length (t : Int) = some t := wrapIdx_nat _ _ (by rw [hx1len]; exact htl)
  refine ⟨offsetRound off (dedupInt ((sharedMask p0 t ps).map (·.2))) x1, ?_, ?_, ?_, ?_, ?_⟩
  · show offsetLoop off ((sharedMask p0 t ps).length + 1) (sharedMask p0 t ps) x1 = _
    exact offsetLoop_flat off _ _ x1 hflat
  · rw [offsetRound_length, hx1len]
  · intro p hp
    have hpt : p ≠ t := fun h => ht (h ▸ hp)
    rw [offsetRound_other off _ x1 hna p]
    · rw [hx1k p]
      by_cases hpv : (p : Int) ∈ v
      · rw [if_pos hpv]
        have : p < x.length := hr p (List.mem_cons_of_mem _ hp)
        simp [List.getElem?_eq_getElem this]
      · rw [if_neg hpv]
        have : p = p0 := by
          by_contra hne
          rcases List.mem_cons.mp hp with h | h
          · exact hne h
          · exact hpv ((hkv p).mpr (Or.inr ⟨h, hne⟩))
        rw [this]
    · intro q hq
      rw [hsnd q hq, hwt]
      intro h
      exact hpt (by simpa using h.symm)
  · have hx1t : x1[t]? = some x[p0] := by
      rw [hx1k t, if_pos htv]
      simp [List.getElem?_eq_getElem htl, List.getElem?_eq_getElem hp0]
    rw [offsetRound_tracker off _ x1 hna t x[p0] ⟨((p0 : Int), (t : Int)), by simp [sharedMask], hwt⟩ hx1t]
    simp [List.getElem?_eq_getElem hp0]
  · intro k hk
    have hkt : k ≠ t := fun h => hk (by simp [h])
    rw [offsetRound_other off _ x1 hna k]
    · rw [hx1k k, if_neg]
      intro hkv'
      rcases (hkv k).mp hkv' with h | ⟨h, _⟩
      · exact hkt h
      · exact hk (by simp [h])
    · intro q hq
      rw [hsnd q hq, hwt]
      intro h
      exact hkt (by simpa using h.symm)

/-- **the tracked partner (+offset)**: after `impose_as([(p0,t),(p1,t),...], offset)` the tracker sits at its partner
plus the offset for EVERY listed pair - one offset, however many partners share the tracker -/
theorem imposeAs_shared_tracker_pair_clause [Add R] (off : R) (p0 t : Nat) (ps : List Nat) (x y : List R)
    (ht : t ∉ p0 :: ps) (hr : ∀ a ∈ t :: p0 :: ps, a < x.length)
    (hy : imposeAs (sharedMask p0 t ps) off x = .ok y) :
    ∀ p ∈ p0 :: ps, y[t]? = (y[p]?).map (· + off) := by
  obtain ⟨y', hy', _, hp, htv, _⟩ := imposeAs_shared_tracker off p0 t ps x ht hr
  rw [hy] at hy'
  cases hy'
  intro p hpm
  rw [htv, hp p hpm]

/-- **frame**: entries that no pair mentions are untouched, and the length is kept -/
theorem imposeAs_shared_tracker_frame [Add R] (off : R) (p0 t : Nat) (ps : List Nat) (x y : List R)
    (ht : t ∉ p0 :: ps) (hr : ∀ a ∈ t :: p0 :: ps, a < x.length)
    (hy : imposeAs (sharedMask p0 t ps) off x = .ok y) :
    y.length = x.length ∧ ∀ k, k ∉ t :: p0 :: ps → y[k]? = x[k]? := by
  obtain ⟨y', hy', hl, _, _, hf⟩ := imposeAs_shared_tracker off p0 t ps x ht hr
  rw [hy] at hy'
  cases hy'
  exact ⟨hl, hf⟩

/-- **conforming input is left alone**: if every partner already equals the first one and the tracker already sits one
offset above it, the input is returned as it is -/
theorem imposeAs_shared_tracker_fix_conform [Add R] (off : R) (p0 t : Nat) (ps : List Nat) (x : List R)
    (ht : t ∉ p0 :: ps) (hr : ∀ a ∈ t :: p0 :: ps, a < x.length)
    (hps : ∀ p ∈ ps, x[p]? = x[p0]?) (htr : x[t]? = (x[p0]?).map (· + off)) :
    imposeAs (sharedMask p0 t ps) off x = .ok x := by
  obtain ⟨y, hy, hl, hp, htv, hf⟩ := imposeAs_shared_tracker off p0 t ps x ht hr
  rw [hy]
  congr 1
  apply List.ext_getElem?
  intro k
  by_cases hkt : k = t
  · subst hkt; rw [htv, htr]
  · by_cases hkp : k ∈ p0 :: ps
    · rw [hp k hkp]
      rcases List.mem_cons.mp hkp with h | h
      · rw [h]
      · exact (hps k h).symm
    · exact hf k (by simp only [List.mem_cons] at hkp ⊢; tauto)

/-- **applying it twice equals applying it once** -/
theorem imposeAs_shared_tracker_idem [Add R] (off : R) (p0 t : Nat) (ps : List Nat) (x y : List R)
    (ht : t ∉ p0 :: ps) (hr : ∀ a ∈ t :: p0 :: ps, a < x.length)
    (hy : imposeAs (sharedMask p0 t ps) off x = .ok y) :
    imposeAs (sharedMask p0 t ps) off y = .ok y := by
  obtain ⟨y', hy', hl, hp, htv, _⟩ := imposeAs_shared_tracker off p0 t ps x ht hr
  rw [hy] at hy'
  cases hy'
  have hr' : ∀ a ∈ t :: p0 :: ps, a < y.length := by intro a ha; rw [hl]; exact hr a ha
  apply imposeAs_shared_tracker_fix_conform off p0 t ps y ht hr'
  · intro p hpm
    rw [hp p (List.mem_cons_of_mem _ hpm), hp p0 (by simp)]
  · rw [htv, hp p0 (by simp)]

/-- the hypotheses are satisfiable by a non-trivial instance: three partners (one listed twice) of the tracker `1` -/
example : imposeAs (sharedMask 0 1 [3, 4, 3]) (10 : Int) [9, 8, 7, 6, 5] = .ok [9, 19, 7, 9, 9] := by rfl

/-! ## closed terms: the docstring's examples and the recorded defects -/

/-- the four `doit(...)` examples and the three `same(...)` examples of the docstring (l.1632-1654) -/
theorem imposeAs_docstring_examples :
    imposeAs [(0, 1), (3, 1), (4, 5), (5, 6), (5, 7)] (10 : Int) [9, 8, 7, 6, 5, 4, 3, 2, 1] = .ok [9, 19, 7, 9, 5, 15, 25, 25, 1]
    ∧ imposeAs [(0, 1), (3, 1), (4, 5), (5, 6), (5, 7)] (10 : Int) [0, 1, 0, 1] = .ok [0, 10, 0, 0]
    ∧ imposeAs [(0, 1), (3, 1), (4, 5), (5, 6), (5, 7)] (10 : Int) [-1, -2, -3, -4, -5, -6] = .ok [-1, 9, -3, -1, -5, 5]
    ∧ imposeAs [(0, 1), (3, 1), (4, 5), (5, 6), (5, 7)] (10 : Int) [-1, -2, -3, -4, -5, -6, -7] = .ok [-1, 9, -3, -1, -5, 5, 15]
    ∧ imposeAs [(0, 1), (3, 1), (4, 5), (5, 6), (5, 7)] (0 : Int) [9, 8, 7, 6, 5, 4, 3, 2, 1] = .ok [9, 9, 7, 9, 5, 5, 5, 5, 1]
    ∧ imposeAs [(0, 1), (3, 1), (4, 5), (5, 6), (5, 7)] (0 : Int) [0, 1, 0, 1] = .ok [0, 0, 0, 0]
    ∧ imposeAs [(0, 1), (3, 1), (4, 5), (5, 6), (5, 7)] (0 : Int) [-1, -2, -3, -4, -5, -6, -7] = .ok [-1, -1, -3, -1, -5, -5, -5] := by
  refine ⟨?_, ?_, ?_, ?_, ?_, ?_, ?_⟩ <;> rfl

/-- a pair listed twice changes nothing: `impose_as([(0,1),(0,1),(1,2)], 10)` is `impose_as([(0,1),(1,2)], 10)` here -/
theorem imposeAs_repeated_pair_example :
    imposeAs [(0, 1), (0, 1), (1, 2)] (10 : Int) [5, 6, 7] = .ok [5, 15, 25]
    ∧ imposeAs [(0, 1), (1, 2)] (10 : Int) [5, 6, 7] = .ok [5, 15, 25] := by
  constructor <;> rfl

/-- C16-K1: the chain `0 -> 1 -> 2` listed tracker-first.  `connected` keys the group by `1`, itself a tracker: the
conforming input `[0,10,20]` is moved to `[10,20,30]`, its image to `[20,30,40]` (not idempotent); the same pairs
listed partner-first return the input. -/
theorem imposeAs_offset_key_is_tracker_witness :
    imposeAs [(1, 2), (0, 1)] (10 : Int) [0, 10, 20] = .ok [10, 20, 30]
    ∧ imposeAs [(1, 2), (0, 1)] (10 : Int) [10, 20, 30] = .ok [20, 30, 40]
    ∧ connected [(1, 2), (0, 1)] = [(1, [2, 0])]
    ∧ imposeAs [(0, 1), (1, 2)] (10 : Int) [0, 10, 20] = .ok [0, 10, 20] := by
  refine ⟨?_, ?_, ?_, ?_⟩ <;> rfl

/-- C16-K2: tracker `2` shared by partner `1` (itself a tracker) and partner `3` (tracks nothing): the pair `(3,2)` ends
two offsets apart although `[1,11,21,11]` satisfies every pair; the conforming input `[0,10,20,10]` is changed. -/
theorem imposeAs_unequal_depth_witness :
    imposeAs [(0, 1), (1, 2), (3, 2)] (10 : Int) [1, 2, 3, 4] = .ok [1, 11, 21, 1]
    ∧ imposeAs [(0, 1), (1, 2), (3, 2)] (10 : Int) [0, 10, 20, 10] = .ok [0, 10, 20, 0] := by
  constructor <;> rfl

/-- C16-K3: the partner `5` of the only pair does not exist; the tie is skipped, the offset is still added to the
tracker - on every application -/
theorem imposeAs_offset_out_of_range_key_witness :
    imposeAs [(5, 1)] (10 : Int) [1, 2, 3] = .ok [1, 12, 3]
    ∧ imposeAs [(5, 1)] (10 : Int) [1, 12, 3] = .ok [1, 22, 3] := by
  constructor <;> rfl

end MysticVerif.C16
