/-
C16, part 7: `unique(x, full)` / `impose_unique(full)` (constraints.py l.1052-1154, l.1159-1181) for ANY sequence of
allowed values - listed in any order, members repeated at will - with the replacement pool inside the statement:
the list handed to `shuffle` is `list(set(full) - set(x))`; its contract `uniquePoolOk` (no repeats, allowed values
that do not occur in `x`, all of them) is evaluated by the driver on the list the real run hands over.
-/
import MysticVerif.Props.C16.Core
import MysticVerif.Proofs.TransformsUnique

namespace MysticVerif.C16
open MysticVerif.Trans

section uniq2
variable {R : Type} [BEq R] [LawfulBEq R]

/-- what the pool contract says, as propositions -/
theorem unique_pool_contract (full x new : List R) (h : uniquePoolOk full x new = true) :
    new.Nodup ∧ (∀ v ∈ new, v ∈ full ∧ v ∉ x) ∧ (∀ v ∈ full, v ∉ x → v ∈ new) := by
  simp only [uniquePoolOk, Bool.and_eq_true, List.all_eq_true, Bool.or_eq_true, Bool.not_eq_true'] at h
  obtain ⟨⟨h1, h2⟩, h3⟩ := h
  refine ⟨(nodupB_iff new).mp h1, ?_, ?_⟩
  · intro v hv
    have := h2 v hv
    exact ⟨by simpa using this.1, by simpa using this.2⟩
  · intro v hv hx
    rcases h3 v hv with h | h
    · exact absurd (by simpa using h) hx
    · simpa using h

/-- **in target** for `unique` / `impose_unique`, `full` any list (repeats, any order): under the pool contract the
result has the length of the input, pairwise-distinct entries, every one of them an allowed value -/
theorem unique_in_target (full x new y : List R) (hy : unique full x new = .ok y)
    (hp : uniquePoolOk full x new = true) : y.length = x.length ∧ y.Nodup ∧ ∀ b ∈ y, b ∈ full := by
  obtain ⟨hnd, hnew, _⟩ := unique_pool_contract full x new hp
  obtain ⟨h1, h3⟩ := unique_distinct full x new y hy hnd (fun v hv => (hnew v hv).2)
  unfold unique at hy
  split at hy
  · cases hy
  · rename_i hall
    split at hy
    · cases hy
    · refine ⟨(uniqueGo_first x [] new y hy).1, h1, ?_⟩
      intro b hb
      rcases h3 b hb with h | h
      · have hall' : x.all (fun a => full.contains a) = true := by simpa using hall
        simpa using (List.all_eq_true.mp hall') b h
      · exact (hnew b h).1

/-- **frame**: every first occurrence of a value stays where it is (only later repeats are replaced), for every `new` -/
theorem unique_frame_first (full x new y : List R) (hy : unique full x new = .ok y) (k : Nat) (a : R)
    (hk : x[k]? = some a) (hfirst : a ∉ x.take k) : y[k]? = some a := by
  unfold unique at hy
  split at hy
  · cases hy
  · split at hy
    · cases hy
    · exact (uniqueGo_first x [] new y hy).2 k a hk (by simp) hfirst

/-- **conforming input left alone**: a vector of pairwise-distinct allowed values is returned as it is, whatever the
shuffle does -/
theorem unique_fix_conform (full x new : List R) (hnd : x.Nodup) (hin : ∀ a ∈ x, a ∈ full)
    (hlen : x.length ≤ full.length) : unique full x new = .ok x := by
  unfold unique
  have hall : x.all (fun a => full.contains a) = true := by
    simpa [List.all_eq_true] using hin
  simp only [hall]
  have : ¬ full.length < x.length := by omega
  simp only [this, if_false]
  exact uniqueGo_nodup x [] new hnd (by simp)

/-- **twice = once**: the result of `unique` (under the pool contract) is returned unchanged by a second application,
whatever the second shuffle does -/
theorem unique_idem (full x new y new' : List R) (hy : unique full x new = .ok y)
    (hp : uniquePoolOk full x new = true) : unique full y new' = .ok y := by
  obtain ⟨hl, hnd, hin⟩ := unique_in_target full x new y hy hp
  refine unique_fix_conform full y new' hnd hin ?_
  unfold unique at hy
  split at hy
  · cases hy
  · split at hy
    · cases hy
    · omega

end uniq2

/-- the pool contract is what carries "pairwise distinct": a pool that keeps the repeated members of `full`
(`[i for i in full if i not in unique]`) violates the contract and hands the same value to two repeats -/
theorem unique_repeated_pool_witness :
    uniquePoolOk [(5 : Int), 7, 7, 8] [5, 5, 5] [7, 8, 7] = false ∧
    unique [(5 : Int), 7, 7, 8] [5, 5, 5] [8, 7, 7] = .ok [5, 7, 7] ∧
    uniquePoolOk [(5 : Int), 7, 7, 8] [5, 5, 5] [8, 7] = true ∧
    unique [(5 : Int), 7, 7, 8] [5, 5, 5] [8, 7] = .ok [5, 7, 8] := by decide

/-- `len(full)` counts repeated members (l.1147): with fewer DISTINCT allowed values than entries the length check
passes and `new.pop()` runs dry - an `IndexError` instead of the documented `ValueError` (no distinct vector exists,
so raising is right) -/
theorem unique_repeated_full_exhausts_witness :
    unique [(7 : Int), 7, 7] [7, 7] [] = .error .index ∧ uniquePoolOk [(7 : Int), 7, 7] [7, 7] [] = true := by decide

example : uniquePoolOk [(3 : Int), 1, 3, 2, 1, 4] [1, 1, 4] [2, 3] = true := by decide
example : unique [(3 : Int), 1, 3, 2, 1, 4] [1, 1, 4, 1] [2, 3] = .ok [1, 3, 4, 2] := by decide

end MysticVerif.C16
