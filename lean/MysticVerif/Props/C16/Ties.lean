/-
C16, part 3: the TIE rules -
`discrete` maps an entry to the NEAREST sample (the lowest one when two samples are equally near: the first minimum
of `|x - s|` over the sorted sample array), `integers` / `rounded` / `precision` round half to EVEN (`numpy.round`).
`floor` is a parameter with its defining law `IsFloor`.
-/
import MysticVerif.Props.C16.Core
import MysticVerif.Proofs.TransformsExt

namespace MysticVerif.C16
open MysticVerif.Trans

section nearest
variable {K : Type} [Field K] [LinearOrder K] [IsStrictOrderedRing K]

theorem ordered_get_le (s : List K) (hs : Ordered true s) (i j : Nat) (a b : K) (hij : i ≤ j)
    (ha : s[i]? = some a) (hb : s[j]? = some b) : a ≤ b := by
  rcases Nat.lt_or_ge i j with h | h
  · obtain ⟨hi, rfl⟩ := List.getElem?_eq_some_iff.mp ha
    obtain ⟨hj, rfl⟩ := List.getElem?_eq_some_iff.mp hb
    have := List.pairwise_iff_getElem.mp hs i j hi hj h
    simpa using this
  · have : i = j := by omega
    subst this
    rw [ha] at hb; injection hb with hb; rw [hb]

/-- **nearest member, lowest on a tie**: in the sorted sample array `s`, `nearS s xi` is a sample such that every
other sample `v` is either strictly farther from `xi`, or equally far and not below it.  (So it is the first minimum
of `|xi - s[i]|` over the sorted array - `argmin` with the first-minimum rule.) -/
theorem nearS_nearest_first (s : List K) (hs : Ordered true s) (hne : s ≠ []) (xi v : K) (hv : v ∈ s) :
    |nearS s xi - xi| < |v - xi| ∨ (|nearS s xi - xi| = |v - xi| ∧ nearS s xi ≤ v) := by
  obtain ⟨h1, h2⟩ := countLt_prefix s hs xi
  have hc : countLt s xi ≤ s.length := List.length_filter_le _ _
  have hpos : 0 < s.length := List.length_pos_iff.mpr hne
  obtain ⟨i, hi, hiv⟩ := List.getElem_of_mem hv
  have hiv' : s[i]? = some v := by rw [List.getElem?_eq_getElem hi, hiv]
  unfold nearS near
  simp only
  rcases Nat.eq_zero_or_pos (countLt s xi) with hc0 | hcpos
  · -- every sample is ≥ xi : the first one is chosen
    rw [hc0]
    have h0 : s[0]? = some s[0] := List.getElem?_eq_getElem hpos
    have hs0 : xi ≤ s[0] := h2 0 _ (by omega) h0
    have hle : s[0] ≤ v := ordered_get_le s hs 0 i _ _ (Nat.zero_le _) h0 hiv'
    simp only [show (0 : Nat) - 1 = 0 from rfl, show ¬ (0 = s.length) by omega, if_false, h0, Option.getD_some, ite_self]
    rw [abs_of_nonneg (by linarith), abs_of_nonneg (by linarith)]
    rcases lt_or_eq_of_le hle with h | h
    · left; linarith
    · right; exact ⟨by rw [h], hle⟩
  · by_cases hcl : countLt s xi = s.length
    · -- every sample is < xi : the last one is chosen
      have hlast : s.length - 1 < s.length := by omega
      have hl : s[s.length - 1]? = some s[s.length - 1] := List.getElem?_eq_getElem hlast
      have hsl : s[s.length - 1] < xi := h1 _ _ (by omega) hl
      have hvx : v < xi := h1 i v (by omega) hiv'
      have hle : v ≤ s[s.length - 1] := ordered_get_le s hs i _ _ _ (by omega) hiv' hl
      simp only [hcl, if_true, hl, Option.getD_some, ite_self]
      rw [abs_of_neg (by linarith), abs_of_neg (by linarith)]
      rcases lt_or_eq_of_le hle with h | h
      · left; linarith
      · right; exact ⟨by rw [h], by rw [h]⟩
    · -- lo = s[c-1] < xi ≤ s[c] = hi
      have hclt : countLt s xi < s.length := by omega
      have hlo : s[countLt s xi - 1]? = some s[countLt s xi - 1] := List.getElem?_eq_getElem (by omega)
      have hhi : s[countLt s xi]? = some s[countLt s xi] := List.getElem?_eq_getElem hclt
      have hlox : s[countLt s xi - 1] < xi := h1 _ _ (by omega) hlo
      have hhix : xi ≤ s[countLt s xi] := h2 _ _ (le_refl _) hhi
      simp only [hcl, if_false, hlo, hhi, Option.getD_some]
      generalize s[countLt s xi - 1] = lo at *
      generalize s[countLt s xi] = hi at *
      rcases Nat.lt_or_ge i (countLt s xi) with hic | hic
      · -- v ≤ lo
        have hvlo : v ≤ lo := ordered_get_le s hs i _ _ _ (by omega) hiv' hlo
        split
        · rename_i hnear
          rw [abs_of_nonneg (by linarith), abs_of_neg (by linarith)]
          left; linarith
        · rename_i hnear
          rw [abs_of_neg (by linarith), abs_of_neg (by linarith)]
          rcases lt_or_eq_of_le hvlo with h | h
          · left; linarith
          · right; exact ⟨by rw [h], by rw [h]⟩
      · -- hi ≤ v
        have hhiv : hi ≤ v := ordered_get_le s hs _ i _ _ hic hhi hiv'
        split
        · rename_i hnear
          rw [abs_of_nonneg (by linarith), abs_of_nonneg (by linarith)]
          rcases lt_or_eq_of_le hhiv with h | h
          · left; linarith
          · right; exact ⟨by rw [h], hhiv⟩
        · rename_i hnear
          rw [abs_of_neg (by linarith), abs_of_nonneg (by linarith)]
          have hnear' := not_lt.mp hnear
          rcases lt_or_eq_of_le hnear' with h | h
          · left; linarith
          · rcases lt_or_eq_of_le hhiv with h' | h'
            · left; linarith
            · right; exact ⟨by linarith, by linarith⟩

/-- **nearest** for the decorator: no sample is nearer to the input entry than the one a selected entry receives -/
theorem discrete_nearest (samples : List K) (idx : Option (List Int)) (x y : List K)
    (hy : discrete samples idx x = .ok y) (k : Nat) (a b v : K)
    (hk : selMask x.length idx k = true) (ha : x[k]? = some a) (hb : y[k]? = some b) (hv : v ∈ samples) :
    |b - a| ≤ |v - a| := by
  unfold discrete at hy
  split at hy
  · cases hy
  · split at hy
    · cases hy
    · rename_i hne
      injection hy with hy; subst hy
      rw [maskMap_getElem?, ha] at hb
      simp [hk] at hb
      subst hb
      have hs : sortBy true samples ≠ [] := by
        intro h
        have := (sortBy_perm true samples).length_eq
        rw [h] at this
        simp at hne this
        exact hne (List.eq_nil_of_length_eq_zero this.symm)
      rcases nearS_nearest_first (sortBy true samples) (sortBy_ordered true samples) hs a v
        ((sortBy_perm true samples).symm.subset hv) with h | h
      · exact le_of_lt h
      · exact le_of_eq h.1

/-- **tie rule** for the decorator: a sample exactly as near as the chosen one is not below it (the LOWER of two
equidistant samples is chosen) -/
theorem discrete_tie_lowest (samples : List K) (idx : Option (List Int)) (x y : List K)
    (hy : discrete samples idx x = .ok y) (k : Nat) (a b v : K)
    (hk : selMask x.length idx k = true) (ha : x[k]? = some a) (hb : y[k]? = some b) (hv : v ∈ samples)
    (htie : |v - a| = |b - a|) : b ≤ v := by
  unfold discrete at hy
  split at hy
  · cases hy
  · split at hy
    · cases hy
    · rename_i hne
      injection hy with hy; subst hy
      rw [maskMap_getElem?, ha] at hb
      simp [hk] at hb
      subst hb
      have hs : sortBy true samples ≠ [] := by
        intro h
        have := (sortBy_perm true samples).length_eq
        rw [h] at this
        simp at hne this
        exact hne (List.eq_nil_of_length_eq_zero this.symm)
      rcases nearS_nearest_first (sortBy true samples) (sortBy_ordered true samples) hs a v
        ((sortBy_perm true samples).symm.subset hv) with h | h
      · rw [htie] at h; exact absurd h (lt_irrefl _)
      · exact h.2

end nearest

/-! ## round half to EVEN -/

section halfeven
variable {K : Type} [Field K] [LinearOrder K] [IsStrictOrderedRing K]

/-- an input strictly nearer to the integer `m` than `1/2` is rounded to `m` (no tie: the nearest integer is unique) -/
theorem rintHE_of_near (floor : K → K) (hf : IsFloor floor) (a : K) (m : ℤ) (h : |a - (m : K)| < 1 / 2) :
    rintHE floor a = (m : K) := by
  obtain ⟨n, hn, hd⟩ := rintHE_nearest_integer floor hf a
  rw [hn]
  have h1 := abs_lt.mp h
  have h2 := abs_le.mp hd
  have : ((n - m : ℤ) : K) < 1 ∧ (-1 : K) < ((n - m : ℤ) : K) := by
    push_cast; constructor <;> linarith [h1.1, h1.2, h2.1, h2.2]
  have e1 : n - m < 1 := by exact_mod_cast this.1
  have e2 : -1 < n - m := by exact_mod_cast this.2
  have : n = m := by omega
  rw [this]

/-- **half to even**: an exact tie `a = n + 1/2` is rounded to the EVEN neighbour -/
theorem rintHE_half_even (floor : K → K) (hf : IsFloor floor) (n : ℤ) :
    ∃ m : ℤ, rintHE floor ((n : K) + 1 / 2) = ((2 * m : ℤ) : K) ∧ (2 * m = n ∨ 2 * m = n + 1) := by
  obtain ⟨f, hfl, h1, h2⟩ := hf ((n : K) + 1 / 2)
  have hfn : f = n := by
    have a1 : ((f - n : ℤ) : K) < 1 := by push_cast; linarith
    have a2 : (-1 : K) < ((f - n : ℤ) : K) := by push_cast; linarith
    have e1 : f - n < 1 := by exact_mod_cast a1
    have e2 : -1 < f - n := by exact_mod_cast a2
    omega
  subst hfn
  obtain ⟨q, hq, q1, q2⟩ := hf ((f : K) / 2)
  have b1 : ((2 * q : ℤ) : K) ≤ (f : K) := by push_cast; linarith
  have b2 : (f : K) < ((2 * q + 2 : ℤ) : K) := by push_cast; linarith
  have c1 : 2 * q ≤ f := by exact_mod_cast b1
  have c2 : f < 2 * q + 2 := by exact_mod_cast b2
  unfold rintHE
  simp only [hfl, hq]
  have hd : (f : K) + 1 / 2 - (f : K) = 1 / 2 := by ring
  rw [hd, if_neg (lt_irrefl _), if_neg (lt_irrefl _)]
  split
  · rename_i he
    rw [eqR_iff] at he
    have : ((q * 2 : ℤ) : K) = (f : K) := by push_cast; exact he
    have he' : q * 2 = f := by exact_mod_cast this
    exact ⟨q, by push_cast; rw [← he]; ring, Or.inl (by omega)⟩
  · rename_i he
    rw [eqR_iff] at he
    have hne : q * 2 ≠ f := by
      intro h; apply he
      have : ((q * 2 : ℤ) : K) = (f : K) := by rw [h]
      push_cast at this; exact this
    have hf' : f = 2 * q + 1 := by omega
    exact ⟨q + 1, by rw [hf']; push_cast; ring, Or.inr (by omega)⟩

/-- **half to even** for `integers(ints=float, index)`: a selected entry that is exactly halfway between two
integers becomes the even one -/
theorem integers_half_even (floor : K → K) (hf : IsFloor floor) (idx : Option (List Int)) (x : List K)
    (k : Nat) (n : ℤ) (b : K) (hk : selMask x.length idx k = true) (ha : x[k]? = some ((n : K) + 1 / 2))
    (hb : (integers (rintHE floor) id idx x)[k]? = some b) :
    ∃ m : ℤ, b = ((2 * m : ℤ) : K) ∧ (2 * m = n ∨ 2 * m = n + 1) := by
  simp only [integers, List.map_id] at hb
  rw [maskMap_getElem?, ha] at hb
  simp [hk] at hb
  obtain ⟨m, hm, hor⟩ := rintHE_half_even floor hf n
  rw [one_div] at hm
  exact ⟨m, by rw [← hb, hm], hor⟩

/-- ... and a selected entry strictly nearer than `1/2` to an integer becomes that integer -/
theorem integers_of_near (floor : K → K) (hf : IsFloor floor) (idx : Option (List Int)) (x : List K)
    (k : Nat) (a b : K) (m : ℤ) (hk : selMask x.length idx k = true) (ha : x[k]? = some a)
    (hnear : |a - (m : K)| < 1 / 2) (hb : (integers (rintHE floor) id idx x)[k]? = some b) : b = (m : K) := by
  simp only [integers, List.map_id] at hb
  rw [maskMap_getElem?, ha] at hb
  simp [hk] at hb
  rw [← hb]; exact rintHE_of_near floor hf a m hnear

/-- **half to even** for `rounded(digits)` / `precision(digits)` with `digits > 0` (`p = 10^digits`): an entry whose
scaled value `a * p` is exactly halfway between two integers goes to the EVEN multiple of `1/p` -/
theorem roundDigits_half_even (floor : K → K) (hf : IsFloor floor) (digits : Int) (hd : 0 < digits) (p : K) (a : K)
    (n : ℤ) (ha : a * p = (n : K) + 1 / 2) :
    ∃ m : ℤ, roundDigits (rintHE floor) digits p a = ((2 * m : ℤ) : K) / p ∧ (2 * m = n ∨ 2 * m = n + 1) := by
  obtain ⟨m, hm, hor⟩ := rintHE_half_even floor hf n
  refine ⟨m, ?_, hor⟩
  unfold roundDigits
  rw [if_neg (by omega), if_pos hd, ha, hm]

/-- ... and `digits < 0` (`p = 10^-digits`): an entry with `a / p` exactly halfway goes to the EVEN multiple of `p` -/
theorem roundDigits_neg_half_even (floor : K → K) (hf : IsFloor floor) (digits : Int) (hd : digits < 0) (p : K) (a : K)
    (n : ℤ) (ha : a / p = (n : K) + 1 / 2) :
    ∃ m : ℤ, roundDigits (rintHE floor) digits p a = ((2 * m : ℤ) : K) * p ∧ (2 * m = n ∨ 2 * m = n + 1) := by
  obtain ⟨m, hm, hor⟩ := rintHE_half_even floor hf n
  refine ⟨m, ?_, hor⟩
  unfold roundDigits
  rw [if_neg (by omega), if_neg (by omega), ha, hm]

/-- same for `digits = 0` (`numpy.round(x)` is `rint`) -/
theorem roundDigits_zero_half_even (floor : K → K) (hf : IsFloor floor) (p : K) (n : ℤ) :
    ∃ m : ℤ, roundDigits (rintHE floor) 0 p ((n : K) + 1 / 2) = ((2 * m : ℤ) : K) ∧ (2 * m = n ∨ 2 * m = n + 1) := by
  obtain ⟨m, hm, hor⟩ := rintHE_half_even floor hf n
  exact ⟨m, by unfold roundDigits; rw [if_pos rfl, hm], hor⟩

end halfeven

/-! non-vacuity (over ℚ with the true floor): 0.5 -> 0, 1.5 -> 2, 2.5 -> 2, -0.5 -> 0, -1.5 -> -2; samples 1 and 3, input
2 (a tie) -> the lower sample 1 -/

example : [(1 : ℚ) / 2, 3 / 2, 5 / 2, -1 / 2, -3 / 2].map (rintHE (fun q : ℚ => ((Int.floor q : ℤ) : ℚ))) = [0, 2, 2, 0, -2] := by
  simp only [List.map_cons, List.map_nil, rintHE, eqR]
  norm_num
example : discrete [(3 : ℚ), 1] none [2, 5 / 2, 0] = .ok [1, 3, 1] := by
  simp only [discrete, maskMap, nearS, near, countLt, sortBy, selMask]
  norm_num [List.mapIdx_cons, List.foldl_cons, ins, List.filter_cons]

end MysticVerif.C16
