/-
C16, part 5: index selections and re-draws -
* `sorting(index=...)` / `monotonic(index=...)`: the SELECTED subsequence of the result is the sort / the running
  extreme of the selected subsequence of the input (hence sorted / monotone, a rearrangement of the selected values);
* `bounded(clip=True, nearest=False)`: an out-of-bounds selected entry lands on an END of one of the intervals;
* `bounded(clip=False)` (both `nearest` settings): it lands INSIDE one of the intervals, for every stream of uniform
  draws in `[0, 1]` (the draws and interval picks are an oracle);
  in both cases conforming and unselected entries are never touched.
-/
import MysticVerif.Props.C16.Core
import MysticVerif.Proofs.TransformsExt

namespace MysticVerif.C16
open MysticVerif.Trans

section indexedsel
variable {K : Type} [LinearOrder K]

theorem accumGo_length (asc : Bool) (m : K) (l : List K) : (accumGo asc m l).length = l.length := by
  induction l generalizing m with
  | nil => rfl
  | cons b t ih => simp [accumGo, ih]

theorem accum_length (asc : Bool) (x : List K) : (accum asc x).length = x.length := by
  cases x with
  | nil => rfl
  | cons a t => simp [accum, accumGo_length]

/-- a single index, or a vector of length one: the decorator is a no-op (`_isort` / `_imono` return `x`) -/
theorem indexed_single_noop (f : List K → List K) (is : List Int) (x : List K)
    (h : is.length = 1 ∨ x.length = 1) : indexed f (some is) x = .ok x := by
  unfold indexed
  simp only
  rcases h with h | h
  · rw [if_pos h]
  · by_cases h' : is.length = 1
    · rw [if_pos h']
    · rw [if_neg h', if_pos h]

/-- **the selected subsequence**: with distinct in-range indices (at least two), reading the result at the selected
positions (in increasing position order) gives `f` of the input read at those positions; `f` = the sort / the running
extreme -/
theorem indexed_selected (f : List K → List K) (hf : ∀ l, (f l).length = l.length) (is : List Int) (x y : List K)
    (ks : List Nat) (hks : wrapAll x.length is = some ks) (hnd : ks.Nodup)
    (h1 : is.length ≠ 1) (h2 : x.length ≠ 1) (h3 : is ≠ []) (hy : indexed f (some is) x = .ok y) :
    gather (sortBy true ks) y = f (gather (sortBy true ks) x) := by
  unfold indexed at hy
  simp only [if_neg h1, if_neg h2, hks] at hy
  rw [if_neg (by simpa using h3)] at hy
  injection hy with hy
  have hperm : (sortBy true ks).Perm ks := sortBy_perm true ks
  have hlt : ∀ k ∈ sortBy true ks, k < x.length := fun k hk => wrapAll_lt _ _ _ hks k (hperm.subset hk)
  rw [← hy]
  exact gather_scatter _ _ x (hperm.nodup_iff.mpr hnd) hlt (by rw [hf, gather_length _ _ hlt])

/-- `sorting(index=is)`: the selected entries of the result are IN ORDER and are a REARRANGEMENT of the selected
entries of the input (the multiset of selected values is preserved) -/
theorem sorting_selected (asc : Bool) (is : List Int) (x y : List K) (ks : List Nat)
    (hks : wrapAll x.length is = some ks) (hnd : ks.Nodup) (h1 : is.length ≠ 1) (h2 : x.length ≠ 1) (h3 : is ≠ [])
    (hy : sorting asc (some is) x = .ok y) :
    Ordered asc (gather (sortBy true ks) y) ∧ (gather (sortBy true ks) y).Perm (gather (sortBy true ks) x) := by
  have := indexed_selected (sortBy asc) (fun l => (sortBy_perm asc l).length_eq) is x y ks hks hnd h1 h2 h3 hy
  rw [this]
  exact ⟨sortBy_ordered asc _, sortBy_perm asc _⟩

/-- `monotonic(index=is)`: the selected entries of the result are the running maximum (minimum) of the selected
entries of the input - monotone, each entry moved only upwards (downwards) -/
theorem monotonic_selected (asc : Bool) (is : List Int) (x y : List K) (ks : List Nat)
    (hks : wrapAll x.length is = some ks) (hnd : ks.Nodup) (h1 : is.length ≠ 1) (h2 : x.length ≠ 1) (h3 : is ≠ [])
    (hy : monotonic asc (some is) x = .ok y) :
    gather (sortBy true ks) y = accum asc (gather (sortBy true ks) x) ∧ Ordered asc (gather (sortBy true ks) y) := by
  have := indexed_selected (accum asc) (accum_length asc) is x y ks hks hnd h1 h2 h3 hy
  rw [this]
  exact ⟨rfl, accum_ordered asc _⟩

/-- **conforming selection is left alone**: if the selected entries are already in order the whole vector is returned -/
theorem indexed_fix_conform (f : List K → List K) (is : List Int) (x y : List K) (ks : List Nat)
    (hks : wrapAll x.length is = some ks)
    (hfix : f (gather (sortBy true ks) x) = gather (sortBy true ks) x)
    (hy : indexed f (some is) x = .ok y) : y = x := by
  unfold indexed at hy
  simp only at hy
  split at hy
  · injection hy with hy; exact hy.symm
  · split at hy
    · injection hy with hy; exact hy.symm
    · split at hy
      · cases hy
      · rw [hks] at hy
        simp only at hy
        injection hy with hy
        rw [← hy, hfix]
        apply List.ext_getElem?
        intro k
        rw [scatter_getElem?]
        cases hx : x[k]? with
        | none => rfl
        | some a =>
          cases hl : lastScatter (sortBy true ks) (gather (sortBy true ks) x) k with
          | none => rfl
          | some w =>
            simp only [Option.map_some, Option.getD_some, Option.some.injEq]
            exact lastScatter_gather _ x (fun k' hk' => wrapAll_lt _ _ _ hks k' ((sortBy_perm true ks).subset hk')) k w a hl hx

end indexedsel

section redraw
variable {K : Type} [Field K] [LinearOrder K] [IsStrictOrderedRing K]

theorem inAny_false_out (ivs : List (K × K)) (a : K) (h : inAny ivs a = false) (iv : K × K) (hiv : iv ∈ ivs) :
    ¬ (iv.1 ≤ a ∧ a ≤ iv.2) := by
  intro hc
  have := (inAny_iff ivs a).mpr ⟨iv, hiv, hc⟩
  rw [h] at this; cases this

/-- `bounded(clip=True, nearest=False)` (l.1232-1234): for every pick stream (valid interval numbers, at least one per
entry) an out-of-bounds selected entry lands on an END of an interval; every other entry is untouched -/
theorem boundedPickGo_spec (ivs : List (K × K)) (hwf : ∀ iv ∈ ivs, iv.1 ≤ iv.2) (idx : Option (List Int))
    (x : List K) (k0 : Nat) (picks : List Nat) (hp : ∀ p ∈ picks, p < ivs.length) (hlen : x.length ≤ picks.length)
    (j : Nat) (a : K) (ha : x[j]? = some a) :
    ∃ b, (boundedPickGo ivs idx x k0 picks)[j]? = some b ∧
      ((inAny ivs a = true ∨ selPos idx (k0 + j) = false) → b = a) ∧
      ((inAny ivs a = false ∧ selPos idx (k0 + j) = true) → ∃ iv ∈ ivs, b = iv.1 ∨ b = iv.2) := by
  induction x generalizing k0 picks j with
  | nil => simp at ha
  | cons c t ih =>
    unfold boundedPickGo
    by_cases hcond : (!inAny ivs c && selPos idx k0) = true
    · rw [if_pos hcond]
      simp only [Bool.and_eq_true, Bool.not_eq_true'] at hcond
      cases picks with
      | nil => simp at hlen
      | cons p ps =>
        have hpl := hp p List.mem_cons_self
        have hiv : ivs[p]? = some ivs[p] := List.getElem?_eq_getElem hpl
        simp only [hiv]
        cases j with
        | zero =>
          simp only [List.getElem?_cons_zero, Option.some.injEq] at ha
          subst ha
          refine ⟨clipAt ivs[p].1 ivs[p].2 c, by simp, ?_, ?_⟩
          · rintro (h | h)
            · rw [hcond.1] at h; cases h
            · rw [Nat.add_zero, hcond.2] at h; cases h
          · intro _
            have hm : ivs[p] ∈ ivs := List.getElem_mem hpl
            exact ⟨ivs[p], hm, clipAt_at_end _ _ c (hwf _ hm) (inAny_false_out ivs c hcond.1 _ hm)⟩
        | succ j =>
          simp only [List.getElem?_cons_succ] at ha ⊢
          have := ih (k0 + 1) ps (fun q hq => hp q (List.mem_cons_of_mem _ hq)) (by simpa using hlen) j ha
          rw [show k0 + 1 + j = k0 + (j + 1) by omega] at this
          exact this
    · rw [if_neg hcond]
      cases j with
      | zero =>
        simp only [List.getElem?_cons_zero, Option.some.injEq] at ha
        subst ha
        refine ⟨c, by simp, fun _ => rfl, ?_⟩
        rintro ⟨h1, h2⟩
        exfalso; apply hcond
        rw [Nat.add_zero] at h2
        simp [h1, h2]
      | succ j =>
        simp only [List.getElem?_cons_succ] at ha ⊢
        have := ih (k0 + 1) picks hp (by simp at hlen; omega) j ha
        rw [show k0 + 1 + j = k0 + (j + 1) by omega] at this
        exact this

/-- a uniform draw `u ∈ [0, 1]` scaled into `[lo, hi]` is inside -/
theorem redraw_inside (lo hi u : K) (h : lo ≤ hi) (h0 : 0 ≤ u) (h1 : u ≤ 1) :
    lo ≤ u * (hi - lo) + lo ∧ u * (hi - lo) + lo ≤ hi := by
  have a1 : 0 ≤ u * (hi - lo) := mul_nonneg h0 (by linarith)
  have a2 : u * (hi - lo) ≤ 1 * (hi - lo) := mul_le_mul_of_nonneg_right h1 (by linarith)
  constructor <;> linarith

/-- distance from `a` to the nearer end of an interval (l.1240: `abs(seq_at.reshape(-1,1) - b).min(axis=1)`) -/
def endDist (a : K) (iv : K × K) : K :=
  let d1 := absR (a - iv.1); let d2 := absR (a - iv.2); if d2 < d1 then d2 else d1

/-- `bounded(clip=False)` (l.1236-1243), `nearest` = True or False: for EVERY oracle of uniform draws in `[0,1]`
(one per interval and out-of-bounds entry) and every valid pick stream, an out-of-bounds selected entry is re-drawn
INSIDE one of the intervals - with `nearest=True` an interval no other interval has a nearer end than; every other
entry (conforming or unselected) is never re-drawn -/
theorem boundedRandGo_spec (ivs : List (K × K)) (hne : ivs ≠ []) (hwf : ∀ iv ∈ ivs, iv.1 ≤ iv.2)
    (idx : Option (List Int)) (nearest : Bool) (draws : List (List K)) (x : List K) (k0 r0 : Nat) (picks : List Nat)
    (hp : ∀ p ∈ picks, p < ivs.length)
    (hd : ∀ i r, i < ivs.length → r < r0 + x.length → ∃ u, draws[i]?.bind (·[r]?) = some u ∧ 0 ≤ u ∧ u ≤ 1)
    (j : Nat) (a : K) (ha : x[j]? = some a) :
    ∃ b, (boundedRandGo ivs idx nearest draws x k0 r0 picks)[j]? = some b ∧
      ((inAny ivs a = true ∨ selPos idx (k0 + j) = false) → b = a) ∧
      ((inAny ivs a = false ∧ selPos idx (k0 + j) = true) →
        ∃ iv ∈ ivs, iv.1 ≤ b ∧ b ≤ iv.2 ∧ (nearest = true → ∀ iv' ∈ ivs, endDist a iv ≤ endDist a iv')) := by
  induction x generalizing k0 r0 picks j with
  | nil => simp at ha
  | cons c t ih =>
    unfold boundedRandGo
    by_cases hcond : (!inAny ivs c && selPos idx k0) = true
    · rw [if_pos hcond]
      simp only [Bool.and_eq_true, Bool.not_eq_true'] at hcond
      cases j with
      | zero =>
        simp only [List.getElem?_cons_zero, Option.some.injEq] at ha
        subst ha
        simp only [List.getElem?_cons_zero]
        refine ⟨_, rfl, ?_, ?_⟩
        · rintro (h | h)
          · rw [hcond.1] at h; cases h
          · rw [Nat.add_zero, hcond.2] at h; cases h
        · intro _
          -- the interval number is valid
          generalize hjj : (if nearest = true then
              argminFirst (ivs.map (fun iv =>
                let d1 := absR (c - iv.1); let d2 := absR (c - iv.2); if d2 < d1 then d2 else d1))
            else picks.head?.getD 0) = jj
          have hjl : jj < ivs.length := by
            rw [← hjj]
            split
            · obtain ⟨b, hb, _⟩ := argminFirst_spec (ivs.map (fun iv =>
                let d1 := absR (c - iv.1); let d2 := absR (c - iv.2); if d2 < d1 then d2 else d1)) (by simpa using hne)
              have := (List.getElem?_eq_some_iff.mp hb).1
              simpa using this
            · cases picks with
              | nil => simpa using List.length_pos_iff.mpr hne
              | cons p ps => simpa using hp p List.mem_cons_self
          obtain ⟨u, hu, u0, u1⟩ := hd jj r0 hjl (by simp)
          have hiv : ivs[jj]? = some ivs[jj] := List.getElem?_eq_getElem hjl
          have hm : ivs[jj] ∈ ivs := List.getElem_mem hjl
          have hnear : nearest = true → ∀ iv' ∈ ivs, endDist c ivs[jj] ≤ endDist c iv' := by
            intro hn iv' hiv'
            rw [if_pos hn] at hjj
            obtain ⟨b, hb, hmin, _⟩ := argminFirst_spec (ivs.map (fun iv =>
                let d1 := absR (c - iv.1); let d2 := absR (c - iv.2); if d2 < d1 then d2 else d1)) (by simpa using hne)
            rw [hjj, List.getElem?_map, hiv] at hb
            obtain ⟨j', hj', rfl⟩ := List.getElem_of_mem hiv'
            have := hmin j' (endDist c ivs[j']) (by rw [List.getElem?_map, List.getElem?_eq_getElem hj']; rfl)
            simp only [Option.map_some, Option.some.injEq] at hb
            rw [← hb] at this
            exact this
          simp only [hiv, hu]
          exact ⟨ivs[jj], hm, (redraw_inside _ _ u (hwf _ hm) u0 u1).1, (redraw_inside _ _ u (hwf _ hm) u0 u1).2, hnear⟩
      | succ j =>
        simp only [List.getElem?_cons_succ] at ha ⊢
        have := ih (k0 + 1) (r0 + 1) picks.tail (fun q hq => hp q (List.mem_of_mem_tail hq))
          (fun i r hi hr => hd i r hi (by simp; omega)) j ha
        rw [show k0 + 1 + j = k0 + (j + 1) by omega] at this
        exact this
    · rw [if_neg hcond]
      cases j with
      | zero =>
        simp only [List.getElem?_cons_zero, Option.some.injEq] at ha
        subst ha
        refine ⟨c, by simp, fun _ => rfl, ?_⟩
        rintro ⟨h1, h2⟩
        exfalso; apply hcond
        rw [Nat.add_zero] at h2
        simp [h1, h2]
      | succ j =>
        simp only [List.getElem?_cons_succ] at ha ⊢
        have := ih (k0 + 1) r0 picks hp (fun i r hi hr => hd i r hi (by simp; omega)) j ha
        rw [show k0 + 1 + j = k0 + (j + 1) by omega] at this
        exact this

end redraw

/-! non-vacuity -/

example : sorting true (some [3, 0, -1]) [(5 : Int), 9, 8, 1, 0] = .ok [0, 9, 8, 1, 5] := by decide
example : monotonic true (some [0, 2, 3]) [(5 : Int), 9, 1, 7] = .ok [5, 9, 5, 7] := by decide
example : gather (sortBy true [3, 0, 4]) [(0 : Int), 9, 8, 1, 5] = [0, 1, 5] := by decide
/-- picks `[1, 0]`: `6` goes to the low end of `(7,10)`, `-4` to the low end of `(0,5)`; `1` is left alone -/
example : boundedPickGo [((0 : Int), 5), (7, 10)] none [1, 6, -4] 0 [1, 0] = [1, 7, 0] := by decide

end MysticVerif.C16
