/-
C16, part 2: the decorators that WRITE addressed entries -
`impose_at` with a LIST target, `tools.masked` / `insert_missing`, `tools.synchronized` for arbitrary masks.
-/
import MysticVerif.Props.C16.Core
import MysticVerif.Proofs.TransformsExt

namespace MysticVerif.C16
open MysticVerif.Trans

variable {R : Type}

/-! ## `impose_at(index, [t0, t1, ...])` (constraints.py l.1684-1724)
`x[[i for i in index if i < len(x)]] = target` : numpy fancy assignment, the r-th kept index receives the r-th
value, a repeated slot keeps the LAST value, the value list must have exactly as many entries as indices were kept
(or one entry, which is broadcast). -/

/-- with as many values as kept indices the decorator is the sequential assignment `x[k_r] = t_r` -/
theorem imposeAt_list_eq (index : List Int) (ts : List R) (x : List R) (ks : List Nat)
    (hks : wrapAll x.length (index.filter (fun i => i < Int.ofNat x.length)) = some ks)
    (hlen : ts.length = ks.length) : imposeAt index (.inr ts) x = .ok (scatter ks ts x) := by
  have hl : (index.filter (fun i => i < Int.ofNat x.length)).length = ks.length := wrapAll_length _ _ _ hks
  simp only [imposeAt, hks, hl, hlen, if_true]

/-- **pinned**: with distinct addressed slots, the `r`-th kept slot holds the `r`-th target -/
theorem imposeAt_list_pinned (index : List Int) (ts : List R) (x y : List R) (ks : List Nat)
    (hks : wrapAll x.length (index.filter (fun i => i < Int.ofNat x.length)) = some ks)
    (hlen : ts.length = ks.length) (hnd : ks.Nodup) (hy : imposeAt index (.inr ts) x = .ok y)
    (r k : Nat) (v : R) (hk : ks[r]? = some k) (hv : ts[r]? = some v) : y[k]? = some v := by
  rw [imposeAt_list_eq index ts x ks hks hlen] at hy
  injection hy with hy; subst hy
  have hlt : k < x.length := wrapAll_lt _ _ _ hks k (List.mem_of_getElem? hk)
  rw [scatter_getElem?, List.getElem?_eq_getElem hlt, lastScatter_nodup ks ts hnd r k v hk hv]
  rfl

/-- ... and in general (repeated slots allowed) every addressed slot holds the LAST value listed for it -/
theorem imposeAt_list_last_wins (index : List Int) (ts : List R) (x y : List R) (ks : List Nat)
    (hks : wrapAll x.length (index.filter (fun i => i < Int.ofNat x.length)) = some ks)
    (hlen : ts.length = ks.length) (hy : imposeAt index (.inr ts) x = .ok y) (k : Nat) :
    y[k]? = (x[k]?).map (fun a => (lastScatter ks ts k).getD a) := by
  rw [imposeAt_list_eq index ts x ks hks hlen] at hy
  injection hy with hy; subst hy
  exact scatter_getElem? ks ts x k

/-- **frame**: an entry no kept index addresses is untouched -/
theorem imposeAt_list_frame (index : List Int) (ts : List R) (x y : List R) (ks : List Nat)
    (hks : wrapAll x.length (index.filter (fun i => i < Int.ofNat x.length)) = some ks)
    (hlen : ts.length = ks.length) (hy : imposeAt index (.inr ts) x = .ok y) (k : Nat) (hk : k ∉ ks) :
    y[k]? = x[k]? := by
  rw [imposeAt_list_eq index ts x ks hks hlen] at hy
  injection hy with hy; subst hy
  exact scatter_not_mem ks ts x k hk

/-- **idempotent** (also with repeated slots) -/
theorem imposeAt_list_idem (index : List Int) (ts : List R) (x y : List R) (ks : List Nat)
    (hks : wrapAll x.length (index.filter (fun i => i < Int.ofNat x.length)) = some ks)
    (hlen : ts.length = ks.length) (hy : imposeAt index (.inr ts) x = .ok y) :
    imposeAt index (.inr ts) y = .ok y := by
  have hy' := hy
  rw [imposeAt_list_eq index ts x ks hks hlen] at hy'
  injection hy' with hy'
  have hl : y.length = x.length := by rw [← hy', scatter_length]
  have hks' : wrapAll y.length (index.filter (fun i => i < Int.ofNat y.length)) = some ks := by rw [hl]; exact hks
  rw [imposeAt_list_eq index ts y ks hks' hlen, ← hy', scatter_scatter]

/-- a one-entry list is broadcast: it is the scalar target -/
theorem imposeAt_list_singleton (index : List Int) (t : R) (x : List R) :
    imposeAt index (.inr [t]) x = imposeAt index (.inl t) x := by
  unfold imposeAt
  simp only
  generalize index.filter (fun i => i < Int.ofNat x.length) = kept
  by_cases h : 1 = kept.length
  · rw [if_pos (show [t].length = kept.length from h), ← h]; rfl
  · rw [if_neg (show ¬ [t].length = kept.length from h)]

/-- the clause the code as it is does NOT satisfy (docstring: `doit([1,1,1,1]) -> [1,0,1,2]`, indices beyond the
length are skipped together with their targets): whenever the value list is neither as long as the KEPT indices nor
of length one, the decorator raises.  `imposeAt_list_target_raises_witness` (Core) is the docstring's own example. -/
theorem imposeAt_list_shape_raises (index : List Int) (ts : List R) (x : List R)
    (h1 : ts.length ≠ (index.filter (fun i => i < Int.ofNat x.length)).length) (h2 : ts.length ≠ 1) :
    imposeAt index (.inr ts) x = .error .value := by
  unfold imposeAt
  simp only [if_neg h1]
  match ts, h2 with
  | [], _ => rfl
  | [_], h2 => simp at h2
  | _ :: _ :: _, _ => rfl

/-! ## `tools.masked(mask)` / `insert_missing(x, mask)` (tools.py l.505-541) -/

/-- the `KeyError` guard, exactly: the call returns iff every key is in `[0, len(x) + len(mask) - 1]` -/
theorem masked_ok_iff (mask : List (Int × R)) (x : List R) :
    (∃ y, masked mask x = .ok y) ↔ ∀ e ∈ mask, 0 ≤ e.1 ∧ e.1 ≤ ((x.length + mask.length : Nat) : Int) - 1 := by
  unfold masked
  simp only
  constructor
  · rintro ⟨y, hy⟩
    split at hy
    · cases hy
    · rename_i hf
      split at hy
      · cases hy
      · rename_i hl
        intro e he
        have hm : e.1 ∈ mask.map (·.1) := List.mem_map_of_mem (f := (·.1)) he
        have a1 := (foldl_min_le (mask.map (·.1)) 0).2 e.1 hm
        have a2 := (le_foldl_max (mask.map (·.1)) (-1)).2 e.1 hm
        simp only [Int.ofNat_eq_natCast] at hl
        constructor <;> omega
  · intro h
    have b1 : (0 : Int) ≤ (mask.map (·.1)).foldl min 0 :=
      le_foldl_min _ 0 0 (le_refl _) (fun k hk => by
        obtain ⟨e, he, rfl⟩ := List.mem_map.mp hk
        exact (h e he).1)
    have b2 : (mask.map (·.1)).foldl max (-1) ≤ ((x.length + mask.length : Nat) : Int) - 1 :=
      foldl_max_le _ (-1) _ (by omega) (fun k hk => by
        obtain ⟨e, he, rfl⟩ := List.mem_map.mp hk
        exact (h e he).2)
    rw [if_neg (by omega), if_neg (by simp only [Int.ofNat_eq_natCast]; omega)]
    exact ⟨_, rfl⟩

/-- **inserted / frame / length** for every mask with distinct keys (a dict), in ANY listing order: the result has
`len(x) + len(mask)` entries, the value for key `k` sits at position `k`, and the remaining positions are the input
entries in their original order -/
theorem masked_spec (mask : List (Int × R)) (hnd : (mask.map (·.1)).Nodup) (x y : List R)
    (hy : masked mask x = .ok y) :
    y.length = x.length + mask.length ∧ (∀ e ∈ mask, y[e.1.toNat]? = some e.2)
      ∧ dropPos (mask.map (fun e => e.1.toNat)) y 0 = x := by
  have hok := (masked_ok_iff mask x).mp ⟨y, hy⟩
  unfold masked at hy
  simp only at hy
  split at hy
  · cases hy
  · split at hy
    · cases hy
    · injection hy with hy
      set keys := mask.map (·.1) with hkeys
      have hperm : (sortBy true keys).Perm keys := sortBy_perm true keys
      have hsorted := sortBy_ordered true keys
      have hnd' : (sortBy true keys).Nodup := hperm.nodup_iff.mpr hnd
      have hpw : (sortBy true keys).Pairwise (· < ·) := by
        have := List.Pairwise.and hsorted hnd'
        exact this.imp (fun h => lt_of_le_of_ne (by simpa using h.1) h.2)
      have hlen : (sortBy true keys).length = mask.length := by rw [hperm.length_eq, hkeys, List.length_map]
      have hmemk : ∀ k, k ∈ (sortBy true keys).reverse ↔ k ∈ keys := fun k => by
        rw [List.mem_reverse]; exact hperm.mem_iff
      have hspec := maskedFold_spec mask (sortBy true keys).reverse x (by rw [List.reverse_reverse]; exact hpw)
        (fun k hk => by
          obtain ⟨e, he, rfl⟩ := List.mem_map.mp ((hmemk k).mp hk)
          exact (hok e he).1)
        (fun k hk => by
          obtain ⟨e, he, rfl⟩ := List.mem_map.mp ((hmemk k).mp hk)
          exact ⟨e, find?_key_of_nodup mask hnd e he⟩)
        (fun k hk => by
          obtain ⟨e, he, rfl⟩ := List.mem_map.mp ((hmemk k).mp hk)
          rw [List.length_reverse, hlen]
          exact (hok e he).2)
      rw [List.reverse_reverse, List.length_reverse, hlen] at hspec
      have hyeq : y = maskedFold mask (sortBy true keys) x := by rw [← hy]; rfl
      rw [hyeq]
      refine ⟨hspec.1, ?_, ?_⟩
      · intro e he
        exact hspec.2.1 e.1 ((hmemk e.1).mpr (List.mem_map_of_mem (f := (·.1)) he)) e (find?_key_of_nodup mask hnd e he)
      · rw [dropPos_congr (mask.map (fun e => e.1.toNat)) ((sortBy true keys).reverse.map Int.toNat) _ 0 (fun j => by
          simp only [List.mem_map]
          constructor
          · rintro ⟨e, he, rfl⟩
            exact ⟨e.1, (hmemk e.1).mpr (List.mem_map_of_mem (f := (·.1)) he), rfl⟩
          · rintro ⟨k, hk, rfl⟩
            obtain ⟨e, he, rfl⟩ := List.mem_map.mp ((hmemk k).mp hk)
            exact ⟨e, he, rfl⟩)]
        exact hspec.2.2

/-! ## `tools.synchronized(mask)` for ARBITRARY masks (tools.py l.613-672)
`for i,j in mask.items(): x[i] = x[j]` (or `c * x[j0]` for a `(j0, c)` value), `IndexError` skipped.
The docstring asks for keys and tracked indices to be different; `SrcNotKey` is that contract on SLOTS (negative
indices wrapped).  Without it the result depends on the dict's listing order (a later entry reads what an earlier one
wrote) - nothing is claimed then except the frame.  On an ndarray the `(j0, c)` form is skipped
(`synchronized_array_scaled_ignored_witness`, Core): `syncVal true` is `none` for it. -/

section sync
variable {R : Type} [Mul R]

theorem synchronized_length (isArray : Bool) (mask : List (Int × Track R)) (x : List R) :
    (synchronized isArray mask x).length = x.length := by
  rw [synchronized_eq_foldl]; exact foldl_syncStep_length isArray mask x

/-- **frame**, every mask: an entry whose slot no key addresses is untouched -/
theorem synchronized_frame (isArray : Bool) (mask : List (Int × Track R)) (x : List R) (k : Nat)
    (h : ∀ e ∈ mask, wrapIdx x.length e.1 ≠ some k) : (synchronized isArray mask x)[k]? = x[k]? := by
  rw [synchronized_eq_foldl]; exact foldl_syncStep_frame isArray mask x k h

/-- **tied**: when no tracked index addresses a slot that a key addresses, every addressed entry holds the value the
LAST mask entry for its slot reads from the ORIGINAL input (`x[j]`, or `c * x[j0]`; an entry whose tracked index is
out of range - or of the `(j0, c)` form on an ndarray - is skipped) -/
theorem synchronized_tied (isArray : Bool) (mask : List (Int × Track R)) (x : List R)
    (hdis : SrcNotKey x.length mask) (k : Nat) :
    (synchronized isArray mask x)[k]? = (x[k]?).map (fun a => (lastSync isArray x mask k).getD a) := by
  rw [synchronized_eq_foldl]
  exact foldl_syncStep_spec isArray x mask x rfl (fun _ _ => rfl) hdis k

/-- the usual case spelled out: ONE entry `i -> j` for the slot, list input: the entry becomes `x[j]` -/
theorem synchronized_tied_single (mask : List (Int × Track R)) (x : List R) (hdis : SrcNotKey x.length mask)
    (k : Nat) (v : R) (hv : lastSync false x mask k = some v) (hk : k < x.length) :
    (synchronized false mask x)[k]? = some v := by
  rw [synchronized_tied false mask x hdis k, List.getElem?_eq_getElem hk, hv]; rfl

/-- **idempotent** under the same contract -/
theorem synchronized_idem (isArray : Bool) (mask : List (Int × Track R)) (x : List R)
    (hdis : SrcNotKey x.length mask) :
    synchronized isArray mask (synchronized isArray mask x) = synchronized isArray mask x := by
  have hl := synchronized_length isArray mask x
  have hdis' : SrcNotKey (synchronized isArray mask x).length mask := by rw [hl]; exact hdis
  -- the tracked entries are not written, so the second pass reads the same values
  have hsrc : ∀ e' ∈ mask, getPy (synchronized isArray mask x) e'.2.src = getPy x e'.2.src := by
    intro e' he'
    apply getPy_congr _ _ _ hl
    intro w hw
    apply synchronized_frame
    intro e he hkey
    exact hdis e he e' he' w hkey hw
  have hlast : ∀ k, lastSync isArray (synchronized isArray mask x) mask k = lastSync isArray x mask k := by
    intro k
    have key : ∀ (m : List (Int × Track R)), (∀ e' ∈ m, e' ∈ mask) →
        lastSync isArray (synchronized isArray mask x) m k = lastSync isArray x m k := by
      intro m
      induction m with
      | nil => intro _; rfl
      | cons e rest ih =>
        intro hm
        simp only [lastSync]
        rw [ih (fun e' he' => hm e' (List.mem_cons_of_mem _ he')), hl,
          syncVal_congr isArray x _ e.2 (hsrc e (hm e List.mem_cons_self))]
    exact key mask (fun _ h => h)
  apply List.ext_getElem?
  intro k
  rw [synchronized_tied isArray mask _ hdis' k, hlast k, synchronized_tied isArray mask x hdis k]
  cases x[k]? with
  | none => rfl
  | some a => cases lastSync isArray x mask k <;> rfl

end sync

example : synchronized false [(0, Track.idx 1), (3, Track.idx (-1))] [(0 : Int), 1, 2, 3, 4] = [1, 1, 2, 4, 4] := by decide
example : synchronized false [(0, Track.scaled 1 (2 : Int)), (3, Track.scaled 1 (-1))] [0, 9, 2, 3, 6] = [18, 9, 2, -9, 6] := by decide
/-- the contract matters: with `{0:1, 1:2}` entry 0 gets the OLD `x[1]`, with the listing order reversed the new one -/
example : synchronized false [(0, Track.idx 1), (1, Track.idx 2)] [(0 : Int), 1, 2] = [1, 2, 2]
    ∧ synchronized false [(1, Track.idx 2), (0, Track.idx 1)] [(0 : Int), 1, 2] = [2, 2, 2] := by decide

/-! non-vacuity -/

example : imposeAt [1, 3, 4, 5, 7] (.inr [(0 : Int), 2, 4, 6]) [1, 1, 1, 1, 1, 1, 1] = .ok [1, 0, 1, 2, 4, 6, 1] := by decide
example : imposeAt [1, -1, 1] (.inr [(5 : Int), 6, 7]) [0, 0, 0] = .ok [0, 7, 6] := by decide
/-- unsorted listing order, a key equal to the final length - 1 -/
example : masked [(3, (-1 : Int)), (0, 10)] [1, 2, 4] = .ok [10, 1, 2, -1, 4] := by decide
example : masked [(4, (7 : Int)), (0, 10)] [1, 2, 4] = .ok [10, 1, 2, 4, 7] ∧ masked [(5, (7 : Int))] [1, 2, 4] = .error .key
    ∧ masked [(-1, (7 : Int))] [1, 2, 4] = .error .key := by decide
example : dropPos [3, 0] [(10 : Int), 1, 2, -1, 4] 0 = [1, 2, 4] := by decide

end MysticVerif.C16
