/-
C16, part 2: the decorators that WRITE addressed entries -
`impose_at` with a LIST target, `tools.masked` / `insert_missing`, `tools.synchronized` for arbitrary masks.
-/
import MysticVerif.Props.C16.Core
import MysticVerif.Proofs.TransformsExt

namespace MysticVerif.C16
open MysticVerif.Trans

variable {R : Type}

/-! ## `impose_at(index, [t0, t1, ...])` (constraints.py l.1684-1724)
`x[[i for i in index if i < len(x)]] = target` : numpy fancy assignment, the r-th kept index receives the r-th
value, a repeated slot keeps the LAST value, the value list must have exactly as many entries as indices were kept
(or one entry, which is broadcast). -/

/-- with as many values as kept indices the decorator is the sequential assignment `x[k_r] = t_r` -/
theorem imposeAt_list_eq (index : List Int) (ts : List R) (x : List R) (ks : List Nat)
    (hks : wrapAll x.length (index.filter (fun i => i < Int.ofNat x.length)) = some ks)
    (hlen : ts.length = ks.length) : imposeAt index (.inr ts) x = .ok (scatter ks ts x) := by
  have hl : (index.filter (fun i => i < Int.ofNat x.length)).length = ks.length := wrapAll_length _ _ _ hks
  simp only [imposeAt, hks, hl, hlen, if_true]

/-- **pinned**: with distinct addressed slots, the `r`-th kept slot holds the `r`-th target -/
theorem imposeAt_list_pinned (index : List Int) (ts : List R) (x y : List R) (ks : List Nat)
    (hks : wrapAll x.length (index.filter (fun i => i < Int.ofNat x.length)) = some ks)
    (hlen : ts.length = ks.length) (hnd : ks.Nodup) (hy : imposeAt index (.inr ts) x = .ok y)
    (r k : Nat) (v : R) (hk : ks[r]? = some k) (hv : ts[r]? = some v) : y[k]? = some v := by
  rw [imposeAt_list_eq index ts x ks hks hlen] at hy
  injection hy with hy; subst hy
  have hlt : k < x.length := wrapAll_lt _ _ _ hks k (List.mem_of_getElem? hk)
  rw [scatter_getElem?, List.getElem?_eq_getElem hlt, lastScatter_nodup ks ts hnd r k v hk hv]
  rfl

/-- ... and in general (repeated slots allowed) every addressed slot holds the LAST value listed for it -/
theorem imposeAt_list_last_wins (index : List Int) (ts : List R) (x y : List R) (ks : List Nat)
    (hks : wrapAll x.length (index.filter (fun i => i < Int.ofNat x.length)) = some ks)
    (hlen : ts.length = ks.length) (hy : imposeAt index (.inr ts) x = .ok y) (k : Nat) :
    y[k]? = (x[k]?).map (fun a => (lastScatter ks ts k).getD a) := by
  rw [imposeAt_list_eq index ts x ks hks hlen] at hy
  injection hy with hy; subst hy
  exact scatter_getElem? ks ts x k

/-- **frame**: an entry no kept index addresses is untouched -/
theorem imposeAt_list_frame (index : List Int) (ts : List R) (x y : List R) (ks : List Nat)
    (hks : wrapAll x.length (index.filter (fun i => i < Int.ofNat x.length)) = some ks)
    (hlen : ts.length = ks.length) (hy : imposeAt index (.inr ts) x = .ok y) (k : Nat) (hk : k ∉ ks) :
    y[k]? = x[k]? := by
  rw [imposeAt_list_eq index ts x ks hks hlen] at hy
  injection hy with hy; subst hy
  exact scatter_not_mem ks ts x k hk

/-- **idempotent** (also with repeated slots) -/
theorem imposeAt_list_idem (index : List Int) (ts : List R) (x y : List R) (ks : List Nat)
    (hks : wrapAll x.length (index.filter (fun i => i < Int.ofNat x.length)) = some ks)
    (hlen : ts.length = ks.length) (hy : imposeAt index (.inr ts) x = .ok y) :
    imposeAt index (.inr ts) y = .ok y := by
  have hy' := hy
  rw [imposeAt_list_eq index ts x ks hks hlen] at hy'
  injection hy' with hy'
  have hl : y.length = x.length := by rw [← hy', scatter_length]
  have hks' : wrapAll y.length (index.filter (fun i => i < Int.ofNat y.length)) = some ks := by rw [hl]; exact hks
  rw [imposeAt_list_eq index ts y ks hks' hlen, ← hy', scatter_scatter]

/-- a one-entry list is broadcast: it is the scalar target -/
theorem imposeAt_list_singleton (index : List Int) (t : R) (x : List R) :
    imposeAt index (.inr [t]) x = imposeAt index (.inl t) x := by
  unfold imposeAt
  simp only
  generalize index.filter (fun i => i < Int.ofNat x.length) = kept
  by_cases h : 1 = kept.length
  · rw [if_pos (show [t].length = kept.length from h), ← h]; rfl
  · rw [if_neg (show ¬ [t].length = kept.length from h)]

/-- the clause the code as it is does NOT satisfy (docstring: `doit([1,1,1,1]) -> [1,0,1,2]`, indices beyond the
length are skipped together with their targets): whenever the value list is neither as long as the KEPT indices nor
of length one, the decorator raises.  `imposeAt_list_target_raises_witness` (Core) is the docstring's own example. -/
theorem imposeAt_list_shape_raises (index : List Int) (ts : List R) (x : List R)
    (h1 : ts.length ≠ (index.filter (fun i => i < Int.ofNat x.length)).length) (h2 : ts.length ≠ 1) :
    imposeAt index (.inr ts) x = .error .value := by
  unfold imposeAt
  simp only [if_neg h1]
  match ts, h2 with
  | [], _ => rfl
  | [_], h2 => simp at h2
  | _ :: _ :: _, _ => rfl

/-! ## `tools.masked(mask)` / `insert_missing(x, mask)` (tools.py l.505-541) -/

/-- the `KeyError` guard, exactly: the call returns iff every key is in `[0, len(x) + len(mask) - 1]` -/
theorem masked_ok_iff (mask : List (Int × R)) (x : List R) :
    (∃ y, masked mask x = .ok y) ↔ ∀ e ∈ mask, 0 ≤ e.1 ∧ e.1 ≤ ((x.length + mask.length : Nat) : Int) - 1 := by
  unfold masked
  simp only
  constructor
  · rintro ⟨y, hy⟩
    split at hy
    · cases hy
    · rename_i hf
      split at hy
      · cases hy
      · rename_i hl
        intro e he
        have hm : e.1 ∈ mask.map (·.1) := List.mem_map_of_mem (f := (·.1)) he
        have a1 := (foldl_min_le (mask.map (·.1)) 0).2 e.1 hm
        have a2 := (le_foldl_max (mask.map (·.1)) (-1)).2 e.1 hm
        simp only [Int.ofNat_eq_natCast] at hl
        constructor <;> omega
  · intro h
    have b1 : (0 : Int) ≤ (mask.map (·.1)).foldl min 0 :=
      le_foldl_min _ 0 0 (le_refl _) (fun k hk => by
        obtain ⟨e, he, rfl⟩ := List.mem_map.mp hk
        exact (h e he).1)
    have b2 : (mask.map (·.1)).foldl max (-1) ≤ ((x.length + mask.length : Nat) : Int) - 1 :=
      foldl_max_le _ (-1) _ (by omega) (fun k hk => by
        obtain ⟨e, he, rfl⟩ := List.mem_map.mp hk
        exact (h e he).2)
    rw [if_neg (by omega), if_neg (by simp only [Int.ofNat_eq_natCast]; omega)]
    exact ⟨_, rfl⟩

/-- **inserted / frame / length** for every mask with distinct keys (a dict), in ANY listing order: the result has
`len(x) + len(mask)` entries, the value for key `k` sits at position `k`, and the remaining positions are the input
entries in their original order -/
theorem masked_spec (mask : List (Int × R)) (hnd : (mask.map (·.1)).Nodup) (x y : List R)
    (hy : masked mask x = .ok y) :
    y.length = x.length + mask.length ∧ (∀ e ∈ mask, y[e.1.toNat]? = some e.2)
      ∧ dropPos (mask.map (fun e => e.1.toNat)) y 0 = x := by
  have hok := (masked_ok_iff mask x).mp ⟨y, hy⟩
  unfold masked at hy
  simp only at hy
  split at hy
  · cases hy
  · split at hy
    · cases hy
    · injection hy with hy
      set keys := mask.map (·.1) with hkeys
      have hperm : (sortBy true keys).Perm keys := sortBy_perm true keys
      have hsorted := sortBy_ordered true keys
      have hnd' : (sortBy true keys).Nodup := hperm.nodup_iff.mpr hnd
      have hpw : (sortBy true keys).Pairwise (· < ·) := by
        have := List.Pairwise.and hsorted hnd'
        exact this.imp (fun h => lt_of_le_of_ne (by simpa using h.1) h.2)
      have hlen : (sortBy true keys).length = mask.length := by rw [hperm.length_eq, hkeys, List.length_map]
      have hmemk : ∀ k, k ∈ (sortBy true keys).reverse ↔ k ∈ keys := fun k => by
        rw [List.mem_reverse]; exact hperm.mem_iff
      have hspec := maskedFold_spec mask (sortBy true keys).reverse x (by rw [List.reverse_reverse]; exact hpw)
        (fun k hk => by
          obtain ⟨e, he, rfl⟩ := List.mem_map.mp ((hmemk k).mp hk)
          exact (hok e he).1)
        (fun k hk => by
          obtain ⟨e, he, rfl⟩ := List.mem_map.mp ((hmemk k).mp hk)
          exact ⟨e, find?_key_of_nodup mask hnd e he⟩)
        (fun k hk => by
          obtain ⟨e, he, rfl⟩ := List.mem_map.mp ((hmemk k).mp hk)
          rw [List.length_reverse, hlen]
          exact (hok e he).2)
      rw [List.reverse_reverse, List.length_reverse, hlen] at hspec
      have hyeq : y = maskedFold mask (sortBy true keys) x := by rw [← hy]; rfl
      rw [hyeq]
      refine ⟨hspec.1, ?_, ?_⟩
      · intro e he
        exact hspec.2.1 e.1 ((hmemk e.1).mpr (List.mem_map_of_mem (f := (·.1)) he)) e (find?_key_of_nodup mask hnd e he)
      · rw [dropPos_congr (mask.map (fun e => e.1.toNat)) ((sortBy true keys).reverse.map Int.toNat) _ 0 (fun j => by
          simp only [List.mem_map]
          constructor
          · rintro ⟨e, he, rfl⟩
            exact ⟨e.1, (hmemk e.1).mpr (List.mem_map_of_mem (f := (·.1)) he), rfl⟩
          · rintro ⟨k, hk, rfl⟩
            obtain ⟨e, he, rfl⟩ := List.mem_map.mp ((hmemk k).mp hk)
            exact ⟨e, he, rfl⟩)]
        exact hspec.2.2

/-! non-vacuity -/

example : imposeAt [1, 3, 4, 5, 7] (.inr [(0 : Int), 2, 4, 6]) [1, 1, 1, 1, 1, 1, 1] = .ok [1, 0, 1, 2, 4, 6, 1] := by decide
example : imposeAt [1, -1, 1] (.inr [(5 : Int), 6, 7]) [0, 0, 0] = .ok [0, 7, 6] := by decide
/-- unsorted listing order, a key equal to the final length - 1 -/
example : masked [(3, (-1 : Int)), (0, 10)] [1, 2, 4] = .ok [10, 1, 2, -1, 4] := by decide
example : masked [(4, (7 : Int)), (0, 10)] [1, 2, 4] = .ok [10, 1, 2, 4, 7] ∧ masked [(5, (7 : Int))] [1, 2, 4] = .error .key
    ∧ masked [(-1, (7 : Int))] [1, 2, 4] = .error .key := by decide
example : dropPos [3, 0] [(10 : Int), 1, 2, -1, 4] 0 = [1, 2, 4] := by decide

end MysticVerif.C16
