/-
C16 - constraint transforms land in their target set and leave conforming input alone.
Property theorems only (helper lemmas live in Proofs/Transforms.lean).

For every transform `T` of Model/Transforms.lean (the code as it is) the four statements
  in_target   : a selected entry of `T x` is in the target set
  frame       : an unselected entry of `T x` is the entry of `x`
  fix_conform : if every selected entry of `x` is in the target set then `T x = x`
  idem        : `T (T x) = T x`
over an arbitrary linear order / linearly ordered field `K`, all inputs, all lengths, all index selections.
Where the code as it is violates a clause the negation is proved on a concrete witness (`..._witness`)
and the strongest true variant is kept (`..._partial`).
-/
import MysticVerif.Proofs.Transforms

namespace MysticVerif.C16
open MysticVerif.Trans

variable {R : Type}

/-! ## the masked element map: `choose(mask, (x, map g x))`
(discrete, integers, rounded, precision, bounded, clipped, suppressed are instances) -/

theorem maskMap_length (g : R → R) (sel : Nat → Bool) (x : List R) :
    (maskMap g sel x).length = x.length := by simp [maskMap]

/-- **in target**: a selected entry of the result is `g` of the input entry, hence in any set `g` maps into -/
theorem maskMap_in_target (P : R → Prop) (g : R → R) (hg : ∀ a, P (g a)) (sel : Nat → Bool) (x : List R)
    (k : Nat) (b : R) (hk : sel k = true) (hb : (maskMap g sel x)[k]? = some b) : P b := by
  rw [maskMap_getElem?] at hb
  cases hx : x[k]? with
  | none => simp [hx] at hb
  | some a => simp [hx, hk] at hb; subst hb; exact hg a

/-- **frame**: an unselected entry is untouched -/
theorem maskMap_frame (g : R → R) (sel : Nat → Bool) (x : List R) (k : Nat) (hk : sel k = false) :
    (maskMap g sel x)[k]? = x[k]? := by
  rw [maskMap_getElem?]
  cases hx : x[k]? with
  | none => simp
  | some a => simp [hk]

/-- **conforming input is left alone** -/
theorem maskMap_fix_conform (P : R → Prop) (g : R → R) (hfix : ∀ a, P a → g a = a) (sel : Nat → Bool)
    (x : List R) (hx : ∀ k a, sel k = true → x[k]? = some a → P a) : maskMap g sel x = x := by
  apply List.ext_getElem?
  intro k
  rw [maskMap_getElem?]
  cases hk : x[k]? with
  | none => simp
  | some a =>
    by_cases hs : sel k = true
    · simp [hs, hfix a (hx k a hs hk)]
    · simp [hs]

/-- **idempotent** whenever the element map is -/
theorem maskMap_idem (g : R → R) (hg : ∀ a, g (g a) = g a) (sel : Nat → Bool) (x : List R) :
    maskMap g sel (maskMap g sel x) = maskMap g sel x := by
  apply List.ext_getElem?
  intro k
  rw [maskMap_getElem?, maskMap_getElem?]
  cases hk : x[k]? with
  | none => simp
  | some a =>
    by_cases hs : sel k = true
    · simp [hs, hg]
    · simp [hs]

/-! ## index selection (`mask[sorted(index, key=abs)] = True` under `try/except IndexError`) -/

/-- ONE out-of-range index empties the whole selection -/
theorem selMask_out_of_range_empty (n : Nat) (is : List Int) (i : Int) (hi : i ∈ is)
    (hoor : (n : Int) ≤ i ∨ i < -(n : Int)) (k : Nat) : selMask n (some is) k = false := by
  have : wrapAll n is = none := wrapAll_none_of_mem n is i hi (wrapIdx_none n i hoor)
  simp [selMask, this]

/-- negative indices wrap: with every index in range, position `k` is selected iff `k` or `k - n` is listed -/
theorem selMask_wraps_negative (n : Nat) (is : List Int) (hin : ∀ i ∈ is, -(n : Int) ≤ i ∧ i < n) (k : Nat)
    (hk : k < n) : selMask n (some is) k = true ↔ ((k : Int) ∈ is ∨ (k : Int) - n ∈ is) := by
  obtain ⟨ks, hks, hmem⟩ := wrapAll_some n is hin
  simp only [selMask, hks, List.contains_iff_mem]
  rw [hmem k hk]

theorem selMask_none (n k : Nat) : selMask n none k = true := rfl

/-! ## clipping: `numpy.clip`, `tools.clipped`, one-interval `impose_bounds(clip=True)` -/

section order
variable {K : Type} [LinearOrder K]

/-- the clipped value is inside the interval -/
theorem clipAt_in_target (lo hi a : K) (h : lo ≤ hi) : lo ≤ clipAt lo hi a ∧ clipAt lo hi a ≤ hi := by
  unfold clipAt; simp only
  split <;> split <;> constructor <;> order

/-- ... and it is an interval END whenever the input was outside -/
theorem clipAt_at_end (lo hi a : K) (_h : lo ≤ hi) (hout : ¬ (lo ≤ a ∧ a ≤ hi)) :
    clipAt lo hi a = lo ∨ clipAt lo hi a = hi := by
  unfold clipAt; simp only
  split
  · split
    · right; rfl
    · left; rfl
  · split
    · right; rfl
    · rename_i h1 h2
      exfalso; apply hout; constructor <;> order

/-- an input inside the interval is left alone -/
theorem clipAt_fix (lo hi a : K) (hin : lo ≤ a ∧ a ≤ hi) : clipAt lo hi a = a := by
  unfold clipAt; simp only
  obtain ⟨h1, h2⟩ := hin
  split <;> split <;> order

theorem clipAt_idem (lo hi a : K) (h : lo ≤ hi) : clipAt lo hi (clipAt lo hi a) = clipAt lo hi a :=
  clipAt_fix lo hi _ (clipAt_in_target lo hi a h)

/-- `tools.clipped(lo, hi)`: EVERY entry lands in `[lo, hi]` (a `None` bound is no bound) -/
theorem clipped_in_target (lo hi : K) (h : lo ≤ hi) (x : List K) (b : K) (hb : b ∈ clipped (some lo) (some hi) x) :
    lo ≤ b ∧ b ≤ hi := by
  simp only [clipped, List.mem_map] at hb
  obtain ⟨a, _, rfl⟩ := hb
  rw [clipOpt_some]; exact clipAt_in_target lo hi a h

/-- entries already inside are left alone, hence applying it twice equals applying it once -/
theorem clipped_fix_conform (lo hi : K) (x : List K) (hx : ∀ a ∈ x, lo ≤ a ∧ a ≤ hi) :
    clipped (some lo) (some hi) x = x := by
  unfold clipped
  conv => rhs; rw [← List.map_id x]
  apply List.map_congr_left
  intro a ha
  rw [clipOpt_some]; exact clipAt_fix lo hi a (hx a ha)

theorem clipped_idem (lo hi : K) (h : lo ≤ hi) (x : List K) :
    clipped (some lo) (some hi) (clipped (some lo) (some hi) x) = clipped (some lo) (some hi) x :=
  clipped_fix_conform lo hi _ (fun b hb => clipped_in_target lo hi h x b hb)

end order

/-! ## `tools.suppressed(tol)` (clip=True): exactly the entries with `|a| < tol` are zeroed -/

section field
variable {K : Type} [Field K] [LinearOrder K] [IsStrictOrderedRing K]

/-- entry `k` of the result is `0` if `|x[k]| < tol` and `x[k]` otherwise -/
theorem suppress_zeroes_exactly (tol : K) (x : List K) (k : Nat) :
    (suppress tol x)[k]? = (x[k]?).map (fun a => if |a| < tol then 0 else a) := by
  simp [suppress, absR_eq_abs]

theorem suppress_idem (tol : K) (x : List K) : suppress tol (suppress tol x) = suppress tol x := by
  simp only [suppress, List.map_map]
  apply List.map_congr_left
  intro a _
  simp only [Function.comp]
  by_cases h : absR a < tol
  · simp only [h, if_true]; split <;> rfl
  · simp [h]

end field

/-! ## `impose_at(index, target)` with a scalar target -/

/-- the slots `impose_at` writes: `[i for i in index if i < len(x)]`, negative ones wrapped -/
theorem imposeAt_scalar_eq (index : List Int) (t : R) (x : List R) (ks : List Nat)
    (hks : wrapAll x.length (index.filter (fun i => i < Int.ofNat x.length)) = some ks) :
    imposeAt index (.inl t) x = .ok (scatter ks (List.replicate ks.length t) x) := by
  have hlen : ks.length = (index.filter (fun i => i < Int.ofNat x.length)).length := (wrapAll_length _ _ _ hks).symm
  simp only [imposeAt, hks, hlen]

/-- **pinned**: every addressed entry holds the target -/
theorem imposeAt_pinned (index : List Int) (t : R) (x y : List R) (ks : List Nat)
    (hks : wrapAll x.length (index.filter (fun i => i < Int.ofNat x.length)) = some ks)
    (hy : imposeAt index (.inl t) x = .ok y) (k : Nat) (hk : k ∈ ks) : y[k]? = some t := by
  rw [imposeAt_scalar_eq index t x ks hks] at hy
  injection hy with hy; subst hy
  exact scatter_replicate_mem ks t x k hk (wrapAll_lt _ _ _ hks k hk)

/-- **frame**: every other entry is untouched -/
theorem imposeAt_frame (index : List Int) (t : R) (x y : List R) (ks : List Nat)
    (hks : wrapAll x.length (index.filter (fun i => i < Int.ofNat x.length)) = some ks)
    (hy : imposeAt index (.inl t) x = .ok y) (k : Nat) (hk : k ∉ ks) : y[k]? = x[k]? := by
  rw [imposeAt_scalar_eq index t x ks hks] at hy
  injection hy with hy; subst hy
  exact scatter_not_mem ks _ x k hk

/-- **idempotent** -/
theorem imposeAt_idem (index : List Int) (t : R) (x y : List R)
    (hy : imposeAt index (.inl t) x = .ok y) : imposeAt index (.inl t) y = .ok y := by
  cases hks : wrapAll x.length (index.filter (fun i => i < Int.ofNat x.length)) with
  | none => simp only [imposeAt, hks] at hy; cases hy
  | some ks =>
    have hy' := hy
    rw [imposeAt_scalar_eq index t x ks hks] at hy'
    injection hy' with hy'
    have hlen : y.length = x.length := by rw [← hy', scatter_length]
    have hks' : wrapAll y.length (index.filter (fun i => i < Int.ofNat y.length)) = some ks := by rw [hlen]; exact hks
    rw [imposeAt_scalar_eq index t y ks hks']
    congr 1
    apply List.ext_getElem?
    intro k
    by_cases hk : k ∈ ks
    · rw [scatter_replicate_mem ks t y k hk (by rw [hlen]; exact wrapAll_lt _ _ _ hks k hk)]
      exact (imposeAt_pinned index t x y ks hks hy k hk).symm
    · exact scatter_not_mem ks _ y k hk

/-! ## `tools.partial(mask)` -/

/-- **pinned**: an addressed entry holds the (last) value the mask gives it -/
theorem partialMask_pinned (mask : List (Int × R)) (x : List R) (k : Nat) (v : R) (hk : k < x.length)
    (hv : lastWrite x.length mask k = some v) : (partialMask mask x)[k]? = some v := by
  rw [partialMask_getElem?, List.getElem?_eq_getElem hk]; simp [hv]

/-- **frame**: an entry no mask key addresses is untouched -/
theorem partialMask_frame (mask : List (Int × R)) (x : List R) (k : Nat)
    (hv : lastWrite x.length mask k = none) : (partialMask mask x)[k]? = x[k]? := by
  rw [partialMask_getElem?]
  cases x[k]? <;> simp [hv]

theorem partialMask_idem (mask : List (Int × R)) (x : List R) :
    partialMask mask (partialMask mask x) = partialMask mask x := by
  apply List.ext_getElem?
  intro k
  rw [partialMask_getElem?, partialMask_getElem?, partialMask_length]
  cases x[k]? with
  | none => rfl
  | some a => cases lastWrite x.length mask k <;> simp

/-! ## `impose_bounds((lo, hi), index)` / `bounded(x, (lo, hi), index)` with `clip=True` (one interval) -/

section bounds
variable {K : Type} [Field K] [LinearOrder K] [IsStrictOrderedRing K]

/-- with one interval the whole transform of an entry is `numpy.clip` -/
theorem boundedAt_single (lo hi a : K) : boundedAt [(lo, hi)] a = clipAt lo hi a := by
  unfold boundedAt
  split
  · rename_i h
    simp [inAny] at h
    exact (clipAt_fix lo hi a h).symm
  · simp [clipNear, argminFirst, argminGo]

/-- **in target**: a selected entry lands in `[lo, hi]` -/
theorem bounded_in_target (lo hi : K) (h : lo ≤ hi) (idx : Option (List Int)) (x : List K) (k : Nat) (b : K)
    (hk : selPos idx k = true) (hb : (bounded [(lo, hi)] idx x)[k]? = some b) : lo ≤ b ∧ b ≤ hi := by
  simp only [bounded, List.isEmpty_cons, Bool.false_eq_true, if_false] at hb
  exact maskMap_in_target (fun b => lo ≤ b ∧ b ≤ hi) (boundedAt [(lo, hi)])
    (fun a => by rw [boundedAt_single]; exact clipAt_in_target lo hi a h) (selPos idx) x k b hk hb

/-- ... at an interval END whenever it was outside -/
theorem bounded_at_end (lo hi : K) (h : lo ≤ hi) (idx : Option (List Int)) (x : List K) (k : Nat) (a b : K)
    (hk : selPos idx k = true) (ha : x[k]? = some a) (hout : ¬ (lo ≤ a ∧ a ≤ hi))
    (hb : (bounded [(lo, hi)] idx x)[k]? = some b) : b = lo ∨ b = hi := by
  simp only [bounded, List.isEmpty_cons, Bool.false_eq_true, if_false] at hb
  rw [maskMap_getElem?, ha] at hb
  simp [hk, boundedAt_single] at hb
  subst hb
  exact clipAt_at_end lo hi a h hout

/-- **frame**: an unselected entry is untouched -/
theorem bounded_frame (ivs : List (K × K)) (idx : Option (List Int)) (x : List K) (k : Nat)
    (hk : selPos idx k = false) : (bounded ivs idx x)[k]? = x[k]? := by
  unfold bounded
  split
  · rfl
  · exact maskMap_frame _ _ x k hk

/-- **conforming input is left alone** (any number of intervals) -/
theorem bounded_fix_conform (ivs : List (K × K)) (idx : Option (List Int)) (x : List K)
    (hx : ∀ k a, selPos idx k = true → x[k]? = some a → inAny ivs a = true) : bounded ivs idx x = x := by
  unfold bounded
  split
  · rfl
  · exact maskMap_fix_conform (fun a => inAny ivs a = true) (boundedAt ivs)
      (fun a ha => by simp [boundedAt, ha]) (selPos idx) x hx

/-- **idempotent** -/
theorem bounded_idem (lo hi : K) (h : lo ≤ hi) (idx : Option (List Int)) (x : List K) :
    bounded [(lo, hi)] idx (bounded [(lo, hi)] idx x) = bounded [(lo, hi)] idx x := by
  simp only [bounded, List.isEmpty_cons, Bool.false_eq_true, if_false]
  exact maskMap_idem _ (fun a => by rw [boundedAt_single, boundedAt_single]; exact clipAt_idem lo hi a h) _ x

end bounds

/-- the selection of `bounded` is by position NUMBER: a negative index selects nothing, although the mask family
(discrete, integers, rounded) selects the last entry for `-1`.  `impose_bounds((0,5), index=(-1,))([1, 7])`
leaves `7` outside the bounds. -/
theorem bounded_negative_index_ignored_witness :
    bounded [((0 : Int), 5)] (some [-1]) [1, 7] = [1, 7] ∧ selMask 2 (some [-1]) 1 = true ∧ selPos (some [-1]) 1 = false := by
  decide

/-! ## closed-term witnesses of the other places where the code as it is breaks a clause -/

/-- `impose_at([1,3,4,5,7], [0,2,4,6,8])` on a length-4 input: the docstring promises `[1,0,1,2]`, numpy raises -/
theorem imposeAt_list_target_raises_witness :
    imposeAt [1, 3, 4, 5, 7] (.inr [(0 : Int), 2, 4, 6, 8]) [1, 1, 1, 1] = .error .value := by rfl

/-- `impose_as([(2,3),(0,1),(1,2)])([0,1,2,3])`: `connected` never merges the groups `{2,3}` and `{0,1}`, the pair
`(1,2)` stays untied (`x[1] = 0`, `x[2] = 2`) -/
theorem imposeAs_pair_not_tied_witness :
    imposeAs [(2, 3), (0, 1), (1, 2)] (0 : Int) [0, 1, 2, 3] = .ok [0, 0, 2, 2]
      ∧ connected [(2, 3), (0, 1), (1, 2)] = [(2, [3, 1]), (0, [1])] := by
  constructor <;> rfl

/-- `impose_as([(3,4),(2,3),(0,2)])([0,1,2])`: the group root `3` is out of range, so nothing is tied although the
pair `(0,2)` is entirely in range -/
theorem imposeAs_out_of_range_root_witness :
    imposeAs [(3, 4), (2, 3), (0, 2)] (0 : Int) [0, 1, 2] = .ok [0, 1, 2] := by rfl

/-- `impose_as([(0,1),(1,0)])`: the `while pairs:` loop never shrinks - for EVERY amount of fuel the model is
still inside the loop (the code does not terminate) -/
theorem imposeAs_cyclic_mask_hangs_witness (fuel : Nat) :
    offsetLoop (0 : Int) fuel [(0, 1), (1, 0)] [1, 2] = .error .hang := by
  induction fuel with
  | zero => rfl
  | succ n ih =>
    have : offsetLoop (0 : Int) (n + 1) [(0, 1), (1, 0)] [1, 2] = offsetLoop (0 : Int) n [(0, 1), (1, 0)] [1, 2] := by
      rfl
    rw [this]; exact ih

/-- `synchronized({0:(1,2)})`: a list gets `x[0] = 2*x[1]`, an ndarray is returned unchanged -/
theorem synchronized_array_scaled_ignored_witness :
    synchronized false [(0, Track.scaled 1 (2 : Int))] [1, 2, 3] = [4, 2, 3]
      ∧ synchronized true [(0, Track.scaled 1 (2 : Int))] [1, 2, 3] = [1, 2, 3] := by
  decide

/-! ## `sorting` / `monotonic` (whole vector, `index=None`) -/

section sorting
variable {K : Type} [LinearOrder K]

/-- **in target**: the result is in order (ascending, or descending for `ascending=False`) -/
theorem sorting_sorted (asc : Bool) (x : List K) : Ordered asc (sortBy asc x) := sortBy_ordered asc x

/-- ... and is a rearrangement of the input -/
theorem sorting_perm (asc : Bool) (x : List K) : (sortBy asc x).Perm x := sortBy_perm asc x

/-- **conforming input is left alone** -/
theorem sorting_fix_conform (asc : Bool) (x : List K) (h : Ordered asc x) : sortBy asc x = x :=
  sortBy_fix asc x h

/-- **idempotent** -/
theorem sorting_idem (asc : Bool) (x : List K) : sortBy asc (sortBy asc x) = sortBy asc x :=
  sortBy_fix asc _ (sortBy_ordered asc x)

/-- `sorting(index=None)` is exactly that sort -/
theorem sorting_none (asc : Bool) (x : List K) : sorting asc none x = .ok (sortBy asc x) := rfl

/-- **in target**: the running maximum (minimum) is monotone -/
theorem monotonic_monotone (asc : Bool) (x : List K) : Ordered asc (accum asc x) := accum_ordered asc x

/-- every entry moves only upwards (ascending) / downwards (descending), the first one not at all -/
theorem monotonic_dominates (asc : Bool) (x : List K) (k : Nat) (a b : K) (ha : x[k]? = some a)
    (hb : (accum asc x)[k]? = some b) : if asc = true then a ≤ b else b ≤ a := accum_dominates asc x k a b ha hb

/-- **conforming input is left alone** -/
theorem monotonic_fix_conform (asc : Bool) (x : List K) (h : Ordered asc x) : accum asc x = x :=
  accum_fix asc x h

/-- **idempotent** -/
theorem monotonic_idem (asc : Bool) (x : List K) : accum asc (accum asc x) = accum asc x :=
  accum_fix asc _ (accum_ordered asc x)

theorem monotonic_none (asc : Bool) (x : List K) : monotonic asc none x = .ok (accum asc x) := rfl

end sorting

/-! ## statistics: `with_mean(target)`, `normalized(mass)`
`sum` is the mathematical sum (`List.sum`), `ofNat` the cast: the order of a floating-point summation is outside
the theorems.  `close` is `numpy.allclose`: `|a - b| ≤ atol + rtol*|b|`. -/

section stats
variable {K : Type} [Field K] [LinearOrder K] [IsStrictOrderedRing K]

/-- **in target**: either the guard `almostEqual(mean(x), target)` held and `x` is returned, or the result has
EXACTLY the target mean -/
theorem withMean_in_target (atol rtol target : K) (x y : List K)
    (hy : withMean List.sum Nat.cast atol rtol target x = .ok y) :
    (y = x ∧ close atol rtol (meanL List.sum Nat.cast x) target = true) ∨ meanL List.sum Nat.cast y = target := by
  unfold withMean at hy
  split at hy
  · cases hy
  · rename_i hne
    split at hy
    · rename_i hc
      left; injection hy with hy; exact ⟨hy.symm, hc⟩
    · right; injection hy with hy; subst hy
      exact mean_imposeMean target x (by simpa using hne)

/-- **idempotent** (for non-negative tolerances, as in the code: `tol=1e-18, rel=1e-7`) -/
theorem withMean_idem (atol rtol target : K) (h0 : 0 ≤ atol) (h1 : 0 ≤ rtol) (x y : List K)
    (hy : withMean List.sum Nat.cast atol rtol target x = .ok y) :
    withMean List.sum Nat.cast atol rtol target y = .ok y := by
  rcases withMean_in_target atol rtol target x y hy with ⟨rfl, _⟩ | hm
  · exact hy
  · have hne : y.isEmpty = false := by
      unfold withMean at hy
      split at hy
      · cases hy
      · rename_i hx
        split at hy
        · injection hy with hy; subst hy; simpa using hx
        · injection hy with hy; subst hy; simpa [imposeMean] using hx
    unfold withMean
    rw [if_neg (by simp [hne]), hm, if_pos (close_self atol rtol target h0 h1)]

/-- **in target**: for an input whose sum is not zero, either the guard held and `x` is returned, or the result
sums EXACTLY to `mass` -/
theorem normalized_in_target (atol rtol mass : K) (x : List K) (hs : x.sum ≠ 0) :
    (normalized List.sum atol rtol mass x = x ∧ close atol rtol x.sum mass = true)
      ∨ (normalized List.sum atol rtol mass x).sum = mass := by
  unfold normalized
  split
  · rename_i hc; left; exact ⟨rfl, hc⟩
  · right
    have hw : (x.map absR).sum ≠ 0 := sum_abs_ne_zero x hs
    simp only
    rw [if_neg (by rw [eqR_iff]; exact hw)]
    have hm : (x.map (· / (x.map absR).sum)).sum = x.sum / (x.map absR).sum := sum_map_div x _
    have hm0 : (x.map (· / (x.map absR).sum)).sum ≠ 0 := by rw [hm]; exact div_ne_zero hs hw
    rw [if_neg (by rw [eqR_iff]; exact hm0)]
    rw [sum_map_mul_div]
    field_simp

/-- **idempotent** (non-degenerate input, non-negative tolerances) -/
theorem normalized_idem (atol rtol mass : K) (h0 : 0 ≤ atol) (h1 : 0 ≤ rtol) (x : List K) (hs : x.sum ≠ 0) :
    normalized List.sum atol rtol mass (normalized List.sum atol rtol mass x) = normalized List.sum atol rtol mass x := by
  rcases normalized_in_target atol rtol mass x hs with ⟨he, _⟩ | hm
  · rw [he, he]
  · generalize normalized List.sum atol rtol mass x = y at hm ⊢
    unfold normalized
    rw [hm, if_pos (close_self atol rtol mass h0 h1)]

end stats

/-! ## `integers` : round-half-even built from `floor` (numpy `rint`) -/

section rint
variable {K : Type} [Field K] [LinearOrder K] [IsStrictOrderedRing K]

/-- the contract of the `floor` operation the model is given -/
def IsFloor (floor : K → K) : Prop := ∀ a, ∃ n : ℤ, floor a = (n : K) ∧ (n : K) ≤ a ∧ a < (n : K) + 1

/-- **in target**: the result is an integer and no other integer is nearer (`|a - r| ≤ 1/2`) -/
theorem rintHE_nearest_integer (floor : K → K) (hf : IsFloor floor) (a : K) :
    ∃ n : ℤ, rintHE floor a = (n : K) ∧ |a - (n : K)| ≤ 1 / 2 := by
  obtain ⟨n, hn, h1, h2⟩ := hf a
  unfold rintHE
  simp only [hn]
  split
  · rename_i hd
    exact ⟨n, rfl, abs_le.mpr ⟨by linarith, by linarith⟩⟩
  · rename_i hd
    split
    · rename_i hd2
      exact ⟨n + 1, by push_cast; rfl, abs_le.mpr ⟨by push_cast; linarith, by push_cast; linarith⟩⟩
    · rename_i hd2
      have hd' : a - (n : K) = 1 / 2 := le_antisymm (not_lt.mp hd2) (not_lt.mp hd)
      split
      · exact ⟨n, rfl, abs_le.mpr ⟨by linarith, by linarith⟩⟩
      · exact ⟨n + 1, by push_cast; rfl, abs_le.mpr ⟨by push_cast; linarith, by push_cast; linarith⟩⟩

/-- **conforming input is left alone**: an integer is its own rounding -/
theorem rintHE_fix_integer (floor : K → K) (hf : IsFloor floor) (m : ℤ) : rintHE floor (m : K) = (m : K) := by
  obtain ⟨n, hn, h1, h2⟩ := hf (m : K)
  have hnm : n = m := by
    have a1 : n ≤ m := by exact_mod_cast h1
    have a2 : m < n + 1 := by exact_mod_cast h2
    omega
  subst hnm
  unfold rintHE
  simp only [hn]
  rw [if_pos]
  simp

theorem rintHE_idem (floor : K → K) (hf : IsFloor floor) (a : K) :
    rintHE floor (rintHE floor a) = rintHE floor a := by
  obtain ⟨n, hn, _⟩ := rintHE_nearest_integer floor hf a
  rw [hn]; exact rintHE_fix_integer floor hf n

/-- **in target** for `integers(ints=float, index)`: every selected entry becomes a nearest integer -/
theorem integers_in_target (floor : K → K) (hf : IsFloor floor) (idx : Option (List Int)) (x : List K)
    (k : Nat) (a b : K) (hk : selMask x.length idx k = true) (ha : x[k]? = some a)
    (hb : (integers (rintHE floor) id idx x)[k]? = some b) : ∃ n : ℤ, b = (n : K) ∧ |a - (n : K)| ≤ 1 / 2 := by
  simp only [integers, List.map_id] at hb
  rw [maskMap_getElem?, ha] at hb
  simp [hk] at hb
  obtain ⟨n, hn, hd⟩ := rintHE_nearest_integer floor hf a
  exact ⟨n, by rw [← hb, hn], hd⟩

/-- **frame**, the part that is true: with `ints=float` (no cast) unselected entries are untouched.
The full clause - also for `ints=True` - is FALSE for the code as it is, see `integers_frame_fails_witness`. -/
theorem integers_frame_partial (rint : K → K) (idx : Option (List Int)) (x : List K) (k : Nat)
    (hk : selMask x.length idx k = false) : (integers rint id idx x)[k]? = x[k]? := by
  simp only [integers, List.map_id]
  exact maskMap_frame rint _ x k hk

theorem integers_idem (floor : K → K) (hf : IsFloor floor) (idx : Option (List Int)) (x : List K) :
    integers (rintHE floor) id idx (integers (rintHE floor) id idx x) = integers (rintHE floor) id idx x := by
  simp only [integers, List.map_id, maskMap_length]
  exact maskMap_idem _ (rintHE_idem floor hf) _ x

end rint

/-- F14: `integers(ints=True, index=(0,-1))([0.6, 1.6, 2.5])` is `[1, 1, 2]`: entry 1 is NOT selected and yet
`1.6` became `1` (the `astype(int)` cast hits every entry).  Here over ℚ with the true floor / truncation. -/
theorem integers_frame_fails_witness :
    integers (rintHE (fun q : ℚ => ((Int.floor q : ℤ) : ℚ)))
        (fun q : ℚ => if q < 0 then ((Int.ceil q : ℤ) : ℚ) else ((Int.floor q : ℤ) : ℚ))
        (some [0, -1]) [3 / 5, 8 / 5, 5 / 2] = [1, 1, 2]
      ∧ selMask 3 (some [0, -1]) 1 = false := by
  constructor
  · simp only [integers, maskMap, rintHE, eqR, selMask, wrapAll, wrapIdx, List.mapIdx_cons, List.mapIdx_nil, List.length_cons,
      List.length_nil, List.map_cons, List.map_nil]
    norm_num
  · decide

/-! ## `discrete(samples, index)` -/

section discrete
variable {K : Type} [Field K] [LinearOrder K] [IsStrictOrderedRing K]

/-- **in target**: the value chosen for an entry is a member of the sample set -/
theorem nearS_mem (s : List K) (hs : s ≠ []) (xi : K) : nearS s xi ∈ s := by
  have hc : countLt s xi ≤ s.length := List.length_filter_le _ _
  have hpos : 0 < s.length := List.length_pos_iff.mpr hs
  have hlo : countLt s xi - 1 < s.length := by
    rcases Nat.eq_zero_or_pos (countLt s xi) with h | h
    · rw [h]; exact hpos
    · exact Nat.lt_of_lt_of_le (Nat.sub_lt h Nat.one_pos) hc
  have hhi : (if countLt s xi = s.length then countLt s xi - 1 else countLt s xi) < s.length := by
    split
    · exact hlo
    · exact Nat.lt_of_le_of_ne hc ‹_›
  have hmem : ∀ i, i < s.length → s[i]?.getD xi ∈ s := by
    intro i hi; rw [List.getElem?_eq_getElem hi]; simp
  have hnear : ∀ lo hi : K, near xi lo hi = lo ∨ near xi lo hi = hi := by
    intro lo hi; unfold near; split
    · right; rfl
    · left; rfl
  unfold nearS
  simp only
  rcases hnear (s[countLt s xi - 1]?.getD xi)
      (s[if countLt s xi = s.length then countLt s xi - 1 else countLt s xi]?.getD xi) with h | h
  · rw [h]; exact hmem _ hlo
  · rw [h]; exact hmem _ hhi

/-- **in target** for the decorator: every selected entry of the result is one of the samples -/
theorem discrete_in_target (samples : List K) (idx : Option (List Int)) (x y : List K)
    (hy : discrete samples idx x = .ok y) (k : Nat) (b : K)
    (hk : selMask x.length idx k = true) (hb : y[k]? = some b) : b ∈ samples := by
  unfold discrete at hy
  split at hy
  · cases hy
  · split at hy
    · cases hy
    · rename_i hne
      injection hy with hy; subst hy
      have hs : sortBy true samples ≠ [] := by
        intro h
        have := (sortBy_perm true samples).length_eq
        rw [h] at this
        simp at hne this
        exact hne (List.eq_nil_of_length_eq_zero this.symm)
      have := maskMap_in_target (fun b => b ∈ sortBy true samples) (nearS (sortBy true samples))
        (fun a => nearS_mem _ hs a) _ x k b hk hb
      exact (sortBy_perm true samples).subset this

/-- **frame** -/
theorem discrete_frame (samples : List K) (idx : Option (List Int)) (x y : List K)
    (hy : discrete samples idx x = .ok y) (k : Nat) (hk : selMask x.length idx k = false) : y[k]? = x[k]? := by
  unfold discrete at hy
  split at hy
  · cases hy
  · split at hy
    · cases hy
    · injection hy with hy; subst hy
      exact maskMap_frame _ _ x k hk

end discrete

/-! ## `rounded(digits, index)` / `precision(digits, index)` -/

section rounded
variable {K : Type} [Field K] [LinearOrder K] [IsStrictOrderedRing K]

/-- **in target** for `rounded(digits)` / `precision(digits)`: the result is on the grid `ℤ / 10^d`
(`ℤ * 10^|d|` for negative digits); `p = 10^|d|` -/
theorem roundDigits_on_grid (floor : K → K) (hf : IsFloor floor) (digits : Int) (p : K) (hp : p ≠ 0) (a : K) :
    ∃ n : ℤ, roundDigits (rintHE floor) digits p a =
      if digits = 0 then (n : K) else if 0 < digits then (n : K) / p else (n : K) * p := by
  unfold roundDigits
  split
  · obtain ⟨n, hn, _⟩ := rintHE_nearest_integer floor hf a
    exact ⟨n, hn⟩
  · split
    · obtain ⟨n, hn, _⟩ := rintHE_nearest_integer floor hf (a * p)
      exact ⟨n, by rw [hn]⟩
    · obtain ⟨n, hn, _⟩ := rintHE_nearest_integer floor hf (a / p)
      exact ⟨n, by rw [hn]⟩

/-- **idempotent**, hence numbers already on the grid are left alone -/
theorem roundDigits_idem (floor : K → K) (hf : IsFloor floor) (digits : Int) (p : K) (hp : p ≠ 0) (a : K) :
    roundDigits (rintHE floor) digits p (roundDigits (rintHE floor) digits p a) = roundDigits (rintHE floor) digits p a := by
  unfold roundDigits
  split
  · exact rintHE_idem floor hf a
  · split
    · rw [div_mul_cancel₀ _ hp, rintHE_idem floor hf]
    · rw [mul_div_assoc, div_self hp, mul_one, rintHE_idem floor hf]

theorem rounded_idem (floor : K → K) (hf : IsFloor floor) (digits : Int) (p : K) (hp : p ≠ 0)
    (idx : Option (List Int)) (x : List K) :
    rounded (rintHE floor) digits p idx (rounded (rintHE floor) digits p idx x) = rounded (rintHE floor) digits p idx x := by
  simp only [rounded, maskMap_length]
  exact maskMap_idem _ (roundDigits_idem floor hf digits p hp) _ x

theorem rounded_frame (rint : K → K) (digits : Int) (p : K) (idx : Option (List Int)) (x : List K) (k : Nat)
    (hk : selMask x.length idx k = false) : (rounded rint digits p idx x)[k]? = x[k]? :=
  maskMap_frame _ _ x k hk

end rounded

/-! ## `discrete`: samples are left alone -/

section discrete2
variable {K : Type} [Field K] [LinearOrder K] [IsStrictOrderedRing K]

/-- **conforming input is left alone**: a value that IS a sample is mapped to itself -/
theorem nearS_fix (s : List K) (hs : Ordered true s) (xi : K) (hmem : xi ∈ s) : nearS s xi = xi := by
  obtain ⟨h1, h2⟩ := countLt_prefix s hs xi
  obtain ⟨j, hj, hjx⟩ := List.getElem_of_mem hmem
  have hcj : countLt s xi ≤ j := by
    by_contra h
    have := h1 j xi (by omega) (by rw [List.getElem?_eq_getElem hj, hjx])
    exact lt_irrefl _ this
  have hclt : countLt s xi < s.length := by omega
  have hsc : s[countLt s xi]? = some xi := by
    rw [List.getElem?_eq_getElem hclt]
    congr 1
    apply le_antisymm
    · have := List.pairwise_iff_getElem.mp hs (countLt s xi) j hclt hj
      rcases Nat.lt_or_ge (countLt s xi) j with h | h
      · have := this h; simp at this; rw [hjx] at this; exact this
      · have : countLt s xi = j := by omega
        subst this; rw [hjx]
    · exact h2 _ _ (le_refl _) (List.getElem?_eq_getElem hclt)
  unfold nearS near
  simp only
  rw [if_neg (show ¬ countLt s xi = s.length by omega), hsc]
  simp only [Option.getD_some, sub_self]
  rcases Nat.eq_zero_or_pos (countLt s xi) with h0 | hpos
  · rw [h0] at hsc ⊢
    simp [hsc]
  · have hlo : countLt s xi - 1 < s.length := by omega
    have := h1 (countLt s xi - 1) _ (by omega) (List.getElem?_eq_getElem hlo)
    rw [List.getElem?_eq_getElem hlo]
    simp only [Option.getD_some]
    rw [if_pos (by linarith)]

theorem nearS_idem (s : List K) (hs : Ordered true s) (hne : s ≠ []) (xi : K) :
    nearS s (nearS s xi) = nearS s xi := nearS_fix s hs _ (nearS_mem s hne xi)

/-- **conforming input is left alone** for the decorator -/
theorem discrete_fix_conform (samples : List K) (idx : Option (List Int)) (x : List K)
    (hx : x ≠ []) (hs : samples ≠ [])
    (hconf : ∀ k a, selMask x.length idx k = true → x[k]? = some a → a ∈ samples) :
    discrete samples idx x = .ok x := by
  unfold discrete
  rw [if_neg (by simpa using hx), if_neg (by simpa using hs)]
  congr 1
  exact maskMap_fix_conform (fun a => a ∈ sortBy true samples) _
    (fun a ha => nearS_fix _ (sortBy_ordered true samples) a ha) _ x
    (fun k a hk ha => (sortBy_perm true samples).symm.subset (hconf k a hk ha))

/-- **idempotent** -/
theorem discrete_idem (samples : List K) (idx : Option (List Int)) (x y : List K)
    (hy : discrete samples idx x = .ok y) : discrete samples idx y = .ok y := by
  unfold discrete at hy ⊢
  split at hy
  · cases hy
  · rename_i hx
    split at hy
    · cases hy
    · rename_i hs
      injection hy with hy; subst hy
      have hne : sortBy true samples ≠ [] := by
        intro h
        have := (sortBy_perm true samples).length_eq
        rw [h] at this
        simp at hs this
        exact hs (List.eq_nil_of_length_eq_zero this.symm)
      rw [if_neg (by simpa [maskMap] using hx), if_neg hs, maskMap_length]
      congr 1
      exact maskMap_idem _ (nearS_idem _ (sortBy_ordered true samples) hne) _ x

end discrete2

/-! ## `unique(x, full)` / `impose_unique(full)` -/

section uniq
variable {R : Type} [BEq R] [LawfulBEq R]

/-- **in target** for `unique` / `impose_unique`: given the shuffled list of unused values (`new`: no repeats,
disjoint from `x` - the contract of `list(set(full) - set(x))` + `shuffle`), the result has pairwise-distinct
entries, each an entry of `x` or one of the unused values -/
theorem unique_distinct (full x new y : List R) (hy : unique full x new = .ok y) (hnd : new.Nodup)
    (hnew : ∀ v ∈ new, v ∉ x) : y.Nodup ∧ ∀ b ∈ y, b ∈ x ∨ b ∈ new := by
  unfold unique at hy
  split at hy
  · cases hy
  · split at hy
    · cases hy
    · obtain ⟨h1, _, h3⟩ := uniqueGo_spec x [] new y hy hnd (fun v hv => ⟨by simp, hnew v hv⟩)
      exact ⟨h1, h3⟩

end uniq

/-! ## `impose_bounds` with SEVERAL intervals, and `sorting` / `monotonic` with an index selection -/

section multi
variable {K : Type} [Field K] [LinearOrder K] [IsStrictOrderedRing K]

theorem inAny_iff (ivs : List (K × K)) (v : K) : inAny ivs v = true ↔ ∃ iv ∈ ivs, iv.1 ≤ v ∧ v ≤ iv.2 := by
  simp [inAny, List.any_eq_true]

/-- **in target**, any number of intervals: whatever `impose_bounds(clip=True, nearest=True)` does to an entry, the
result lies inside one of the given intervals (each with `lo ≤ hi`) -/
theorem boundedAt_in_target (ivs : List (K × K)) (hwf : ∀ iv ∈ ivs, iv.1 ≤ iv.2) (hne : ivs ≠ []) (a : K) :
    inAny ivs (boundedAt ivs a) = true := by
  unfold boundedAt
  split
  · assumption
  · rename_i hout
    have hout' : ∀ iv ∈ ivs, ¬ (iv.1 ≤ a ∧ a ≤ iv.2) := by
      intro iv hiv h
      exact hout ((inAny_iff ivs a).mpr ⟨iv, hiv, h⟩)
    obtain ⟨bL, hbL, hminL, hfirstL⟩ := argminFirst_spec ((ivs.map (·.1)).map (fun b => absR (a - b))) (by simpa using hne)
    obtain ⟨bH, hbH, hminH, hfirstH⟩ := argminFirst_spec ((ivs.map (·.2)).map (fun b => absR (a - b))) (by simpa using hne)
    unfold clipNear
    simp only
    generalize argminFirst ((ivs.map (·.1)).map (fun b => absR (a - b))) = iL at *
    generalize argminFirst ((ivs.map (·.2)).map (fun b => absR (a - b))) = iH at *
    simp only [List.getElem?_map] at hbL hbH hminL hminH hfirstL hfirstH ⊢
    cases hC : ivs[iL]? with
    | none => simp [hC] at hbL
    | some C =>
      cases hD : ivs[iH]? with
      | none => simp [hD] at hbH
      | some D =>
        simp only [hC, hD, Option.map_some, Option.some.injEq, Option.getD_some] at hbL hbH ⊢
        have hCm : C ∈ ivs := List.mem_of_getElem? hC
        have hDm : D ∈ ivs := List.mem_of_getElem? hD
        have hCw := hwf C hCm
        have hDw := hwf D hDm
        have inC : inAny ivs C.1 = true := (inAny_iff ivs _).mpr ⟨C, hCm, le_refl _, hCw⟩
        have inD : inAny ivs D.2 = true := (inAny_iff ivs _).mpr ⟨D, hDm, hDw, le_refl _⟩
        unfold clipAt
        simp only
        by_cases h1 : a ≤ C.1
        · rw [if_pos h1]
          split
          · exact inD
          · exact inC
        · rw [if_neg h1]
          by_cases h2 : D.2 ≤ a
          · rw [if_pos h2]; exact inD
          · exfalso
            have h1' : C.1 < a := not_le.mp h1
            have h2' : a < D.2 := not_le.mp h2
            have hC2 : C.2 < a := by
              by_contra h; exact hout' C hCm ⟨le_of_lt h1', not_lt.mp h⟩
            have hD1 : a < D.1 := by
              by_contra h; exact hout' D hDm ⟨not_lt.mp h, le_of_lt h2'⟩
            -- distances
            have e1 := hminL iH (absR (a - D.1)) (by simp [hD])
            have e2 := hminH iL (absR (a - C.2)) (by simp [hC])
            rw [← hbL] at e1; rw [← hbH] at e2
            rw [absR_eq_abs, absR_eq_abs] at e1 e2
            rw [abs_of_pos (by linarith), abs_of_neg (by linarith)] at e1
            rw [abs_of_neg (by linarith), abs_of_pos (by linarith)] at e2
            -- all four distances coincide
            rcases Nat.lt_trichotomy iL iH with hlt | heq | hgt
            · have := hfirstH iL (absR (a - C.2)) hlt (by simp [hC])
              rw [← hbH, absR_eq_abs, absR_eq_abs, abs_of_neg (by linarith), abs_of_pos (by linarith)] at this
              linarith
            · subst heq
              rw [hC] at hD; injection hD with hD; subst hD
              linarith
            · have := hfirstL iH (absR (a - D.1)) hgt (by simp [hD])
              rw [← hbL, absR_eq_abs, absR_eq_abs, abs_of_pos (by linarith), abs_of_neg (by linarith)] at this
              linarith

/-- **in target** for the decorator, any number of intervals -/
theorem bounded_in_target_multi (ivs : List (K × K)) (hwf : ∀ iv ∈ ivs, iv.1 ≤ iv.2) (hne : ivs ≠ [])
    (idx : Option (List Int)) (x : List K) (k : Nat) (b : K)
    (hk : selPos idx k = true) (hb : (bounded ivs idx x)[k]? = some b) : ∃ iv ∈ ivs, iv.1 ≤ b ∧ b ≤ iv.2 := by
  unfold bounded at hb
  rw [if_neg (by simpa using hne)] at hb
  exact (inAny_iff ivs b).mp (maskMap_in_target (fun b => inAny ivs b = true) (boundedAt ivs)
    (boundedAt_in_target ivs hwf hne) (selPos idx) x k b hk hb)

/-- **idempotent**, any number of intervals -/
theorem bounded_idem_multi (ivs : List (K × K)) (hwf : ∀ iv ∈ ivs, iv.1 ≤ iv.2)
    (idx : Option (List Int)) (x : List K) : bounded ivs idx (bounded ivs idx x) = bounded ivs idx x := by
  unfold bounded
  split
  · rfl
  · rename_i hne
    exact maskMap_idem _ (fun a => by
      have := boundedAt_in_target ivs hwf (by simpa using hne) a
      generalize boundedAt ivs a = b at this ⊢
      simp [boundedAt, this]) _ x

end multi

section indexedsel
variable {K : Type} [LinearOrder K]

/-- **frame** for `sorting(index=...)` / `monotonic(index=...)`: entries whose position is not addressed by the index
are untouched -/
theorem indexed_frame (f : List K → List K) (is : List Int) (x y : List K)
    (hy : indexed f (some is) x = .ok y) (k : Nat)
    (hk : ∀ ks, wrapAll x.length is = some ks → k ∉ ks) : y[k]? = x[k]? := by
  unfold indexed at hy
  simp only at hy
  split at hy
  · injection hy with hy; rw [hy]
  · split at hy
    · injection hy with hy; rw [hy]
    · split at hy
      · cases hy
      · split at hy
        · cases hy
        · rename_i ks hks
          injection hy with hy; subst hy
          apply scatter_not_mem
          intro hmem
          exact hk ks hks ((sortBy_perm true ks).subset hmem)

end indexedsel

/-- `sorting(index=is)`: unaddressed entries are untouched -/
theorem sorting_frame {K : Type} [LinearOrder K] (asc : Bool) (is : List Int) (x y : List K)
    (hy : sorting asc (some is) x = .ok y) (k : Nat)
    (hk : ∀ ks, wrapAll x.length is = some ks → k ∉ ks) : y[k]? = x[k]? := indexed_frame _ is x y hy k hk

/-- `monotonic(index=is)`: unaddressed entries are untouched -/
theorem monotonic_frame {K : Type} [LinearOrder K] (asc : Bool) (is : List Int) (x y : List K)
    (hy : monotonic asc (some is) x = .ok y) (k : Nat)
    (hk : ∀ ks, wrapAll x.length is = some ks → k ∉ ks) : y[k]? = x[k]? := indexed_frame _ is x y hy k hk

/-! ## non-vacuity: the hypotheses are met by concrete, non-trivial instances

Listed theorems of the DESIGN that are NOT proved here (model + correspondence + monitor only):
`impose_as` tied relation in general (only the three closed-term witnesses), `synchronized` tied/frame for
arbitrary masks (only the ndarray witness), `impose_at` with a list target (scalar target proved), `masked`
insertion, `with_spread` / `with_variance` / `with_std` targets, `discrete` NEAREST member (membership and
fix-conform proved), round-half-EVEN tie rule (nearest-integer proved), in-target for the SELECTED subsequence of
`sorting` / `monotonic` with an index (frame proved; whole-vector case proved), `bounded(clip=False)` and
`bounded(nearest=False)` (random draws; correspondence with recorded draws only). -/

/-- a floor on ℚ satisfies the `IsFloor` contract -/
example : IsFloor (fun q : ℚ => ((Int.floor q : ℤ) : ℚ)) := fun a =>
  ⟨Int.floor a, rfl, Int.floor_le a, Int.lt_floor_add_one a⟩

/-- two intervals: `6` goes to the end `5` (nearest high), `11` to `10`, `-4` to `0`; `1` is left alone -/
example : bounded [((0 : Int), 5), (7, 10)] none [1, -4, 11, 6] = [1, 0, 10, 5] := by decide

example : sorting true none [(3 : Int), 1, 2] = .ok [1, 2, 3] := by decide
example : monotonic false none [(3 : Int), 1, 2, 0] = .ok [3, 1, 1, 0] := by decide
example : imposeAt [1, 3, 7, -1] (.inl (9 : Int)) [0, 0, 0, 0, 0] = .ok [0, 9, 0, 9, 9] := by decide
example : partialMask [(0, (10 : Int)), (3, -1), (-1, 5)] [0, 1, 2, 3, 4] = [10, 1, 2, -1, 5] := by decide
example : selMask 6 (some [0, 6]) 0 = false ∧ selMask 6 (some [0, -1]) 5 = true := by decide
example : withMean List.sum Nat.cast (0 : ℚ) 0 5 [1, 2, 3, 4] = .ok [7/2, 9/2, 11/2, 13/2] := by
  simp only [withMean, close, meanL, imposeMean, absR]
  norm_num
example : unique [(1 : Int), 2, 3, 4, 5] [1, 2, 1, 2] [5, 3, 4] = .ok [1, 2, 4, 3] := by decide

end MysticVerif.C16
