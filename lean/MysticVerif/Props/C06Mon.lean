/-
C06, clause "same counters and monitor contents as the uninterrupted run / each copy keeps counting its own
evaluations", for runs whose evaluation monitor does NOT hold one record per counted evaluation: the monitor was
attached (or replaced, `new=True`, or came with records of an earlier run) in the middle of the run, the solver was
checkpointed after that, and the restored solver is continued with `Step(cost)` / `Solve(cost)` - the objective handed
over again: the unpickled raw cost is another object, so `_bootstrap_objective` RE-DECORATES in the restored solver and
not in the uninterrupted one.  In the cell model (Model/Checkpoint.lean Part B, Model/CheckpointMon.lean) the counter
and the monitor are two cells whose contents are unrelated; `decorate` restarts the counter from the counter.
-/
import MysticVerif.Props.C06
import MysticVerif.Model.CheckpointMon

namespace MysticVerif.C06
open MysticVerif.Checkpoint

/-- `SetEvaluationMonitor` in the middle of a run: the count is kept, the solver shows the new monitor (old records
unless `new`, then the records the monitor came with), the counter cell stays shared, the pointers stay valid - and the
objective still writes into the OLD monitor (the solver is not linked until the next re-decoration) -/
theorem setmon_keeps_count (h : Heap) (l : Links) (hv : l.Valid h) (new : Bool) (own : List Nat) :
    evaluations (setMonitor h l new own).1 (setMonitor h l new own).2 = evaluations h l
    ∧ monitor (setMonitor h l new own).1 (setMonitor h l new own).2 = (if new = true then [] else monitor h l) ++ own
    ∧ (setMonitor h l new own).2.Valid (setMonitor h l new own).1
    ∧ (setMonitor h l new own).2.solverMon ≠ (setMonitor h l new own).2.closureMon := by
  obtain ⟨v1, v2, v3, v4⟩ := hv
  refine ⟨?_, ?_, ?_, ?_⟩
  · simp [evaluations, setMonitor]
  · simp [monitor, setMonitor, List.getD_eq_getElem?_getD]
  · unfold Links.Valid setMonitor
    simp
    omega
  · simp [setMonitor]
    omega

/-- **a monitor attached in the middle of the run, then the next Step (which re-decorates)**: the solver is linked
again, `n` further evaluations add exactly `n` to `evaluations` - which does NOT fall back to the length of the new
monitor - and exactly the `n` records to the new monitor, after the records it started with -/
theorem setmon_redecorate_counts (h : Heap) (l : Links) (hv : l.Valid h) (new : Bool) (own ts : List Nat) :
    let s := setMonitor h l new own
    let d := decorate s.1 s.2
    d.2.Linked
    ∧ evaluations (calls d.1 d.2 ts) d.2 = evaluations h l + ts.length
    ∧ monitor (calls d.1 d.2 ts) d.2 = (if new = true then [] else monitor h l) ++ own ++ ts := by
  obtain ⟨e1, e2, e3, _⟩ := setmon_keeps_count h l hv new own
  obtain ⟨r1, r2, r3, r4⟩ := redecorate_relinks (setMonitor h l new own).1 (setMonitor h l new own).2 e3
  obtain ⟨c1, c2⟩ := linked_counts r1 ts _ r4
  exact ⟨r1, by rw [c1, r2, e1], by rw [c2, r3, e2]⟩

/-- **resume with the objective handed over again = uninterrupted**, whatever the evaluation monitor holds: a linked
solver (counter value and monitor contents ARBITRARY - in particular a monitor shorter or longer than the count) is
pickled, restored, RE-DECORATED (`Step(cost)` with the unpickled cost object) and evaluates `ts`; the uninterrupted
solver evaluates `ts` without re-decoration.  Both show the same `evaluations` and the same monitor contents, and both
have counted exactly their own `ts.length` evaluations -/
theorem resume_redecorated_equals_uninterrupted (h : Heap) (l : Links) (hv : l.Valid h) (hl : l.Linked) (ts : List Nat) :
    let p := pickleCopy h l
    let d := decorate p.1 p.2
    evaluations (calls d.1 d.2 ts) d.2 = evaluations (calls h l ts) l
    ∧ monitor (calls d.1 d.2 ts) d.2 = monitor (calls h l ts) l
    ∧ evaluations (calls d.1 d.2 ts) d.2 = evaluations h l + ts.length := by
  obtain ⟨_, pe, pm, _, pv⟩ := pickle_preserves_links h l hv
  obtain ⟨r1, r2, r3, r4⟩ := redecorate_relinks (pickleCopy h l).1 (pickleCopy h l).2 pv
  obtain ⟨c1, c2⟩ := linked_counts r1 ts _ r4
  obtain ⟨u1, u2⟩ := linked_counts hl ts h hv
  exact ⟨by rw [c1, u1, r2, pe], by rw [c2, u2, r3, pm], by rw [c1, r2, pe]⟩

/-- the same through a monitor change BEFORE the checkpoint: attach / replace the monitor, take the next Step (which
re-decorates and evaluates `us`), checkpoint, restore, re-decorate, evaluate `ts` = the uninterrupted run evaluating
`us ++ ts`; the restored solver's count is the full count, not the number of records in its monitor -/
theorem resume_after_monitor_change (h : Heap) (l : Links) (hv : l.Valid h) (new : Bool) (own us ts : List Nat) :
    let s := setMonitor h l new own
    let d := decorate s.1 s.2
    let g := calls d.1 d.2 us
    let p := pickleCopy g d.2
    let r := decorate p.1 p.2
    evaluations (calls r.1 r.2 ts) r.2 = evaluations (calls d.1 d.2 (us ++ ts)) d.2
    ∧ monitor (calls r.1 r.2 ts) r.2 = monitor (calls d.1 d.2 (us ++ ts)) d.2
    ∧ evaluations (calls r.1 r.2 ts) r.2 = evaluations h l + us.length + ts.length := by
  obtain ⟨e1, _, e3, _⟩ := setmon_keeps_count h l hv new own
  obtain ⟨r1, r2, _, r4⟩ := redecorate_relinks (setMonitor h l new own).1 (setMonitor h l new own).2 e3
  have gv : (decorate (setMonitor h l new own).1 (setMonitor h l new own).2).2.Valid
      (calls (decorate (setMonitor h l new own).1 (setMonitor h l new own).2).1
        (decorate (setMonitor h l new own).1 (setMonitor h l new own).2).2 us) := by
    generalize (decorate (setMonitor h l new own).1 (setMonitor h l new own).2).2 = dl at r4 ⊢
    generalize (decorate (setMonitor h l new own).1 (setMonitor h l new own).2).1 = dh at r4 ⊢
    induction us generalizing dh with
    | nil => simpa [calls] using r4
    | cons t us ih => simp only [calls]; exact ih _ (valid_call t r4)
  obtain ⟨k1, k2, k3⟩ := resume_redecorated_equals_uninterrupted _ _ gv r1 ts
  obtain ⟨c1, _⟩ := linked_counts r1 us _ r4
  refine ⟨?_, ?_, ?_⟩
  · rw [calls_append]; exact k1
  · rw [calls_append]; exact k2
  · rw [k3, c1, r2, e1]

/-- where the counter comes from matters only when the monitor is INCOMPLETE: with one record per counted evaluation
(a monitor present from the first evaluation on) or with no records at all (no monitor), restarting the counter from
the monitor's length is the same as restarting it from the counter - the situations a run configured once, before
its first Step, is always in -/
theorem decorate_from_monitor_agrees_when_complete (h : Heap) (l : Links)
    (hc : (monitor h l).length = evaluations h l ∨ (monitor h l).length = 0) :
    decorateFromMonitor h l = decorate h l := by
  unfold decorateFromMonitor decorate
  rcases hc with hc | hc
  · by_cases h0 : (monitor h l).length = 0
    · simp [h0]
    · simp [hc]
  · simp [hc]

/-- **kernel-checked witness: the counter must restart from the counter.**  Three evaluations, then an empty monitor is
attached with `new=True`, two more evaluations (count 5, monitor 2 records); checkpoint; the restored solver is
re-decorated and evaluates once.  Uninterrupted: 6.  `decorate` (the code): 6.  A re-decoration that "leverages the
monitor" (`start = len(evalmon) or _fcalls[0]`): 3 - the restored solver has forgotten three evaluations -/
theorem decorate_from_monitor_length_does_not_resume :
    let a := fresh { ctr := [], mon := [] }
    let h := calls a.1 a.2 [1, 2, 3]
    let s := setMonitor h a.2 true []
    let d := decorate s.1 s.2
    let g := calls d.1 d.2 [4, 5]
    let p := pickleCopy g d.2
    let good := decorate p.1 p.2
    let bad := decorateFromMonitor p.1 p.2
    evaluations g d.2 = 5 ∧ monitor g d.2 = [4, 5]
    ∧ evaluations (calls g d.2 [6]) d.2 = 6
    ∧ evaluations (calls good.1 good.2 [6]) good.2 = 6 ∧ monitor (calls good.1 good.2 [6]) good.2 = [4, 5, 6]
    ∧ evaluations (calls bad.1 bad.2 [6]) bad.2 = 3 := by
  decide

/-- non-vacuity: the state the theorems above start from - a linked, valid solver whose monitor (2 records) is shorter
than its count (5) - is reached by the model's own operations -/
example :
    let a := fresh { ctr := [], mon := [] }
    let s := setMonitor (calls a.1 a.2 [1, 2, 3]) a.2 true []
    let d := decorate s.1 s.2
    d.2.Linked ∧ d.2.Valid (calls d.1 d.2 [4, 5]) ∧ evaluations (calls d.1 d.2 [4, 5]) d.2 = 5
    ∧ (monitor (calls d.1 d.2 [4, 5]) d.2).length = 2 := by
  decide

end MysticVerif.C06
