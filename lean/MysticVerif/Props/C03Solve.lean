/-
C03 wherever `Solve()` stops (closed loop, Model/ClosedLoop.lean): whatever the termination condition tree, the
limits, the trial vectors / line searches and the number of iterations the run performs, every point the user's cost
was called at is a fixed point of the constraints (so it satisfies them whenever their image does), and so is a finite
reported best of differential evolution and Powell.
-/
import MysticVerif.Props.C03
import MysticVerif.Props.Solve
import MysticVerif.Props.Reconfig

namespace MysticVerif.C03
open MysticVerif.Solver MysticVerif.Closed MysticVerif.SolveProps MysticVerif.PowellS

variable {R : Type} [Add R] [Sub R] [Mul R] [Div R] [Neg R] [LinearOrder R] [BEq R] [OfNat R 0] [OfNat R 2]

/-- differential evolution (1 and 2) -/
theorem solve_de_constrained (two : Bool) (o : Obj (List R) R) (h : Hyp o) (cond : Term.Cond R)
    (pop0 : List (List R)) (x0 : List R) (trialss : List (List (List R))) (fuel : Nat) (c : Ctl) :
    let s := (solve (deAlg two o cond pop0 trialss) fuel c (DE.init o pop0 x0) 0 0).st
    (∀ p ∈ s.log, o.K p.1 = p.1) ∧ (s.bestE ≠ o.top → o.K s.best = s.best) := by
  intro s
  have hi := solve_de_inv two o h cond pop0 x0 trialss fuel c
  exact ⟨fun p hp => (hi.logOK p hp).2.1, fun hne => (hi.best hne).2.2.1⟩

/-- Nelder-Mead: evaluated points (the stored vertices are the pre-images: C01 `nm_best_not_evaluated_witness`) -/
theorem solve_nm_constrained (o : Obj (Pt R) R) (h : Hyp o) (coef : Coef R)
    (st clip0 mkVal : Pt R → Pt R) (hst : ∀ x, o.K (st x) = o.K x)
    (hclip : ∀ x, (o.useRange = true → o.inBox x = true) → clip0 x = x)
    (cond : Term.Cond R) (x0 : Pt R) (fuel : Nat) (c : Ctl) (s0 : NM R R)
    (hran : 1 ≤ (solve (nmAlg o coef st clip0 mkVal cond x0) fuel c s0 0 0).iters) :
    ∀ p ∈ (solve (nmAlg o coef st clip0 mkVal cond x0) fuel c s0 0 0).st.log, o.K p.1 = p.1 := by
  intro p hp
  exact ((solve_nm_inv o h coef st clip0 mkVal hst hclip cond x0 fuel c s0 hran).logOK p hp).2.1

/-- Powell -/
theorem solve_pw_constrained (o : Obj (Pt R) R) (h : Hyp o) (cfg : PwCfg R R)
    (ls : Nat → Pt R → Pt R → LsRec R) (cond : Term.Cond R) (record : Bool) (x0 : Pt R) (direc : List (Pt R))
    (hd : direc ≠ []) (fuel : Nat) (c : Ctl) (s0 : Pw R R)
    (hran : 1 ≤ (solve (pwAlg o cfg ls cond record x0 direc) fuel c s0 0 0).iters) :
    let s := (solve (pwAlg o cfg ls cond record x0 direc) fuel c s0 0 0).st
    (∀ p ∈ s.log, o.K p.1 = p.1) ∧ (s.fval ≠ o.top → o.K s.x = s.x) := by
  intro s
  have hi := solve_pw_inv o h cfg ls cond record x0 direc hd fuel c s0 hran
  exact ⟨fun p hp => (hi.logOK p hp).2.1, fun hne => (hi.best hne).2.2.1⟩

end MysticVerif.C03
