/-
C09 - ensemble solvers return the best member and account for all work; the point generators behind them
enumerate the full Cartesian product / stay within their ranges.  Property theorems only (helper lemmas:
Proofs/Ensemble.lean; model: Model/Ensemble.lean, a transcription of mystic/math/grid.py, mystic/math/samples.py,
mystic/ensemble.py `_InitialPoints`, mystic/abstract_ensemble_solver.py `__update_bestSolver`, `__init_allSolvers`).

`K` is an arbitrary linearly ordered field (bounds, bin centres, sample points), `E` an arbitrary linear order
(energies; "the cost never returns NaN" is this hypothesis), `α`/`X` arbitrary types of grid values / solutions.
The sort keys of `randomly_bin` (`key : Nat → κ`, draw number ↦ `random()`) and the `rand(dim, npts)` matrix of
`_random_samples` are universally quantified: the statements hold for EVERY shuffle / every draw.

Clauses of the property and where they are:
* grid points enumerate the full Cartesian product ............ `gridpts_spec`, `gridpts_count`, `gridpts_empty_bin_witness`
* lattice: bin centres inside their cells and ranges ............ `lattice_bins_centres`, `lattice_points_spec`
* exactly prod(nbins) / npts members .......................... `lattice_points_spec`, `lattice_int_points_count`, `member_count`
* sampled points stay within their ranges ..................... `samples_in_range`, `samplepts_in_range` (uniform sampler),
    `dist_samples_in_range`, `samplepts_dist_in_range`, `clip_in_range` (user-supplied distribution: the draw / clip /
    redraw-what-sits-on-a-bound loop of `random_samples`, for ALL draw streams)
* randomly_bin: strided products, product = N for any shuffle .. `strided_prod`, `randomly_bin_spec`, `randomly_bin_none_spec`
* best energy = min over members, solution is that member's .... `update_best_min`, `update_best_last_tie`, `update_best_prev_irrelevant`
* totals = sums over members .................................. `totals`
* every member carries the ensemble's configuration ........... `member_inherits`
* members are fresh copies of the nested solver (object identity), the configured instance handed to `SetNestedSolver`
  is a template that no solve advances, ensembles sharing it are independent
    ........................................................... `init_members_fresh`, `members_fresh_copies`,
                                                                `template_untouched`, `ensembles_independent`
* WHOLE ENSEMBLE RUNS, the members being closed loops of the solver model S (Model/EnsembleRun.lean): slot j holds the
  run from starting point j, `_all_*` are the members' values in order, total evaluations = sum of the members'
  evaluation-log lengths = calls of the user's cost, the reported best is one member's and the minimum, every member's
  stop message is true of its own counters; lattice: prod(nbins) members started at the cell centres
    ........................................................... `ensemble_members_in_order`, `ensemble_total_is_cost_calls`,
                                                                `nm_ensemble_total_is_cost_calls`, `ensemble_best_is_min_member`,
                                                                `ensemble_member_stops_truthfully`, `lattice_ensemble_members`
* step-wise mode (`Step()` loops, `Solve(step=True)`): slots kept, finished members not advanced, equivalence with
  run-to-completion for deterministic members ................. `ens_steps_keep_slots`, `finished_member_not_advanced`,
                                                                `member_steps_eq_run`, `step_mode_eq_solve`
Not modelled here (checked on the implementation by the monitor of harness/c09.py only): that `copy.deepcopy` really
returns an independent object (the harness compares object identities and the template's state with the model on every
run), the map (order-preserving in its result), `fillpts` (an optimisation run), Powell's `Finalize` in step-wise mode
(excluded from `step_mode_eq_solve`), the re-decoration of a finished Nelder-Mead member's objective in step-wise mode
(known finding F20e: the stored best vertex is clipped into the strict ranges).
-/
import MysticVerif.Proofs.Ensemble
import MysticVerif.Proofs.EnsembleRun

set_option linter.unusedSectionVars false
set_option linter.unusedSimpArgs false
set_option linter.unusedVariables false

namespace MysticVerif.C09
open MysticVerif.Ens

/-! ## gridpts -/
section Grid
variable {α : Type}

/-- **grid points enumerate the full Cartesian product of the bins, in lexicographic order** (first coordinate
slowest): for every non-empty list of bins in which no bin except possibly the last is empty, `gridpts q` is exactly
`cartesianLex q`; a vector is a grid point iff each coordinate lies in its bin (nothing is missing, nothing extra),
every grid point has one coordinate per bin, and no point is repeated when no bin repeats a value. -/
theorem gridpts_spec (q : List (List α)) (hq : q ≠ []) (h : ∀ b ∈ q.dropLast, b ≠ []) :
    gridpts q = some (cartesianLex q) ∧
    (∀ p, p ∈ cartesianLex q ↔ List.Forall₂ (fun x b => x ∈ b) p q) ∧
    (∀ p ∈ cartesianLex q, p.length = q.length) ∧
    ((∀ b ∈ q, b.Nodup) → (cartesianLex q).Nodup) :=
  ⟨gridpts_eq q hq h, cartesianLex_mem q, cartesianLex_point_length q, cartesianLex_nodup q⟩

/-- **count**: the number of grid points is the product of the bin sizes. -/
theorem gridpts_count (q : List (List α)) (hq : q ≠ []) (h : ∀ b ∈ q.dropLast, b ≠ []) :
    ∃ pts, gridpts q = some pts ∧ pts.length = (q.map List.length).prod := by
  refine ⟨_, gridpts_eq q hq h, ?_⟩
  rw [cartesianLex_length, List.prod_eq_foldr]

/-- `gridpts([])` raises IndexError (`q[-1]`). -/
theorem gridpts_empty_q : gridpts ([] : List (List α)) = none := rfl

/-- **the hypothesis of `gridpts_spec` is needed - the code violates the clause on a degenerate input**
(known finding F30): an empty bin that is not the last one is skipped; `gridpts [[], [1,2]]` returns two
one-coordinate points although the Cartesian product is empty. -/
theorem gridpts_empty_bin_witness :
    gridpts ([[], [1, 2]] : List (List Nat)) = some [[1], [2]] ∧ cartesianLex ([[], [1, 2]] : List (List Nat)) = [] := by
  decide

/-- non-vacuity: the docstring example of grid.py -/
example : gridpts ([[1, 2], [3, 4]] : List (List Nat)) = some [[1, 3], [1, 4], [2, 3], [2, 4]] := by decide
example : ([[1, 2], [3, 4]] : List (List Nat)) ≠ [] ∧ ∀ b ∈ ([[1, 2], [3, 4]] : List (List Nat)).dropLast, b ≠ [] := by decide

end Grid

theorem foldl_mul_start (l : List Nat) (a : Nat) : l.foldl (· * ·) a = a * l.prod := by
  induction l generalizing a with
  | nil => simp
  | cons b l ih => simp [List.foldl_cons, ih, List.prod_cons, Nat.mul_assoc]

/-! ## lattice bin centres, starting points -/
section Lattice
variable {K : Type} [Field K] [LinearOrder K] [IsStrictOrderedRing K]

/-- **lattice bin centres** (ensemble.py l.77-78): for `lo ≤ hi` and `n > 0` bins there are exactly `n` centres; the
`j`-th is `lo + (j + 1/2) (hi - lo)/n`, it is the midpoint of cell `j = [lo + j w, lo + (j+1) w]`, `w = (hi-lo)/n`,
lies inside its own cell, the cell lies inside `[lo, hi]`, and for `lo < hi` the centre is strictly inside its cell
(hence strictly inside the range). -/
theorem lattice_bins_centres (lo hi : K) (n j : Nat) (hj : j < n) (h : lo ≤ hi) :
    (latticeBin lo hi n).length = n ∧
    ∃ c, (latticeBin lo hi n)[j]? = some c ∧ c = lo + ((j : K) + 1 / 2) * ((hi - lo) / (n : K)) ∧
      c = (cellLo lo hi n j + cellHi lo hi n j) / 2 ∧
      cellLo lo hi n j ≤ c ∧ c ≤ cellHi lo hi n j ∧ lo ≤ cellLo lo hi n j ∧ cellHi lo hi n j ≤ hi ∧
      (lo < hi → cellLo lo hi n j < c ∧ c < cellHi lo hi n j) := by
  have f := centre_facts lo hi n j hj h
  exact ⟨latticeBin_length lo hi n, _, latticeBin_get lo hi n j hj h, rfl, f.1, f.2.1, f.2.2.1, f.2.2.2.1, f.2.2.2.2.1,
    f.2.2.2.2.2⟩

/-- the bins `latticeBins` builds: one per dimension, from that dimension's bounds and bin count -/
theorem latticeBins_ok (pf : Bool) (lower upper : List K) (nbins : List Nat) :
    ∀ (d i : Nat) (bins : List (List K)), latticeBins pf lower upper nbins d i = .ok bins →
      bins.length = d ∧ ∀ k, k < d → ∃ lo hi n, lower[i + k]? = some lo ∧ upper[i + k]? = some hi ∧
        nbins[i + k]? = some n ∧ bins[k]? = some (latticeBin lo hi n) := by
  intro d
  induction d with
  | zero => intro i bins h; simp only [latticeBins] at h; cases h; simp
  | succ d ih =>
    intro i bins h
    simp only [latticeBins] at h
    split at h
    · rename_i hi lo n e1 e2 e3
      split at h
      · cases h
      · cases hr : latticeBins pf lower upper nbins d (i + 1) with
        | error e => simp [hr] at h
        | ok rest =>
          simp only [hr] at h
          cases h
          obtain ⟨hl, hk⟩ := ih (i + 1) rest hr
          refine ⟨by simp [hl], ?_⟩
          intro k hkd
          cases k with
          | zero => exact ⟨lo, hi, n, by simpa using e2, by simpa using e1, by simpa using e3, by simp⟩
          | succ k =>
            obtain ⟨lo', hi', n', a1, a2, a3, a4⟩ := hk k (by omega)
            refine ⟨lo', hi', n', ?_, ?_, ?_, by simpa using a4⟩
            · rw [← a1]; congr 1; omega
            · rw [← a2]; congr 1; omega
            · rw [← a3]; congr 1; omega
    · cases h

/-- **lattice starting points** (`LatticeSolver._InitialPoints`, tuple `nbins`): when it returns, with positive bin
counts, the starting points are exactly the Cartesian product (in order) of the per-dimension centre lists - one
starting point per grid cell, each coordinate the centre of a cell of its own dimension - and there are
`prod(nbins)` of them, which is the member count `__init__` allocates for that `nbins` tuple. -/
theorem lattice_points_spec (pf : Bool) (dim : Nat) (lower upper : List K) (nbins : List Nat) (pts : List (List K))
    (h : latticePoints pf dim lower upper nbins = .ok pts) (hpos : ∀ n ∈ nbins, 0 < n) (hlen : nbins.length = dim) :
    ∃ bins : List (List K), bins.length = dim ∧
      (∀ k, k < dim → ∃ lo hi n, lower[k]? = some lo ∧ upper[k]? = some hi ∧ nbins[k]? = some n ∧
        bins[k]? = some (latticeBin lo hi n)) ∧
      pts = cartesianLex bins ∧ (∀ p, p ∈ pts ↔ List.Forall₂ (fun x b => x ∈ b) p bins) ∧
      pts.length = nbins.prod ∧ (0 < dim → memberCount (.nbinsTuple nbins) = some pts.length) := by
  simp only [latticePoints] at h
  cases hb : latticeBins pf lower upper nbins dim 0 with
  | error e => simp [hb] at h
  | ok bins =>
    simp only [hb] at h
    obtain ⟨hl, hk⟩ := latticeBins_ok pf lower upper nbins dim 0 bins hb
    have hk' : ∀ k, k < dim → ∃ lo hi n, lower[k]? = some lo ∧ upper[k]? = some hi ∧ nbins[k]? = some n ∧
        bins[k]? = some (latticeBin lo hi n) := by
      intro k hkd; simpa using hk k hkd
    -- every bin is non-empty, and its size is the bin count
    have hsz : bins.map List.length = nbins := by
      apply List.ext_getElem?
      intro k
      by_cases hkd : k < dim
      · obtain ⟨lo, hi, n, _, _, a3, a4⟩ := hk' k hkd
        simp [List.getElem?_map, a4, a3, latticeBin_length]
      · have h1 : bins.length ≤ k := by omega
        have h2 : nbins.length ≤ k := by omega
        simp [List.getElem?_eq_none, h1, h2]
    have hne : ∀ b ∈ bins, b ≠ [] := by
      intro b hb' hnil
      have : b.length ∈ bins.map List.length := List.mem_map_of_mem hb'
      rw [hsz] at this
      have := hpos _ this
      simp [hnil] at this
    cases hg : gridpts bins with
    | none => simp [hg] at h
    | some g =>
      simp only [hg] at h
      cases h
      have hq : bins ≠ [] := by
        intro e; subst e; simp [gridpts] at hg
      have he := gridpts_eq bins hq (fun b hb' => hne b (List.mem_of_mem_dropLast hb'))
      rw [hg] at he
      cases he
      refine ⟨bins, hl, hk', rfl, cartesianLex_mem bins, ?_, ?_⟩
      · rw [cartesianLex_length, ← List.prod_eq_foldr, hsz]
      · intro hd
        rw [cartesianLex_length, ← List.prod_eq_foldr, hsz]
        cases nbins with
        | nil => simp at hlen; omega
        | cons a l =>
          simp only [memberCount, Option.some.injEq]
          rw [List.prod_cons, foldl_mul_start]

/-- non-vacuity over ℚ-like data is shown on `Nat`-free instances by the driver; here the hypotheses are satisfiable: -/
example : ∀ n ∈ [2, 3], 0 < n := by decide

end Lattice

/-! ## sampled points -/
section Samples
variable {K : Type} [Field K] [LinearOrder K] [IsStrictOrderedRing K]

/-- **samples stay within their range** (samples.py l.36, one entry `u*|ub-lb| + lb`): for `lb ≤ ub` and a draw
`0 ≤ u ≤ 1` the sample is in `[lb, ub]`; for `lb < ub` and `u < 1` (what `rand` returns) it is below `ub`.
Field statement: in binary64 the upper end can be exceeded by rounding (DESIGN 3; counted by the harness). -/
theorem samples_in_range (u lb ub : K) (h : lb ≤ ub) (h0 : 0 ≤ u) (h1 : u ≤ 1) :
    lb ≤ samplePt u lb ub ∧ samplePt u lb ub ≤ ub ∧ (lb < ub → u < 1 → samplePt u lb ub < ub) :=
  ⟨(samplePt_range u lb ub h h0 h1).1, (samplePt_range u lb ub h h0 h1).2, fun hl hu => samplePt_lt u lb ub hl hu⟩

/-- **samplepts**: for a `dim x npts` draw matrix with entries in `[0, 1]` and bounds `lb[i] ≤ ub[i]`, `samplepts`
returns exactly `npts` points of `len(lb)` coordinates, and coordinate `i` of every point lies in `[lb[i], ub[i]]`. -/
theorem samplepts_in_range (lb ub : List K) (npts : Nat) (us pts : List (List K))
    (h : samplepts lb ub npts us = .ok pts) (hrows : ∀ row ∈ us, row.length = npts)
    (hu : ∀ row ∈ us, ∀ t ∈ row, 0 ≤ t ∧ t ≤ 1)
    (hb : ∀ (i : Nat) (l u : K), lb[i]? = some l → ub[i]? = some u → l ≤ u) :
    pts.length = npts ∧ ∀ p ∈ pts, p.length = lb.length ∧
      ∀ (i : Nat) (v : K), p[i]? = some v → ∃ l u, lb[i]? = some l ∧ ub[i]? = some u ∧ l ≤ v ∧ v ≤ u := by
  obtain ⟨hn, he⟩ := samplepts_entries lb ub npts us pts h hrows
  refine ⟨hn, ?_⟩
  intro p hp
  obtain ⟨j, hj⟩ := List.getElem?_of_mem hp
  obtain ⟨hl, hv⟩ := he j p hj
  refine ⟨hl, ?_⟩
  intro i v hiv
  obtain ⟨l, u, t, a1, a2, a3, rfl⟩ := hv i v hiv
  have ht : 0 ≤ t ∧ t ≤ 1 := by
    cases hrow : us[i]? with
    | none => simp [hrow] at a3
    | some row =>
      simp only [hrow, Option.bind_some] at a3
      exact hu row (List.mem_of_getElem? hrow) t (List.mem_of_getElem? a3)
  have := samplePt_range t l u (hb i l u a1 a2) ht.1 ht.2
  exact ⟨l, u, a1, a2, this.1, this.2⟩

end Samples

/-! ## sampled points with a user-supplied distribution -/
section DistSamples
variable {K : Type} [LinearOrder K]

/-- **sampled points stay within their ranges, for every distribution** (`random_samples(lb, ub, npts, dist, clip)`,
samples.py l.50-70: draw, clip, redraw the entries sitting on a bound, clip again, repeat).  For ALL draw streams (the
initial matrix `init` and every later redraw `draw`: any values whatsoever - mass outside the box on either side, on
the bounds, anything), any number of tries `n` and bounds `lb[i] ≤ ub[i]`: whenever the function returns, the result
has the shape of the initial draw, and every entry of coordinate row `i` lies in `[lb[i], ub[i]]` - strictly inside
when `clip=False` (an entry equal to a bound is always redrawn).  Only comparisons are involved: the statement is
exact for binary64 (no rounding caveat, unlike the uniform sampler). -/
theorem dist_samples_in_range (draw : Nat → Nat → K) (lb ub : List K) (init : List (List K)) (clip : Bool) (n c : Nat)
    (pts : List (List K)) (h : randomSamplesDist draw lb ub init clip n = .ok (c, pts))
    (hb : ∀ (i : Nat) (l u : K), lb[i]? = some l → ub[i]? = some u → l ≤ u) :
    pts.map List.length = init.map List.length ∧ pts.length = lb.length ∧
    ∀ (i : Nat) (row : List K), pts[i]? = some row → ∃ l u, lb[i]? = some l ∧ ub[i]? = some u ∧
      ∀ x ∈ row, l ≤ x ∧ x ≤ u ∧ (clip = false → l < x ∧ x < u) :=
  randomSamplesDist_spec draw lb ub init clip n c pts h hb

/-- **samplepts with a distribution** (grid.py l.42-58, what `BuckshotSolver._InitialPoints` returns after
`SetDistribution`): exactly `npts` points of `len(lb)` coordinates, coordinate `i` of every point strictly inside
`(lb[i], ub[i])`, for all draw streams. -/
theorem samplepts_dist_in_range (draw : Nat → Nat → K) (lb ub : List K) (npts : Nat) (init : List (List K)) (n c : Nat)
    (pts : List (List K)) (h : sampleptsDist draw lb ub npts init n = .ok (c, pts))
    (hrows : ∀ row ∈ init, row.length = npts)
    (hb : ∀ (i : Nat) (l u : K), lb[i]? = some l → ub[i]? = some u → l ≤ u) :
    pts.length = npts ∧ ∀ p ∈ pts, p.length = lb.length ∧
      ∀ (i : Nat) (v : K), p[i]? = some v → ∃ l u, lb[i]? = some l ∧ ub[i]? = some u ∧ l < v ∧ v < u :=
  sampleptsDist_spec draw lb ub npts init n c pts h hrows hb

/-- one clipped entry is inside its range (numpy's kernel, bound returned on ties) -/
theorem clip_in_range (x lo hi : K) (h : lo ≤ hi) : lo ≤ clipPt x lo hi ∧ clipPt x lo hi ≤ hi :=
  clipPt_range x lo hi h

/-- non-vacuity: range `[0, 10]`, initial draw `-5, 3, 20` (outside on both sides); the first redraw `12, 5` is
outside AGAIN for one entry, the second redraw `7` is inside: two redraw calls, result strictly inside. -/
example : randomSamplesDist (fun c k => ([[12, 5], [7]].getD c []).getD k 0) [(0 : Int)] [10] [[-5, 3, 20]] false 1000
    = .ok (2, [[7, 3, 5]]) := by decide
/-- a distribution without mass inside the box: the loop gives up (`RuntimeError`) instead of returning a bad point -/
example : randomSamplesDist (fun _ _ => (99 : Int)) [0] [10] [[5, 20]] false 4 = .error .runtime := by decide
/-- `clip=True`: out-of-range entries are put ON the bounds -/
example : randomSamplesDist (fun _ _ => (0 : Int)) [0] [10] [[-5, 3, 20]] true 1000 = .ok (0, [[0, 3, 10]]) := by decide

end DistSamples

/-! ## randomly_bin -/
section Bins
variable {κ : Type} [LT κ] [DecidableLT κ]

/-- **strided products** (grid.py l.154-155 `[prod(result[i::dim]) for i in range(dim)]`): for `dim > 0` the `dim`
strided slices partition the list - the product of the `dim` strided products is the product of the whole list. -/
theorem strided_prod (l : List Nat) (d : Nat) (hd : 0 < d) :
    (stridedProducts l d).length = d ∧ (stridedProducts l d).prod = l.prod :=
  ⟨stridedProducts_length l d, stridedProducts_prod l d hd⟩

/-- `sorted(l, key=lambda v: random())` is a permutation of `l`, whatever the keys are. -/
theorem shuffle_perm (key : Nat → κ) (off : Nat) (l : List Nat) : (sortByKeys key off l).Perm l :=
  sortByKeys_perm key off l

/-- the trial division of `randomly_bin` always returns, and the factors multiply to `n` (`n ≥ 1`). -/
theorem factors_spec (n : Nat) (hn : 0 < n) : ∃ fs, factors n = some fs ∧ fs.prod = n := by
  have h := factors_isSome n hn
  cases hf : factors n with
  | none => simp [hf] at h
  | some fs => exact ⟨fs, rfl, factors_prod n fs hf⟩

theorem randomlyBinPass_total (key : Nat → κ) (off N : Nat) (ndim : Option Nat) (ones : Bool) (hN : 0 < N) :
    ∃ o, randomlyBinPass key off N ndim ones = some o := by
  obtain ⟨fs, hf, _⟩ := factors_spec N hN
  unfold randomlyBinPass
  simp only [hf]
  cases ones <;> simp

/-- **randomly_bin, `ndim` given** (what `LatticeSolver` uses for an integer `nbins`): for every `N ≥ 1`,
`ndim ≥ 1`, `ones`, and EVERY stream of sort keys (every shuffle), the call returns exactly `ndim` bins whose
product is `N` (`exact=True`); with `exact=False` the product is `N`, or `N-1` for the documented prime case. -/
theorem randomly_bin_spec (key : Nat → κ) (N d : Nat) (ones exact : Bool) (hN : 0 < N) (hd : 0 < d) :
    ∃ bins draws, randomlyBin key N (some d) ones exact = .ok bins draws ∧ bins.length = d ∧
      (bins.prod = N ∨ (exact = false ∧ 3 < N ∧ bins.prod = N - 1)) ∧ (exact = true → bins.prod = N) := by
  have hnd : (some d : Option Nat) ≠ some 0 := by intro e; cases e; omega
  obtain ⟨o, ho⟩ := randomlyBinPass_total key 0 N (some d) ones hN
  have hs := randomlyBinPass_spec key 0 N (some d) ones o hnd ho
  unfold randomlyBin
  have e0 : ¬ (N = 0) := by omega
  simp only [hnd, if_false, e0, ho]
  by_cases hc : exact = false ∧ 3 < N ∧ o.prime = true
  · obtain ⟨o', ho'⟩ := randomlyBinPass_total key o.draws (N - 1) (some d) ones (by omega)
    have hs' := randomlyBinPass_spec key o.draws (N - 1) (some d) ones o' hnd ho'
    rw [if_pos hc]
    simp only [ho']
    refine ⟨_, _, rfl, hs'.2 d rfl, Or.inr ⟨hc.1, hc.2.1, hs'.1⟩, ?_⟩
    intro he; rw [he] at hc; exact absurd hc.1 (by simp)
  · rw [if_neg hc]
    exact ⟨_, _, rfl, hs.2 d rfl, Or.inl hs.1, fun _ => hs.1⟩

/-- **randomly_bin, `ndim=None`**: the product of the returned bins is `N` (resp. `N-1` in the documented inexact
prime case) for every shuffle. -/
theorem randomly_bin_none_spec (key : Nat → κ) (N : Nat) (ones exact : Bool) (hN : 0 < N) :
    ∃ bins draws, randomlyBin key N none ones exact = .ok bins draws ∧
      (bins.prod = N ∨ (exact = false ∧ 3 < N ∧ bins.prod = N - 1)) ∧ (exact = true → bins.prod = N) := by
  have hnd : (none : Option Nat) ≠ some 0 := by intro e; cases e
  obtain ⟨o, ho⟩ := randomlyBinPass_total key 0 N none ones hN
  have hs := randomlyBinPass_spec key 0 N none ones o hnd ho
  unfold randomlyBin
  have e0 : ¬ (N = 0) := by omega
  simp only [hnd, if_false, e0, ho]
  by_cases hc : exact = false ∧ 3 < N ∧ o.prime = true
  · obtain ⟨o', ho'⟩ := randomlyBinPass_total key o.draws (N - 1) none ones (by omega)
    have hs' := randomlyBinPass_spec key o.draws (N - 1) none ones o' hnd ho'
    rw [if_pos hc]
    simp only [ho']
    refine ⟨_, _, rfl, Or.inr ⟨hc.1, hc.2.1, hs'.1⟩, ?_⟩
    intro he; rw [he] at hc; exact absurd hc.1 (by simp)
  · rw [if_neg hc]
    exact ⟨_, _, rfl, Or.inl hs.1, fun _ => hs.1⟩

/-- the degenerate request `randomly_bin(0, ndim)` (grid.py l.134, branches of the conditional swapped): ONE bin `[0]`
whatever `ndim ≥ 1` is, and a TypeError for `ndim=None` - outside the property's domain (`N ≥ 1`), recorded as is. -/
theorem randomly_bin_zero (key : Nat → κ) (d : Nat) (hd : 0 < d) (ones exact : Bool) :
    (∃ dr, randomlyBin key 0 (some d) ones exact = .ok [0] dr) ∧
    (match randomlyBin key 0 none ones exact with | .typeError => True | _ => False) := by
  have hnd : (some d : Option Nat) ≠ some 0 := by intro e; cases e; omega
  constructor
  · exact ⟨0, by simp [randomlyBin, hnd]⟩
  · simp [randomlyBin]

/-- non-vacuity: `randomly_bin(12, 3)` with the keys `1, 0, 2, 1, 0` -/
example : (match randomlyBin (fun i => [1, 0, 2, 1, 0].getD i 0) 12 (some 3) true true with
    | .ok bins _ => bins | .typeError => []) = [2, 3, 2] := by decide

end Bins

/-! ## integer `nbins`: randomly_bin feeds the lattice -/
section LatticeInt
variable {K : Type} [Field K] [LinearOrder K] [IsStrictOrderedRing K] {κ : Type} [LT κ] [DecidableLT κ]

/-- **exactly as many lattice members as requested, integer `nbins`** (ensemble.py l.61-65 + l.73-82): for `N ≥ 1`
requested members in `dim ≥ 1` dimensions, whatever the shuffle, the bins `randomly_bin(N, dim, ones=True, exact=True)`
returns make `LatticeSolver._InitialPoints` produce exactly `N` starting points - the member count `__init__`
allocated for the integer `nbins`. -/
theorem lattice_int_points_count (key : Nat → κ) (pf : Bool) (N dim : Nat) (lower upper : List K)
    (hN : 0 < N) (hd : 0 < dim) (bins : List Nat) (draws : Nat) (pts : List (List K))
    (hb : randomlyBin key N (some dim) true true = .ok bins draws)
    (hp : latticePoints pf dim lower upper bins = .ok pts) :
    pts.length = N ∧ memberCount (.nbinsInt N) = some pts.length := by
  obtain ⟨b, d, hb', hl, _, hprod⟩ := randomly_bin_spec key N dim true true hN hd
  rw [hb] at hb'
  cases hb'
  have hprod := hprod rfl
  have hpos : ∀ n ∈ bins, 0 < n := by
    intro n hn
    rcases Nat.eq_zero_or_pos n with h0 | h0
    · subst h0
      have hz : ∀ l : List Nat, 0 ∈ l → l.prod = 0 := by
        intro l
        induction l with
        | nil => intro h; cases h
        | cons a l ih =>
          intro h
          rcases List.mem_cons.mp h with rfl | h'
          · simp
          · simp [ih h']
      have := hz bins hn
      omega
    · exact h0
  obtain ⟨_, _, _, _, _, hlen, _⟩ := lattice_points_spec pf dim lower upper bins pts hp hpos hl
  rw [hlen, hprod]
  exact ⟨rfl, rfl⟩

end LatticeInt

/-! ## ensemble bookkeeping -/
section Book
variable {X E : Type} [LinearOrder E]

theorem scanBest_mem (b : Member X E) (ms : List (Member X E)) : scanBest b ms = b ∨ scanBest b ms ∈ ms := by
  induction ms generalizing b with
  | nil => simp [scanBest]
  | cons m ms ih =>
    simp only [scanBest]
    rcases ih (if m.bestE ≤ b.bestE then m else b) with h | h
    · rw [h]; split
      · right; simp
      · left; rfl
    · right; exact List.mem_cons_of_mem _ h

theorem scanBest_le_start (b : Member X E) (ms : List (Member X E)) : (scanBest b ms).bestE ≤ b.bestE := by
  induction ms generalizing b with
  | nil => simp [scanBest]
  | cons m ms ih =>
    simp only [scanBest]
    refine le_trans (ih _) ?_
    split
    · assumption
    · exact le_refl _

theorem scanBest_le (b : Member X E) (ms : List (Member X E)) : ∀ m ∈ ms, (scanBest b ms).bestE ≤ m.bestE := by
  induction ms generalizing b with
  | nil => simp
  | cons m ms ih =>
    intro m' hm'
    simp only [scanBest]
    rcases List.mem_cons.mp hm' with rfl | h
    · refine le_trans (scanBest_le_start _ _) ?_
      split
      · exact le_refl _
      · exact le_of_lt (not_le.mp ‹_›)
    · exact ih _ _ h

theorem scanBest_last (b : Member X E) (ms : List (Member X E)) :
    (scanBest b ms = b ∧ ∀ m ∈ ms, b.bestE < m.bestE) ∨
    (∃ pre post, ms = pre ++ scanBest b ms :: post ∧ ∀ m ∈ post, (scanBest b ms).bestE < m.bestE) := by
  induction ms generalizing b with
  | nil => left; simp [scanBest]
  | cons m ms ih =>
    simp only [scanBest]
    rcases ih (if m.bestE ≤ b.bestE then m else b) with ⟨h1, h2⟩ | ⟨pre, post, h1, h2⟩
    · by_cases hc : m.bestE ≤ b.bestE
      · simp only [hc, if_true] at h1 h2 ⊢
        right
        exact ⟨[], ms, by rw [h1]; rfl, by rw [h1]; exact h2⟩
      · simp only [hc, if_false] at h1 h2 ⊢
        left
        refine ⟨h1, ?_⟩
        intro x hx
        rcases List.mem_cons.mp hx with rfl | hx
        · exact not_le.mp hc
        · exact h2 x hx
    · right
      exact ⟨m :: pre, post, by rw [List.cons_append, ← h1], h2⟩

theorem scanBest_congr (b1 b2 : Member X E) (ms : List (Member X E))
    (hx : ∃ x ∈ ms, x.bestE ≤ b1.bestE ∧ x.bestE ≤ b2.bestE) : scanBest b1 ms = scanBest b2 ms := by
  induction ms generalizing b1 b2 with
  | nil => obtain ⟨x, hx, _⟩ := hx; cases hx
  | cons m ms ih =>
    obtain ⟨x, hxm, h1, h2⟩ := hx
    simp only [scanBest]
    by_cases c1 : m.bestE ≤ b1.bestE <;> by_cases c2 : m.bestE ≤ b2.bestE
    · simp [c1, c2]
    · simp only [c1, c2, if_true, if_false]
      have hlt := not_le.mp c2
      rcases List.mem_cons.mp hxm with rfl | hx'
      · exact absurd h2 c2
      · exact ih _ _ ⟨x, hx', le_of_lt (lt_of_le_of_lt h2 hlt), h2⟩
    · simp only [c1, c2, if_true, if_false]
      have hlt := not_le.mp c1
      rcases List.mem_cons.mp hxm with rfl | hx'
      · exact absurd h1 c1
      · exact ih _ _ ⟨x, hx', h1, le_of_lt (lt_of_le_of_lt h1 hlt)⟩
    · simp only [c1, c2, if_false]
      rcases List.mem_cons.mp hxm with rfl | hx'
      · exact absurd h1 c1
      · exact ih _ _ ⟨x, hx', h1, h2⟩

/-- **the reported best is the minimum over the members and it IS a member** (`__update_bestSolver` on a fresh
ensemble, `_bestSolver is None`): for every non-empty member list the chosen solver `r` is one of the members - so
the reported energy, solution, evaluation and generation counters are that member's own - and its best energy is
`≤` every member's best energy, i.e. the minimum. -/
theorem update_best_min (ms : List (Member X E)) (hne : ms ≠ []) :
    ∃ r, updateBest none ms = some r ∧ r ∈ ms ∧ ∀ m ∈ ms, r.bestE ≤ m.bestE := by
  cases ms with
  | nil => exact absurd rfl hne
  | cons m ms =>
    refine ⟨scanBest m (m :: ms), rfl, ?_, scanBest_le m (m :: ms)⟩
    rcases scanBest_mem m (m :: ms) with h | h
    · rw [h]; simp
    · exact h

/-- **tie behaviour, as coded (`<=`)**: among several members with the minimal energy the LAST one in member order is
reported: every member after the reported one has a strictly larger best energy. -/
theorem update_best_last_tie (ms : List (Member X E)) (r : Member X E) (h : updateBest none ms = some r) :
    ∃ pre post, ms = pre ++ r :: post ∧ (∀ m ∈ pre, r.bestE ≤ m.bestE) ∧ ∀ m ∈ post, r.bestE < m.bestE := by
  cases ms with
  | nil => simp [updateBest] at h
  | cons m ms =>
    simp only [updateBest, Option.some.injEq] at h
    subst h
    rcases scanBest_last m (m :: ms) with ⟨h1, h2⟩ | ⟨pre, post, h1, h2⟩
    · exact absurd (h2 m (by simp)) (lt_irrefl _)
    · refine ⟨pre, post, h1, ?_, h2⟩
      intro x hx
      exact scanBest_le m (m :: ms) x (by rw [h1]; simp [hx])

/-- **the stored previous best does not matter** (step mode: `_bestSolver` survives from the previous `Step`): whenever
some current member is at least as good as the stored one - in particular when the stored one is itself a member, or
a stale copy of a member whose energy has not increased - the result is the same as on a fresh ensemble. -/
theorem update_best_prev_irrelevant (p : Member X E) (ms : List (Member X E))
    (h : ∃ m ∈ ms, m.bestE ≤ p.bestE) : updateBest (some p) ms = updateBest none ms := by
  cases ms with
  | nil => obtain ⟨m, hm, _⟩ := h; cases hm
  | cons m0 ms =>
    simp only [updateBest, Option.some.injEq]
    obtain ⟨y, hy, hyp⟩ := h
    obtain ⟨r, hr, hmem, hmin⟩ := update_best_min (m0 :: ms) (by simp)
    exact scanBest_congr p m0 (m0 :: ms) ⟨r, hmem, le_trans (hmin y hy) hyp, hmin m0 (by simp)⟩

/-! ### a reduction REPEATED over the same members (step-wise modes) -/

theorem refreshPrev_cases (live : Bool) (p : Member X E) (ms : List (Member X E)) :
    refreshPrev live p ms = p ∨ refreshPrev live p ms ∈ ms := by
  unfold refreshPrev
  by_cases hl : live = true
  · simp only [hl, if_true]
    cases hf : ms.find? (fun m => m.id == p.id) with
    | none => left; rfl
    | some m => right; exact List.mem_of_find?_eq_some hf
  · left; simp [hl]

/-- the threaded reductions equal the reductions of a fresh ensemble, given an invariant `Rel p ms` ("the stored best `p`
still has a counterpart in the next member list `ms`") that makes the stored best harmless and is re-established by
every reduction -/
theorem reduceSeq_eq_fresh_of (live : Bool) (Rel : Member X E → List (Member X E) → Prop)
    (hRel : ∀ p ms, Rel p ms → ∃ m ∈ ms, m.bestE ≤ (refreshPrev live p ms).bestE) :
    ∀ (mss : List (List (Member X E))) (prev : Option (Member X E)),
      (∀ ms ∈ mss, ms ≠ []) →
      (∀ (k : Nat) (a b : List (Member X E)), mss[k]? = some a → mss[k + 1]? = some b → ∀ p ∈ a, Rel p b) →
      (∀ p ms, prev = some p → mss[0]? = some ms → Rel p ms) →
      reduceSeq live prev mss = mss.map (updateBest none) := by
  intro mss
  induction mss with
  | nil => intro prev _ _ _; rfl
  | cons ms rest ih =>
    intro prev hne hch h0
    have hb : updateBest (prev.map fun p => refreshPrev live p ms) ms = updateBest none ms := by
      cases prev with
      | none => rfl
      | some p =>
        simp only [Option.map_some]
        exact update_best_prev_irrelevant _ ms (hRel p ms (h0 p ms rfl rfl))
    simp only [reduceSeq, List.map_cons, hb]
    congr 1
    apply ih
    · intro m hm; exact hne m (List.mem_cons_of_mem _ hm)
    · intro k a b ha hb'
      exact hch (k + 1) a b (by simpa using ha) (by simpa using hb')
    · intro p ms' hp hms'
      obtain ⟨r, hr, hmem, _⟩ := update_best_min ms (hne ms (by simp))
      rw [hr] at hp
      have e : r = p := by simpa using hp
      rw [← e]
      exact hch 0 ms ms' (by simp) (by simpa using hms') r hmem

/-- **a reduction repeated over the same members reports the minimum EVERY time** (`Step()` loops, `Solve(step=True)`,
`Step`s followed by a `Solve` that continues the members; `_bestSolver` survives from one reduction to the next).  Let
`mss` be the member lists seen by the successive reductions.  If no list is empty and every member of one list has a
counterpart in the next list that is at least as good (C04: a member's best energy never increases - the counterpart is
the same slot one `Step` later), then with an in-process map (`live = true`: the stored best is the live member) as
well as with a pickling map (`live = false`: the stored best is a stale copy) every reduction returns what a FRESH
ensemble would return on the current members: one of them, with the least energy - whoever led before, and whichever
slot the new leader sits in (first, last, in between). -/
theorem reduce_seq_min (live : Bool) (mss : List (List (Member X E))) (hne : ∀ ms ∈ mss, ms ≠ [])
    (hmono : ∀ (k : Nat) (a b : List (Member X E)), mss[k]? = some a → mss[k + 1]? = some b →
      ∀ p ∈ a, ∃ m ∈ b, m.bestE ≤ p.bestE) :
    reduceSeq live none mss = mss.map (updateBest none) ∧
    ∀ (k : Nat) (ms : List (Member X E)), mss[k]? = some ms →
      ∃ r, (reduceSeq live none mss)[k]? = some (some r) ∧ r ∈ ms ∧ ∀ m ∈ ms, r.bestE ≤ m.bestE := by
  have h1 : reduceSeq live none mss = mss.map (updateBest none) := by
    apply reduceSeq_eq_fresh_of live (fun p ms => ∃ m ∈ ms, m.bestE ≤ p.bestE) _ mss none hne hmono
    · intro p ms hp _; cases hp
    · intro p ms ⟨m, hm, hle⟩
      rcases refreshPrev_cases live p ms with h | h
      · exact ⟨m, hm, by rw [h]; exact hle⟩
      · exact ⟨_, h, le_refl _⟩
  refine ⟨h1, ?_⟩
  intro k ms hk
  obtain ⟨r, hr, hmem, hmin⟩ := update_best_min ms (hne ms (List.mem_of_getElem? hk))
  exact ⟨r, by rw [h1, List.getElem?_map, hk, Option.map_some, hr], hmem, hmin⟩

/-- **in-process map: no hypothesis on the energies at all.**  When the slots are kept from one reduction to the next
(every member id of one list occurs in the next: `ens_steps_keep_slots`), the stored best is looked up as the live
member of its slot, so the repeated reduction is the fresh one even if energies moved in any direction. -/
theorem reduce_seq_live_slots_kept (mss : List (List (Member X E))) (hne : ∀ ms ∈ mss, ms ≠ [])
    (hslots : ∀ (k : Nat) (a b : List (Member X E)), mss[k]? = some a → mss[k + 1]? = some b →
      ∀ p ∈ a, ∃ m ∈ b, m.id = p.id) :
    reduceSeq true none mss = mss.map (updateBest none) := by
  apply reduceSeq_eq_fresh_of true (fun p ms => ∃ m ∈ ms, m.id = p.id) _ mss none hne hslots
  · intro p ms hp _; cases hp
  · intro p ms ⟨m, hm, hid⟩
    have hsome : (ms.find? fun m => m.id == p.id).isSome = true := by
      rw [List.find?_isSome]
      exact ⟨m, hm, by simp [hid]⟩
    obtain ⟨m', hm'⟩ := Option.isSome_iff_exists.mp hsome
    refine ⟨m', List.mem_of_find?_eq_some hm', ?_⟩
    simp [refreshPrev, hm']

/-- the hypotheses matter, and the stale-copy mode is where: a member whose energy went UP between two reductions
(not a mystic solver: C04) is still reported, with its old energy, by the pickling-map reduction - and correctly
replaced by the in-process one -/
example :
    let a : Member Nat Nat := ⟨1, 0, 1, 0, 0⟩
    let a' : Member Nat Nat := ⟨5, 0, 2, 1, 0⟩
    let b : Member Nat Nat := ⟨3, 7, 1, 0, 1⟩
    let view := fun (l : List (Option (Member Nat Nat))) => l.map fun r => r.map fun m => (m.id, m.bestE)
    view (reduceSeq false none [[a, b], [a', b]]) = [some (0, 1), some (0, 1)] ∧
    view (reduceSeq true none [[a, b], [a', b]]) = [some (0, 1), some (1, 3)] := by
  decide

/-- non-vacuity of `reduce_seq_min`: three reductions over two slots in which the lead changes hands twice (slot 1
leads, slot 0 overtakes, slot 1 overtakes again); both map kinds report the current minimum every time -/
example :
    let mss : List (List (Member Nat Nat)) :=
      [[⟨9, 0, 1, 0, 0⟩, ⟨7, 1, 1, 0, 1⟩], [⟨4, 2, 3, 1, 0⟩, ⟨6, 1, 2, 1, 1⟩], [⟨4, 2, 4, 2, 0⟩, ⟨2, 3, 3, 2, 1⟩]]
    let view := fun (l : List (Option (Member Nat Nat))) => l.map fun r => r.map fun m => (m.id, m.bestE)
    view (reduceSeq true none mss) = [some (1, 7), some (0, 4), some (1, 2)] ∧
    view (reduceSeq false none mss) = view (reduceSeq true none mss) ∧
    view (reduceSeq true none mss) = view (mss.map (updateBest none)) := by
  decide

/-- an ensemble without members has no best solver (`_allSolvers[0]` raises IndexError) -/
theorem update_best_empty : updateBest (X := X) (E := E) none [] = none := rfl

/-- **totals are sums over the members** (`_total_evals = sum(_all_evals)`), whatever the order in which the
members are listed (any schedule of the map), and the reported member's own count is part of the total. -/
theorem totals (ms : List (Member X E)) :
    totalEvals ms = (ms.map (·.evals)).sum ∧ totalIters ms = (ms.map (·.gens)).sum ∧
    (allEvals ms).length = ms.length ∧
    (∀ ms', ms'.Perm ms → totalEvals ms' = totalEvals ms) ∧
    (∀ ms1 ms2, ms = ms1 ++ ms2 → totalEvals ms = totalEvals ms1 + totalEvals ms2) ∧
    (∀ r ∈ ms, r.evals ≤ totalEvals ms) := by
  have e : ∀ l : List (Member X E), totalEvals l = (l.map (·.evals)).sum := by
    intro l; simp [totalEvals, allEvals, List.sum_eq_foldl]
  refine ⟨e ms, by simp [totalIters, allIters, List.sum_eq_foldl], by simp [allEvals], ?_, ?_, ?_⟩
  · intro ms' hp; rw [e, e]; exact (hp.map _).sum_eq
  · intro ms1 ms2 h; rw [e, e, e, h]; simp
  · intro r hr; rw [e]; exact List.single_le_sum (by simp) _ (List.mem_map_of_mem hr)

/-- **member count** (`__init__` l.127-138): `npts` members for Buckshot/Sparsity, `nbins` for an integer `nbins`,
the product of the tuple for a tuple `nbins`. -/
theorem member_count (n : Nat) (a : Nat) (l : List Nat) :
    memberCount (.npts n) = some n ∧ memberCount (.nbinsInt n) = some n ∧
    memberCount (.nbinsTuple (a :: l)) = some (a :: l).prod := by
  refine ⟨rfl, rfl, ?_⟩
  simp only [memberCount, Option.some.injEq]
  rw [List.prod_cons, foldl_mul_start]

/-- **every member carries the ensemble's configuration** (`__init_allSolvers`): after initialisation there are
exactly as many members as slots; every slot that was empty holds a copy of the nested solver configured with the
ensemble's ranges / limits / termination / constraints / penalty / reducer / objective, with `id = index + at`;
members that already existed are kept untouched. -/
theorem member_inherits {C : Type} (cfg : Cfg C) (at_ : Nat) (slots : List (Option (Slot C))) :
    (initSlots cfg at_ 0 slots).length = slots.length ∧
    (∀ i : Nat, slots[i]? = some none → (initSlots cfg at_ 0 slots)[i]? = some (⟨cfg, i + at_⟩ : Slot C)) ∧
    (∀ (i : Nat) (s : Slot C), slots[i]? = some (some s) → (initSlots cfg at_ 0 slots)[i]? = some s) := by
  have key : ∀ (slots : List (Option (Slot C))) (i0 : Nat),
      (initSlots cfg at_ i0 slots).length = slots.length ∧
      (∀ i : Nat, slots[i]? = some none → (initSlots cfg at_ i0 slots)[i]? = some (⟨cfg, i0 + i + at_⟩ : Slot C)) ∧
      (∀ (i : Nat) (s : Slot C), slots[i]? = some (some s) → (initSlots cfg at_ i0 slots)[i]? = some s) := by
    intro slots
    induction slots with
    | nil => intro i0; simp [initSlots]
    | cons s rest ih =>
      intro i0
      obtain ⟨h1, h2, h3⟩ := ih (i0 + 1)
      cases s with
      | none =>
        refine ⟨by simp [initSlots, h1], ?_, ?_⟩
        · intro i hi
          cases i with
          | zero => simp [initSlots]
          | succ i =>
            simp only [List.getElem?_cons_succ] at hi
            simp only [initSlots, List.getElem?_cons_succ, h2 i hi]
            congr 2; omega
        · intro i s' hi
          cases i with
          | zero => simp at hi
          | succ i =>
            simp only [List.getElem?_cons_succ] at hi
            simp only [initSlots, List.getElem?_cons_succ, h3 i s' hi]
      | some s0 =>
        refine ⟨by simp [initSlots, h1], ?_, ?_⟩
        · intro i hi
          cases i with
          | zero => simp at hi
          | succ i =>
            simp only [List.getElem?_cons_succ] at hi
            simp only [initSlots, List.getElem?_cons_succ, h2 i hi]
            congr 2; omega
        · intro i s' hi
          cases i with
          | zero => simp at hi; simp [initSlots, hi]
          | succ i =>
            simp only [List.getElem?_cons_succ] at hi
            simp only [initSlots, List.getElem?_cons_succ, h3 i s' hi]
  obtain ⟨h1, h2, h3⟩ := key slots 0
  exact ⟨h1, fun i hi => by simpa using h2 i hi, h3⟩

/-- non-vacuity: three members, two of them tied at the minimum with different solutions: the LAST tied one wins,
the total is the sum. -/
example :
    let ms : List (Member (List Nat) Nat) := [⟨3, [1, 2], 5, 2, 0⟩, ⟨1, [0, 0], 7, 3, 1⟩, ⟨1, [9, 9], 2, 1, 2⟩, ⟨2, [3], 1, 1, 3⟩]
    (updateBest none ms).map (·.id) = some 2 ∧ totalEvals ms = 15 := by decide

end Book

/-! ## the nested solver is a template: members are fresh copies -/
section Template
variable {S : Type}

/-- **every empty slot receives a fresh copy of the template** (`__init_allSolvers` l.413-424 with object identity):
the address in an empty slot was not allocated before (it is neither the configured nested solver handed to
`SetNestedSolver` nor any existing member), its state is the template's with `id = index + at` set on the COPY;
occupied slots are kept and no existing object - in particular the template - is changed. -/
theorem init_members_fresh (setId : S → Nat → S) (t at_ : Nat) (slots : List (Option Nat)) (h : Store S) (ht : t < h.next) :
    (initMembers setId t at_ 0 h slots).2.length = slots.length ∧
    (∀ a, a < h.next → (initMembers setId t at_ 0 h slots).1.get a = h.get a) ∧
    (∀ k : Nat, slots[k]? = some none → ∃ a, (initMembers setId t at_ 0 h slots).2[k]? = some a ∧ h.next ≤ a ∧ a ≠ t ∧
        (initMembers setId t at_ 0 h slots).1.get a = setId (h.get t) (k + at_)) ∧
    (∀ (k a : Nat), slots[k]? = some (some a) → (initMembers setId t at_ 0 h slots).2[k]? = some a) := by
  obtain ⟨a1, _, a3, a4, a5⟩ := initMembers_general setId t at_ slots 0 h ht
  refine ⟨a1, a3, ?_, a5⟩
  intro k hk
  obtain ⟨a, b1, b2, _, b4⟩ := a4 k hk
  exact ⟨a, b1, b2, by omega, by simpa using b4⟩

/-- **the members of a new ensemble are `n` distinct fresh copies, and member `k` ends as the nested solver run from
the TEMPLATE's state** (`run k` = whatever the nested solver does for starting point `k`: arbitrary). -/
theorem members_fresh_copies (setId : S → Nat → S) (run : Nat → S → S) (t at_ n : Nat) (h : Store S) (ht : t < h.next) :
    (solveNew setId run t at_ n h).2 = List.range' h.next n ∧
    (solveNew setId run t at_ n h).2.Nodup ∧ t ∉ (solveNew setId run t at_ n h).2 ∧
    (∀ k, k < n → (solveNew setId run t at_ n h).1.get (h.next + k) = run k (setId (h.get t) (k + at_))) := by
  obtain ⟨a1, _, _, a4⟩ := solveNew_spec setId run t at_ n h ht
  refine ⟨a1, by rw [a1]; exact List.nodup_range', ?_, a4⟩
  rw [a1]
  simp only [List.mem_range'_1, not_and, not_lt]
  intro hh; omega

/-- **the template is never advanced**: a solve of a new ensemble built on the nested solver at address `t` leaves `t`
and every other object that existed before (e.g. the members of another ensemble) exactly as it was - for ANY
behaviour `run` of the nested solvers, any member count and any id offset. -/
theorem template_untouched (setId : S → Nat → S) (run : Nat → S → S) (t at_ n : Nat) (h : Store S) (ht : t < h.next) :
    (solveNew setId run t at_ n h).1.get t = h.get t ∧
    ∀ a, a < h.next → (solveNew setId run t at_ n h).1.get a = h.get a :=
  ⟨(solveNew_spec setId run t at_ n h ht).2.2.1 t ht, (solveNew_spec setId run t at_ n h ht).2.2.1⟩

/-- **two ensembles built from one template are independent**: after ensemble 1 (any kind / count / nested-solver
behaviour) has been solved, a second ensemble built on the SAME configured instance ends with exactly the member
states it would have had if ensemble 1 had never existed; it does not disturb the members of ensemble 1; the
two member sets are disjoint and the template is still untouched. -/
theorem ensembles_independent (setId1 setId2 : S → Nat → S) (run1 run2 : Nat → S → S) (t at1 at2 n1 n2 : Nat)
    (h : Store S) (ht : t < h.next) :
    (solveNew setId2 run2 t at2 n2 (solveNew setId1 run1 t at1 n1 h).1).1.get t = h.get t ∧
    (solveNew setId2 run2 t at2 n2 (solveNew setId1 run1 t at1 n1 h).1).2.map
        (solveNew setId2 run2 t at2 n2 (solveNew setId1 run1 t at1 n1 h).1).1.get
      = (solveNew setId2 run2 t at2 n2 h).2.map (solveNew setId2 run2 t at2 n2 h).1.get ∧
    (∀ a ∈ (solveNew setId1 run1 t at1 n1 h).2,
      (solveNew setId2 run2 t at2 n2 (solveNew setId1 run1 t at1 n1 h).1).1.get a = (solveNew setId1 run1 t at1 n1 h).1.get a) ∧
    (∀ a ∈ (solveNew setId2 run2 t at2 n2 (solveNew setId1 run1 t at1 n1 h).1).2,
      a ∉ (solveNew setId1 run1 t at1 n1 h).2 ∧ a ≠ t) := by
  obtain ⟨a1, a2, a3, a4⟩ := solveNew_spec setId1 run1 t at1 n1 h ht
  have ht1 : t < (solveNew setId1 run1 t at1 n1 h).1.next := by omega
  obtain ⟨b1, b2, b3, b4⟩ := solveNew_spec setId2 run2 t at2 n2 (solveNew setId1 run1 t at1 n1 h).1 ht1
  obtain ⟨c1, c2, c3, c4⟩ := solveNew_spec setId2 run2 t at2 n2 h ht
  refine ⟨by rw [b3 t ht1, a3 t ht], ?_, ?_, ?_⟩
  · rw [b1, c1, List.range'_eq_map_range, List.range'_eq_map_range, List.map_map, List.map_map]
    apply List.map_congr_left
    intro k hk
    have hk' : k < n2 := by simpa using hk
    simp only [Function.comp]
    rw [b4 k hk', c4 k hk', a3 t ht]
  · intro a ha
    rw [a1] at ha
    simp only [List.mem_range'_1] at ha
    exact b3 a (by omega)
  · intro a ha
    rw [b1] at ha
    simp only [List.mem_range'_1] at ha
    rw [a1]
    simp only [List.mem_range'_1, not_and, not_lt]
    exact ⟨fun _ => by omega, by omega⟩

/-- non-vacuity: a template with counter 0 at address 0; ensemble 1 (2 members) and ensemble 2 (3 members) advance their
own members only (`run k` adds `10 + k`); the template still reads 0 and the five member addresses are 1..5. -/
example :
    let h0 : Store Nat := ⟨fun _ => 0, 1⟩
    let r1 := solveNew (fun s _ => s) (fun k s => s + 10 + k) 0 0 2 h0
    let r2 := solveNew (fun s _ => s) (fun k s => s + 20 + k) 0 0 3 r1.1
    r1.2 = [1, 2] ∧ r2.2 = [3, 4, 5] ∧ r2.1.get 0 = 0 ∧ (r1.2 ++ r2.2).map r2.1.get = [10, 11, 20, 21, 22] := by decide

end Template


/-! ## whole ensemble runs: the members are closed loops of the solver model S (Model/EnsembleRun.lean)

`nd : Nested P S X E` is ANY nested solver type (its algorithm started at a point, its fresh state, how the best is read
off the state), `c0` the control state of a fresh copy of the configured nested solver (the ensemble's limits), `pts`
the starting points, `fuel` the bound on `Step` calls per member.  Everything below holds for every number of members,
all starting points, every termination condition and every limit setting. -/
section Runs
open MysticVerif.Solver MysticVerif.Closed
variable {P S X E : Type}

/-- **there are exactly as many members as starting points, slot `j` holds the run from starting point `j` with
`id = j + at`, and `_all_bestEnergy`, `_all_bestSolution`, `_all_evals`, `_all_iters` are the members' own values in
member order** (run-to-completion mode) -/
theorem ensemble_members_in_order [LE E] [DecidableLE E] (nd : Nested P S X E) (fuel : Nat) (c0 : Ctl) (at_ : Nat)
    (pts : List P) :
    (ensembleSolve nd fuel c0 at_ pts).members.length = pts.length ∧
    (∀ j, (ensembleSolve nd fuel c0 at_ pts).members[j]? =
      pts[j]?.map fun p => memberOf nd (memberRun nd fuel c0 p).ctl (memberRun nd fuel c0 p).st (j + at_)) ∧
    (ensembleSolve nd fuel c0 at_ pts).allE = pts.map (fun p => nd.bestE (memberRun nd fuel c0 p).st) ∧
    (ensembleSolve nd fuel c0 at_ pts).allX = pts.map (fun p => nd.bestX (memberRun nd fuel c0 p).st) ∧
    (ensembleSolve nd fuel c0 at_ pts).allEvals = pts.map (fun p => (memberRun nd fuel c0 p).ctl.evals) ∧
    (ensembleSolve nd fuel c0 at_ pts).allIters = pts.map (fun p => (memberRun nd fuel c0 p).ctl.gens) := by
  refine ⟨solveMembers_length nd fuel c0 at_ pts 0, ?_, ?_, ?_, ?_, ?_⟩
  · intro j
    have := solveMembers_get nd fuel c0 at_ pts 0 j
    simpa [ensembleSolve, report] using this
  · exact solveMembers_bestE nd fuel c0 at_ pts 0
  · exact solveMembers_bestX nd fuel c0 at_ pts 0
  · exact solveMembers_evals nd fuel c0 at_ pts 0
  · exact solveMembers_gens nd fuel c0 at_ pts 0

/-- **the total evaluation count is the number of calls made to the user's cost**: for every nested solver whose
evaluation log only grows on the states a run reaches (`I`), `_total_evals` is the sum of the members'
evaluation-log lengths and `_all_evals[j]` is the length of member `j`'s own log - each record of a log IS one call
of the cost (`Obj.evalB`, C01/C04).  Holds wherever each member stops. -/
theorem ensemble_total_is_cost_calls [LE E] [DecidableLE E] (nd : Nested P S X E) (fuel : Nat) (c0 : Ctl) (at_ : Nat)
    (pts : List P) (I : P → S → Nat → Prop) (h0 : ∀ p, I p nd.init 0)
    (hI : ∀ p s k, I p s k → I p ((nd.alg p).step s k) (k + 1))
    (hmono : ∀ p s k, I p s k → (nd.alg p).nlog s ≤ (nd.alg p).nlog ((nd.alg p).step s k))
    (hc : c0.evals = 0) (hl : ∀ p, (nd.alg p).nlog nd.init = 0) :
    (ensembleSolve nd fuel c0 at_ pts).allEvals = pts.map (fun p => (nd.alg p).nlog (memberRun nd fuel c0 p).st) ∧
    (ensembleSolve nd fuel c0 at_ pts).total = (pts.map (fun p => (nd.alg p).nlog (memberRun nd fuel c0 p).st)).sum := by
  have hm : ∀ p, (memberRun nd fuel c0 p).ctl.evals = (nd.alg p).nlog (memberRun nd fuel c0 p).st := by
    intro p
    have := solve_evals_eq_log_inv (nd.alg p) (I p) (hI p) (hmono p) fuel c0 nd.init 0 0 (h0 p)
    rw [hl p, hc] at this
    simpa [memberRun] using this
  have ha : (ensembleSolve nd fuel c0 at_ pts).allEvals = pts.map (fun p => (nd.alg p).nlog (memberRun nd fuel c0 p).st) := by
    rw [(ensemble_members_in_order nd fuel c0 at_ pts).2.2.2.2.1]
    exact List.map_congr_left fun p _ => hm p
  refine ⟨ha, ?_⟩
  have ht : (ensembleSolve nd fuel c0 at_ pts).total = ((ensembleSolve nd fuel c0 at_ pts).allEvals).foldl (· + ·) 0 := rfl
  rw [ht, ha, foldl_add_start]
  simp

/-- **the reported best energy / solution are those of ONE member - the run from one of the starting points - and the
energy is the minimum over all members** (every nested solver type, every termination) -/
theorem ensemble_best_is_min_member [LinearOrder E] (nd : Nested P S X E) (fuel : Nat) (c0 : Ctl) (at_ : Nat)
    (pts : List P) (hne : pts ≠ []) :
    ∃ r j p, (ensembleSolve nd fuel c0 at_ pts).best = some r ∧ pts[j]? = some p ∧
      r = memberOf nd (memberRun nd fuel c0 p).ctl (memberRun nd fuel c0 p).st (j + at_) ∧
      ∀ q ∈ pts, r.bestE ≤ nd.bestE (memberRun nd fuel c0 q).st := by
  have hlen := solveMembers_length nd fuel c0 at_ pts 0
  have hne' : solveMembers nd fuel c0 at_ 0 pts ≠ [] := by
    intro h; rw [h] at hlen; exact hne (List.length_eq_zero_iff.mp hlen.symm)
  obtain ⟨r, hr, hmem, hle⟩ := update_best_min (solveMembers nd fuel c0 at_ 0 pts) hne'
  obtain ⟨j, hj, hget⟩ := List.getElem_of_mem hmem
  have hg := solveMembers_get nd fuel c0 at_ pts 0 j
  rw [List.getElem?_eq_getElem hj, hget] at hg
  cases hp : pts[j]? with
  | none => rw [hp] at hg; simp at hg
  | some p =>
    rw [hp] at hg
    simp only [Option.map_some, Option.some.injEq, Nat.zero_add] at hg
    refine ⟨r, j, p, hr, hp, hg, ?_⟩
    intro q hq
    obtain ⟨i, hi, hqi⟩ := List.getElem_of_mem hq
    have hg2 := solveMembers_get nd fuel c0 at_ pts 0 i
    rw [List.getElem?_eq_getElem hi, hqi] at hg2
    simp only [Option.map_some] at hg2
    have := hle _ (List.mem_of_getElem? hg2)
    simpa [memberOf] using this

/-- **each member is subject to the ensemble's limits and termination, and its stop message is true**: a member
that reports `EvaluationLimits` has really reached a limit with ITS OWN counters, one that reports a signal exit was
asked to (C05 `solve_msg_truthful` for every member of the ensemble) -/
theorem ensemble_member_stops_truthfully (nd : Nested P S X E) (fuel : Nat) (c0 : Ctl) (p : P) (m : Msg)
    (h : (memberRun nd fuel c0 p).msg = some m) :
    (m = .lim → (memberRun nd fuel c0 p).ctl.maxfun.reached (memberRun nd fuel c0 p).ctl.evals = true ∨
                (memberRun nd fuel c0 p).ctl.maxiter.reached (memberRun nd fuel c0 p).ctl.gens = true) ∧
    (m = .sig → (memberRun nd fuel c0 p).ctl.earlyExit = true) :=
  Closed.solve_msg_truthful (nd.alg p) fuel c0 nd.init 0 0 m h

/-! ### Nelder-Mead members (the ensembles' default nested solver): no hypothesis left -/
section NMRuns
variable {R : Type} [Add R] [Sub R] [Mul R] [Div R] [Neg R] [LinearOrder R] [BEq R] [OfNat R 0] [OfNat R 2]

/-- **ensembles of Nelder-Mead solvers: `_total_evals` = number of calls of the user's cost**, for every objective
(cost, penalty, constraints, ranges), coefficients, termination condition tree, limits, number of members and starting
points: the total is the sum of the members' evaluation-log lengths and `_all_evals` lists them in member order. -/
theorem nm_ensemble_total_is_cost_calls (o : Obj (Pt R) R) (coef : Coef R) (st clip0 mkVal : Pt R → Pt R)
    (cond : Term.Cond R) (fuel : Nat) (c0 : Ctl) (at_ : Nat) (pts : List (Pt R)) (hc : c0.evals = 0) :
    (ensembleSolve (nmNested o coef st clip0 mkVal cond) fuel c0 at_ pts).allEvals =
      pts.map (fun p => (memberRun (nmNested o coef st clip0 mkVal cond) fuel c0 p).st.log.length) ∧
    (ensembleSolve (nmNested o coef st clip0 mkVal cond) fuel c0 at_ pts).total =
      (pts.map (fun p => (memberRun (nmNested o coef st clip0 mkVal cond) fuel c0 p).st.log.length)).sum :=
  ensemble_total_is_cost_calls (nmNested o coef st clip0 mkVal cond) fuel c0 at_ pts (fun _ => nmFresh)
    (fun _ => by intro _; rfl)
    (fun p s k h => nmAlg_fresh o coef st clip0 mkVal cond p s k h)
    (fun p s k h => nmAlg_mono o coef st clip0 mkVal cond p s k h) hc (fun _ => rfl)

end NMRuns

/-! ### from the configuration to the result -/
section ChainThm
variable {K : Type} [Field K] [LinearOrder K] [IsStrictOrderedRing K] [LE E] [DecidableLE E]

/-- **a lattice ensemble has exactly `prod(nbins)` members and member `j` is the run started at the centre of grid cell
`j`** (cells in lexicographic order): `LatticeSolver._InitialPoints` composed with the map of `_solve` -/
theorem lattice_ensemble_members (nd : Nested (List K) S X E) (fuel : Nat) (c0 : Ctl) (at_ : Nat) (pf : Bool) (dim : Nat)
    (lower upper : List K) (nbins : List Nat) (r : EnsOut X E)
    (h : latticeEnsembleSolve nd fuel c0 at_ pf dim lower upper nbins = .ok r) (hpos : ∀ n ∈ nbins, 0 < n)
    (hlen : nbins.length = dim) :
    ∃ bins : List (List K), bins.length = dim ∧
      (∀ k, k < dim → ∃ lo hi n, lower[k]? = some lo ∧ upper[k]? = some hi ∧ nbins[k]? = some n ∧
        bins[k]? = some (latticeBin lo hi n)) ∧
      r.members.length = nbins.prod ∧
      ∀ j, r.members[j]? = (cartesianLex bins)[j]?.map fun p =>
        memberOf nd (memberRun nd fuel c0 p).ctl (memberRun nd fuel c0 p).st (j + at_) := by
  unfold latticeEnsembleSolve at h
  cases hp : latticePoints pf dim lower upper nbins with
  | error e => rw [hp] at h; cases h
  | ok pts =>
    rw [hp] at h
    simp only [Except.ok.injEq] at h
    obtain ⟨bins, hb1, hb2, hb3, _, hb5, _⟩ := lattice_points_spec pf dim lower upper nbins pts hp hpos hlen
    have ho := ensemble_members_in_order nd fuel c0 at_ pts
    rw [h] at ho
    refine ⟨bins, hb1, hb2, by rw [ho.1, hb5], ?_⟩
    intro j
    rw [ho.2.1 j, hb3]

end ChainThm

/-! ### step-wise mode (`Step()` loops, `Solve(step=True)`) -/

/-- **`_Step`'s bookkeeping of `_allSolvers`**: any number of ensemble Steps keeps the number of members and every
member in its own slot with its own starting point (`__update_allSolvers` stores result `i` in slot `i`), and member
`i` has had exactly `n` calls of its own `Step()` -/
theorem ens_steps_keep_slots (nd : Nested P S X E) (n : Nat) (ms : List (P × MState S)) :
    (ensSteps nd n ms).length = ms.length ∧ (ensSteps nd n ms).map Prod.fst = ms.map Prod.fst ∧
    ∀ i : Nat, (ensSteps nd n ms)[i]? = ms[i]?.map fun (pm : P × MState S) => (pm.1, memberSteps (nd.alg pm.1) n pm.2) := by
  rw [ensSteps_eq_map]
  refine ⟨by simp, by simp [List.map_map, Function.comp_def], fun i => by simp⟩

/-- **a finished member is not advanced again**: once a member's `Step()` has returned a message (solver other than
Powell, non-empty step monitor), every later ensemble Step leaves its algorithm state, its iteration count, its
counters (`evaluations`, `generations`, step records) and its message as they are -/
theorem finished_member_not_advanced (a : Alg S) (m : MState S) (msg : Msg) (hp : m.ctl.powell = false)
    (hmsg : (memberStep a m).msg = some msg) (hn : (memberStep a m).ctl.nstep ≠ 0) (j : Nat) :
    (memberSteps a j (memberStep a m)).st = (memberStep a m).st ∧
    (memberSteps a j (memberStep a m)).k = (memberStep a m).k ∧
    (memberSteps a j (memberStep a m)).ctl.evals = (memberStep a m).ctl.evals ∧
    (memberSteps a j (memberStep a m)).ctl.gens = (memberStep a m).ctl.gens ∧
    (memberSteps a j (memberStep a m)).ctl.nstep = (memberStep a m).ctl.nstep ∧
    (1 ≤ j → (memberSteps a j (memberStep a m)).msg = some msg) := by
  have hs := stopped_after_message a m msg hp hmsg hn
  obtain ⟨_, h2, h3, h4, h5⟩ := stopped_memberSteps a msg j (memberStep a m) hs
  have e1 : (relive (memberSteps a j (memberStep a m)).ctl).evals = (relive (memberStep a m).ctl).evals := congrArg Ctl.evals h4
  have e2 : (relive (memberSteps a j (memberStep a m)).ctl).gens = (relive (memberStep a m).ctl).gens := congrArg Ctl.gens h4
  have e3 : (relive (memberSteps a j (memberStep a m)).ctl).nstep = (relive (memberStep a m).ctl).nstep := congrArg Ctl.nstep h4
  exact ⟨h2, h3, e1, e2, e3, h5⟩

/-- one member: `n` calls of `Step()` leave what `Solve()` leaves, once `n` covers the calls `Solve()` makes -/
theorem member_steps_eq_run (a : Alg S) (c0 : Ctl) (s0 : S) (fuel n : Nat) (hp : c0.powell = false)
    (hmsg : (solve a fuel c0 s0 0 0).msg.isSome = true) (hn : (solve a fuel c0 s0 0 0).ctl.nstep ≠ 0)
    (hge : (solve a fuel c0 s0 0 0).steps ≤ n) :
    (memberSteps a n { ctl := c0, st := s0, k := 0, msg := none }).st = (solve a fuel c0 s0 0 0).st ∧
    (memberSteps a n { ctl := c0, st := s0, k := 0, msg := none }).ctl.evals = (solve a fuel c0 s0 0 0).ctl.evals ∧
    (memberSteps a n { ctl := c0, st := s0, k := 0, msg := none }).ctl.gens = (solve a fuel c0 s0 0 0).ctl.gens ∧
    (memberSteps a n { ctl := c0, st := s0, k := 0, msg := none }).msg = (solve a fuel c0 s0 0 0).msg := by
  obtain ⟨j, hj1, _, h1, h2, h3, h4, _, m', h6, h7⟩ :=
    solve_eq_memberSteps a fuel { ctl := c0, st := s0, k := 0, msg := none } 0 hmsg
  simp only at h1 h2 h3 h4 h7
  obtain ⟨msg, hmsg'⟩ := Option.isSome_iff_exists.mp hmsg
  have hst : Stopped a (memberSteps a j { ctl := c0, st := s0, k := 0, msg := none }) msg := by
    rw [h6]
    apply stopped_after_message a m' msg (by rw [h7]; exact hp)
    · rw [← h6, h4]; exact hmsg'
    · rw [← h6, h2]; exact hn
  have hnj : n = j + (n - j) := by omega
  rw [hnj, memberSteps_add]
  obtain ⟨_, i2, _, i4, i5⟩ := stopped_memberSteps a msg (n - j) _ hst
  refine ⟨by rw [i2, h3], ?_, ?_, ?_⟩
  · rw [← h2]
    have e1 : (relive (memberSteps a (n - j) (memberSteps a j { ctl := c0, st := s0, k := 0, msg := none })).ctl).evals =
        (relive (memberSteps a j { ctl := c0, st := s0, k := 0, msg := none }).ctl).evals := congrArg Ctl.evals i4
    exact e1
  · rw [← h2]
    have e2 : (relive (memberSteps a (n - j) (memberSteps a j { ctl := c0, st := s0, k := 0, msg := none })).ctl).gens =
        (relive (memberSteps a j { ctl := c0, st := s0, k := 0, msg := none }).ctl).gens := congrArg Ctl.gens i4
    exact e2
  · rcases Nat.eq_zero_or_pos (n - j) with hz | hz
    · rw [hz]; simp only [memberSteps]; exact h4
    · rw [i5 hz, hmsg']

/-- **step-wise mode = run-to-completion mode** (deterministic members, every nested solver but Powell): `n` ensemble
`Step()`s - each of which calls `Step()` on EVERY member, finished or not - leave exactly the members that one
`Solve()` in run-to-completion mode leaves (result, counters, ids, in the same slots), as soon as `n` covers the
slowest member; hence the same report: best member, `_all_*`, totals.  (Each member stops within `fuel` calls and has
written a step record: both are facts about the member's own run, true of every real solver run that returns.) -/
theorem step_mode_eq_solve [LE E] [DecidableLE E] (nd : Nested P S X E) (fuel : Nat) (c0 : Ctl) (at_ : Nat) (pts : List P)
    (n : Nat) (hp : c0.powell = false)
    (hmsg : ∀ p ∈ pts, (memberRun nd fuel c0 p).msg.isSome = true)
    (hn : ∀ p ∈ pts, (memberRun nd fuel c0 p).ctl.nstep ≠ 0)
    (hge : ∀ p ∈ pts, (memberRun nd fuel c0 p).steps ≤ n) :
    viewMembers nd at_ 0 (ensSteps nd n (newMembers nd c0 pts)) = solveMembers nd fuel c0 at_ 0 pts ∧
    report (viewMembers nd at_ 0 (ensSteps nd n (newMembers nd c0 pts))) = ensembleSolve nd fuel c0 at_ pts := by
  have key : viewMembers nd at_ 0 (ensSteps nd n (newMembers nd c0 pts)) = solveMembers nd fuel c0 at_ 0 pts := by
    rw [viewMembers_eq_map, solveMembers_eq_map, ensSteps_eq_map, newMembers, List.map_map, List.zipIdx_map, List.map_map]
    apply List.map_congr_left
    intro q hq
    have hqm : q.1 ∈ pts := by
      have := List.mem_zipIdx hq
      have h2 := this.2.2
      simp only [Nat.sub_zero] at h2
      rw [h2]; exact List.getElem_mem _
    obtain ⟨e1, e2, e3, _⟩ := member_steps_eq_run (nd.alg q.1) c0 nd.init fuel n hp (hmsg _ hqm) (hn _ hqm) (hge _ hqm)
    simp only [Function.comp, Prod.map, id, memberOf, memberRun]
    rw [e1, e2, e3]
  exact ⟨key, by rw [key]; rfl⟩

/-! non-vacuity: three countdown members (start value = energy, one unit per iteration, two cost calls per iteration,
stop at 0 or after 3 generations); the ensemble reports the member that reaches 0, totals 19 calls; 4 ensemble Steps
leave the same members as the run-to-completion solve, 2 Steps do not -/

def toyNested : Nested Nat (Nat × Nat) Nat Nat :=
  { alg := fun p => { step := fun s k => if k = 0 then (p, s.2 + 1) else (s.1 - 1, s.2 + 2), nlog := fun s => s.2,
                      nrec := fun s => s.2, term := fun s _ => s.1 == 0 },
    init := (0, 0), bestE := fun s => s.1, bestX := fun s => s.1 * 10 }

def toyC0 : Ctl := { maxiter := .val 3, maxfun := .val 100 }

example : (ensembleSolve toyNested 10 toyC0 0 [5, 2, 7]).members.map (fun m => (m.bestE, m.bestX, m.evals, m.gens, m.id))
      = [(2, 20, 7, 3, 0), (0, 0, 5, 2, 1), (4, 40, 7, 3, 2)] ∧
    (ensembleSolve toyNested 10 toyC0 0 [5, 2, 7]).best.map (fun m => (m.bestE, m.id)) = some (0, 1) ∧
    (ensembleSolve toyNested 10 toyC0 0 [5, 2, 7]).total = 19 := by decide

example : toyC0.powell = false ∧ (∀ p ∈ [5, 2, 7], (memberRun toyNested 10 toyC0 p).msg.isSome = true) ∧
    (∀ p ∈ [5, 2, 7], (memberRun toyNested 10 toyC0 p).ctl.nstep ≠ 0) ∧
    (∀ p ∈ [5, 2, 7], (memberRun toyNested 10 toyC0 p).steps ≤ 4) := by decide

def toyView (ms : List (Member Nat Nat)) : List (Nat × Nat × Nat × Nat × Nat) :=
  ms.map fun m => (m.bestE, m.bestX, m.evals, m.gens, m.id)

example : toyView (viewMembers toyNested 0 0 (ensSteps toyNested 4 (newMembers toyNested toyC0 [5, 2, 7])))
      = toyView (solveMembers toyNested 10 toyC0 0 0 [5, 2, 7]) ∧
    toyView (viewMembers toyNested 0 0 (ensSteps toyNested 2 (newMembers toyNested toyC0 [5, 2, 7])))
      ≠ toyView (solveMembers toyNested 10 toyC0 0 0 [5, 2, 7]) ∧
    (ensSolveStep toyNested 10 (newMembers toyNested toyC0 [5, 2, 7]) 0).2 = 4 := by decide

/-! ### mixed mode: ensemble `Step`s followed by the ensemble's `Solve()` -/

/-- one member: ANY number of `Step()` calls followed by its `Solve()` leave what one uninterrupted `Solve()` leaves
(state, counters, message) - whether the member was still running when `Solve()` took over or had already stopped -/
theorem member_steps_then_solve (a : Alg S) (c0 : Ctl) (s0 : S) (F fuel n : Nat) (hp : c0.powell = false)
    (hmsg : (solve a F c0 s0 0 0).msg.isSome = true) (hn : (solve a F c0 s0 0 0).ctl.nstep ≠ 0) (hF : F ≤ fuel) :
    (memberContinue a fuel (memberSteps a n { ctl := c0, st := s0, k := 0, msg := none })).st = (solve a F c0 s0 0 0).st ∧
    (memberContinue a fuel (memberSteps a n { ctl := c0, st := s0, k := 0, msg := none })).ctl.evals = (solve a F c0 s0 0 0).ctl.evals ∧
    (memberContinue a fuel (memberSteps a n { ctl := c0, st := s0, k := 0, msg := none })).ctl.gens = (solve a F c0 s0 0 0).ctl.gens ∧
    (memberContinue a fuel (memberSteps a n { ctl := c0, st := s0, k := 0, msg := none })).msg = (solve a F c0 s0 0 0).msg := by
  cases hc : (solve a n c0 s0 0 0).msg with
  | none =>
    obtain ⟨l1, l2, l3⟩ := memberSteps_of_solve_none a n { ctl := c0, st := s0, k := 0, msg := none } 0 hc
    simp only at l1 l2 l3
    have hr := solve_resume' a n fuel c0 s0 0 0 hc
    have hs : solve a (n + fuel) c0 s0 0 0 = solve a F c0 s0 0 0 := by
      have e : n + fuel = F + (n + fuel - F) := by omega
      rw [e]; exact solve_stable' a F _ c0 s0 0 0 hmsg
    obtain ⟨i1, i2, i3, _⟩ := solve_calls_irrelevant a fuel (solve a n c0 s0 0 0).ctl (solve a n c0 s0 0 0).st
      (solve a n c0 s0 0 0).iters 0 (solve a n c0 s0 0 0).steps
    rw [← hr, hs] at i1 i2 i3
    unfold memberContinue
    simp only
    rw [l1, l2, l3]
    exact ⟨i2, by rw [i1], by rw [i1], i3⟩
  | some msg0 =>
    have hc' : (solve a n c0 s0 0 0).msg.isSome = true := by rw [hc]; rfl
    have ho : solve a F c0 s0 0 0 = solve a n c0 s0 0 0 := by
      rcases Nat.le_total F n with h | h
      · have e : n = F + (n - F) := by omega
        rw [e]; exact (solve_stable' a F _ c0 s0 0 0 hmsg).symm
      · have e : F = n + (F - n) := by omega
        rw [e]; exact solve_stable' a n _ c0 s0 0 0 hc'
    obtain ⟨j, _, hj2, h1, _⟩ := solve_eq_memberSteps a n { ctl := c0, st := s0, k := 0, msg := none } 0 hc'
    simp only at h1
    have hge : (solve a F c0 s0 0 0).steps ≤ n + 1 := by rw [ho, h1]; omega
    obtain ⟨e1, e2, e3, e4⟩ := member_steps_eq_run a c0 s0 F (n + 1) hp hmsg hn hge
    have hadd : memberSteps a (n + 1) { ctl := c0, st := s0, k := 0, msg := none } =
        memberStep a (memberSteps a n { ctl := c0, st := s0, k := 0, msg := none }) := by
      rw [memberSteps_add a 1 n]; rfl
    have hsome : (memberStep a (memberSteps a n { ctl := c0, st := s0, k := 0, msg := none })).msg.isSome = true := by
      rw [← hadd, e4]; exact hmsg
    have hF1 : F ≠ 0 := by
      intro h0; rw [h0] at hmsg; simp [solve] at hmsg
    obtain ⟨f', rfl⟩ : ∃ f', fuel = f' + 1 := ⟨fuel - 1, by omega⟩
    rw [memberContinue_of_message a f' _ hsome, ← hadd]
    exact ⟨e1, e2, e3, e4⟩

/-- **mixed mode = run-to-completion mode** (deterministic members, every nested solver but Powell): ANY number `n` of
ensemble `Step()`s followed by the ensemble's `Solve()` - which continues every existing member with its own `Solve()` -
leaves exactly the members that one `Solve()` of a fresh ensemble leaves (result, counters, ids, in the same slots),
hence the same report: the second reduction, over the same members, returns what the only reduction of the plain solve
returns - whoever was reported after the `Step`s. -/
theorem steps_then_solve_eq_solve [LE E] [DecidableLE E] (nd : Nested P S X E) (F fuel : Nat) (c0 : Ctl) (at_ : Nat)
    (pts : List P) (n : Nat) (hp : c0.powell = false) (hF : F ≤ fuel)
    (hmsg : ∀ p ∈ pts, (memberRun nd F c0 p).msg.isSome = true)
    (hn : ∀ p ∈ pts, (memberRun nd F c0 p).ctl.nstep ≠ 0) :
    viewMembers nd at_ 0 (ensStepsThenSolve nd fuel n (newMembers nd c0 pts)) = solveMembers nd F c0 at_ 0 pts ∧
    report (viewMembers nd at_ 0 (ensStepsThenSolve nd fuel n (newMembers nd c0 pts))) = ensembleSolve nd F c0 at_ pts := by
  have key : viewMembers nd at_ 0 (ensStepsThenSolve nd fuel n (newMembers nd c0 pts)) = solveMembers nd F c0 at_ 0 pts := by
    unfold ensStepsThenSolve
    rw [viewMembers_eq_map, solveMembers_eq_map, ensSteps_eq_map, newMembers, List.map_map, List.map_map, List.zipIdx_map,
      List.map_map]
    apply List.map_congr_left
    intro q hq
    have hqm : q.1 ∈ pts := by
      have := List.mem_zipIdx hq
      have h2 := this.2.2
      simp only [Nat.sub_zero] at h2
      rw [h2]; exact List.getElem_mem _
    obtain ⟨e1, e2, e3, _⟩ := member_steps_then_solve (nd.alg q.1) c0 nd.init F fuel n hp (hmsg _ hqm) (hn _ hqm) hF
    simp only [Function.comp, Prod.map, id, memberOf, memberRun]
    rw [e1, e2, e3]
  exact ⟨key, by rw [key]; rfl⟩

/-- non-vacuity (the countdown members above): 1 or 2 ensemble Steps - after which the lead is still with another member -
followed by `Solve()` leave the members of the plain solve, and 6 Steps (everybody has stopped) followed by `Solve()` too -/
example : toyView (viewMembers toyNested 0 0 (ensStepsThenSolve toyNested 10 1 (newMembers toyNested toyC0 [5, 2, 7])))
      = toyView (solveMembers toyNested 10 toyC0 0 0 [5, 2, 7]) ∧
    toyView (viewMembers toyNested 0 0 (ensStepsThenSolve toyNested 10 2 (newMembers toyNested toyC0 [5, 2, 7])))
      = toyView (solveMembers toyNested 10 toyC0 0 0 [5, 2, 7]) ∧
    toyView (viewMembers toyNested 0 0 (ensStepsThenSolve toyNested 10 6 (newMembers toyNested toyC0 [5, 2, 7])))
      = toyView (solveMembers toyNested 10 toyC0 0 0 [5, 2, 7]) := by decide

/-! ### `fillpts` / `SparsitySolver._InitialPoints`: count and range, whatever the optimisation runs return -/
section FillThm
variable {P : Type}

theorem fillLoop_spec (opt : Nat → List P → P) : ∀ (n j : Nat) (pts : List P),
    ∃ new, fillLoop opt n j pts = pts ++ new ∧ new.length = n ∧ ∀ x ∈ new, ∃ i ps, x = opt i ps := by
  intro n
  induction n with
  | zero => intro j pts; exact ⟨[], by simp [fillLoop], rfl, by simp⟩
  | succ n ih =>
    intro j pts
    obtain ⟨new, h1, h2, h3⟩ := ih (j + 1) (pts ++ [opt j pts])
    refine ⟨opt j pts :: new, by simp [fillLoop, h1], by simp [h2], ?_⟩
    intro x hx
    rcases List.mem_cons.mp hx with rfl | hx
    · exact ⟨j, pts, rfl⟩
    · exact h3 x hx

/-- **space-filling points: exactly `npts` points are returned, none of them a legacy data point, each one the result
of one of the optimisation runs** - for every `npts` (0 included: the fixed F31), every legacy data list and whatever
the runs return -/
theorem fillpts_count (opt : Nat → List P → P) (npts : Nat) (data : List P) :
    (fillpts opt npts data).length = npts ∧
    (∃ new, fillLoop opt npts 0 data = data ++ new ∧ fillpts opt npts data = new) ∧
    ∀ x ∈ fillpts opt npts data, ∃ i ps, x = opt i ps := by
  obtain ⟨new, h1, h2, h3⟩ := fillLoop_spec opt npts 0 data
  have e : fillpts opt npts data = new := by
    unfold fillpts
    rw [h1]
    simp [h2]
  exact ⟨by rw [e, h2], ⟨new, h1, e⟩, by rw [e]; exact h3⟩

/-- **space-filling points stay within their ranges**: if every optimisation run returns a point of the box (C02 for
the bounded differential-evolution run `diffev(holes, x0=bounds, bounds=bounds)`), every returned point lies in it -/
theorem fillpts_in_range (opt : Nat → List P → P) (npts : Nat) (data : List P) (inBox : P → Prop)
    (h : ∀ j ps, inBox (opt j ps)) : ∀ x ∈ fillpts opt npts data, inBox x := by
  intro x hx
  obtain ⟨i, ps, rfl⟩ := (fillpts_count opt npts data).2.2 x hx
  exact h i ps

theorem foldl_min_spec {R : Type} [LinearOrder R] : ∀ (ds : List R) (d : R),
    (ds.foldl (fun m x => if x < m then x else m) d ∈ d :: ds) ∧
    ∀ y ∈ d :: ds, ds.foldl (fun m x => if x < m then x else m) d ≤ y := by
  intro ds
  induction ds with
  | nil => intro d; simp
  | cons a as ih =>
    intro d
    simp only [List.foldl_cons]
    obtain ⟨h1, h2⟩ := ih (if a < d then a else d)
    constructor
    · rcases List.mem_cons.mp h1 with h | h
      · rw [h]; split <;> simp
      · simp [h]
    · intro y hy
      have hm : (if a < d then a else d) ≤ a ∧ (if a < d then a else d) ≤ d := by
        split
        · exact ⟨le_refl _, le_of_lt ‹a < d›⟩
        · exact ⟨not_lt.mp ‹¬a < d›, le_refl _⟩
      rcases List.mem_cons.mp hy with rfl | hy
      · exact le_trans (h2 _ (List.mem_cons_self ..)) hm.2
      · rcases List.mem_cons.mp hy with rfl | hy
        · exact le_trans (h2 _ (List.mem_cons_self ..)) hm.1
        · exact h2 y (List.mem_cons_of_mem _ hy)

/-- **the objective handed to the optimiser (`rtol=None`) is minus the distance to the NEAREST collected point**, so
minimising it maximises that distance: a candidate scores at most another's iff it is at least as far from its nearest
point -/
theorem holes_none_maximises_distance {K : Type} [Field K] [LinearOrder K] [IsStrictOrderedRing K] (xs ys : List K)
    (a b : K) (ha : holesNone xs = some a) (hb : holesNone ys = some b) :
    (∃ r ∈ xs, a = -r ∧ ∀ d ∈ xs, r ≤ d) ∧ (∃ r ∈ ys, b = -r ∧ ∀ d ∈ ys, r ≤ d) ∧
    (a ≤ b ↔ ∀ r ∈ xs, (∀ d ∈ xs, r ≤ d) → ∀ t ∈ ys, (∀ d ∈ ys, t ≤ d) → t ≤ r) := by
  have key : ∀ (l : List K) (v : K), holesNone l = some v → ∃ r ∈ l, v = -r ∧ ∀ d ∈ l, r ≤ d := by
    intro l v hv
    cases l with
    | nil => simp [holesNone, minOf] at hv
    | cons d ds =>
      simp only [holesNone, minOf, Option.map_some, Option.some.injEq] at hv
      obtain ⟨h1, h2⟩ := foldl_min_spec ds d
      exact ⟨_, h1, hv.symm, h2⟩
  obtain ⟨r, hr, har, hrmin⟩ := key xs a ha
  obtain ⟨t, ht, hbt, htmin⟩ := key ys b hb
  refine ⟨⟨r, hr, har, hrmin⟩, ⟨t, ht, hbt, htmin⟩, ?_⟩
  rw [har, hbt, neg_le_neg_iff]
  constructor
  · intro h r' hr' hr'min t' ht' ht'min
    have e1 : r' = r := le_antisymm (hr'min r hr) (hrmin r' hr')
    have e2 : t' = t := le_antisymm (ht'min t ht) (htmin t' ht')
    rw [e1, e2]; exact h
  · intro h; exact h r hr hrmin t ht htmin

/-- the code as it is, `rtol` given (l.105-107 `-res if res < rtol else 0.0`): a candidate CLOSER than `rtol` to a
collected point scores strictly LOWER (= better for the minimiser) than one that keeps the distance - the optimiser is
drawn to points just inside the radius, although the docstring promises points "at least rtol away" (observed on the
real code: distances 0.29999999.. for rtol = 0.3; not part of C09's statement, which claims count and range) -/
theorem holes_tol_prefers_points_inside_the_radius :
    holesTol (3 : Int) [2, 7] = some (-2) ∧ holesTol (3 : Int) [5, 7] = some 0 := by decide

/-- non-vacuity: two legacy points, three runs returning 10, 11, 12 -/
example : fillpts (fun j _ => 10 + j) 3 [1, 2] = [10, 11, 12] ∧ fillpts (fun j _ => 10 + j) 0 [1, 2] = [] := by decide

end FillThm

end Runs

/-! ## the one-liners: the ensemble that is run is the one the arguments describe -/
section OnelinerThm
variable {R C : Type}

/-- **the termination a one-liner's `ftol` / `gtol` arguments stand for** (lattice / buckshot / sparsity alike): no
`gtol` - `NormalizedChangeOverGeneration(ftol, 10)`; a non-zero generation count `n` - `NormalizedChangeOverGeneration(ftol, n)`;
a FALSY `gtol` (`None` or `0`, mystic's convention for "no generation count") - the value-to-reach stop
`VTRChangeOverGeneration(ftol)` with its own defaults; and these are the only falsy arguments. -/
theorem oneliner_termination (k : TermConsts R) (ftol : R) :
    onelinerTerm k ftol .absent = .ncog ftol (some 10) k.eta ∧
    onelinerTerm k ftol .none = .vtrcog ftol k.vgtol (some 30) k.vtarget ∧
    onelinerTerm k ftol (.int 0) = .vtrcog ftol k.vgtol (some 30) k.vtarget ∧
    (∀ n : Int, n ≠ 0 → onelinerTerm k ftol (.int n) = .ncog ftol (some n) k.eta) ∧
    (∀ g : GTol, g.truthy = false ↔ g = .none ∨ g = .int 0) := by
  refine ⟨by simp [onelinerTerm, GTol.truthy, GTol.value], by simp [onelinerTerm, GTol.truthy, GTol.value],
    by simp [onelinerTerm, GTol.truthy, GTol.value], ?_, ?_⟩
  · intro n hn
    simp [onelinerTerm, GTol.truthy, GTol.value, hn]
  · intro g
    cases g with
    | absent => simp [GTol.truthy, GTol.value]
    | none => simp [GTol.truthy, GTol.value]
    | int n => simp [GTol.truthy, GTol.value]

/-- **every member of the ensemble a one-liner runs is subject to what the arguments say**: there are exactly
`memberCount first` members (product of the bins / `nbins` / `npts`), member `i` has `id = i + id-argument`, and each
carries the termination `onelinerTerm ftol gtol`, the limits `(maxiter, maxfun)`, the ranges `(unpair(bounds),
tightrange, cliprange)` (none without `bounds`), the `constraints` and the `penalty` of the call. -/
theorem oneliner_members_inherit (k : TermConsts R) (kind : OKind) (kw : Kw R C) (n : Nat)
    (hn : memberCount kw.first = some n) :
    ∃ ms, onelinerMembers k kind kw = some ms ∧ ms.length = n ∧
      ∀ i, i < n → ∃ s, ms[i]? = some s ∧ s.id = i + kw.id.getD 0 ∧
        s.cfg.termination = .term (onelinerTerm k kw.ftol kw.gtol) ∧
        s.cfg.limits = .limits kw.maxiter kw.maxfun ∧
        s.cfg.ranges = .ranges (kw.bounds.map fun b => (b.1, b.2, kw.tight, kw.clip)) ∧
        s.cfg.constraints = .fn kw.constraints ∧ s.cfg.penalty = .fn kw.penalty := by
  obtain ⟨h1, h2, _⟩ := member_inherits (oneliner k kind kw).cfg (oneliner k kind kw).at_ (List.replicate n none)
  refine ⟨initSlots (oneliner k kind kw).cfg (oneliner k kind kw).at_ 0 (List.replicate n none),
    by simp [onelinerMembers, hn], by simpa using h1, ?_⟩
  intro i hi
  have hs := h2 i (by simp [hi])
  exact ⟨_, hs, rfl, rfl, rfl, rfl, rfl, rfl⟩

/-- **the three one-liners differ in the point generator only**: for the same arguments `lattice`, `buckshot` and
`sparsity` hand the same termination, limits, ranges, constraints and penalty to their members, use the same member
count, id offset and distribution; `rtol` reaches the sparsity ensemble only. -/
theorem oneliner_kinds_agree (k : TermConsts R) (k1 k2 : OKind) (kw : Kw R C) :
    (oneliner k k1 kw).cfg = (oneliner k k2 kw).cfg ∧ (oneliner k k1 kw).count = (oneliner k k2 kw).count ∧
    (oneliner k k1 kw).at_ = (oneliner k k2 kw).at_ ∧ (oneliner k k1 kw).dist = (oneliner k k2 kw).dist ∧
    (oneliner k .sparsity kw).rtol = kw.rtol ∧ (k1 ≠ .sparsity → (oneliner k k1 kw).rtol = none) := by
  refine ⟨rfl, rfl, rfl, rfl, rfl, ?_⟩
  intro h
  cases k1 <;> simp_all [oneliner]

/-- non-vacuity: `sparsity(cost, 2, npts=3, ftol=5, gtol=None, maxiter=7, id=4)` - three members with ids 4, 5, 6 under
the value-to-reach stop; the same call with `gtol=2` - under NormalizedChangeOverGeneration(5, 2) -/
example :
    let k : TermConsts Nat := ⟨0, 1, 0⟩
    let kw : GTol → Kw Nat Unit := fun g =>
      { first := .npts 3, ftol := 5, gtol := g, maxiter := some 7, maxfun := none, bounds := none, tight := none, clip := none,
        constraints := none, penalty := none, dist := none, rtol := none, id := some 4 }
    ((onelinerMembers k .sparsity (kw .none)).map fun ms => ms.map (·.id)) = some [4, 5, 6] ∧
    (match onelinerTerm k 5 .none with | .vtrcog 5 1 (some 30) 0 => true | _ => false) = true ∧
    (match onelinerTerm k 5 (.int 2) with | .ncog 5 (some 2) 0 => true | _ => false) = true := by
  decide

end OnelinerThm

end MysticVerif.C09
