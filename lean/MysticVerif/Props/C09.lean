/-
C09 - ensemble solvers return the best member and account for all work; the point generators behind them
enumerate the full Cartesian product / stay within their ranges.  Property theorems only (helper lemmas:
Proofs/Ensemble.lean; model: Model/Ensemble.lean, a transcription of mystic/math/grid.py, mystic/math/samples.py,
mystic/ensemble.py `_InitialPoints`, mystic/abstract_ensemble_solver.py `__update_bestSolver`, `__init_allSolvers`).

`K` is an arbitrary linearly ordered field (bounds, bin centres, sample points), `E` an arbitrary linear order
(energies; "the cost never returns NaN" is this hypothesis), `α`/`X` arbitrary types of grid values / solutions.
The sort keys of `randomly_bin` (`key : Nat → κ`, draw number ↦ `random()`) and the `rand(dim, npts)` matrix of
`_random_samples` are universally quantified: the statements hold for EVERY shuffle / every draw.

Clauses of the property and where they are:
* grid points enumerate the full Cartesian product ............ `gridpts_spec`, `gridpts_count`, `gridpts_empty_bin_witness`
* lattice: bin centres inside their cells and ranges ............ `lattice_bins_centres`, `lattice_points_spec`
* exactly prod(nbins) / npts members .......................... `lattice_points_spec`, `lattice_int_points_count`, `member_count`
* sampled points stay within their ranges ..................... `samples_in_range`, `samplepts_in_range`
* randomly_bin: strided products, product = N for any shuffle .. `strided_prod`, `randomly_bin_spec`, `randomly_bin_none_spec`
* best energy = min over members, solution is that member's .... `update_best_min`, `update_best_last_tie`, `update_best_prev_irrelevant`
* totals = sums over members .................................. `totals`
* every member carries the ensemble's configuration ........... `member_inherits`
Not modelled here (checked on the implementation by the monitor of harness/c09.py only): "total = number of REAL
cost calls", the nested solvers themselves (C01-C05), `copy.deepcopy`, the map, `fillpts` (an optimisation run).
-/
import MysticVerif.Proofs.Ensemble

set_option linter.unusedSectionVars false
set_option linter.unusedSimpArgs false
set_option linter.unusedVariables false

namespace MysticVerif.C09
open MysticVerif.Ens

/-! ## gridpts -/
section Grid
variable {α : Type}

/-- **grid points enumerate the full Cartesian product of the bins, in lexicographic order** (first coordinate
slowest): for every non-empty list of bins in which no bin except possibly the last is empty, `gridpts q` is exactly
`cartesianLex q`; a vector is a grid point iff each coordinate lies in its bin (nothing is missing, nothing extra),
every grid point has one coordinate per bin, and no point is repeated when no bin repeats a value. -/
theorem gridpts_spec (q : List (List α)) (hq : q ≠ []) (h : ∀ b ∈ q.dropLast, b ≠ []) :
    gridpts q = some (cartesianLex q) ∧
    (∀ p, p ∈ cartesianLex q ↔ List.Forall₂ (fun x b => x ∈ b) p q) ∧
    (∀ p ∈ cartesianLex q, p.length = q.length) ∧
    ((∀ b ∈ q, b.Nodup) → (cartesianLex q).Nodup) :=
  ⟨gridpts_eq q hq h, cartesianLex_mem q, cartesianLex_point_length q, cartesianLex_nodup q⟩

/-- **count**: the number of grid points is the product of the bin sizes. -/
theorem gridpts_count (q : List (List α)) (hq : q ≠ []) (h : ∀ b ∈ q.dropLast, b ≠ []) :
    ∃ pts, gridpts q = some pts ∧ pts.length = (q.map List.length).prod := by
  refine ⟨_, gridpts_eq q hq h, ?_⟩
  rw [cartesianLex_length, List.prod_eq_foldr]

/-- `gridpts([])` raises IndexError (`q[-1]`). -/
theorem gridpts_empty_q : gridpts ([] : List (List α)) = none := rfl

/-- **the hypothesis of `gridpts_spec` is needed - the code violates the clause on a degenerate input**
(known finding F30): an empty bin that is not the last one is skipped; `gridpts [[], [1,2]]` returns two
one-coordinate points although the Cartesian product is empty. -/
theorem gridpts_empty_bin_witness :
    gridpts ([[], [1, 2]] : List (List Nat)) = some [[1], [2]] ∧ cartesianLex ([[], [1, 2]] : List (List Nat)) = [] := by
  decide

/-- non-vacuity: the docstring example of grid.py -/
example : gridpts ([[1, 2], [3, 4]] : List (List Nat)) = some [[1, 3], [1, 4], [2, 3], [2, 4]] := by decide
example : ([[1, 2], [3, 4]] : List (List Nat)) ≠ [] ∧ ∀ b ∈ ([[1, 2], [3, 4]] : List (List Nat)).dropLast, b ≠ [] := by decide

end Grid

theorem foldl_mul_start (l : List Nat) (a : Nat) : l.foldl (· * ·) a = a * l.prod := by
  induction l generalizing a with
  | nil => simp
  | cons b l ih => simp [List.foldl_cons, ih, List.prod_cons, Nat.mul_assoc]

/-! ## lattice bin centres, starting points -/
section Lattice
variable {K : Type} [Field K] [LinearOrder K] [IsStrictOrderedRing K]

/-- **lattice bin centres** (ensemble.py l.77-78): for `lo ≤ hi` and `n > 0` bins there are exactly `n` centres; the
`j`-th is `lo + (j + 1/2) (hi - lo)/n`, it is the midpoint of cell `j = [lo + j w, lo + (j+1) w]`, `w = (hi-lo)/n`,
lies inside its own cell, the cell lies inside `[lo, hi]`, and for `lo < hi` the centre is strictly inside its cell
(hence strictly inside the range). -/
theorem lattice_bins_centres (lo hi : K) (n j : Nat) (hj : j < n) (h : lo ≤ hi) :
    (latticeBin lo hi n).length = n ∧
    ∃ c, (latticeBin lo hi n)[j]? = some c ∧ c = lo + ((j : K) + 1 / 2) * ((hi - lo) / (n : K)) ∧
      c = (cellLo lo hi n j + cellHi lo hi n j) / 2 ∧
      cellLo lo hi n j ≤ c ∧ c ≤ cellHi lo hi n j ∧ lo ≤ cellLo lo hi n j ∧ cellHi lo hi n j ≤ hi ∧
      (lo < hi → cellLo lo hi n j < c ∧ c < cellHi lo hi n j) := by
  have f := centre_facts lo hi n j hj h
  exact ⟨latticeBin_length lo hi n, _, latticeBin_get lo hi n j hj h, rfl, f.1, f.2.1, f.2.2.1, f.2.2.2.1, f.2.2.2.2.1,
    f.2.2.2.2.2⟩

/-- the bins `latticeBins` builds: one per dimension, from that dimension's bounds and bin count -/
theorem latticeBins_ok (pf : Bool) (lower upper : List K) (nbins : List Nat) :
    ∀ (d i : Nat) (bins : List (List K)), latticeBins pf lower upper nbins d i = .ok bins →
      bins.length = d ∧ ∀ k, k < d → ∃ lo hi n, lower[i + k]? = some lo ∧ upper[i + k]? = some hi ∧
        nbins[i + k]? = some n ∧ bins[k]? = some (latticeBin lo hi n) := by
  intro d
  induction d with
  | zero => intro i bins h; simp only [latticeBins] at h; cases h; simp
  | succ d ih =>
    intro i bins h
    simp only [latticeBins] at h
    split at h
    · rename_i hi lo n e1 e2 e3
      split at h
      · cases h
      · cases hr : latticeBins pf lower upper nbins d (i + 1) with
        | error e => simp [hr] at h
        | ok rest =>
          simp only [hr] at h
          cases h
          obtain ⟨hl, hk⟩ := ih (i + 1) rest hr
          refine ⟨by simp [hl], ?_⟩
          intro k hkd
          cases k with
          | zero => exact ⟨lo, hi, n, by simpa using e2, by simpa using e1, by simpa using e3, by simp⟩
          | succ k =>
            obtain ⟨lo', hi', n', a1, a2, a3, a4⟩ := hk k (by omega)
            refine ⟨lo', hi', n', ?_, ?_, ?_, by simpa using a4⟩
            · rw [← a1]; congr 1; omega
            · rw [← a2]; congr 1; omega
            · rw [← a3]; congr 1; omega
    · cases h

/-- **lattice starting points** (`LatticeSolver._InitialPoints`, tuple `nbins`): when it returns, with positive bin
counts, the starting points are exactly the Cartesian product (in order) of the per-dimension centre lists - one
starting point per grid cell, each coordinate the centre of a cell of its own dimension - and there are
`prod(nbins)` of them, which is the member count `__init__` allocates for that `nbins` tuple. -/
theorem lattice_points_spec (pf : Bool) (dim : Nat) (lower upper : List K) (nbins : List Nat) (pts : List (List K))
    (h : latticePoints pf dim lower upper nbins = .ok pts) (hpos : ∀ n ∈ nbins, 0 < n) (hlen : nbins.length = dim) :
    ∃ bins : List (List K), bins.length = dim ∧
      (∀ k, k < dim → ∃ lo hi n, lower[k]? = some lo ∧ upper[k]? = some hi ∧ nbins[k]? = some n ∧
        bins[k]? = some (latticeBin lo hi n)) ∧
      pts = cartesianLex bins ∧ (∀ p, p ∈ pts ↔ List.Forall₂ (fun x b => x ∈ b) p bins) ∧
      pts.length = nbins.prod ∧ (0 < dim → memberCount (.nbinsTuple nbins) = some pts.length) := by
  simp only [latticePoints] at h
  cases hb : latticeBins pf lower upper nbins dim 0 with
  | error e => simp [hb] at h
  | ok bins =>
    simp only [hb] at h
    obtain ⟨hl, hk⟩ := latticeBins_ok pf lower upper nbins dim 0 bins hb
    have hk' : ∀ k, k < dim → ∃ lo hi n, lower[k]? = some lo ∧ upper[k]? = some hi ∧ nbins[k]? = some n ∧
        bins[k]? = some (latticeBin lo hi n) := by
      intro k hkd; simpa using hk k hkd
    -- every bin is non-empty, and its size is the bin count
    have hsz : bins.map List.length = nbins := by
      apply List.ext_getElem?
      intro k
      by_cases hkd : k < dim
      · obtain ⟨lo, hi, n, _, _, a3, a4⟩ := hk' k hkd
        simp [List.getElem?_map, a4, a3, latticeBin_length]
      · have h1 : bins.length ≤ k := by omega
        have h2 : nbins.length ≤ k := by omega
        simp [List.getElem?_eq_none, h1, h2]
    have hne : ∀ b ∈ bins, b ≠ [] := by
      intro b hb' hnil
      have : b.length ∈ bins.map List.length := List.mem_map_of_mem hb'
      rw [hsz] at this
      have := hpos _ this
      simp [hnil] at this
    cases hg : gridpts bins with
    | none => simp [hg] at h
    | some g =>
      simp only [hg] at h
      cases h
      have hq : bins ≠ [] := by
        intro e; subst e; simp [gridpts] at hg
      have he := gridpts_eq bins hq (fun b hb' => hne b (List.mem_of_mem_dropLast hb'))
      rw [hg] at he
      cases he
      refine ⟨bins, hl, hk', rfl, cartesianLex_mem bins, ?_, ?_⟩
      · rw [cartesianLex_length, ← List.prod_eq_foldr, hsz]
      · intro hd
        rw [cartesianLex_length, ← List.prod_eq_foldr, hsz]
        cases nbins with
        | nil => simp at hlen; omega
        | cons a l =>
          simp only [memberCount, Option.some.injEq]
          rw [List.prod_cons, foldl_mul_start]

/-- non-vacuity over ℚ-like data is shown on `Nat`-free instances by the driver; here the hypotheses are satisfiable: -/
example : ∀ n ∈ [2, 3], 0 < n := by decide

end Lattice

/-! ## sampled points -/
section Samples
variable {K : Type} [Field K] [LinearOrder K] [IsStrictOrderedRing K]

/-- **samples stay within their range** (samples.py l.36, one entry `u*|ub-lb| + lb`): for `lb ≤ ub` and a draw
`0 ≤ u ≤ 1` the sample is in `[lb, ub]`; for `lb < ub` and `u < 1` (what `rand` returns) it is below `ub`.
Field statement: in binary64 the upper end can be exceeded by rounding (DESIGN 3; counted by the harness). -/
theorem samples_in_range (u lb ub : K) (h : lb ≤ ub) (h0 : 0 ≤ u) (h1 : u ≤ 1) :
    lb ≤ samplePt u lb ub ∧ samplePt u lb ub ≤ ub ∧ (lb < ub → u < 1 → samplePt u lb ub < ub) :=
  ⟨(samplePt_range u lb ub h h0 h1).1, (samplePt_range u lb ub h h0 h1).2, fun hl hu => samplePt_lt u lb ub hl hu⟩

/-- **samplepts**: for a `dim x npts` draw matrix with entries in `[0, 1]` and bounds `lb[i] ≤ ub[i]`, `samplepts`
returns exactly `npts` points of `len(lb)` coordinates, and coordinate `i` of every point lies in `[lb[i], ub[i]]`. -/
theorem samplepts_in_range (lb ub : List K) (npts : Nat) (us pts : List (List K))
    (h : samplepts lb ub npts us = .ok pts) (hrows : ∀ row ∈ us, row.length = npts)
    (hu : ∀ row ∈ us, ∀ t ∈ row, 0 ≤ t ∧ t ≤ 1)
    (hb : ∀ (i : Nat) (l u : K), lb[i]? = some l → ub[i]? = some u → l ≤ u) :
    pts.length = npts ∧ ∀ p ∈ pts, p.length = lb.length ∧
      ∀ (i : Nat) (v : K), p[i]? = some v → ∃ l u, lb[i]? = some l ∧ ub[i]? = some u ∧ l ≤ v ∧ v ≤ u := by
  obtain ⟨hn, he⟩ := samplepts_entries lb ub npts us pts h hrows
  refine ⟨hn, ?_⟩
  intro p hp
  obtain ⟨j, hj⟩ := List.getElem?_of_mem hp
  obtain ⟨hl, hv⟩ := he j p hj
  refine ⟨hl, ?_⟩
  intro i v hiv
  obtain ⟨l, u, t, a1, a2, a3, rfl⟩ := hv i v hiv
  have ht : 0 ≤ t ∧ t ≤ 1 := by
    cases hrow : us[i]? with
    | none => simp [hrow] at a3
    | some row =>
      simp only [hrow, Option.bind_some] at a3
      exact hu row (List.mem_of_getElem? hrow) t (List.mem_of_getElem? a3)
  have := samplePt_range t l u (hb i l u a1 a2) ht.1 ht.2
  exact ⟨l, u, a1, a2, this.1, this.2⟩

end Samples

/-! ## randomly_bin -/
section Bins
variable {κ : Type} [LT κ] [DecidableLT κ]

/-- **strided products** (grid.py l.154-155 `[prod(result[i::dim]) for i in range(dim)]`): for `dim > 0` the `dim`
strided slices partition the list - the product of the `dim` strided products is the product of the whole list. -/
theorem strided_prod (l : List Nat) (d : Nat) (hd : 0 < d) :
    (stridedProducts l d).length = d ∧ (stridedProducts l d).prod = l.prod :=
  ⟨stridedProducts_length l d, stridedProducts_prod l d hd⟩

/-- `sorted(l, key=lambda v: random())` is a permutation of `l`, whatever the keys are. -/
theorem shuffle_perm (key : Nat → κ) (off : Nat) (l : List Nat) : (sortByKeys key off l).Perm l :=
  sortByKeys_perm key off l

/-- the trial division of `randomly_bin` always returns, and the factors multiply to `n` (`n ≥ 1`). -/
theorem factors_spec (n : Nat) (hn : 0 < n) : ∃ fs, factors n = some fs ∧ fs.prod = n := by
  have h := factors_isSome n hn
  cases hf : factors n with
  | none => simp [hf] at h
  | some fs => exact ⟨fs, rfl, factors_prod n fs hf⟩

theorem randomlyBinPass_total (key : Nat → κ) (off N : Nat) (ndim : Option Nat) (ones : Bool) (hN : 0 < N) :
    ∃ o, randomlyBinPass key off N ndim ones = some o := by
  obtain ⟨fs, hf, _⟩ := factors_spec N hN
  unfold randomlyBinPass
  simp only [hf]
  cases ones <;> simp

/-- **randomly_bin, `ndim` given** (what `LatticeSolver` uses for an integer `nbins`): for every `N ≥ 1`,
`ndim ≥ 1`, `ones`, and EVERY stream of sort keys (every shuffle), the call returns exactly `ndim` bins whose
product is `N` (`exact=True`); with `exact=False` the product is `N`, or `N-1` for the documented prime case. -/
theorem randomly_bin_spec (key : Nat → κ) (N d : Nat) (ones exact : Bool) (hN : 0 < N) (hd : 0 < d) :
    ∃ bins draws, randomlyBin key N (some d) ones exact = .ok bins draws ∧ bins.length = d ∧
      (bins.prod = N ∨ (exact = false ∧ 3 < N ∧ bins.prod = N - 1)) ∧ (exact = true → bins.prod = N) := by
  have hnd : (some d : Option Nat) ≠ some 0 := by intro e; cases e; omega
  obtain ⟨o, ho⟩ := randomlyBinPass_total key 0 N (some d) ones hN
  have hs := randomlyBinPass_spec key 0 N (some d) ones o hnd ho
  unfold randomlyBin
  have e0 : ¬ (N = 0) := by omega
  simp only [hnd, if_false, e0, ho]
  by_cases hc : exact = false ∧ 3 < N ∧ o.prime = true
  · obtain ⟨o', ho'⟩ := randomlyBinPass_total key o.draws (N - 1) (some d) ones (by omega)
    have hs' := randomlyBinPass_spec key o.draws (N - 1) (some d) ones o' hnd ho'
    rw [if_pos hc]
    simp only [ho']
    refine ⟨_, _, rfl, hs'.2 d rfl, Or.inr ⟨hc.1, hc.2.1, hs'.1⟩, ?_⟩
    intro he; rw [he] at hc; exact absurd hc.1 (by simp)
  · rw [if_neg hc]
    exact ⟨_, _, rfl, hs.2 d rfl, Or.inl hs.1, fun _ => hs.1⟩

/-- **randomly_bin, `ndim=None`**: the product of the returned bins is `N` (resp. `N-1` in the documented inexact
prime case) for every shuffle. -/
theorem randomly_bin_none_spec (key : Nat → κ) (N : Nat) (ones exact : Bool) (hN : 0 < N) :
    ∃ bins draws, randomlyBin key N none ones exact = .ok bins draws ∧
      (bins.prod = N ∨ (exact = false ∧ 3 < N ∧ bins.prod = N - 1)) ∧ (exact = true → bins.prod = N) := by
  have hnd : (none : Option Nat) ≠ some 0 := by intro e; cases e
  obtain ⟨o, ho⟩ := randomlyBinPass_total key 0 N none ones hN
  have hs := randomlyBinPass_spec key 0 N none ones o hnd ho
  unfold randomlyBin
  have e0 : ¬ (N = 0) := by omega
  simp only [hnd, if_false, e0, ho]
  by_cases hc : exact = false ∧ 3 < N ∧ o.prime = true
  · obtain ⟨o', ho'⟩ := randomlyBinPass_total key o.draws (N - 1) none ones (by omega)
    have hs' := randomlyBinPass_spec key o.draws (N - 1) none ones o' hnd ho'
    rw [if_pos hc]
    simp only [ho']
    refine ⟨_, _, rfl, Or.inr ⟨hc.1, hc.2.1, hs'.1⟩, ?_⟩
    intro he; rw [he] at hc; exact absurd hc.1 (by simp)
  · rw [if_neg hc]
    exact ⟨_, _, rfl, Or.inl hs.1, fun _ => hs.1⟩

/-- the degenerate request `randomly_bin(0, ndim)` (grid.py l.134, branches of the conditional swapped): ONE bin `[0]`
whatever `ndim ≥ 1` is, and a TypeError for `ndim=None` - outside the property's domain (`N ≥ 1`), recorded as is. -/
theorem randomly_bin_zero (key : Nat → κ) (d : Nat) (hd : 0 < d) (ones exact : Bool) :
    (∃ dr, randomlyBin key 0 (some d) ones exact = .ok [0] dr) ∧
    (match randomlyBin key 0 none ones exact with | .typeError => True | _ => False) := by
  have hnd : (some d : Option Nat) ≠ some 0 := by intro e; cases e; omega
  constructor
  · exact ⟨0, by simp [randomlyBin, hnd]⟩
  · simp [randomlyBin]

/-- non-vacuity: `randomly_bin(12, 3)` with the keys `1, 0, 2, 1, 0` -/
example : (match randomlyBin (fun i => [1, 0, 2, 1, 0].getD i 0) 12 (some 3) true true with
    | .ok bins _ => bins | .typeError => []) = [2, 3, 2] := by decide

end Bins

/-! ## integer `nbins`: randomly_bin feeds the lattice -/
section LatticeInt
variable {K : Type} [Field K] [LinearOrder K] [IsStrictOrderedRing K] {κ : Type} [LT κ] [DecidableLT κ]

/-- **exactly as many lattice members as requested, integer `nbins`** (ensemble.py l.61-65 + l.73-82): for `N ≥ 1`
requested members in `dim ≥ 1` dimensions, whatever the shuffle, the bins `randomly_bin(N, dim, ones=True, exact=True)`
returns make `LatticeSolver._InitialPoints` produce exactly `N` starting points - the member count `__init__`
allocated for the integer `nbins`. -/
theorem lattice_int_points_count (key : Nat → κ) (pf : Bool) (N dim : Nat) (lower upper : List K)
    (hN : 0 < N) (hd : 0 < dim) (bins : List Nat) (draws : Nat) (pts : List (List K))
    (hb : randomlyBin key N (some dim) true true = .ok bins draws)
    (hp : latticePoints pf dim lower upper bins = .ok pts) :
    pts.length = N ∧ memberCount (.nbinsInt N) = some pts.length := by
  obtain ⟨b, d, hb', hl, _, hprod⟩ := randomly_bin_spec key N dim true true hN hd
  rw [hb] at hb'
  cases hb'
  have hprod := hprod rfl
  have hpos : ∀ n ∈ bins, 0 < n := by
    intro n hn
    rcases Nat.eq_zero_or_pos n with h0 | h0
    · subst h0
      have hz : ∀ l : List Nat, 0 ∈ l → l.prod = 0 := by
        intro l
        induction l with
        | nil => intro h; cases h
        | cons a l ih =>
          intro h
          rcases List.mem_cons.mp h with rfl | h'
          · simp
          · simp [ih h']
      have := hz bins hn
      omega
    · exact h0
  obtain ⟨_, _, _, _, _, hlen, _⟩ := lattice_points_spec pf dim lower upper bins pts hp hpos hl
  rw [hlen, hprod]
  exact ⟨rfl, rfl⟩

end LatticeInt

/-! ## ensemble bookkeeping -/
section Book
variable {X E : Type} [LinearOrder E]

theorem scanBest_mem (b : Member X E) (ms : List (Member X E)) : scanBest b ms = b ∨ scanBest b ms ∈ ms := by
  induction ms generalizing b with
  | nil => simp [scanBest]
  | cons m ms ih =>
    simp only [scanBest]
    rcases ih (if m.bestE ≤ b.bestE then m else b) with h | h
    · rw [h]; split
      · right; simp
      · left; rfl
    · right; exact List.mem_cons_of_mem _ h

theorem scanBest_le_start (b : Member X E) (ms : List (Member X E)) : (scanBest b ms).bestE ≤ b.bestE := by
  induction ms generalizing b with
  | nil => simp [scanBest]
  | cons m ms ih =>
    simp only [scanBest]
    refine le_trans (ih _) ?_
    split
    · assumption
    · exact le_refl _

theorem scanBest_le (b : Member X E) (ms : List (Member X E)) : ∀ m ∈ ms, (scanBest b ms).bestE ≤ m.bestE := by
  induction ms generalizing b with
  | nil => simp
  | cons m ms ih =>
    intro m' hm'
    simp only [scanBest]
    rcases List.mem_cons.mp hm' with rfl | h
    · refine le_trans (scanBest_le_start _ _) ?_
      split
      · exact le_refl _
      · exact le_of_lt (not_le.mp ‹_›)
    · exact ih _ _ h

theorem scanBest_last (b : Member X E) (ms : List (Member X E)) :
    (scanBest b ms = b ∧ ∀ m ∈ ms, b.bestE < m.bestE) ∨
    (∃ pre post, ms = pre ++ scanBest b ms :: post ∧ ∀ m ∈ post, (scanBest b ms).bestE < m.bestE) := by
  induction ms generalizing b with
  | nil => left; simp [scanBest]
  | cons m ms ih =>
    simp only [scanBest]
    rcases ih (if m.bestE ≤ b.bestE then m else b) with ⟨h1, h2⟩ | ⟨pre, post, h1, h2⟩
    · by_cases hc : m.bestE ≤ b.bestE
      · simp only [hc, if_true] at h1 h2 ⊢
        right
        exact ⟨[], ms, by rw [h1]; rfl, by rw [h1]; exact h2⟩
      · simp only [hc, if_false] at h1 h2 ⊢
        left
        refine ⟨h1, ?_⟩
        intro x hx
        rcases List.mem_cons.mp hx with rfl | hx
        · exact not_le.mp hc
        · exact h2 x hx
    · right
      exact ⟨m :: pre, post, by rw [List.cons_append, ← h1], h2⟩

theorem scanBest_congr (b1 b2 : Member X E) (ms : List (Member X E))
    (hx : ∃ x ∈ ms, x.bestE ≤ b1.bestE ∧ x.bestE ≤ b2.bestE) : scanBest b1 ms = scanBest b2 ms := by
  induction ms generalizing b1 b2 with
  | nil => obtain ⟨x, hx, _⟩ := hx; cases hx
  | cons m ms ih =>
    obtain ⟨x, hxm, h1, h2⟩ := hx
    simp only [scanBest]
    by_cases c1 : m.bestE ≤ b1.bestE <;> by_cases c2 : m.bestE ≤ b2.bestE
    · simp [c1, c2]
    · simp only [c1, c2, if_true, if_false]
      have hlt := not_le.mp c2
      rcases List.mem_cons.mp hxm with rfl | hx'
      · exact absurd h2 c2
      · exact ih _ _ ⟨x, hx', le_of_lt (lt_of_le_of_lt h2 hlt), h2⟩
    · simp only [c1, c2, if_true, if_false]
      have hlt := not_le.mp c1
      rcases List.mem_cons.mp hxm with rfl | hx'
      · exact absurd h1 c1
      · exact ih _ _ ⟨x, hx', h1, le_of_lt (lt_of_le_of_lt h1 hlt)⟩
    · simp only [c1, c2, if_false]
      rcases List.mem_cons.mp hxm with rfl | hx'
      · exact absurd h1 c1
      · exact ih _ _ ⟨x, hx', h1, h2⟩

/-- **the reported best is the minimum over the members and it IS a member** (`__update_bestSolver` on a fresh
ensemble, `_bestSolver is None`): for every non-empty member list the chosen solver `r` is one of the members - so
the reported energy, solution, evaluation and generation counters are that member's own - and its best energy is
`≤` every member's best energy, i.e. the minimum. -/
theorem update_best_min (ms : List (Member X E)) (hne : ms ≠ []) :
    ∃ r, updateBest none ms = some r ∧ r ∈ ms ∧ ∀ m ∈ ms, r.bestE ≤ m.bestE := by
  cases ms with
  | nil => exact absurd rfl hne
  | cons m ms =>
    refine ⟨scanBest m (m :: ms), rfl, ?_, scanBest_le m (m :: ms)⟩
    rcases scanBest_mem m (m :: ms) with h | h
    · rw [h]; simp
    · exact h

/-- **tie behaviour, as coded (`<=`)**: among several members with the minimal energy the LAST one in member order is
reported: every member after the reported one has a strictly larger best energy. -/
theorem update_best_last_tie (ms : List (Member X E)) (r : Member X E) (h : updateBest none ms = some r) :
    ∃ pre post, ms = pre ++ r :: post ∧ (∀ m ∈ pre, r.bestE ≤ m.bestE) ∧ ∀ m ∈ post, r.bestE < m.bestE := by
  cases ms with
  | nil => simp [updateBest] at h
  | cons m ms =>
    simp only [updateBest, Option.some.injEq] at h
    subst h
    rcases scanBest_last m (m :: ms) with ⟨h1, h2⟩ | ⟨pre, post, h1, h2⟩
    · exact absurd (h2 m (by simp)) (lt_irrefl _)
    · refine ⟨pre, post, h1, ?_, h2⟩
      intro x hx
      exact scanBest_le m (m :: ms) x (by rw [h1]; simp [hx])

/-- **the stored previous best does not matter** (step mode: `_bestSolver` survives from the previous `Step`): whenever
some current member is at least as good as the stored one - in particular when the stored one is itself a member, or
a stale copy of a member whose energy has not increased - the result is the same as on a fresh ensemble. -/
theorem update_best_prev_irrelevant (p : Member X E) (ms : List (Member X E))
    (h : ∃ m ∈ ms, m.bestE ≤ p.bestE) : updateBest (some p) ms = updateBest none ms := by
  cases ms with
  | nil => obtain ⟨m, hm, _⟩ := h; cases hm
  | cons m0 ms =>
    simp only [updateBest, Option.some.injEq]
    obtain ⟨y, hy, hyp⟩ := h
    obtain ⟨r, hr, hmem, hmin⟩ := update_best_min (m0 :: ms) (by simp)
    exact scanBest_congr p m0 (m0 :: ms) ⟨r, hmem, le_trans (hmin y hy) hyp, hmin m0 (by simp)⟩

/-- an ensemble without members has no best solver (`_allSolvers[0]` raises IndexError) -/
theorem update_best_empty : updateBest (X := X) (E := E) none [] = none := rfl

/-- **totals are sums over the members** (`_total_evals = sum(_all_evals)`), whatever the order in which the
members are listed (any schedule of the map), and the reported member's own count is part of the total. -/
theorem totals (ms : List (Member X E)) :
    totalEvals ms = (ms.map (·.evals)).sum ∧ totalIters ms = (ms.map (·.gens)).sum ∧
    (allEvals ms).length = ms.length ∧
    (∀ ms', ms'.Perm ms → totalEvals ms' = totalEvals ms) ∧
    (∀ ms1 ms2, ms = ms1 ++ ms2 → totalEvals ms = totalEvals ms1 + totalEvals ms2) ∧
    (∀ r ∈ ms, r.evals ≤ totalEvals ms) := by
  have e : ∀ l : List (Member X E), totalEvals l = (l.map (·.evals)).sum := by
    intro l; simp [totalEvals, allEvals, List.sum_eq_foldl]
  refine ⟨e ms, by simp [totalIters, allIters, List.sum_eq_foldl], by simp [allEvals], ?_, ?_, ?_⟩
  · intro ms' hp; rw [e, e]; exact (hp.map _).sum_eq
  · intro ms1 ms2 h; rw [e, e, e, h]; simp
  · intro r hr; rw [e]; exact List.single_le_sum (by simp) _ (List.mem_map_of_mem hr)

/-- **member count** (`__init__` l.127-138): `npts` members for Buckshot/Sparsity, `nbins` for an integer `nbins`,
the product of the tuple for a tuple `nbins`. -/
theorem member_count (n : Nat) (a : Nat) (l : List Nat) :
    memberCount (.npts n) = some n ∧ memberCount (.nbinsInt n) = some n ∧
    memberCount (.nbinsTuple (a :: l)) = some (a :: l).prod := by
  refine ⟨rfl, rfl, ?_⟩
  simp only [memberCount, Option.some.injEq]
  rw [List.prod_cons, foldl_mul_start]

/-- **every member carries the ensemble's configuration** (`__init_allSolvers`): after initialisation there are
exactly as many members as slots; every slot that was empty holds a copy of the nested solver configured with the
ensemble's ranges / limits / termination / constraints / penalty / reducer / objective, with `id = index + at`;
members that already existed are kept untouched. -/
theorem member_inherits {C : Type} (cfg : Cfg C) (at_ : Nat) (slots : List (Option (Slot C))) :
    (initSlots cfg at_ 0 slots).length = slots.length ∧
    (∀ i : Nat, slots[i]? = some none → (initSlots cfg at_ 0 slots)[i]? = some (⟨cfg, i + at_⟩ : Slot C)) ∧
    (∀ (i : Nat) (s : Slot C), slots[i]? = some (some s) → (initSlots cfg at_ 0 slots)[i]? = some s) := by
  have key : ∀ (slots : List (Option (Slot C))) (i0 : Nat),
      (initSlots cfg at_ i0 slots).length = slots.length ∧
      (∀ i : Nat, slots[i]? = some none → (initSlots cfg at_ i0 slots)[i]? = some (⟨cfg, i0 + i + at_⟩ : Slot C)) ∧
      (∀ (i : Nat) (s : Slot C), slots[i]? = some (some s) → (initSlots cfg at_ i0 slots)[i]? = some s) := by
    intro slots
    induction slots with
    | nil => intro i0; simp [initSlots]
    | cons s rest ih =>
      intro i0
      obtain ⟨h1, h2, h3⟩ := ih (i0 + 1)
      cases s with
      | none =>
        refine ⟨by simp [initSlots, h1], ?_, ?_⟩
        · intro i hi
          cases i with
          | zero => simp [initSlots]
          | succ i =>
            simp only [List.getElem?_cons_succ] at hi
            simp only [initSlots, List.getElem?_cons_succ, h2 i hi]
            congr 2; omega
        · intro i s' hi
          cases i with
          | zero => simp at hi
          | succ i =>
            simp only [List.getElem?_cons_succ] at hi
            simp only [initSlots, List.getElem?_cons_succ, h3 i s' hi]
      | some s0 =>
        refine ⟨by simp [initSlots, h1], ?_, ?_⟩
        · intro i hi
          cases i with
          | zero => simp at hi
          | succ i =>
            simp only [List.getElem?_cons_succ] at hi
            simp only [initSlots, List.getElem?_cons_succ, h2 i hi]
            congr 2; omega
        · intro i s' hi
          cases i with
          | zero => simp at hi; simp [initSlots, hi]
          | succ i =>
            simp only [List.getElem?_cons_succ] at hi
            simp only [initSlots, List.getElem?_cons_succ, h3 i s' hi]
  obtain ⟨h1, h2, h3⟩ := key slots 0
  exact ⟨h1, fun i hi => by simpa using h2 i hi, h3⟩

/-- non-vacuity: three members, two of them tied at the minimum with different solutions: the LAST tied one wins,
the total is the sum. -/
example :
    let ms : List (Member (List Nat) Nat) := [⟨3, [1, 2], 5, 2, 0⟩, ⟨1, [0, 0], 7, 3, 1⟩, ⟨1, [9, 9], 2, 1, 2⟩, ⟨2, [3], 1, 1, 3⟩]
    (updateBest none ms).map (·.id) = some 2 ∧ totalEvals ms = 15 := by decide

end Book

end MysticVerif.C09
