/-
C06 - a checkpointed solver resumes exactly as if it had never been interrupted; restored solvers and deep copies
are independent of the original and keep counting their own evaluations.

PARTIAL BY NATURE: pickling (dill, `copy.deepcopy`, file IO) is run-time behaviour and is tied by the
correspondence / monitor only (harness/c06.py: every generation boundary of every run, four restore paths).
What is proved here, for ALL inputs:

 (a) the step functions of the model read nothing outside an EXPLICIT snapshot record, and running a prefix,
     saving, restoring and running the suffix equals the uninterrupted run - for differential evolution (1 and 2),
     Nelder-Mead and the control loop, for every cut point and every trial-vector / op list.  The snapshot
     records (Model/Checkpoint.lean) say which state must travel; `de_snapshot_must_carry_best` and
     `powell_midstep_dump_diverges` show that they cannot be made smaller / taken at another moment.
 (b) the aliasing model of the two cells shared by a solver and the closure of its decorated objective:
     `linked_counts`, `pickle_preserves_links`, `deepcopy_as_implemented_unlinks` (+ what it means:
     `deepcopy_copy_stops_counting`), `redecorate_relinks`, `copies_independent`.

Listed in DESIGN.md 5/C06 and NOT done as stated: `step_congr` is proved in the form "equal snapshots give equal
next snapshots" for DE, NM and Ctl (`*_step_congr`); there is no RNG in the model (trial vectors are inputs), so
`rng = rng'` is the equality of the trial lists.  Powell: the toy two-halves model (`powell_boundary_resume`,
`powell_midstep_dump_diverges`) is kept; the real statements are about the Powell-in-S model of C01-C04
(`Model/PowellS.lean`, Brent as a recorded oracle): `powellS_step_congr`, `powellS_resume`,
`resume_equals_uninterrupted_powell`, `powellS_restart_index`, the lossy-snapshot witnesses
`powellS_snapshot_must_carry_internals` / `_direc` and the periodic dump `powellS_midstep_dump_diverges`.
-/
import MysticVerif.Model.Checkpoint
import MysticVerif.Proofs.Solver
import MysticVerif.Proofs.NelderMead
import MysticVerif.Proofs.PowellResume

namespace MysticVerif.C06
open MysticVerif.Solver MysticVerif.Checkpoint

variable {X E R : Type}

/-! ## (a) snapshots -/

@[simp] theorem de_restore_save (s : DE X E) : (DESnap.save s).restore = s := rfl
@[simp] theorem de_save_restore (p : DESnap X E) : DESnap.save p.restore = p := rfl
@[simp] theorem ctl_restore_save (c : Ctl) : (CtlSnap.save c).restore = c := rfl
@[simp] theorem ctl_save_restore (p : CtlSnap) : CtlSnap.save p.restore = p := rfl

theorem zip_fst_snd {α β : Type} : ∀ l : List (α × β), List.zip (l.map Prod.fst) (l.map Prod.snd) = l
  | [] => rfl
  | (a, b) :: l => by simp [zip_fst_snd l]

@[simp] theorem nm_restore_save (s : NM R E) : (NMSnap.save s).restore = s := by
  cases s
  simp [NMSnap.save, NMSnap.restore, zip_fst_snd]

/-- the model's run is the run the other properties (C01-C04) talk about -/
theorem de_run_eq_run1 [LT E] [DecidableLT E] (o : Obj X E) (tss : List (List X)) (s : DE X E) :
    DE.run false o tss s = DE.run1 o tss s := by
  unfold DE.run DE.run1
  simp

/-- **the step reads only the snapshot (DE)**: equal snapshots and equal trial vectors give equal next snapshots -/
theorem de_step_congr [LT E] [DecidableLT E] (two : Bool) (o : Obj X E) (ts : List X) (s s' : DE X E)
    (h : DESnap.save s = DESnap.save s') :
    DESnap.save (DE.run two o [ts] s) = DESnap.save (DE.run two o [ts] s') := by
  have : s = s' := by
    have := congrArg DESnap.restore h
    simpa using this
  rw [this]

/-- **resume = uninterrupted, differential evolution (1 and 2)**: for every cut point `k` and every list of trial
vectors (any strategy, any random draws), running `k` generations, writing the snapshot, restoring it and running
the remaining generations gives exactly the state of the uninterrupted run: population, energies, best, evaluation
monitor, step monitor. -/
theorem resume_equals_uninterrupted_de [LT E] [DecidableLT E] (two : Bool) (o : Obj X E) (k : Nat)
    (trialss : List (List X)) (s0 : DE X E) :
    DE.run two o (trialss.drop k) (DESnap.save (DE.run two o (trialss.take k) s0)).restore
      = DE.run two o trialss s0 := by
  rw [de_restore_save]
  unfold DE.run
  rw [← List.foldl_append, List.take_append_drop]

/-- the same statement for the run function of C01-C04 -/
theorem resume_equals_uninterrupted [LT E] [DecidableLT E] (o : Obj X E) (k : Nat) (trialss : List (List X))
    (s0 : DE X E) :
    DE.run1 o (trialss.drop k) (DESnap.save (DE.run1 o (trialss.take k) s0)).restore = DE.run1 o trialss s0 := by
  simpa [de_run_eq_run1] using resume_equals_uninterrupted_de false o k trialss s0

/-- a second generation of copies: restoring twice (a restored solver saved and restored again) changes nothing -/
theorem resume_twice_de [LT E] [DecidableLT E] (two : Bool) (o : Obj X E) (j k : Nat) (trialss : List (List X))
    (s0 : DE X E) :
    DE.run two o ((trialss.drop j).drop k)
        (DESnap.save (DE.run two o ((trialss.drop j).take k)
          (DESnap.save (DE.run two o (trialss.take j) s0)).restore)).restore
      = DE.run two o trialss s0 := by
  rw [resume_equals_uninterrupted_de, resume_equals_uninterrupted_de]

/-- **which state must travel (DE)**: a restart file that drops the decoupled best (so that it is read back as
`population[0]`, `popEnergy[0]`) does NOT resume exactly. Witness: after one generation the best member is the
second one; the next trial for member 0 beats member 0 but not the best. -/
def exObj : Obj Int Int :=
  { raw := fun x => x * x, pen := fun _ => 0, K := id, inBox := fun _ => true, useRange := false, top := 1000000,
    add := (· + ·) }

theorem de_snapshot_must_carry_best :
    let s1 := DE.run false exObj [[7, 3]] (DE.init exObj [7, 3] 7)
    (DE.run false exObj [[5, 4]] ((DESnap.save s1).restoreNoBest 0 exObj.top)).best
      ≠ (DE.run false exObj [[7, 3], [5, 4]] (DE.init exObj [7, 3] 7)).best := by
  decide

/-- non-vacuity of `resume_equals_uninterrupted_de`: a run in which members are replaced, cut in the middle -/
example : (DE.run false exObj [[7, 3], [1, -8], [0, 2]] (DE.init exObj [7, 3] 7)).pop = [0, 2]
    ∧ DESnap.save (DE.run false exObj ([[7, 3], [1, -8], [0, 2]].drop 2)
        (DESnap.save (DE.run false exObj ([[7, 3], [1, -8], [0, 2]].take 2) (DE.init exObj [7, 3] 7))).restore)
      = DESnap.save (DE.run false exObj [[7, 3], [1, -8], [0, 2]] (DE.init exObj [7, 3] 7)) := by
  decide

/-! ### Nelder-Mead -/

theorem nm_run_add [Add R] [Sub R] [Mul R] [Div R] [LT E] [DecidableLT E] [LE E] [DecidableLE E]
    (o : Obj (Pt R) E) (c : Coef R) (st : Pt R → Pt R) :
    ∀ (m n : Nat) (s : NM R E), NM.run o c st (m + n) s = NM.run o c st n (NM.run o c st m s) := by
  intro m
  induction m with
  | zero => intro n s; simp [NM.run]
  | succ m ih =>
    intro n s
    have : m + 1 + n = (m + n) + 1 := by omega
    rw [this]
    simp only [NM.run]
    exact ih n _

/-- **the step reads only the snapshot (Nelder-Mead)** -/
theorem nm_step_congr [Add R] [Sub R] [Mul R] [Div R] [LT E] [DecidableLT E] [LE E] [DecidableLE E]
    (o : Obj (Pt R) E) (c : Coef R) (st : Pt R → Pt R) (s s' : NM R E) (h : NMSnap.save s = NMSnap.save s') :
    NMSnap.save (NM.update o c st s).1 = NMSnap.save (NM.update o c st s').1 := by
  have : s = s' := by
    have := congrArg NMSnap.restore h
    simpa using this
  rw [this]

/-- **resume = uninterrupted, Nelder-Mead**: for every cut point `k <= n`, `k` iterations, snapshot (simplex rows,
their energies, both monitors), restore, `n - k` iterations = `n` iterations; for every objective, constraints
function (pure or in-place) and vertex arithmetic. -/
theorem resume_equals_uninterrupted_nm [Add R] [Sub R] [Mul R] [Div R] [LT E] [DecidableLT E] [LE E] [DecidableLE E]
    (o : Obj (Pt R) E) (c : Coef R) (st : Pt R → Pt R) (k n : Nat) (hk : k ≤ n) (s0 : NM R E) :
    NM.run o c st (n - k) (NMSnap.save (NM.run o c st k s0)).restore = NM.run o c st n s0 := by
  rw [nm_restore_save]
  have : n = k + (n - k) := by omega
  conv => rhs; rw [this]
  rw [nm_run_add]

/-! ### the control loop -/

theorem runOps_append (c : Ctl) (a b : List CtlOp) : runOps c (a ++ b) = runOps (runOps c a) b := by
  unfold runOps; rw [List.foldl_append]

theorem outputs_append : ∀ (a b : List CtlOp) (c : Ctl), outputs c (a ++ b) = outputs c a ++ outputs (runOps c a) b
  | [], b, c => by simp [outputs, runOps]
  | op :: a, b, c => by
    simp only [List.cons_append, outputs, runOps, List.foldl_cons]
    rw [outputs_append a b (applyOp c op)]
    rfl

/-- **the step reads only the snapshot (control loop)** -/
theorem ctl_step_congr (c c' : Ctl) (op : CtlOp) (h : CtlSnap.save c = CtlSnap.save c') :
    CtlSnap.save (applyOp c op) = CtlSnap.save (applyOp c' op) ∧ outOp c op = outOp c' op := by
  have : c = c' := by
    have := congrArg CtlSnap.restore h
    simpa using this
  rw [this]; exact ⟨rfl, rfl⟩

/-- **resume = uninterrupted, control loop**: for every cut point and every op list
(`Step` with any termination verdicts and any per-step effect, `SetEvaluationLimits`, exit requests, `Finalize`),
the restored control state continues to the same counters / limits / flags AND returns the same messages. -/
theorem resume_equals_uninterrupted_ctl (k : Nat) (ops : List CtlOp) (c0 : Ctl) :
    runOps (CtlSnap.save (runOps c0 (ops.take k))).restore (ops.drop k) = runOps c0 ops
    ∧ outputs c0 (ops.take k) ++ outputs (CtlSnap.save (runOps c0 (ops.take k))).restore (ops.drop k)
        = outputs c0 ops := by
  rw [ctl_restore_save]
  constructor
  · rw [← runOps_append, List.take_append_drop]
  · rw [← outputs_append, List.take_append_drop]

/-- non-vacuity: a run that is cut, resumed, and then stops by its generation limit with the same message -/
example :
    let ops := [CtlOp.limits (some 2) none false, .step false false 1 0 1, .step false false 3 1 1,
                .step false false 3 1 1, .step false false 3 1 1]
    (outputs ({} : Ctl) ops).getLast? = some (some Msg.lim, false)
    ∧ outputs (CtlSnap.save (runOps ({} : Ctl) (ops.take 3))).restore (ops.drop 3)
        = [(some Msg.lim, true), (some Msg.lim, false)] := by
  decide

/-! ### Powell: boundary snapshots resume, the periodic dump does not -/

/-- a snapshot taken at an iteration boundary (what `SaveSolver` after `Step` stores) resumes exactly -/
theorem powell_boundary_resume (q : PwOracle X E) (m n : Nat) (s0 : Pw X E) :
    Pw.run q n (Pw.run q m s0) = Pw.run q (m + n) s0 := by
  induction m generalizing s0 with
  | zero => simp [Pw.run]
  | succ m ih =>
    have : m + 1 + n = (m + n) + 1 := by omega
    rw [this]
    simp only [Pw.run]
    exact ih _

/-- toy oracles: extrapolate to `2x - x1` (energy |.|), line searches that end two units lower -/
def pwEx : PwOracle Int Int :=
  { extr := fun x x1 _ _ _ _ d => (2 * x - x1, (2 * x - x1).natAbs, d),
    lines := fun x _ _ => (x - 2, (x - 2).natAbs, 0, 2) }

def pwS0 : Pw Int Int :=
  { x := 10, fval := 10, x1 := 12, fx := 12, bigind := 0, delta := 1, direc := [1], stepmon := [(12, 12), (10, 10)],
    ehist := some 10 }

/-- **the periodic dump of PowellDirectionalSolver is taken in the middle of an iteration**: it misses the
second half's `__internals` (the point the iteration started from is a local variable), and the restored solver
starts a NEW iteration instead of finishing the interrupted one. Witness: one `Step` of the solver restored from
the dump differs from the uninterrupted solver both at the end of the interrupted iteration and after the next. -/
theorem powell_midstep_dump_diverges :
    Pw.step pwEx (Pw.periodicDump pwEx pwS0) ≠ Pw.step pwEx pwS0
    ∧ Pw.step pwEx (Pw.periodicDump pwEx pwS0) ≠ Pw.step pwEx (Pw.step pwEx pwS0)
    ∧ (Pw.step pwEx (Pw.periodicDump pwEx pwS0)).stepmon ≠ (Pw.step pwEx (Pw.step pwEx pwS0)).stepmon := by
  decide

/-! ### Powell inside the solver model S (`Model/PowellS.lean`): the real `_Step`, Brent as a recorded oracle

`PowellS.PwSnap` (Model/PowellResume.lean) = `population[0]`, `popEnergy[0]`, `__internals = [x1, fx, bigind, delta]`,
`_direc`, both monitors, the deferred-record flag of `energy_history`, the number of line searches made so far.
`PowellS.stepAt` is `_Step` with its `generations == 0` / `> 0` dispatch read from the snapshot; `PowellS.steps n`
is `n` Steps from ANY state. -/

/-- **the step reads only the snapshot (Powell)**: two solver states with the same snapshot make the same `_Step`:
equal next snapshots, and they ask Brent for the same line searches (same start points, same directions) -/
theorem powellS_step_congr [Sub R] [Mul R] [LT E] [DecidableLT E] (o : Obj (Pt R) E) (c : PowellS.PwCfg R E)
    (ls : Nat → Pt R → Pt R → PowellS.LsRec R) (s s' : PowellS.Pw R E)
    (h : PowellS.PwSnap.save s = PowellS.PwSnap.save s') :
    PowellS.PwSnap.save (PowellS.stepAt o c ls s) = PowellS.PwSnap.save (PowellS.stepAt o c ls s')
    ∧ ∃ t, (PowellS.stepAt o c ls s).reqs = s.reqs ++ t ∧ (PowellS.stepAt o c ls s').reqs = s'.reqs ++ t := by
  obtain ⟨t, ht⟩ := PowellS.stepAt_setReqs o c ls s
  have hs' := PowellS.eq_of_save_eq h
  have h1 := ht s.reqs
  rw [PowellS.setReqs_self] at h1
  have h2 := ht s'.reqs
  rw [← hs'] at h2
  refine ⟨?_, t, ?_, ?_⟩
  · rw [h2, PowellS.save_setReqs]
  · rw [h1]; rfl
  · rw [h2]; rfl

/-- **resume = uninterrupted, Powell's direction-set method**: for every objective (cost, constraints, strict ranges,
penalty), every Brent oracle and all `m`, `n`: `m` Steps from any state, writing the snapshot, restoring it and
`n` further Steps gives the snapshot of `m + n` uninterrupted Steps (population[0], popEnergy[0], __internals,
_direc, evaluation monitor, step monitor, deferred record, number of searches) - and the restored solver asks for
exactly the line searches the uninterrupted one asks for after the cut. -/
theorem powellS_resume [Sub R] [Mul R] [LT E] [DecidableLT E] (o : Obj (Pt R) E) (c : PowellS.PwCfg R E)
    (ls : Nat → Pt R → Pt R → PowellS.LsRec R) (m n : Nat) (s0 : PowellS.Pw R E) :
    PowellS.PwSnap.save (PowellS.steps o c ls n (PowellS.PwSnap.save (PowellS.steps o c ls m s0)).restore)
        = PowellS.PwSnap.save (PowellS.steps o c ls (m + n) s0)
    ∧ (PowellS.steps o c ls (m + n) s0).reqs
        = (PowellS.steps o c ls m s0).reqs
          ++ (PowellS.steps o c ls n (PowellS.PwSnap.save (PowellS.steps o c ls m s0)).restore).reqs := by
  rw [PowellS.steps_add, PowellS.restore_save]
  obtain ⟨t, ht⟩ := PowellS.steps_setReqs o c ls n (PowellS.steps o c ls m s0)
  have h1 := ht (PowellS.steps o c ls m s0).reqs
  rw [PowellS.setReqs_self] at h1
  refine ⟨?_, ?_⟩
  · rw [ht, PowellS.save_setReqs]
  · rw [ht []]
    conv => lhs; rw [h1]
    rfl

/-- the same for any number of Steps: equal snapshots stay equal -/
theorem powellS_steps_congr [Sub R] [Mul R] [LT E] [DecidableLT E] (o : Obj (Pt R) E) (c : PowellS.PwCfg R E)
    (ls : Nat → Pt R → Pt R → PowellS.LsRec R) (k : Nat) (s s' : PowellS.Pw R E)
    (h : PowellS.PwSnap.save s = PowellS.PwSnap.save s') :
    PowellS.PwSnap.save (PowellS.steps o c ls k s) = PowellS.PwSnap.save (PowellS.steps o c ls k s') := by
  obtain ⟨t, ht⟩ := PowellS.steps_setReqs o c ls k s
  have hs' := PowellS.eq_of_save_eq h
  have h2 := ht s'.reqs
  rw [← hs'] at h2
  rw [h2, PowellS.save_setReqs]

/-- a second generation of copies (a restored solver saved and restored again) changes nothing -/
theorem powellS_resume_twice [Sub R] [Mul R] [LT E] [DecidableLT E] (o : Obj (Pt R) E) (c : PowellS.PwCfg R E)
    (ls : Nat → Pt R → Pt R → PowellS.LsRec R) (m n k : Nat) (s0 : PowellS.Pw R E) :
    PowellS.PwSnap.save (PowellS.steps o c ls k (PowellS.PwSnap.save
        (PowellS.steps o c ls n (PowellS.PwSnap.save (PowellS.steps o c ls m s0)).restore)).restore)
      = PowellS.PwSnap.save (PowellS.steps o c ls (m + n + k) s0) := by
  have h1 := (powellS_resume o c ls m n s0).1
  have h2 := (powellS_resume o c ls n k (PowellS.PwSnap.save (PowellS.steps o c ls m s0)).restore).1
  rw [PowellS.steps_add _ _ _ n k] at h2
  rw [h2, powellS_steps_congr o c ls k _ _ h1, ← PowellS.steps_add]

/-- the runs C01-C04 talk about (`PowellS.reach`: generation 0, generation 1, then `n` iterations) are runs of the
dispatching step function -/
theorem powellS_reach_eq_steps [Sub R] [Mul R] [LinearOrder E] (o : Obj (Pt R) E) (c : PowellS.PwCfg R E)
    (ls : Nat → Pt R → Pt R → PowellS.LsRec R) (x0 : Pt R) (direc : List (Pt R)) (n : Nat) :
    PowellS.reach o c ls true x0 direc n = PowellS.steps o c ls (n + 1) (PowellS.gen0 o c true x0 direc) := by
  have h0 : PowellS.stepAt o c ls (PowellS.gen0 o c true x0 direc) = PowellS.gen1 o c ls (PowellS.gen0 o c true x0 direc) := by
    unfold PowellS.stepAt
    rw [if_pos (by simp [PowellS.Pw.generations, PowellS.Pw.hist, PowellS.gen0])]
  have h1 : 0 < (PowellS.gen1 o c ls (PowellS.gen0 o c true x0 direc)).generations := by
    unfold PowellS.gen1
    rw [PowellS.sweep_generations]
    simp [PowellS.gen0]
  have : n + 1 = 1 + n := by omega
  rw [this, PowellS.steps_add]
  simp only [PowellS.steps, h0]
  rw [PowellS.steps_eq_run o c ls n _ h1]
  rfl

/-- **resume = uninterrupted for a whole Powell run**: for every cut `k` (k = 0: the restart file written after
generation 0; k = j+1: after `reach .. j`) the restored solver continued to the end equals the uninterrupted run -/
theorem resume_equals_uninterrupted_powell [Sub R] [Mul R] [LinearOrder E] (o : Obj (Pt R) E) (c : PowellS.PwCfg R E)
    (ls : Nat → Pt R → Pt R → PowellS.LsRec R) (x0 : Pt R) (direc : List (Pt R)) (k n : Nat) (hk : k ≤ n + 1) :
    PowellS.PwSnap.save (PowellS.steps o c ls (n + 1 - k)
        (PowellS.PwSnap.save (PowellS.steps o c ls k (PowellS.gen0 o c true x0 direc))).restore)
      = PowellS.PwSnap.save (PowellS.reach o c ls true x0 direc n) := by
  rw [powellS_reach_eq_steps, (powellS_resume o c ls k (n + 1 - k) _).1]
  have : k + (n + 1 - k) = n + 1 := by omega
  rw [this]

/-- **the oracle index may restart at 0**: the line-search counter is used for nothing but indexing the oracle, so
a restored solver may be continued with a counter reset to 0 against the recording of ITS OWN line searches
(this is how harness/c06.py restarts the model from the restored real solver) -/
theorem powellS_restart_index [Sub R] [Mul R] [LT E] [DecidableLT E] (o : Obj (Pt R) E) (c : PowellS.PwCfg R E)
    (ls : Nat → Pt R → Pt R → PowellS.LsRec R) (n : Nat) (s : PowellS.Pw R E) :
    PowellS.steps o c ls n s
      = PowellS.addNls s.nls (PowellS.steps o c (PowellS.shift s.nls ls) n { s with nls := 0 }) := by
  rw [← PowellS.steps_addNls]
  congr 1
  simp [PowellS.addNls]

/-- what the periodic dump lacks: completing the interrupted iteration from the dump needs the point the iteration
started from (`x1 = x.copy()`, a LOCAL variable of `_Step` at the time of the dump) -/
theorem powellS_dump_completion [Sub R] [Mul R] [LT E] [DecidableLT E] (o : Obj (Pt R) E) (c : PowellS.PwCfg R E)
    (ls : Nat → Pt R → Pt R → PowellS.LsRec R) (s : PowellS.Pw R E) :
    PowellS.sweep o c ls { PowellS.midDump o c ls s with x1 := (PowellS.extrapolate o c ls s).x1 }
      = PowellS.genN o c ls s := rfl

/-! #### kernel-checked witnesses: a smaller snapshot does not resume -/

/-- `x0^2 + x1^2 + x0*x1` on integer points, no constraints -/
def pwObj : Obj (Pt Int) Int :=
  { raw := fun x => (x.map fun v => v * v).foldl (· + ·) 0 + (x.headD 0) * (x.getD 1 0), pen := fun _ => 0, K := id,
    inBox := fun _ => true, useRange := false, top := 1000000, add := (· + ·) }

/-- the code's arithmetic decisions (scipy_optimize.py l.680-682, l.694-703) over the integers -/
def pwCfg : PowellS.PwCfg Int Int :=
  { diff := fun a b => a - b, gain := fun fx2 fval delta => decide (fx2 - fval > delta),
    tneg := fun fx fx2 fval delta =>
      decide (2 * (fx + fx2 - 2 * fval) * ((fx - fval - delta) * (fx - fval - delta)) - delta * (fx - fx2) * (fx - fx2) < 0),
    zeroE := 0, two := 2 }

/-- a line search that evaluates `p`, `p + xi`, `p - xi` and returns the best of the three -/
def pwLs : Nat → Pt Int → Pt Int → PowellS.LsRec Int := fun _ p xi =>
  if pwObj.raw (vadd p xi) < pwObj.raw p then { pre := [p], y := vadd p xi, post := [vsub p xi], xi := xi }
  else if pwObj.raw (vsub p xi) < pwObj.raw p then { pre := [p, vadd p xi], y := vsub p xi, post := [], xi := xi.map (fun v => -v) }
  else { pre := [], y := p, post := [vadd p xi, vsub p xi], xi := xi.map (fun _ => 0) }

def pwStart : PowellS.Pw Int Int := PowellS.gen0 pwObj pwCfg true [7, -5] [[1, 0], [0, 1]]

/-- non-vacuity of `powellS_resume` / `resume_equals_uninterrupted_powell`: a run in which the extrapolation line
search is taken and directions are replaced (`_direc` = [[0,1],[-2,2]] at the end), cut after two Steps -/
example :
    (PowellS.steps pwObj pwCfg pwLs 4 pwStart).direc = [[0, 1], [-2, 2]]
    ∧ (PowellS.steps pwObj pwCfg pwLs 4 pwStart).x = [0, 0]
    ∧ (PowellS.steps pwObj pwCfg pwLs 4 pwStart).nls = 10
    ∧ PowellS.PwSnap.save (PowellS.steps pwObj pwCfg pwLs 2 (PowellS.PwSnap.save (PowellS.steps pwObj pwCfg pwLs 2 pwStart)).restore)
        = PowellS.PwSnap.save (PowellS.steps pwObj pwCfg pwLs 4 pwStart) := by
  decide +kernel

/-- **which state must travel (Powell), 1**: a restart file without `__internals` (read back as a fresh instance has
them: `x1` = the zero vector, `fx` = inf, `bigind = 0`, `delta = 0.0`) does NOT resume exactly: already the next
Step ends at another point, with another step record -/
theorem powellS_snapshot_must_carry_internals :
    let s2 := PowellS.steps pwObj pwCfg pwLs 2 pwStart
    (PowellS.stepAt pwObj pwCfg pwLs ((PowellS.PwSnap.save s2).restoreNoInternals [0, 0] pwObj.top 0)).x
        ≠ (PowellS.stepAt pwObj pwCfg pwLs s2).x
    ∧ (PowellS.stepAt pwObj pwCfg pwLs ((PowellS.PwSnap.save s2).restoreNoInternals [0, 0] pwObj.top 0)).stepLog
        ≠ (PowellS.stepAt pwObj pwCfg pwLs s2).stepLog := by
  decide +kernel

/-- **which state must travel (Powell), 2**: a restart file without `_direc` - read back as the identity `eye(N)`
(what generation 0 installs, l.654), or as nothing - does NOT resume exactly once a direction has been replaced -/
theorem powellS_snapshot_must_carry_direc :
    let s2 := PowellS.steps pwObj pwCfg pwLs 2 pwStart
    s2.direc ≠ [[1, 0], [0, 1]]
    ∧ (PowellS.stepAt pwObj pwCfg pwLs ((PowellS.PwSnap.save s2).restoreNoDirec [[1, 0], [0, 1]])).x
        ≠ (PowellS.stepAt pwObj pwCfg pwLs s2).x
    ∧ (PowellS.stepAt pwObj pwCfg pwLs ((PowellS.PwSnap.save s2).restoreNoDirec [])).x
        ≠ (PowellS.stepAt pwObj pwCfg pwLs s2).x := by
  decide +kernel

/-- **the periodic dump of PowellDirectionalSolver, in the real step function**: the state pickled by
`__save_state()` in the middle of `_Step` (new point / record / direction set, OLD `__internals`) is not the state
at any Step boundary, and a solver restored from it starts a NEW iteration from the hybrid state: after one Step
its step monitor and its number of evaluations are those of the uninterrupted solver neither one nor two Steps
after the boundary (known finding F32) -/
theorem powellS_midstep_dump_diverges :
    let s2 := PowellS.steps pwObj pwCfg pwLs 2 pwStart
    let d := PowellS.midDump pwObj pwCfg pwLs s2
    PowellS.PwSnap.save d ≠ PowellS.PwSnap.save s2
    ∧ PowellS.PwSnap.save d ≠ PowellS.PwSnap.save (PowellS.stepAt pwObj pwCfg pwLs s2)
    ∧ (PowellS.stepAt pwObj pwCfg pwLs d).stepLog ≠ (PowellS.steps pwObj pwCfg pwLs 1 s2).stepLog
    ∧ (PowellS.stepAt pwObj pwCfg pwLs d).stepLog ≠ (PowellS.steps pwObj pwCfg pwLs 2 s2).stepLog
    ∧ (PowellS.stepAt pwObj pwCfg pwLs d).log.length ≠ (PowellS.steps pwObj pwCfg pwLs 1 s2).log.length
    ∧ (PowellS.stepAt pwObj pwCfg pwLs d).log.length ≠ (PowellS.steps pwObj pwCfg pwLs 2 s2).log.length := by
  decide +kernel

/-! #### the direction set is updated in place: what a copy must own -/

/-- **copies with their own `_direc` array are independent**: a `_Step` of one solver object leaves the state every
other object sees unchanged, provided they do not point to the same direction-set array -/
theorem powellS_step_frame [Sub R] [Mul R] [LT E] [DecidableLT E] (o : Obj (Pt R) E) (c : PowellS.PwCfg R E)
    (ls : Nat → Pt R → Pt R → PowellS.LsRec R) (h : PowellS.DHeap R) (a b : PowellS.PwObj R E) (hne : a.dptr ≠ b.dptr) :
    b.load (PowellS.stepObj o c ls h a).1 = b.load h := by
  simp [PowellS.stepObj, PowellS.PwObj.load, List.getD_eq_getElem?_getD, List.getElem?_set_ne hne]

/-- a deep copy sees what the original sees, owns a fresh array, and stepping either side never moves the other -/
theorem powellS_deepcopy_independent [Sub R] [Mul R] [LT E] [DecidableLT E] (o : Obj (Pt R) E) (c : PowellS.PwCfg R E)
    (ls : Nat → Pt R → Pt R → PowellS.LsRec R) (h : PowellS.DHeap R) (a : PowellS.PwObj R E) (hv : a.dptr < h.cells.length) :
    let h' := (PowellS.deepCopyObj h a).1
    let b := (PowellS.deepCopyObj h a).2
    b.load h' = a.load h ∧ a.load h' = a.load h
    ∧ b.load (PowellS.stepObj o c ls h' a).1 = b.load h'
    ∧ a.load (PowellS.stepObj o c ls h' b).1 = a.load h' := by
  have hne : a.dptr ≠ h.cells.length := Nat.ne_of_lt hv
  refine ⟨?_, ?_, ?_, ?_⟩
  · simp [PowellS.deepCopyObj, PowellS.PwObj.load, List.getD_eq_getElem?_getD]
  · simp [PowellS.deepCopyObj, PowellS.PwObj.load, List.getD_eq_getElem?_getD, List.getElem?_append_left hv]
  · exact powellS_step_frame o c ls _ _ _ hne
  · exact powellS_step_frame o c ls _ _ _ (Ne.symm hne)

/-- **a copy that shares the `_direc` array is NOT independent** (what `__copy__` gives, and what a `__deepcopy__`
that forgot the array would give): one Step of the original replaces a direction in place and the copy, which was
never advanced, now holds another direction set - and continues differently from the solver it was copied from -/
theorem powellS_shared_direc_not_independent :
    let s1 := PowellS.steps pwObj pwCfg pwLs 1 pwStart
    let h : PowellS.DHeap Int := { cells := [s1.direc] }
    let a : PowellS.PwObj Int Int := { s := s1, dptr := 0 }
    let b := (PowellS.shallowCopyObj h a).2
    let h1 := (PowellS.stepObj pwObj pwCfg pwLs h a).1
    (b.load h).direc = [[1, 0], [0, 1]] ∧ (b.load h1).direc = [[0, 1], [-1, 1]]
    ∧ (PowellS.stepAt pwObj pwCfg pwLs (b.load h)).x = [4, -2] ∧ (PowellS.stepAt pwObj pwCfg pwLs (b.load h1)).x = [3, -1]
    ∧ (PowellS.stepAt pwObj pwCfg pwLs (b.load h1)).fval ≠ (PowellS.stepAt pwObj pwCfg pwLs (b.load h)).fval := by
  decide +kernel

/-! ## (b) the shared cells -/

theorem calls_append (h : Heap) (l : Links) : ∀ (a b : List Nat), calls h l (a ++ b) = calls (calls h l a) l b := by
  intro a
  induction a generalizing h with
  | nil => intro b; rfl
  | cons t a ih => intro b; simp only [List.cons_append, calls]; exact ih _ b

theorem call_ctr_length (h : Heap) (l : Links) (t : Nat) : (call h l t).ctr.length = h.ctr.length := by
  simp [call]

theorem call_mon_length (h : Heap) (l : Links) (t : Nat) : (call h l t).mon.length = h.mon.length := by
  simp [call]

theorem valid_call {h : Heap} {l l' : Links} (t : Nat) (hv : l.Valid h) : l.Valid (call h l' t) := by
  unfold Links.Valid at *
  simp only [call_ctr_length, call_mon_length]
  exact hv

/-- one call through a linked solver: `evaluations` +1 and the evaluation monitor gets the record -/
theorem linked_call {h : Heap} {l : Links} (hl : l.Linked) (hv : l.Valid h) (t : Nat) :
    evaluations (call h l t) l = evaluations h l + 1 ∧ monitor (call h l t) l = monitor h l ++ [t] := by
  obtain ⟨h1, h2⟩ := hl
  obtain ⟨v1, _, v3, _⟩ := hv
  constructor
  · simp [evaluations, call, ← h1, List.getD_eq_getElem?_getD, v1]
  · simp [monitor, call, ← h2, List.getD_eq_getElem?_getD, v3]

/-- **linked_counts**: while the solver is linked to its objective, after `n` real calls of the user's cost
`evaluations` has grown by exactly `n` and the evaluation monitor holds exactly the `n` new records, in order -/
theorem linked_counts {l : Links} (hl : l.Linked) :
    ∀ (ts : List Nat) (h : Heap), l.Valid h →
      evaluations (calls h l ts) l = evaluations h l + ts.length ∧ monitor (calls h l ts) l = monitor h l ++ ts := by
  intro ts
  induction ts with
  | nil => intro h _; simp [calls]
  | cons t ts ih =>
    intro h hv
    obtain ⟨a, b⟩ := linked_call hl hv t
    obtain ⟨c, d⟩ := ih (call h l t) (valid_call t hv)
    simp only [calls, List.length_cons]
    constructor
    · rw [c, a]; omega
    · rw [d, b]; simp

/-- a call through links `a` leaves every cell of `b` it does not point to untouched -/
theorem call_other (h : Heap) (a b : Links) (t : Nat)
    (h1 : a.closureCtr ≠ b.solverCtr) (h2 : a.closureCtr ≠ b.closureCtr)
    (h3 : a.closureMon ≠ b.solverMon) (h4 : a.closureMon ≠ b.closureMon) :
    evaluations (call h a t) b = evaluations h b ∧ monitor (call h a t) b = monitor h b
    ∧ hiddenCount (call h a t) b = hiddenCount h b
    ∧ (call h a t).mon.getD b.closureMon [] = h.mon.getD b.closureMon [] := by
  refine ⟨?_, ?_, ?_, ?_⟩
  · simp [evaluations, call, List.getD_eq_getElem?_getD, h1]
  · simp [monitor, call, List.getD_eq_getElem?_getD, h3]
  · simp [hiddenCount, call, List.getD_eq_getElem?_getD, h2]
  · simp [call, List.getD_eq_getElem?_getD, h4]

/-- **copies_independent**: if the cells the objective of `a` writes are none of `b`'s cells, then advancing `a`
(any number of evaluations) leaves `b`'s counter, evaluation monitor and hiddenCount closure cells unchanged -/
theorem copies_independent (a b : Links)
    (h1 : a.closureCtr ≠ b.solverCtr) (h2 : a.closureCtr ≠ b.closureCtr)
    (h3 : a.closureMon ≠ b.solverMon) (h4 : a.closureMon ≠ b.closureMon) :
    ∀ (ts : List Nat) (h : Heap),
      evaluations (calls h a ts) b = evaluations h b ∧ monitor (calls h a ts) b = monitor h b
      ∧ hiddenCount (calls h a ts) b = hiddenCount h b
      ∧ (calls h a ts).mon.getD b.closureMon [] = h.mon.getD b.closureMon [] := by
  intro ts
  induction ts with
  | nil => intro h; simp [calls]
  | cons t ts ih =>
    intro h
    obtain ⟨a1, a2, a3, a4⟩ := call_other h a b t h1 h2 h3 h4
    obtain ⟨b1, b2, b3, b4⟩ := ih (call h a t)
    simp only [calls]
    exact ⟨b1.trans a1, b2.trans a2, b3.trans a3, b4.trans a4⟩

/-- **pickle_preserves_links**: ONE pickle of the whole object graph (SaveSolver+LoadSolver, dill.dumps/loads)
gives a copy that is linked iff the original is, with the same counter value and monitor contents -/
theorem pickle_preserves_links (h : Heap) (l : Links) (hv : l.Valid h) :
    ((pickleCopy h l).2.Linked ↔ l.Linked)
    ∧ evaluations (pickleCopy h l).1 (pickleCopy h l).2 = evaluations h l
    ∧ monitor (pickleCopy h l).1 (pickleCopy h l).2 = monitor h l
    ∧ hiddenCount (pickleCopy h l).1 (pickleCopy h l).2 = hiddenCount h l
    ∧ (pickleCopy h l).2.Valid (pickleCopy h l).1 := by
  obtain ⟨v1, v2, v3, v4⟩ := hv
  refine ⟨?_, ?_, ?_, ?_, ?_⟩
  · unfold Links.Linked pickleCopy
    by_cases hc : l.solverCtr = l.closureCtr <;> by_cases hm : l.solverMon = l.closureMon <;> simp [hc, hm]
  · simp [evaluations, pickleCopy, List.getD_eq_getElem?_getD]
  · simp [monitor, pickleCopy, List.getD_eq_getElem?_getD]
  · unfold hiddenCount pickleCopy
    by_cases hc : l.solverCtr = l.closureCtr
    · simp [hc, List.getD_eq_getElem?_getD]
    · simp [hc, List.getD_eq_getElem?_getD]
  · unfold Links.Valid pickleCopy
    by_cases hc : l.solverCtr = l.closureCtr <;> by_cases hm : l.solverMon = l.closureMon <;> simp [hc, hm]

/-- the restored solver shares no cell with the original: `copies_independent` applies in both directions -/
theorem pickle_copy_disjoint (h : Heap) (l : Links) (hv : l.Valid h) :
    let l' := (pickleCopy h l).2
    l'.closureCtr ≠ l.solverCtr ∧ l'.closureCtr ≠ l.closureCtr ∧ l'.closureMon ≠ l.solverMon ∧ l'.closureMon ≠ l.closureMon
    ∧ l.closureCtr ≠ l'.solverCtr ∧ l.closureCtr ≠ l'.closureCtr ∧ l.closureMon ≠ l'.solverMon ∧ l.closureMon ≠ l'.closureMon := by
  obtain ⟨v1, v2, v3, v4⟩ := hv
  unfold pickleCopy
  by_cases hc : l.solverCtr = l.closureCtr <;> by_cases hm : l.solverMon = l.closureMon <;> simp [hc, hm] <;> omega

/-- **a restored solver keeps counting its own evaluations and never touches the original**: after restoring a
linked solver from one pickle, `n` evaluations on the copy add `n` to the copy's `evaluations` and records to the
copy's monitor, and the original's `evaluations` / monitor are unchanged -/
theorem restored_counts_own (h : Heap) (l : Links) (hv : l.Valid h) (hl : l.Linked) (ts : List Nat) :
    let h' := (pickleCopy h l).1
    let l' := (pickleCopy h l).2
    evaluations (calls h' l' ts) l' = evaluations h l + ts.length
    ∧ monitor (calls h' l' ts) l' = monitor h l ++ ts
    ∧ evaluations (calls h' l' ts) l = evaluations h l
    ∧ monitor (calls h' l' ts) l = monitor h l := by
  obtain ⟨hlink, he, hm, _, hv'⟩ := pickle_preserves_links h l hv
  obtain ⟨d1, d2, d3, d4, _⟩ := pickle_copy_disjoint h l hv
  obtain ⟨c1, c2⟩ := linked_counts (hlink.mpr hl) ts _ hv'
  obtain ⟨i1, i2, _, _⟩ := copies_independent (pickleCopy h l).2 l d1 d2 d3 d4 ts (pickleCopy h l).1
  obtain ⟨v1, _, v3, _⟩ := hv
  refine ⟨by rw [c1, he], by rw [c2, hm], ?_, ?_⟩
  · rw [i1]; simp [evaluations, pickleCopy, List.getD_eq_getElem?_getD, List.getElem?_append, v1]
  · rw [i2]; simp [monitor, pickleCopy, List.getD_eq_getElem?_getD, List.getElem?_append, v3]

/-- **deepcopy_as_implemented_unlinks**: `AbstractSolver.__deepcopy__` copies `_cost` through a separate
`dill.copy`, so the copy is NEVER linked - whatever the original looked like -/
theorem deepcopy_as_implemented_unlinks (h : Heap) (l : Links) : ¬ (deepcopyImpl h l).2.Linked := by
  unfold Links.Linked deepcopyImpl
  simp

/-- ... which means: **the deep copy stops counting**. Its objective still runs (the hiddenCount counter moves), but
`evaluations` and the evaluation monitor of the copied solver stay where they were at the time of the copy -/
theorem deepcopy_copy_stops_counting (h : Heap) (l : Links) (ts : List Nat) :
    let h' := (deepcopyImpl h l).1
    let l' := (deepcopyImpl h l).2
    evaluations (calls h' l' ts) l' = evaluations h l ∧ monitor (calls h' l' ts) l' = monitor h l := by
  have key : ∀ (ts : List Nat) (g : Heap), evaluations (calls g (deepcopyImpl h l).2 ts) (deepcopyImpl h l).2
        = evaluations g (deepcopyImpl h l).2
      ∧ monitor (calls g (deepcopyImpl h l).2 ts) (deepcopyImpl h l).2 = monitor g (deepcopyImpl h l).2 := by
    intro ts
    induction ts with
    | nil => intro g; simp [calls]
    | cons t ts ih =>
      intro g
      obtain ⟨a, b⟩ := ih (call g (deepcopyImpl h l).2 t)
      simp only [calls]
      rw [a, b]
      constructor
      · simp [evaluations, call, deepcopyImpl, List.getD_eq_getElem?_getD]
      · simp [monitor, call, deepcopyImpl, List.getD_eq_getElem?_getD]
  obtain ⟨a, b⟩ := key ts (deepcopyImpl h l).1
  refine ⟨a.trans ?_, b.trans ?_⟩
  · simp [evaluations, deepcopyImpl, List.getD_eq_getElem?_getD]
  · simp [monitor, deepcopyImpl, List.getD_eq_getElem?_getD]

/-- the closed witness: a solver with 3 evaluations is deep-copied, the copy evaluates twice: its `evaluations`
is still 3 (5 real calls were made through its objective), while a pickled copy says 5 -/
theorem deepcopy_stops_counting_witness :
    let a := fresh { ctr := [], mon := [] }
    let h := calls a.1 a.2 [10, 11, 12]
    let d := deepcopyImpl h a.2
    let p := pickleCopy h a.2
    evaluations (calls d.1 d.2 [13, 14]) d.2 = 3 ∧ hiddenCount (calls d.1 d.2 [13, 14]) d.2 = 5
    ∧ monitor (calls d.1 d.2 [13, 14]) d.2 = [10, 11, 12]
    ∧ evaluations (calls p.1 p.2 [13, 14]) p.2 = 5 ∧ monitor (calls p.1 p.2 [13, 14]) p.2 = [10, 11, 12, 13, 14] := by
  decide

/-- the deep copy IS independent of the original (its four cells are fresh) -/
theorem deepcopy_disjoint (h : Heap) (l : Links) (hv : l.Valid h) :
    let l' := (deepcopyImpl h l).2
    l'.closureCtr ≠ l.solverCtr ∧ l'.closureCtr ≠ l.closureCtr ∧ l'.closureMon ≠ l.solverMon ∧ l'.closureMon ≠ l.closureMon
    ∧ l.closureCtr ≠ l'.solverCtr ∧ l.closureCtr ≠ l'.closureCtr ∧ l.closureMon ≠ l'.solverMon ∧ l.closureMon ≠ l'.closureMon := by
  obtain ⟨v1, v2, v3, v4⟩ := hv
  unfold deepcopyImpl
  simp
  omega

/-- **redecorate_relinks**: the next `_decorate_objective` (a `Step` after `Finalize` / any `Set*` / with a cost
object that is not the stored one) links solver and objective again, and - since the `start=` fix - keeps the count -/
theorem redecorate_relinks (h : Heap) (l : Links) (hv : l.Valid h) :
    (decorate h l).2.Linked ∧ evaluations (decorate h l).1 (decorate h l).2 = evaluations h l
    ∧ monitor (decorate h l).1 (decorate h l).2 = monitor h l ∧ (decorate h l).2.Valid (decorate h l).1 := by
  obtain ⟨v1, v2, v3, v4⟩ := hv
  refine ⟨⟨rfl, rfl⟩, ?_, ?_, ?_⟩
  · simp [evaluations, decorate, List.getD_eq_getElem?_getD]
  · simp [monitor, decorate]
  · unfold Links.Valid decorate
    simp
    omega

/-- non-vacuity of the hypotheses of `linked_counts` / `pickle_preserves_links`: a fresh solver is valid and linked -/
example : (fresh { ctr := [7], mon := [[1]] }).2.Linked ∧ (fresh { ctr := [7], mon := [[1]] }).2.Valid (fresh { ctr := [7], mon := [[1]] }).1 := by
  decide

/-! ### the shallow copy protocol (`__copy__`) -/

/-- **a solver object counts its own evaluations iff its counter IS the counter of its objective**: for valid
pointers, `n` real calls of the cost add exactly `n` to `evaluations` - for every `n` - exactly when
`solver._fcalls` is the list the decorated objective increments.  (Every way of producing a second solver object -
pickle, `__deepcopy__`, `__copy__` - keeps "each keeps counting its own evaluations" iff it keeps this identity.) -/
theorem counts_iff_ctr_linked (h : Heap) (l : Links) (hv : l.Valid h) :
    (∀ ts : List Nat, evaluations (calls h l ts) l = evaluations h l + ts.length) ↔ l.solverCtr = l.closureCtr := by
  obtain ⟨v1, v2, _, _⟩ := hv
  constructor
  · intro hall
    by_contra hne
    have h1 := hall [0]
    simp [calls, evaluations, call, List.getD_eq_getElem?_getD, List.getElem?_set_ne (Ne.symm hne)] at h1
  · intro heq
    have key : ∀ (ts : List Nat) (g : Heap), l.solverCtr < g.ctr.length →
        evaluations (calls g l ts) l = evaluations g l + ts.length := by
      intro ts
      induction ts with
      | nil => intro g _; simp [calls]
      | cons t ts ih =>
        intro g w1
        simp only [calls, List.length_cons]
        rw [ih (call g l t) (by rw [call_ctr_length]; exact w1)]
        have : evaluations (call g l t) l = evaluations g l + 1 := by
          simp [evaluations, call, ← heq, List.getD_eq_getElem?_getD, w1]
        rw [this]; omega
    intro ts
    exact key ts h v1

/-- **`__copy__` as implemented keeps the link**: the shallow copy holds the very objects of the original, so it is
linked iff the original is, shows the same counter and monitor, and `n` evaluations made through the copy add
exactly `n` to ITS `evaluations` and `n` records to ITS evaluation monitor (the clause "keeps counting its own
evaluations" for a solver continued through `copy.copy`) -/
theorem shallowcopy_keeps_counting (h : Heap) (l : Links) (hv : l.Valid h) (hl : l.Linked) (ts : List Nat) :
    let h' := (shallowCopy h l).1
    let l' := (shallowCopy h l).2
    l'.Linked ∧ l'.Valid h' ∧ evaluations h' l' = evaluations h l ∧ monitor h' l' = monitor h l
    ∧ evaluations (calls h' l' ts) l' = evaluations h l + ts.length
    ∧ monitor (calls h' l' ts) l' = monitor h l ++ ts := by
  obtain ⟨c1, c2⟩ := linked_counts hl ts h hv
  exact ⟨hl, hv, rfl, rfl, c1, c2⟩

/-- ... and it is NOT independent of the original (the property promises independence for restored solvers and DEEP
copies only): the evaluations made through the shallow copy are counted by the original as well -/
theorem shallowcopy_shares_the_counter (h : Heap) (l : Links) (hv : l.Valid h) (hl : l.Linked) (ts : List Nat) :
    evaluations (calls (shallowCopy h l).1 (shallowCopy h l).2 ts) l = evaluations h l + ts.length :=
  (linked_counts hl ts h hv).1

/-- **a shallow copy with a private counter list stops counting**: if `__copy__` gave the copy its own `_fcalls`
list while the (shared) decorated objective keeps incrementing the old one, the copy is never linked and its
`evaluations` stay frozen whatever it evaluates - for every heap and every valid original -/
theorem shallow_copy_private_counter_stops_counting (h : Heap) (l : Links) (hv : l.Valid h) (ts : List Nat) :
    let h' := (shallowCopyPrivateCtr h l).1
    let l' := (shallowCopyPrivateCtr h l).2
    ¬ l'.Linked ∧ evaluations (calls h' l' ts) l' = evaluations h l := by
  obtain ⟨v1, v2, _, _⟩ := hv
  have hne : l.closureCtr ≠ h.ctr.length := Nat.ne_of_lt v2
  refine ⟨?_, ?_⟩
  · unfold Links.Linked shallowCopyPrivateCtr
    simp only
    intro hh
    exact hne hh.1.symm
  · have key : ∀ (ts : List Nat) (g : Heap), evaluations (calls g (shallowCopyPrivateCtr h l).2 ts) (shallowCopyPrivateCtr h l).2
        = evaluations g (shallowCopyPrivateCtr h l).2 := by
      intro ts
      induction ts with
      | nil => intro g; simp [calls]
      | cons t ts ih =>
        intro g
        simp only [calls]
        rw [ih]
        simp [evaluations, call, shallowCopyPrivateCtr, List.getD_eq_getElem?_getD, List.getElem?_set_ne hne]
    rw [key]
    simp [evaluations, shallowCopyPrivateCtr, List.getD_eq_getElem?_getD]

/-- the closed witness: 3 evaluations, shallow copy, 2 more through the copy: `__copy__` as implemented says 5 (and so
does the original), the private-counter variant says 3 -/
theorem shallow_copy_witness :
    let a := fresh { ctr := [], mon := [] }
    let h := calls a.1 a.2 [10, 11, 12]
    let c := shallowCopy h a.2
    let p := shallowCopyPrivateCtr h a.2
    evaluations (calls c.1 c.2 [13, 14]) c.2 = 5 ∧ evaluations (calls c.1 c.2 [13, 14]) a.2 = 5
    ∧ monitor (calls c.1 c.2 [13, 14]) c.2 = [10, 11, 12, 13, 14]
    ∧ evaluations (calls p.1 p.2 [13, 14]) p.2 = 3 ∧ hiddenCount (calls p.1 p.2 [13, 14]) p.2 = 5 := by
  decide

/-! ## (c) solver-private settings given to `Solve` / `Step` as keywords travel in the fields, not in `settings` -/

theorem iter_add {α : Type} (f : α → α) : ∀ (m n : Nat) (a : α), iter f (m + n) a = iter f n (iter f m a) := by
  intro m
  induction m with
  | zero => intro n a; simp [iter]
  | succ m ih =>
    intro n a
    have : m + 1 + n = (m + n) + 1 := by omega
    rw [this]
    simp only [iter]
    exact ih n _

theorem iter_congr_inv {α : Type} (f g : α → α) (I : α → Prop) (hfg : ∀ a, I a → f a = g a) (hI : ∀ a, I a → I (g a)) :
    ∀ (n : Nat) (a : α), I a → iter f n a = iter g n a ∧ I (iter g n a) := by
  intro n
  induction n with
  | zero => intro a ha; exact ⟨rfl, ha⟩
  | succ n ih =>
    intro a ha
    simp only [iter]
    rw [hfg a ha]
    exact ih (g a) (hI a ha)

/-- once a strategy OF THE MODULE is in force, `_process_inputs` returns it and leaves the fields alone - whether the
keyword is given again (what `Solve` does for every `Step`) or not (a bare `Step()` / `Solve()`) -/
theorem de_process_fixed {C : Type} (nKnown : Nat) (s : DESet C) (hk : s.strategy < nKnown) :
    DESet.process nKnown s {} = (s.strategy, s) ∧ DESet.process nKnown s { strategy := some s.strategy } = (s.strategy, s) := by
  cases s
  simp_all [DESet.process, resolve]

/-- **resume = uninterrupted for a run STARTED with keywords (differential evolution 1 and 2)**: `Solve(strategy=..,
CrossProbability=.., ScalingFactor=..)` interrupted after `m` generations (the restart file carries the three fields
and the rest of the state `σ`) and continued by a BARE `Solve()` for `n` generations is the uninterrupted
`Solve(..)` after `m + n` generations - for every generator `gen` of trial vectors, provided the strategy given is a
function of `mystic.strategy` (resolvable by its name) -/
theorem solve_kwds_resume_de {C σ : Type} (nKnown : Nat) (h0 : 0 < nKnown) (gen : Nat → C → C → σ → σ) (kw : DEKw C)
    (hk : ∀ k, kw.strategy = some k → k < nKnown) (m n : Nat) (st : DESet C × σ) :
    deSolveKw (DESet.process nKnown) gen {} n (deSolveKw (DESet.process nKnown) gen kw m st)
      = deSolveKw (DESet.process nKnown) gen kw (m + n) st := by
  -- the strategy in force
  have heff : (DESet.process nKnown st.1 kw).1 < nKnown := by
    unfold DESet.process
    cases hs : kw.strategy with
    | none => simp [resolve]; split <;> omega
    | some k => simpa using hk k hs
  have hstored : (DESet.process nKnown st.1 kw).2.strategy = (DESet.process nKnown st.1 kw).1 := rfl
  generalize hE : (DESet.process nKnown st.1 kw).1 = eff at heff hstored
  let I : DESet C × σ → Prop := fun a => a.1.strategy = eff
  have hstep : ∀ a, I a → deStepKw (DESet.process nKnown) gen { strategy := some eff } a
      = deStepKw (DESet.process nKnown) gen {} a ∧ I (deStepKw (DESet.process nKnown) gen { strategy := some eff } a) := by
    intro a ha
    have hka : a.1.strategy < nKnown := by rw [ha]; exact heff
    obtain ⟨p1, p2⟩ := de_process_fixed nKnown a.1 hka
    rw [ha] at p1 p2
    unfold deStepKw
    rw [p1, p2]
    exact ⟨rfl, ha⟩
  -- the state after the first `m` generations satisfies the invariant
  have hm : I (iter (deStepKw (DESet.process nKnown) gen { strategy := some eff }) m ((DESet.process nKnown st.1 kw).2, st.2)) := by
    have := iter_congr_inv (deStepKw (DESet.process nKnown) gen { strategy := some eff })
      (deStepKw (DESet.process nKnown) gen { strategy := some eff }) I (fun _ _ => rfl) (fun a ha => (hstep a ha).2) m
      ((DESet.process nKnown st.1 kw).2, st.2) hstored
    exact this.2
  unfold deSolveKw
  rw [hE]
  generalize hS : iter (deStepKw (DESet.process nKnown) gen { strategy := some eff }) m ((DESet.process nKnown st.1 kw).2, st.2) = sm at hm
  have hkm : sm.1.strategy < nKnown := by rw [hm]; exact heff
  obtain ⟨p1, _⟩ := de_process_fixed nKnown sm.1 hkm
  rw [p1, hm, iter_add, hS]

/-- **which state must travel / where it must be written (DE)**: if `_process_inputs` wrote back the local default
instead of the entry of `settings`, a strategy given to `Solve` would be used for that call and never recorded: the
run cut after 2 generations and continued by a bare `Solve()` generates with another strategy than the
uninterrupted one (`σ` = the list of strategies the generations were made with) -/
theorem de_writeback_must_be_the_setting_in_force :
    let gen : Nat → Nat → Nat → List Nat → List Nat := fun strat _ _ used => used ++ [strat]
    let st : DESet Nat × List Nat := ({ strategy := 0, probability := 9, scale := 8 }, [])
    let kw : DEKw Nat := { strategy := some 2, cr := some 5 }
    (deSolveKw (DESet.process 7) gen {} 1 (deSolveKw (DESet.process 7) gen kw 2 st)).2 = [2, 2, 2]
    ∧ (deSolveKw (DESet.process 7) gen kw 3 st).2 = [2, 2, 2]
    ∧ (deSolveKw (DESet.processLocal 7) gen kw 3 st).2 = [2, 2, 2]
    ∧ (deSolveKw (DESet.processLocal 7) gen {} 1 (deSolveKw (DESet.processLocal 7) gen kw 2 st)).2 = [2, 2, 0]
    ∧ (deSolveKw (DESet.processLocal 7) gen kw 2 st).1.probability = 5 := by
  decide

/-- **a user's own strategy function is NOT resumable** (the hypothesis `hk` of `solve_kwds_resume_de` cannot be
dropped; known finding F56): the name written to `self.strategy` is not an attribute of `mystic.strategy`, so the
restored solver continued by a bare `Solve()` resolves it to `Best1Bin` -/
theorem solve_kwds_custom_strategy_not_resumed :
    let gen : Nat → Nat → Nat → List Nat → List Nat := fun strat _ _ used => used ++ [strat]
    let st : DESet Nat × List Nat := ({ strategy := 0, probability := 9, scale := 8 }, [])
    let kw : DEKw Nat := { strategy := some 9 }
    (deSolveKw (DESet.process 7) gen kw 3 st).2 = [9, 9, 9]
    ∧ (deSolveKw (DESet.process 7) gen kw 2 st).1.strategy = 9
    ∧ (deSolveKw (DESet.process 7) gen {} 1 (deSolveKw (DESet.process 7) gen kw 2 st)).2 = [9, 9, 0] := by
  decide

/-- inside that class the strongest true statement: handing the SAME function to the resumed `Solve` again is exact,
for every strategy object (module function or not) -/
theorem solve_kwds_resume_de_repassed {C σ : Type} (nKnown : Nat) (gen : Nat → C → C → σ → σ) (kw : DEKw C) (k : Nat)
    (hs : kw.strategy = some k) (m n : Nat) (st : DESet C × σ) :
    deSolveKw (DESet.process nKnown) gen { strategy := some k } n (deSolveKw (DESet.process nKnown) gen kw m st)
      = deSolveKw (DESet.process nKnown) gen kw (m + n) st := by
  have hE : (DESet.process nKnown st.1 kw).1 = k := by simp [DESet.process, hs]
  have hP : ∀ s : DESet C, DESet.process nKnown s { strategy := some k }
      = (k, { strategy := k, probability := s.probability, scale := s.scale }) := by
    intro s; simp [DESet.process]
  have hstored : (DESet.process nKnown st.1 kw).2.strategy = k := by simp [DESet.process, hs]
  let I : DESet C × σ → Prop := fun a => a.1.strategy = k
  have hI : ∀ a, I a → I (deStepKw (DESet.process nKnown) gen { strategy := some k } a) := by
    intro a _
    show (deStepKw (DESet.process nKnown) gen { strategy := some k } a).1.strategy = k
    simp [deStepKw, hP]
  have hm := (iter_congr_inv (deStepKw (DESet.process nKnown) gen { strategy := some k })
      (deStepKw (DESet.process nKnown) gen { strategy := some k }) I (fun _ _ => rfl) hI m
      ((DESet.process nKnown st.1 kw).2, st.2) hstored).2
  unfold deSolveKw
  rw [hE]
  generalize hS : iter (deStepKw (DESet.process nKnown) gen { strategy := some k }) m ((DESet.process nKnown st.1 kw).2, st.2) = sm at hm
  have h1 : (DESet.process nKnown sm.1 { strategy := some k }).1 = k := by simp [hP]
  have h2 : (DESet.process nKnown sm.1 { strategy := some k }).2 = sm.1 := by
    rw [hP]; cases hsm : sm.1; simp_all [I]
  rw [h1, h2, iter_add, hS]

/-- **the same for Nelder-Mead (`radius`, `adaptive`) and Powell (`xtol`, `imax`)**: a run started with
`Solve(radius=.., adaptive=..)` / `Solve(xtol=.., imax=..)`, cut anywhere, and continued by a bare `Solve()` is the
uninterrupted run, for every step function `gen` of the two settings - no hypothesis -/
theorem solve_kwds_resume_2 {A B σ : Type} (gen : A → B → σ → σ) (kw : Kw2 A B) (m n : Nat) (st : Set2 A B × σ) :
    solve2Kw gen {} n (solve2Kw gen kw m st) = solve2Kw gen kw (m + n) st := by
  let eff := st.1.process kw
  let I : Set2 A B × σ → Prop := fun a => a.1 = eff
  have hP : ∀ s : Set2 A B, s.process { a := some eff.a, b := some eff.b } = eff := by
    intro s; simp [Set2.process]
  have hI : ∀ a, I a → I (step2Kw gen { a := some eff.a, b := some eff.b } a) := by
    intro a _
    show (step2Kw gen { a := some eff.a, b := some eff.b } a).1 = eff
    simp [step2Kw, hP]
  have hm := (iter_congr_inv (step2Kw gen { a := some eff.a, b := some eff.b })
      (step2Kw gen { a := some eff.a, b := some eff.b }) I (fun _ _ => rfl) hI m (eff, st.2) rfl).2
  unfold solve2Kw
  show iter _ n (_, (iter (step2Kw gen { a := some eff.a, b := some eff.b }) m (eff, st.2)).2) = _
  generalize hS : iter (step2Kw gen { a := some eff.a, b := some eff.b }) m (eff, st.2) = sm at hm
  have h1 : sm.1.process ({} : Kw2 A B) = eff := by
    have : sm.1 = eff := hm
    rw [this]; simp [Set2.process]
  rw [h1, iter_add, hS]
  have : sm = (eff, sm.2) := by
    have : sm.1 = eff := hm
    rw [← this]
  rw [← this]

/-- non-vacuity: a DE run started with `strategy=Rand1Bin (2)`, `CrossProbability=5`, cut after two generations and
resumed bare, really generates with the given settings after the cut -/
example :
    let gen : Nat → Nat → Nat → List (Nat × Nat × Nat) → List (Nat × Nat × Nat) := fun s p f used => used ++ [(s, p, f)]
    (deSolveKw (DESet.process 7) gen {} 1
        (deSolveKw (DESet.process 7) gen { strategy := some 2, cr := some 5 } 2
          ({ strategy := 0, probability := 9, scale := 8 }, []))).2 = [(2, 5, 8), (2, 5, 8), (2, 5, 8)]
    ∧ (solve2Kw (fun (a b : Nat) (used : List (Nat × Nat)) => used ++ [(a, b)]) {} 1
        (solve2Kw (fun (a b : Nat) (used : List (Nat × Nat)) => used ++ [(a, b)]) { a := some 3 } 2
          ({ a := 1, b := 4 }, []))).2 = [(3, 4), (3, 4), (3, 4)] := by
  decide

end MysticVerif.C06
