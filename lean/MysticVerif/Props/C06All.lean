/- C06: the per-algorithm resume theorems (Props/C06.lean) and the closed-loop ones (Props/C06Closed.lean) -/
import MysticVerif.Props.C06
import MysticVerif.Props.C06Closed
