/- C06: the per-algorithm resume theorems (Props/C06.lean) the closed-loop ones (Props/C06Closed.lean) and the
   counter / monitor cells under a monitor replaced in the middle of the run (Props/C06Mon.lean) -/
import MysticVerif.Props.C06
import MysticVerif.Props.C06Closed
import MysticVerif.Props.C06Mon
