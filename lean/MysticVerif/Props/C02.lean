/-
C02 - strict ranges: the objective is never evaluated outside the box.

`o.useRange = true` models "strict ranges are set" for the current decoration of the objective; a change of the
ranges re-decorates the objective at the next Step (control model, `Ctl.finalize` / `live`), after which these
theorems apply to the new box.
-/
import MysticVerif.Proofs.Solver
import MysticVerif.Proofs.NelderMead
import MysticVerif.Proofs.PowellS
import MysticVerif.Props.C02Init

namespace MysticVerif.C02
open MysticVerif.Solver

variable {X E R : Type}

/-- **every path to the user's cost goes through the box test**: a call is logged only for a point in the box -/
theorem evalB_in_box (o : Obj X E) (y : X) (log : List (X × E)) (hu : o.useRange = true) :
    ∀ p ∈ (o.evalB y log).2, p ∉ log → o.inBox p.1 = true := by
  intro p hp hnot
  unfold Obj.evalB at hp
  split at hp
  · exact absurd hp hnot
  · rename_i hb
    simp only [List.mem_append, List.mem_singleton] at hp
    rcases hp with hp | hp
    · exact absurd hp hnot
    · subst hp
      simp only [hu, Bool.true_and, Bool.not_eq_true', Bool.not_eq_false] at hb
      exact hb

/-- **DE / DE2**: with strict ranges in force, every point at which the user's cost was called, over any number
of iterations and any trial vectors, lies inside the box. -/
theorem de_evaluations_in_box [LinearOrder E] (o : Obj X E) (h : Hyp o) (pop : List X) (x0 : X)
    (trialss : List (List X)) (hu : o.useRange = true) :
    ∀ p ∈ (DE.run1 o trialss (DE.init o pop x0)).log, o.inBox p.1 = true := by
  intro p hp
  exact ((DE.run1_inv h trialss _ (DE.init_inv pop x0)).logOK p hp).2.2 hu

/-- **DE / DE2**: a finite reported best energy comes with a best solution inside the box. -/
theorem de_best_in_box [LinearOrder E] (o : Obj X E) (h : Hyp o) (pop : List X) (x0 : X)
    (trialss : List (List X)) (hu : o.useRange = true)
    (hfin : (DE.run1 o trialss (DE.init o pop x0)).bestE ≠ o.top) :
    o.inBox (DE.run1 o trialss (DE.init o pop x0)).best = true :=
  ((DE.run1_inv h trialss _ (DE.init_inv pop x0)).best hfin).2.2.2 hu

/-- **Nelder-Mead**: every evaluation of an update step lies inside the box -/
theorem nm_evaluations_in_box [Add R] [Sub R] [Mul R] [Div R] [LinearOrder E] (o : Obj (Pt R) E) (h : Hyp o)
    (c : Coef R) (st : Pt R → Pt R) (hst : ∀ x, o.K (st x) = o.K x) (s : NM R E) (hs : NMInv o s)
    (hu : o.useRange = true) : ∀ p ∈ (NM.update o c st s).1.log, o.inBox p.1 = true := by
  intro p hp
  exact ((NM.update_inv h c st hst s hs).logOK p hp).2.2 hu

/-- **Nelder-Mead, reported best inside the box when the constraints do not move it** (the stored vertex is
the evaluated point then).  With constraints that move the vertex the clause fails on the code: known finding F3
(`C01.nm_best_not_evaluated_witness`). -/
theorem nm_best_in_box_of_fixed [LinearOrder E] (o : Obj (Pt R) E) (s : NM R E) (hs : NMInv o s)
    (x : Pt R) (e : E) (tl : List (Pt R × E)) (hsx : s.simplex = (x, e) :: tl) (hfix : o.K x = x)
    (hne : e ≠ o.top) (hu : o.useRange = true) : o.inBox x = true := by
  have hg := hs.good (x, e) (by rw [hsx]; simp) hne
  simp only [hfix] at hg
  exact hg.2.2 hu

/-- **initial clipping** (`_clipGuessWithinRangeBoundary(x0, at=True)`, numpy `clip`): coordinate-wise result in
`[lo, hi]`, and the identity on points already inside -/
def clip1 [LT E] [DecidableLT E] (lo hi x : E) : E := let y := if x < lo then lo else x; if hi < y then hi else y

theorem clip1_in_box [LinearOrder E] (lo hi x : E) (hle : lo ≤ hi) : lo ≤ clip1 lo hi x ∧ clip1 lo hi x ≤ hi := by
  unfold clip1
  simp only
  split <;> split <;> constructor <;> first | exact le_refl _ | exact hle | skip
  all_goals first
    | exact le_of_lt ‹_›
    | exact not_lt.mp ‹_›
    | (rename_i h1 h2; exact le_trans (not_lt.mp h1) (le_refl _))
    | exact le_of_not_gt ‹_›

theorem clip1_id [LinearOrder E] (lo hi x : E) (h1 : lo ≤ x) (h2 : x ≤ hi) : clip1 lo hi x = x := by
  unfold clip1
  simp only
  rw [if_neg (not_lt.mpr h1), if_neg (not_lt.mpr h2)]

/-- non-vacuity: a box, a point outside it, the out-of-box evaluation is refused and not logged -/
def exObj : Obj Int Int :=
  { raw := fun x => x, pen := fun _ => 0, K := id, inBox := fun x => decide (0 ≤ x ∧ x ≤ 5), useRange := true,
    top := 100, add := (· + ·) }
example : exObj.evalB 7 [] = (100, []) ∧ exObj.evalB 3 [] = (3, [(3, 3)]) := by decide

/-! ## Powell on the decorated objective (any line-search oracle) -/
open MysticVerif.PowellS

/-- **Powell: every evaluation the line searches, the extrapolation step and the initial evaluation make lies in the
box** - each goes through `Obj.objK`, hence through the box test -/
theorem pw_evaluations_in_box [Sub R] [Mul R] [LinearOrder E] (o : Obj (Pt R) E) (h : Hyp o) (c : PwCfg R E)
    (ls : Nat → Pt R → Pt R → LsRec R) (record : Bool) (x0 : Pt R) (direc : List (Pt R)) (hd : direc ≠ []) (n : Nat)
    (hu : o.useRange = true) : ∀ p ∈ (reach o c ls record x0 direc n).log, o.inBox p.1 = true := by
  intro p hp
  exact ((reach_inv h c ls record x0 direc hd n).logOK p hp).2.2 hu

/-- **Powell: a finite reported best lies in the box** -/
theorem pw_best_in_box [Sub R] [Mul R] [LinearOrder E] (o : Obj (Pt R) E) (h : Hyp o) (c : PwCfg R E)
    (ls : Nat → Pt R → Pt R → LsRec R) (record : Bool) (x0 : Pt R) (direc : List (Pt R)) (hd : direc ≠ []) (n : Nat)
    (hu : o.useRange = true) (hfin : (reach o c ls record x0 direc n).fval ≠ o.top) :
    o.inBox (reach o c ls record x0 direc n).x = true :=
  ((reach_inv h c ls record x0 direc hd n).best hfin).2.2.2 hu

end MysticVerif.C02
