/-
Line protocol shared by every model driver (DESIGN.md, Appendix A).

One request per line: a sequence of s-expressions.  Atoms:
  `f<nat>`   a binary64 given by its UInt64 bit pattern (never decimal text)
  `<int>`    an integer literal (optionally signed)
  anything else is a symbol.
`( ... )` is a list.  The first two atoms of a request are the property id and
the command.  Replies are produced by the handlers with the printers below.
No Mathlib imports here: this file is linked into the `mvdrv` executable.
-/

namespace MysticVerif

inductive Val where
  | int (i : Int)
  | flt (f : Float)
  | sym (s : String)
  | list (l : List Val)
  deriving Inhabited

namespace Val

partial def toStr : Val → String
  | .int i => toString i
  | .flt f => "f" ++ toString f.toBits.toNat
  | .sym s => s
  | .list l => "(" ++ " ".intercalate (l.map toStr) ++ ")"

instance : ToString Val := ⟨toStr⟩

def asInt? : Val → Option Int
  | .int i => some i
  | _ => none

def asNat? : Val → Option Nat
  | .int i => if 0 ≤ i then some i.toNat else none
  | _ => none

/-- numbers: an `f<bits>` literal or an integer (converted exactly when small) -/
def asFloat? : Val → Option Float
  | .flt f => some f
  | .int i => some (if 0 ≤ i then Float.ofNat i.toNat else -(Float.ofNat (-i).toNat))
  | _ => none

def asSym? : Val → Option String
  | .sym s => some s
  | _ => none

def asList? : Val → Option (List Val)
  | .list l => some l
  | _ => none

def asFloats? (v : Val) : Option (List Float) := do
  let l ← v.asList?
  l.mapM asFloat?

def asNats? (v : Val) : Option (List Nat) := do
  let l ← v.asList?
  l.mapM asNat?

def asInts? (v : Val) : Option (List Int) := do
  let l ← v.asList?
  l.mapM asInt?

def asBool? : Val → Option Bool
  | .sym "true" => some true
  | .sym "false" => some false
  | .sym "True" => some true
  | .sym "False" => some false
  | _ => none

end Val

/-! ### tokenizer / parser -/

private def isDelim (c : Char) : Bool := c == '(' || c == ')' || c == ' ' || c == '\t' || c == '\n' || c == '\r'

def tokenize (s : String) : List String := Id.run do
  let mut out : Array String := #[]
  let mut cur : String := ""
  for c in s.toList do
    if isDelim c then
      if cur != "" then
        out := out.push cur
        cur := ""
      if c == '(' then out := out.push "("
      else if c == ')' then out := out.push ")"
    else
      cur := cur.push c
  if cur != "" then out := out.push cur
  return out.toList

def parseAtom (t : String) : Val :=
  let cs := t.toList
  match cs with
  | 'f' :: rest =>
    if !rest.isEmpty && rest.all Char.isDigit then
      .flt (Float.ofBits (UInt64.ofNat (String.ofList rest).toNat!))
    else .sym t
  | '-' :: rest =>
    if !rest.isEmpty && rest.all Char.isDigit then .int (-(Int.ofNat (String.ofList rest).toNat!))
    else .sym t
  | _ =>
    if !cs.isEmpty && cs.all Char.isDigit then .int (Int.ofNat t.toNat!) else .sym t

/-- parse a token list into a sequence of values (fuel = number of tokens) -/
def parseSeq : Nat → List String → List Val → Option (List Val × List String)
  | 0, toks, acc => if toks.isEmpty then some (acc.reverse, []) else none
  | _ + 1, [], acc => some (acc.reverse, [])
  | _ + 1, ")" :: rest, acc => some (acc.reverse, ")" :: rest)
  | n + 1, "(" :: rest, acc =>
    match parseSeq n rest [] with
    | some (inner, ")" :: rest') => parseSeq n rest' (.list inner :: acc)
    | _ => none
  | n + 1, t :: rest, acc => parseSeq n rest (parseAtom t :: acc)

def parseLine (s : String) : Option (List Val) :=
  let toks := tokenize s
  match parseSeq (toks.length + 1) toks [] with
  | some (vs, []) => some vs
  | _ => none

/-! ### printers -/

def pF (f : Float) : String := "f" ++ toString f.toBits.toNat
def pFs (l : List Float) : String := "(" ++ " ".intercalate (l.map pF) ++ ")"
def pFss (l : List (List Float)) : String := "(" ++ " ".intercalate (l.map pFs) ++ ")"
def pN (n : Nat) : String := toString n
def pNs (l : List Nat) : String := "(" ++ " ".intercalate (l.map toString) ++ ")"
def pIs (l : List Int) : String := "(" ++ " ".intercalate (l.map toString) ++ ")"
def pB (b : Bool) : String := if b then "true" else "false"
def pL (l : List String) : String := "(" ++ " ".intercalate l ++ ")"

/-- keyword lookup in a request `... (key value) ...` -/
def kw? (args : List Val) (k : String) : Option Val :=
  args.findSome? fun
    | .list [.sym k', v] => if k' == k then some v else none
    | .list (.sym k' :: vs) => if k' == k then some (.list vs) else none
    | _ => none

/-- handler type: the tail of the request (after property id) to a reply -/
abbrev Handler := List Val → String

end MysticVerif
