/-
The Brent line search of Powell's method: `bracket` (mystic/_scipy060optimize.py l.1646-1725), class `Brent` /
function `brent` (l.1355-1486, l.1488-1547; `full_output=1`) and `_linesearch_powell` (scipy_optimize.py l.552-562 and
the reference copy _scipy060optimize.py l.1729-1737), transcribed statement by statement over an ABSTRACT scalar type:
only `+ - * /`, unary minus, `abs`, `<`, `<=`, `==` and the literal constants are used, every arithmetic expression is
written in the association and operand order of the Python source.  At `Float` the driver reproduces the real
alpha sequence, `(alpha_min, fret, iterations, funcalls)` and the raised exceptions bit for bit (NaN / inf included:
all comparisons are the IEEE ones, a comparison with NaN is false on both sides); the theorems (Proofs/Brent.lean)
instantiate a linear order and leave the arithmetic uninterpreted.

Every cost evaluation appends `(alpha, f alpha)` to a log, in call order; an exception carries the log so far.
Python `a > b` is written `b < a`, `a >= b` is `b ≤ a` (same IEEE predicate).  No Mathlib imports.
-/
import MysticVerif.Model.Powell
import MysticVerif.Model.PowellS

namespace MysticVerif.Brent
open MysticVerif.Solver

variable {R : Type}

/-- `abs` and the literals of the two routines -/
structure K (R : Type) where
  abs : R → R
  zero : R          -- 0.0 / 0
  one : R           -- 1.0   (`p*1.0/tmp2`)
  two : R           -- 2.0
  half : R          -- 0.5
  gold : R          -- bracket: _gold = 1.618034
  verysmall : R     -- bracket: _verysmall_num = 1e-21
  growLimit : R     -- bracket: grow_limit = 110.0
  mintol : R        -- Brent._mintol = 1.0e-11
  cg : R            -- Brent._cg = 0.3819660

/-- the exceptions: `RuntimeError("Too many iterations.")` (bracket l.1693), the two `assert`s of a 3-point `brack`
(l.1385 / l.1389), `ValueError` for any other `brack` length (l.1392), `UnboundLocalError` (`deltax = rat` l.1433 before
`rat` was ever assigned: only reachable when `tol1` is NaN in the first iteration), and the model's own `fuel` -/
inductive Err where
  | tooMany | notBracketX | notBracketF | badBrack | unbound | fuel
  deriving DecidableEq, Repr, Inhabited

abbrev Log (R : Type) := List (R × R)

abbrev Res (R α : Type) := Except (Err × Log R) α

/-- `xa, xb, xc, fa, fb, fc, funcalls` -/
structure Bk (R : Type) where
  xa : R
  xb : R
  xc : R
  fa : R
  fb : R
  fc : R
  funcalls : Nat
  log : Log R

inductive Step (α : Type) where
  | stop (a : α)      -- `return` inside the bracket loop / `break` in Brent's loop
  | next (a : α)      -- fall through to the next pass
  | raise (e : Err)

section
variable [Add R] [Sub R] [Mul R] [Div R] [Neg R] [LT R] [DecidableLT R] [LE R] [DecidableLE R] [BEq R]

/-- the abscissa of the parabola's stationary point (l.1682-1689):
```
tmp1 = (xb - xa)*(fb-fc); tmp2 = (xb - xc)*(fb-fa); val = tmp2-tmp1
if abs(val) < _verysmall_num: denom = 2.0*_verysmall_num
else: denom = 2.0*val
w = xb - ((xb-xc)*tmp2-(xb-xa)*tmp1)/denom
``` -/
def parabolicW (k : K R) (s : Bk R) : R :=
  let tmp1 := (s.xb - s.xa) * (s.fb - s.fc)
  let tmp2 := (s.xb - s.xc) * (s.fb - s.fa)
  let val := tmp2 - tmp1
  let denom := if k.abs val < k.verysmall then k.two * k.verysmall else k.two * val
  s.xb - ((s.xb - s.xc) * tmp2 - (s.xb - s.xa) * tmp1) / denom

/-- one pass of `while (fc < fb):` after the `iter > maxiter` test (l.1681-1724):
```
tmp1 = (xb - xa)*(fb-fc); tmp2 = (xb - xc)*(fb-fa); val = tmp2-tmp1
if abs(val) < _verysmall_num: denom = 2.0*_verysmall_num
else: denom = 2.0*val
w = xb - ((xb-xc)*tmp2-(xb-xa)*tmp1)/denom
wlim = xb + grow_limit*(xc-xb)
if (w-xc)*(xb-w) > 0.0:
    fw = func(w)
    if (fw < fc): xa = xb; xb=w; fa=fb; fb=fw; return
    elif (fw > fb): xc = w; fc=fw; return
    w = xc + _gold*(xc-xb); fw = func(w)
elif (w-wlim)*(wlim-xc) >= 0.0: w = wlim; fw = func(w)
elif (w-wlim)*(xc-w) > 0.0:
    fw = func(w)
    if (fw < fc): xb=xc; xc=w; w=xc+_gold*(xc-xb); fb=fc; fc=fw; fw=func(w)
else: w = xc + _gold*(xc-xb); fw = func(w)
xa=xb; xb=xc; xc=w; fa=fb; fb=fc; fc=fw
``` -/
def bracketBody (k : K R) (f : R → R) (s : Bk R) : Step (Bk R) :=
  let w := parabolicW k s
  let wlim := s.xb + k.growLimit * (s.xc - s.xb)
  let wg := s.xc + k.gold * (s.xc - s.xb)
  if k.zero < (w - s.xc) * (s.xb - w) then
    if f w < s.fc then
      .stop { xa := s.xb, xb := w, xc := s.xc, fa := s.fb, fb := f w, fc := s.fc, funcalls := s.funcalls + 1,
              log := s.log ++ [(w, f w)] }
    else if s.fb < f w then
      .stop { xa := s.xa, xb := s.xb, xc := w, fa := s.fa, fb := s.fb, fc := f w, funcalls := s.funcalls + 1,
              log := s.log ++ [(w, f w)] }
    else
      .next { xa := s.xb, xb := s.xc, xc := wg, fa := s.fb, fb := s.fc, fc := f wg, funcalls := s.funcalls + 2,
              log := s.log ++ [(w, f w), (wg, f wg)] }
  else if k.zero ≤ (w - wlim) * (wlim - s.xc) then
    .next { xa := s.xb, xb := s.xc, xc := wlim, fa := s.fb, fb := s.fc, fc := f wlim, funcalls := s.funcalls + 1,
            log := s.log ++ [(wlim, f wlim)] }
  else if k.zero < (w - wlim) * (s.xc - w) then
    if f w < s.fc then
      -- xb=xc; xc=w; w=xc+_gold*(xc-xb); fb=fc; fc=fw; fw=func(w);  then the shift
      .next { xa := s.xc, xb := w, xc := w + k.gold * (w - s.xc), fa := s.fc, fb := f w,
              fc := f (w + k.gold * (w - s.xc)), funcalls := s.funcalls + 2,
              log := s.log ++ [(w, f w), (w + k.gold * (w - s.xc), f (w + k.gold * (w - s.xc)))] }
    else
      .next { xa := s.xb, xb := s.xc, xc := w, fa := s.fb, fb := s.fc, fc := f w, funcalls := s.funcalls + 1,
              log := s.log ++ [(w, f w)] }
  else
    .next { xa := s.xb, xb := s.xc, xc := wg, fa := s.fb, fb := s.fc, fc := f wg, funcalls := s.funcalls + 1,
            log := s.log ++ [(wg, f wg)] }

/-- `while (fc < fb): ... if iter > maxiter: raise RuntimeError("Too many iterations."); iter += 1; ...`
(`w`, `wlim` are computed before the test but nothing is evaluated before it) -/
def bracketLoop (k : K R) (f : R → R) (maxiter : Nat) : Nat → Nat → Bk R → Res R (Bk R)
  | 0, _, s => .error (.fuel, s.log)
  | fuel + 1, iter, s =>
    if s.fc < s.fb then
      if maxiter < iter then .error (.tooMany, s.log)
      else
        match bracketBody k f s with
        | .stop s' => .ok s'
        | .next s' => bracketLoop k f maxiter fuel (iter + 1) s'
        | .raise e => .error (e, s.log)
    else .ok s

/-- the state entering the loop (l.1674-1680):
```
fa = func(xa); fb = func(xb)
if (fa < fb): xa, xb = xb, xa; fa, fb = fb, fa
xc = xb + _gold*(xb-xa); fc = func(xc); funcalls = 3; iter = 0
``` -/
def bracketInit (k : K R) (f : R → R) (xa xb : R) (log0 : Log R) : Bk R :=
  let xa' := if f xa < f xb then xb else xa
  let xb' := if f xa < f xb then xa else xb
  let xc := xb' + k.gold * (xb' - xa')
  { xa := xa', xb := xb', xc := xc, fa := f xa', fb := f xb', fc := f xc, funcalls := 3,
    log := log0 ++ [(xa, f xa), (xb, f xb), (xc, f xc)] }

/-- `bracket(func, xa, xb, grow_limit, maxiter)` -/
def bracket (k : K R) (f : R → R) (xa xb : R) (maxiter fuel : Nat) (log0 : Log R := []) : Res R (Bk R) :=
  bracketLoop k f maxiter fuel 0 (bracketInit k f xa xb log0)

/-- the `brack` argument of `brent` -/
inductive Brack (R : Type) where
  | none
  | two (a b : R)
  | three (a b c : R)
  | bad                -- any other length

/-- `Brent.get_bracket_info` (l.1373-1395); `bracket` is called with its default `maxiter=1000` (parameter `bmax`) -/
def getBracketInfo (k : K R) (f : R → R) (brack : Brack R) (bmax fuel : Nat) : Res R (Bk R) :=
  match brack with
  | .none => bracket k f k.zero k.one bmax fuel
  | .two a b => bracket k f a b bmax fuel
  | .three a b c =>
    let xa := if c < a then c else a
    let xc := if c < a then a else c
    if xa < b ∧ b < xc then
      if f b < f xa ∧ f b < f xc then
        .ok { xa := xa, xb := b, xc := xc, fa := f xa, fb := f b, fc := f xc, funcalls := 3,
              log := [(xa, f xa), (b, f b), (xc, f xc)] }
      else .error (.notBracketF, [(xa, f xa), (b, f b), (xc, f xc)])
    else .error (.notBracketX, [])
  | .bad => .error (.badBrack, [])

/-- the locals of `Brent.optimize`'s loop -/
structure Bs (R : Type) where
  x : R
  w : R
  v : R
  fx : R
  fw : R
  fv : R
  a : R
  b : R
  deltax : R
  rat : Option R        -- unassigned until the first golden-section step
  iter : Nat
  funcalls : Nat
  log : Log R

/-- l.1406-1414:
```
x=w=v=xb; fw=fv=fx=func(x)
if (xa < xc): a = xa; b = xc
else: a = xc; b = xa
deltax = 0.0; funcalls = 1; iter = 0
```
(the bracket's own evaluation count is DISCARDED: the reported `funcalls` counts Brent's loop only) -/
def brentInit (k : K R) (f : R → R) (bk : Bk R) : Bs R :=
  { x := bk.xb, w := bk.xb, v := bk.xb, fx := f bk.xb, fw := f bk.xb, fv := f bk.xb,
    a := if bk.xa < bk.xc then bk.xa else bk.xc, b := if bk.xa < bk.xc then bk.xc else bk.xa,
    deltax := k.zero, rat := none, iter := 0, funcalls := 1, log := bk.log ++ [(bk.xb, f bk.xb)] }

/-- `if (x>=xmid): deltax=a-x else: deltax=b-x ; rat = _cg*deltax` : the pair `(deltax, rat)` -/
def goldenStep (k : K R) (xmid : R) (s : Bs R) : R × R :=
  (if xmid ≤ s.x then s.a - s.x else s.b - s.x, k.cg * (if xmid ≤ s.x then s.a - s.x else s.b - s.x))

/-- l.1421-1446: the new `(deltax, rat)`; `none` = `UnboundLocalError` at `deltax = rat`
```
if (abs(deltax) <= tol1): <golden section step>
else:
    tmp1 = (x-w)*(fx-fv); tmp2 = (x-v)*(fx-fw); p = (x-v)*tmp2 - (x-w)*tmp1; tmp2 = 2.0*(tmp2-tmp1)
    if (tmp2 > 0.0): p = -p
    tmp2 = abs(tmp2); dx_temp = deltax; deltax = rat
    if ((p > tmp2*(a-x)) and (p < tmp2*(b-x)) and (abs(p) < abs(0.5*tmp2*dx_temp))):
        rat = p*1.0/tmp2; u = x + rat
        if ((u-a) < tol2 or (b-u) < tol2):
            if xmid-x >= 0: rat = tol1
            else: rat = -tol1
    else: <golden section step>
``` -/
def chooseStep (k : K R) (tol1 tol2 xmid : R) (s : Bs R) : Option (R × R) :=
  if k.abs s.deltax ≤ tol1 then some (goldenStep k xmid s)
  else
    let tmp1 := (s.x - s.w) * (s.fx - s.fv)
    let tmp2 := (s.x - s.v) * (s.fx - s.fw)
    let p0 := (s.x - s.v) * tmp2 - (s.x - s.w) * tmp1
    let t2 := k.two * (tmp2 - tmp1)
    let p := if k.zero < t2 then -p0 else p0
    let t3 := k.abs t2
    match s.rat with
    | none => none
    | some r =>
      if t3 * (s.a - s.x) < p ∧ p < t3 * (s.b - s.x) ∧ k.abs p < k.abs (k.half * t3 * s.deltax) then
        if (s.x + p * k.one / t3) - s.a < tol2 ∨ s.b - (s.x + p * k.one / t3) < tol2 then
          some (r, if k.zero ≤ xmid - s.x then tol1 else -tol1)
        else some (r, p * k.one / t3)
      else some (goldenStep k xmid s)

/-- l.1448-1470: the bookkeeping after `fu = func(u)`:
```
if (fu > fx):
    if (u<x): a=u
    else: b=u
    if (fu<=fw) or (w==x): v=w; w=u; fv=fw; fw=fu
    elif (fu<=fv) or (v==x) or (v==w): v=u; fv=fu
else:
    if (u >= x): a = x
    else: b = x
    v=w; w=x; x=u; fv=fw; fw=fx; fx=fu
iter += 1
``` -/
def update (s : Bs R) (u fu deltax rat : R) : Bs R :=
  if s.fx < fu then
    if fu ≤ s.fw ∨ (s.w == s.x) = true then
      { s with a := if u < s.x then u else s.a, b := if u < s.x then s.b else u,
               v := s.w, w := u, fv := s.fw, fw := fu,
               deltax := deltax, rat := some rat, iter := s.iter + 1, funcalls := s.funcalls + 1, log := s.log ++ [(u, fu)] }
    else if fu ≤ s.fv ∨ (s.v == s.x) = true ∨ (s.v == s.w) = true then
      { s with a := if u < s.x then u else s.a, b := if u < s.x then s.b else u,
               v := u, fv := fu,
               deltax := deltax, rat := some rat, iter := s.iter + 1, funcalls := s.funcalls + 1, log := s.log ++ [(u, fu)] }
    else
      { s with a := if u < s.x then u else s.a, b := if u < s.x then s.b else u,
               deltax := deltax, rat := some rat, iter := s.iter + 1, funcalls := s.funcalls + 1, log := s.log ++ [(u, fu)] }
  else
    { s with a := if s.x ≤ u then s.x else s.a, b := if s.x ≤ u then s.b else s.x,
             v := s.w, w := s.x, x := u, fv := s.fw, fw := s.fx, fx := fu,
             deltax := deltax, rat := some rat, iter := s.iter + 1, funcalls := s.funcalls + 1, log := s.log ++ [(u, fu)] }

/-- the trial abscissa (l.1448-1452): `if (abs(rat) < tol1): u = x + tol1 if rat >= 0 else x - tol1 ; else: u = x + rat` -/
def trialPoint (k : K R) (tol1 rat : R) (s : Bs R) : R :=
  if k.abs rat < tol1 then (if k.zero ≤ rat then s.x + tol1 else s.x - tol1) else s.x + rat

/-- one pass of `while (iter < self.maxiter):` (l.1415-1470):
```
tol1 = self.tol*abs(x) + _mintol; tol2 = 2.0*tol1; xmid = 0.5*(a+b)
if abs(x-xmid) < (tol2-0.5*(b-a)): xmin=x; fval=fx; break
``` -/
def brentIter (k : K R) (f : R → R) (tol : R) (s : Bs R) : Step (Bs R) :=
  let tol1 := tol * k.abs s.x + k.mintol
  let tol2 := k.two * tol1
  let xmid := k.half * (s.a + s.b)
  if k.abs (s.x - xmid) < tol2 - k.half * (s.b - s.a) then .stop s
  else
    match chooseStep k tol1 tol2 xmid s with
    | none => .raise .unbound
    | some dr => .next (update s (trialPoint k tol1 dr.2 s) (f (trialPoint k tol1 dr.2 s)) dr.1 dr.2)

/-- `while (iter < self.maxiter)`: the first argument is `maxiter - iter` (the loop's own fuel) -/
def brentLoop (k : K R) (f : R → R) (tol : R) : Nat → Bs R → Res R (Bs R)
  | 0, s => .ok s
  | n + 1, s =>
    match brentIter k f tol s with
    | .stop s' => .ok s'
    | .next s' => brentLoop k f tol n s'
    | .raise e => .error (e, s.log)

/-- `(xmin, fval, iter, funcalls)` of `brent(..., full_output=1)` + the evaluation log; `nbracket` = the bracket's count -/
structure Out (R : Type) where
  xmin : R
  fval : R
  iter : Nat
  funcalls : Nat
  nbracket : Nat
  log : Log R

/-- `Brent.optimize` from a bracket -/
def optimize (k : K R) (f : R → R) (tol : R) (maxiter : Nat) (bk : Bk R) : Res R (Out R) :=
  match brentLoop k f tol maxiter (brentInit k f bk) with
  | .ok s => .ok { xmin := s.x, fval := s.fx, iter := s.iter, funcalls := s.funcalls, nbracket := bk.funcalls, log := s.log }
  | .error e => .error e

/-- `brent(func, brack=brack, tol=tol, full_output=1, maxiter=maxiter)` -/
def brent (k : K R) (f : R → R) (brack : Brack R) (tol : R) (maxiter bmax fuel : Nat) : Res R (Out R) :=
  match getBracketInfo k f brack bmax fuel with
  | .ok bk => optimize k f tol maxiter bk
  | .error e => .error e

/-! ### `_linesearch_powell(func, p, xi, tol, maxiter)`
```
def myfunc(alpha): return func(p + alpha * xi)
alpha_min, fret, iter, num = brent(myfunc, full_output=1, tol=tol, maxiter=maxiter)
xi = alpha_min*xi
return squeeze(fret), p+xi, xi
``` -/

/-- `p + alpha * xi` (numpy, elementwise) -/
def along (p xi : Pt R) (alpha : R) : Pt R := vadd p (vscale alpha xi)

def lineSearch (k : K R) (func : Pt R → R) (p xi : Pt R) (tol : R) (maxiter bmax fuel : Nat) : Res R (Out R) :=
  brent k (fun alpha => func (along p xi alpha)) .none tol maxiter bmax fuel

/-- the line search as the oracle of `Model/Powell.lean` (`ncalls` = ALL cost calls, bracket included); an exception
(which aborts the real `fmin_powell`) is mapped to `bad` -/
def lsOut (k : K R) (func : Pt R → R) (tol : R) (maxiter bmax fuel : Nat) (bad : Pt R → Pt R → Powell.LsOut R R)
    (p xi : Pt R) : Powell.LsOut R R :=
  match lineSearch k func p xi tol maxiter bmax fuel with
  | .ok o => { fret := o.fval, x := vadd p (vscale o.xmin xi), xi := vscale o.xmin xi, ncalls := o.log.length }
  | .error _ => bad p xi

/-- the literals of the Python source at `Float` (`grow_limit` is an argument of `bracket`, default 110.0); shared by the
drivers so that every Float instantiation of the search uses the same constants -/
def floatK (grow : Float := 110.0) : K Float :=
  { abs := Float.abs, zero := 0.0, one := 1.0, two := 2.0, half := 0.5, gold := 1.618034, verysmall := 1e-21,
    growLimit := grow, mintol := 1.0e-11, cg := 0.3819660 }

/-- split a list at the first element satisfying `q` -/
def splitFirst {α : Type} (q : α → Bool) : List α → Option (List α × α × List α)
  | [] => none
  | a :: l =>
    if q a = true then some ([], a, l)
    else match splitFirst q l with
      | some r => some (a :: r.1, r.2.1, r.2.2)
      | none => none

/-- the line search as the oracle of `Model/PowellS.lean`: the points handed to the cost before / at / after the FIRST
evaluated point equal (under `eqv`, bitwise equality in the driver) to the returned `p + alpha_min*xi` - the same rule
by which harness/solvermodel.py `pw_request` cuts the recorded calls - and the scaled direction.
`PowellS` indexes its oracle by the number of the search, which the modelled search does not need. -/
def lsRec (k : K R) (eqv : Pt R → Pt R → Bool) (func : Pt R → R) (tol : R) (maxiter bmax fuel : Nat)
    (bad : Pt R → Pt R → PowellS.LsRec R) (_n : Nat) (p xi : Pt R) : PowellS.LsRec R :=
  match lineSearch k func p xi tol maxiter bmax fuel with
  | .ok o =>
    match splitFirst (eqv (vadd p (vscale o.xmin xi))) (o.log.map fun e => along p xi e.1) with
    | some r => { pre := r.1, y := r.2.1, post := r.2.2, xi := vscale o.xmin xi }
    | none => bad p xi
  | .error _ => bad p xi

end

end MysticVerif.Brent
