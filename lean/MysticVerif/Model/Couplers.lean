/-
Model of the function couplers of `mystic.coupler` (coupler.py l.20-164) WITH their decorator-time arguments, and
of the adapters `constraints.with_constraint` (constraints.py l.117-142).

A python call `g(x, *extra)` is a function of the point `x` and one bundle of extra arguments.  Every coupler has
two bundles: `a` given when the coupler is built (`args`, `kwds`) and `b` given when the coupled function is
called (`*argz`, `**kwdz`).  The plain couplers hand `a` to the COUPLING function (constraint / penalty) and `b`
to the decorated function; the `_proxy` variants do the opposite ("passes args and kwds to the inner function
instead of the decorated function").  No Mathlib imports: linked into `mvdrv`.
-/

namespace MysticVerif.Cpl

variable {X Y Z A B R : Type}

/-- `inner(c, args)(f)(x, *argz) = f(c(x, *args), *argz)`  (l.73-76) -/
def inner (c : X → A → Y) (a : A) (f : Y → B → Z) (x : X) (b : B) : Z := f (c x a) b
/-- `outer(c, args)(f)(x, *argz) = c(f(x, *argz), *args)`  (l.42-45) -/
def outer (c : Y → A → Z) (a : A) (f : X → B → Y) (x : X) (b : B) : Z := c (f x b) a
/-- `inner_proxy(c, args)(f)(*argz) = f(c(*argz), *args)`  (l.92-95): the call-time arguments go to `c` -/
def innerProxy (c : X → B → Y) (a : A) (f : Y → A → Z) (x : X) (b : B) : Z := f (c x b) a
/-- `outer_proxy(c, args)(f)(x, *argz) = c(f(x, *args), *argz)`  (l.111-114) -/
def outerProxy (c : Y → B → Z) (a : A) (f : X → A → Y) (x : X) (b : B) : Z := c (f x a) b
/-- `additive(p, args)(f)(x, *argz) = f(x, *argz) + p(x, *args)`  (l.160-163) -/
def additive [Add R] (p : X → A → R) (a : A) (f : X → B → R) (x : X) (b : B) : R := f x b + p x a
/-- `additive_proxy(p, args)(f)(x, *argz) = f(x, *args) + p(x, *argz)`  (l.131-134) -/
def additiveProxy [Add R] (p : X → B → R) (a : A) (f : X → A → R) (x : X) (b : B) : R := f x a + p x b

/-- `with_constraint(ctype, args)(condition)` decorates the identity `constraint(x) = x` (l.137-141) -/
def withConstraintInner (t : X → A → X) (a : A) (x : X) : X := inner t a (fun y (_ : Unit) => y) x ()
def withConstraintOuter (t : X → A → X) (a : A) (x : X) : X := outer t a (fun y (_ : Unit) => y) x ()
/-- with the proxy types the identity receives the decorator-time arguments, so only the empty bundle works
(`constraint(x)` takes one argument); the call-time arguments reach the transformation -/
def withConstraintInnerProxy (t : X → B → X) (x : X) (b : B) : X := innerProxy t () (fun y (_ : Unit) => y) x b
def withConstraintOuterProxy (t : X → B → X) (x : X) (b : B) : X := outerProxy t () (fun y (_ : Unit) => y) x b

end MysticVerif.Cpl
