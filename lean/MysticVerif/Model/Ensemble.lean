/-
Model of the point generators and of the bookkeeping behind mystic's ensemble solvers (property C09):

* `mystic/math/grid.py`      `gridpts` (l.12-39, `dist=None`), `samplepts` (l.42-58), `randomly_bin` (l.124-166)
* `mystic/math/samples.py`   `_random_samples` (l.21-37)
* `mystic/ensemble.py`       `LatticeSolver._InitialPoints` (l.59-82): the bin centres
* `mystic/abstract_ensemble_solver.py`  `__init__` l.127-144 (member count), `__init_allSolvers` l.403-424,
  `__update_bestSolver` l.455-468, `__update_state` l.470-493, `__all_evals/__total_evals` l.148-170

The code is mirrored as it is (loops, index arithmetic, branch order, `<=` in the reduction, the swapped
branches of `randomly_bin(0, ndim)`, the missing coordinate when a non-last bin is empty).  Everything numeric is
written over a scalar `R` that only carries operations: the driver instantiates `Float` (bit-exact
re-execution), the theorems a linearly ordered field.  The random draws (`random.random()` sort keys of
`randomly_bin`, the `numpy.random.rand` matrix of `_random_samples`) are inputs of the model, recorded from
the real run.  No Mathlib imports: this file is linked into `mvdrv`.
-/

namespace MysticVerif.Ens

/-! ## `gridpts` -/
section Grid
variable {α : Type}

/-- the specification: the Cartesian product of the bins in lexicographic order, first coordinate slowest -/
def cartesianLex : List (List α) → List (List α)
  | [] => [[]]
  | b :: rest => b.flatMap fun a => (cartesianLex rest).map (a :: ·)

/-- grid.py l.28-29  `for l in range(lo, hi): w[l].append(a)`  (always `lo ≤ hi ≤ len(w)` at the call sites) -/
def appendRange (a : α) (lo hi : Nat) (w : List (List α)) : List (List α) :=
  w.take lo ++ ((w.drop lo).take (hi - lo)).map (· ++ [a]) ++ w.drop hi

/-- grid.py l.27-29: `for k in range(len(q[j])): for l in range(k*len(w)//len(q[j]), (k+1)*len(w)//len(q[j])): ...`
`L = len(w)` and `n = len(q[j])` do not change during the loop; `k` starts at `k0` (`= 0` at the call site) -/
def appendBinFrom (L n : Nat) : Nat → List α → List (List α) → List (List α)
  | _, [], w => w
  | k, a :: as, w => appendBinFrom L n (k + 1) as (appendRange a (k * L / n) ((k + 1) * L / n) w)

def appendBin (b : List α) (w : List (List α)) : List (List α) :=
  appendBinFrom w.length b.length 0 b w

/-- grid.py l.30 `if j: w += [i[:] for i in w[:]*(len(q[j-1])-1)]`; `rest` = the bins still to come
(`q[j-1], q[j-2], .., q[0]`), empty when `j = 0`.  A Python list times a non-positive integer is `[]`. -/
def extend (w : List (List α)) : List (List α) → List (List α)
  | [] => w
  | b' :: _ => w ++ (List.replicate (b'.length - 1) w).flatten

/-- grid.py l.26-30, the loop `for j in range(len(q)-1,-1,-1)`; the first argument is `q` reversed -/
def gridLoop : List (List α) → List (List α) → List (List α)
  | [], w => w
  | b :: rest, w => gridLoop rest (extend (appendBin b w) rest)

/-- `gridpts(q)` with `dist=None`; `none` = `IndexError` (`q[-1]` of an empty list) -/
def gridpts (q : List (List α)) : Option (List (List α)) :=
  match q.getLast? with
  | none => none
  | some last => some ((gridLoop q.reverse (List.replicate last.length [])).map List.reverse)

end Grid

/-! ## lattice bin centres, random samples -/
section Num
variable {R : Type} [Add R] [Sub R] [Mul R] [Div R] [Neg R] [LT R] [DecidableLT R]
  [OfNat R 0] [OfNat R 1] [OfNat R 2] [NatCast R]

/-- `abs(x)` (the sign of a zero is not modelled) -/
def absR (x : R) : R := if x < 0 then -x else x

/-- ensemble.py l.77-78: `step = 1. * abs(upper[i] - lower[i])/nbins[i]`,
`[lower[i] + (j+0.5)*step for j in range(nbins[i])]` -/
def latticeBin (lo hi : R) (n : Nat) : List R :=
  (List.range n).map fun (j : Nat) => lo + (((j : Nat) : R) + 1 / 2) * (1 * absR (hi - lo) / ((n : Nat) : R))

inductive Err | index | zerodiv | type | value | runtime
  deriving DecidableEq, Repr

/-- ensemble.py l.74-78 `for i in range(self.nDim)`: `upper[i]`, `lower[i]`, `nbins[i]` (IndexError when one of the
lists is too short).  A bin count of `0`: with the default ranges (`pyfloat = true`: `_defaultMin/_defaultMax` hold Python
floats) `abs(..)/0` raises ZeroDivisionError; with strict ranges (`pyfloat = false`: `_strictMin/_strictMax` are numpy
arrays) the division gives `inf`/`nan` silently and `range(0)` makes an EMPTY bin. -/
def latticeBins (pyfloat : Bool) (lower upper : List R) (nbins : List Nat) : Nat → Nat → Except Err (List (List R))
  | 0, _ => .ok []
  | d + 1, i =>
    match upper[i]?, lower[i]?, nbins[i]? with
    | some hi, some lo, some n =>
      if n = 0 ∧ pyfloat = true then .error .zerodiv
      else match latticeBins pyfloat lower upper nbins d (i + 1) with
        | .ok rest => .ok (latticeBin lo hi n :: rest)
        | .error e => .error e
    | _, _, _ => .error .index

/-- `LatticeSolver._InitialPoints` for a tuple `nbins` and `dist=None` (l.73-82) -/
def latticePoints (pyfloat : Bool) (dim : Nat) (lower upper : List R) (nbins : List Nat) : Except Err (List (List R)) :=
  match latticeBins pyfloat lower upper nbins dim 0 with
  | .error e => .error e
  | .ok bins =>
    match gridpts bins with
    | none => .error .index
    | some pts => .ok pts

/-- samples.py l.36 `pts[i] = (pts[i] * abs(ubi - lbi)) + lbi`, one entry -/
def samplePt (u lb ub : R) : R := u * absR (ub - lb) + lb

/-- `_random_samples(lb, ub, npts)` (samples.py l.31-37): `us` is the `rand(dim, npts)` matrix (row `i` = coordinate `i`);
rows beyond `len(lb)` do not exist (`dim = len(lb)`), `ub[i]` raises IndexError when `ub` is shorter -/
def randomSamples : List R → List R → List (List R) → Except Err (List (List R))
  | [], _, _ => .ok []
  | _ :: _, _, [] => .error .index
  | _ :: _, [], _ :: _ => .error .index
  | l :: lb, u :: ub, row :: us =>
    match randomSamples lb ub us with
    | .ok rest => .ok (row.map (fun t => samplePt t l u) :: rest)
    | .error e => .error e

/-- `q.T.tolist()` for a `dim x npts` matrix (grid.py l.55) -/
def transposeN (npts : Nat) (rows : List (List R)) : List (List R) :=
  (List.range npts).map fun j => rows.filterMap (·[j]?)

/-- `samplepts(lb, ub, npts)` with `dist=None` -/
def samplepts (lb ub : List R) (npts : Nat) (us : List (List R)) : Except Err (List (List R)) :=
  match randomSamples lb ub us with
  | .ok q => .ok (transposeN npts q)
  | .error e => .error e

end Num

/-! ## `random_samples` with a user-supplied distribution (samples.py l.50-70) -/
section DistSamples
variable {R : Type} [LT R] [DecidableLT R]

/-- numpy's clip kernel for floats (`_NPY_CLIP(x, lo, hi) = _NPY_MIN(_NPY_MAX(x, lo), hi)` with
`MAX(a, b) = a > b ? a : b`, `MIN(a, b) = a < b ? a : b`: the BOUND is returned on a tie).  For a single coordinate
numpy takes its constant-bounds fast path (`x < lo ? lo : x > hi ? hi : x`), which differs on a tie only in the SIGN
of a zero (`-0.0` against a bound `0.0`): the harness compares zeros unsigned.  NaN draws are not modelled (numpy
propagates them). -/
def npMax (a b : R) : R := if b < a then a else b
def npMin (a b : R) : R := if a < b then a else b
def clipPt (x lo hi : R) : R := npMin (npMax x lo) hi

/-- one entry of `bad = ((pts.T == lb) + (pts.T == ub)).T` (l.58, l.67): `==` through the order
(`a == b` iff neither `a < b` nor `b < a`; IEEE equality for non-NaN floats, `-0.0 == 0.0`) -/
def onBound (x lo hi : R) : Bool := decide ((¬ x < lo ∧ ¬ lo < x) ∨ (¬ x < hi ∧ ¬ hi < x))

/-- one entry of `new = bad.sum(-1)` (l.59, l.68): how many entries of coordinate row `i` sit on a bound -/
def countBad (lo hi : R) : List R → Nat
  | [] => 0
  | x :: xs => (if onBound x lo hi = true then 1 else 0) + countBad lo hi xs

/-- l.65 `pts[i][bad[i]] = dist[i](inew)`: the `k`-th flagged entry of the row receives the `k`-th drawn value
(`bad[i]` was computed from the very entries of `pts[i]`, which have not changed since) -/
def fillRow (vals : Nat → R) (lo hi : R) : Nat → List R → List R
  | _, [] => []
  | k, x :: xs =>
    if onBound x lo hi = true then vals k :: fillRow vals lo hi (k + 1) xs else x :: fillRow vals lo hi k xs

/-- `np.clip(pts.T, lb, ub).T` (l.56, l.66) on the `dim x npts` matrix: row `i` against `lb[i]`, `ub[i]` -/
def clipRows : List R → List R → List (List R) → List (List R)
  | l :: lb, u :: ub, row :: rows => row.map (fun x => clipPt x l u) :: clipRows lb ub rows
  | _, _, _ => []

/-- l.64-65 `for i,inew in enumerate(new): if inew: pts[i][bad[i]] = dist[i](inew)`.  `draw c k` is the `k`-th value
returned by the `c`-th call of a distribution after the initial draw (the oracle: ANY values); `c` counts the calls.
Returns `(calls so far, rows)`. -/
def redrawRows (draw : Nat → Nat → R) : Nat → List R → List R → List (List R) → Nat × List (List R)
  | c, l :: lb, u :: ub, row :: rows =>
    if countBad l u row = 0 then
      ((redrawRows draw c lb ub rows).1, row :: (redrawRows draw c lb ub rows).2)
    else
      ((redrawRows draw (c + 1) lb ub rows).1, fillRow (draw c) l u 0 row :: (redrawRows draw (c + 1) lb ub rows).2)
  | c, _, _, _ => (c, [])

/-- `any(new)` (l.61) -/
def anyBad : List R → List R → List (List R) → Bool
  | l :: lb, u :: ub, row :: rows => decide (countBad l u row ≠ 0) || anyBad lb ub rows
  | _, _, _ => false

/-- l.60-69 `_n, n = 1, 1000; while any(new): if _n == n: raise RuntimeError; <redraw>; <clip>; <bad, new>; _n += 1`:
`fuel = n - _n` redraw rounds are still allowed.  Returns `(number of redraw calls, rows)`. -/
def resampleLoop (draw : Nat → Nat → R) (lb ub : List R) : Nat → Nat → List (List R) → Except Err (Nat × List (List R))
  | 0, c, rows => if anyBad lb ub rows = true then .error .runtime else .ok (c, rows)
  | fuel + 1, c, rows =>
    if anyBad lb ub rows = true then
      resampleLoop draw lb ub fuel (redrawRows draw c lb ub rows).1 (clipRows lb ub (redrawRows draw c lb ub rows).2)
    else .ok (c, rows)

/-- `random_samples(lb, ub, npts, dist, clip)` for `dist is not None` (l.50-70).  `init` is the initial draw as a
`dim x npts` matrix (row `i` = coordinate `i`: `dist((npts, dim)).T`, resp. `[di(npts) for di in dist]`), `draw` the
later redraws, `n = 1000` the hard-wired number of tries.  Only the well-shaped case `len(lb) = len(ub) = dim` is
modelled (numpy would broadcast bound lists of length 1; any other mismatch is a ValueError). -/
def randomSamplesDist (draw : Nat → Nat → R) (lb ub : List R) (init : List (List R)) (clip : Bool) (n : Nat) :
    Except Err (Nat × List (List R)) :=
  if init.length ≠ lb.length ∨ ub.length ≠ lb.length then .error .value
  else if clip = true then .ok (0, clipRows lb ub init)
  else resampleLoop draw lb ub (n - 1) 0 (clipRows lb ub init)

/-- `samplepts(lb, ub, npts, dist)` (grid.py l.42-58) with a distribution: `random_samples(...).T.tolist()` -/
def sampleptsDist (draw : Nat → Nat → R) (lb ub : List R) (npts : Nat) (init : List (List R)) (n : Nat) :
    Except Err (Nat × List (List R)) :=
  match randomSamplesDist draw lb ub init false n with
  | .ok r => .ok (r.1, (List.range npts).map fun j => r.2.filterMap (·[j]?))
  | .error e => .error e

end DistSamples

/-! ## `randomly_bin` -/
section Bins

/-- `l[c::d]` as the iterator sees it: skip `c` entries, take one, then skip `d-1`, ... -/
def strideAux (d : Nat) : List Nat → Nat → List Nat
  | [], _ => []
  | a :: as, 0 => a :: strideAux d as (d - 1)
  | _ :: as, c + 1 => strideAux d as c

/-- `l[i::d]` for `0 ≤ i`, `0 < d` -/
def stride (l : List Nat) (i d : Nat) : List Nat := strideAux d l i

/-- grid.py l.152 `[product(result[i::dim]) for i in range(dim)]` -/
def stridedProducts (l : List Nat) (d : Nat) : List Nat :=
  (List.range d).map fun i => (stride l i d).foldl (· * ·) 1

/-- `while n%i == 0: n //= i; s += 1` (grid.py l.140-142), fuel-bounded; returns `(n, s)` -/
def divOut (i : Nat) : Nat → Nat → Nat → Nat × Nat
  | 0, n, s => (n, s)
  | f + 1, n, s => if n % i = 0 then divOut i f (n / i) (s + 1) else (n, s)

/-- grid.py l.137-145 the loop over the candidate divisors; `none` = the loop ends without `return` (Python `None`) -/
def factorsLoop : List Nat → Nat → List Nat → Option (List Nat)
  | [], _, _ => none
  | i :: cands, n, acc =>
    let r := divOut i n n 0
    let acc' := acc ++ List.replicate r.2 i
    if r.1 = 1 then some acc' else factorsLoop cands r.1 acc'

/-- `factors(n)`: candidates `chain([2], range(3, n+1, 2))` -/
def factors (n : Nat) : Option (List Nat) :=
  factorsLoop (2 :: List.range' 3 ((n - 1) / 2) 2) n []

variable {κ : Type} [LT κ] [DecidableLT κ]

/-- insertion after every entry whose key is not greater: the stable order of `sorted(..., key=...)` -/
def insertKey (x : κ × Nat) : List (κ × Nat) → List (κ × Nat)
  | [] => [x]
  | y :: t => if x.1 < y.1 then x :: y :: t else y :: insertKey x t

/-- `sorted(l, key=lambda v: random())`: the key of the entry at position `p` is draw number `off + p` -/
def sortByKeys (key : Nat → κ) (off : Nat) (l : List Nat) : List Nat :=
  (((l.zipIdx off).map fun vi => (key vi.2, vi.1)).foldl (fun acc x => insertKey x acc) []).map (·.2)

/-- result of one (non-recursive) pass of `randomly_bin` for `N ≥ 1`, `ndim ≠ 0`:
the bins, the number of draws used and `prime` (grid.py l.146-158) -/
structure BinOut where
  bins : List Nat
  draws : Nat
  prime : Bool

def randomlyBinPass (key : Nat → κ) (off : Nat) (N : Nat) (ndim : Option Nat) (ones : Bool) : Option BinOut :=
  match factors N with
  | none => none                                    -- `len(None)`: TypeError
  | some fs =>
    let nfact := fs.length                           -- l.147
    let prime := nfact == 1                          -- l.148
    -- l.149-150
    let result := match ndim with
      | some d => fs ++ List.replicate (d - nfact / d) 1
      | none => if ones = true then fs ++ [1] else fs
    let dim := match ndim with
      | some d => d
      | none => nfact
    if ones = true then
      -- l.152 (ones): result = sorted(result, key=random)
      let r1 := sortByKeys key off result
      let r2 := stridedProducts r1 dim               -- l.154-155
      -- l.158 `elif not ndim and 1 in result: result.remove(1)`
      let r3 := if ndim.isNone && r2.contains 1 then r2.erase 1 else r2
      some ⟨r3, result.length, prime⟩
    else
      -- l.153: result[:nfact] = sorted(result[:nfact], key=random)
      let r1 := sortByKeys key off (result.take nfact) ++ result.drop nfact
      let r2 := stridedProducts r1 dim
      -- l.157: full sort
      let r3 := sortByKeys key (off + nfact) r2
      some ⟨r3, nfact + r2.length, prime⟩

inductive BinRes
  | ok (bins : List Nat) (draws : Nat)
  | typeError
  deriving Repr

/-- `randomly_bin(N, ndim, ones, exact)` (grid.py l.124-166); `ndim = none` is Python `None` -/
def randomlyBin (key : Nat → κ) (N : Nat) (ndim : Option Nat) (ones exact : Bool) : BinRes :=
  if ndim = some 0 then .ok [] 0                     -- l.133
  else if N = 0 then                                 -- l.134 `return [0] if ndim else [0]*ndim`
    match ndim with
    | some _ => .ok [0] 0
    | none => .typeError                             -- `[0]*None`
  else
    match randomlyBinPass key 0 N ndim ones with
    | none => .typeError
    | some o =>
      -- l.160-161 `if not exact and N > 3 and prime: result = randomly_bin(N-1, ndim, ones)` (exact=True inside)
      if exact = false ∧ 3 < N ∧ o.prime = true then
        match randomlyBinPass key o.draws (N - 1) ndim ones with
        | none => .typeError
        | some o' => .ok o'.bins (o.draws + o'.draws)
      else .ok o.bins o.draws

end Bins

/-! ## ensemble bookkeeping -/
section Book
variable {X E : Type}

/-- what the ensemble reads from a member solver -/
structure Member (X E : Type) where
  bestE : E
  bestX : X
  evals : Nat
  gens : Nat
  id : Nat

variable [LE E] [DecidableLE E]

/-- abstract_ensemble_solver.py l.461-467: `for solver in allSolvers: if solver.bestEnergy <= best.bestEnergy: best = solver` -/
def scanBest (best : Member X E) : List (Member X E) → Member X E
  | [] => best
  | m :: ms => scanBest (if m.bestE ≤ best.bestE then m else best) ms

/-- `__update_bestSolver` (l.455-468): `prev` is the stored `_bestSolver` (`none` = Python `None`: it becomes
`_allSolvers[0]`, IndexError = `none` for an empty ensemble) -/
def updateBest (prev : Option (Member X E)) (members : List (Member X E)) : Option (Member X E) :=
  match prev, members with
  | some p, ms => some (scanBest p ms)
  | none, [] => none
  | none, m :: ms => some (scanBest m (m :: ms))

/-- what the stored `_bestSolver` is when the NEXT reduction starts (step-wise modes: `__update_bestSolver` runs again
over the same members after every ensemble `Step`, and after a `Solve` that continues them).  With an in-process map
(`live = true`) the map hands back the SAME objects, so the stored best IS the member in its slot, with the values that
member has now; with a pickling / process map (`live = false`) `__update_allSolvers` replaces every slot by the returned
copy (`self._allSolvers[lr] = _solver`, l.453) and the stored best is the OLD object - a stale copy of a member. -/
def refreshPrev (live : Bool) (p : Member X E) (ms : List (Member X E)) : Member X E :=
  if live = true then (ms.find? fun m => m.id == p.id).getD p else p

/-- the reductions of a step-wise run, one per ensemble `Step` / `Solve` over the same slots, with `_bestSolver` threaded
from one to the next exactly as the code does (l.455-468: `if self._bestSolver is None: self._bestSolver = self._allSolvers[0]`,
then the scan of ALL members against the stored best's energy) -/
def reduceSeq (live : Bool) : Option (Member X E) → List (List (Member X E)) → List (Option (Member X E))
  | _, [] => []
  | prev, ms :: rest =>
    updateBest (prev.map fun p => refreshPrev live p ms) ms ::
      reduceSeq live (updateBest (prev.map fun p => refreshPrev live p ms) ms) rest

/-- `_all_evals` / `_total_evals` (l.148-166) -/
def allEvals (members : List (Member X E)) : List Nat := members.map (·.evals)
def totalEvals (members : List (Member X E)) : Nat := (allEvals members).foldl (· + ·) 0
def allIters (members : List (Member X E)) : List Nat := members.map (·.gens)
def totalIters (members : List (Member X E)) : Nat := (allIters members).foldl (· + ·) 0

/-- `__init__` l.127-138: the member count for `npts` / an integer `nbins` / a tuple `nbins`
(`reduce(lambda i,j: i*j, nbins)`, TypeError on an empty tuple = `none`) -/
inductive Count | npts (n : Nat) | nbinsInt (n : Nat) | nbinsTuple (l : List Nat)

def memberCount : Count → Option Nat
  | .npts n => some n
  | .nbinsInt n => some n
  | .nbinsTuple [] => none
  | .nbinsTuple (a :: l) => some (l.foldl (· * ·) a)

/-- the settings `__get_solver_instance` (l.217-237) pushes into the nested solver; `C` = whatever a setting is -/
structure Cfg (C : Type) where
  ranges : C          -- (strictMin, strictMax, tight, clip)
  limits : C          -- (maxiter, maxfun)
  termination : C
  constraints : C
  penalty : C
  reducer : C
  objective : C
  deriving DecidableEq

/-- a slot of `_allSolvers` -/
structure Slot (C : Type) where
  cfg : Cfg C
  id : Nat
  deriving DecidableEq

/-- `__init_allSolvers` (l.413-424): every empty slot receives a deep copy of the configured nested solver with
`id = i + at`; existing members are kept -/
def initSlots {C : Type} (cfg : Cfg C) (at_ : Nat) : Nat → List (Option (Slot C)) → List (Slot C)
  | _, [] => []
  | i, none :: rest => ⟨cfg, i + at_⟩ :: initSlots cfg at_ (i + 1) rest
  | i, some s :: rest => s :: initSlots cfg at_ (i + 1) rest

end Book

/-! ## member creation with object identity: the nested solver is a TEMPLATE -/
section Template
variable {S : Type}

/-- an object store: `get a` is the state of the object at address `a`, addresses `< next` are allocated -/
structure Store (S : Type) where
  get : Nat → S
  next : Nat

/-- a new object (what `copy.deepcopy` returns): the next free address -/
def Store.alloc (h : Store S) (s : S) : Store S :=
  ⟨fun a => if a = h.next then s else h.get a, h.next + 1⟩

/-- in-place mutation of the object at address `a` -/
def Store.modify (h : Store S) (a : Nat) (f : S → S) : Store S :=
  ⟨fun b => if b = a then f (h.get a) else h.get b, h.next⟩

/-- `__init_allSolvers` (abstract_ensemble_solver.py l.413-424) with object identity.  `t` is the address of what
`__get_solver_instance` returns - for `SetNestedSolver(<instance>)` the USER'S OWN object (l.207-208).
`for i,op in enumerate(self._allSolvers): if op is None: op = _copy(solver); op.id = i + at; self._allSolvers[i] = op`:
every empty slot receives a NEW object whose state is the template's (with the id set ON THE COPY); occupied slots are
kept.  Returns the store and the addresses in `_allSolvers`. -/
def initMembers (setId : S → Nat → S) (t at_ : Nat) : Nat → Store S → List (Option Nat) → Store S × List Nat
  | _, h, [] => (h, [])
  | i, h, none :: rest =>
    ((initMembers setId t at_ (i + 1) (h.alloc (setId (h.get t) (i + at_))) rest).1,
     h.next :: (initMembers setId t at_ (i + 1) (h.alloc (setId (h.get t) (i + at_))) rest).2)
  | i, h, some a :: rest =>
    ((initMembers setId t at_ (i + 1) h rest).1, a :: (initMembers setId t at_ (i + 1) h rest).2)

/-- the map over the members (`_solve` / `_step`, l.692-716 / l.769-795): member number `i` (the object at address
`a`) is advanced in place by `run i` - whatever the nested solver does from starting point `i` (C01-C05; an oracle
here).  `i0` = number of the first listed member. -/
def runMembers (run : Nat → S → S) : Nat → Store S → List Nat → Store S
  | _, h, [] => h
  | i, h, a :: as => runMembers run (i + 1) (h.modify a (run i)) as

/-- a first `Solve`/`Step` of a NEW ensemble of `n` members (all slots empty) built on the template at `t` -/
def solveNew (setId : S → Nat → S) (run : Nat → S → S) (t at_ n : Nat) (h : Store S) : Store S × List Nat :=
  (runMembers run 0 (initMembers setId t at_ 0 h (List.replicate n none)).1
      (initMembers setId t at_ 0 h (List.replicate n none)).2,
   (initMembers setId t at_ 0 h (List.replicate n none)).2)

end Template

end MysticVerif.Ens
