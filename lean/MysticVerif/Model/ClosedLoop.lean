/-
The CLOSED LOOP: `Solve()` / repeated `Step()` with nothing taken from the real run except the user functions and
the algorithm's oracles (DE trial vectors).  It composes the three models that C01-C05 and C10 prove things about:

  * the control loop `Ctl` (Model/Solver.lean: `Step`, `Terminated`, limit resolution, `Finalize`),
  * an algorithm step (`DE.step1` / `DE.step2`, `NM.gen0/gen1/update`),
  * the termination condition evaluated by the termination model (Model/Termination.lean) on a `View` built from the
    algorithm state and the control state (energy history, population, energies, best, generations, evaluations).

`abstract_solver.py` l.1062-1113 (`Step`) and l.1115-1144 (`_Solve`: `while not stop: stop = self.Step(**settings)`):
here the termination verdicts before / after the iteration and the per-step counter deltas - which `Ctl.step` takes as
inputs - are COMPUTED from the model's own state, so the number of iterations a run performs, the stop message, the
final counters and the final population are all predictions of the model.  No Mathlib imports.
-/
import MysticVerif.Model.Solver
import MysticVerif.Model.NelderMead
import MysticVerif.Model.PowellS
import MysticVerif.Model.Termination

namespace MysticVerif.Closed
open MysticVerif.Solver

variable {S : Type}

/-- what the loop needs from an algorithm: its `_Step` for the k-th iteration, the length of its evaluation log, and
    the verdict of the termination condition on (state, control state) -/
structure Alg (S : Type) where
  step : S → Nat → S
  nlog : S → Nat
  /-- records in the step monitor written by the algorithm itself -/
  nrec : S → Nat
  term : S → Ctl → Bool

/-- the outcome of a run of `Step`s -/
structure Out (S : Type) where
  ctl : Ctl
  st : S
  msg : Option Msg
  iters : Nat          -- number of `_Step`s really executed
  steps : Nat          -- number of `Step()` calls made
  deriving Inhabited

/-- one `Step()`: stop test on the resolved limits and the termination verdict NOW; if not stopped run `_Step`, test
    again (`Finalize` when stopped).  `k` = number of `_Step`s executed so far. -/
def stepOnce (a : Alg S) (c : Ctl) (s : S) (k : Nat) : Ctl × S × Option Msg × Bool :=
  let tpre := a.term s c.pre
  let s' := a.step s k
  -- `generations = len(stepmon) - 1`: the first `_Step` (initial evaluation) writes record 0 and leaves generations at 0
  let d : Delta := { dEvals := a.nlog s' - a.nlog s, dGens := if c.nstep = 0 then 0 else 1, dStep := a.nrec s' - a.nrec s }
  let tpost := a.term s' (c.after d)
  let r := c.step tpre tpost d
  (r.1, (if r.2.2 = true then s' else s), r.2.1, r.2.2)

/-- `_Solve`: `Step` until a message comes back (at most `fuel` calls) -/
def solve (a : Alg S) : Nat → Ctl → S → Nat → Nat → Out S
  | 0, c, s, k, n => { ctl := c, st := s, msg := none, iters := k, steps := n }
  | fuel + 1, c, s, k, n =>
    let r := stepOnce a c s k
    let k' := if r.2.2.2 = true then k + 1 else k
    match r.2.2.1 with
    | some m => { ctl := r.1, st := r.2.1, msg := some m, iters := k', steps := n + 1 }
    | none => solve a fuel r.1 r.2.1 k' (n + 1)

/-- `n` explicit `Step()` calls (a message does not prevent the next call: the caller decides), with every
    returned message -/
def steps (a : Alg S) : Nat → Ctl → S → Nat → List (Option Msg × Bool) → Ctl × S × Nat × List (Option Msg × Bool)
  | 0, c, s, k, acc => (c, s, k, acc)
  | n + 1, c, s, k, acc =>
    let r := stepOnce a c s k
    steps a n r.1 r.2.1 (if r.2.2.2 = true then k + 1 else k) (acc ++ [(r.2.2.1, r.2.2.2)])

/-- the open loop: `k` iterations of the algorithm, whatever the control loop says -/
def iterate (a : Alg S) : Nat → S → Nat → S
  | 0, s, _ => s
  | n + 1, s, k => iterate a n (a.step s k) (k + 1)

/-! ### the views the termination conditions read -/

section Views
variable {R : Type} [OfNat R 0]

/-- differential evolution: `energy_history` = the step monitor's energies, `population`, `popEnergy`,
    `bestSolution`; `generations` / `_fcalls[0]` from the control state -/
def deView (s : DE (List R) R) (c : Ctl) : Term.View R :=
  { hist := s.stepLog.map Prod.snd, pop := s.pop, popE := s.popE, best := s.best, trial := [], trial2d := false,
    grad := [], gens := c.gens, fcalls := c.evals, earlyExit := c.earlyExit, tTime := 0, tPerf := 0, tProc := 0 }

/-- Nelder-Mead: the simplex rows and their energies -/
def nmView (s : NM R R) (c : Ctl) : Term.View R :=
  { hist := s.stepLog.map Prod.snd, pop := s.simplex.map Prod.fst, popE := s.simplex.map Prod.snd,
    best := (s.simplex.map Prod.fst).headD [], trial := [], trial2d := false, grad := [], gens := c.gens,
    fcalls := c.evals, earlyExit := c.earlyExit, tTime := 0, tPerf := 0, tProc := 0 }

/-- Powell: `energy_history` carries the deferred entry of the iteration in progress; one member -/
def pwView (s : PowellS.Pw R R) (c : Ctl) : Term.View R :=
  { hist := s.hist, pop := [s.x], popE := [s.fval], best := s.x, trial := [], trial2d := false, grad := [],
    gens := c.gens, fcalls := c.evals, earlyExit := c.earlyExit, tTime := 0, tPerf := 0, tProc := 0 }

end Views

section Algs
variable {R : Type} [Add R] [Sub R] [Mul R] [Div R] [Neg R] [LT R] [DecidableLT R] [LE R] [DecidableLE R]
  [BEq R] [OfNat R 0] [OfNat R 2]

/-- `Terminated` reads the truthiness of `termination(self, info=True)`: a non-empty info string -/
def verdict (cond : Term.Cond R) (v : Term.View R) : Bool := !(Term.Cond.info v cond).isEmpty

/-- differential evolution (1: candidates one at a time, 2: map) with the strategy's trial vectors as oracle:
    iteration 0 evaluates the members themselves, iteration k >= 1 uses the k-th recorded group -/
def deAlg (two : Bool) (o : Obj (List R) R) (cond : Term.Cond R) (pop0 : List (List R)) (trialss : List (List (List R))) :
    Alg (DE (List R) R) :=
  { step := fun s k =>
      let ts := if k = 0 then pop0 else trialss.getD (k - 1) []
      if two = true then DE.step2 o ts s else DE.step1 o ts s
    nlog := fun s => s.log.length
    nrec := fun s => s.stepLog.length
    term := fun s c => verdict cond (deView s c) }

/-- Nelder-Mead from the initial guess alone -/
def nmAlg (o : Obj (Pt R) R) (coef : Coef R) (st clip0 mkVal : Pt R → Pt R) (cond : Term.Cond R) (x0 : Pt R) :
    Alg (NM R R) :=
  { step := fun s k =>
      if k = 0 then NM.gen0 o 0 (clip0 x0)
      else if k = 1 then NM.gen1 o clip0 mkVal s
      else (NM.update o coef st s).1
    nlog := fun s => s.log.length
    nrec := fun s => s.stepLog.length
    term := fun s c => verdict cond (nmView s c) }

/-- Powell's direction-set solver with the Brent line search as oracle (the k-th search of the run) -/
def pwAlg (o : Obj (Pt R) R) (cfg : PowellS.PwCfg R R) (ls : Nat → Pt R → Pt R → PowellS.LsRec R) (cond : Term.Cond R)
    (record : Bool) (x0 : Pt R) (direc : List (Pt R)) : Alg (PowellS.Pw R R) :=
  { step := fun s k =>
      if k = 0 then PowellS.gen0 o cfg record x0 direc
      else if k = 1 then PowellS.gen1 o cfg ls s
      else PowellS.genN o cfg ls s
    nlog := fun s => s.log.length
    nrec := fun s => s.stepLog.length
    term := fun s c => verdict cond (pwView s c) }

end Algs

end MysticVerif.Closed
