/-
C07, part 2: schedules.

* `DE.step2With`: one `_Step` of DifferentialEvolutionSolver2 (differential_evolution.py l.501-595) in which the map
  evaluates its work items in an arbitrary order `π` (a list of positions; every evaluation is atomic and appends
  to the evaluation monitor), and returns the results in input order.  `π = [0, 1, .., n-1]` is `python_map`.
* `step2Proc`: the same step with MUTABLE work items: cost and penalty are procedures that may write to the vector
  they are handed, the map hands each worker the item itself or a copy; `wrap_penalty`'s defensive copy is explicit.
* `runTraj`: a whole run of the map-based DE solver under the control loop of Model/Solver.lean, built from a
  configuration record (Model/Config.lean) - which attributes of the configuration a run reads is visible here.
* ensembles (abstract_ensemble_solver.py `_Step` l.608-682, `_Solve` l.717-809, `__update_bestSolver` l.455-468):
  members stepped one at a time by any schedule, versus run to completion; the best member is reduced by index.

No Mathlib imports (linked into `mvdrv`).
-/
import MysticVerif.Model.Solver
import MysticVerif.Model.Config

namespace MysticVerif.Sched
open MysticVerif.Solver MysticVerif.Config

variable {X E : Type}

/-! ### DE2 with an arbitrary evaluation order -/

/-- the map at work: the (already constrained) items `ys` are evaluated in the order `π`; every evaluation is
    logged when it happens; results are keyed by the position of the item -/
def evalOrder (o : Obj X E) (ys : List X) : List Nat → List (X × E) → List (Nat × E) × List (X × E)
  | [], log => ([], log)
  | i :: π, log =>
    match ys[i]? with
    | none => evalOrder o ys π log
    | some y => ((i, (o.objAt y log).1) :: (evalOrder o ys π (o.objAt y log).2).1,
                 (evalOrder o ys π (o.objAt y log).2).2)

/-- the map returns its results in input order: entry `i` is the value computed for item `i`
    (`top` if the map never evaluated it - excluded by the hypotheses of the theorems) -/
def gather (top : E) (n : Nat) (res : List (Nat × E)) : List E :=
  (List.range n).map fun i =>
    match res.find? (fun p => p.1 == i) with
    | some p => p.2
    | none => top

/-- one `_Step` of DE2 with evaluation order `π` (l.544-583): constraints on every trial in candidate order,
    the map, selection by index -/
def step2With [LT E] [DecidableLT E] (o : Obj X E) (π : List Nat) (trials : List X) (s : DE X E) : DE X E :=
  let ys := trials.map o.K
  let r := evalOrder o ys π s.log
  let es := gather o.top ys.length r.1
  let s1 := DE.selectAll (ys.zip es) 0 { s with log := r.2 }
  { s1 with stepLog := s1.stepLog ++ [(s1.best, s1.bestE)] }

/-- what the property calls the trajectory: population, energies, best, step record (the evaluation log is
    compared up to order) -/
def obs (s : DE X E) : List X × List E × X × E × List (X × E) := (s.pop, s.popE, s.best, s.bestE, s.stepLog)

/-- the evaluation counter as DE2 maintains it without an evaluation monitor (l.570-571):
    `_fcalls[0] += len(trialEnergy) - isinf(trialEnergy).sum()` -/
def countFinite [DecidableEq E] (top : E) (es : List E) : Nat := (es.filter (fun e => e ≠ top)).length

/-- a run of several generations: per generation the strategy's draws and the map's evaluation order;
    the strategy reads the population, the energies and the best (never the evaluation monitor) -/
def run2With [LT E] [DecidableLT E] {D : Type} (o : Obj X E) (strat : List X → List E → X → D → List X) :
    List (D × List Nat) → DE X E → DE X E
  | [], s => s
  | (d, π) :: gs, s => run2With o strat gs (step2With o π (strat s.pop s.popE s.best d) s)

/-! ### what the evaluator does to its argument

The work items of the map are MUTABLE vectors (`self.trialSolution[i]`, Python lists) and the user's cost and
penalty may modify the vector they are handed in place (folding, sorting, clamping).  Whether such a write reaches
the solver's own trial vector depends on the map: an in-process map (`python_map`, threads) hands the worker the
object itself, a process-based or deep-copying map a copy.  A callable is therefore modelled as a procedure. -/

/-- a Python callable on a mutable vector: the value it returns and the contents it leaves in the vector object
    it was handed (`fun x => (f x, x)` for a function that does not write to its argument) -/
abbrev Proc (X E : Type) := X → E × X

/-- `wrap_bounds (wrap_function cost)` (tools.py l.391-429) as a procedure: outside the strict ranges the target is
    not called (`return inf`); otherwise `the_function(x)` is called on the very object that was passed in -/
def wrapBoundsP (useRange : Bool) (inBox : X → Bool) (top : E) (cost : Proc X E) : Proc X E :=
  fun x => if (useRange && !inBox x) = true then (top, x) else cost x

/-- `wrap_penalty` (tools.py l.385-388): `_x = x[:]; return cost_function(_x) + penalty_function(_x)` - both
    callees work on the copy `_x` (the penalty sees what the cost left in it); the caller's vector is not touched -/
def wrapPenaltyP (add : E → E → E) (cost pen : Proc X E) : Proc X E :=
  fun x => (add (cost x).1 (pen (cost x).2).1, x)

/-- NOT the code: `wrap_penalty` without its defensive copy (`cost_function(x) + penalty_function(x)`).  Only used
    for the witness that shows what the copy is there for (Props/C07 `de2_uncopied_witness`). -/
def wrapPenaltyNoCopyP (add : E → E → E) (cost pen : Proc X E) : Proc X E :=
  fun x => (add (cost x).1 (pen (cost x).2).1, (pen (cost x).2).2)

/-- the decorated objective of DE2 (`_decorate_objective`, differential_evolution.py l.464-498: `wrap_function`,
    `wrap_bounds`, `wrap_penalty`, no `wrap_nested`) as a procedure -/
def decorated2 (useRange : Bool) (inBox : X → Bool) (top : E) (add : E → E → E) (cost pen : Proc X E) : Proc X E :=
  wrapPenaltyP add (wrapBoundsP useRange inBox top cost) pen

/-- the objective record of Model/Solver.lean for a pair of user procedures: the values as functions of the
    vector AT THE TIME OF THE CALL (the penalty is called on what the cost left behind) -/
def objOfProcs (K : X → X) (inBox : X → Bool) (useRange : Bool) (top : E) (add : E → E → E) (cost pen : Proc X E) :
    Obj X E :=
  { raw := fun y => (cost y).1,
    pen := fun y => (pen (if (useRange && !inBox y) = true then y else (cost y).2)).1,
    K := K, inBox := inBox, useRange := useRange, top := top, add := add }

/-- the results of the map for an arbitrary procedure `f`, evaluated in the order `π`, keyed by position -/
def evalOrderP (f : Proc X E) (ys : List X) : List Nat → List (Nat × E)
  | [] => []
  | i :: π =>
    match ys[i]? with
    | none => evalOrderP f ys π
    | some y => (i, (f y).1) :: evalOrderP f ys π

/-- the work items after the map: item `i` was handed over as the object itself (`sh i = true`, in-process map:
    it now holds whatever the procedure left in it) or as a copy (`sh i = false`: forked process, pickling,
    deep-copying map: untouched) -/
def itemsAfter (f : Proc X E) (sh : Nat → Bool) (ys : List X) : List X :=
  List.zipWith (fun i y => if sh i = true then (f y).2 else y) (List.range ys.length) ys

/-- one `_Step` of DE2 (l.544-583) with mutable work items: the map applies the procedure `f` to the constrained
    trials in the order `π` under the sharing discipline `sh`; `logOf y` is what one evaluation of `y` appends to
    the record of evaluated points; the selection loop reads `self.trialSolution[candidate]` AFTER the map
    (`self.population[candidate][:] = self.trialSolution[candidate]`, l.577) -/
def step2ProcWith [LT E] [DecidableLT E] (f : Proc X E) (logOf : X → Option (X × E)) (K : X → X) (top : E)
    (sh : Nat → Bool) (π : List Nat) (trials : List X) (s : DE X E) : DE X E :=
  let ys := trials.map K
  let es := gather top ys.length (evalOrderP f ys π)
  let ys' := itemsAfter f sh ys
  let s1 := DE.selectAll (ys'.zip es) 0 { s with log := s.log ++ π.filterMap (fun i => (ys[i]?).bind logOf) }
  { s1 with stepLog := s1.stepLog ++ [(s1.best, s1.bestE)] }

/-- the step of the pinned code: the decorated objective built by `wrap_penalty (wrap_bounds (wrap_function ..))` -/
def step2Proc [LT E] [DecidableLT E] (K : X → X) (inBox : X → Bool) (useRange : Bool) (top : E) (add : E → E → E)
    (cost pen : Proc X E) (sh : Nat → Bool) (π : List Nat) (trials : List X) (s : DE X E) : DE X E :=
  step2ProcWith (decorated2 useRange inBox top add cost pen)
    (fun y => if (useRange && !inBox y) = true then none else some (y, (cost y).1)) K top sh π trials s

/-! ### a run as a function of the configuration -/

/-- the attributes of the configuration that `_decorate_objective`, `Step`, `Terminated` and `_Step` read:
    everything except the evaluation monitor object, the contents (not the length) of the step monitor, the save
    settings, the signal-handler switch and the map -/
structure View (R : Type) where
  kind : Kind
  nDim : Nat
  fcalls : Nat
  reducer : Option (Nat × Bool)
  penalty : Option Nat
  constraints : Option Nat
  term : Term
  nstep : Nat
  hist : Hist
  useStrict : Bool
  tight : Option Bool
  clip : Option Bool
  smin : List R
  smax : List R
  bnd : BndMode
  limits : Limits
  cost : Option Nat
  live : Bool
  population : List (List R)

def _root_.MysticVerif.Config.Cfg.view {R : Type} (c : Cfg R) : View R :=
  { kind := c.kind, nDim := c.nDim, fcalls := c.fcalls, reducer := c.reducer, penalty := c.penalty,
    constraints := c.constraints, term := c.term, nstep := c.stepmon.recs.length, hist := c.hist,
    useStrict := c.ranges.useStrict, tight := c.ranges.tight, clip := c.ranges.clip, smin := c.ranges.smin,
    smax := c.ranges.smax, bnd := c.ranges.bnd, limits := c.limits, cost := c.cost.raw, live := c.live,
    population := c.pop.population }

/-- the control state `Step` starts from -/
def View.ctl {R : Type} (v : View R) (scaleIter scaleEval : Nat) : Ctl :=
  { gens := gensOf v.kind { id := 0, null := false, recs := List.replicate v.nstep 0 } v.hist,
    evals := v.fcalls, nstep := v.nstep, maxiter := v.limits.maxiter, maxfun := v.limits.maxfun,
    live := v.live, scaleIter := scaleIter, scaleEval := scaleEval, powell := decide (v.kind = .powell) }

/-- a run of the map-based DE solver: `Step` until a stop message, at most one `Step` per entry of `gens`.
    `dec` is the decoration of the objective (a function of the configuration view: `_decorate_objective`),
    `cond` the termination condition named by the configuration.  Returns every state and stop message. -/
def runTraj [LT E] [DecidableLT E] {R D : Type} (dec : View R → Obj X E) (cond : Option Nat → DE X E → Bool)
    (strat : List X → List E → X → D → List X) (v : View R) :
    List (D × List Nat) → Ctl → DE X E → List (DE X E × Ctl × Option Msg)
  | [], _, _ => []
  | (d, π) :: gs, c, s =>
    let s' := step2With (dec v) π (strat s.pop s.popE s.best d) s
    let r := c.step (cond v.term.termination s) (cond v.term.termination s')
               { dEvals := s'.log.length - s.log.length }
    let s2 := if r.2.2 = true then s' else s
    match r.2.1 with
    | some m => [(s2, r.1, some m)]
    | none => (s2, r.1, none) :: runTraj dec cond strat v gs r.1 s2

/-- the trajectory of a solver: configuration, embedding of the population, draws and evaluation orders -/
def trajectory [LT E] [DecidableLT E] {R D : Type} (dec : View R → Obj X E) (cond : Option Nat → DE X E → Bool)
    (strat : List X → List E → X → D → List X) (emb : List R → X) (scale : Nat × Nat) (c : Cfg R)
    (gens : List (D × List Nat)) : List (DE X E × Ctl × Option Msg) :=
  let pop := c.view.population.map emb
  runTraj dec cond strat c.view gens (c.view.ctl scale.1 scale.2) (DE.init (dec c.view) pop (pop.headD (emb [])))

/-! ### ensembles -/

variable {M : Type}

/-- `solver.Step()` on a member: nothing happens once it has terminated (abstract_solver.py l.1097-1104) -/
def stepIfLive (step : M → M) (done : M → Bool) (m : M) : M := if done m = true then m else step m

/-- step member `i` once -/
def stepAt (step : M → M) (done : M → Bool) (ms : List M) (i : Nat) : List M :=
  match ms[i]? with
  | some m => ms.set i (stepIfLive step done m)
  | none => ms

/-- members advanced one at a time in the order given by `sched` (any interleaving of the members' steps) -/
def runSched (step : M → M) (done : M → Bool) (ms : List M) (sched : List Nat) : List M :=
  sched.foldl (stepAt step done) ms

/-- `Solve()` on a member: `Step` until terminated (at most `fuel` iterations) -/
def runToEnd (step : M → M) (done : M → Bool) : Nat → M → M
  | 0, m => m
  | n + 1, m => runToEnd step done n (stepIfLive step done m)

/-- one ensemble `Step` (`_Step` l.608-682): the map steps every member once, results are stored by index -/
def ensembleStep (step : M → M) (done : M → Bool) (ms : List M) : List M := ms.map (stepIfLive step done)

/-- `__update_bestSolver` (l.455-468): members are visited in index order, `if solver.bestEnergy <= energy` -
    the LAST member with the minimal energy wins -/
def bestOf [LE E] [DecidableLE E] (energy : M → E) : List M → Option M
  | [] => none
  | m :: ms => some (ms.foldl (fun b x => if energy x ≤ energy b then x else b) m)

/-! ### ensembles: the members' `_live` flag and the deferred decoration

The members of an ensemble are whole solvers.  `solver.Step()` / `solver.Solve()` (abstract_solver.py l.1062-1113,
l.1115-1144) begin with `_bootstrap_objective` (l.928-942): a solver whose `_live` flag is off RE-DECORATES its
objective - and a decoration is not neutral: `NelderMeadSimplexSolver._decorate_objective` (scipy_optimize.py
l.201-208) rebuilds the simplex around the best vertex under strict ranges once `generations > 0`, the abstract one
(abstract_solver.py l.909-913) clips the population and draws random numbers.  `Finalize` (l.1018-1021) switches the
flag off when a `Step` stops, so a FINISHED member is not live; the mapped member functions of the ensemble
(`_step` abstract_ensemble_solver.py l.653-656, `_solve` l.779-784) switch the flag on around the member call
(`_term = (solver._live is False) and solver.Terminated()`) - that, and the stop test `Step` makes BEFORE it
iterates (l.1097-1104), is what leaves a finished member alone in step-wise mode.  Modelled as it is; the member's
algorithm is a parameter. -/

variable {S : Type}

/-- what the ensemble's member calls use of a nested solver with algorithm state `S` -/
structure MAlg (S : Type) where
  /-- what `_decorate_objective` does to the state (population clipped / simplex rebuilt / random draws) -/
  dec : S → S
  /-- `_Step` -/
  iter : S → S
  /-- what `Finalize` does besides `_live = False` (Powell appends a step record, scipy_optimize.py l.748-756) -/
  fin : S → S
  /-- `Terminated()`: limits, signal, termination condition -/
  term : S → Bool
  /-- `len(self._stepmon) > 0` -/
  started : S → Bool

/-- a member between two calls; `ndec` / `niter` are ghosts (how often the objective was decorated / `_Step` ran) -/
structure Mem (S : Type) where
  st : S
  live : Bool
  ndec : Nat := 0
  niter : Nat := 0
  deriving DecidableEq, Repr

/-- `_bootstrap_objective(None)` (l.935-942): the stored objective when live, else a new decoration -/
def bootstrapM (a : MAlg S) (m : Mem S) : Mem S :=
  if m.live = true then m else { m with st := a.dec m.st, live := true, ndec := m.ndec + 1 }

/-- `Step()` (l.1094-1113): bootstrap; stop test when the step monitor is not empty; `_Step`; `Finalize` when
    terminated; the returned message (its truthiness) is read AFTER `Finalize` -/
def mStep (a : MAlg S) (m : Mem S) : Mem S × Bool :=
  if (a.started (bootstrapM a m).st && a.term (bootstrapM a m).st) = true then (bootstrapM a m, true)
  else if a.term (a.iter (bootstrapM a m).st) = true then
    ({ bootstrapM a m with st := a.fin (a.iter (bootstrapM a m).st), live := false, niter := (bootstrapM a m).niter + 1 },
      a.term (a.fin (a.iter (bootstrapM a m).st)))
  else ({ bootstrapM a m with st := a.iter (bootstrapM a m).st, niter := (bootstrapM a m).niter + 1 }, false)

/-- `_Solve` (l.1128-1132): `while not stop: stop = self.Step()`, at most `fuel` calls; the flag says whether a
    message came back -/
def mSolve (a : MAlg S) : Nat → Mem S → Mem S × Bool
  | 0, m => (m, false)
  | n + 1, m => if (mStep a m).2 = true then ((mStep a m).1, true) else mSolve a n (mStep a m).1

/-- the `_live` toggle of `_step` / `_solve` around a member call -/
def toggled (a : MAlg S) (call : Mem S → Mem S × Bool) (m : Mem S) : Mem S × Bool :=
  if (!m.live && a.term m.st) = true then
    ({ (call { m with live := true }).1 with live := false }, (call { m with live := true }).2)
  else call m

/-- `_step(solver, None)` (abstract_ensemble_solver.py l.653-656): one mapped member call of an ensemble `Step` -/
def ensMemberStep (a : MAlg S) (m : Mem S) : Mem S := (toggled a (mStep a) m).1

/-- `_solve(solver, None)` (l.779-784): one mapped member call of a run-to-completion ensemble `Solve` -/
def ensMemberSolve (a : MAlg S) (fuel : Nat) (m : Mem S) : Mem S × Bool := toggled a (mSolve a fuel) m

/-- NOT the code: `_step` without the toggle (`solver.Step()` alone).  Only used for the witness that shows what
    the toggle is there for (Props/C07 `ens_untoggled_witness`). -/
def ensMemberStepBare (a : MAlg S) (m : Mem S) : Mem S := (mStep a m).1

/-- one ensemble `_Step` (l.608-682): the map applies `_step` to every member, results stored by index -/
def ensStepL (a : MAlg S) (ms : List (Mem S)) : List (Mem S) := ms.map (ensMemberStep a)

/-- the run-to-completion ensemble `_Solve` (l.717-809): the map applies `_solve` to every member -/
def ensSolveL (a : MAlg S) (fuel : Nat) (ms : List (Mem S)) : List (Mem S) :=
  ms.map fun m => (ensMemberSolve a fuel m).1

/-- the ensemble's `Terminated(all=None)` (l.331-333): no member reports `False` -/
def allTerm (a : MAlg S) (ms : List (Mem S)) : Bool := ms.all fun m => a.term m.st

/-- a member that has stopped: finalized, terminated, with a step record -/
def Finished (a : MAlg S) (m : Mem S) : Prop := m.live = false ∧ a.term m.st = true ∧ a.started m.st = true

end MysticVerif.Sched
