/-
C09, runtime part: an ensemble `Solve()` / `Step()` with the members being solvers of the shared solver model S.

* `mystic/abstract_ensemble_solver.py` `_Solve` l.717-809 (run-to-completion mode): `iv = self._InitialPoints()`,
  `op = __init_allSolvers()` (one fresh copy of the configured nested solver per slot, `op.id = i + at`), the map of
  `_solve(solver, x0)` (`solver.SetInitialPoints(x0)`, strict ranges re-imposed, `solver.Solve()`) over `(op, iv)`,
  `__update_allSolvers(results)` (the results are stored BY INDEX: `self._allSolvers[lr] = _solver`, l.430-453),
  `__update_state()` = `__update_bestSolver()` (l.455-468) + hand-back of the best member's state (l.470-493).
* `_Step` l.608-682 (step-wise mode, `Solve(step=True)` / `Step()`): the same with `solver.Step()` instead of
  `solver.Solve()`; on every later call `iv = [None]*n` (`_is_new()` is false) and the existing members are kept.
  `abstract_solver.py` `Step` l.1062-1113 / `_Solve` l.1115-1144 drive it: `while not stop: stop = self.Step()`, the
  ensemble's `Terminated(all=None)` (l.306-358) is "every member is terminated" and then the best member's message.
* `_total_evals`, `_all_evals`, `_all_iters`, `_all_bestEnergy`, `_all_bestSolution` l.148-170.

A member is a closed loop of Model/ClosedLoop.lean: `Closed.solve` is the member's `Solve()`, `Closed.stepOnce` its
`Step()`.  The nested solver type is a parameter (`Nested`): the algorithm started at a point, the state before the
first `Step`, and how `bestEnergy` / `bestSolution` are read off the state - instantiated with Nelder-Mead
(`nmNested`), differential evolution or Powell by the callers.  Everything - how long each member runs, its counters,
its result, which member is reported - is computed by the model from the starting points alone.
No Mathlib imports: linked into `mvdrv`.
-/
import MysticVerif.Model.Ensemble
import MysticVerif.Model.ClosedLoop

namespace MysticVerif.Ens
open MysticVerif.Solver MysticVerif.Closed

section Run
variable {P S X E : Type}

/-- how a nested solver type plugs into the ensemble -/
structure Nested (P S X E : Type) where
  /-- `solver.SetInitialPoints(x0)` on a copy of the configured nested solver: its `_Step` and termination verdict -/
  alg : P → Alg S
  /-- the state of the copy before its first `Step` -/
  init : S
  /-- `solver.bestEnergy` / `solver.bestSolution` -/
  bestE : S → E
  bestX : S → X

/-- `_solve(solver, x0)` (l.769-795): the member's own `Solve()` from the starting point `p`; `c0` is the control
state every copy of the configured nested solver starts from (counters 0, the ENSEMBLE's limits, l.228) -/
def memberRun (nd : Nested P S X E) (fuel : Nat) (c0 : Ctl) (p : P) : Out S :=
  solve (nd.alg p) fuel c0 nd.init 0 0

/-- what the ensemble reads from a member (`bestEnergy`, `bestSolution`, `evaluations = _fcalls[0]`,
`generations`, `id`) -/
def memberOf (nd : Nested P S X E) (c : Ctl) (s : S) (id : Nat) : Member X E :=
  { bestE := nd.bestE s, bestX := nd.bestX s, evals := c.evals, gens := c.gens, id := id }

/-- the map of `_solve` over `(op, iv)`; `__update_allSolvers` stores result number `i` in slot `i`, the member in
slot `i` has `id = i + at` (`__init_allSolvers` l.419-423) -/
def solveMembers (nd : Nested P S X E) (fuel : Nat) (c0 : Ctl) (at_ : Nat) : Nat → List P → List (Member X E)
  | _, [] => []
  | i, p :: ps =>
    memberOf nd (memberRun nd fuel c0 p).ctl (memberRun nd fuel c0 p).st (i + at_) :: solveMembers nd fuel c0 at_ (i + 1) ps

/-- what an ensemble reports after a `Solve` / `Step` -/
structure EnsOut (X E : Type) where
  members : List (Member X E)
  /-- `_bestSolver` (its `bestEnergy`, `bestSolution`, `evaluations`, `generations`, `id` are handed back to the ensemble) -/
  best : Option (Member X E)
  allE : List E                 -- `_all_bestEnergy`
  allX : List X                 -- `_all_bestSolution`
  allEvals : List Nat           -- `_all_evals`
  allIters : List Nat           -- `_all_iters`
  total : Nat                   -- `_total_evals`
  iters : Nat                   -- `_total_iters`

variable [LE E] [DecidableLE E]

/-- `__update_state` + the `_all_*` / `_total_*` properties on a list of members -/
def report (ms : List (Member X E)) : EnsOut X E :=
  { members := ms, best := updateBest none ms, allE := ms.map (·.bestE), allX := ms.map (·.bestX),
    allEvals := allEvals ms, allIters := allIters ms, total := totalEvals ms, iters := totalIters ms }

/-- **the ensemble `Solve()`** of a NEW ensemble in run-to-completion mode: one member per starting point, each run
to ITS OWN termination, reduced by `__update_bestSolver` -/
def ensembleSolve (nd : Nested P S X E) (fuel : Nat) (c0 : Ctl) (at_ : Nat) (pts : List P) : EnsOut X E :=
  report (solveMembers nd fuel c0 at_ 0 pts)

/-! ### step-wise mode -/

/-- a member between two ensemble `Step`s -/
structure MState (S : Type) where
  ctl : Ctl
  st : S
  k : Nat                        -- `_Step`s performed so far
  msg : Option Msg               -- what its last `Step()` returned
  deriving Inhabited

/-- `solver.Step()` on a member (`_step`, l.637-661): ALWAYS called; a member that is already terminated stops at its own
pre-check (`Step` l.1092-1094) -/
def memberStep (a : Alg S) (m : MState S) : MState S :=
  { ctl := (stepOnce a m.ctl m.st m.k).1, st := (stepOnce a m.ctl m.st m.k).2.1,
    k := if (stepOnce a m.ctl m.st m.k).2.2.2 = true then m.k + 1 else m.k, msg := (stepOnce a m.ctl m.st m.k).2.2.1 }

/-- the members of a new ensemble before the first `Step`: fresh copies, each with its starting point -/
def newMembers (nd : Nested P S X E) (c0 : Ctl) (pts : List P) : List (P × MState S) :=
  pts.map fun p => (p, { ctl := c0, st := nd.init, k := 0, msg := none })

/-- one ensemble `_Step` (l.608-682): `Step` mapped over ALL members, results stored by index -/
def ensStep (nd : Nested P S X E) (ms : List (P × MState S)) : List (P × MState S) :=
  ms.map fun pm => (pm.1, memberStep (nd.alg pm.1) pm.2)

/-- `n` ensemble `Step`s -/
def ensSteps (nd : Nested P S X E) : Nat → List (P × MState S) → List (P × MState S)
  | 0, ms => ms
  | n + 1, ms => ensSteps nd n (ensStep nd ms)

/-- the members as the ensemble reads them, slot `i` with `id = i + at` -/
def viewMembers (nd : Nested P S X E) (at_ : Nat) : Nat → List (P × MState S) → List (Member X E)
  | _, [] => []
  | i, pm :: rest => memberOf nd pm.2.ctl pm.2.st (i + at_) :: viewMembers nd at_ (i + 1) rest

/-- the ensemble's `Terminated(all=None)` l.331-333: `False in [s.Terminated() for s in _allSolvers]` - here: every
member's last `Step()` returned a message -/
def allStopped (ms : List (P × MState S)) : Bool := ms.all fun pm => pm.2.msg.isSome

/-- **the ensemble `Solve(step=True)`**: `while not stop: stop = self.Step()` - one ensemble `_Step`, then the stop test
(at most `fuel` ensemble Steps).  Returns the members and the number of ensemble Steps taken. -/
def ensSolveStep (nd : Nested P S X E) : Nat → List (P × MState S) → Nat → List (P × MState S) × Nat
  | 0, ms, n => (ms, n)
  | fuel + 1, ms, n =>
    if allStopped (ensStep nd ms) = true then (ensStep nd ms, n + 1)
    else ensSolveStep nd fuel (ensStep nd ms) (n + 1)

/-- `_solve(solver, None)` on an EXISTING member (l.769-795 with `x0 = None`): the ensemble's `Solve()` called after ensemble
`Step`s - `_is_new()` is false, `iv = [None] * n` (l.757), `__init_allSolvers` keeps the members - runs every member's own
`Solve()` from the state its `Step`s left (`while not stop: stop = self.Step()`, abstract_solver.py l.1130-1133) -/
def memberContinue (a : Alg S) (fuel : Nat) (m : MState S) : MState S :=
  { ctl := (solve a fuel m.ctl m.st m.k 0).ctl, st := (solve a fuel m.ctl m.st m.k 0).st,
    k := (solve a fuel m.ctl m.st m.k 0).iters, msg := (solve a fuel m.ctl m.st m.k 0).msg }

/-- **`n` ensemble `Step`s, then the ensemble's `Solve()`** (mixed mode: a second reduction over the same members, in
run-to-completion mode) -/
def ensStepsThenSolve (nd : Nested P S X E) (fuel n : Nat) (ms : List (P × MState S)) : List (P × MState S) :=
  (ensSteps nd n ms).map fun pm => (pm.1, memberContinue (nd.alg pm.1) fuel pm.2)

end Run

/-! ### Nelder-Mead members -/
section NMembers
variable {R : Type} [Add R] [Sub R] [Mul R] [Div R] [Neg R] [LT R] [DecidableLT R] [LE R] [DecidableLE R]
  [BEq R] [OfNat R 0] [OfNat R 2]

/-- Nelder-Mead as the nested solver (the default of every ensemble, abstract_ensemble_solver.py l.141-142):
`bestSolution = population[0]`, `bestEnergy = popEnergy[0]` (the sorted simplex's first row) -/
def nmNested (o : Obj (Pt R) R) (coef : Coef R) (st clip0 mkVal : Pt R → Pt R) (cond : Term.Cond R) :
    Nested (Pt R) (NM R R) (Pt R) R :=
  { alg := fun x0 => nmAlg o coef st clip0 mkVal cond x0
    init := { simplex := [], log := [], stepLog := [] }
    bestE := fun s => (s.simplex.map Prod.snd).headD o.top
    bestX := fun s => (s.simplex.map Prod.fst).headD [] }

end NMembers

/-! ### from the configuration to the result: starting points generated by the model itself -/
section Chain
variable {R S X E : Type} [Add R] [Sub R] [Mul R] [Div R] [Neg R] [LT R] [DecidableLT R]
  [OfNat R 0] [OfNat R 1] [OfNat R 2] [NatCast R] [LE E] [DecidableLE E]

/-- `LatticeSolver(dim, nbins=<tuple>).Solve()`: `_InitialPoints` (ensemble.py l.59-82, Model/Ensemble `latticePoints`) feeds
the map of `_solve` -/
def latticeEnsembleSolve (nd : Nested (List R) S X E) (fuel : Nat) (c0 : Ctl) (at_ : Nat) (pyfloat : Bool) (dim : Nat)
    (lower upper : List R) (nbins : List Nat) : Except Err (EnsOut X E) :=
  match latticePoints pyfloat dim lower upper nbins with
  | .error e => .error e
  | .ok pts => .ok (ensembleSolve nd fuel c0 at_ pts)

/-- `BuckshotSolver(dim, npts).Solve()` with the uniform sampler: `samplepts(lower, upper, npts)` (ensemble.py l.102-114,
Model/Ensemble `samplepts`; `us` = the `numpy.random.rand(dim, npts)` matrix) feeds the map of `_solve` -/
def buckshotEnsembleSolve (nd : Nested (List R) S X E) (fuel : Nat) (c0 : Ctl) (at_ : Nat) (lb ub : List R) (npts : Nat)
    (us : List (List R)) : Except Err (EnsOut X E) :=
  match samplepts lb ub npts us with
  | .error e => .error e
  | .ok pts => .ok (ensembleSolve nd fuel c0 at_ pts)

end Chain

/-! ### the one-liners `lattice()` / `buckshot()` / `sparsity()` (ensemble.py l.212-339 / l.342-469 / l.472-603):
from the arguments of the call to the ensemble that is run.  The three bodies are the same text but for the ensemble class
(and `rtol`, sparsity only):
```
gtol = 10
if 'gtol' in kwds: gtol = kwds['gtol']
if gtol: termination = NormalizedChangeOverGeneration(ftol,gtol)      # a generation count was given
else:    termination = VTRChangeOverGeneration(ftol)                   # None / 0: the value-to-reach stop
solver = <Ensemble>Solver(ndim, nbins|npts[, rtol]); solver.SetNestedSolver(_solver)
solver.SetEvaluationLimits(maxiter,maxfun) ... SetDistribution / SetPenalty / SetConstraints / SetStrictRanges(minb,maxb,tight,clip)
solver.Solve(cost, termination=termination, ...)
```
and `Solve` pushes the ensemble's settings into every member (`__get_solver_instance`, Model/Ensemble `initSlots`). -/
section Oneliner
variable {R C : Type}

/-- the `gtol` keyword as Python sees it: not given, given as `None`, given as an integer -/
inductive GTol where
  | absent
  | none
  | int (n : Int)
  deriving DecidableEq, Repr

/-- `gtol = 10; if 'gtol' in kwds: gtol = kwds['gtol']` -/
def GTol.value : GTol → Option Int
  | .absent => some 10
  | .none => Option.none
  | .int n => some n

/-- `if gtol:` - `None` and `0` are falsy -/
def GTol.truthy (g : GTol) : Bool :=
  match g.value with
  | some n => n != 0
  | Option.none => false

/-- the constants of mystic/termination.py the one-liners rely on: `eta = 1e-20` of NormalizedChangeOverGeneration (l.224),
the defaults `gtol=1e-6, generations=30, target=0.0` of VTRChangeOverGeneration (l.320) -/
structure TermConsts (R : Type) where
  eta : R
  vgtol : R
  vtarget : R

/-- the termination the one-liner hands to `Solve` -/
def onelinerTerm (k : TermConsts R) (ftol : R) (g : GTol) : Term.Prim R :=
  if g.truthy = true then .ncog ftol g.value k.eta else .vtrcog ftol k.vgtol (some 30) k.vtarget

inductive OKind where
  | lattice | buckshot | sparsity
  deriving DecidableEq, Repr

/-- the arguments of a one-liner call that configure the ensemble (`ftol`: the signature's default 1e-4 already applied) -/
structure Kw (R C : Type) where
  first : Count                                   -- `nbins` (tuple / integer) or `npts`; the signature's default is 8
  ftol : R
  gtol : GTol
  maxiter : Option Nat
  maxfun : Option Nat
  bounds : Option (List R × List R)               -- `unpair(bounds)`
  tight : Option Bool                             -- `tightrange` (absent = None)
  clip : Option Bool                              -- `cliprange`
  constraints : Option C
  penalty : Option C
  dist : Option C
  rtol : Option R                                 -- sparsity only (absent = None)
  id : Option Nat

/-- a setting of a member solver, as `__get_solver_instance` pushes it -/
inductive OSet (R C : Type) where
  | ranges (r : Option (List R × List R × Option Bool × Option Bool))
  | limits (maxiter maxfun : Option Nat)
  | term (t : Term.Prim R)
  | fn (f : Option C)
  | unset                                         -- reducer / objective: not configured by the keywords modelled here

/-- the ensemble a one-liner builds: its own settings and the configuration its members inherit -/
structure OneEns (R C : Type) where
  kind : OKind
  count : Count
  rtol : Option R
  dist : Option C
  at_ : Nat                                       -- `solver.id = int(kwds['id'])`; members get `id = i + at`
  cfg : Cfg (OSet R C)

def oneliner (k : TermConsts R) (kind : OKind) (kw : Kw R C) : OneEns R C :=
  { kind := kind, count := kw.first
    rtol := match kind with | .sparsity => kw.rtol | _ => none
    dist := kw.dist
    at_ := kw.id.getD 0
    cfg := { ranges := .ranges (kw.bounds.map fun b => (b.1, b.2, kw.tight, kw.clip))
             limits := .limits kw.maxiter kw.maxfun
             termination := .term (onelinerTerm k kw.ftol kw.gtol)
             constraints := .fn kw.constraints
             penalty := .fn kw.penalty
             reducer := .unset
             objective := .unset } }

/-- the members of the ensemble the one-liner solves: `memberCount` fresh copies of the configured nested solver -/
def onelinerMembers (k : TermConsts R) (kind : OKind) (kw : Kw R C) : Option (List (Slot (OSet R C))) :=
  (memberCount kw.first).map fun n => initSlots (oneliner k kind kw).cfg (oneliner k kind kw).at_ 0 (List.replicate n none)

end Oneliner

/-! ### `fillpts` (mystic/math/grid.py l.61-121, `dist=None`): the deterministic contract around the optimisation runs -/
section Fill
variable {P R : Type}

/-- l.108-111 `for pt in range(npts): res = solver(holes, x0=bounds, bounds=bounds, **kwds); pts.append(res.ravel().tolist())`:
`opt j pts` is what the `j`-th `diffev` run returns when `pts` are the points collected so far (an optimisation run over
the closure `holes`: an oracle here; that its result lies in `bounds` is C02 for differential evolution) -/
def fillLoop (opt : Nat → List P → P) : Nat → Nat → List P → List P
  | 0, _, pts => pts
  | n + 1, j, pts => fillLoop opt n (j + 1) (pts ++ [opt j pts])

/-- `fillpts(lb, ub, npts, data, rtol)`: l.95 `pts = [] if data is None else list(data)`, the loop, l.112
`pts = pts[len(pts)-npts:]` (the legacy data are dropped, only the `npts` new points are returned) -/
def fillpts (opt : Nat → List P → P) (npts : Nat) (data : List P) : List P :=
  (fillLoop opt npts 0 data).drop ((fillLoop opt npts 0 data).length - npts)

variable [LT R] [DecidableLT R] [Neg R] [OfNat R 0]

/-- `metric(pts, x, axis=0).min()` given the distances to the collected points (`none`: no point yet) -/
def minOf : List R → Option R
  | [] => none
  | d :: ds => some (ds.foldl (fun m x => if x < m then x else m) d)

/-- l.101-103 (`rtol is None`): `holes(x) = -min distance` - minimising it MAXIMISES the distance to the nearest point -/
def holesNone (dists : List R) : Option R := (minOf dists).map fun r => -r

/-- l.105-107 (`rtol` positive): `res = min distance; return -res if res < rtol else 0.0` -/
def holesTol (rtol : R) (dists : List R) : Option R := (minOf dists).map fun r => if r < rtol then -r else 0

end Fill

end MysticVerif.Ens
