/-
Model of the deterministic statistics of `mystic.math.discrete` that sit beside expect/pof/support:
the `maximum / minimum / ptp / ess_*` family (measure l.151-230, product_measure l.514-581, helpers
`mystic.math.measures` l.88-185), the measure-level `support / support_index / expect / expect_var`
(l.67-89, l.232-256), `measure.normalize` (l.127), the product-level `center_mass` getter/setter (l.448-455)
and the scenario value statistics `pof_value` (l.1318), `mean_value` / `set_mean_value` (l.1105-1128).

Same conventions as Model/Discrete.lean: operations only (no laws), `none` = the call raised
(`max([])` / `min([])` ValueError, a missing entry IndexError).  No Mathlib imports (linked into `mvdrv`).
-/
import MysticVerif.Model.Discrete

namespace MysticVerif.Discrete

/-- a list comprehension whose elements may raise: the first exception aborts it -/
def allSome {β : Type} : List (Option β) → Option (List β)
  | [] => some []
  | none :: _ => none
  | some a :: l => (allSome l).map (a :: ·)

section num
variable {R : Type} [Add R] [Sub R] [Mul R] [Div R] [Neg R] [LT R] [DecidableLT R] [LE R] [DecidableLE R]
  [OfNat R 0] [OfNat R 1] [BEq R]

/-! ### `measures.maximum / minimum / ptp / ess_*` (measures.py l.88-185) -/

/-- `maximum(f, samples)`: `y = [f(x) for x in samples]; max(y)` -/
def maximumL {β : Type} (f : β → R) (P : List β) : Option R := maxL (P.map f)
/-- `minimum(f, samples)` -/
def minimumL {β : Type} (f : β → R) (P : List β) : Option R := minL (P.map f)
/-- `ptp(f, samples)`: `max(y) - min(y)` -/
def ptpL {β : Type} (f : β → R) (P : List β) : Option R := spread (P.map f)

/-- `ess_maximum(f, samples, weights, tol)`: `maximum(f, support(samples, weights, tol))` -/
def essMaximumL {β : Type} (f : β → R) (P : List β) (ws : List R) (tol : R) : Option R :=
  (supportL P ws tol).bind (maximumL f)
def essMinimumL {β : Type} (f : β → R) (P : List β) (ws : List R) (tol : R) : Option R :=
  (supportL P ws tol).bind (minimumL f)
def essPtpL {β : Type} (f : β → R) (P : List β) (ws : List R) (tol : R) : Option R :=
  (supportL P ws tol).bind (ptpL f)

/-! ### one measure (discrete.py l.67-89, l.151-256) -/

/-- `positions = [(i,) for i in self.positions]` -/
def singles (m : Measure R) : List (List R) := (mpositions m).map fun x => [x]

def mSupportIndex (m : Measure R) (tol : R) : List Nat := supportIndexL (mweights m) tol
def mSupport (m : Measure R) (tol : R) : Option (List R) := supportL (mpositions m) (mweights m) tol
def mMaximum (f : List R → R) (m : Measure R) : Option R := maximumL f (singles m)
def mMinimum (f : List R → R) (m : Measure R) : Option R := minimumL f (singles m)
def mPtp (f : List R → R) (m : Measure R) : Option R := ptpL f (singles m)
def mEssMaximum (f : List R → R) (tol : R) (m : Measure R) : Option R := essMaximumL f (singles m) (mweights m) tol
def mEssMinimum (f : List R → R) (tol : R) (m : Measure R) : Option R := essMinimumL f (singles m) (mweights m) tol
def mEssPtp (f : List R → R) (tol : R) (m : Measure R) : Option R := essPtpL f (singles m) (mweights m) tol
def mExpect (inf : R) (m : Measure R) (f : List R → R) : R := expectation inf f (singles m) (mweights m)
def mExpectVar (inf : R) (m : Measure R) (f : List R → R) : R := expectedVariance inf f (singles m) (mweights m)

/-- `measure.normalize()` (l.127): `impose_weight_norm(positions, weights)` (measures.py l.1315, mass = 1.0):
    `m = mean; wts = normalize(weights, mass); impose_mean(m, samples, wts), wts` -/
def mNormalize (inf : R) (m : Measure R) : Measure R :=
  let xs := mpositions m
  let ws := mweights m
  let w' := normalizeMass 1 ws
  rebuild (imposeMean inf (mean inf xs ws) xs w', w')

/-! ### product measure (discrete.py l.448-455, l.514-581): per-factor statistics, then `max` / `min` of them
(the XXX comments of the code: "return max of all or return all max?" - it returns the max of all) -/

def pmMaximum (f : List R → R) (c : PM R) : Option R := (allSome (c.map (mMaximum f))).bind maxL
def pmMinimum (f : List R → R) (c : PM R) : Option R := (allSome (c.map (mMinimum f))).bind minL
def pmPtp (f : List R → R) (c : PM R) : Option R := (allSome (c.map (mPtp f))).bind maxL
def pmEssMaximum (f : List R → R) (tol : R) (c : PM R) : Option R := (allSome (c.map (mEssMaximum f tol))).bind maxL
def pmEssMinimum (f : List R → R) (tol : R) (c : PM R) : Option R := (allSome (c.map (mEssMinimum f tol))).bind minL
def pmEssPtp (f : List R → R) (tol : R) (c : PM R) : Option R := (allSome (c.map (mEssPtp f tol))).bind maxL

/-- `product_measure.center_mass` (l.448): `[i.center_mass for i in self]` -/
def pmCenterMass (inf : R) (c : PM R) : List R := c.map (centerMass inf)

/-- `product_measure.center_mass = v` (l.451): `i._measure__set_mean(v[m]) for (m,i) in enumerate(self)`;
    a missing entry is an `IndexError`, surplus entries are ignored -/
def pmSetCenterMass (inf : R) : PM R → List R → Option (PM R)
  | [], _ => some []
  | _ :: _, [] => none
  | m :: c, v :: vs => (pmSetCenterMass inf c vs).map (setCenterMass inf m v :: ·)

/-! ### scenario values (discrete.py l.1105-1128, l.1318-1336) -/

/-- `pof(f)`-like accumulation over `zip(items, weights)`: `u += w` whenever `f(item) <= 0.0` -/
def pofG {β : Type} (f : β → R) (P : List β) (ws : List R) : R :=
  (List.zip P ws).foldl (fun u xw => if f xw.1 ≤ 0 then u + xw.2 else u) 0

/-- `scenario.pof_value(f)` (l.1318): over `zip(self.values, self.weights)` (the shorter one decides) -/
def pofValue (s : Scen R) (f : R → R) : R := pofG f s.values (weights s.pm)

/-- `scenario.mean_value()` (l.1105): `mean(self.values, self.weights)` -/
def meanValue (inf : R) (s : Scen R) : R := mean inf s.values (weights s.pm)

/-- `scenario.set_mean_value(m)` (l.1117): `self.values = impose_mean(m, self.values, self.weights)` -/
def setMeanValue (inf : R) (s : Scen R) (m : R) : Scen R :=
  { s with values := imposeMean inf m s.values (weights s.pm) }

end num

end MysticVerif.Discrete
