/-
Penalty OBJECTS as trees: the `coupler` combinators `and_ / or_ / not_` (coupler.py l.171-293) build a penalty
whose CONDITION evaluates other live penalty objects (`sum(p(x) for p in penalties)` l.205,
`min(p(x) for p in penalties)` l.245, `0 - condition(x)` / `not condition(x)` with `condition = penalty.func`
l.283-290), so the state that decides `p(x)` is a tree: a chain of levels (decoration, `_f[0]`), each with a
condition that is the user's callable (`leaf`) or a combination of member objects with their own chains.

`Model/Penalty.lean` is the model of ONE chain with the condition values given; this file adds the condition
plumbing and the per-object operations on the whole tree.  `Proofs/PenaltyTree.lean` proves that on every chain
the functions here are the flat ones (`evalT = evalStack ∘ chain`, ...), so every theorem of Props/C15 applies to
every chain of every tree.

The user's callables are parameters: `Env.c i` is the value of condition number `i` at the evaluation point
(`none` = it raised `ZeroDivisionError`), `Env.f j` the value of decorated function number `j`.
No Mathlib imports: linked into `mvdrv`.
-/
import MysticVerif.Model.Penalty

namespace MysticVerif.Pen

mutual
/-- a penalty object: a decorated plain function, or one penalty level around an inner object -/
inductive PT (R : Type) where
  | base (f : Nat)
  | pen (l : Level R) (c : PC R) (inner : PT R)
/-- a condition -/
inductive PC (R : Type) where
  /-- the user's condition number `i` -/
  | leaf (i : Nat)
  /-- `coupler.not_` around a member whose `.func` is `c`; `t` = the type of the level that carries it -/
  | not (t : PType) (c : PC R)
  /-- `coupler.and_` -/
  | and (ms : PL R)
  /-- `coupler.or_` (python `min()` of no members is a `ValueError`: not represented) -/
  | or (m : PT R) (ms : PL R)
/-- member objects -/
inductive PL (R : Type) where
  | nil
  | cons (m : PT R) (rest : PL R)
end

structure Env (R : Type) where
  c : Nat → Option R
  f : Nat → R

/-- one step from an object to another one it references -/
inductive Step where
  /-- the decorated object `_f[0]` -/
  | down
  /-- member number `m` of the condition of this level (through `not_`) -/
  | member (m : Nat)
  deriving Repr, DecidableEq

variable {R : Type} [Add R] [Sub R] [Mul R] [Div R] [Neg R] [LT R] [DecidableLT R] [BEq R]
  [OfNat R 0] [OfNat R 1] [OfNat R 2] [PenOps R]

/-! ### evaluation -/

mutual
/-- `p(x)` (penalty.py l.81-88 and its eight copies).  Everything the condition raises is a
`ZeroDivisionError` here (member penalties only ever raise that), and the level's `try` turns it into `inf`. -/
def evalT (env : Env R) : PT R → Except Err R
  | .base f => .ok (env.f f)
  | .pen l c inner =>
    match condV env c with
    | none => .ok PenOps.inf
    | some pf =>
      match term l pf with
      | .error e => .error e
      | .ok (.stop v) => .ok v
      | .ok (.add a) =>
        match evalT env inner with
        | .error e => .error e
        | .ok v => .ok (a + v)
/-- the condition value at the evaluation point; `none` = `ZeroDivisionError` -/
def condV (env : Env R) : PC R → Option R
  | .leaf i => env.c i
  | .not t c =>
    match condV env c with
    | none => none
    | some v => some (notCond t v)
  | .and ms =>
    match valsL env ms with
    | none => none
    | some vs => some (andCond vs)
  | .or m ms =>
    match evalT env m with
    | .error _ => none
    | .ok v =>
      match valsL env ms with
      | none => none
      | some vs => some (orCond v vs)
/-- the member values `[p(x) for p in penalties]` -/
def valsL (env : Env R) : PL R → Option (List R)
  | .nil => some []
  | .cons m rest =>
    match evalT env m with
    | .error _ => none
    | .ok v =>
      match valsL env rest with
      | none => none
      | some vs => some (v :: vs)
end

/-- `p.error(x)` (l.54-60): the member objects enter through the condition value only -/
def errT (env : Env R) : PT R → R
  | .base _ => 0
  | .pen l c (.base _) =>
    match condV env c with
    | none => PenOps.inf
    | some pf => PenOps.root (PenOps.sq (viol l.t pf))
  | .pen l c (.pen l2 c2 i2) =>
    match condV env c with
    | none => PenOps.inf
    | some pf => PenOps.root (PenOps.sq (viol l.t pf) + PenOps.sq (errT env (.pen l2 c2 i2)))

/-! ### the chain of an object -/

def chain : PT R → List (Level R × PC R)
  | .base _ => []
  | .pen l c inner => (l, c) :: chain inner

def baseOf : PT R → Nat
  | .base f => f
  | .pen _ _ inner => baseOf inner

def ofChain : List (Level R × PC R) → Nat → PT R
  | [], f => .base f
  | (l, c) :: rest, f => .pen l c (ofChain rest f)

/-! ### `iter`, `clear`, `store`, `iteration`, `stored` of one object: along its chain, never into the members -/

/-- `p.iter(i)` (l.61-65) -/
def iterT (i : Option Int) : PT R → PT R
  | .base f => .base f
  | .pen l c inner => .pen { l with n := match i with | none => l.n + 1 | some j => j } c (iterT i inner)

/-- `p.clear()` (l.75-79) -/
def clearT : PT R → PT R
  | .base f => .base f
  | .pen l c inner => .pen { l with n := 0, y := [] } c (clearT inner)

/-- `p.store(x, i)` (l.487-497 / l.68-70): new object and the escaping `IndexError`, if any -/
def storeT (env : Env R) : Option Int → PT R → PT R × Option Err
  | _, .base f => (.base f, none)
  | i, .pen l c inner =>
    if l.t.isLag = true then
      let v : R := match condV env c with | some a => a | none => PenOps.inf
      let len : Int := l.y.length
      let j : Int := storeIdx i l.n
      if len ≤ j then
        let r := storeT env (some j) inner
        (.pen { l with y := l.y ++ (List.replicate (j - len).toNat 0 ++ [v]) } c r.1, r.2)
      else if -len ≤ j then
        let r := storeT env (some j) inner
        (.pen { l with y := setPy l.y j v } c r.1, r.2)
      else (.pen l c inner, some .index)
    else
      let r := storeT env i inner
      (.pen l c r.1, r.2)

/-- `p.iteration()` -/
def iterationT : PT R → Int
  | .base _ => 0
  | .pen l _ _ => l.n

/-- `p.stored()` -/
def storedT : PT R → List R
  | .base _ => []
  | .pen l _ _ => l.y

/-! ### addressing an object inside the tree -/

mutual
/-- the object reached from `t` along `p` -/
def getT : List Step → PT R → Option (PT R)
  | [], t => some t
  | _ :: _, .base _ => none
  | .down :: p, .pen _ _ inner => getT p inner
  | .member m :: p, .pen _ c _ => getC m p c
def getC : Nat → List Step → PC R → Option (PT R)
  | _, _, .leaf _ => none
  | m, p, .not _ c => getC m p c
  | m, p, .and ms => getL m p ms
  | 0, p, .or m0 _ => getT p m0
  | m + 1, p, .or _ ms => getL m p ms
def getL : Nat → List Step → PL R → Option (PT R)
  | _, _, .nil => none
  | 0, p, .cons m _ => getT p m
  | k + 1, p, .cons _ rest => getL k p rest
end

mutual
/-- replace the object reached along `p` by `g` of it (python: a call on that object mutates its closure cells
in place; every other object that references it sees the change) -/
def modT (g : PT R → PT R) : List Step → PT R → PT R
  | [], t => g t
  | _ :: _, .base f => .base f
  | .down :: p, .pen l c inner => .pen l c (modT g p inner)
  | .member m :: p, .pen l c inner => .pen l (modC g m p c) inner
def modC (g : PT R → PT R) : Nat → List Step → PC R → PC R
  | _, _, .leaf i => .leaf i
  | m, p, .not t c => .not t (modC g m p c)
  | m, p, .and ms => .and (modL g m p ms)
  | 0, p, .or m0 ms => .or (modT g p m0) ms
  | m + 1, p, .or m0 ms => .or m0 (modL g m p ms)
def modL (g : PT R → PT R) : Nat → List Step → PL R → PL R
  | _, _, .nil => .nil
  | 0, p, .cons m rest => .cons (modT g p m) rest
  | k + 1, p, .cons m rest => .cons m (modL g k p rest)
end

mutual
/-- every level of the tree in a fixed order (own level, the members of its condition, the decorated object):
the whole mutable state -/
def allLevels : PT R → List (Level R)
  | .base _ => []
  | .pen l c inner => l :: (levelsC c ++ allLevels inner)
def levelsC : PC R → List (Level R)
  | .leaf _ => []
  | .not _ c => levelsC c
  | .and ms => levelsL ms
  | .or m ms => allLevels m ++ levelsL ms
def levelsL : PL R → List (Level R)
  | .nil => []
  | .cons m rest => allLevels m ++ levelsL rest
end

mutual
/-- the tree with the mutable state (`_n[0]`, `_y`) of every level erased: everything that is NOT iteration state -/
def skelT : PT R → PT R
  | .base f => .base f
  | .pen l c inner => .pen { l with n := 0, y := [] } (skelC c) (skelT inner)
def skelC : PC R → PC R
  | .leaf i => .leaf i
  | .not t c => .not t (skelC c)
  | .and ms => .and (skelL ms)
  | .or m ms => .or (skelT m) (skelL ms)
def skelL : PL R → PL R
  | .nil => .nil
  | .cons m rest => .cons (skelT m) (skelL rest)
end

/-! ### the operation state machine -/

/-- a mutating call on the object at the end of a path; `store` carries the environment at its point `x` -/
inductive TOp (R : Type) where
  | iter (p : List Step) (i : Option Int)
  | clear (p : List Step)
  | store (p : List Step) (env : Env R) (i : Option Int)

/-- the tree after the call (for `store`: also when an `IndexError` escaped half-way) -/
def TOp.apply (o : TOp R) (t : PT R) : PT R :=
  match o with
  | .iter p i => modT (iterT i) p t
  | .clear p => modT clearT p t
  | .store p env i => modT (fun s => (storeT env i s).1) p t

/-- the exception escaping from the call -/
def TOp.err (o : TOp R) (t : PT R) : Option Err :=
  match o with
  | .store p env i =>
    match getT p t with
    | some s => (storeT env i s).2
    | none => none
  | _ => none

/-! ### the caller's side: the lists handed out by `stored()`

`stored()` without an index returns `_y[:]` (penalty.py l.72, 131, 190, 249, 310, 372, 431, 499, 571): a NEW python
list.  What the caller then does to that list (sort, scale, append, `del`) is the caller's business; what the penalty
later does to `_y` (`store`, `clear`: `_y.extend`, `_y[i] = y`, `_y.pop()`) is the penalty's.  A session is the tree
together with the lists the caller holds. -/

structure Sess (R : Type) where
  t : PT R
  held : List (List R)

/-- one step of a session -/
inductive SOp (R : Type) where
  /-- a mutating call (`iter / iter(i) / clear / store`) on an object of the tree -/
  | tree (o : TOp R)
  /-- `r = obj.stored()`, kept by the caller as its list number `held.length` -/
  | hold (p : List Step)
  /-- the caller edits ITS list number `s` in place; `new` = the contents after the edit (any edit at all) -/
  | hmut (s : Nat) (new : List R)

def SOp.apply (o : SOp R) (s : Sess R) : Sess R :=
  match o with
  | .tree o => { s with t := o.apply s.t }
  | .hold p => { s with held := s.held ++ [match getT p s.t with | some sub => storedT sub | none => []] }
  | .hmut i new => { s with held := s.held.set i new }

def runS (os : List (SOp R)) (s : Sess R) : Sess R := os.foldl (fun s o => o.apply s) s

/-- the mutating calls of a session, in order -/
def treeOps : List (SOp R) → List (TOp R)
  | [] => []
  | .tree o :: os => o :: treeOps os
  | _ :: os => treeOps os

mutual
/-- every level of a type WITHOUT multipliers (all but the two Lagrange types) has an empty `_y` -/
def cleanT : PT R → Bool
  | .base _ => true
  | .pen l c inner => (l.t.isLag || l.y.isEmpty) && cleanC c && cleanT inner
def cleanC : PC R → Bool
  | .leaf _ => true
  | .not _ c => cleanC c
  | .and ms => cleanL ms
  | .or m ms => cleanT m && cleanL ms
def cleanL : PL R → Bool
  | .nil => true
  | .cons m rest => cleanT m && cleanL rest
end

/-- `constraints.as_penalty` (constraints.py l.485): the condition is `rnorm(x, constraint(x))`; a constraint that
divides by zero makes the condition raise -/
def asPenaltyCond (x : List R) (cx : Option (List R)) : Option R :=
  match cx with
  | none => none
  | some v => some (rnorm x v)

end MysticVerif.Pen
