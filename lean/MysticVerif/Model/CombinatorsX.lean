/-
Extended model of `mystic.constraints.and_ / or_ / not_` (constraints.py l.521-721): every `except` clause,
members given as call-indexed oracles.  `Model/Combinators.lean` (namespace `Comb`) is the special case
"deterministic members that return or raise `ZeroDivisionError`" (`Proofs/CombinatorsX.lean`: `and_agree`,
`or_agree`, `not_agree`); the history helpers `lastAllEq / cycHit / dropOld / dropOldAll / Stats` are shared.

The history list `x` of the code is kept newest-first (`h.head = x[-1]`).

Members.  The combinators call their members one at a time; call number `j` (0-based, counted over the first
pass and the cycling phase) goes to member `j % n` (`for c in constraints` l.551 / `it.cycle(constraints)`
l.567 restarted at `j = n`).  A member behaviour is therefore ANY function `c : Nat → X → Out X` of the call
number and the vector handed to it (a copy of a history entry): deterministic members are the special case
`c j = m (j % n)` (`detc` below); step-dependent `c` are non-deterministic / stateful members given as oracles.
What one call can do (`Out`), as the `try / except` of the code distinguishes it (l.552-562, 570-580, 631-641,
649-659, 704-713):
  `ret y`  it returned `y`;
  `zdiv`   it raised `ZeroDivisionError`: a copy of its input is appended, `e` is set;
  `tverr`  it raised a `TypeError` / `ValueError` that the clause swallows (every message `m` with
           `m.find('not supported') != 0 and m.rfind("'complex'") != 0`, l.558-559): as `zdiv`, except that
           `or_` appends a copy of `x[-1]` instead of a copy of the member's input (l.640, l.658);
  `raise`  anything else (`OverflowError`, `FloatingPointError`, `IndexError`, a `TypeError`/`ValueError` whose
           message starts with `not supported` / has `'complex'` at position 0 only, ...): it propagates out of
           the combinator (`Res.raised`), neither `onexit` nor `onfail` is called.
Mutations of the argument are invisible: every call receives a fresh copy (`x[-1][:]`).
Random replacement is a parameter `rand : D → X → X` fed from a draw stream;
the stream running dry is the explicit result `.stuck` (never defaulted).
No Mathlib imports: this file is linked into `mvdrv`.
-/
import MysticVerif.Model.Combinators

namespace MysticVerif.CombX
open MysticVerif.Comb (lastAllEq cycHit dropOld dropOldAll Stats)

/-- outcome of one member call -/
inductive Out (X : Type) where
  | ret (y : X)
  | zdiv
  | tverr
  | raise
  deriving Repr, DecidableEq

inductive ResX (X : Type) where
  /-- success path (`onexit`): returned vector, step index of the newest entry, ghost link count -/
  | success (y : X) (t : Nat) (links : Nat)
  /-- failure path (`onfail`) after the iteration cap -/
  | fail (y : X)
  /-- a member's exception propagated out of the combinator (no exit path fired) -/
  | raised
  /-- the supplied draw stream ran dry (driver artefact, not a behaviour of the code) -/
  | stuck
  deriving Repr, DecidableEq

variable {X D : Type}

/-- deterministic members `m 0 .. m (n-1)` as a call-indexed behaviour -/
def detc (m : Nat → X → Out X) (n : Nat) : Nat → X → Out X := fun j => m (j % n)

/-- one member call as the code handles it: `some (appended entry, e is not None)`, `none` = propagates.
`src` is the entry whose copy the member received, `last` is `x[-1]` -/
def applyO (o : Out X) (src last : X) : Option (X × Bool) :=
  match o with
  | .ret y => some (y, false)
  | .zdiv => some (src, true)
  | .tverr => some (last, true)
  | .raise => none

/-- `and_` hands every member `x[-1][:]`: both swallowed classes append a copy of `x[-1]` -/
def applyM (o : Out X) (x : X) : Option (X × Bool) := applyO o x x

/-! ### `and_` -/

/-- the first pass `for c in constraints` (calls `i .. i+k-1`); `.ok (history, x[-1], e, links)`, or
`.error calls` when call number `calls - 1` propagated an exception -/
def andFirst (c : Nat → X → Out X) : (k : Nat) → (i : Nat) → List X → X → Bool → Nat →
    Except Nat (List X × X × Bool × Nat)
  | 0, _, h, top, e, links => .ok (h, top, e, links)
  | k + 1, i, h, top, e, links =>
    match applyM (c i top) top with
    | none => .error (i + 1)
    | some ye => andFirst c k (i + 1) (top :: h) ye.1 (e || ye.2) (if ye.2 = true then 0 else links + 1)

/-- the cycling phase `for j in range(n, maxiter)`; `top` is `x[-1]`, `h` the older entries (newest first) -/
def andCycle [BEq X] (c : Nat → X → Out X) (rand : D → X → X) (n cap : Nat) :
    (fuel : Nat) → (j : Nat) → (h : List X) → (top : X) → (links : Nat) → List D → Stats → ResX X × Stats
  | 0, _, _, top, _, _, st => (.fail top, st)
  | fuel + 1, j, h, top, links, draws, st =>
    if cap ≤ j then (.fail top, st) else
    match applyM (c j top) top with
    | none => (.raised, { st with calls := st.calls + 1 })
    | some ye =>
    let st := { st with calls := st.calls + 1 }
    let links1 := if ye.2 = true then 0 else links + 1
    if (!ye.2 && lastAllEq (n - 1) (top :: h) ye.1) = true then (.success ye.1 j links1, st) else
    if cycHit n (top :: h) ye.1 = true then
      match draws with
      | [] => (.stuck, st)
      | d :: ds =>
        let r := rand d ye.1
        let links2 := if (r == ye.1) = true then links1 else 0
        andCycle c rand n cap fuel (j + 1) (dropOld n j (top :: h)) r links2 ds { st with draws := st.draws + 1 }
    else
      andCycle c rand n cap fuel (j + 1) (dropOld n j (top :: h)) ye.1 links1 draws st

/-- `constraints.and_(*c, maxiter=m)(x)` with `cap = m * n` -/
def and_ [BEq X] (c : Nat → X → Out X) (rand : D → X → X) (n cap : Nat) (x : X) (draws : List D) :
    ResX X × Stats :=
  if n = 0 then (.success x 0 0, {}) else
  match andFirst c n 0 [] x false 0 with
  | .error k => (.raised, { calls := k })
  | .ok fp =>                                   -- (h, top, e, links)
  let st : Stats := { calls := n }
  -- `all(xi == x[-1] for xi in x[1:])` : the n outputs (top and the n-1 newest of h)
  if (!fp.2.2.1 && lastAllEq (n - 1) fp.1 fp.2.1) = true then (.success fp.2.1 (n - 1) fp.2.2.2, st) else
  andCycle c rand n cap (cap - n) n fp.1 fp.2.1 fp.2.2.2 draws st

/-! ### `or_` -/

/-- result of the first pass of `or_` -/
inductive OrFP (X : Type) where
  /-- a member left `x[0]` unchanged and no exception had been swallowed before: success -/
  | succ (y : X) (calls : Nat)
  /-- all members tried: history (newest first), calls -/
  | cont (h : List X) (calls : Nat)
  | raised (calls : Nat)

/-- first pass of `or_` (l.630-644): every member applied to `x[0]`, success as soon as one leaves it unchanged.
`h` is the complete history, newest first (never empty: it starts as `[x[0]]`) -/
def orFirst [BEq X] (c : Nat → X → Out X) (x0 : X) : (k : Nat) → (i : Nat) → List X → Bool → Nat → OrFP X
  | 0, _, h, _, calls => .cont h calls
  | k + 1, i, h, e, calls =>
    match applyO (c i x0) x0 (h.headD x0) with
    | none => .raised (calls + 1)
    | some ye =>
    let e := e || ye.2                       -- `e` is never reset inside the first loop
    if (ye.1 == x0 && !e) = true then .succ ye.1 (calls + 1)
    else orFirst c x0 k (i + 1) (ye.1 :: h) e (calls + 1)

/-- cycling phase of `or_`; `pick : D → Nat` is `rnd.randint(1,n)`; history newest first, complete -/
def orCycle [BEq X] (c : Nat → X → Out X) (pick : D → Nat) (n cap : Nat) :
    (fuel : Nat) → (j : Nat) → (h : List X) → List D → Stats → ResX X × Stats
  | 0, _, h, _, st => (match h with | y :: _ => .fail y | [] => .stuck, st)
  | fuel + 1, j, h, draws, st =>
    match h with
    | [] => (.stuck, st)
    | top :: _ =>
    if cap ≤ j then (.fail top, st) else
    match h[n - 1]? with                      -- x[-n]
    | none => (.stuck, st)
    | some src =>
    match applyO (c j src) src top with       -- l.649-659: `zdiv` appends `x[-n][:]`, `tverr` appends `x[-1][:]`
    | none => (.raised, { st with calls := st.calls + 1 })
    | some ye =>
    let st := { st with calls := st.calls + 1 }
    -- after the append, x[-(n+1)] is the old x[-n] = src
    if (ye.1 == src && !ye.2) = true then (.success ye.1 j 1, st) else
    match draws with
    | [] => (.stuck, st)
    | d :: ds =>
      -- `x[-1] = x[-rnd.randint(1,n)]`, evaluated after the append
      match (ye.1 :: h)[pick d - 1]? with
      | none => (.stuck, st)
      | some r => orCycle c pick n cap fuel (j + 1) (dropOldAll n j (r :: h)) ds { st with draws := st.draws + 1 }

def or_ [BEq X] (c : Nat → X → Out X) (pick : D → Nat) (n cap : Nat) (x : X) (draws : List D) :
    ResX X × Stats :=
  match orFirst c x n 0 [x] false 0 with
  | .succ y calls => (.success y 0 1, { calls := calls })
  | .raised calls => (.raised, { calls := calls })
  | .cont h calls => orCycle c pick n cap (cap - n) n h draws { calls := calls }

/-! ### `not_` -/

/-- `constraint(x[:]) != x` inside the `try` (l.704-713): `some true` = the member moved `x` (success),
`some false` = it did not, or a swallowed exception (`pass`), `none` = propagates -/
def notMovedO [BEq X] (o : Out X) (x : X) : Option Bool :=
  match o with
  | .ret y => some (!(y == x))
  | .zdiv => some false
  | .tverr => some false
  | .raise => none

def notLoop [BEq X] (c : Nat → X → Out X) (rand : D → X → X) :
    (fuel : Nat) → (j : Nat) → X → List D → Stats → ResX X × Stats
  | 0, _, x, _, st => (.fail x, st)
  | fuel + 1, j, x, draws, st =>
    let st := { st with calls := st.calls + 1 }
    match notMovedO (c j x) x with
    | none => (.raised, st)
    | some true => (.success x j 0, st)
    | some false =>
    match draws with
    | [] => (.stuck, st)
    | d :: ds => notLoop c rand fuel (j + 1) (rand d x) ds { st with draws := st.draws + 1 }

/-- `constraints.not_(c, maxiter=m)(x)`; call number `j` is iteration `j` of `for j in range(0,maxiter)` -/
def not_ [BEq X] (c : Nat → X → Out X) (rand : D → X → X) (maxiter : Nat) (x : X) (draws : List D) :
    ResX X × Stats := notLoop c rand maxiter 0 x draws {}

end MysticVerif.CombX
