/-
Shared solver model S (DESIGN.md section 5): the decorated objective, the differential-evolution
step (DE1 = one trial at a time, DE2 = all trials constrained, then evaluated through a map, then selected)
and the `Step / Terminated / _SetEvaluationLimits / Finalize` control loop of `abstract_solver.py`.

Points `X` and energies `E` are abstract; only comparison of energies is used. User functions are
parameters: `raw` (the user's cost, already passed through the reducer), `pen` (penalty), `K` (the constraints
as applied before an evaluation: `cons`, or `and_(cons, bounds, onfail=bounds)` under strict ranges) and the
box test `inBox`.  No Mathlib imports (linked into `mvdrv`).
-/

namespace MysticVerif.Solver

/-- what `_decorate_objective` builds from (tools.py l.368-429, abstract_solver.py l.892-926) -/
structure Obj (X E : Type) where
  raw : X → E
  pen : X → E
  K : X → X
  inBox : X → Bool
  useRange : Bool
  top : E                      -- `inf`
  add : E → E → E

variable {X E : Type}

/-- `wrap_bounds (wrap_function raw)`: out of the box -> `inf`, not evaluated, not counted, not logged;
    otherwise the user's cost is called: logged in the evaluation monitor (`log`, oldest first) -/
def Obj.evalB (o : Obj X E) (y : X) (log : List (X × E)) : E × List (X × E) :=
  if (o.useRange && !o.inBox y) = true then (o.top, log) else (o.raw y, log ++ [(y, o.raw y)])

/-- DE1/DE2 objective: `wrap_penalty (wrap_bounds ...)` at an already constrained point -/
def Obj.objAt (o : Obj X E) (y : X) (log : List (X × E)) : E × List (X × E) :=
  ((o.add (o.evalB y log).1 (o.pen y)), (o.evalB y log).2)

/-- Nelder-Mead / Powell / abstract objective: `wrap_nested (...) constraints` -/
def Obj.objK (o : Obj X E) (x : X) (log : List (X × E)) : E × List (X × E) := o.objAt (o.K x) log

/-! ### differential evolution -/

structure DE (X E : Type) where
  pop : List X
  popE : List E
  best : X
  bestE : E
  log : List (X × E)           -- evaluation monitor (x, raw x), call order
  stepLog : List (X × E)       -- step monitor (best, bestE), one record per `_Step`
  deriving Inhabited

/-- `if trialEnergy < popEnergy[candidate]: ...; if trialEnergy < bestEnergy: ...`
    (differential_evolution.py l.310-319 / l.573-582) for one candidate -/
def DE.select [LT E] [DecidableLT E] (s : DE X E) (i : Nat) (y : X) (e : E) : DE X E :=
  match s.popE[i]? with
  | none => s
  | some ei =>
    if e < ei then
      let s1 := { s with pop := s.pop.set i y, popE := s.popE.set i e }
      if e < s.bestE then { s1 with best := y, bestE := e } else s1
    else s

/-- DE1 inner loop over candidates `i, i+1, ..` with the given trial vectors (already produced by the strategy,
    or the member itself in generation 0): constrain, evaluate, select - one candidate at a time -/
def DE.candidates1 [LT E] [DecidableLT E] (o : Obj X E) : List X → Nat → DE X E → DE X E
  | [], _, s => s
  | t :: ts, i, s =>
    let y := o.K t
    let r := o.objAt y s.log
    DE.candidates1 o ts (i + 1) (DE.select { s with log := r.2 } i y r.1)

/-- DE2: all trials are constrained and evaluated first (through the map, input order), then selected -/
def DE.evalAll (o : Obj X E) : List X → List (X × E) → List (X × E) × List (X × E)
  | [], log => ([], log)
  | t :: ts, log =>
    let y := o.K t
    let r := o.objAt y log
    let rest := DE.evalAll o ts r.2
    ((y, r.1) :: rest.1, rest.2)

def DE.selectAll [LT E] [DecidableLT E] : List (X × E) → Nat → DE X E → DE X E
  | [], _, s => s
  | (y, e) :: ys, i, s => DE.selectAll ys (i + 1) (DE.select s i y e)

/-- one `_Step`: `trials` are the strategy's outputs for candidates 0..nPop-1 (generation 0: the members) -/
def DE.step1 [LT E] [DecidableLT E] (o : Obj X E) (trials : List X) (s : DE X E) : DE X E :=
  let s1 := DE.candidates1 o trials 0 s
  { s1 with stepLog := s1.stepLog ++ [(s1.best, s1.bestE)] }

def DE.step2 [LT E] [DecidableLT E] (o : Obj X E) (trials : List X) (s : DE X E) : DE X E :=
  let r := DE.evalAll o trials s.log
  let s1 := DE.selectAll r.1 0 { s with log := r.2 }
  { s1 with stepLog := s1.stepLog ++ [(s1.best, s1.bestE)] }

/-- state before generation 0: `popEnergy = [inf]*NP`, best decoupled from `population[0]` with energy `inf` -/
def DE.init (o : Obj X E) (pop : List X) (x0 : X) : DE X E :=
  { pop := pop, popE := pop.map (fun _ => o.top), best := x0, bestE := o.top, log := [], stepLog := [] }

/-! ### the control loop (abstract_solver.py l.615-714, 1018-1113) -/

/-- `_maxiter` / `_maxfun`: `None`, `"*"` (new=True without a number) or a number -/
inductive Lim where
  | none
  | star
  | val (n : Nat)
  deriving Repr, DecidableEq, Inhabited

/-- the counters and flags `Step` reads -/
structure Ctl where
  gens : Nat := 0              -- `generations` (= len(stepmon)-1, Powell: len(energy_history)-1)
  evals : Nat := 0             -- `_fcalls[0]`
  nstep : Nat := 0             -- `len(_stepmon)`
  maxiter : Lim := .none
  maxfun : Lim := .none
  earlyExit : Bool := false
  live : Bool := false
  scaleIter : Nat := 10        -- N * nPop * iterscale  (solver default, already multiplied)
  scaleEval : Nat := 1000
  /-- PowellDirectionalSolver: `generations = len(energy_history)-1` with a deferred step record, and a
      `Finalize` that appends `(bestSolution, bestEnergy)` whenever the solver is live (scipy_optimize.py l.748-756) -/
  powell : Bool := false
  deriving Repr, DecidableEq, Inhabited

/-- `SetEvaluationLimits(generations, evaluations, new)` -/
def Ctl.setLimits (c : Ctl) (g e : Option Nat) (new : Bool) : Ctl :=
  if new = true then
    { c with maxiter := (match g with | some n => .val (n + c.gens) | none => .star),
             maxfun := (match e with | some n => .val (n + c.evals) | none => .star) }
  else
    { c with maxiter := (match g with | some n => .val n | none => .none),
             maxfun := (match e with | some n => .val n | none => .none) }

/-- `_SetEvaluationLimits()` : resolve `None` / `"*"` at this moment -/
def Ctl.resolve (c : Ctl) : Ctl :=
  { c with maxiter := (match c.maxiter with | .none => .val c.scaleIter | .star => .val (c.scaleIter + c.gens) | l => l),
           maxfun := (match c.maxfun with | .none => .val c.scaleEval | .star => .val (c.scaleEval + c.evals) | l => l) }

def Lim.reached (l : Lim) (n : Nat) : Bool :=
  match l with
  | .val m => decide (m ≤ n)
  | _ => false

/-- stop messages of `Terminated(info=True)` -/
inductive Msg where
  | lim        -- "EvaluationLimits with {...}"
  | sig        -- "SolverInterrupt with {}"
  | cond       -- the termination condition's own info string
  deriving Repr, DecidableEq

/-- `Terminated(info=True)` on resolved limits; `term` is the verdict of the termination condition now -/
def Ctl.message (c : Ctl) (term : Bool) : Option Msg :=
  if c.maxfun.reached c.evals = true then some .lim
  else if c.maxiter.reached c.gens = true then some .lim
  else if c.earlyExit = true then some .sig
  else if term = true then some .cond
  else none

/-- `Finalize()`: `_live = False`; Powell first appends a step record when live and re-syncs the energy history
    with the step monitor (so `generations = len(stepmon) - 1`) -/
def Ctl.finalize (c : Ctl) : Ctl :=
  if (c.powell && c.live) = true then { c with live := false, nstep := c.nstep + 1, gens := c.nstep }
  else { c with live := false }

/-- `SetGenerationMonitor(monitor, new)`: the old records are prepended unless `new`; the history overrides are
    reset, so Powell's `generations` falls back to `len(stepmon) - 1` -/
def Ctl.setStepMon (c : Ctl) (new : Bool) : Ctl :=
  if new = true then { c with nstep := 0, gens := 0 }
  else if c.powell = true then { c with gens := c.nstep - 1 } else c

/-- what one `_Step` did to the counters (observed / computed by the algorithm model) -/
structure Delta where
  dEvals : Nat
  dGens : Nat := 1
  dStep : Nat := 1

/-- the state in which `Step` tests the stop conditions: objective (re)decorated (`live`), and - once the step
    monitor is non-empty - limits resolved at this moment -/
def Ctl.pre (c : Ctl) : Ctl :=
  if c.nstep = 0 then { c with live := true } else ({ c with live := true } : Ctl).resolve

/-- `if len(self._stepmon): msg = self.Terminated(info=True) or None  else: msg = None` -/
def Ctl.preMsg (c : Ctl) (termPre : Bool) : Option Msg :=
  if c.nstep = 0 then none else c.pre.message termPre

/-- the state after `_Step` ran (`d`: its effect on the counters) and `Terminated` resolved the limits again.
    Powell after its own (possibly deferred) record: generation 0 stays 0, later `len(energy_history)-1 = nstep` -/
def Ctl.after (c : Ctl) (d : Delta) : Ctl :=
  ({ c.pre with evals := c.pre.evals + d.dEvals,
                gens := (if c.pre.powell = true then (if c.pre.nstep = 0 then 0 else c.pre.nstep + d.dStep)
                         else c.pre.gens + d.dGens),
                nstep := c.pre.nstep + d.dStep } : Ctl).resolve

/-- `Step()`.  `termPre` / `termPost`: verdict of the termination condition before / after the iteration;
    `d`: the effect of `_Step` on the counters.  Returns the new control state, the message, and whether
    `_Step` ran. -/
def Ctl.step (c : Ctl) (termPre termPost : Bool) (d : Delta) : Ctl × Option Msg × Bool :=
  match c.preMsg termPre with
  | some m => (c.pre, some m, false)
  | none =>
    match (c.after d).message termPost with
    -- `if self.Terminated(): self.Finalize()` and then `msg = self.Terminated(info=True) or None` AGAIN:
    -- the returned message is computed on the finalized state (Powell's Finalize moves `generations`)
    | some _ => ((c.after d).finalize, (c.after d).finalize.message termPost, true)
    | none => (c.after d, none, true)

/-- the scipy-style one-liners (`fmin`, `fmin_powell`, `diffev`, `diffev2`; scipy_optimize.py l.534-537, l.945-948,
    differential_evolution.py l.856-870) after `Solve`:
    `if fcalls >= solver._maxfun: warnflag = 1  elif iterations >= solver._maxiter: warnflag = 2  else 0` -/
def Ctl.warnflag (c : Ctl) : Nat :=
  if c.maxfun.reached c.evals = true then 1 else if c.maxiter.reached c.gens = true then 2 else 0

end MysticVerif.Solver
