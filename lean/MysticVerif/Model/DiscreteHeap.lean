/-
Object-graph ("heap") model of the containers of `mystic.math.discrete`: the python objects are MUTABLE and
SHARED.  A `product_measure` / `scenario` is a python list of measure OBJECTS, a `measure` a python list of
`point_mass` OBJECTS.  `product_measure([m]*2 + [n])`, `product_measure(c)`, `c[:]`, `copy.copy(c)`, `measure(m)`
are shallow.  Here every object has an index:

  cells : the point_mass objects            (index = identity)
  meas  : the measure objects, each the list of the cell indices it holds
  colls : the product_measure / scenario objects, each the list of the measure indices it holds
  vals / scen : `scenario.__Y` and whether the collection is a scenario

`update` / `load` (discrete.py l.917-978, l.1338-1401) build FRESH measures (`unflatten` -> `compose` ->
`_list_of_measures`: new `measure()`, new `point_mass(..)`) and rebind entries of the addressed python list only
(`self[:] = pm[:len(self)-zo] + self[len(pm)-zo:]`, `self.extend(..)`); the setters (l.117-149, l.451-455, l.498-503)
assign `self[i].position = ..` / `self[i].weight = ..` on the point_mass objects, one after the other.
The value functions (`unflatten`, `truncParams`, ...) are those of Model/Discrete.  No Mathlib imports.
-/
import MysticVerif.Model.Discrete
import MysticVerif.Model.DiscreteExt

namespace MysticVerif.DiscreteHeap
open MysticVerif.Discrete

structure Heap (α : Type) where
  cells : List (PtMass α)
  meas : List (List Nat)
  colls : List (List Nat)
  vals : List (List α)
  scen : List Bool

section struct
variable {α : Type}

/-- what python shows for the measure object `mid`: `[(p.weight, p.position) for p in m]` -/
def obsM (h : Heap α) (mid : Nat) : Measure α := (h.meas.getD mid []).filterMap (h.cells[·]?)

/-- the factor objects of collection `cid` -/
def factors (h : Heap α) (cid : Nat) : List Nat := h.colls.getD cid []

/-- what python shows for the collection object `cid` -/
def obsC (h : Heap α) (cid : Nat) : PM α := (factors h cid).map (obsM h)

def valsOf (h : Heap α) (cid : Nat) : List α := h.vals.getD cid []

/-- every reference points at an existing object -/
def WF (h : Heap α) : Prop :=
  (∀ ids ∈ h.meas, ∀ i ∈ ids, i < h.cells.length) ∧ (∀ f ∈ h.colls, ∀ m ∈ f, m < h.meas.length)

/-- a new `measure()` filled with new `point_mass` objects (`_list_of_measures`, l.1478-1481); its index is
    `h.meas.length` -/
def allocM (h : Heap α) (m : Measure α) : Heap α :=
  { h with cells := h.cells ++ m, meas := h.meas ++ [(List.range m.length).map (· + h.cells.length)] }

/-- the fresh measures of a value `pm` (what `unflatten` returns); the indices of the new measure objects -/
def allocPM (h : Heap α) : PM α → Heap α × List Nat
  | [] => (h, [])
  | m :: c => ((allocPM (allocM h m) c).1, h.meas.length :: (allocPM (allocM h m) c).2)

def setColl (h : Heap α) (cid : Nat) (f : List Nat) : Heap α := { h with colls := h.colls.set cid f }
def setVals (h : Heap α) (cid : Nat) (v : List α) : Heap α := { h with vals := h.vals.set cid v }

/-- a new collection object holding the given measure objects -/
def pushColl (h : Heap α) (f : List Nat) (v : List α) (s : Bool) : Heap α :=
  { h with colls := h.colls ++ [f], vals := h.vals ++ [v], scen := h.scen ++ [s] }

/-- `measure(m)`: a new measure object holding the SAME point_mass objects; its index is `h.meas.length` -/
def shareM (h : Heap α) (mid : Nat) : Heap α := { h with meas := h.meas ++ [h.meas.getD mid []] }

/-- `product_measure.update(params)` (l.939-948) on the collection object `cid` -/
def hUpdate (h : Heap α) (cid : Nat) (params : List α) : Option (Heap α) :=
  (unflatten (truncParams params (pts (obsC h cid))) (pts (obsC h cid))).map fun pm =>
    setColl (allocPM h pm).1 cid
      (((allocPM h pm).2.take ((factors h cid).length - pm.countP List.isEmpty)) ++
        (factors h cid).drop (pm.length - pm.countP List.isEmpty))

/-- `scenario.update(params)` (l.1360-1370): the values first (only when there are surplus parameters, and
    then `unflatten` cannot raise), then as `update` -/
def hSUpdate (h : Heap α) (cid : Nat) (params : List α) : Option (Heap α) :=
  (hUpdate h cid params).map fun h' =>
    if params.length > 2 * (pts (obsC h cid)).sum then
      setVals h' cid ((extraParams params (pts (obsC h cid))).take (valsOf h cid).length ++
        (valsOf h cid).drop (extraParams params (pts (obsC h cid))).length)
    else h'

/-- `product_measure.load(params, pts)` (l.973-978): `self.extend(unflatten(params, pts))` -/
def hLoad (h : Heap α) (cid : Nat) (params : List α) (p : List Nat) : Option (Heap α) :=
  (unflatten (truncParams params p) p).map fun pm =>
    setColl (allocPM h pm).1 cid (factors h cid ++ (allocPM h pm).2)

/-- `scenario.load` (l.1396-1401) -/
def hSLoad (h : Heap α) (cid : Nat) (params : List α) (p : List Nat) : Option (Heap α) :=
  (hLoad h cid params p).map fun h' =>
    if params.length > 2 * p.sum then setVals h' cid (extraParams params p) else h'

/-- `scenario(pm, values)` (l.1089-1096): `self.load(pm.flatten(), pm.pts)` into a new object (nothing when `pm`
    is empty) -/
def hMkScen (h : Heap α) (cid : Nat) (values : List α) : Option (Heap α) :=
  let c := obsC h cid
  let h1 := pushColl h [] values true
  if c.isEmpty then some h1 else hLoad h1 h.colls.length (flatten c) (pts c)

/-- `p.position = x` on the cell `i` -/
def writePos (cells : List (PtMass α)) (i : Nat) (x : α) : List (PtMass α) :=
  match cells[i]? with
  | some p => cells.set i { p with position := x }
  | none => cells

def writeWt (cells : List (PtMass α)) (i : Nat) (x : α) : List (PtMass α) :=
  match cells[i]? with
  | some p => cells.set i { p with weight := x }
  | none => cells

/-- `for i in range(len(xs)): self[i].<attr> = xs[i]` (l.117-125) on the measure holding the cells `ids`: the
    assignments happen one after the other (a cell held twice keeps the LAST value); an index past the measure is
    an `IndexError` (`true`) AFTER the earlier assignments -/
def writeAll (wr : List (PtMass α) → Nat → α → List (PtMass α)) :
    List (PtMass α) → List Nat → List α → List (PtMass α) × Bool
  | cs, _, [] => (cs, false)
  | cs, [], _ :: _ => (cs, true)
  | cs, i :: is, x :: xs => writeAll wr (wr cs i x) is xs

def hSetMPos (h : Heap α) (mid : Nat) (xs : List α) : Heap α × Bool :=
  ({ h with cells := (writeAll writePos h.cells (h.meas.getD mid []) xs).1 },
    (writeAll writePos h.cells (h.meas.getD mid []) xs).2)

def hSetMWts (h : Heap α) (mid : Nat) (xs : List α) : Heap α × Bool :=
  ({ h with cells := (writeAll writeWt h.cells (h.meas.getD mid []) xs).1 },
    (writeAll writeWt h.cells (h.meas.getD mid []) xs).2)

/-- `for i in range(len(positions)): self[i].positions = positions[i]` (l.501-502) -/
def writeFactors (h : Heap α) : List Nat → List (List α) → Heap α × Bool
  | _, [] => (h, false)
  | [], _ :: _ => (h, true)
  | mid :: ms, p :: ps =>
    if (hSetMPos h mid p).2 = true then ((hSetMPos h mid p).1, true)
    else writeFactors (hSetMPos h mid p).1 ms ps

/-- `product_measure.positions = P` (l.498-503): `_unpack` first (its exceptions leave everything as it was) -/
def hSetCPos (h : Heap α) (cid : Nat) (P : List (List α)) : Heap α × Option Err :=
  match unpack P (pts (obsC h cid)) with
  | .error e => (h, some e)
  | .ok ps =>
    ((writeFactors h (factors h cid) ps).1, if (writeFactors h (factors h cid) ps).2 = true then some .index else none)

end struct

section num
variable {R : Type} [Add R] [Sub R] [Mul R] [Div R] [Neg R] [LT R] [DecidableLT R] [LE R] [DecidableLE R]
  [OfNat R 0] [OfNat R 1] [BEq R]

/-- `[i._measure__set_mean(center_masses[m]) for (m,i) in enumerate(self)]` (l.452): factor after factor, each
    reading the CURRENT state of its measure object; a missing entry is an `IndexError` after the earlier factors -/
def setCMs (inf : R) (h : Heap R) : List Nat → List R → Heap R × Bool
  | [], _ => (h, false)
  | _ :: _, [] => (h, true)
  | mid :: ms, v :: vs =>
    setCMs inf (hSetMPos h mid (imposeMean inf v (mpositions (obsM h mid)) (mweights (obsM h mid)))).1 ms vs

def hSetCM (inf : R) (h : Heap R) (cid : Nat) (vs : List R) : Heap R × Bool := setCMs inf h (factors h cid) vs

end num

end MysticVerif.DiscreteHeap
