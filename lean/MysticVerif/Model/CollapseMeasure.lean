/-
Model of how applied `CollapseWeight` / `CollapsePosition` collapses of a product measure become a constraint
(property C11, clause "every point evaluated afterwards and the final solution satisfy the collapsed relation
exactly": each collapsed weight is 0, each collapsed position pair is equal):

* `mystic/abstract_solver.py` l.849-850  `cn.impose_measure(npts, [collapses[k] for k .. 'CollapsePosition'],
                                          [collapses[k] for k .. 'CollapseWeight'])` - the dicts
                                          `{measure: set of pairs (i,j), i<j}` / `{measure: set of indices}` exactly as
                                          `collapse_position` / `collapse_weight` returned them
* `mystic/abstract_solver.py` l.852      `to.chain(*conditions)(self._constraints)`: the decorators of the NEW round
                                          are put OUTSIDE the existing constraints, so in the composed function the
                                          newest round runs first and the oldest round runs last
* `mystic/constraints.py`   l.1808-1821  `impose_measure`: load the product measure, `impose_collapse` for every tracked
                                          item, THEN `impose_unweighted(.., False)` for every noweight item, flatten
* `mystic/math/measures.py` l.1763-1797  `impose_collapse(pairs, ..)`: `connected(pairs)`, then per group
                                          `v = w[i]; for k: v += w[k]; w[k] = 0; x[k] = x[i]; w[i] = v`

The numeric part (`impose_collapse`, `impose_unweighted`, `normalize`, `impose_mean`, `mean`, load / flatten) is the
model of C19, `MysticVerif.Discrete.imposeMeasure` (Model/Discrete.lean), imported - not re-modelled.  That model takes
the groups of `connected` as given; here they are COMPUTED from the pairs in the real iteration order of the Python
set by `Clps.connected` (Model/CollapseApply.lean), as `impose_collapse` does.  A member set is a duplicate-free list
in insertion order (the order in which the members' weights are added up is the only thing that depends on it).
No Mathlib imports: this file is linked into `mvdrv`.
-/
import MysticVerif.Model.Discrete
import MysticVerif.Model.CollapseApply

namespace MysticVerif.Clps
open MysticVerif.Discrete

/-- what ONE `Collapse()` hands to `impose_measure`: the items `(measure, pairs)` of the `CollapsePosition` dicts and
the items `(measure, indices)` of the `CollapseWeight` dicts, in the order the code visits them -/
structure MRound where
  tracking : List (Nat × List (Nat × Nat))
  noweight : List (Nat × List Nat)
  deriving Repr

/-- `connected(pairs)` inside `impose_collapse` (measures.py l.1788-1789), for every tracked item -/
def trackGroups (tr : List (Nat × List (Nat × Nat))) : List (Nat × Groups) :=
  tr.map fun kv => (kv.1, connected kv.2)

/-- no key of a group is among its own members (`tools.connected` can add the key of a group to its member set when
the pairs contain a cycle that is iterated in an unlucky order) -/
def keyFree (coll : Groups) : Bool := coll.all fun g => !g.2.contains g.1

section num
variable {R : Type} [Add R] [Sub R] [Mul R] [Div R] [Neg R] [LT R] [DecidableLT R] [LE R] [DecidableLE R]
  [OfNat R 0] [OfNat R 1] [BEq R]

/-- the constraint installed by one round: `impose_measure(npts, tracking, noweight)` before the decorated function -/
def applyMeasure (inf : R) (npts : List Nat) (r : MRound) (x : List R) : Option (List R) :=
  imposeMeasure inf npts (trackGroups r.tracking) r.noweight x

/-- the composed constraint after several rounds; `rounds` in EXECUTION order (newest round first, oldest last:
`chain(*new)(old)`), `none` = the call raised -/
def applyRounds (inf : R) (npts : List Nat) : List MRound → List R → Option (List R)
  | [], x => some x
  | r :: rs, x => (applyMeasure inf npts r x).bind (applyRounds inf npts rs)

/-- NOT the code: the two loops of `impose_measure` in the OTHER order (weights removed first, positions collapsed
afterwards).  Only used for the witness that the order matters. -/
def imposeOnSwapped (inf : R) (tracking : List (Nat × List (Nat × List Nat))) (noweight : List (Nat × List Nat))
    (c : PM R) : PM R :=
  tracking.foldl (collapseAt inf) (noweight.foldl (unweightAt inf) c)

def applyMeasureSwapped (inf : R) (npts : List Nat) (r : MRound) (x : List R) : Option (List R) :=
  (load [] x npts).map fun c => flatten (imposeOnSwapped inf (trackGroups r.tracking) r.noweight c)

end num

end MysticVerif.Clps
