/-
Model of the bounds-collapse detector of the pinned mystic tree (property C11, anchor "collapse_cost l.243"):

* `mystic/collapse.py`  `collapse_cost(stepmon, clip, limit, samples, mask)` l.243-333
* `mystic/tools.py`     `_interval_intersection` l.881-895, `interval_overlap(.., union=False)` l.914-948

What the code does, per parameter `p` (l.297-323):  sort the recorded values of parameter `p` (`param.argsort(axis=0)`),
flag every record whose cost is within `limit` of the lowest recorded cost (`more`, True = "good"), pad the flag column
with its own maximum at both ends (`np.pad(more, 1, 'maximum')`), take the positions of the True flags (`w`, PADDED
positions: position `j` is the `(j-1)`-th smallest sample) and the number of False flags between consecutive True flags
(`d = diff(w) - 1`), keep the gaps with at least `hits` bad samples (`x`), and report as bounds the complement of these
gaps - with the sorted values `par` indexed BY THE PADDED POSITIONS (`par[w[..]]` is the sample AFTER that True flag,
i.e. the first bad sample of the gap) and, for the last interval, the sample COUNT `d` added to a parameter VALUE
(l.318 `par[w[x[-1],p]] + d[x[-1],p]`).  All of that is transcribed literally.

Generic in the scalar `α` (operations only): the driver runs it at `Float`, the theorems over a linear order.
`ninf / pinf` are `-numpy.inf / numpy.inf`, `addc v k` is `v + k` (numpy float64 + int64).  The sort permutation of a
column is an INPUT when given (numpy's default `argsort` is not stable, so with tied values the permutation is whatever
numpy produced; the harness passes numpy's own result) and computed by a stable insertion sort otherwise.
Errors are the enum of Model/Collapse.lean.  No Mathlib imports: this file is linked into `mvdrv`.
-/
import MysticVerif.Model.Collapse

namespace MysticVerif.Clps

/-- a list of intervals `[(lo,hi),...]` -/
abbrev Ivs (α : Type) := List (α × α)

/-! ### flag scan (collapse.py l.300-303, l.308) -/

/-- l.300 `np.pad(more, 1, 'maximum')[:,1:-1].T`, one column: the column's maximum (`any`) before and after it -/
def padMax (g : List Bool) : List Bool := g.any id :: (g ++ [g.any id])

/-- l.301 `np.where(i)[0]`: positions of the True flags, counted from `k` -/
def whereFrom : Nat → List Bool → List Nat
  | _, [] => []
  | k, b :: bs => if b = true then k :: whereFrom (k + 1) bs else whereFrom (k + 1) bs

/-- l.303 `np.diff(w, axis=0) - 1`: number of False flags between consecutive True flags -/
def diff1 : List Nat → List Nat
  | a :: b :: r => (b - a - 1) :: diff1 (b :: r)
  | _ => []

/-- l.308 `np.where(d[:,p] >= hits)[0]` -/
def gapsAt (hits : Int) (d : List Nat) : List Nat :=
  (List.range d.length).filter fun k => decide (hits ≤ ((d.getD k 0 : Nat) : Int))

section scalar
variable {α : Type} [LT α] [DecidableLT α] [LE α] [DecidableLE α]

/-- numpy fancy indexing `par[idx]` with an index list: IndexError when any index is out of range -/
def takeAt (v : List α) (idx : List Nat) : Except Err (List α) :=
  idx.mapM fun i => match v[i]? with
    | some a => .ok a
    | none => .error Err.index

/-- l.306-323 for ONE parameter: `v` = `par` (the recorded values in sorted order), `g` = `more[:,p]` (the flags in the
same order).  Returns the `bounds` list (possibly empty = parameter not reported). -/
def colBounds (ninf pinf : α) (addc : α → Nat → α) (clip : Bool) (hits : Int) (v : List α) (g : List Bool) :
    Except Err (Ivs α) :=
  let w := whereFrom 0 (padMax g)
  let d := diff1 w
  let x := gapsAt hits d
  match x with
  | [] => .ok []                                   -- len(x) == 0: lo = hi = False, no interior pairs
  | x0 :: xr =>
    let xl := (x0 :: xr).getLast?.getD x0
    -- l.310-311: clip -> only when the extreme sample itself is good
    let lo : Bool := if clip = true then g.head?.getD false else true
    let hi : Bool := if clip = true then g.getLast?.getD false else true
    do
      -- l.313 `[(_bound[p], par[w[x[0],p]])] if lo else []`
      let lower ← (if lo = true then (takeAt v [w.getD x0 0]).map (fun a => a.map fun e => (ninf, e)) else .ok [])
      -- l.315-319 `par[w[x[-1],p]] + d[x[-1],p]`: a sample count added to a parameter value
      let upper ← (if hi = true then (takeAt v [w.getD xl 0]).map (fun a => a.map fun e => (addc e (d.getD xl 0), pinf))
                   else .ok [])
      -- l.321 `zip(par[w[x[:-1],p]+d[x[:-1],p]], par[w[x[1:],p]])`
      let los ← takeAt v ((x0 :: xr).dropLast.map fun k => w.getD k 0 + d.getD k 0)
      let his ← takeAt v (xr.map fun k => w.getD k 0)
      .ok (lower ++ los.zip his ++ upper)

/-! ### `_interval_intersection`, `interval_overlap` (tools.py) -/

/-- Python `max(a, b)`: `b` only when `b > a` -/
def pyMax (a b : α) : α := if a < b then b else a
/-- Python `min(a, b)`: `b` only when `b < a` -/
def pyMin (a b : α) : α := if b < a then b else a

/-- the inner loop l.891-894 for one `(lb,ub)` of `bounds1` -/
def ivRow (b : α × α) (bounds2 : Ivs α) : Ivs α :=
  bounds2.filterMap fun c =>
    if pyMax b.1 c.1 < pyMin b.2 c.2 then some (pyMax b.1 c.1, pyMin b.2 c.2) else none

/-- `_interval_intersection(bounds1, bounds2)` l.881-895 -/
def ivInter (bounds1 bounds2 : Ivs α) : Ivs α :=
  if bounds2.isEmpty = true then bounds1
  else if bounds1.isEmpty = true then bounds2
  else bounds1.flatMap fun b => ivRow b bounds2

/-- a dict `{key: bounds}`; the key `none` is Python's `None` -/
abbrev BDict (α : Type) := List (Option Int × Ivs α)

def bLookup (d : BDict α) (k : Option Int) : Option (Ivs α) := (d.find? fun kv => kv.1 == k).map (·.2)

/-- `interval_overlap(bounds1, bounds2)` l.914-948 with `union=False`, values already lists of tuples:
every key of `bounds1` keeps its value when `bounds2` has no such key, else gets `_interval_intersection(m, v)` and
is DROPPED when that is empty; then the keys only `bounds2` has are added -/
def overlap (b1 b2 : BDict α) : BDict α :=
  (b1.filterMap fun kv =>
      match bLookup b2 kv.1 with
      | none => some kv
      | some m => if (ivInter m kv.2).isEmpty = true then none else some (kv.1, ivInter m kv.2))
  ++ b2.filter fun kv => (bLookup b1 kv.1).isNone

/-- Python `==` of two numbers (false for NaN) -/
def eqS (a b : α) : Bool := decide (a ≤ b) && decide (b ≤ a)

def ivsEq : Ivs α → Ivs α → Bool
  | [], [] => true
  | a :: r, b :: s => eqS a.1 b.1 && eqS a.2 b.2 && ivsEq r s
  | _, _ => false

/-- `results == mask` for two dicts with duplicate-free keys -/
def bdictEq (a b : BDict α) : Bool :=
  a.length == b.length && a.all fun kv => match bLookup b kv.1 with
    | some v => ivsEq kv.2 v
    | none => false

/-! ### the mask argument (collapse.py l.259-285) -/

/-- a key of the mask dict: `None`, an Integral, anything else -/
inductive CKey where
  | none
  | int (i : Int)
  | bad
  deriving Repr

/-- a value of the mask dict: something the validation rejects (no `__len__`, empty, an entry of length != 2, a
non-number), one interval `(lo, hi)`, a non-empty list of intervals -/
inductive CVal (α : Type) where
  | bad
  | flat (lo hi : α)
  | list (ivs : Ivs α)

/-- the `mask` argument: `None`, a dict, anything else -/
inductive CMask (α : Type) where
  | none
  | other
  | dict (es : List (CKey × CVal α))

/-- l.259-285; `.ok none` = no mask.  A flat `(lo,hi)` becomes `[(lo,hi)]` (tools.py l.925-927) -/
def checkCMask : CMask α → Except Err (Option (BDict α))
  | .none => .ok none
  | .other => .error Err.type                                                    -- l.283-285
  | .dict es =>
    if es.any (fun kv => match kv.1 with | .none => true | _ => false) = true ∧ es.length ≠ 1 then .error Err.value  -- l.262
    else
      (es.mapM (m := Except Err) fun (kv : CKey × CVal α) =>
        match kv.1, kv.2 with
        | CKey.bad, _ => Except.error Err.value                                   -- l.265
        | _, CVal.bad => Except.error Err.value
        | CKey.none, CVal.flat lo hi => Except.ok ((none : Option Int), [(lo, hi)])
        | CKey.int i, CVal.flat lo hi => Except.ok (some i, [(lo, hi)])
        | CKey.none, CVal.list l => if l.isEmpty = true then Except.error Err.value else Except.ok (none, l)
        | CKey.int i, CVal.list l => if l.isEmpty = true then Except.error Err.value else Except.ok (some i, l)).map some

/-! ### `collapse_cost` -/

variable [Sub α]

def cminStep (m y : α) : α := if y < m ∨ ¬ (y ≤ y) then y else m

/-- `costs.min()` (NaN-propagating); `none` = zero-size reduction -/
def costMin : List α → Option α
  | [] => none
  | c :: cs => some (cs.foldl cminStep c)

/-- insert index `i` into an index list sorted by value, after every entry that is not greater (stable) -/
def insIdx (col : List α) (i : Nat) : List Nat → List Nat
  | [] => [i]
  | j :: r =>
    if (match col[i]?, col[j]? with
        | some a, some b => decide (a < b)
        | _, _ => false) = true then i :: j :: r else j :: insIdx col i r

/-- a stable sorting permutation of a column (used when the caller gives none: columns without ties) -/
def sortPerm (col : List α) : List Nat := (List.range col.length).foldl (fun acc i => insIdx col i acc) []

/-- column `p` of the record list -/
def costCol (hist : List (List α)) (p : Nat) : List α := hist.filterMap fun r => r[p]?

/-- l.298 one column of `more = costs[_param] - target <= limit` -/
def costFlags (costs : List α) (target limit : α) (perm : List Nat) : List Bool :=
  perm.map fun i => match costs[i]? with
    | some c => decide (c - target ≤ limit)
    | none => false

/-- l.306-323 all parameters: `(p, bounds)` for the parameters with non-empty bounds -/
def costResults (ninf pinf : α) (addc : α → Nat → α) (clip : Bool) (hits : Int) (hist : List (List α))
    (costs : List α) (target limit : α) (perms : Option (List (List Nat))) : Nat → Nat → Except Err (BDict α)
  | _, 0 => .ok []
  | p, k + 1 =>
    let col := costCol hist p
    let perm := match perms with
      | some ps => ps.getD p []
      | none => sortPerm col
    let v := perm.filterMap fun i => col[i]?
    do
      let b ← colBounds ninf pinf addc clip hits v (costFlags costs target limit perm)
      let rest ← costResults ninf pinf addc clip hits hist costs target limit perms (p + 1) k
      .ok (if b.isEmpty = true then rest else ((some (p : Int), b) :: rest))

/-- l.324-333: no mask -> the results; else `interval_overlap(results, mask)`, empty entries replaced by the mask's
(l.329-332; there are none: `interval_overlap` drops them), `{}` when that equals the mask -/
def costMaskStep (results : BDict α) : Option (BDict α) → BDict α
  | none => results
  | some mask =>
    let r := (overlap results mask).map fun kv =>
      if kv.2.isEmpty = true then (kv.1, (bLookup mask kv.1).getD []) else kv
    if bdictEq r mask = true then [] else r

/-- l.286-323: everything of `collapse_cost` that does not look at the mask -/
def collapseCostCore (ninf pinf : α) (addc : α → Nat → α) (hist : List (List α)) (costs : List α)
    (perms : Option (List (List Nat))) (clip : Bool) (limit : α) (samples : Option Int) : Except Err (BDict α) :=
  let npts := hist.length
  let size := match hist with
    | [] => 0
    | r :: _ => r.length
  if isRect size hist = false then .error Err.value          -- numpy.array of ragged rows
  else
    match costMin costs with
    | none => .error Err.value                               -- l.296 `costs.min()` of an empty array
    | some target =>
      if size = 0 then .error Err.value                      -- l.300 np.pad cannot extend an empty axis
      else
        -- l.294 `hits = npts if samples is None else samples`
        costResults ninf pinf addc clip (samples.getD (npts : Int)) hist costs target limit perms 0 size

/-- `collapse_cost(stepmon, clip, limit, samples, mask)`: `hist` = `stepmon._x` (oldest first), `costs` = `stepmon._y`;
the mask is validated first (l.259-285) -/
def collapseCost (ninf pinf : α) (addc : α → Nat → α) (hist : List (List α)) (costs : List α)
    (perms : Option (List (List Nat))) (clip : Bool) (limit : α) (samples : Option Int) (mask : CMask α) :
    Except Err (BDict α) :=
  match checkCMask mask with
  | .error e => .error e
  | .ok m =>
    match collapseCostCore ninf pinf addc hist costs perms clip limit samples with
    | .error e => .error e
    | .ok res => .ok (costMaskStep res m)

/-! ### the mask as the Python OBJECT it is: spelling of the values, in-place normalisation, `results == mask`

`collapse_cost` ends with `return {} if results == mask else results` (l.333).  `results` comes out of
`interval_overlap` and is a dict of LISTS of TUPLES; `mask` is the caller's dict.  Python's `==` between a list of tuples
and the caller's value is true only when that value is itself a list whose entries are tuples with equal numbers.  A mask
given in the documented bare form `{k: (lo, hi)}` passes that test only because `interval_overlap` (tools.py l.928-931,
the loop over `bounds2`) has REPLACED the value by `[(lo, hi)]` inside the caller's dict before l.333 is reached.  The
model below keeps exactly the part of the spelling that `==` can see, performs the replacement, and compares against the
replaced object. -/

/-- one value of the caller's mask dict together with what `==` against a list of tuples can see of its spelling:
`outerList`: the value itself is a `list` (for a bare interval: `[lo, hi]` rather than `(lo, hi)`);
`innerTuples`: every interval inside a list / tuple of intervals is a `tuple` (irrelevant for a bare interval) -/
structure SVal (α : Type) where
  val : CVal α
  outerList : Bool
  innerTuples : Bool

/-- the interval list a value stands for -/
def SVal.ivs (s : SVal α) : Ivs α :=
  match s.val with
  | .list l => l
  | .flat lo hi => [(lo, hi)]
  | .bad => []

/-- tools.py l.928-931 for one value of `bounds2`: `if not hasattr(v[0], '__len__'): bounds2[k] = [v]` - the bare interval
becomes a LIST holding the caller's own object `v` (a tuple when it was `(lo, hi)`, a list when it was `[lo, hi]`);
values that already are sequences of intervals are left as they are (a tuple of intervals stays a tuple) -/
def SVal.norm (s : SVal α) : SVal α :=
  match s.val with
  | .flat lo hi => { val := .list [(lo, hi)], outerList := true, innerTuples := !s.outerList }
  | _ => s

/-- Python `r == v` for `r` a list of tuples (a value of `results`) and `v` a value of the mask object -/
def SVal.pyEq (r : Ivs α) (s : SVal α) : Bool :=
  match s.val with
  | .list l => s.outerList && s.innerTuples && ivsEq r l
  | _ => false

/-- the documented spellings: a bare `(lo, hi)` tuple, a list of tuples -/
def SVal.documented (s : SVal α) : Bool :=
  match s.val with
  | .flat _ _ => !s.outerList
  | .list _ => s.outerList && s.innerTuples
  | .bad => false

/-- a validated mask object: keys `None` / int, values with their spelling -/
abbrev SDict (α : Type) := List (Option Int × SVal α)

/-- the caller's dict after `interval_overlap` has run over it -/
def SDict.norm (m : SDict α) : SDict α := m.map fun kv => (kv.1, kv.2.norm)

/-- the interval content -/
def SDict.bd (m : SDict α) : BDict α := m.map fun kv => (kv.1, kv.2.ivs)

/-- `results == mask` (l.333) against the object as it is at that moment.  `fresh` = the bounds found by the scan: for a
key the scan did NOT report, `interval_overlap` put the mask's own object into `results` (tools.py l.946-947
`results[k] = bounds2[k]`), which compares equal to itself whatever its spelling; for a key the scan reported the value
is a new list of tuples out of `_interval_intersection` -/
def sdictEq (fresh r : BDict α) (m : SDict α) : Bool :=
  r.length == m.length && r.all fun kv => match (m.find? fun e => e.1 == kv.1) with
    | some e => if (bLookup fresh kv.1).isNone = true then true else SVal.pyEq kv.2 e.2
    | none => false

/-- l.324-333 on the mask OBJECT: normalise in place (inside `interval_overlap`), intersect, compare with the object -/
def costMaskStepS (results : BDict α) (m : SDict α) : BDict α :=
  if sdictEq results ((overlap results m.norm.bd).map fun kv =>
      if kv.2.isEmpty = true then (kv.1, (bLookup m.norm.bd kv.1).getD []) else kv) m.norm = true then []
  else (overlap results m.norm.bd).map fun kv =>
      if kv.2.isEmpty = true then (kv.1, (bLookup m.norm.bd kv.1).getD []) else kv

/-- the mask argument with spellings: `None`, a dict, anything else -/
inductive CMaskS (α : Type) where
  | none
  | other
  | dict (es : List (CKey × SVal α))

/-- forget the spelling (what the validation l.259-285 looks at) -/
def CMaskS.erase : CMaskS α → CMask α
  | .none => .none
  | .other => .other
  | .dict es => .dict (es.map fun kv => (kv.1, kv.2.val))

/-- the entries with a valid key -/
def keyedS (es : List (CKey × SVal α)) : SDict α :=
  es.filterMap fun kv => match kv.1 with
    | .none => some (none, kv.2)
    | .int i => some (some i, kv.2)
    | .bad => Option.none

/-- `collapse_cost` with the mask as an object: validation (l.259-285), scan (l.286-323), mask step on the object -/
def collapseCostS (ninf pinf : α) (addc : α → Nat → α) (hist : List (List α)) (costs : List α)
    (perms : Option (List (List Nat))) (clip : Bool) (limit : α) (samples : Option Int) (mask : CMaskS α) :
    Except Err (BDict α) :=
  match checkCMask mask.erase with
  | .error e => .error e
  | .ok _ =>
    match collapseCostCore ninf pinf addc hist costs perms clip limit samples with
    | .error e => .error e
    | .ok res =>
      match mask with
      | .dict es => .ok (costMaskStepS res (keyedS es))
      | _ => .ok res

/-- the caller's mask object after a successful call -/
def maskAfter : CMaskS α → SDict α
  | .dict es => (keyedS es).norm
  | _ => []

/-! ### the conditions of the theorems, evaluated by the driver on every case -/

/-- the intervals are non-degenerate and each one ends before (or where) the next one starts -/
def chainOrd : Ivs α → Bool
  | [] => true
  | [a] => decide (a.1 < a.2)
  | a :: b :: r => decide (a.1 < a.2) && decide (a.2 ≤ b.1) && chainOrd (b :: r)

/-- weakly ascending -/
def sortedL : List α → Bool
  | a :: b :: r => decide (a ≤ b) && sortedL (b :: r)
  | _ => true

end scalar

end MysticVerif.Clps
