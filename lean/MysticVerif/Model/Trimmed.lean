/-
Model of the trimmed / winsorised sampling statistics of `mystic/math/measures.py` (property C18):
`_sort` (l.1480), `_k` (l.1549), `tmean` (l.1599), `tvariance` (l.1615), `tstd` (l.1632),
`impose_tmean` (l.1648), `impose_tvariance` (l.1663), `impose_tstd` (l.1686).

The code is mirrored as it is, statement by statement, INCLUDING the runtime types that decide how Python adds:
* builtin `sum` over a numpy array / a generator of `numpy.float64` is a sequential left fold from `0` (`lsum`);
* builtin `sum` over a LIST OF PYTHON FLOATS (what `_k(...).tolist()` returns) is CPython 3.12's compensated
  (Neumaier) summation: `pysum`;
* `numpy.cumsum` is a sequential accumulation (`cumsumFrom 0`);
* `ndarray.round(15)` is the parameter `T.rnd` (numpy: `rint(x*1e15)/1e15`, the driver's instance), the literal `.01`
  is `T.c01`, `isfinite` is `T.fin`: an ordered field need not have them, the theorems hold for ALL choices;
* Python's negative indices (`w[-1]`), slices with negative bounds and the `IndexError` of an out-of-range index
  are modelled by `pyPos` / `pyBound` / `kRaises` (the boundary cases `lo = len(w)`, `hi = -1 -> swap` of l.1568-1572);
* `_sort` is the stable insertion sort `sortPairs` of Model/Measures.lean (the order numpy gives to EQUAL samples that
  carry different weights is not modelled: the correspondence skips such cases).
No Mathlib imports: this file is linked into `mvdrv`.
-/
import MysticVerif.Model.Measures

namespace MysticVerif.Meas

/-- the non-field operations of the trimmed statistics -/
structure TConsts (R : Type) where
  /-- `ndarray.round(eps)` with `eps = 15` (measures.py l.1568-1569) -/
  rnd : R → R
  /-- the float literal `.01` (l.1564) -/
  c01 : R
  /-- `Py_IS_FINITE` in CPython's `sum` -/
  fin : R → Bool

section
variable {R : Type} [Add R] [Sub R] [Mul R] [Div R] [Neg R] [LT R] [DecidableLT R] [LE R] [DecidableLE R]
  [BEq R] [OfNat R 0] [OfNat R 1] [OfNat R 2] [NatCast R]

/-! ### CPython 3.12 `sum` over a list of floats (Python/bltinmodule.c `builtin_sum_impl`, float fast path) -/

/-- one step of the Neumaier loop: state `(f_result, c)` -/
def neumaierStep (s : R × R) (x : R) : R × R :=
  (s.1 + x, if absR x ≤ absR s.1 then s.2 + ((s.1 - (s.1 + x)) + x) else s.2 + ((x - (s.1 + x)) + s.1))

/-- `sum(l)` for a list of Python floats: compensated, `if (c && isfinite(c)) f_result += c` -/
def pysum (T : TConsts R) (l : List R) : R :=
  if (truthy (l.foldl neumaierStep (0, 0)).2 && T.fin (l.foldl neumaierStep (0, 0)).2) = true
  then (l.foldl neumaierStep (0, 0)).1 + (l.foldl neumaierStep (0, 0)).2
  else (l.foldl neumaierStep (0, 0)).1

/-! ### Python indexing -/

/-- position addressed by `seq[i]` for `len(seq) = n`; an out-of-range index gives the invalid position `n` -/
def pyPos (n : Nat) (i : Int) : Nat :=
  if i < 0 then (if 0 ≤ (n : Int) + i then ((n : Int) + i).toNat else n) else i.toNat

/-- `seq[i]` does not raise `IndexError` -/
def pyInRange (n : Nat) (i : Int) : Bool := decide (-(n : Int) ≤ i) && decide (i < (n : Int))

/-- a slice bound `seq[:i]` / `seq[i:]` (clipped into `[0, n]`) -/
def pyBound (n : Nat) (i : Int) : Nat := if i < 0 then ((n : Int) + i).toNat else min i.toNat n

/-- builtin `max(x, 0)`: `0` replaces `x` only when `0 > x` -/
def pymax0 (x : R) : R := if x < 0 then 0 else x

/-! ### `_k` (measures.py l.1549-1596) -/

/-- the crop indices `(lo, hi)` of l.1566-1572 for the normalised weights `w` and the fractions `klo`, `khi` -/
def kIdx (T : TConsts R) (w : List R) (klo khi : R) : Int × Int :=
  let cl := ((cumsumFrom 0 w).filter fun c => decide (0 < T.rnd (c - klo))).length           -- l.1568
  let ch := ((cumsumFrom 0 w.reverse).filter fun c => decide (0 < T.rnd (c - khi))).length   -- l.1569
  let lo0 : Int := (w.length : Int) - (cl : Int)
  let hi0 : Int := (ch : Int) - 1
  if hi0 < lo0 then (hi0, lo0) else (lo0, hi0)                                                -- l.1571-1572

/-- l.1574-1591: the values at the crop indices are reset (trim: the part of the boundary sample's mass that
lies inside the cut; winsorise: the boundary samples receive the mass beyond them) -/
def kReset (w : List R) (klo khi : R) (lo hi : Int) (clip : Bool) : List R :=
  let n := w.length
  let pl := pyPos n lo
  let ph := pyPos n hi
  if clip = true then
    if lo = hi then w.set pl (lsum w)                                                         -- l.1587-1588
    else
      let wa := w.set pl (w.getD pl 0 + lsum (w.take (pyBound n lo)))                         -- l.1590
      wa.set ph (wa.getD ph 0 + lsum (wa.drop (pyBound n (hi + 1))))                          -- l.1591
  else
    if (klo + khi == 1) = true then (w.set pl 0).set ph 0                                     -- l.1578-1579
    else if lo = hi then w.set pl (pymax0 (1 - khi - klo))                                    -- l.1580-1581
    else (w.set pl (pymax0 ((cumsumFrom 0 w).getD pl 0 - klo))).set ph                        -- l.1575, l.1583
      (pymax0 ((cumsumFrom 0 w.reverse).getD (pyPos n ((n : Int) - 1 - hi)) 0 - khi))         -- l.1576, l.1584

/-- l.1593-1594: `w[:lo] = 0; w[hi+1:] = 0` -/
def kCrop (w : List R) (lo hi : Int) : List R :=
  mapIdx w fun i x => if i < pyBound w.length lo ∨ pyBound w.length (hi + 1) ≤ i then 0 else x

/-- `_k(weights, k=(klo,khi), clip, norm)` after the percent check, with `klo`, `khi` in PERCENT -/
def kTrim (T : TConsts R) (weights : List R) (klo khi : R) (clip norm : Bool) : List R :=
  let tot := lsum weights                                                                     -- `sum(weights)` (numpy row)
  let w := weights.map (· / tot)                                                              -- l.1565
  let fl := T.c01 * klo
  let fh := T.c01 * khi                                                                       -- l.1564
  let ix := kIdx T w fl fh
  let w2 := kCrop (kReset w fl fh ix.1 ix.2 clip) ix.1 ix.2
  if norm = true then w2 else w2.map (· * tot)                                                -- l.1595

/-- an `IndexError` is raised inside `_k` (the model result is then meaningless) -/
def kRaises (T : TConsts R) (weights : List R) (klo khi : R) (clip : Bool) : Bool :=
  let n := weights.length
  let w := weights.map (· / lsum weights)
  let fl := T.c01 * klo
  let fh := T.c01 * khi
  let lo := (kIdx T w fl fh).1
  let hi := (kIdx T w fl fh).2
  if clip = true then
    !(pyInRange n lo) || (!(decide (lo = hi)) && !(pyInRange n hi))
  else
    !(pyInRange n lo) || !(pyInRange n ((n : Int) - 1 - hi)) ||                                -- l.1575-1576
      (((fl + fh == 1) || !(decide (lo = hi))) && !(pyInRange n hi))

/-! ### tmean / tvariance / tstd and their imposers -/

/-- `_sort(samples, weights)` as (sample, weight) pairs -/
def sortedOf (xs : List R) (ws : Option (List R)) : List (R × R) := sortPairs (pairsOf xs ws)

/-- the sorted samples -/
def sortedX (xs : List R) (ws : Option (List R)) : List R := (sortedOf xs ws).map (·.1)

/-- the trimmed weights of the sorted samples: `_k(_sort(samples,weights)[1], k, clip)` -/
def trimW (T : TConsts R) (xs : List R) (ws : Option (List R)) (klo khi : R) (clip : Bool) : List R :=
  kTrim T ((sortedOf xs ws).map (·.2)) klo khi clip false

/-- `mean(samples, weights)` (l.276, `tol = 0`) when `weights` is a list of Python floats:
`float(sum(weights))` is the compensated sum -/
def meanL (C : Consts R) (T : TConsts R) (ys w : List R) : R :=
  if truthy (pysum T w) = true then
    (if absR (lsum (List.zipWith (· * ·) ys w) / pysum T w) ≤ 0 then 0
     else lsum (List.zipWith (· * ·) ys w) / pysum T w)
  else lsum (List.zipWith (· * ·) ys w) * C.inf

/-- measures.py l.1599 `tmean(samples, weights=None, k=0, clip=False)`: `sum(samples * weights)/sum(weights)` -/
def tmean (T : TConsts R) (xs : List R) (ws : Option (List R)) (klo khi : R) (clip : Bool) : R :=
  lsum (List.zipWith (· * ·) (sortedX xs ws) (trimW T xs ws klo khi clip)) / pysum T (trimW T xs ws klo khi clip)

/-- measures.py l.1615 `tvariance`: `mean(abs(samples - trim_mean)**2, weights)` with the trimmed weights and
the trimmed mean computed from THE SAME trimmed weights (l.1628) -/
def tvariance (C : Consts R) (T : TConsts R) (xs : List R) (ws : Option (List R)) (klo khi : R) (clip : Bool) : R :=
  meanL C T ((sortedX xs ws).map fun x => powN (absR (x - tmean T xs ws klo khi clip)) 2)
    (trimW T xs ws klo khi clip)

/-- measures.py l.1632 `tstd` -/
def tstd (C : Consts R) (T : TConsts R) (xs : List R) (ws : Option (List R)) (klo khi : R) (clip : Bool) : R :=
  C.sqrt (tvariance C T xs ws klo khi clip)

/-- measures.py l.1648 `impose_tmean(m, samples, weights=None, k=0, clip=False)` -/
def imposeTmean (T : TConsts R) (m : R) (xs : List R) (ws : Option (List R)) (klo khi : R) (clip : Bool) : List R :=
  xs.map (· + (m - tmean T xs ws klo khi clip))                                               -- l.1660

/-- measures.py l.1663 `impose_tvariance(v, samples, weights=None, k=0, clip=False)` -/
def imposeTvariance (C : Consts R) (T : TConsts R) (v : R) (xs : List R) (ws : Option (List R)) (klo khi : R)
    (clip : Bool) : List R :=
  if truthy (tvariance C T xs ws klo khi clip) = true then                                    -- l.1679
    imposeTmean T (tmean T xs ws klo khi clip)
      (xs.map (· * C.sqrt (v / tvariance C T xs ws klo khi clip))) ws klo khi clip            -- l.1681-1683
  else List.replicate xs.length C.nan                                                         -- l.1680

/-- measures.py l.1686 `impose_tstd(s, ...)` : `impose_tvariance(s**2, ...)` -/
def imposeTstd (C : Consts R) (T : TConsts R) (s : R) (xs : List R) (ws : Option (List R)) (klo khi : R)
    (clip : Bool) : List R :=
  imposeTvariance C T (s * s) xs ws klo khi clip

end
end MysticVerif.Meas
