/-
Model of `mystic/strategy.py` (the ten differential-evolution mutation strategies, l.21-313), written once over
an arbitrary scalar type `R` (operations only): the driver runs it at `Float` bit for bit, the theorems hold for
every interpretation of `+ - *` and of the comparison with the crossover probability.

The random numbers a strategy call consumes are PARAMETERS of the model, in call order:
  * `ps`  - what `random.sample(pool, N)` picked, as POSITIONS in the pool it was handed
            (contract of `random.sample`: distinct positions `< len pool`);
  * `n0`  - `random.randrange(nDim)`;
  * `us`  - the stream of `random.random()` values.
The model itself builds the pool (`get_random_candidates`, l.21-27), does the index arithmetic, the two crossover
loops exactly as coded, and writes into the trial storage of the solver: ONE list for
`DifferentialEvolutionSolver` (`inst.trialSolution`), one list PER CANDIDATE for `DifferentialEvolutionSolver2`
(`inst.trialSolution[candidate]`, selected by `inst._map_solver`).

The code as it is: only `Best1Bin` runs the binomial loop; `Rand1Bin`, `RandToBest1Bin`, `Best2Bin`, `Rand2Bin`
are line-for-line copies of their `*Exp` twins (exponential loop).  `Name.cross` records what the code does,
`Name.namedBin` what the name says.  No Mathlib imports (linked into `mvdrv`).
-/

namespace MysticVerif.Strategy

variable {R : Type}

/-! ### candidate selection (strategy.py l.21-27) -/

/-- `list(range(exclude)) + list(range(exclude+1, NP))` -/
def pool (np excl : Nat) : List Nat := List.range excl ++ List.range' (excl + 1) (np - (excl + 1))

/-- `random.sample(pool, N)` where the sample picked the positions `ps` of the pool -/
def getRandomCandidates (np excl : Nat) (ps : List Nat) : List Nat :=
  ps.map (fun p => (pool np excl).getD p 0)

/-! ### the ten strategies -/

/-- base vector and difference vectors -/
inductive Kind where
  | best1 | rand1 | randToBest1 | best2 | rand2
  deriving DecidableEq, Repr

/-- how many members `get_random_candidates` is asked for -/
def Kind.ncand : Kind → Nat
  | .best1 => 2 | .rand1 => 3 | .randToBest1 => 2 | .best2 => 4 | .rand2 => 5

inductive Cross where
  | exp | bin
  deriving DecidableEq, Repr

inductive Name where
  | Best1Exp | Best1Bin | Rand1Exp | RandToBest1Exp | Best2Exp | Rand2Exp
  | Rand1Bin | RandToBest1Bin | Best2Bin | Rand2Bin
  deriving DecidableEq, Repr

def Name.kind : Name → Kind
  | .Best1Exp => .best1 | .Best1Bin => .best1
  | .Rand1Exp => .rand1 | .Rand1Bin => .rand1
  | .RandToBest1Exp => .randToBest1 | .RandToBest1Bin => .randToBest1
  | .Best2Exp => .best2 | .Best2Bin => .best2
  | .Rand2Exp => .rand2 | .Rand2Bin => .rand2

/-- the crossover loop the CODE of the strategy runs (l.61-88 is the only binomial loop) -/
def Name.cross : Name → Cross
  | .Best1Bin => .bin
  | _ => .exp

/-- what the NAME of the strategy says -/
def Name.namedBin : Name → Bool
  | .Best1Bin => true | .Rand1Bin => true | .RandToBest1Bin => true | .Best2Bin => true | .Rand2Bin => true
  | _ => false

/-- the part of the solver a strategy reads and writes -/
structure Inst (R : Type) where
  pop : List (List R)          -- inst.population
  best : List R                -- inst.bestSolution
  scale : R                    -- inst.scale        (F)
  prob : R                     -- inst.probability  (CR)
  nDim : Nat
  nPop : Nat
  mapSolver : Bool             -- inst._map_solver
  trial : List (List R)        -- DE1: [inst.trialSolution];  DE2: inst.trialSolution (a row per candidate)

/-- `inst.population[r][n]` -/
def at2 [Inhabited R] (pop : List (List R)) (r n : Nat) : R := (pop.getD r []).getD n default

/-- the right-hand side assigned to `trialSolution[n]`; `tn` is the current `trialSolution[n]` (only the
`RandToBest1*` strategies read it: `trialSolution[n] += ...`), `rs` the chosen candidates -/
def mutant [Add R] [Sub R] [Mul R] [Inhabited R] (k : Kind) (I : Inst R) (rs : List Nat) (tn : R) (n : Nat) : R :=
  match k with
  | .best1 =>        -- l.52-54 / l.83-85
    I.best.getD n default + I.scale * (at2 I.pop (rs.getD 0 0) n - at2 I.pop (rs.getD 1 0) n)
  | .rand1 =>        -- l.108-110 / l.220-222
    at2 I.pop (rs.getD 0 0) n + I.scale * (at2 I.pop (rs.getD 1 0) n - at2 I.pop (rs.getD 2 0) n)
  | .randToBest1 =>  -- l.137-140 / l.247-250
    tn + (I.scale * (I.best.getD n default - tn) + I.scale * (at2 I.pop (rs.getD 0 0) n - at2 I.pop (rs.getD 1 0) n))
  | .best2 =>        -- l.164-168 / l.274-278
    I.best.getD n default + I.scale * (at2 I.pop (rs.getD 0 0) n + at2 I.pop (rs.getD 1 0) n
                                        - at2 I.pop (rs.getD 2 0) n - at2 I.pop (rs.getD 3 0) n)
  | .rand2 =>        -- l.192-196 / l.302-306
    at2 I.pop (rs.getD 0 0) n + I.scale * (at2 I.pop (rs.getD 1 0) n + at2 I.pop (rs.getD 2 0) n
                                            - at2 I.pop (rs.getD 3 0) n - at2 I.pop (rs.getD 4 0) n)

/-- exponential loop (e.g. l.48-56):
```
i = 0
while 1:
    if random.random() >= inst.probability or i == inst.nDim: break
    trialSolution[n] = <mutant>
    n = (n + 1) % inst.nDim
    i += 1
```
`mu tn n` is the assigned value.  Returns the trial and the number of `random.random()` calls made
(the draw is made BEFORE `i == nDim` is looked at, so a full run consumes `nDim + 1` draws). -/
def expLoop [LE R] [DecidableLE R] (mu : R → Nat → R) (cr : R) (D : Nat) [Inhabited R] :
    List R → Nat → Nat → List R → Nat → List R × Nat
  | [], _, _, t, used => (t, used)
  | u :: us, n, i, t, used =>
    if cr ≤ u ∨ i = D then (t, used + 1)
    else expLoop mu cr D us ((n + 1) % D) (i + 1) (t.set n (mu (t.getD n default) n)) (used + 1)

/-- binomial loop (l.79-85):
```
for i in range(inst.nDim):
    cross = random.random()
    if i==n or cross < inst.probability: trialSolution[i] = <mutant>
```
the draw list is consumed one per position, starting at position `i` -/
def binLoop [LT R] [DecidableLT R] (mu : R → Nat → R) (cr : R) (n : Nat) [Inhabited R] :
    List R → Nat → List R → List R
  | [], _, t => t
  | u :: us, i, t =>
    binLoop mu cr n us (i + 1) (if i = n ∨ u < cr then t.set i (mu (t.getD i default) i) else t)

/-- the trial vector one strategy call produces for `cand` (before it is stored) -/
def trialOf [Add R] [Sub R] [Mul R] [LT R] [DecidableLT R] [LE R] [DecidableLE R] [Inhabited R]
    (nm : Name) (I : Inst R) (cand : Nat) (ps : List Nat) (n0 : Nat) (us : List R) : List R × Nat :=
  let rs := getRandomCandidates I.nPop cand (ps.take nm.kind.ncand)
  let parent := I.pop.getD cand []              -- `trialSolution[:] = inst.population[candidate]`
  match nm.cross with
  | .exp => expLoop (mutant nm.kind I rs) I.prob I.nDim us n0 0 parent 0
  | .bin => (binLoop (mutant nm.kind I rs) I.prob n0 (us.take I.nDim) 0 parent, I.nDim)

/-- which row of the trial storage the call writes: `inst.trialSolution[candidate]` if `inst._map_solver`
else `inst.trialSolution` -/
def trialRow (I : Inst R) (cand : Nat) : Nat := if I.mapSolver = true then cand else 0

/-- one strategy call: the solver state afterwards (only the trial storage changes) -/
def call [Add R] [Sub R] [Mul R] [LT R] [DecidableLT R] [LE R] [DecidableLE R] [Inhabited R]
    (nm : Name) (I : Inst R) (cand : Nat) (ps : List Nat) (n0 : Nat) (us : List R) : Inst R :=
  { I with trial := I.trial.set (trialRow I cand) (trialOf nm I cand ps n0 us).1 }

/-! ### the two crossover rules as specifications (what "binomial" / "exponential" mean) -/

/-- cyclic offset of position `j` from the start `n0` in dimension `D` (`j, n0 < D`) -/
def offset (n0 D j : Nat) : Nat := if n0 ≤ j then j - n0 else j + D - n0

/-- number of leading draws `< CR`, at most `cap` -/
def runLen [LE R] [DecidableLE R] (cr : R) : List R → Nat → Nat
  | [], _ => 0
  | _ :: _, 0 => 0
  | u :: us, c + 1 => if cr ≤ u then 0 else 1 + runLen cr us c

end MysticVerif.Strategy
