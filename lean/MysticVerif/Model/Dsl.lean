/-
The small expression / constraint DSL interpreted identically by `harness/dsl.py`
(on Python floats) and here (on `Float`), DESIGN.md Appendix A.
`none` = Python raised `ZeroDivisionError` (float `/` by zero).
-/
import MysticVerif.Basic.Proto

namespace MysticVerif.Dsl

/-- Python `round(x)` for a float (round-half-even), as a float -/
def pyRound (x : Float) : Float :=
  let f := x.floor
  let d := x - f
  if d < 0.5 then f + 0.0            -- `round` returns an int: -0.0 becomes 0.0
  else if d > 0.5 then f + 1.0
  else if (f / 2.0).floor * 2.0 == f then f else f + 1.0

/-- Python `min(a, b)` / `max(a, b)` on floats: the first argument wins ties and NaN comparisons -/
def pyMin (a b : Float) : Float := if b < a then b else a
def pyMax (a b : Float) : Float := if b > a then b else a

inductive Expr where
  | c (v : Float)
  | x (i : Nat)
  | add (a b : Expr) | sub (a b : Expr) | mul (a b : Expr) | div (a b : Expr)
  | neg (a : Expr) | abs (a : Expr) | min (a b : Expr) | max (a b : Expr) | sq (a : Expr)
  | rint (a : Expr)
  | sum (l : List Expr)
  deriving Inhabited

mutual
def Expr.eval (v : List Float) : Expr → Option Float
  | .c k => some k
  | .x i => v[i]?          -- an index error is a harness bug; never generated
  | .add a b => do let p ← a.eval v; let q ← b.eval v; pure (p + q)
  | .sub a b => do let p ← a.eval v; let q ← b.eval v; pure (p - q)
  | .mul a b => do let p ← a.eval v; let q ← b.eval v; pure (p * q)
  | .div a b => do
      let p ← a.eval v; let q ← b.eval v
      if q == 0.0 then none else pure (p / q)
  | .neg a => do let p ← a.eval v; pure (-p)
  | .abs a => do let p ← a.eval v; pure p.abs
  | .min a b => do let p ← a.eval v; let q ← b.eval v; pure (pyMin p q)
  | .max a b => do let p ← a.eval v; let q ← b.eval v; pure (pyMax p q)
  | .sq a => do let p ← a.eval v; pure (p * p)
  | .rint a => do let p ← a.eval v; pure (pyRound p)
  | .sum l => Expr.evalSum v l 0.0
def Expr.evalSum (v : List Float) : List Expr → Float → Option Float
  | [], acc => some acc
  | e :: es, acc => do let p ← e.eval v; Expr.evalSum v es (acc + p)
end

/-- constraint terms: maps `List Float → Option (List Float)` -/
inductive Con where
  | id
  | pin (i : Nat) (e : Expr)            -- x[i] = e(x)
  | clamp (i : Nat) (lo hi : Float)     -- x[i] = max(lo, min(hi, x[i]))  (python min/max)
  | rint (is : List Nat)
  | tie (i j : Nat) (off : Float)       -- x[i] = x[j] + off
  | addUntil (i : Nat) (t step : Float) -- if x[i] < t: x[i] += step       (non-idempotent)
  | rot                                 -- x = x[1:] + x[:1]               (cyclic)
  | swap (i j : Nat)
  | seq (l : List Con)
  deriving Inhabited

def setAt (v : List Float) (i : Nat) (a : Float) : List Float := v.set i a

mutual
def Con.apply : Con → List Float → Option (List Float)
  | .id, v => some v
  | .pin i e, v => do let a ← e.eval v; pure (setAt v i a)
  | .clamp i lo hi, v => do let a ← v[i]?; pure (setAt v i (pyMax lo (pyMin hi a)))
  | .rint is, v => some (is.foldl (fun w i => match w[i]? with | some a => setAt w i (pyRound a) | none => w) v)
  | .tie i j off, v => do let a ← v[j]?; pure (setAt v i (a + off))
  | .addUntil i t step, v => do let a ← v[i]?; pure (if a < t then setAt v i (a + step) else v)
  | .rot, v => some (v.drop 1 ++ v.take 1)
  | .swap i j, v => do let a ← v[i]?; let b ← v[j]?; pure (setAt (setAt v i b) j a)
  | .seq l, v => Con.applySeq l v
def Con.applySeq : List Con → List Float → Option (List Float)
  | [], v => some v
  | c :: cs, v => do let w ← c.apply v; Con.applySeq cs w
end

/-! ### parsing from protocol values -/

mutual
partial def parseExpr : Val → Option Expr
  | .flt f => some (.c f)
  | .int i => (Val.int i).asFloat?.map .c
  | .list [.sym "c", v] => v.asFloat?.map .c
  | .list [.sym "x", .int i] => some (.x i.toNat)
  | .list [.sym "+", a, b] => do pure (.add (← parseExpr a) (← parseExpr b))
  | .list [.sym "-", a, b] => do pure (.sub (← parseExpr a) (← parseExpr b))
  | .list [.sym "*", a, b] => do pure (.mul (← parseExpr a) (← parseExpr b))
  | .list [.sym "/", a, b] => do pure (.div (← parseExpr a) (← parseExpr b))
  | .list [.sym "neg", a] => do pure (.neg (← parseExpr a))
  | .list [.sym "abs", a] => do pure (.abs (← parseExpr a))
  | .list [.sym "min", a, b] => do pure (.min (← parseExpr a) (← parseExpr b))
  | .list [.sym "max", a, b] => do pure (.max (← parseExpr a) (← parseExpr b))
  | .list [.sym "sq", a] => do pure (.sq (← parseExpr a))
  | .list [.sym "rint", a] => do pure (.rint (← parseExpr a))
  | .list (.sym "sum" :: l) => do pure (.sum (← l.mapM parseExpr))
  | _ => none
end

partial def parseCon : Val → Option Con
  | .list [.sym "id"] => some .id
  | .list [.sym "pin", .int i, e] => do pure (.pin i.toNat (← parseExpr e))
  | .list [.sym "clamp", .int i, lo, hi] => do pure (.clamp i.toNat (← lo.asFloat?) (← hi.asFloat?))
  | .list (.sym "rint" :: is) => do pure (.rint (← is.mapM Val.asNat?))
  | .list [.sym "tie", .int i, .int j, off] => do pure (.tie i.toNat j.toNat (← off.asFloat?))
  | .list [.sym "addUntil", .int i, t, s] => do pure (.addUntil i.toNat (← t.asFloat?) (← s.asFloat?))
  | .list [.sym "rot"] => some .rot
  | .list [.sym "swap", .int i, .int j] => some (.swap i.toNat j.toNat)
  | .list (.sym "seq" :: l) => do pure (.seq (← l.mapM parseCon))
  | _ => none

end MysticVerif.Dsl
