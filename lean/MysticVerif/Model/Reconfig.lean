/-
RECONFIGURED runs: a solver whose settings change between iterations - `SetPenalty` / `SetConstraints` /
`SetStrictRanges` between `Step()` calls, settings handed to `Step(**kwds)` itself, a `Step` after a stop.  Every such
event ends in `Finalize()` (`abstract_solver.py` `_update_objective` l.883-890), so the NEXT `_Step` re-decorates the
objective from the settings then in force (`_bootstrap_objective` l.928-942, `_decorate_objective` l.892-926;
differential_evolution.py l.220-250 / l.464-499): the decorated objective of an iteration is a function of the settings
in force at that iteration, the evaluation counter and monitor carry on (`wrap_function(.., start=self._fcalls[0])`),
the stored energies are NOT re-evaluated, and under strict ranges the population is passed through
`_clipGuessWithinRangeBoundary` first (`pre`; the identity whenever every member already lies in the box).

So a reconfigured run is a fold over its performed iterations, each with ITS objective.  No Mathlib imports.
-/
import MysticVerif.Model.Solver
import MysticVerif.Model.NelderMead

namespace MysticVerif.Solver

variable {X E : Type}

/-- one performed iteration of a (possibly reconfigured) differential-evolution run -/
structure DEGen (X E : Type) where
  /-- the objective decorated from the settings in force at this `_Step` -/
  o : Obj X E
  /-- what the re-decoration before this iteration does to the population (identity when there was none) -/
  pre : List X → List X
  /-- the strategy's trial vectors for candidates 0..nPop-1 (generation 0: the members) -/
  trials : List X
  /-- DifferentialEvolutionSolver2 (map) or DifferentialEvolutionSolver (one candidate at a time) -/
  two : Bool

def DE.genStep [LT E] [DecidableLT E] (g : DEGen X E) (s : DE X E) : DE X E :=
  if g.two = true then DE.step2 g.o g.trials { s with pop := g.pre s.pop }
  else DE.step1 g.o g.trials { s with pop := g.pre s.pop }

/-- the whole run: generation after generation, each under its own objective -/
def DE.runCfg [LT E] [DecidableLT E] (gs : List (DEGen X E)) (s : DE X E) : DE X E :=
  gs.foldl (fun s g => DE.genStep g s) s

end MysticVerif.Solver

namespace MysticVerif.Solver

variable {R E : Type}

/-- Nelder-Mead's re-decoration under strict ranges (scipy_optimize.py l.201-212).  Before generation 1
(`k ≤ 1` performed iterations) only `population[0]` is clipped into the box; afterwards the whole simplex is rebuilt
around the clipped `population[0]` - row `i+1` is `population[0]` with coordinate `i` replaced by
`_setSimplexWithinRangeBoundary()[i]` - while `popEnergy` is left as it was. -/
def NM.redecorate (clip0 mkVal : Pt R → Pt R) (zero : R) (k : Nat) (sx : List (Pt R × E)) : List (Pt R × E) :=
  match sx with
  | [] => []
  | (x0', f0) :: tl =>
    let x0 := clip0 x0'
    if k ≤ 1 then (x0, f0) :: tl
    else (x0, f0) :: (tl.zipIdx.map fun p => (x0.set p.2 ((mkVal x0).getD p.2 zero), p.1.2))

end MysticVerif.Solver

namespace MysticVerif.Solver

variable {R E : Type}

/-- one performed iteration (generation >= 1) of a possibly reconfigured Nelder-Mead run -/
structure NMGen (R E : Type) where
  o : Obj (Pt R) E
  /-- simplex surgery of the re-decorations since the previous iteration (`NM.redecorate`, composed; identity if none) -/
  pre : List (Pt R × E) → List (Pt R × E)
  coef : Coef R
  st : Pt R → Pt R
  clip0 : Pt R → Pt R
  mkVal : Pt R → Pt R

/-- the `k`-th performed iteration, `k >= 1`: generation 1 builds the simplex, later ones update it -/
def NM.genStep [Add R] [Sub R] [Mul R] [Div R] [LT E] [DecidableLT E] [LE E] [DecidableLE E]
    (g : NMGen R E) (k : Nat) (s : NM R E) : NM R E :=
  if k = 1 then NM.gen1 g.o g.clip0 g.mkVal { s with simplex := g.pre s.simplex }
  else (NM.update g.o g.coef g.st { s with simplex := g.pre s.simplex }).1

/-- iterations `k, k+1, ..` each under its own settings -/
def NM.runFrom [Add R] [Sub R] [Mul R] [Div R] [LT E] [DecidableLT E] [LE E] [DecidableLE E] :
    List (NMGen R E) → Nat → NM R E → NM R E
  | [], _, s => s
  | g :: gs, k, s => NM.runFrom gs (k + 1) (NM.genStep g k s)

end MysticVerif.Solver
