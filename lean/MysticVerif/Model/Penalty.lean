/-
Model of `mystic.penalty` (penalty.py l.41-600: nine closure families `error / iter / iteration /
store / stored / clear` + the decorated evaluator `func`), of the penalty combinators and adapters
`coupler.additive / and_ / or_ / not_` (coupler.py l.137-293) and of `constraints.with_penalty`
(constraints.py l.93) / `constraints.as_penalty` (l.485).

A *stack* `T1(c1,k1,h1)(T2(c2,k2,h2)(... f))` is a `List (Level R)`, outermost first; the user's
conditions are parameters: every operation that evaluates them receives, per level, `some (c x)` or
`none` (= the condition raised `ZeroDivisionError`).  `fx` is the value of the innermost decorated
function at `x`.  Python exceptions that ESCAPE the penalty code are `Except.error`:
`zerodiv` (`pow(0, negative)`, float division by zero in the barrier / Lagrange formulas) and
`index` (`_y[i] = y` with `i < -len(_y)` in `store`).

Scalars: written once over a type `R` carrying operations only; the driver instantiates `Float`
(`x**2`, `x**0.5`, `pow(h,n)` are the C library `pow`, exactly what CPython calls), the theorems an
ordered field.  No Mathlib imports: this file is linked into `mvdrv`.
-/

namespace MysticVerif.Pen

inductive PType where
  | qEq | lEq | uEq | uIneq | barrier | qIneq | lIneq | lagIneq | lagEq
  deriving DecidableEq, Repr, Inhabited

/-- equality types: `error` uses `condition(x)`, the others `max(0., condition(x))` -/
def PType.isEq : PType → Bool
  | .qEq | .lEq | .uEq | .lagEq => true
  | _ => false

/-- the two types whose `store` records the condition value -/
def PType.isLag : PType → Bool
  | .lagIneq | .lagEq => true
  | _ => false

/-- scalar operations of the Python code that are not core type classes -/
class PenOps (R : Type) where
  /-- `pow(h, n)` for an integer `n` (python int or float `h`) -/
  powi : R → Int → R
  /-- `x**2` -/
  sq : R → R
  /-- `x**0.5` -/
  root : R → R
  /-- `abs(x)` -/
  abs : R → R
  /-- `numpy.log(x)` -/
  log : R → R
  /-- `numpy.inf` -/
  inf : R

inductive Err where
  | zerodiv | index
  deriving DecidableEq, Repr

structure Level (R : Type) where
  t : PType
  k : R
  h : R
  /-- `_n[0]` : current penalty iteration (any python int: `iter(i)` stores `i` unchecked) -/
  n : Int := 0
  /-- `_y` : stored condition values -/
  y : List R := []
  deriving Repr

variable {R : Type} [Add R] [Sub R] [Mul R] [Div R] [Neg R] [LT R] [DecidableLT R] [BEq R]
  [OfNat R 0] [OfNat R 1] [OfNat R 2] [PenOps R]

/-- python `max(a, b)` : `a` unless `b > a` -/
def pyMax (a b : R) : R := if a < b then b else a
/-- python `min(a, b)` : `a` unless `b < a` -/
def pyMin (a b : R) : R := if b < a then b else a

/-- python `pow(h, n)`: `0 ** negative` raises `ZeroDivisionError` -/
def pyPow (h : R) (n : Int) : Except Err R :=
  if (h == 0) = true ∧ n < 0 then .error .zerodiv else .ok (PenOps.powi h n)

/-- python float `/` : a zero divisor raises `ZeroDivisionError` -/
def pyDiv (a b : R) : Except Err R :=
  if (b == 0) = true then .error .zerodiv else .ok (a / b)

/-- `stored(i)` for an int `i` (penalty.py l.71-74): python indexing, `IndexError -> 0.0` -/
def storedAt (y : List R) (i : Int) : R :=
  if 0 ≤ i then y[i.toNat]?.getD 0
  else if -(y.length : Int) ≤ i then y[((y.length : Int) + i).toNat]?.getD 0
  else 0

/-- the violation whose magnitude `error` reports: `c` (equality types) or `max(0., c)` -/
def viol (t : PType) (c : R) : R := if t.isEq = true then c else pyMax 0 c

/-! ### the Lagrange multiplier loops (penalty.py l.514-517, l.586-589) -/

/-- `for i in range(n): lam += 2.*_k*stored(i); _k *= h`  ->  `(lam, _k)` -/
def lagEqLoop (h : R) (y : List R) : (m : Nat) → (i : Nat) → (lam : R) → (k : R) → R × R
  | 0, _, lam, k => (lam, k)
  | m + 1, i, lam, k => lagEqLoop h y m (i + 1) (lam + (2 * k) * storedAt y (i : Int)) (k * h)

/-- `for i in range(n): beta += 2.*_k*max(-beta/(2.*_k), stored(i)); _k *= h`  ->  `(beta, _k)` -/
def lagIneqLoop (h : R) (y : List R) : (m : Nat) → (i : Nat) → (beta : R) → (k : R) → Except Err (R × R)
  | 0, _, beta, k => .ok (beta, k)
  | m + 1, i, beta, k =>
    match pyDiv (-beta) (2 * k) with
    | .error e => .error e
    | .ok q => lagIneqLoop h y m (i + 1) (beta + (2 * k) * pyMax q (storedAt y (i : Int))) (k * h)

/-! ### the decorated evaluator `func` -/

/-- what one level contributes: `add a` = `a + f(x)`;  `stop v` = return `v` without calling `f` -/
inductive Term (R : Type) where
  | add (a : R)
  | stop (v : R)

/-- the body of `func` after the condition evaluated to `pf` (one case per penalty type) -/
def term (l : Level R) (pf : R) : Except Err (Term R) :=
  match l.t with
  | .qEq =>       -- l.87-88: _k = k*pow(h,n); float(_k)*pf**2 + f(x)
    match pyPow l.h l.n with
    | .error e => .error e
    | .ok p => .ok (.add ((l.k * p) * PenOps.sq pf))
  | .lEq =>       -- l.146-147: float(_k)*abs(pf) + f(x)
    match pyPow l.h l.n with
    | .error e => .error e
    | .ok p => .ok (.add ((l.k * p) * PenOps.abs pf))
  | .uEq =>       -- l.205-206: _k = float(k)*pow(h,n) if pf else 0.0; _k + f(x)
    if (pf == 0) = true then .ok (.add 0) else
    match pyPow l.h l.n with
    | .error e => .error e
    | .ok p => .ok (.add (l.k * p))
  | .uIneq =>     -- l.264-265: _k = float(k)*pow(h,n) if pf > 0 else 0.0
    if 0 < pf then
      match pyPow l.h l.n with
      | .error e => .error e
      | .ok p => .ok (.add (l.k * p))
    else .ok (.add 0)
  | .barrier =>   -- l.325-329: inf if pf > 0 else -.5/_k*log(-pf) + f(x)
    if 0 < pf then .ok (.stop PenOps.inf) else
    match pyPow l.h l.n with
    | .error e => .error e
    | .ok p =>
      match pyDiv (-((1 : R) / 2)) (l.k * p) with
      | .error e => .error e
      | .ok d => .ok (.add (d * PenOps.log (-pf)))
  | .qIneq =>     -- l.387-388: float(2*_k)*max(0., pf)**2 + f(x)
    match pyPow l.h l.n with
    | .error e => .error e
    | .ok p => .ok (.add ((2 * (l.k * p)) * PenOps.sq (pyMax 0 pf)))
  | .lIneq =>     -- l.446-447: float(2*_k)*abs(max(0., pf)) + f(x)
    match pyPow l.h l.n with
    | .error e => .error e
    | .ok p => .ok (.add ((2 * (l.k * p)) * PenOps.abs (pyMax 0 pf)))
  | .lagIneq =>   -- l.514-519
    match lagIneqLoop l.h l.y l.n.toNat 0 0 l.k with
    | .error e => .error e
    | .ok bk =>
      match pyDiv (-bk.1) (2 * bk.2) with
      | .error e => .error e
      | .ok q => .ok (.add (bk.2 * PenOps.sq (pyMax q pf) + bk.1 * pyMax q pf))
  | .lagEq =>     -- l.586-590
    let lk := lagEqLoop l.h l.y l.n.toNat 0 0 l.k
    .ok (.add (lk.2 * PenOps.sq pf + lk.1 * pf))

/-- `p(x)` for the stack `ls` (outermost first) paired with the condition values at `x`;
`fx` = value of the innermost decorated function.  A condition that raised `ZeroDivisionError`
returns `inf` without evaluating anything further in (l.83-86). -/
def evalStack : List (Level R × Option R) → R → Except Err R
  | [], fx => .ok fx
  | (_, none) :: _, _ => .ok PenOps.inf
  | (l, some pf) :: rest, fx =>
    match term l pf with
    | .error e => .error e
    | .ok (.stop v) => .ok v
    | .ok (.add a) =>
      match evalStack rest fx with
      | .error e => .error e
      | .ok v => .ok (a + v)

/-! ### `error` (l.54-60 and its eight copies) -/

/-- `p.error(x)`; the innermost decorated function has no `error` attribute -/
def errStack : List (Level R × Option R) → R
  | [] => 0                                           -- not a penalty: never called
  | (_, none) :: _ => PenOps.inf
  | [(l, some pf)] => PenOps.root (PenOps.sq (viol l.t pf))
  | (l, some pf) :: r :: rest => PenOps.root (PenOps.sq (viol l.t pf) + PenOps.sq (errStack (r :: rest)))

/-! ### `iter`, `clear`, `iteration`, `stored`, `store` -/

/-- `p.iter(i)` : `_n[0] += 1` / `_n[0] = i`, propagated with the same `i` -/
def iterStack (i : Option Int) (ls : List (Level R)) : List (Level R) :=
  ls.map fun l => { l with n := match i with | none => l.n + 1 | some j => j }

/-- `p.clear()` : `_n[0] = 0`, `_y` emptied, propagated -/
def clearStack (ls : List (Level R)) : List (Level R) :=
  ls.map fun l => { l with n := 0, y := [] }

/-- `p.iteration()` of the outermost level -/
def iteration (ls : List (Level R)) : Int :=
  match ls with
  | [] => 0
  | l :: _ => l.n

/-- python `_y[i] = v` for `-len <= i < len` -/
def setPy (y : List R) (i : Int) (v : R) : List R :=
  if 0 ≤ i then y.set i.toNat v else y.set ((y.length : Int) + i).toNat v

/-- `if i is None: i = iteration()` (l.493) -/
def storeIdx (i : Option Int) (n : Int) : Int :=
  match i with
  | some j => j
  | none => n

/-- `p.store(x, i)` (l.487-497 for the Lagrange types, l.68-70 for the others).  Returns the new
levels and the escaping `IndexError`, if any (levels further out have already been written). -/
def storeStack : Option Int → List (Level R × Option R) → List (Level R) × Option Err
  | _, [] => ([], none)
  | i, (l, c) :: rest =>
    if l.t.isLag = true then
      let v : R := match c with | some a => a | none => PenOps.inf
      let len : Int := l.y.length
      let j : Int := storeIdx i l.n
      if len ≤ j then
        let r := storeStack (some j) rest
        ({ l with y := l.y ++ (List.replicate (j - len).toNat 0 ++ [v]) } :: r.1, r.2)
      else if -len ≤ j then
        let r := storeStack (some j) rest
        ({ l with y := setPy l.y j v } :: r.1, r.2)
      else (l :: rest.map (·.1), some .index)
    else
      let r := storeStack i rest
      (l :: r.1, r.2)

/-- an operation on the handle of level `j` acts on levels `j, j+1, ...` -/
def onFrom (j : Nat) (f : List (Level R) → List (Level R)) (ls : List (Level R)) : List (Level R) :=
  ls.take j ++ f (ls.drop j)

/-! ### couplers and adapters -/

/-- `coupler.additive(p)(f)(x) = f(x) + p(x)` -/
def additive (px fx : R) : R := fx + px

/-- condition of `coupler.and_` : python `sum(p(x) for p in penalties)` (start `0`), as a left fold -/
def andCond (vals : List R) : R := vals.foldl (· + ·) 0

/-- condition of `coupler.or_` : python `min(p(x) for p in penalties)` (first minimum wins) -/
def orCond (v : R) (vals : List R) : R := vals.foldl pyMin v

/-- condition of `coupler.not_` : `0 - condition(x)` for `*_inequality` types, `not condition(x)` otherwise -/
def notCond (t : PType) (c : R) : R :=
  if t.isEq = true then (if (c == 0) = true then 1 else 0) else 0 - c

/-- `constraints.as_penalty` : `rnorm(x) = (Σ (c(x)[i] - x[i])**2)**0.5`, accumulated left to right from `0.0` -/
def rnorm (x cx : List R) : R :=
  PenOps.root ((List.zip cx x).foldl (fun acc p => acc + PenOps.sq (p.1 - p.2)) 0)

end MysticVerif.Pen
