/-
The interrupt handler of a solver (`mystic/_signal.py` l.14-58, installed by `Solve` when `enable_signal_handler()` was
called, abstract_solver.py l.1179-1180): on SIGINT it reads "sense switches" until one of them ends the dialogue:

  sol  -> print the current best solution        (dialogue continues)
  call -> run `sigint_callback(bestSolution)`    (if one was given to Solve; dialogue continues)
  cont -> return: the calculation continues
  exit -> `solver._EARLYEXIT = True`, return: `Terminated` reports "SolverInterrupt" at the next stop test
  anything else -> "unknown option"              (dialogue continues)

The switches are compared with `s.lower()`.  No Mathlib imports.
-/
namespace MysticVerif.Signal

inductive Switch where
  | sol | cont | call | exit | other
  deriving DecidableEq, Repr

/-- what one delivery of the signal did -/
structure Effect where
  earlyExit : Bool     -- `_EARLYEXIT` was set
  consumed : Nat       -- inputs read
  printed : Nat        -- `sol` answers (best solution printed)
  called : Nat         -- `sigint_callback` invocations
  unknown : Nat        -- "unknown option" answers
  finished : Bool      -- the dialogue ended (`cont` / `exit` seen); otherwise the input ran out (EOF: `input` raises)
  deriving DecidableEq, Repr

/-- the `while 1:` loop over the inputs typed at the prompt -/
def handle (hasCallback : Bool) : List Switch → Effect → Effect
  | [], e => e
  | .sol :: rest, e => handle hasCallback rest { e with consumed := e.consumed + 1, printed := e.printed + 1 }
  | .call :: rest, e =>
    handle hasCallback rest { e with consumed := e.consumed + 1, called := e.called + (if hasCallback = true then 1 else 0) }
  | .other :: rest, e => handle hasCallback rest { e with consumed := e.consumed + 1, unknown := e.unknown + 1 }
  | .cont :: _, e => { e with consumed := e.consumed + 1, finished := true }
  | .exit :: _, e => { e with consumed := e.consumed + 1, earlyExit := true, finished := true }

def start : Effect := { earlyExit := false, consumed := 0, printed := 0, called := 0, unknown := 0, finished := false }

def deliver (hasCallback : Bool) (inputs : List Switch) : Effect := handle hasCallback inputs start

/-- the first switch that ends the dialogue -/
def firstEnding : List Switch → Option Switch
  | [] => none
  | .cont :: _ => some .cont
  | .exit :: _ => some .exit
  | _ :: rest => firstEnding rest

end MysticVerif.Signal
