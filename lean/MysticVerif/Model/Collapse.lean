/-
Model of the dimensional-collapse machinery of the pinned mystic tree (property C11):

* `mystic/collapse.py`   detectors `collapse_at` l.15-49, `collapse_as` l.52-98, `collapse_weight` l.101-155,
                         `collapse_position` l.158-239, the mask selectors / filters l.338-404
* `mystic/monitors.py`   readers `_solutions / _weights / _positions` l.667-692, `get_iwts / get_ipos / get_wts /
                         get_pos` l.296-324
* `mystic/tools.py`      `pairwise` l.806-819, `_inverted`, `_symmetric` l.822-833
* `mystic/mask.py`       `update_mask / _update_masks / _extend_mask` l.22-74

Everything is generic in the scalar `R` (operations only).  The driver runs it at `Float`, the theorems at an
arbitrary linearly ordered field.  No Mathlib imports: this file is linked into `mvdrv`.

Conventions
* the recorded history `monitor.x` is a list of rows, oldest first; `generations` is `Option Int` (`none` = `None`);
  the look-back window is the Python slice `x[-generations:]` (`lastN`): `0` and `None` give the WHOLE history,
  a window longer than the history gives the whole history, a negative value drops that many records from the front.
* numpy reductions `max / min / ptp` are NaN-propagating; `y ≤ y` is false exactly for NaN, so the folds below are
  bit-faithful at `Float` and the NaN test disappears in a linear order.
* errors are the enum of DESIGN Appendix A: `value` (ValueError), `type` (TypeError), `index` (IndexError).
* a detector returns Python sets / dicts / 'where' tuples; the model returns the canonical list of members
  (row-major order of `numpy.where`) plus the format tag - set order is not observable.
-/

namespace MysticVerif.Clps

inductive Err where
  | value | type | index
  deriving DecidableEq, Repr

def Err.str : Err → String
  | .value => "value"
  | .type => "type"
  | .index => "index"

/-! ### Python / numpy helpers -/

/-- Python slice `xs[-g:]` (monitors.py l.669-670: `indx = last if last is None else -last`) -/
def lastN {α : Type} (g : Option Int) (xs : List α) : List α :=
  match g with
  | none => xs
  | some g =>
    let n : Int := xs.length
    let s : Int := -g
    let s' : Int := if s < 0 then (if s + n < 0 then 0 else s + n) else (if n < s then n else s)
    xs.drop s'.toNat

/-- `numpy.array(rows)` needs equal row lengths (otherwise ValueError, numpy >= 1.24) -/
def isRect {α : Type} (n : Nat) (w : List (List α)) : Bool := w.all (fun r => r.length == n)

/-- upper-triangle index pairs in the order of `numpy.triu_indices(n, k=1)` (tools.py l.814) -/
def pairsOf (n : Nat) : List (Nat × Nat) :=
  (List.range n).flatMap (fun i => ((List.range n).filter (fun j => i < j)).map (fun j => (i, j)))

section Scalar
variable {R : Type} [Sub R] [Neg R] [LT R] [DecidableLT R] [LE R] [DecidableLE R] [OfNat R 0]

/-- `numpy.absolute` (NaN stays NaN; the sign of zero is not observable through `<=`) -/
def absR (x : R) : R := if x < 0 then -x else x

/-- one step of `numpy.maximum.reduce` (NaN-propagating; `¬ y ≤ y` iff `y` is NaN) -/
def maxStep (m y : R) : R := if m < y ∨ ¬ (y ≤ y) then y else m
/-- one step of `numpy.minimum.reduce` -/
def minStep (m y : R) : R := if y < m ∨ ¬ (y ≤ y) then y else m

/-- `a.max(axis=0)` of one column (`none` = zero-size reduction, ValueError) -/
def maxL : List R → Option R
  | [] => none
  | x :: xs => some (xs.foldl maxStep x)

def minL : List R → Option R
  | [] => none
  | x :: xs => some (xs.foldl minStep x)

/-- `numpy.ptp` of one column: `max - min` -/
def ptp (c : List R) : Option R :=
  match maxL c, minL c with
  | some a, some b => some (a - b)
  | _, _ => none

/-- column `i` of the window -/
def colOf (w : List (List R)) (i : Nat) : List R := w.filterMap (fun r => r[i]?)

/-- `value <= tolerance` where tolerance was reshaped to a column (collapse.py l.39-40): true when the value is
within ANY of the given tolerances (a scalar tolerance is the one-element list) -/
def leAny (tols : List R) : Option R → Bool
  | none => false
  | some v => tols.any (fun t => decide (v ≤ t))

/-- `value <= tolerance`, scalar tolerance -/
def leTol (tol : R) : Option R → Bool
  | none => false
  | some v => decide (v ≤ tol)

/-! ### `collapse_at` (collapse.py l.15-49) -/

/-- an element of a set mask: a bare index (no `__len__`) or a sequence of indices -/
inductive MElem where
  | idx (i : Int)
  | seq (l : List Int)
  deriving DecidableEq, Repr

/-- the `mask` argument of `collapse_at` / `collapse_as`: `None`, a `set`, anything else -/
inductive SetMask where
  | none
  | set (es : List MElem)
  | other
  deriving Repr

def MElem.isIdx : MElem → Bool
  | .idx _ => true
  | .seq _ => false

def MElem.idx? : MElem → Option Int
  | .idx i => some i
  | .seq _ => none

/-- `target`: `None`, a single value, a list of values -/
inductive Target (R : Type) where
  | none
  | scalar (t : R)
  | vec (ts : List R)

/-- l.29-37: a set whose elements have no `__len__` is accepted, an element with `__len__` is a ValueError,
a non-set a TypeError.  Returns the indices to ignore. -/
def atMaskCheck : SetMask → Except Err (List Int)
  | .none => .ok []
  | .other => .error .type
  | .set es => if es.all MElem.isIdx = true then .ok (es.filterMap MElem.idx?) else .error .value

/-- `abs(column - t)` -/
def devCol (c : List R) (t : R) : List R := c.map (fun x => absR (x - t))

/-- numpy broadcasting of `params (T x n)` against a target vector of length `k`: resulting width -/
def bwidth (n : Nat) : Target R → Option Nat
  | .vec ts => if n = ts.length then some n else if n = 1 then some ts.length
               else if ts.length = 1 then some n else none
  | _ => some n

/-- `change(param[i])` over the window (l.42-43): `ptp` when `target is None`, else `max |x - target|` -/
def changeAt (w : List (List R)) (n : Nat) : Target R → Nat → Option R
  | .none, i => ptp (colOf w i)
  | .scalar t, i => maxL (devCol (colOf w i) t)
  | .vec ts, i =>
      match ts[if ts.length = 1 then 0 else i]? with
      | some t => maxL (devCol (colOf w (if n = 1 then 0 else i)) t)
      | none => none

/-- `collapse_at(stepmon, target, tolerance, generations, mask)`: sorted list of the returned set -/
def collapseAt (hist : List (List R)) (tgt : Target R) (tols : List R) (g : Option Int) (mask : SetMask) :
    Except Err (List Nat) :=
  match atMaskCheck mask with
  | .error e => .error e
  | .ok ms =>
    match lastN g hist with
    | [] => .error .value                       -- zero-size reduction / broadcast of an empty array
    | r :: rest =>
      if isRect r.length rest = true then
        match bwidth r.length tgt with
        | none => .error .value                 -- operands could not be broadcast together
        | some k =>
          .ok ((List.range k).filter (fun i =>
            leAny tols (changeAt (r :: rest) r.length tgt i) && !(ms.contains (Int.ofNat i))))
      else .error .value                        -- inhomogeneous shape

/-! ### `collapse_as` (collapse.py l.52-98) -/

def MElem.okAs : MElem → Bool
  | .idx _ => true
  | .seq l => l.length == 2

/-- l.64-72 -/
def asMaskCheck : SetMask → Except Err (List MElem)
  | .none => .ok []
  | .other => .error .type
  | .set es => if es.all MElem.okAs = true then .ok es else .error .value

/-- `selector(mask)(pair)` l.338-360: the pair (either orientation) is in the mask, or one of its members is a
bare index of the mask -/
def asMasked (es : List MElem) (i j : Nat) : Bool :=
  es.any (fun e =>
    match e with
    | .idx a => a == Int.ofNat i || a == Int.ofNat j
    | .seq l => l == [Int.ofNat i, Int.ofNat j] || l == [Int.ofNat j, Int.ofNat i])

/-- the column of pairwise distances `|x_i - x_j|` over the window (`tools.pairwise`) -/
def distCol (w : List (List R)) (i j : Nat) : List R :=
  w.filterMap (fun r => match r[i]?, r[j]? with
                        | some a, some b => some (absR (a - b))
                        | _, _ => none)

/-- l.87-90: `ptp` of the distance when tracking at an offset, else its `max` -/
def pairChange (w : List (List R)) (offset : Bool) (i j : Nat) : Option R :=
  if offset = true then ptp (distCol w i j) else maxL (distCol w i j)

def collapseAs (hist : List (List R)) (offset : Bool) (tol : R) (g : Option Int) (mask : SetMask) :
    Except Err (List (Nat × Nat)) :=
  match asMaskCheck mask with
  | .error e => .error e
  | .ok es =>
    match lastN g hist with
    | [] => .error .value                        -- `x.reshape(-1, 0)` of an empty array
    | r :: rest =>
      if isRect r.length rest = true then
        if r.length = 0 then .error .value
        else .ok ((pairsOf r.length).filter (fun p =>
               leTol tol (pairChange (r :: rest) offset p.1 p.2) && !(asMasked es p.1 p.2)))
      else .error .value

/-! ### measure readers (monitors.py l.296-324, l.673-692) -/

/-- `get_iwts` (`pos = false`) / `get_ipos` (`pos = true`): column indices of the weights / positions.
The position offset is `npts[0]` for every measure, as coded. -/
def measIdxGo (n0 : Nat) (pos : Bool) : List Nat → Nat → List Nat
  | [], _ => []
  | n :: rest, s => (List.range n).map (fun k => 2 * s + k + (if pos = true then n0 else 0))
                      ++ measIdxGo n0 pos rest (s + n)

def measIdx (npts : List Nat) (pos : Bool) : List Nat := measIdxGo (npts.headD 0) pos npts 0

/-- one row reshaped to `(len(npts), -1)` -/
def chunkRow {α : Type} (m k : Nat) (row : List α) : List (List α) :=
  (List.range m).map (fun a => (row.drop (a * k)).take k)

/-- `numpy.array(monitor.wts[-g:])` resp. `.pos`: the window as `T x m x k`.
`npts = none` is a monitor without `npts` (`None[indx:]`, TypeError). -/
def measWindow (hist : List (List R)) (npts : Option (List Nat)) (pos : Bool) (g : Option Int) :
    Except Err (List (List (List R))) :=
  match npts with
  | none => .error .type
  | some np =>
    match hist with
    | [] => .error .index                         -- `numpy.array([])[:, idx]`: too many indices
    | r :: rest =>
      if isRect r.length rest = true then
        let idx := measIdx np pos
        if idx.all (fun i => decide (i < r.length)) = true then
          let m := np.length
          if m = 0 then .error .value              -- reshape (T, 0, -1)
          else if idx.length % m = 0 then
            let k := idx.length / m
            .ok (lastN g ((r :: rest).map (fun row => chunkRow m k (idx.filterMap (fun i => row[i]?)))))
          else .error .value
        else .error .index
      else .error .value

/-- the history of entry `(a, i)` over the window -/
def cellCol (w : List (List (List R))) (a i : Nat) : List R :=
  w.filterMap (fun t => match t[a]? with
                        | some row => row[i]?
                        | none => none)

/-- the history of `|pos[a][i] - pos[a][j]|` over the window -/
def cellDist (w : List (List (List R))) (a i j : Nat) : List R :=
  w.filterMap (fun t => match t[a]? with
                        | some row => (match row[i]?, row[j]? with
                                       | some x, some y => some (absR (x - y))
                                       | _, _ => none)
                        | none => none)

/-- format of a measure mask, which is also the format of the detector's return value -/
inductive Fmt where
  | dict | set | wher
  deriving DecidableEq, Repr

def Fmt.str : Fmt → String
  | .dict => "dict"
  | .set => "set"
  | .wher => "where"

/-! ### `collapse_weight` (collapse.py l.101-155, `_weight_filter` l.362-377) -/

/-- the `mask` argument of `collapse_weight` as the generator builds it (`none` entries are rejected ones) -/
inductive WMask where
  | none
  | set (es : List (Option (Int × Int)))          -- set of (measure, index); `none` = a bad element
  | dict (es : List (Option (Int × List Int)))    -- {measure: {indices}}; `none` = a bad entry
  | wher (ms is : List Int)                       -- 2 sequences (measures, indices)
  | empty                                         -- `()` or `[]`: replaced by an empty 'where' mask (l.136-137)
  | other                                         -- anything else
  deriving Repr

/-- an accepted weight mask -/
inductive WNorm where
  | none
  | set (es : List (Int × Int))
  | dict (es : List (Int × List Int))
  | wher (es : List (Int × Int))
  deriving Repr

def allSome {α : Type} : List (Option α) → Option (List α)
  | [] => some []
  | none :: _ => none
  | some a :: rest => match allSome rest with
                      | some l => some (a :: l)
                      | none => none

/-- l.113-140 -/
def wMaskCheck : WMask → Except Err WNorm
  | .none => .ok .none
  | .set es => match allSome es with
               | some l => .ok (.set l)
               | none => .error .value
  | .dict es => match allSome es with
                | some l => .ok (.dict l)
                | none => .error .value
  | .wher ms is => if ms.length = is.length then .ok (.wher (ms.zip is)) else .error .type
  | .empty => .ok (.wher [])
  | .other => .error .type

def WNorm.fmt : WNorm → Fmt
  | .none => .dict
  | .set _ => .set
  | .dict _ => .dict
  | .wher _ => .wher

/-- `mask[i] if i in mask else set()` -/
def dictGet {β : Type} (d : List (Int × List β)) (a : Int) : List β :=
  match d.find? (fun e => e.1 == a) with
  | some e => e.2
  | none => []

/-- is `(measure a, index i)` removed by the mask filter -/
def wMasked (m : WNorm) (a i : Nat) : Bool :=
  match m with
  | .none => false
  | .set es => es.contains (Int.ofNat a, Int.ofNat i)
  | .dict d => (dictGet d (Int.ofNat a)).contains (Int.ofNat i)
  | .wher es => es.contains (Int.ofNat a, Int.ofNat i)

/-- all `(measure, index)` cells of a `m x k` table, row-major -/
def cellsOf (m k : Nat) : List (Nat × Nat) :=
  (List.range m).flatMap (fun a => (List.range k).map (fun i => (a, i)))

/-- the detector on the extracted window (l.142-155) -/
def weightCore (w : List (List (List R))) (tol : R) (mask : WNorm) : Except Err (Fmt × List (Nat × Nat)) :=
  match w with
  | [] => .error .value                            -- zero-size reduction
  | t :: _ =>
    .ok (mask.fmt, (cellsOf t.length ((t.headD []).length)).filter (fun c =>
            leTol tol (maxL (cellCol w c.1 c.2)) && !(wMasked mask c.1 c.2)))

def collapseWeight (hist : List (List R)) (npts : Option (List Nat)) (tol : R) (g : Option Int) (mask : WMask) :
    Except Err (Fmt × List (Nat × Nat)) :=
  match wMaskCheck mask with
  | .error e => .error e
  | .ok nm =>
    match measWindow hist npts false g with
    | .error e => .error e
    | .ok w => weightCore w tol nm

/-! ### `collapse_position` (collapse.py l.158-239, `_position_filter` l.379-404) -/

inductive PMask where
  | none
  | set (es : List (Option (Int × List Int)))           -- set of (measure, sequence); `none` = a bad element
  | dict (es : List (Option (Int × List (Int × Int))))  -- {measure: {pairs}}; `none` = a bad entry
  | wher (ms : List Int) (ps : List (List Int)) (tupled : Bool)
        -- (measures, pairs); `tupled = false`: the pairs are lists (they compare unequal to the tuples the
        -- detector produces, only their reversed copies made by `_inverted` are tuples)
  | empty
  | other
  deriving Repr

inductive PNorm where
  | none
  | set (es : List (Int × List Int))
  | dict (es : List (Int × List (Int × Int)))
  | wher (es : List (Int × Bool × List Int))            -- (measure, is-a-tuple, sequence)
  deriving Repr

/-- l.171-203: in 'where' format `mask[1]` must be a non-empty rectangular table (`ndim == 2`) -/
def pMaskCheck : PMask → Except Err PNorm
  | .none => .ok .none
  | .set es => match allSome es with
               | some l => .ok (.set l)
               | none => .error .value
  | .dict es => match allSome es with
                | some l => .ok (.dict l)
                | none => .error .value
  | .wher ms ps tupled =>
      match ps with
      | [] => .error .type
      | p :: rest =>
        if rest.all (fun q => q.length == p.length) = true then
          -- l.400-401: `mask = _mask+_mask, tuple(pairs)+tuple(_inverted(pairs))`, then `zip(*mask)`
          .ok (.wher ((ms ++ ms).zip (ps.map (fun q => (tupled, q)) ++ ps.map (fun q => (true, q.reverse)))))
        else .error .type
  | .empty => .ok (.wher [])
  | .other => .error .type

def PNorm.fmt : PNorm → Fmt
  | .none => .dict
  | .set _ => .set
  | .dict _ => .dict
  | .wher _ => .wher

/-- is `(measure a, pair (i, j))` removed by the mask filter -/
def pMasked (m : PNorm) (a i j : Nat) : Bool :=
  match m with
  | .none => false
  | .set es => es.contains (Int.ofNat a, [Int.ofNat i, Int.ofNat j])
               || (es.map (fun e => (e.1, e.2.reverse))).contains (Int.ofNat a, [Int.ofNat i, Int.ofNat j])
  | .dict d => (dictGet d (Int.ofNat a)).contains (Int.ofNat i, Int.ofNat j)
               || (dictGet d (Int.ofNat a)).contains (Int.ofNat j, Int.ofNat i)
  | .wher es => es.contains (Int.ofNat a, true, [Int.ofNat i, Int.ofNat j])

/-- all `(measure, (i, j))`, row-major -/
def pcellsOf (m k : Nat) : List (Nat × Nat × Nat) :=
  (List.range m).flatMap (fun a => (pairsOf k).map (fun p => (a, p.1, p.2)))

def positionCore (w : List (List (List R))) (tol : R) (mask : PNorm) :
    Except Err (Fmt × List (Nat × Nat × Nat)) :=
  match w with
  | [] => .error .value                            -- `x.reshape(-1, 0)` of an empty array
  | t :: _ =>
    if (t.headD []).length = 0 then .error .value
    else .ok (mask.fmt, (pcellsOf t.length ((t.headD []).length)).filter (fun c =>
            leTol tol (maxL (cellDist w c.1 c.2.1 c.2.2)) && !(pMasked mask c.1 c.2.1 c.2.2)))

def collapsePosition (hist : List (List R)) (npts : Option (List Nat)) (tol : R) (g : Option Int) (mask : PMask) :
    Except Err (Fmt × List (Nat × Nat × Nat)) :=
  match pMaskCheck mask with
  | .error e => .error e
  | .ok nm =>
    match measWindow hist npts true g with
    | .error e => .error e
    | .ok w => positionCore w tol nm

end Scalar

/-! ### `mask.update_mask` (mask.py l.22-74) on condition trees

Elements of masks are opaque here (`E` with decidable equality): an index, a pair, a `(measure, index)`... -/

section Masks
variable {E : Type} [DecidableEq E]

/-- the value of `kwds['mask']` of a Collapse* condition, and the value a detector reports -/
inductive MaskV (E : Type) where
  | none
  | set (es : List E)
  | dict (d : List (Int × List E))
  | wher (tup : Bool) (ms : List Int) (es : List E)   -- `tup`: the two inner sequences are tuples (else lists)
  | emptyseq                                           -- `()` / `[]`
  deriving DecidableEq, Repr

/-- Python truthiness of a mask (`if not _mask`, l.61): `((), ())` has length 2 and is truthy -/
def MaskV.falsy : MaskV E → Bool
  | .none => true
  | .set es => es.isEmpty
  | .dict d => d.isEmpty
  | .wher _ _ _ => false
  | .emptyseq => true

/-- `set.update` on duplicate-free lists -/
def unionL (a b : List E) : List E := a ++ b.filter (fun x => !a.contains x)

/-- `for k,v in mask.items(): _mask.setdefault(k,v).update(v)` (l.67-68) -/
def dictMerge (old : List (Int × List E)) : List (Int × List E) → List (Int × List E)
  | [] => old
  | (k, v) :: rest =>
      let old' := if old.any (fun e => e.1 == k) = true
                  then old.map (fun e => if e.1 == k then (e.1, unionL e.2 v) else e)
                  else old ++ [(k, v)]
      dictMerge old' rest

/-- `_extend_mask` l.52-74 on the mask value alone (`.error .type`: `list + tuple` in the 'where' branch; mixing
formats is not modelled and is never generated - a detector reports in the format of its mask) -/
def extendV (old new : MaskV E) : Except Err (MaskV E) :=
  match new with
  | .none => .ok old                                       -- l.54
  | _ =>
    if old.falsy = true then .ok new                       -- l.61-62
    else match old, new with
      | .set a, .set b => .ok (.set (unionL a b))          -- l.63-64
      | .dict a, .dict b => .ok (.dict (dictMerge a b))    -- l.65-69
      | .wher t ms es, .wher t' ms' es' =>                 -- l.72-73
          if t = t' then .ok (.wher t (ms ++ ms') (es ++ es')) else .error .type
      | _, _ => .error .type

/-- a primitive termination condition: its factory (`ty`), its keyword settings other than the mask (`kw`),
whether it has a `mask` keyword at all, and the mask -/
structure Prim (E : Type) where
  ty : Nat
  kw : Nat
  hasMask : Bool
  mask : MaskV E
  deriving DecidableEq, Repr

/-- a termination condition: a primitive or a `When / And / Or` tuple (`w`: the tuple is a `When`, whose
constructor takes exactly one argument - `When(And(a, b))` is a `When` with TWO members, termination.py l.76-81) -/
inductive Cond (E : Type) where
  | prim (p : Prim E)
  | node (w : Bool) (cs : List (Cond E))

/-- `type(condition)(*conditions)` (mask.py l.41): `When.__new__` rejects anything but one argument (TypeError) -/
def rebuild {E : Type} (w : Bool) (cs : List (Cond E)) : Except Err (Cond E) :=
  if w = true ∧ cs.length ≠ 1 then .error .type else .ok (.node w cs)

/-- the key of a collapse message: the doc string of the primitive that reported, i.e. its factory and all
its keyword settings at the time of the report (`termdoc.startswith(kind)`, l.38) -/
def Prim.hasDoc (p k : Prim E) : Bool := decide (p = k)

/-- `_extend_mask(condition, mask)` on a primitive -/
def extendPrim (p : Prim E) (new : MaskV E) : Except Err (Prim E) :=
  match new with
  | .none => .ok p
  | _ =>
    if p.hasMask = true then
      match extendV p.mask new with
      | .ok m => .ok { p with mask := m }
      | .error e => .error e
    else .ok p                                             -- l.58: no `mask` keyword: rebuilt unchanged

mutual
/-- the loop body of `_update_masks` l.36-40 on one member of a tuple -/
def updIn (k : Prim E) (new : MaskV E) : Cond E → Except Err (Cond E)
  | .prim p => if p.hasDoc k = true then
                 (match extendPrim p new with
                  | .ok q => .ok (.prim q)
                  | .error e => .error e)
               else .ok (.prim p)
  | .node w cs => match updInL k new cs with
                  | .ok cs' => rebuild w cs'
                  | .error e => .error e
def updInL (k : Prim E) (new : MaskV E) : List (Cond E) → Except Err (List (Cond E))
  | [] => .ok []
  | c :: cs => match updIn k new c with
               | .error e => .error e
               | .ok c' => match updInL k new cs with
                           | .ok cs' => .ok (c' :: cs')
                           | .error e => .error e
end

/-- `_update_masks(condition, mask, kind)` l.31-44: a bare primitive is extended WHATEVER the kind -/
def updateMasks (c : Cond E) (new : MaskV E) (k : Prim E) : Except Err (Cond E) :=
  match c with
  | .node w cs => match updInL k new cs with
                  | .ok cs' => rebuild w cs'
                  | .error e => .error e
  | .prim p => match extendPrim p new with
               | .ok q => .ok (.prim q)
               | .error e => .error e

/-- `update_mask(condition, collapse)` l.22-27: one `_update_masks` per entry of the collapse dict -/
def updateMask (c : Cond E) : List (Prim E × MaskV E) → Except Err (Cond E)
  | [] => .ok c
  | (k, m) :: rest => match updateMasks c m k with
                      | .ok c' => updateMask c' rest
                      | .error e => .error e

mutual
/-- the primitives of a condition, left to right (`termination.state` visits them in this order) -/
def Cond.prims : Cond E → List (Prim E)
  | .prim p => [p]
  | .node _ cs => Cond.primsL cs
def Cond.primsL : List (Cond E) → List (Prim E)
  | [] => []
  | c :: cs => Cond.prims c ++ Cond.primsL cs
end

/-- membership of an element in a mask value (`dict`: under the given key) -/
def MaskV.has (m : MaskV E) (key : Int) (e : E) : Bool :=
  match m with
  | .none => false
  | .set es => es.contains e
  | .dict d => d.any (fun kv => kv.1 == key && kv.2.contains e)
  | .wher _ ms es => (ms.zip es).contains (key, e)
  | .emptyseq => false

end Masks

/-! ### the collapse loop of `_Solve` (abstract_solver.py l.1134-1143), abstractly

`while self._collapse and self.Collapse(): <inner solve>`: every round a detector reports a set of items
(indices, or pairs coded as numbers) of a universe `0..n-1`; what is reported and not yet masked is applied and
added to the mask; the loop ends at the first round that reports nothing new. -/
namespace Loop

/-- what a detector with this mask reports of `rep`: the members of the universe that are not masked -/
def fresh (n : Nat) (mask rep : List Nat) : List Nat :=
  rep.filter (fun i => decide (i < n) && !(mask.contains i))

/-- number of collapses applied, and the final mask -/
def run (n : Nat) (mask : List Nat) : List (List Nat) → Nat × List Nat
  | [] => (0, mask)
  | rep :: rest =>
    match fresh n mask rep with
    | [] => (0, mask)
    | f :: fs => ((run n (mask ++ (f :: fs)) rest).1 + 1, (run n (mask ++ (f :: fs)) rest).2)

end Loop

end MysticVerif.Clps
