/-
Model of the statistical definitions and moment-imposing transforms of
`mystic/math/measures.py`, the norms / point-to-point metrics of `mystic/math/distance.py`,
`mystic.tools.connected` and `mystic/math/approx.py tolerance / almostEqual` (property C18).

Everything is written once over a scalar type `R` that only carries *operations*; the driver
instantiates `R := Float` (bit-exact re-execution), the theorems a linearly ordered field.
The code is mirrored as it is (file + line numbers of /repo in the comments):

* Python's builtin `sum` / numpy `sum` are modelled by the left fold `lsum` (start value `0`);
  the real summation order (compensated builtin `sum`, pairwise numpy `sum`) is NOT modelled - the
  correspondence therefore compares bit-exactly only on the exactness regime (DESIGN.md 3.2).
* truthiness `if x:` / `if not x:` of a number is `truthy x = !(x == 0)`.
* `inf`, `nan`, `sqrt` and `t ** (1./p)` are parameters (`Consts`): an ordered field need not have them.
* `median` / `mad` use a STABLE insertion sort for `numpy.sort` / `argsort`; the order numpy gives to EQUAL samples
  that carry different weights is not modelled (the correspondence skips such cases).
* Python exceptions (empty input to `max`, index out of range, ...) are NOT results of these total
  functions; the driver checks the corresponding preconditions first (`Drv/C18.lean`).
No Mathlib imports: this file is linked into `mvdrv`.
-/

namespace MysticVerif.Meas

/-- the non-field constants the code uses -/
structure Consts (R : Type) where
  inf : R
  nan : R
  /-- `numpy.sqrt` -/
  sqrt : R → R
  /-- `t ** (1./p)` (distance.py l.35, l.186) -/
  root : Nat → R → R

section
variable {R : Type} [Add R] [Sub R] [Mul R] [Div R] [Neg R] [LT R] [DecidableLT R] [LE R] [DecidableLE R]
  [BEq R] [OfNat R 0] [OfNat R 1] [OfNat R 2] [NatCast R]

/-- `sum(l)` : left fold from `0` -/
def lsum (l : List R) : R := l.foldl (· + ·) 0

/-- `abs(x)` (the sign of a zero is not modelled) -/
def absR (x : R) : R := if x < 0 then -x else x

/-- `bool(x)` for a number -/
def truthy (x : R) : Bool := !(x == 0)

/-- `x ** n` for a non-negative integer `n`, by repeated multiplication -/
def powN (x : R) : Nat → R
  | 0 => 1
  | n + 1 => powN x n * x

/-- builtin `max` continued from a current maximum: replaced when `item > maxval` -/
def pymaxFrom (m : R) : List R → R
  | [] => m
  | x :: xs => pymaxFrom (if m < x then x else m) xs

/-- builtin `min` continued from a current minimum: replaced when `item < minval` -/
def pyminFrom (m : R) : List R → R
  | [] => m
  | x :: xs => pyminFrom (if x < m then x else m) xs

/-- `max(l)`; `none` is Python's `ValueError` on an empty sequence -/
def pymax? : List R → Option R
  | [] => none
  | x :: xs => some (pymaxFrom x xs)

def pymin? : List R → Option R
  | [] => none
  | x :: xs => some (pyminFrom x xs)

/-- measures.py l.62 `spread(samples) = max(samples) - min(samples)` (non-empty input) -/
def spread : List R → R
  | [] => 0
  | x :: xs => pymaxFrom x xs - pyminFrom x xs

/-- measures.py l.276 `mean(samples, weights=None, tol=0)` -/
def mean (C : Consts R) (xs : List R) (ws : Option (List R)) (tol : R) : R :=
  let ssum := match ws with
    | none => lsum xs / (xs.length : R)                     -- l.288
    | some w => lsum (List.zipWith (· * ·) xs w)            -- l.292 (zip truncates)
  let wts : R := match ws with
    | none => 1                                             -- l.289
    | some w => lsum w                                      -- l.294
  if truthy wts = true then                                 -- l.295
    if absR (ssum / wts) ≤ tol then 0 else ssum / wts       -- l.296-297
  else ssum * C.inf                                         -- l.299

/-- measures.py l.301 `support_index(weights, tol=0)` -/
def supportIndex (ws : List R) (tol : R) : List Nat :=
  ((List.range ws.length).zip ws).filterMap fun p => if tol < p.2 then some p.1 else none

/-- measures.py l.313 `support(samples, weights, tol=0)` (for `len(samples) >= len(weights)`) -/
def support {X : Type} (xs : List X) (ws : List R) (tol : R) : List X :=
  (xs.zip ws).filterMap fun p => if tol < p.2 then some p.1 else none

/-- measures.py l.326 `moment(samples, weights=None, order=1, tol=0)` -/
def moment (C : Consts R) (xs : List R) (ws : Option (List R)) (order : Nat) (tol : R) : R :=
  if order = 0 then 1 else if order = 1 then 0 else        -- l.338-339
  mean C (xs.map fun s => powN (s - mean C xs ws 0) order) ws tol   -- l.341-343

/-- measures.py l.362 `variance` -/
def variance (C : Consts R) (xs : List R) (ws : Option (List R)) : R := moment C xs ws 2 0

/-- measures.py l.374 `std` -/
def std (C : Consts R) (xs : List R) (ws : Option (List R)) : R := C.sqrt (variance C xs ws)

/-- measures.py l.88 / l.121 / l.154 `maximum / minimum / ptp (f, samples)`; `none` = `ValueError` -/
def maximum {X : Type} (f : X → R) (xs : List X) : Option R := pymax? (xs.map f)
def minimum {X : Type} (f : X → R) (xs : List X) : Option R := pymin? (xs.map f)
def ptp {X : Type} (f : X → R) (xs : List X) : Option R :=
  match xs.map f with
  | [] => none
  | y :: ys => some (pymaxFrom y ys - pyminFrom y ys)

/-- measures.py l.103 / l.136 / l.169 `ess_maximum / ess_minimum / ess_ptp` -/
def essMaximum {X : Type} (f : X → R) (xs : List X) (ws : Option (List R)) (tol : R) : Option R :=
  match ws with
  | none => maximum f xs
  | some w => maximum f (support xs w tol)
def essMinimum {X : Type} (f : X → R) (xs : List X) (ws : Option (List R)) (tol : R) : Option R :=
  match ws with
  | none => minimum f xs
  | some w => minimum f (support xs w tol)
def essPtp {X : Type} (f : X → R) (xs : List X) (ws : Option (List R)) (tol : R) : Option R :=
  match ws with
  | none => ptp f xs
  | some w => ptp f (support xs w tol)

/-- the pairs `(f(x), w)` kept by `expectation` / `_expected_moment` (l.210, l.241): `abs(w) > tol` -/
def heavy {X : Type} (xs : List X) (w : List R) (tol : R) : List (X × R) :=
  (xs.zip w).filter fun p => decide (tol < absR p.2)

/-- measures.py l.187 `expectation(f, samples, weights=None, tol=0.0)` -/
def expectation {X : Type} (C : Consts R) (f : X → R) (xs : List X) (ws : Option (List R)) (tol : R) : R :=
  match ws with
  | none => mean C (xs.map f) none 0                                   -- l.200-201
  | some w =>
    if (w.filter fun wi => decide (tol < absR wi)).length = 0 then      -- l.207
      mean C [0] (some [0]) 0                                           -- l.208, l.211
    else
      mean C ((heavy xs w tol).map fun p => f p.1) (some ((heavy xs w tol).map (·.2))) 0   -- l.210-211

/-- measures.py l.218 `_expected_moment(f, samples, weights=None, order=1, tol=0.0)` (`order >= 0`) -/
def expectedMoment {X : Type} (C : Consts R) (f : X → R) (xs : List X) (ws : Option (List R))
    (order : Nat) (tol : R) : R :=
  match ws with
  | none => moment C (xs.map f) none order 0                           -- l.234-235
  | some w =>
    if (w.filter fun wi => decide (tol < absR wi)).length = 0 then      -- l.238
      moment C [0] (some [0]) order 0
    else
      moment C ((heavy xs w tol).map fun p => f p.1) (some ((heavy xs w tol).map (·.2))) order 0

/-! ### coordinate shift methods -/

/-- measures.py l.414 `impose_mean(m, samples, weights=None)` -/
def imposeMean (C : Consts R) (m : R) (xs : List R) (ws : Option (List R)) : List R :=
  xs.map (· + (m - mean C xs ws 0))                                     -- l.431-432

/-- measures.py l.436 `impose_variance(v, samples, weights=None)` -/
def imposeVariance (C : Consts R) (v : R) (xs : List R) (ws : Option (List R)) : List R :=
  if truthy (variance C xs ws) = true then                              -- l.453
    imposeMean C (mean C xs ws 0) (xs.map (· * C.sqrt (v / variance C xs ws))) ws   -- l.460-463
  else if truthy v = true then List.replicate xs.length C.nan            -- l.457
  else xs                                                               -- l.455

/-- measures.py l.469 `impose_std(s, samples, weights=None)` : `impose_variance(s**2, ...)` -/
def imposeStd (C : Consts R) (s : R) (xs : List R) (ws : Option (List R)) : List R :=
  imposeVariance C (s * s) xs ws

/-- measures.py l.548 `impose_spread(r, samples, weights=None)` (non-empty input) -/
def imposeSpread (C : Consts R) (r : R) (xs : List R) (ws : Option (List R)) : List R :=
  if truthy (spread xs) = true then                                     -- l.565
    imposeMean C (mean C xs ws 0) (xs.map (· * (r / spread xs))) ws     -- l.568-570
  else List.replicate xs.length C.nan                                   -- l.567

/-! ### weights -/

/-- the `not w` / `not m` exits of `normalize` (l.1356-1359, l.1369-1372) -/
def normalizeDegenerate (C : Consts R) (ws : List R) (zsum : Bool) : List R :=
  if zsum = true then ws.map fun x => (if x == 0 then C.nan else x) * C.inf
  else ws.map (· * 0)

/-- measures.py l.1329 `normalize(weights, mass, zsum=False, zmass=1.0)` for a NUMBER `mass`
(the `fixed` branch) -/
def normalize (C : Consts R) (ws : List R) (mass : R) (zsum : Bool) (zmass : R) : List R :=
  let w := lsum (ws.map absR)                                           -- l.1349
  if truthy w = true then
    if (truthy mass || !zsum) = true then                               -- l.1361
      let w1 := ws.map (· / w)                                          -- l.1362
      let m := lsum w1                                                  -- l.1366
      if truthy m = true then (w1.map (mass * ·)).map (· / m)           -- l.1367, l.1373
      else normalizeDegenerate C ws zsum                                -- l.1368-1372
    else
      -- l.1376-1379: weights[-1] = -(sum(weights) - weights[-1]); mass*weights/w
      let last := ws.getLastD 0
      let ws' := ws.dropLast ++ [-(lsum ws - last)]
      ws'.map fun x => zmass * x / w
  else normalizeDegenerate C ws zsum                                    -- l.1355-1359

/-- distance.py l.13 `Lnorm(weights, p)` for a natural `p` (`axis=None`) -/
def lnorm (C : Consts R) (ws : List R) (p : Nat) : R :=
  if p = 0 then ((ws.filter truthy).length : R)                         -- l.27
  else C.root p (lsum (ws.map fun x => absR (powN x p)))                -- l.35

/-- distance.py l.29 `Lnorm(weights, inf)` = `max(abs(weights))` (non-empty input) -/
def lnormInf (ws : List R) : R :=
  match ws.map absR with
  | [] => 0
  | y :: ys => pymaxFrom y ys

/-- `normalize(weights, 'l<p>')` (l.1341, l.1351-1353, l.1362-1363) -/
def normalizeL (C : Consts R) (ws : List R) (p : Nat) (zsum : Bool) : List R :=
  let w := lnorm C ws (min 200 p)
  if truthy w = true then ws.map (· / w) else normalizeDegenerate C ws zsum

/-- measures.py l.1315 `impose_weight_norm(samples, weights, mass=1.0)` -/
def imposeWeightNorm (C : Consts R) (xs ws : List R) (mass : R) : List R × List R :=
  (imposeMean C (mean C xs (some ws) 0) xs (some (normalize C ws mass false 1)), normalize C ws mass false 1)

/-! ### support surgery -/

/-- `len(weights)+i if i<0 else i` -/
def normIdx (n : Nat) (i : Int) : Int := if i < 0 then (n : Int) + i else i

/-- `i in index` after the negative-index normalisation (l.1724, l.1753) -/
def inIndex (n : Nat) (index : List Int) (i : Nat) : Bool := (index.map (normIdx n)).contains (i : Int)

/-- `[g(i,w) for (i,w) in enumerate(weights)]` -/
def mapIdx (ws : List R) (g : Nat → R → R) : List R :=
  ((List.range ws.length).zip ws).map fun p => g p.1 p.2

/-- measures.py l.1702 `impose_support(index, samples, weights)` -/
def imposeSupport (C : Consts R) (index : List Int) (xs ws : List R) : List R × List R :=
  let w' := normalize C (mapIdx ws fun i w => if inIndex ws.length index i = true then w else 0) (lsum ws) false 1
  (imposeMean C (mean C xs (some ws) 0) xs (some w'), w')

/-- measures.py l.1733 `impose_unweighted(index, samples, weights, nullable=True)` -/
def imposeUnweighted (C : Consts R) (index : List Int) (xs ws : List R) (nullable : Bool) : List R × List R :=
  let w0 := mapIdx ws fun i w => if inIndex ws.length index i = true then 0 else w       -- l.1756
  let w1 := if (!nullable && !truthy (lsum w0)) = true
    then mapIdx ws fun i _ => if inIndex ws.length index i = true then 0 else 1           -- l.1758
    else w0
  let w' := normalize C w1 (lsum ws) false 1
  (imposeMean C (mean C xs (some ws) 0) xs (some w'), w')

/-! ### `tools.connected` (tools.py l.770) and `impose_collapse` (measures.py l.1763) -/

/-- the dict of `connected`, in insertion order; a value set is a duplicate-free list -/
abbrev Groups := List (Int × List Int)

def hasNode (i : Int) (g : Int × List Int) : Bool := i == g.1 || g.2.contains i
def addMember (j : Int) (g : Int × List Int) : Int × List Int := if g.2.contains j = true then g else (g.1, g.2 ++ [j])

/-- the `for k,v in collapse.items()` search of one pair; `none` = `not found` -/
def connInsert (i j : Int) : Groups → Option Groups
  | [] => none
  | g :: gs =>
    if hasNode i g = true then some (addMember j g :: gs)               -- l.785-786
    else if hasNode j g = true then some (addMember i g :: gs)          -- l.787-788
    else (connInsert i j gs).map (g :: ·)

def connected (pairs : List (Int × Int)) : Groups :=
  pairs.foldl (fun c p => match connInsert p.1 p.2 c with
    | some c' => c'
    | none => c ++ [(p.1, [p.2])]) []                                    -- l.789-790

/-- state of the collapse loop: running weight `v`, weights, samples -/
structure CState (R : Type) where
  v : R
  ws : List R
  xs : List R

/-- l.1792-1795: `v += weights[k]; weights[k] = 0.0; samples[k] = samples[i]` -/
def collapseStep (i : Nat) (s : CState R) (k : Nat) : CState R :=
  { v := s.v + s.ws.getD k 0, ws := s.ws.set k 0, xs := s.xs.set k (s.xs.getD i 0) }

/-- l.1790-1796 for one group `i -> J` (indices in range); returns `(samples, weights)` -/
def collapseGroup (xw : List R × List R) (g : Nat × List Nat) : List R × List R :=
  let s := g.2.foldl (collapseStep g.1) { v := xw.2.getD g.1 0, ws := xw.2, xs := xw.1 }
  (s.xs, s.ws.set g.1 s.v)

/-- the groups of `impose_collapse` as natural indices (after l.1786 and `connected`) -/
def collapseGroups (n : Nat) (pairs : List (Int × Int)) : List (Nat × List Nat) :=
  (connected (pairs.map fun p => (normIdx n p.1, normIdx n p.2))).map fun g => (g.1.toNat, g.2.map Int.toNat)

/-- measures.py l.1763 `impose_collapse(pairs, samples, weights)` -/
def imposeCollapse (C : Consts R) (pairs : List (Int × Int)) (xs ws : List R) : List R × List R :=
  let r := (collapseGroups ws.length pairs).foldl collapseGroup (xs, ws)
  (imposeMean C (mean C xs (some ws) 0) r.1 (some r.2), r.2)

/-! ### point-to-point metrics (distance.py l.115-234, `pair=True` semantics on two points) -/

/-- `abs(x - x')` coordinate-wise -/
def absdiff (x y : List R) : List R := List.zipWith (fun a b => absR (a - b)) x y

/-- `chebyshev` (non-empty points) -/
def chebyshev (x y : List R) : R :=
  match absdiff x y with
  | [] => 0
  | d :: ds => pymaxFrom d ds

/-- `hamming`: number of coordinates that differ -/
def hamming (x y : List R) : R := (((absdiff x y).filter truthy).length : R)

/-- the sum under the root of `minkowski` -/
def minkowskiSum (p : Nat) (x y : List R) : R := lsum ((absdiff x y).map (powN · p))

/-- `minkowski(x, x', p)` for natural `p >= 1` -/
def minkowski (C : Consts R) (p : Nat) (x y : List R) : R := C.root p (minkowskiSum p x y)
def euclidean (C : Consts R) (x y : List R) : R := minkowski C 2 x y
def manhattan (C : Consts R) (x y : List R) : R := minkowski C 1 x y

/-! ### approx.py -/

/-- approx.py l.124 `tolerance(x, tol, rel)` -/
def tolerance (x tol rel : R) : R := tol + absR x * rel

/-- approx.py l.81 `almostEqual(x, y, tol, rel)` on equally long lists: `|a-b| <= tol + rel*|b|` everywhere -/
def almostEqual (x y : List R) (tol rel : R) : Bool :=
  (List.zipWith (fun a b => decide (absR (a - b) ≤ tol + rel * absR b)) x y).all id

/-! ### sampling statistics: median / mad (measures.py l.1480-1546) -/

/-- insert a (sample, weight) pair into a list sorted by sample, before the first entry that is not smaller
(stable insertion sort; `numpy.sort` / `argsort` - ties between different weights are not modelled) -/
def insertBy (p : R × R) : List (R × R) → List (R × R)
  | [] => [p]
  | q :: qs => if q.1 < p.1 then q :: insertBy p qs else p :: q :: qs

/-- l.1480 `_sort(samples, weights)` as a list of (sample, weight) pairs -/
def sortPairs : List (R × R) → List (R × R)
  | [] => []
  | p :: l => insertBy p (sortPairs l)

/-- `numpy.cumsum` continued from `acc` -/
def cumsumFrom (acc : R) : List R → List R
  | [] => []
  | w :: ws => (acc + w) :: cumsumFrom (acc + w) ws

/-- `numpy.mean` of the at most two selected samples (l.1501) -/
def meanUpTo2 (C : Consts R) : List R → R
  | [] => C.nan
  | [a] => a
  | a :: b :: _ => (a + b) / 2

/-- the pairs `_sort` produces: weights `1` when `weights is None` (l.1483-1486) -/
def pairsOf (xs : List R) : Option (List R) → List (R × R)
  | none => xs.map fun x => (x, 1)
  | some w => xs.zip w

/-- the samples `x[s/2. - np.cumsum(w) <= 0][0:2-x.size%2]` whose mean is the median (l.1499-1501) -/
def medianSel (xs : List R) (ws : Option (List R)) : List R :=
  (((((sortPairs (pairsOf xs ws)).map (·.1)).zip (cumsumFrom 0 ((sortPairs (pairsOf xs ws)).map (·.2)))).filter
      fun (p : R × R) => decide (lsum ((sortPairs (pairsOf xs ws)).map (·.2)) / 2 - p.2 ≤ 0)).map (·.1)).take
    (2 - (sortPairs (pairsOf xs ws)).length % 2)

/-- measures.py l.1491 `median(samples, weights=None)` -/
def median (C : Consts R) (xs : List R) (ws : Option (List R)) : R := meanUpTo2 C (medianSel xs ws)

/-- measures.py l.1504 `mad(samples, weights=None)` -/
def mad (C : Consts R) (xs : List R) (ws : Option (List R)) : R :=
  median C (xs.map fun x => absR (x - median C xs ws)) ws

/-- measures.py l.1516 `impose_median(m, samples, weights=None)` -/
def imposeMedian (C : Consts R) (m : R) (xs : List R) (ws : Option (List R)) : List R :=
  xs.map (· + (m - median C xs ws))

/-- measures.py l.1529 `impose_mad(s, samples, weights=None)` -/
def imposeMad (C : Consts R) (s : R) (xs : List R) (ws : Option (List R)) : List R :=
  if truthy (mad C xs ws) = true then
    imposeMedian C (median C xs ws) (xs.map (· * (s / mad C xs ws))) ws     -- l.1544-1546
  else List.replicate xs.length C.nan                                      -- l.1543

end
end MysticVerif.Meas
